import Carquet.Proofs.PlainFixed
/-
Helper lemmas for PLAIN BYTE_ARRAY: the position-based loop of the C decoder on the output of the
encoder, its safety on arbitrary input, and its agreement with the Spec decoder.
-/
namespace Carquet.Proofs.Plain
open Carquet.Impl.Plain
open Carquet.Spec.Plain (leBytes ofLeBytes)

theorem readU32_mem (v : UInt32) (rest : List UInt8) : readU32 (memU32 v ++ rest) = some v := by
  simp [memU32, readU32, loadU32_mem]

theorem toInt32_nonneg_of_lt {x : UInt32} (h : x.toNat < 2 ^ 31) : ¬ toInt32 x < 0 := by
  simp only [toInt32]; split <;> omega

theorem toNat_ofNat_lt {n : Nat} (h : n < 2 ^ 32) : (UInt32.ofNat n).toNat = n := by
  rw [UInt32.toNat_ofNat']; exact Nat.mod_eq_of_lt h

/-- One record of the encoder's output. -/
def baRecord (v : List UInt8) : List UInt8 :=
  memU32 (UInt32.ofNat v.length) ++ (if v.length > 0 then v else [])

theorem baRecord_eq (v : List UInt8) : baRecord v = memU32 (UInt32.ofNat v.length) ++ v := by
  unfold baRecord
  cases v with
  | nil => simp
  | cons a l => simp

theorem baRecord_length (v : List UInt8) : (baRecord v).length = 4 + v.length := by
  rw [baRecord_eq, List.length_append, memU32_length]

theorem encodeByteArray_cons (v : List UInt8) (vs : List (List UInt8)) :
    encodeByteArray (v :: vs) = baRecord v ++ encodeByteArray vs := by
  simp [encodeByteArray, baRecord]

/-- Slices the decoder returns on `pre ++ encodeByteArray vs ++ extra` when started at `pre.length`. -/
def expectedSlices : Nat → List (List UInt8) → List (Nat × Nat)
  | _, [] => []
  | pos, v :: vs => (pos + 4, v.length) :: expectedSlices (pos + 4 + v.length) vs

theorem baLoop_encode (vs : List (List UInt8)) (hv : ∀ v ∈ vs, v.length < 2 ^ 31) :
    ∀ (pre extra : List UInt8),
      baLoop (pre ++ (encodeByteArray vs ++ extra)) vs.length pre.length =
        some (some (expectedSlices pre.length vs, pre.length + (encodeByteArray vs).length)) := by
  induction vs with
  | nil => intro pre extra; simp [baLoop, expectedSlices, encodeByteArray]
  | cons v vs ih =>
    intro pre extra
    have hlen : v.length < 2 ^ 31 := hv v (by simp)
    have ih' := ih (fun w hw => hv w (by simp [hw])) (pre ++ baRecord v) extra
    have hin : pre ++ (encodeByteArray (v :: vs) ++ extra)
        = (pre ++ baRecord v) ++ (encodeByteArray vs ++ extra) := by
      rw [encodeByteArray_cons]; simp [List.append_assoc]
    have hdrop : List.drop pre.length (pre ++ (encodeByteArray (v :: vs) ++ extra))
        = memU32 (UInt32.ofNat v.length) ++ (v ++ (encodeByteArray vs ++ extra)) := by
      rw [List.drop_left, encodeByteArray_cons, baRecord_eq]; simp [List.append_assoc]
    have htot : (pre ++ (encodeByteArray (v :: vs) ++ extra)).length
        = pre.length + (4 + v.length) + (encodeByteArray vs).length + extra.length := by
      rw [encodeByteArray_cons]; simp only [List.length_append, baRecord_length]; omega
    have hto : (UInt32.ofNat v.length).toNat = v.length := toNat_ofNat_lt (by omega)
    rw [List.length_cons, baLoop, if_neg (by rw [htot]; omega), hdrop, readU32_mem]
    simp only [hto]
    rw [if_neg (by
      intro h
      rcases h with h | h
      · exact toInt32_nonneg_of_lt (by rw [hto]; exact hlen) h
      · rw [htot] at h; omega)]
    have hpos : pre.length + 4 + v.length = (pre ++ baRecord v).length := by
      rw [List.length_append, baRecord_length]; omega
    rw [hin, hpos, ih']
    simp only [expectedSlices, encodeByteArray_cons, List.length_append, baRecord_length]
    rw [Nat.add_assoc pre.length 4 v.length, Nat.add_assoc pre.length (4 + v.length),
      Nat.add_assoc 4 v.length]

theorem expectedSlices_values (vs : List (List UInt8)) :
    ∀ (pre extra : List UInt8),
      (expectedSlices pre.length vs).map (slice (pre ++ (encodeByteArray vs ++ extra))) = vs := by
  induction vs with
  | nil => intro pre extra; rfl
  | cons v vs ih =>
    intro pre extra
    have ih' := ih (pre ++ baRecord v) extra
    have hin : pre ++ (encodeByteArray (v :: vs) ++ extra)
        = (pre ++ baRecord v) ++ (encodeByteArray vs ++ extra) := by
      rw [encodeByteArray_cons]; simp [List.append_assoc]
    have hpos : pre.length + 4 + v.length = (pre ++ baRecord v).length := by
      rw [List.length_append, baRecord_length]; omega
    simp only [expectedSlices, List.map_cons]
    rw [hpos, hin, ih']
    congr 1
    have : (pre ++ baRecord v) ++ (encodeByteArray vs ++ extra)
        = (pre ++ memU32 (UInt32.ofNat v.length)) ++ (v ++ (encodeByteArray vs ++ extra)) := by
      rw [baRecord_eq]; simp [List.append_assoc]
    simp only [slice]
    rw [this, List.drop_left' (by rw [List.length_append, memU32_length]), List.take_left]

/-! ### safety on arbitrary input -/

/-- The loop never reads outside the input, its final position and every returned slice lie
inside the input. -/
theorem baLoop_safe (input : List UInt8) : ∀ (n pos : Nat), pos ≤ input.length →
    ∃ r, baLoop input n pos = some r ∧
      ∀ sl p, r = some (sl, p) → p ≤ input.length ∧ pos ≤ p ∧ ∀ s ∈ sl, s.1 + s.2 ≤ input.length
  | 0, pos, h => ⟨some ([], pos), rfl, by
      intro sl p e
      simp only [Option.some.injEq, Prod.mk.injEq] at e
      obtain ⟨rfl, rfl⟩ := e
      exact ⟨h, Nat.le_refl _, by simp⟩⟩
  | n + 1, pos, h => by
    rw [baLoop]
    by_cases h4 : pos + 4 > input.length
    · rw [if_pos h4]; exact ⟨none, rfl, by intro sl p e; cases e⟩
    · rw [if_neg h4]
      have hl : 4 ≤ (input.drop pos).length := by rw [List.length_drop]; omega
      rcases hd : input.drop pos with _ | ⟨b0, _ | ⟨b1, _ | ⟨b2, _ | ⟨b3, tail⟩⟩⟩⟩
      all_goals try (rw [hd] at hl; simp only [List.length_cons, List.length_nil] at hl; omega)
      simp only [readU32]
      by_cases hc : toInt32 (loadU32 b0 b1 b2 b3) < 0 ∨
          pos + 4 + (loadU32 b0 b1 b2 b3).toNat > input.length
      · rw [if_pos hc]; exact ⟨none, rfl, by intro sl p e; cases e⟩
      · rw [if_neg hc]
        have hle : pos + 4 + (loadU32 b0 b1 b2 b3).toNat ≤ input.length := by omega
        obtain ⟨r, hr, hprop⟩ := baLoop_safe input n (pos + 4 + (loadU32 b0 b1 b2 b3).toNat) hle
        rw [hr]
        match r, hprop with
        | none, _ => exact ⟨none, rfl, by intro sl p e; cases e⟩
        | some (sl, p), hprop =>
          obtain ⟨hp1, hp2, hp3⟩ := hprop sl p rfl
          refine ⟨some ((pos + 4, (loadU32 b0 b1 b2 b3).toNat) :: sl, p), rfl, ?_⟩
          intro sl' p' e
          simp only [Option.some.injEq, Prod.mk.injEq] at e
          obtain ⟨rfl, rfl⟩ := e
          refine ⟨hp1, by omega, ?_⟩
          intro s hs
          rcases List.mem_cons.mp hs with rfl | hs
          · exact hle
          · exact hp3 s hs

theorem baLoop_length (input : List UInt8) : ∀ (n pos : Nat) (sl : List (Nat × Nat)) (p : Nat),
    baLoop input n pos = some (some (sl, p)) → sl.length = n
  | 0, pos, sl, p, h => by
    simp only [baLoop, Option.some.injEq, Prod.mk.injEq] at h
    rw [← h.1]; rfl
  | n + 1, pos, sl, p, h => by
    rw [baLoop] at h
    split at h
    · cases h
    · split at h
      · cases h
      · split at h
        · cases h
        · rename_i len _ _
          cases hr : baLoop input n (pos + 4 + len.toNat) with
          | none => rw [hr] at h; cases h
          | some r =>
            cases r with
            | none => rw [hr] at h; cases h
            | some q =>
              obtain ⟨sl', p'⟩ := q
              rw [hr] at h
              simp only [Option.some.injEq, Prod.mk.injEq] at h
              rw [← h.1, List.length_cons, baLoop_length input n _ sl' p' hr]

/-! ### bridge to the Spec, and the Spec's own round trips -/

theorem encodeByteArray_eq_spec (vs : List (List UInt8)) (h : ∀ v ∈ vs, v.length < 2 ^ 32) :
    encodeByteArray vs = Spec.Plain.encodeByteArray vs := by
  induction vs with
  | nil => rfl
  | cons v vs ih =>
    rw [encodeByteArray_cons, ih (fun w hw => h w (by simp [hw])), baRecord_eq, memU32_eq_leBytes,
      toNat_ofNat_lt (h v (by simp))]
    simp [Spec.Plain.encodeByteArray]

theorem spec_decodeByteArray_encode (vs : List (List UInt8)) (rest : List UInt8)
    (h : ∀ v ∈ vs, v.length < 2 ^ 32) :
    Spec.Plain.decodeByteArray vs.length (Spec.Plain.encodeByteArray vs ++ rest) = some (vs, rest) := by
  induction vs with
  | nil => simp [Spec.Plain.decodeByteArray, Spec.Plain.encodeByteArray]
  | cons v vs ih =>
    have hv : v.length < 256 ^ 4 := h v (by simp)
    have ih' := ih (fun w hw => h w (by simp [hw]))
    have e : Spec.Plain.encodeByteArray (v :: vs) ++ rest
        = leBytes 4 v.length ++ (v ++ (Spec.Plain.encodeByteArray vs ++ rest)) := by
      simp [Spec.Plain.encodeByteArray, List.append_assoc]
    have ht : List.take 4 (leBytes 4 v.length ++ (v ++ (Spec.Plain.encodeByteArray vs ++ rest)))
        = leBytes 4 v.length := List.take_left' (leBytes_length 4 _)
    have hd : List.drop 4 (leBytes 4 v.length ++ (v ++ (Spec.Plain.encodeByteArray vs ++ rest)))
        = v ++ (Spec.Plain.encodeByteArray vs ++ rest) := List.drop_left' (leBytes_length 4 _)
    rw [e, List.length_cons, Spec.Plain.decodeByteArray, ht, hd, ofLeBytes_leBytes, Nat.mod_eq_of_lt hv,
      if_neg (by simp [leBytes_length]), if_neg (by simp), List.drop_left, List.take_left, ih']

theorem spec_decodeFlba_encode (k : Nat) (vs : List (List UInt8)) (hv : ∀ v ∈ vs, v.length = k)
    (rest : List UInt8) :
    Spec.Plain.decodeFlba k vs.length (Spec.Plain.encodeFlba vs ++ rest) = some (vs, rest) := by
  induction vs with
  | nil => simp [Spec.Plain.decodeFlba, Spec.Plain.encodeFlba]
  | cons v vs ih =>
    have hk : v.length = k := hv v (by simp)
    have ih' := ih (fun w hw => hv w (by simp [hw]))
    simp only [Spec.Plain.encodeFlba, List.flatten_cons, List.append_assoc, List.length_cons,
      Spec.Plain.decodeFlba] at ih' ⊢
    rw [if_neg (by simp [hk]), List.take_left' hk, List.drop_left' hk, ih']

/-! ### the position-based loop agrees with the Spec decoder on every input below 2 GiB -/

theorem loadU32_toNat (b0 b1 b2 b3 : UInt8) :
    (loadU32 b0 b1 b2 b3).toNat = ofLeBytes [b0, b1, b2, b3] := by
  have h0 := b0.toNat_lt; have h1 := b1.toNat_lt; have h2 := b2.toNat_lt; have h3 := b3.toNat_lt
  simp only [loadU32, ofLeBytes, UInt32.toNat_ofNat']
  omega

theorem spec_ba_step (n : Nat) (b0 b1 b2 b3 : UInt8) (tail : List UInt8) :
    Spec.Plain.decodeByteArray (n + 1) (b0 :: b1 :: b2 :: b3 :: tail) =
      if tail.length < (loadU32 b0 b1 b2 b3).toNat then none
      else match Spec.Plain.decodeByteArray n (tail.drop (loadU32 b0 b1 b2 b3).toNat) with
        | none => none
        | some (vs, rest) => some (tail.take (loadU32 b0 b1 b2 b3).toNat :: vs, rest) := by
  rw [Spec.Plain.decodeByteArray, if_neg (by simp)]
  simp only [List.take_succ_cons, List.take_zero, List.drop_succ_cons, List.drop_zero, ← loadU32_toNat]
  by_cases hc : tail.length < (loadU32 b0 b1 b2 b3).toNat
  · rw [if_pos hc, if_pos hc]
  · rw [if_neg hc, if_neg hc]
    cases Spec.Plain.decodeByteArray n (List.drop (loadU32 b0 b1 b2 b3).toNat tail) with
    | none => rfl
    | some q => rfl

theorem impl_ba_step (input : List UInt8) (n pos : Nat) (b0 b1 b2 b3 : UInt8) (tail : List UInt8)
    (h4 : pos + 4 ≤ input.length) (hd : input.drop pos = b0 :: b1 :: b2 :: b3 :: tail) :
    baLoop input (n + 1) pos =
      if toInt32 (loadU32 b0 b1 b2 b3) < 0 ∨ pos + 4 + (loadU32 b0 b1 b2 b3).toNat > input.length then some none
      else match baLoop input n (pos + 4 + (loadU32 b0 b1 b2 b3).toNat) with
        | some (some (sl, p)) => some (some ((pos + 4, (loadU32 b0 b1 b2 b3).toNat) :: sl, p))
        | r => r := by
  rw [baLoop, if_neg (by omega), hd]
  rfl

theorem baLoop_spec (input : List UInt8) (hlt : input.length < 2 ^ 31) :
    ∀ (n pos : Nat), pos ≤ input.length →
      match Spec.Plain.decodeByteArray n (input.drop pos) with
      | none => baLoop input n pos = some none
      | some (vs, rest) => ∃ sl p, baLoop input n pos = some (some (sl, p)) ∧
          sl.map (slice input) = vs ∧ rest = input.drop p ∧ p ≤ input.length
  | 0, pos, h => by
    simp only [Spec.Plain.decodeByteArray]
    exact ⟨[], pos, rfl, rfl, rfl, h⟩
  | n + 1, pos, h => by
    have hbl : (input.drop pos).length = input.length - pos := List.length_drop
    by_cases h4 : (input.drop pos).length < 4
    · have hs : Spec.Plain.decodeByteArray (n + 1) (input.drop pos) = none := by
        rw [Spec.Plain.decodeByteArray, if_pos h4]
      have hi : baLoop input (n + 1) pos = some none := by rw [baLoop, if_pos (by omega)]
      simp only [hs, hi]
    · rcases hd : input.drop pos with _ | ⟨b0, _ | ⟨b1, _ | ⟨b2, _ | ⟨b3, tail⟩⟩⟩⟩
      all_goals try (rw [hd] at h4; simp only [List.length_cons, List.length_nil] at h4; omega)
      have htl : tail.length = input.length - pos - 4 := by
        have := hbl; rw [hd] at this; simp only [List.length_cons] at this; omega
      have hdrop4 : tail = input.drop (pos + 4) := by
        have : input.drop (pos + 4) = (input.drop pos).drop 4 := by rw [List.drop_drop]
        rw [this, hd]; rfl
      have hs := spec_ba_step n b0 b1 b2 b3 tail
      have hi := impl_ba_step input n pos b0 b1 b2 b3 tail (by omega) hd
      by_cases hc : tail.length < (loadU32 b0 b1 b2 b3).toNat
      · rw [if_pos hc] at hs
        rw [if_pos (by right; omega)] at hi
        simp only [hs, hi]
      · have hnneg : ¬ toInt32 (loadU32 b0 b1 b2 b3) < 0 := by
          simp only [toInt32]; split <;> omega
        rw [if_neg hc] at hs
        rw [if_neg (by intro hx; rcases hx with hx | hx; exact hnneg hx; omega)] at hi
        have hdd : tail.drop (loadU32 b0 b1 b2 b3).toNat
            = input.drop (pos + 4 + (loadU32 b0 b1 b2 b3).toNat) := by
          rw [hdrop4, List.drop_drop]
        have ih := baLoop_spec input hlt n (pos + 4 + (loadU32 b0 b1 b2 b3).toNat) (by omega)
        rw [hdd] at hs
        cases hr : Spec.Plain.decodeByteArray n (input.drop (pos + 4 + (loadU32 b0 b1 b2 b3).toNat)) with
        | none =>
          rw [hr] at ih hs
          simp only [hs, hi, ih]
        | some q =>
          obtain ⟨vs, rest⟩ := q
          rw [hr] at ih hs
          obtain ⟨sl, p, hb, hm, hrest, hp⟩ := ih
          simp only [hs, hi, hb]
          refine ⟨_, _, rfl, ?_, hrest, hp⟩
          simp only [List.map_cons, hm, slice, ← hdrop4]

end Carquet.Proofs.Plain
