import Carquet.Impl.Reader
/-
PLAIN decoding of the fixed-width types is "cut the input into values": what the zero-copy view
of a page hands out is what the copying decoder produces (helper lemmas for C03_page_modes_agree).
-/
namespace Carquet.Proofs.ReaderPlain
open Carquet.Impl Carquet.Impl.Reader Carquet.Impl.Plain

theorem memU32_loadU32 (b0 b1 b2 b3 : UInt8) : memU32 (loadU32 b0 b1 b2 b3) = [b0, b1, b2, b3] := by
  unfold memU32 loadU32
  have h0 := b0.toNat_lt; have h1 := b1.toNat_lt; have h2 := b2.toNat_lt; have h3 := b3.toNat_lt
  have e : (UInt32.ofNat (b0.toNat + 256 * b1.toNat + 65536 * b2.toNat + 16777216 * b3.toNat)).toNat
      = b0.toNat + 256 * b1.toNat + 65536 * b2.toNat + 16777216 * b3.toNat := by
    rw [UInt32.toNat_ofNat']; omega
  rw [e]
  have q0 : (b0.toNat + 256 * b1.toNat + 65536 * b2.toNat + 16777216 * b3.toNat) % 256 = b0.toNat := by omega
  have q1 : (b0.toNat + 256 * b1.toNat + 65536 * b2.toNat + 16777216 * b3.toNat) / 256 % 256 = b1.toNat := by omega
  have q2 : (b0.toNat + 256 * b1.toNat + 65536 * b2.toNat + 16777216 * b3.toNat) / 65536 % 256 = b2.toNat := by omega
  have q3 : (b0.toNat + 256 * b1.toNat + 65536 * b2.toNat + 16777216 * b3.toNat) / 16777216 % 256 = b3.toNat := by omega
  rw [q0, q1, q2, q3]
  simp

theorem memU64_loadU64 (b0 b1 b2 b3 b4 b5 b6 b7 : UInt8) :
    memU64 (loadU64 b0 b1 b2 b3 b4 b5 b6 b7) = [b0, b1, b2, b3, b4, b5, b6, b7] := by
  unfold memU64 loadU64
  have h0 := b0.toNat_lt; have h1 := b1.toNat_lt; have h2 := b2.toNat_lt; have h3 := b3.toNat_lt
  have h4 := b4.toNat_lt; have h5 := b5.toNat_lt; have h6 := b6.toNat_lt; have h7 := b7.toNat_lt
  generalize hx : b0.toNat + 256 * b1.toNat + 65536 * b2.toNat + 16777216 * b3.toNat + 4294967296 * b4.toNat +
      1099511627776 * b5.toNat + 281474976710656 * b6.toNat + 72057594037927936 * b7.toNat = x
  have e : (UInt64.ofNat x).toNat = x := by rw [UInt64.toNat_ofNat']; omega
  rw [e]
  have q0 : x % 256 = b0.toNat := by omega
  have q1 : x / 256 % 256 = b1.toNat := by omega
  have q2 : x / 65536 % 256 = b2.toNat := by omega
  have q3 : x / 16777216 % 256 = b3.toNat := by omega
  have q4 : x / 4294967296 % 256 = b4.toNat := by omega
  have q5 : x / 1099511627776 % 256 = b5.toNat := by omega
  have q6 : x / 281474976710656 % 256 = b6.toNat := by omega
  have q7 : x / 72057594037927936 % 256 = b7.toNat := by omega
  rw [q0, q1, q2, q3, q4, q5, q6, q7]
  simp

/-- `chunks` looks at the first `n * k` bytes only -/
theorem chunks_take (k : Nat) : ∀ (n : Nat) (b : Bytes), chunks k n (b.take (n * k)) = chunks k n b := by
  intro n
  induction n with
  | zero => intro b; rfl
  | succ n ih =>
    intro b
    unfold chunks
    have h1 : (b.take ((n + 1) * k)).take k = b.take k := by
      rw [List.take_take]; congr 1; rw [Nat.succ_mul]; omega
    have h2 : (b.take ((n + 1) * k)).drop k = (b.drop k).take (n * k) := by
      rw [List.drop_take]; congr 1; rw [Nat.succ_mul]; omega
    rw [h1, h2, ih]

theorem load32s_chunks : ∀ (n : Nat) (xs : List UInt8), xs.length = n * 4 → (load32s xs).map memU32 = chunks 4 n xs := by
  intro n
  induction n with
  | zero => intro xs h; cases xs with
    | nil => rfl
    | cons a t => simp at h
  | succ n ih =>
    intro xs h
    match xs, h with
    | b0 :: b1 :: b2 :: b3 :: rest, h =>
      have hr : rest.length = n * 4 := by simp at h; omega
      simp only [load32s, List.map_cons, memU32_loadU32, chunks]
      rw [ih rest hr]; rfl
    | [], h => simp at h <;> omega
    | [_], h => simp at h <;> omega
    | [_, _], h => simp at h <;> omega
    | [_, _, _], h => simp at h <;> omega

theorem load64s_chunks : ∀ (n : Nat) (xs : List UInt8), xs.length = n * 8 → (load64s xs).map memU64 = chunks 8 n xs := by
  intro n
  induction n with
  | zero => intro xs h; cases xs with
    | nil => rfl
    | cons a t => simp at h
  | succ n ih =>
    intro xs h
    match xs, h with
    | b0 :: b1 :: b2 :: b3 :: b4 :: b5 :: b6 :: b7 :: rest, h =>
      have hr : rest.length = n * 8 := by simp at h; omega
      simp only [load64s, List.map_cons, memU64_loadU64, chunks]
      rw [ih rest hr]; rfl
    | [], h => simp at h <;> omega
    | [_], h => simp at h <;> omega
    | [_, _], h => simp at h <;> omega
    | [_, _, _], h => simp at h <;> omega
    | [_, _, _, _], h => simp at h <;> omega
    | [_, _, _, _, _], h => simp at h <;> omega
    | [_, _, _, _, _, _], h => simp at h <;> omega
    | [_, _, _, _, _, _, _], h => simp at h <;> omega

def mem96 (w : Int96) : List UInt8 := memU32 w.1 ++ memU32 w.2.1 ++ memU32 w.2.2

theorem loop96_chunks : ∀ (n : Nat) (input : List UInt8), n * 12 ≤ input.length →
    ∃ vs, loop96 n input = some vs ∧ vs.map mem96 = chunks 12 n input := by
  intro n
  induction n with
  | zero => intro input _; exact ⟨[], rfl, rfl⟩
  | succ n ih =>
    intro input h
    match input, h with
    | b0 :: b1 :: b2 :: b3 :: b4 :: b5 :: b6 :: b7 :: b8 :: b9 :: b10 :: b11 :: rest, h =>
      have hr : n * 12 ≤ rest.length := by simp at h; omega
      obtain ⟨vs, hvs, hm⟩ := ih rest hr
      refine ⟨(loadU32 b0 b1 b2 b3, loadU32 b4 b5 b6 b7, loadU32 b8 b9 b10 b11) :: vs, ?_, ?_⟩
      · simp only [loop96, hvs]
      · simp only [List.map_cons, mem96, memU32_loadU32, hm, chunks]; rfl
    | [], h => simp at h <;> omega
    | [_], h => simp at h <;> omega
    | [_, _], h => simp at h <;> omega
    | [_, _, _], h => simp at h <;> omega
    | [_, _, _, _], h => simp at h <;> omega
    | [_, _, _, _, _], h => simp at h <;> omega
    | [_, _, _, _, _, _], h => simp at h <;> omega
    | [_, _, _, _, _, _, _], h => simp at h <;> omega
    | [_, _, _, _, _, _, _, _], h => simp at h <;> omega
    | [_, _, _, _, _, _, _, _, _], h => simp at h <;> omega
    | [_, _, _, _, _, _, _, _, _, _], h => simp at h <;> omega
    | [_, _, _, _, _, _, _, _, _, _, _], h => simp at h <;> omega

/-- a column description as `carquet_reader_get_column` produces it: FIXED_LEN_BYTE_ARRAY has a
positive length -/
def ColValid (c : Col) : Prop := c.ptype = 7 → 0 < c.typeLength

/-- PLAIN decoding of `n` values of a fixed-width type from an input that holds them is cutting the
input into `n` values -/
theorem plainValues_fixed (ptype typeLength : Int) (input : Bytes) (n : Nat)
    (hfw : fixedWidth ptype = true) (hflba : ptype = 7 → 0 < typeLength)
    (hlen : n * valueSize ptype typeLength ≤ input.length) (hsz : input.length < 2 ^ 64) :
    plainValues ptype typeLength input n = .ok (chunks (valueSize ptype typeLength) n input) := by
  have hfw' : ptype = 1 ∨ ptype = 2 ∨ ptype = 4 ∨ ptype = 5 ∨ ptype = 3 ∨ ptype = 7 := by
    simpa [fixedWidth] using hfw
  have hsm : ∀ k, n * k ≤ input.length → sizeMul n k = n * k := by
    intro k hk; unfold sizeMul; exact Nat.mod_eq_of_lt (by omega)
  have hnn : ¬ ((n : Int) < 0) := by omega
  rcases hfw' with h | h | h | h | h | h
  · subst h
    have hl : n * 4 ≤ input.length := by simpa [valueSize] using hlen
    simp only [plainValues, valueSize, decodeInt32, hsm 4 hl, hnn, if_false, Int.toNat_natCast]
    simp only [show ¬ (input.length < n * 4) by omega, if_false, plainRes]
    simp
    rw [load32s_chunks n _ (by simp; omega), chunks_take]
  · subst h
    have hl : n * 8 ≤ input.length := by simpa [valueSize] using hlen
    simp only [plainValues, valueSize, decodeInt64, hsm 8 hl, hnn, if_false, Int.toNat_natCast]
    simp only [show ¬ (input.length < n * 8) by omega, if_false, plainRes]
    simp
    rw [load64s_chunks n _ (by simp; omega), chunks_take]
  · subst h
    have hl : n * 4 ≤ input.length := by simpa [valueSize] using hlen
    simp only [plainValues, valueSize, decodeFloat, hsm 4 hl, hnn, if_false, Int.toNat_natCast]
    simp only [show ¬ (input.length < n * 4) by omega, if_false, plainRes]
    simp
    rw [load32s_chunks n _ (by simp; omega), chunks_take]
  · subst h
    have hl : n * 8 ≤ input.length := by simpa [valueSize] using hlen
    simp only [plainValues, valueSize, decodeDouble, hsm 8 hl, hnn, if_false, Int.toNat_natCast]
    simp only [show ¬ (input.length < n * 8) by omega, if_false, plainRes]
    simp
    rw [load64s_chunks n _ (by simp; omega), chunks_take]
  · subst h
    have hl : n * 12 ≤ input.length := by simpa [valueSize] using hlen
    obtain ⟨vs, hvs, hm⟩ := loop96_chunks n input hl
    simp only [plainValues, valueSize, decodeInt96, hsm 12 hl, hnn, if_false, Int.toNat_natCast]
    simp only [show ¬ (input.length < n * 12) by omega, if_false, hvs, plainRes]
    simp
    exact hm
  · subst h
    have hpos := hflba rfl
    have hl : n * typeLength.toNat ≤ input.length := by simpa [valueSize] using hlen
    simp only [plainValues, valueSize, decodeFlba, hsm _ hl, hnn, Int.toNat_natCast]
    simp only [show ¬ (typeLength ≤ 0) by omega, or_false, if_false,
      show ¬ (input.length < n * typeLength.toNat) by omega, plainRes]
    simp
    exact chunks_take _ _ _

end Carquet.Proofs.ReaderPlain
