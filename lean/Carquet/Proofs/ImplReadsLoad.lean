import Carquet.Proofs.ImplReadsDefs
import Carquet.Proofs.ReaderModes
import Carquet.Proofs.ReaderSteps
import Carquet.Proofs.ReaderCrc
/-
C06, implementation half — stage "page loads": `load_next_page` (all three I/O modes) on a file that
holds, at the offset the column reader points at, a page described by `RPage` / `DataPageOk` /
`DictPageOk` (Proofs/ImplReadsDefs.lean): the header is found (mapped paths: parsed from everything
behind the offset; fread path: the 256-byte window doubled until it holds the header, F53), the
stored body is cut out, checked, decompressed and decoded; a dictionary page is loaded through
`dictionary_page_offset` or, when that is absent, where `data_page_offset` points (F52s).  Then the
page iteration over a whole chunk (`chunkPages`).
-/
namespace Carquet.Proofs.ImplReads
open Carquet.Impl
open Carquet.Impl.Reader
open Carquet.Impl.ThriftParquetReq (PageHdr parsePageHeaderC)
open Carquet.Proofs.ReaderModes Carquet.Proofs.ReaderBounds Carquet.Proofs.ReaderPlain

/-! ### slices of a file laid out as `pre ++ x ++ post` -/

theorem slice_at (pre x : Bytes) (W : Nat) : slice (pre ++ x) pre.length W = x.take W := by
  unfold slice
  rw [List.drop_left' rfl]

theorem slice_mid (pre mid post : Bytes) : slice (pre ++ mid ++ post) pre.length mid.length = mid := by
  rw [List.append_assoc, slice_at, List.take_left' rfl]

theorem slice_mid2 (pre a mid post : Bytes) : slice (pre ++ (a ++ mid) ++ post) (pre.length + a.length) mid.length = mid := by
  have : pre ++ (a ++ mid) ++ post = (pre ++ a) ++ mid ++ post := by simp [List.append_assoc]
  rw [this]
  have := slice_mid (pre ++ a) mid post
  rwa [List.length_append] at this

/-! ### the page header -/

theorem pow_window_lt {k n : Nat} (h1 : 256 * 2 ^ k < n) (h2 : n ≤ headerWindowMax) : k < 16 := by
  apply Classical.byContradiction
  intro hk
  have hk' : 16 ≤ k := by omega
  have : (2 : Nat) ^ 16 ≤ 2 ^ k := Nat.pow_le_pow_right (by decide) hk'
  have e : headerWindowMax = 256 * 2 ^ 16 := by decide
  omega

/-- `read_page_header_fread` on a header that every too-short window fails to parse -/
theorem freadHeaderLoop_rpage (b : Bytes) (off : Nat) (hb tail : Bytes) (hdr : PageHdr)
    (hbt : b.drop off = hb ++ tail) (htail : 8 ≤ tail.length)
    (hany : ∀ rest, parsePageHeaderC (hb ++ rest) = .ok (hdr, hb.length)) (hw : WindowOk hb) :
    ∀ (fuel k : Nat), 17 ≤ k + fuel → 1 ≤ fuel → k ≤ 16 →
      (freadHeaderLoop b off fuel (256 * 2 ^ k)).result = .ok (hdr, hb.length) := by
  intro fuel
  induction fuel with
  | zero => intro k _ h1 _; omega
  | succ f ih =>
    intro k hkf _ hk16
    have hsl : slice b off (256 * 2 ^ k) = (hb ++ tail).take (256 * 2 ^ k) := by unfold slice; rw [hbt]
    have hpos : 1 ≤ 2 ^ k := Nat.one_le_two_pow
    unfold freadHeaderLoop
    rw [hsl]
    have hlen : ((hb ++ tail).take (256 * 2 ^ k)).length = min (256 * 2 ^ k) (hb.length + tail.length) := by
      simp [List.length_take]
    rw [if_neg (by rw [hlen]; omega)]
    by_cases hfit : hb.length ≤ 256 * 2 ^ k
    · -- the window holds the header
      have : (hb ++ tail).take (256 * 2 ^ k) = hb ++ tail.take (256 * 2 ^ k - hb.length) := by
        rw [List.take_append, List.take_of_length_le hfit]
      rw [this, hany]
    · -- the window cuts the header short: it does not parse, the window is doubled
      have hlt : 256 * 2 ^ k < hb.length := by omega
      have hk : k < 16 := pow_window_lt hlt hw.1
      have htk : (hb ++ tail).take (256 * 2 ^ k) = hb.take (256 * 2 ^ k) := by
        rw [List.take_append_of_le_length (by omega)]
      obtain ⟨e, he⟩ := hw.2 k hlt
      rw [htk, he]
      simp only
      have hl2 : (hb.take (256 * 2 ^ k)).length = 256 * 2 ^ k := by rw [List.length_take]; omega
      rw [if_neg (by rw [hl2]; have := hw.1; omega)]
      have e2 : 2 * (256 * 2 ^ k) = 256 * 2 ^ (k + 1) := by rw [Nat.pow_succ]; omega
      show (freadHeaderLoop b off f (2 * (256 * 2 ^ k))).result = _
      rw [e2]
      exact ih (k + 1) (by omega) (by omega) (by omega)

/-- **the header of a page is found at its offset, in every mode** -/
theorem loadHeader_rpage (mode : Mode) (pre post : Bytes) (p : RPage) (hp : p.Parses mode) (hpost : 8 ≤ post.length) :
    (loadHeader mode (pre ++ p.bytes ++ post) (pre.length : Int)).result = .ok (p.hdr, p.hb.length) := by
  have hlen : (pre ++ p.bytes ++ post).length = pre.length + (p.hb.length + p.comp.length) + post.length := by
    simp [RPage.bytes, List.length_append]; omega
  have hdrop : (pre ++ p.bytes ++ post).drop pre.length = p.hb ++ (p.comp ++ post) := by
    rw [List.append_assoc, List.drop_left' rfl]; simp [RPage.bytes, List.append_assoc]
  unfold loadHeader
  split
  · rw [if_neg (by rw [hlen]; omega)]
    simp only [Int.toNat_natCast]
    rw [if_neg (by rw [hlen]; omega)]
    simp only
    have hw : slice (pre ++ p.bytes ++ post) pre.length ((pre ++ p.bytes ++ post).length - pre.length) = p.hb ++ (p.comp ++ post) := by
      unfold slice
      rw [hdrop, List.take_of_length_le (by rw [hlen]; simp [List.length_append]; omega)]
    rw [hw]
    unfold parseWindow
    rw [hp.any]
  · rename_i hm
    rw [if_neg (by omega)]
    simp only [Int.toNat_natCast]
    have hmode : mode = .fread := by cases mode <;> simp [Mode.mapped] at hm ⊢
    have := freadHeaderLoop_rpage (pre ++ p.bytes ++ post) pre.length p.hb (p.comp ++ post) p.hdr hdrop
      (by simp [List.length_append]; omega) hp.any (hp.window hmode) 18 0 (by omega) (by omega) (by omega)
    simpa using this

/-! ### the stored body -/

theorem bodyBytes_rpage (mode : Mode) (pre post : Bytes) (p : RPage) :
    (bodyBytes mode (pre ++ p.bytes ++ post) pre.length p.hb.length p.comp.length).1 = .ok p.comp := by
  have hlen : (pre ++ p.bytes ++ post).length = pre.length + (p.hb.length + p.comp.length) + post.length := by
    simp [RPage.bytes, List.length_append]; omega
  rw [bodyBytes_within mode _ _ _ _ (by rw [hlen]; omega)]
  unfold RPage.bytes
  rw [slice_mid2]

/-! ### the dictionary page -/

/-- **the dictionary page at its offset is loaded, in every mode** -/
theorem loadDictionary_rpage (L : Libs) (verify : Bool) (mode : Mode) (pre post : Bytes) (c : Col) (p : RPage) (D : Dict)
    (hp : DictPageOk L verify mode c p D) (hpost : 8 ≤ post.length) :
    ∃ dl, (loadDictionary Fixes.all L verify mode (pre ++ p.bytes ++ post) c (pre.length : Int)).result = .ok dl ∧
      dl.dict = D ∧ dl.dataStart = ((pre.length + p.hb.length + p.comp.length : Nat) : Int) := by
  obtain ⟨pd, hpd, hrd⟩ := hp.decode
  have hh := loadHeader_rpage mode pre post p hp.parses hpost
  have hcomp : p.hdr.compressed.toNat = p.comp.length := by rw [hp.parses.comp]; simp
  have hsv : (!sizesValid p.hdr || decide (p.hdr.word0 < 0)) = false := by
    have a1 : sizesValid p.hdr = true := by
      simp only [sizesValid, Bool.and_eq_true, decide_eq_true_eq]
      exact ⟨by rw [hp.parses.comp]; omega, hp.parses.unc⟩
    have a2 : decide (p.hdr.word0 < 0) = false := by
      apply decide_eq_false; have := hp.count; omega
    rw [a1, a2]; rfl
  refine ⟨⟨D, (pre.length : Int) + (p.hb.length : Int) + p.hdr.compressed⟩, ?_, rfl, ?_⟩
  · unfold loadDictionary
    rw [andThen_result, hh]
    simp only
    rw [if_neg (by rw [hp.type2]; decide), hsv]
    simp only [Bool.false_eq_true, if_false]
    rw [andThen_result, Load.ofPair]
    simp only [Int.toNat_natCast, hcomp, bodyBytes_rpage]
    rw [hp.crc]
    simp only [Bool.false_eq_true, if_false, hpd, hrd]
  · simp only
    rw [hp.parses.comp]
    omega

/-! ### a data page, once the state points at it -/

/-- the rest of the load after the header of a data page has been found -/
theorem finish_rpage (L : Libs) (verify : Bool) (mode : Mode) (pre post : Bytes) (c : Col) (p : RPage) (d : Decoded)
    (st : PState) (hp : DataPageOk L verify mode c st.dict p d)
    (hoff : st.dataStart + st.currentPage = (pre.length : Int)) (hrem : (d.defs.length : Int) ≤ st.valuesRemaining)
    (hcol : ColValid c) (hsz : (pre ++ p.bytes ++ post).length < 2 ^ 64) :
    (okOf (finishDataPage Fixes.all L verify mode (pre ++ p.bytes ++ post) c st (p.hdr, p.hb.length)).result).map proj =
      some (d, p.hb.length, p.comp.length) := by
  have hlen : (pre ++ p.bytes ++ post).length = pre.length + (p.hb.length + p.comp.length) + post.length := by
    simp [RPage.bytes, List.length_append]; omega
  have hcomp : p.hdr.compressed.toNat = p.comp.length := by rw [hp.parses.comp]; simp
  obtain ⟨body, hpd, hdec⟩ := hp.decode
  rw [finishDataPage_ref Fixes.all rfl L verify mode _ c st (p.hdr, p.hb.length) hcol hsz
    (by intro _; rw [hoff]; simp only [Int.toNat_natCast, hcomp]; rw [hlen]; omega)]
  have hbody : slice (pre ++ p.bytes ++ post) ((st.dataStart + st.currentPage).toNat + (p.hdr, p.hb.length).2)
      (p.hdr, p.hb.length).1.compressed.toNat = p.comp := by
    rw [hoff]
    simp only [Int.toNat_natCast, hcomp]
    unfold RPage.bytes
    rw [slice_mid2]
  unfold refFinish
  rw [hbody]
  have h3 : ¬ (p.hdr, p.hb.length).1.type = 3 := by simp [hp.type0]
  have h0 : ¬ (p.hdr, p.hb.length).1.type ≠ 0 := by simp [hp.type0]
  have hsv : ¬ ((!sizesValid (p.hdr, p.hb.length).1 || decide ((p.hdr, p.hb.length).1.word0 < 0) ||
      decide ((p.hdr, p.hb.length).1.word0 > st.valuesRemaining)) = true) := by
    have a1 : sizesValid p.hdr = true := by
      simp only [sizesValid, Bool.and_eq_true, decide_eq_true_eq]
      exact ⟨by rw [hp.parses.comp]; omega, hp.parses.unc⟩
    have a2 : decide (p.hdr.word0 < 0) = false := by
      apply decide_eq_false; rw [hp.count]; omega
    have a3 : decide (p.hdr.word0 > st.valuesRemaining) = false := by
      apply decide_eq_false; rw [hp.count]; omega
    simp only [a1, a2, a3]; decide
  rw [if_neg h3, if_neg h0, if_neg hsv]
  simp only [hp.crc, Bool.false_eq_true, if_false]
  by_cases hemp : d.defs.length = 0
  · rw [if_pos (by rw [hp.count, hemp]; rfl), hp.empty hemp, hcomp]
  rw [if_neg (by rw [hp.count]; omega)]
  unfold stdPath
  simp only [hpd, hp.count, Int.toNat_natCast, hdec, hcomp]

/-- `prepStage` in a state that points at a data page -/
theorem prepStage_rpage (L : Libs) (verify : Bool) (mode : Mode) (pre post : Bytes) (c : Col) (p : RPage) (st : PState)
    (hp : p.Parses mode) (ht : p.hdr.type = 0) (hoff : st.dataStart + st.currentPage = (pre.length : Int))
    (hpost : 8 ≤ post.length) :
    (prepStage Fixes.all L verify mode (pre ++ p.bytes ++ post) c st).result = .ok (st, (p.hdr, p.hb.length)) ∧
    stateAfterPrep Fixes.all L verify mode (pre ++ p.bytes ++ post) c st = st := by
  have hh := loadHeader_rpage mode pre post p hp hpost
  have hinl : inlineDictDue st p.hdr = false := by simp [inlineDictDue, ht]
  constructor
  · unfold prepStage
    rw [andThen_result, hoff, hh]
    simp only [hinl, Bool.false_eq_true, if_false, Load.pure]
  · unfold stateAfterPrep
    rw [hoff, hh]
    simp only [hinl, Bool.false_eq_true, if_false]

/-- **one data page**, the dictionary business being settled: `load_next_page` in any mode, in any state
that points at the page -/
theorem loadPage_rpage (L : Libs) (verify : Bool) (mode : Mode) (pre post : Bytes) (c : Col) (p : RPage) (d : Decoded)
    (st : PState) (hp : DataPageOk L verify mode c st.dict p d)
    (hsettled : c.cm.dictionaryPageOffset = none ∨ st.dict.isSome = true)
    (hoff : st.dataStart + st.currentPage = (pre.length : Int)) (hrem : (d.defs.length : Int) ≤ st.valuesRemaining)
    (hcol : ColValid c) (hpost : 8 ≤ post.length) (hsz : (pre ++ p.bytes ++ post).length < 2 ^ 64) :
    (okOf (loadPage Fixes.all L verify mode (pre ++ p.bytes ++ post) c st).result).map proj =
      some (d, p.hb.length, p.comp.length) ∧
    stateAfterLoad Fixes.all L verify mode (pre ++ p.bytes ++ post) c st = st := by
  have hds := Carquet.Proofs.ReaderSteps.dictStep_settled Fixes.all L verify mode (pre ++ p.bytes ++ post) c st hsettled
  obtain ⟨hprep, hafter⟩ := prepStage_rpage L verify mode pre post c p st hp.parses hp.type0 hoff hpost
  constructor
  · unfold loadPage
    rw [andThen_result, hds]
    simp only [Load.pure]
    unfold loadDataPage
    rw [andThen_result, hprep]
    simp only
    exact finish_rpage L verify mode pre post c p d st hp hoff hrem hcol hsz
  · unfold stateAfterLoad
    rw [hds]
    simp only [Load.pure]
    exact hafter

/-! ### the first load of a chunk that has a dictionary page -/

/-- the state after the dictionary page of a chunk has been loaded -/
def withDict (st : PState) (D : Dict) (dataStart : Nat) : PState := { st with dict := some D, dataStart := (dataStart : Int) }

theorem append4 (pre a b post : Bytes) : pre ++ a ++ b ++ post = pre ++ a ++ (b ++ post) := by simp [List.append_assoc]
theorem append4' (pre a b post : Bytes) : pre ++ a ++ b ++ post = (pre ++ a) ++ b ++ post := by simp [List.append_assoc]

/-- **first load, `dictionary_page_offset` present**: the dictionary page is loaded through the offset,
then the data page behind it -/
theorem loadPage_dictOffset (L : Libs) (verify : Bool) (mode : Mode) (pre post : Bytes) (c : Col) (dp p : RPage) (D : Dict)
    (d : Decoded) (st : PState) (hdp : DictPageOk L verify mode c dp D) (hp : DataPageOk L verify mode c (some D) p d)
    (hdoff : c.cm.dictionaryPageOffset = some (pre.length : Int)) (hnone : st.dict = none) (hcur : st.currentPage = 0)
    (hrem : (d.defs.length : Int) ≤ st.valuesRemaining)
    (hcol : ColValid c) (hpost : 8 ≤ post.length) (hsz : (pre ++ dp.bytes ++ p.bytes ++ post).length < 2 ^ 64) :
    (okOf (loadPage Fixes.all L verify mode (pre ++ dp.bytes ++ p.bytes ++ post) c st).result).map proj =
      some (d, p.hb.length, p.comp.length) ∧
    stateAfterLoad Fixes.all L verify mode (pre ++ dp.bytes ++ p.bytes ++ post) c st =
      withDict st D (pre.length + dp.hb.length + dp.comp.length) := by
  obtain ⟨dl, hdl, hdl1, hdl2⟩ := loadDictionary_rpage L verify mode pre (p.bytes ++ post) c dp D hdp
    (by simp only [List.length_append]; omega)
  rw [← append4] at hdl
  have hds : (dictStep Fixes.all L verify mode (pre ++ dp.bytes ++ p.bytes ++ post) c st).result =
      .ok (withDict st D (pre.length + dp.hb.length + dp.comp.length)) := by
    unfold dictStep
    rw [hdoff]
    simp only [hnone, Option.isSome_none, Bool.false_eq_true, if_false]
    rw [andThen_result, hdl]
    simp only [Load.pure, withDict, hdl1, hdl2]
  have hpre : (pre ++ dp.bytes).length = pre.length + dp.hb.length + dp.comp.length := by
    simp [RPage.bytes, List.length_append]; omega
  have hoff' : (withDict st D (pre.length + dp.hb.length + dp.comp.length)).dataStart +
      (withDict st D (pre.length + dp.hb.length + dp.comp.length)).currentPage = ((pre ++ dp.bytes).length : Int) := by
    simp only [withDict, hcur, hpre]; omega
  have hp' : DataPageOk L verify mode c (withDict st D (pre.length + dp.hb.length + dp.comp.length)).dict p d := hp
  obtain ⟨hprep, hafter⟩ := prepStage_rpage L verify mode (pre ++ dp.bytes) post c p
    (withDict st D (pre.length + dp.hb.length + dp.comp.length)) hp.parses hp.type0 hoff' hpost
  rw [append4'] at hsz hds ⊢
  constructor
  · unfold loadPage
    rw [andThen_result, hds]
    simp only
    unfold loadDataPage
    rw [andThen_result, hprep]
    simp only
    exact finish_rpage L verify mode (pre ++ dp.bytes) post c p d _ hp' hoff' (by simpa [withDict] using hrem) hcol hsz
  · unfold stateAfterLoad
    rw [hds]
    simp only
    exact hafter

/-- **first load, no `dictionary_page_offset`** (F52s): the page `data_page_offset` points at is a
dictionary page; it is loaded, and the data page behind it returned -/
theorem loadPage_dictInline (L : Libs) (verify : Bool) (mode : Mode) (pre post : Bytes) (c : Col) (dp p : RPage) (D : Dict)
    (d : Decoded) (st : PState) (hdp : DictPageOk L verify mode c dp D) (hp : DataPageOk L verify mode c (some D) p d)
    (hdoff : c.cm.dictionaryPageOffset = none) (hnone : st.dict = none) (hcur : st.currentPage = 0)
    (hstart : st.dataStart = (pre.length : Int))
    (hrem : (d.defs.length : Int) ≤ st.valuesRemaining)
    (hcol : ColValid c) (hpost : 8 ≤ post.length) (hsz : (pre ++ dp.bytes ++ p.bytes ++ post).length < 2 ^ 64) :
    (okOf (loadPage Fixes.all L verify mode (pre ++ dp.bytes ++ p.bytes ++ post) c st).result).map proj =
      some (d, p.hb.length, p.comp.length) ∧
    stateAfterLoad Fixes.all L verify mode (pre ++ dp.bytes ++ p.bytes ++ post) c st =
      withDict st D (pre.length + dp.hb.length + dp.comp.length) := by
  have hds := Carquet.Proofs.ReaderSteps.dictStep_settled Fixes.all L verify mode (pre ++ dp.bytes ++ p.bytes ++ post) c st
    (Or.inl hdoff)
  have hoff : st.dataStart + st.currentPage = (pre.length : Int) := by rw [hstart, hcur]; omega
  -- the header found at `data_page_offset` is the dictionary page's
  have hh1 := loadHeader_rpage mode pre (p.bytes ++ post) dp hdp.parses (by simp only [List.length_append]; omega)
  rw [← append4] at hh1
  have hdue : inlineDictDue st dp.hdr = true := by simp [inlineDictDue, hdp.type2, hnone, hcur]
  obtain ⟨dl, hdl, hdl1, hdl2⟩ := loadDictionary_rpage L verify mode pre (p.bytes ++ post) c dp D hdp
    (by simp only [List.length_append]; omega)
  rw [← append4] at hdl
  have hpre : (pre ++ dp.bytes).length = pre.length + dp.hb.length + dp.comp.length := by
    simp [RPage.bytes, List.length_append]; omega
  have hh2 := loadHeader_rpage mode (pre ++ dp.bytes) post p hp.parses hpost
  rw [hpre, ← append4'] at hh2
  have hst' : ({ st with dict := some dl.dict, dataStart := dl.dataStart } : PState) =
      withDict st D (pre.length + dp.hb.length + dp.comp.length) := by
    simp only [withDict, hdl1, hdl2]
  have hprep : (prepStage Fixes.all L verify mode (pre ++ dp.bytes ++ p.bytes ++ post) c st).result =
      .ok (withDict st D (pre.length + dp.hb.length + dp.comp.length), (p.hdr, p.hb.length)) := by
    unfold prepStage
    rw [andThen_result, hoff, hh1]
    simp only [hdue, if_true]
    rw [andThen_result, hdl]
    simp only
    rw [andThen_result, hdl2, hh2]
    simp only [Load.pure, withDict, hdl1]
  have hafter : stateAfterPrep Fixes.all L verify mode (pre ++ dp.bytes ++ p.bytes ++ post) c st =
      withDict st D (pre.length + dp.hb.length + dp.comp.length) := by
    unfold stateAfterPrep
    rw [hoff, hh1]
    simp only [hdue, if_true, hdl, hst']
  have hoff' : (withDict st D (pre.length + dp.hb.length + dp.comp.length)).dataStart +
      (withDict st D (pre.length + dp.hb.length + dp.comp.length)).currentPage = ((pre ++ dp.bytes).length : Int) := by
    simp only [withDict, hcur, hpre]; omega
  have hp' : DataPageOk L verify mode c (withDict st D (pre.length + dp.hb.length + dp.comp.length)).dict p d := hp
  constructor
  · unfold loadPage
    rw [andThen_result, hds]
    simp only [Load.pure]
    unfold loadDataPage
    rw [andThen_result, hprep]
    simp only
    rw [append4'] at hsz ⊢
    exact finish_rpage L verify mode (pre ++ dp.bytes) post c p d _ hp' hoff' (by simpa [withDict] using hrem) hcol hsz
  · unfold stateAfterLoad
    rw [hds]
    simp only [Load.pure]
    exact hafter

/-! ### the pages of a chunk, one after the other -/

theorem ok_of_proj {r : Except Err PageLoaded} {d : Decoded} {h c : Nat} (hp : (okOf r).map proj = some (d, h, c)) :
    ∃ p, r = .ok p ∧ p.page = d ∧ p.headerSize = h ∧ p.compressedSize = c := by
  cases r with
  | error e => cases hp
  | ok p =>
    simp only [okOf, Option.map, proj, Option.some.injEq, Prod.mk.injEq] at hp
    exact ⟨p, rfl, hp.1, hp.2.1, hp.2.2⟩

theorem pagesBytes_cons (q : RPage × Decoded) (ps : List (RPage × Decoded)) :
    pagesBytes (q :: ps) = q.1.bytes ++ pagesBytes ps := by simp [pagesBytes]

theorem pagesCount_cons (q : RPage × Decoded) (ps : List (RPage × Decoded)) :
    pagesCount (q :: ps) = q.2.defs.length + pagesCount ps := by simp [pagesCount]

/-- The items of a list the page iteration gets to: it stops as soon as nothing is left to deliver, so
items without content at the END of the list (empty data pages behind the last value of a chunk, F63)
are never looked at. -/
def liveBy {α : Type} (size : α → Nat) : List α → List α
  | [] => []
  | a :: r => if size a + (r.map size).sum = 0 then [] else a :: liveBy size r

theorem liveBy_map {α β : Type} (sa : α → Nat) (sb : β → Nat) (f : α → β) (h : ∀ a, sb (f a) = sa a) :
    ∀ l : List α, liveBy sb (l.map f) = (liveBy sa l).map f
  | [] => rfl
  | a :: r => by
    simp only [List.map_cons, liveBy, h a, List.map_map]
    have : (sb ∘ f) = sa := funext h
    rw [this]
    split
    · rfl
    · rw [List.map_cons, liveBy_map sa sb f h r]

theorem liveBy_length_le {α : Type} (size : α → Nat) : ∀ l : List α, (liveBy size l).length ≤ l.length
  | [] => Nat.le_refl _
  | a :: r => by
    simp only [liveBy]
    split
    · simp
    · simp only [List.length_cons]; have := liveBy_length_le size r; omega

theorem liveBy_mem {α : Type} (size : α → Nat) : ∀ (l : List α) (x : α), x ∈ liveBy size l → x ∈ l
  | [], x, h => by cases h
  | a :: r, x, h => by
    simp only [liveBy] at h
    split at h
    · cases h
    · rcases List.mem_cons.mp h with rfl | h'
      · simp
      · exact List.mem_cons_of_mem _ (liveBy_mem size r x h')

theorem flatten_nil_of_sum {β : Type} : ∀ l : List (List β), (l.map List.length).sum = 0 → l.flatten = []
  | [], _ => rfl
  | p :: r, h => by
    simp only [List.map_cons, List.sum_cons] at h
    have hp : p = [] := List.eq_nil_of_length_eq_zero (by omega)
    rw [List.flatten_cons, hp, flatten_nil_of_sum r (by omega)]; rfl

/-- the parts that are dropped hold nothing -/
theorem liveBy_flatten {β : Type} : ∀ l : List (List β), (liveBy List.length l).flatten = l.flatten
  | [] => rfl
  | p :: r => by
    simp only [liveBy]
    split
    · rename_i h0
      have := flatten_nil_of_sum (p :: r) (by simpa using h0)
      rw [this]; rfl
    · rw [List.flatten_cons, List.flatten_cons, liveBy_flatten r]

/-- the data pages the iteration loads -/
def livePages (ps : List (RPage × Decoded)) : List (RPage × Decoded) := liveBy (fun q => q.2.defs.length) ps

theorem livePages_cons (q : RPage × Decoded) (rest : List (RPage × Decoded)) :
    livePages (q :: rest) = if pagesCount (q :: rest) = 0 then [] else q :: livePages rest := by
  simp only [livePages, liveBy, pagesCount, List.map_cons, List.sum_cons]

/-- **page iteration, dictionary business settled**: from a state that points at the first of the pages,
with as many values remaining as they hold, the iteration delivers exactly these pages — empty pages
(F63) included, up to the page that delivers the chunk's last value -/
theorem chunkPages_steady (L : Libs) (verify : Bool) (mode : Mode) (c : Col) (dict : Option Dict) (hcol : ColValid c) :
    ∀ (ps : List (RPage × Decoded)) (pre post : Bytes) (st : PState) (fuel : Nat),
      (∀ q ∈ ps, DataPageOk L verify mode c dict q.1 q.2) → ps.length < fuel → 8 ≤ post.length →
      (pre ++ pagesBytes ps ++ post).length < 2 ^ 64 →
      st.dict = dict → (c.cm.dictionaryPageOffset = none ∨ st.dict.isSome = true) →
      st.dataStart + st.currentPage = (pre.length : Int) → st.valuesRemaining = (pagesCount ps : Int) →
      chunkPages Fixes.all L verify mode (pre ++ pagesBytes ps ++ post) c fuel st =
        (livePages ps).map (fun q => some (cursorPage q.2)) := by
  intro ps
  induction ps with
  | nil =>
    intro pre post st fuel _ hf _ _ _ _ _ hrem
    cases fuel with
    | zero => omega
    | succ fuel =>
      unfold chunkPages
      rw [if_pos (by rw [hrem]; simp [pagesCount])]
      rfl
  | cons q rest ih =>
    intro pre post st fuel hall hf hpost hsz hdict hsettled hoff hrem
    cases fuel with
    | zero => omega
    | succ fuel =>
      rw [livePages_cons]
      by_cases hzero : pagesCount (q :: rest) = 0
      · rw [if_pos hzero]
        unfold chunkPages
        rw [if_pos (by rw [hrem, hzero]; simp)]
        rfl
      rw [if_neg hzero]
      have hpos : 0 < pagesCount (q :: rest) := by omega
      have hq := hall q (by simp)
      have hbytes : pre ++ pagesBytes (q :: rest) ++ post = pre ++ q.1.bytes ++ (pagesBytes rest ++ post) := by
        rw [pagesBytes_cons]; simp [List.append_assoc]
      rw [hbytes] at hsz ⊢
      rw [pagesCount_cons] at hrem
      have hq' : DataPageOk L verify mode c st.dict q.1 q.2 := by rw [hdict]; exact hq
      obtain ⟨hl1, hl2⟩ := loadPage_rpage L verify mode pre (pagesBytes rest ++ post) c q.1 q.2 st hq' hsettled hoff
        (by rw [hrem]; omega) hcol (by simp only [List.length_append]; omega) hsz
      obtain ⟨pl, hpl, hpage, hhs, hcs⟩ := ok_of_proj hl1
      unfold chunkPages
      rw [if_neg (by rw [hrem]; rw [pagesCount_cons] at hpos; omega), hpl]
      simp only [List.map_cons]
      congr 1
      · rw [hpage]; rfl
      · rw [hl2]
        have hnext : pre ++ q.1.bytes ++ (pagesBytes rest ++ post) = (pre ++ q.1.bytes) ++ pagesBytes rest ++ post := by
          simp [List.append_assoc]
        rw [hnext]
        apply ih (pre ++ q.1.bytes) post (stepOver st pl) fuel (fun x hx => hall x (List.mem_cons_of_mem _ hx))
          (by simp at hf; omega) hpost (by rw [← hnext]; exact hsz)
        · simp only [stepOver]; exact hdict
        · simp only [stepOver]; exact hsettled
        · simp only [stepOver]
          rw [hhs, hcs]; simp only [RPage.bytes, List.length_append]; omega
        · simp only [stepOver]
          rw [hpage, hrem]; omega

/-- how a chunk starts: no dictionary page, or one that is reached through `dictionary_page_offset`, or
one that sits where `data_page_offset` points -/
inductive ChunkStart (L : Libs) (verify : Bool) (mode : Mode) (c : Col) (pre : Bytes) : Option (RPage × Dict) → Prop
  | plain : c.cm.dictionaryPageOffset = none → c.cm.dataPageOffset = (pre.length : Int) → ChunkStart L verify mode c pre none
  | offset (dp : RPage) (D : Dict) : DictPageOk L verify mode c dp D → c.cm.dictionaryPageOffset = some (pre.length : Int) →
      ChunkStart L verify mode c pre (some (dp, D))
  | inline (dp : RPage) (D : Dict) : DictPageOk L verify mode c dp D → c.cm.dictionaryPageOffset = none →
      c.cm.dataPageOffset = (pre.length : Int) → ChunkStart L verify mode c pre (some (dp, D))

def dictBytes : Option (RPage × Dict) → Bytes
  | none => []
  | some (dp, _) => dp.bytes

/-- **the pages of a chunk** of a file `pre ++ [dictionary page] ++ data pages ++ post`: the page
iteration started by `get_column` delivers exactly the data pages, decoded, in order — in any mode -/
theorem chunkPages_chunk (L : Libs) (verify : Bool) (mode : Mode) (c : Col) (hcol : ColValid c)
    (dictP : Option (RPage × Dict)) (ps : List (RPage × Decoded)) (pre post : Bytes)
    (hstart : ChunkStart L verify mode c pre dictP)
    (hall : ∀ q ∈ ps, DataPageOk L verify mode c (dictP.map (·.2)) q.1 q.2)
    (hnv : c.cm.numValues = (pagesCount ps : Int)) (hpost : 8 ≤ post.length)
    (hsz : (pre ++ dictBytes dictP ++ pagesBytes ps ++ post).length < 2 ^ 64)
    (fuel : Nat) (hf : ps.length < fuel) :
    chunkPages Fixes.all L verify mode (pre ++ dictBytes dictP ++ pagesBytes ps ++ post) c fuel (PState.init c) =
      (livePages ps).map (fun q => some (cursorPage q.2)) := by
  cases hstart with
  | plain hno hdo =>
    simp only [dictBytes, List.append_nil] at hsz ⊢
    exact chunkPages_steady L verify mode c none hcol ps pre post (PState.init c) fuel hall hf hpost hsz rfl (Or.inl hno)
      (by simp [PState.init, hdo]) (by simp [PState.init, hnv])
  | offset dp D hdp hdo =>
    cases ps with
    | nil =>
      cases fuel with
      | zero => omega
      | succ fuel =>
        unfold chunkPages
        rw [if_pos (by simp [PState.init, hnv, pagesCount])]
        rfl
    | cons q rest =>
      cases fuel with
      | zero => omega
      | succ fuel =>
        rw [livePages_cons]
        by_cases hzero : pagesCount (q :: rest) = 0
        · rw [if_pos hzero]
          unfold chunkPages
          rw [if_pos (by simp [PState.init, hnv, hzero])]
          rfl
        rw [if_neg hzero]
        have hpos : 0 < pagesCount (q :: rest) := by omega
        rw [pagesCount_cons] at hpos
        have hq := hall q (by simp)
        simp only [dictBytes] at hsz ⊢
        have hbytes : pre ++ dp.bytes ++ pagesBytes (q :: rest) ++ post = pre ++ dp.bytes ++ q.1.bytes ++ (pagesBytes rest ++ post) := by
          rw [pagesBytes_cons]; simp [List.append_assoc]
        rw [hbytes] at hsz ⊢
        rw [pagesCount_cons] at hnv
        obtain ⟨hl1, hl2⟩ := loadPage_dictOffset L verify mode pre (pagesBytes rest ++ post) c dp q.1 D q.2 (PState.init c)
          hdp hq hdo rfl rfl (by simp only [PState.init, hnv]; omega) hcol (by simp only [List.length_append]; omega) hsz
        obtain ⟨pl, hpl, hpage, hhs, hcs⟩ := ok_of_proj hl1
        unfold chunkPages
        rw [if_neg (by simp only [PState.init, hnv]; omega), hpl]
        simp only [List.map_cons]
        congr 1
        · rw [hpage]; rfl
        · rw [hl2]
          have hnext : pre ++ dp.bytes ++ q.1.bytes ++ (pagesBytes rest ++ post) =
              (pre ++ dp.bytes ++ q.1.bytes) ++ pagesBytes rest ++ post := by simp [List.append_assoc]
          rw [hnext]
          apply chunkPages_steady L verify mode c (some D) hcol rest (pre ++ dp.bytes ++ q.1.bytes) post _ fuel
            (fun x hx => hall x (List.mem_cons_of_mem _ hx)) (by simp at hf; omega) hpost (by rw [← hnext]; exact hsz)
          · simp only [stepOver, withDict]
          · simp only [stepOver, withDict]; exact Or.inr rfl
          · simp only [stepOver, withDict, PState.init]
            rw [hhs, hcs]; simp only [RPage.bytes, List.length_append]; omega
          · simp only [stepOver, withDict, PState.init]
            rw [hpage, hnv]; omega
  | inline dp D hdp hno hdo =>
    cases ps with
    | nil =>
      cases fuel with
      | zero => omega
      | succ fuel =>
        unfold chunkPages
        rw [if_pos (by simp [PState.init, hnv, pagesCount])]
        rfl
    | cons q rest =>
      cases fuel with
      | zero => omega
      | succ fuel =>
        rw [livePages_cons]
        by_cases hzero : pagesCount (q :: rest) = 0
        · rw [if_pos hzero]
          unfold chunkPages
          rw [if_pos (by simp [PState.init, hnv, hzero])]
          rfl
        rw [if_neg hzero]
        have hpos : 0 < pagesCount (q :: rest) := by omega
        rw [pagesCount_cons] at hpos
        have hq := hall q (by simp)
        simp only [dictBytes] at hsz ⊢
        have hbytes : pre ++ dp.bytes ++ pagesBytes (q :: rest) ++ post = pre ++ dp.bytes ++ q.1.bytes ++ (pagesBytes rest ++ post) := by
          rw [pagesBytes_cons]; simp [List.append_assoc]
        rw [hbytes] at hsz ⊢
        rw [pagesCount_cons] at hnv
        obtain ⟨hl1, hl2⟩ := loadPage_dictInline L verify mode pre (pagesBytes rest ++ post) c dp q.1 D q.2 (PState.init c)
          hdp hq hno rfl rfl (by simp [PState.init, hdo]) (by simp only [PState.init, hnv]; omega) hcol
          (by simp only [List.length_append]; omega) hsz
        obtain ⟨pl, hpl, hpage, hhs, hcs⟩ := ok_of_proj hl1
        unfold chunkPages
        rw [if_neg (by simp only [PState.init, hnv]; omega), hpl]
        simp only [List.map_cons]
        congr 1
        · rw [hpage]; rfl
        · rw [hl2]
          have hnext : pre ++ dp.bytes ++ q.1.bytes ++ (pagesBytes rest ++ post) =
              (pre ++ dp.bytes ++ q.1.bytes) ++ pagesBytes rest ++ post := by simp [List.append_assoc]
          rw [hnext]
          apply chunkPages_steady L verify mode c (some D) hcol rest (pre ++ dp.bytes ++ q.1.bytes) post _ fuel
            (fun x hx => hall x (List.mem_cons_of_mem _ hx)) (by simp at hf; omega) hpost (by rw [← hnext]; exact hsz)
          · simp only [stepOver, withDict]
          · simp only [stepOver, withDict]; exact Or.inr rfl
          · simp only [stepOver, withDict, PState.init]
            rw [hhs, hcs]; simp only [RPage.bytes, List.length_append]; omega
          · simp only [stepOver, withDict, PState.init]
            rw [hpage, hnv]; omega

end Carquet.Proofs.ImplReads
