import Carquet.Proofs.PlainBytes
/-
The INT96 and FIXED_LEN_BYTE_ARRAY decoders agree with the Spec decoder on every input
(same shape as `load32s_take_spec` for the `memcpy` decoders).
-/
namespace Carquet.Proofs.Plain
open Carquet.Impl.Plain
open Carquet.Spec.Plain (leBytes ofLeBytes)

/-- the number three `carquet_read_u32_le` assemble is the Spec's 12-byte little-endian number -/
theorem int96_load_eq_ofLe (b0 b1 b2 b3 b4 b5 b6 b7 b8 b9 b10 b11 : UInt8) :
    int96ToNat (loadU32 b0 b1 b2 b3, loadU32 b4 b5 b6 b7, loadU32 b8 b9 b10 b11) =
      ofLeBytes [b0, b1, b2, b3, b4, b5, b6, b7, b8, b9, b10, b11] := by
  have h0 := b0.toNat_lt; have h1 := b1.toNat_lt; have h2 := b2.toNat_lt; have h3 := b3.toNat_lt
  have h4 := b4.toNat_lt; have h5 := b5.toNat_lt; have h6 := b6.toNat_lt; have h7 := b7.toNat_lt
  have h8 := b8.toNat_lt; have h9 := b9.toNat_lt; have h10 := b10.toNat_lt; have h11 := b11.toNat_lt
  simp only [int96ToNat, loadU32, ofLeBytes, UInt32.toNat_ofNat']
  omega

/-- the element loop of `carquet_decode_plain_int96` against the Spec decoder, any input that holds
`n` elements -/
theorem loop96_take_spec : ∀ (n : Nat) (input : List UInt8), n * 12 ≤ input.length →
    ∃ ns vs, Spec.Plain.decodeFixed 12 n input = some (ns, input.drop (n * 12)) ∧
      loop96 n input = some vs ∧ vs.map int96ToNat = ns
  | 0, input, _ => ⟨[], [], by simp [Spec.Plain.decodeFixed], rfl, rfl⟩
  | n + 1, input, h => by
    rcases input with _|⟨b0,_|⟨b1,_|⟨b2,_|⟨b3,_|⟨b4,_|⟨b5,_|⟨b6,_|⟨b7,_|⟨b8,_|⟨b9,_|⟨b10,_|⟨b11,rest⟩⟩⟩⟩⟩⟩⟩⟩⟩⟩⟩⟩
    all_goals try (simp only [List.length_cons, List.length_nil] at h; omega)
    have hr : n * 12 ≤ rest.length := by simp only [List.length_cons] at h; omega
    obtain ⟨ns, vs, h1, h2, h3⟩ := loop96_take_spec n rest hr
    refine ⟨ofLeBytes [b0, b1, b2, b3, b4, b5, b6, b7, b8, b9, b10, b11] :: ns,
      (loadU32 b0 b1 b2 b3, loadU32 b4 b5 b6 b7, loadU32 b8 b9 b10 b11) :: vs, ?_, ?_, ?_⟩
    · rw [Spec.Plain.decodeFixed, if_neg (by simp)]
      have e : (n + 1) * 12 = n * 12 + 12 := by omega
      simp only [List.drop_succ_cons, List.drop_zero, List.take_succ_cons, List.take_zero, h1, e]
    · simp only [loop96, h2]
    · simp only [List.map_cons, h3, int96_load_eq_ofLe]

/-- `carquet_decode_plain_int96` = Spec decoder, on every input -/
theorem decodeInt96_eq_spec (input : List UInt8) (n : Nat) (h : n * 12 < 2 ^ 64) :
    match Spec.Plain.decodeFixed 12 n input with
    | none => decodeInt96 input n = .err
    | some (ns, _) => ∃ vs, decodeInt96 input n = .ok vs (n * 12) ∧ vs.map int96ToNat = ns := by
  by_cases hl : input.length < n * 12
  · rw [spec_decodeFixed_none 12 n input hl]
    simp only [decodeInt96, Int.toNat_natCast, sizeMul_of_lt h]
    rw [if_neg (by omega), if_pos hl]
  · obtain ⟨ns, vs, h1, h2, h3⟩ := loop96_take_spec n input (by omega)
    rw [h1]
    refine ⟨vs, ?_, h3⟩
    simp only [decodeInt96, Int.toNat_natCast, sizeMul_of_lt h]
    rw [if_neg (by omega), if_neg hl, h2]

theorem spec_decodeFlba_none (k : Nat) : ∀ (n : Nat) (bs : List UInt8), bs.length < n * k →
    Spec.Plain.decodeFlba k n bs = none
  | 0, bs, h => by simp at h
  | n + 1, bs, h => by
    rw [Spec.Plain.decodeFlba]
    by_cases hk : bs.length < k
    · rw [if_pos hk]
    · rw [if_neg hk, spec_decodeFlba_none k n (bs.drop k) (by rw [List.length_drop]; rw [Nat.succ_mul] at h; omega)]

/-- the Spec FLBA decoder cuts the first `n * k` bytes into `n` pieces -/
theorem spec_decodeFlba_take (k : Nat) : ∀ (n : Nat) (input : List UInt8), n * k ≤ input.length →
    ∃ vs, Spec.Plain.decodeFlba k n input = some (vs, input.drop (n * k)) ∧
      vs.flatten = input.take (n * k) ∧ vs.length = n ∧ ∀ v ∈ vs, v.length = k
  | 0, input, _ => ⟨[], by simp [Spec.Plain.decodeFlba], by simp, rfl, by simp⟩
  | n + 1, input, h => by
    have e : (n + 1) * k = k + n * k := by rw [Nat.succ_mul, Nat.add_comm]
    have hk : ¬ input.length < k := by rw [e] at h; omega
    obtain ⟨vs, h1, h2, h3, h4⟩ := spec_decodeFlba_take k n (input.drop k) (by rw [List.length_drop]; rw [e] at h; omega)
    refine ⟨input.take k :: vs, ?_, ?_, by simp [h3], ?_⟩
    · rw [Spec.Plain.decodeFlba, if_neg hk, h1, List.drop_drop, e]
    · rw [List.flatten_cons, h2, e, ← List.take_add]
    · intro v hv
      simp only [List.mem_cons] at hv
      rcases hv with rfl | hv
      · rw [List.length_take]; omega
      · exact h4 v hv

/-- `carquet_decode_plain_fixed_byte_array` = Spec decoder, on every input -/
theorem decodeFlba_eq_spec (input : List UInt8) (n k : Nat) (hk : 0 < k) (h : n * k < 2 ^ 64) :
    decodeFlba input n k =
      match Spec.Plain.decodeFlba k n input with
      | none => .err
      | some (vs, _) => .ok vs.flatten (n * k) := by
  simp only [decodeFlba, Int.toNat_natCast, sizeMul_of_lt h]
  rw [if_neg (by omega)]
  by_cases hl : input.length < n * k
  · rw [if_pos hl, spec_decodeFlba_none k n input hl]
  · obtain ⟨vs, h1, h2, _, _⟩ := spec_decodeFlba_take k n input (by omega)
    rw [if_neg hl, h1]
    simp only [h2]

end Carquet.Proofs.Plain
