import Carquet.Proofs.RleLevels
/-
`carquet_rle_decode_levels` after repair F58 (`Impl.Rle.levelsLoop`: a bit-packed group that is cut
short ends the decoding) agrees with the loop before the repair (`Impl.Rle.levelsLoopPreF58`) on
every legal stream — in a legal stream no group is cut short — so the completeness theorem of
Proofs/RleLevels.lean carries over: `RleLevels.decodeLevels_of_runs` below is the statement C11 and
C12 use.
-/
namespace Carquet.Proofs.RleLevels
open Carquet.Impl Carquet.Impl.Rle Carquet.Spec Carquet.Spec.RleHybrid
open Carquet.Proofs.NatBits Carquet.Proofs.BitpackImpl Carquet.Proofs.BitPackSpec Carquet.Proofs.RleGrammar

/-- the groups of a complete bit-packed run are never cut short -/
theorem groupsCut_complete (w : Nat) : ∀ (g : Nat) (data rest : List UInt8) (want : Nat),
    data.length = g * w → groupsCut w g (data ++ rest) want = false := by
  intro g
  induction g with
  | zero => intro data rest want _; rfl
  | succ g ih =>
    intro data rest want hlen
    have hw1 : w ≤ data.length := by rw [hlen, Nat.add_mul]; omega
    simp only [groupsCut]
    by_cases h0 : want = 0
    · rw [if_pos h0]
    · rw [if_neg h0]
      have hnot : ¬ (data ++ rest).length < w := by simp only [List.length_append]; omega
      rw [if_neg hnot]
      have hdrop : (data ++ rest).drop w = data.drop w ++ rest := by
        rw [List.drop_append_of_le_length hw1]
      rw [hdrop]
      exact ih (data.drop w) rest _ (by rw [List.length_drop, hlen, Nat.add_mul]; omega)

theorem storeGroup_length (temp : List Nat) (want : Nat) (hlen : temp.length = 8) :
    (storeGroup temp want).length = min 8 want := by
  unfold storeGroup
  split
  · simp [hlen]; omega
  · simp [hlen]; omega

/-- how many values the group loop of a complete bit-packed run stores, and what it leaves -/
theorem levelsGroups_shape {w : Nat} (hw : w ≤ 32) : ∀ (g : Nat) (data rest : List UInt8) (want : Nat),
    data.length = g * w →
    (levelsGroups w g (data ++ rest) want).1.length = min want (8 * g) ∧
    (8 * g ≤ want → (levelsGroups w g (data ++ rest) want).2 = rest) := by
  intro g
  induction g with
  | zero =>
    intro data rest want hlen
    have : data = [] := List.eq_nil_of_length_eq_zero (by simpa using hlen)
    subst this
    simp [levelsGroups]
  | succ g ih =>
    intro data rest want hlen
    have hw1 : w ≤ data.length := by rw [hlen, Nat.add_mul]; omega
    simp only [levelsGroups]
    by_cases h0 : want = 0
    · subst h0; simp
    rw [if_neg h0]
    have hnot : ¬ (data ++ rest).length < w := by simp only [List.length_append]; omega
    rw [if_neg hnot]
    have hdrop : (data ++ rest).drop w = data.drop w ++ rest := by
      rw [List.drop_append_of_le_length hw1]
    have hl8 : (Bitpack.unpack8 w (data ++ rest)).length = 8 := unpack8_length hw _
    rw [hdrop]
    have hlen' : (data.drop w).length = g * w := by rw [List.length_drop, hlen, Nat.add_mul]; omega
    obtain ⟨i1, i2⟩ := ih (data.drop w) rest (want - min 8 want) hlen'
    constructor
    · simp only [List.length_append, storeGroup_length _ want hl8, i1]; omega
    · intro h8
      exact i2 (by omega)

theorem levelsLoop_zero_want (w f : Nat) (bs : List UInt8) : levelsLoop w f bs 0 = [] := by
  cases f <;> simp [levelsLoop]

theorem levelsLoopPreF58_zero_want (w f : Nat) (bs : List UInt8) : levelsLoopPreF58 w f bs 0 = [] := by
  cases f <;> simp [levelsLoopPreF58]

/-- on a legal stream the two decoders are the same function -/
theorem levelsLoop_eq_preF58 {w : Nat} (hw : w ≤ 32) {bs : List UInt8} {xs : List Nat} (h : Runs w bs xs) :
    ∀ (f n : Nat), bs.length < f → n ≤ xs.length → levelsLoop w f bs n = levelsLoopPreF58 w f bs n := by
  induction h with
  | nil =>
    intro f n _ hn
    have : n = 0 := by simpa using hn
    subst this
    rw [levelsLoop_zero_want, levelsLoopPreF58_zero_want]
  | rle hdr cnt v rest vals hh hv _ ih =>
    intro f n hf hn
    cases f with
    | zero => omega
    | succ f =>
      by_cases hn0 : n = 0
      · subst hn0; rw [levelsLoop_zero_want, levelsLoopPreF58_zero_want]
      have hpos : 0 < hdr.length := List.length_pos_iff.mpr (isHeader_ne_nil hh)
      have hvb : (RleHybrid.leBytes (RleHybrid.valueBytes w) v).length = Rle.valueBytes w := by
        rw [spec_leBytes_eq]; exact leBytes_length _ _
      have hhdr : Varint.readHeaderLevels (hdr ++ (RleHybrid.leBytes (RleHybrid.valueBytes w) v ++ rest))
          = (2 * cnt, RleHybrid.leBytes (RleHybrid.valueBytes w) v ++ rest) :=
        VarintImpl.readHeaderLevels_of_readVarintRle (read_header hh _)
      simp only [List.length_append, List.length_replicate] at hf hn
      have hne : ¬ (hdr ++ RleHybrid.leBytes (RleHybrid.valueBytes w) v ++ rest).length = 0 := by
        simp only [List.length_append]; omega
      have hlong : ¬ (RleHybrid.leBytes (RleHybrid.valueBytes w) v ++ rest).length < Rle.valueBytes w := by
        simp only [List.length_append, hvb]; omega
      have hhdr' : Varint.readHeaderLevels (hdr ++ RleHybrid.leBytes (RleHybrid.valueBytes w) v ++ rest)
          = (2 * cnt, RleHybrid.leBytes (RleHybrid.valueBytes w) v ++ rest) := by
        rw [List.append_assoc]; exact hhdr
      by_cases hc0 : cnt = 0
      · subst hc0
        simp only [levelsLoop, levelsLoopPreF58, hn0, hne, hhdr', two_mul_and_one, two_mul_shr, hlong,
          List.drop_left' hvb, if_true, if_false]
        exact ih f n (by omega) (by simpa using hn)
      · simp only [levelsLoop, levelsLoopPreF58, hn0, hne, hhdr', two_mul_and_one, two_mul_shr, hlong, hc0,
          List.drop_left' hvb, if_true, if_false]
        congr 1
        exact ih f (n - min cnt n) (by omega) (by omega)
  | packed hdr g data xs rest vals hh hlen hu _ ih =>
    intro f n hf hn
    cases f with
    | zero => omega
    | succ f =>
      by_cases hn0 : n = 0
      · subst hn0; rw [levelsLoop_zero_want, levelsLoopPreF58_zero_want]
      have hpos : 0 < hdr.length := List.length_pos_iff.mpr (isHeader_ne_nil hh)
      have hhdr : Varint.readHeaderLevels (hdr ++ (data ++ rest)) = (2 * g + 1, data ++ rest) :=
        VarintImpl.readHeaderLevels_of_readVarintRle (read_header hh _)
      rw [unpackGroups_eq_spec hw g data hlen] at hu
      cases hu
      have hxl := unpackGroups_length hw g data hlen
      simp only [List.length_append] at hf hn
      have hne : ¬ (hdr ++ data ++ rest).length = 0 := by simp only [List.length_append]; omega
      have hhdr' : Varint.readHeaderLevels (hdr ++ data ++ rest) = (2 * g + 1, data ++ rest) := by
        rw [List.append_assoc]; exact hhdr
      have hodd : ¬ ((2 * g + 1) &&& 1 = 0) := two_mul_add_and_one g
      by_cases hg0 : g = 0
      · subst hg0
        have : data = [] := List.eq_nil_of_length_eq_zero (by simpa using hlen)
        subst this
        have hhdr0 : Varint.readHeaderLevels (hdr ++ [] ++ rest) = (1, rest) := by simpa using hhdr'
        have hne0 : ¬ (hdr ++ [] ++ rest).length = 0 := hne
        simp only [levelsLoop, levelsLoopPreF58, hn0, hne0, hhdr0, if_false]
        have e1 : ¬ ((1 : Nat) &&& 1 = 0) := by decide
        have e2 : (1 : Nat) >>> 1 * 8 = 0 := by decide
        simp only [e1, e2, if_false, if_true]
        exact ih f n (by simp only [List.length_nil] at hf; omega)
          (by simp only [Bitpack.unpackGroups, List.length_nil] at hn; omega)
      · have hg8 : ¬ (g * 8 = 0) := by omega
        have hl := levelsGroups_shape hw g data rest n hlen
        simp only [levelsLoop, levelsLoopPreF58, hn0, hne, hhdr', hodd, two_mul_add_shr, hg8,
          groupsCut_complete w g data rest n hlen, if_false, Bool.false_eq_true]
        congr 1
        by_cases hfull : 8 * g ≤ n
        · rw [hl.2 hfull, hl.1, Nat.min_eq_right hfull]
          exact ih f (n - 8 * g) (by omega) (by rw [hxl] at hn; omega)
        · rw [hl.1, Nat.min_eq_left (by omega), Nat.sub_self, levelsLoop_zero_want, levelsLoopPreF58_zero_want]

/-- the repaired fast path on a legal stream: the first `n` values as int16 (provided they are
below 2^15) -/
theorem decodeLevels_of_runs {w : Nat} (hw : w ≤ 32) {bs : List UInt8} {xs : List Nat} (h : Runs w bs xs)
    (n : Nat) (hn : n ≤ xs.length) (hsmall : ∀ v ∈ xs.take n, v < 32768) :
    decodeLevels w bs n = (xs.take n).map Int.ofNat := by
  unfold decodeLevels
  rw [if_pos (show w ≤ maxWidth from hw), levelsLoop_eq_preF58 hw h _ n (Nat.lt_succ_self _) hn]
  exact decodeLevelsPreF58_of_runs hw h n hn hsmall

end Carquet.Proofs.RleLevels
