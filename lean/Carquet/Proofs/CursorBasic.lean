import Carquet.Spec.Cursor
import Carquet.Impl.ColumnReader
/-
Helper lemmas for C02: caller buffers (`fill`, `bufWrite`), `srcSlice`, and the rows of a decoded
page (`pageRows`) with their take/drop algebra.
-/
namespace Carquet.Proofs.Cursor
open Carquet.Spec.Cursor (Row)
open Carquet.Impl.ColumnReader

/-! ### caller buffers -/

/-- A `k`-slot buffer whose first `xs.length` slots hold `xs`, the rest untouched. -/
def fill (xs : List β) (k : Nat) : List (Option β) := xs.map some ++ List.replicate (k - xs.length) none

theorem fill_nil (k : Nat) : fill ([] : List β) k = List.replicate k none := by simp [fill]

theorem length_fill (xs : List β) (k : Nat) (h : xs.length ≤ k) : (fill xs k).length = k := by
  simp [fill]; omega

theorem take_fill (xs : List β) (k : Nat) : (fill xs k).take xs.length = xs.map some := by
  simp [fill]

theorem bufWrite_fill (xs ys : List β) (k : Nat) :
    bufWrite (fill xs k) xs.length (ys.map some) = fill (xs ++ ys) k := by
  unfold bufWrite fill
  rw [List.take_append_of_le_length (by simp), List.take_of_length_le (by simp)]
  rw [List.drop_append]
  simp only [List.length_map, List.drop_replicate, List.map_append, List.length_append]
  rw [List.drop_eq_nil_iff.mpr (by simp)]
  simp
  omega

/-! ### memcpy source slices -/

theorem srcSlice_eq (xs : List β) (off n : Nat) (h : off + n ≤ xs.length) :
    srcSlice xs off n = ((xs.drop off).take n).map some := by
  have : ((xs.drop off).take n).length = n := by simp; omega
  simp [srcSlice, this]

/-! ### rows of a decoded page -/

/-- The logical rows of a decoded page: levels per row, the dense values handed to the rows whose
definition level is the maximum. -/
def pageRows (maxDef : Nat) : List Nat → List Nat → List α → List (Row α)
  | d :: ds, r :: rs, vals =>
    if d = maxDef then
      match vals with
      | v :: vs => ⟨d, r, some v⟩ :: pageRows maxDef ds rs vs
      | [] => ⟨d, r, none⟩ :: pageRows maxDef ds rs []
    else ⟨d, r, none⟩ :: pageRows maxDef ds rs vals
  | _, _, _ => []

/-- number of value-carrying rows among definition levels -/
def nn (maxDef : Nat) (ds : List Nat) : Nat := ds.countP (· == maxDef)

theorem nn_cons (maxDef d : Nat) (ds : List Nat) :
    nn maxDef (d :: ds) = (if d = maxDef then 1 else 0) + nn maxDef ds := by
  simp only [nn, List.countP_cons]
  by_cases h : d = maxDef <;> simp [h] <;> omega

theorem nn_le (maxDef : Nat) (ds : List Nat) : nn maxDef ds ≤ ds.length := by
  simp only [nn]; exact List.countP_le_length

theorem nn_append (maxDef : Nat) (a b : List Nat) : nn maxDef (a ++ b) = nn maxDef a + nn maxDef b := by
  simp [nn, List.countP_append]

theorem length_pageRows (maxDef : Nat) (ds rs : List Nat) (vs : List α) (h : ds.length ≤ rs.length) :
    (pageRows maxDef ds rs vs).length = ds.length := by
  induction ds generalizing rs vs with
  | nil => cases rs <;> simp [pageRows]
  | cons d ds ih =>
    cases rs with
    | nil => simp at h
    | cons r rs =>
      simp only [List.length_cons, Nat.add_le_add_iff_right] at h
      by_cases hd : d = maxDef
      · cases vs with
        | nil => simp [pageRows, hd, ih rs [] h]
        | cons v vs => simp [pageRows, hd, ih rs vs h]
      · simp [pageRows, hd, ih rs vs h]

theorem pageRows_nil_defs (maxDef : Nat) (rs : List Nat) (vs : List α) : pageRows maxDef [] rs vs = [] := by
  cases rs <;> simp [pageRows]

theorem map_def_pageRows (maxDef : Nat) (ds rs : List Nat) (vs : List α) (h : ds.length ≤ rs.length) :
    (pageRows maxDef ds rs vs).map (·.defLevel) = ds := by
  induction ds generalizing rs vs with
  | nil => simp [pageRows_nil_defs]
  | cons d ds ih =>
    cases rs with
    | nil => simp at h
    | cons r rs =>
      simp only [List.length_cons, Nat.add_le_add_iff_right] at h
      by_cases hd : d = maxDef
      · cases vs with
        | nil => simp [pageRows, hd, ih rs [] h]
        | cons v vs => simp [pageRows, hd, ih rs vs h]
      · simp [pageRows, hd, ih rs vs h]

theorem map_rep_pageRows (maxDef : Nat) (ds rs : List Nat) (vs : List α) (h : ds.length ≤ rs.length) :
    (pageRows maxDef ds rs vs).map (·.repLevel) = rs.take ds.length := by
  induction ds generalizing rs vs with
  | nil => simp [pageRows_nil_defs]
  | cons d ds ih =>
    cases rs with
    | nil => simp at h
    | cons r rs =>
      simp only [List.length_cons, Nat.add_le_add_iff_right] at h
      by_cases hd : d = maxDef
      · cases vs with
        | nil => simp [pageRows, hd, ih rs [] h]
        | cons v vs => simp [pageRows, hd, ih rs vs h]
      · simp [pageRows, hd, ih rs vs h]

theorem filterMap_val_pageRows (maxDef : Nat) (ds rs : List Nat) (vs : List α) (h : ds.length ≤ rs.length)
    (hv : nn maxDef ds ≤ vs.length) :
    (pageRows maxDef ds rs vs).filterMap (·.val) = vs.take (nn maxDef ds) := by
  induction ds generalizing rs vs with
  | nil => simp [pageRows_nil_defs, nn]
  | cons d ds ih =>
    cases rs with
    | nil => simp at h
    | cons r rs =>
      simp only [List.length_cons, Nat.add_le_add_iff_right] at h
      rw [nn_cons] at hv ⊢
      by_cases hd : d = maxDef
      · simp only [hd, if_true] at hv ⊢
        cases vs with
        | nil => simp at hv
        | cons v vs =>
          simp only [List.length_cons] at hv
          have := ih rs vs h (by omega)
          simp [pageRows, this, Nat.add_comm 1]
      · simp only [hd, if_false, Nat.zero_add] at hv ⊢
        simp [pageRows, hd, ih rs vs h hv]

/-- rows of a page prefix / suffix -/
theorem pageRows_take (maxDef : Nat) (ds rs : List Nat) (vs : List α) (n : Nat) (h : ds.length ≤ rs.length)
    (hv : nn maxDef ds ≤ vs.length) :
    (pageRows maxDef ds rs vs).take n = pageRows maxDef (ds.take n) (rs.take n) (vs.take (nn maxDef (ds.take n))) := by
  induction ds generalizing rs vs n with
  | nil => simp [pageRows_nil_defs]
  | cons d ds ih =>
    cases rs with
    | nil => simp at h
    | cons r rs =>
      simp only [List.length_cons, Nat.add_le_add_iff_right] at h
      cases n with
      | zero => simp [pageRows_nil_defs]
      | succ n =>
        rw [nn_cons] at hv
        simp only [List.take_succ_cons, nn_cons]
        by_cases hd : d = maxDef
        · simp only [hd, if_true] at hv ⊢
          cases vs with
          | nil => simp at hv
          | cons v vs =>
            simp only [List.length_cons] at hv
            simp [pageRows, Nat.add_comm 1, ih rs vs n h (by omega)]
        · simp only [hd, if_false, Nat.zero_add] at hv ⊢
          simp [pageRows, hd, ih rs vs n h hv]

theorem pageRows_drop (maxDef : Nat) (ds rs : List Nat) (vs : List α) (n : Nat) (h : ds.length ≤ rs.length)
    (hv : nn maxDef ds ≤ vs.length) :
    (pageRows maxDef ds rs vs).drop n = pageRows maxDef (ds.drop n) (rs.drop n) (vs.drop (nn maxDef (ds.take n))) := by
  induction ds generalizing rs vs n with
  | nil => simp [pageRows_nil_defs]
  | cons d ds ih =>
    cases rs with
    | nil => simp at h
    | cons r rs =>
      simp only [List.length_cons, Nat.add_le_add_iff_right] at h
      cases n with
      | zero => simp [nn]
      | succ n =>
        rw [nn_cons] at hv
        simp only [List.take_succ_cons, List.drop_succ_cons, nn_cons]
        by_cases hd : d = maxDef
        · simp only [hd, if_true] at hv ⊢
          cases vs with
          | nil => simp at hv
          | cons v vs =>
            simp only [List.length_cons] at hv
            simp [pageRows, Nat.add_comm 1, ih rs vs n h (by omega)]
        · simp only [hd, if_false, Nat.zero_add] at hv ⊢
          simp [pageRows, hd, ih rs vs n h hv]

/-- In a page whose value count matches its levels every row is well formed. -/
theorem pageRows_wf (maxDef : Nat) (ds rs : List Nat) (vs : List α) (h : ds.length ≤ rs.length)
    (hv : nn maxDef ds ≤ vs.length) (hle : ∀ d ∈ ds, d ≤ maxDef) :
    ∀ row ∈ pageRows maxDef ds rs vs, Row.WF maxDef row := by
  induction ds generalizing rs vs with
  | nil => simp [pageRows_nil_defs]
  | cons d ds ih =>
    cases rs with
    | nil => simp at h
    | cons r rs =>
      simp only [List.length_cons, Nat.add_le_add_iff_right] at h
      rw [nn_cons] at hv
      have hd' : d ≤ maxDef := hle d (by simp)
      have hle' : ∀ d ∈ ds, d ≤ maxDef := fun x hx => hle x (by simp [hx])
      by_cases hd : d = maxDef
      · simp only [hd, if_true] at hv
        cases vs with
        | nil => simp at hv
        | cons v vs =>
          simp only [List.length_cons] at hv
          intro row hrow
          simp only [pageRows, hd, if_true, List.mem_cons] at hrow
          rcases hrow with rfl | hrow
          · simp [Row.WF]
          · exact ih rs vs h (by omega) hle' row hrow
      · simp only [hd, if_false, Nat.zero_add] at hv
        intro row hrow
        simp only [pageRows, hd, if_false, List.mem_cons] at hrow
        rcases hrow with rfl | hrow
        · simp [Row.WF, hd, hd']
        · exact ih rs vs h hv hle' row hrow

/-- For well-formed rows the value-carrying rows are those at the maximum definition level. -/
theorem length_filterMap_val (maxDef : Nat) (rows : List (Row α)) (h : ∀ row ∈ rows, Row.WF maxDef row) :
    (rows.filterMap (·.val)).length = nn maxDef (rows.map (·.defLevel)) := by
  induction rows with
  | nil => simp [nn]
  | cons row rows ih =>
    have hw := h row (by simp)
    have ih' := ih (fun x hx => h x (by simp [hx]))
    simp only [List.map_cons, nn_cons]
    by_cases hd : row.defLevel = maxDef
    · have : row.val.isSome := hw.2.2 hd
      cases hv : row.val with
      | none => simp [hv] at this
      | some v => simp [hv, hd, ih']; omega
    · have : ¬ row.val.isSome := fun hs => hd (hw.2.1 hs)
      cases hv : row.val with
      | none => simp [hv, hd, ih']
      | some v => simp [hv] at this

end Carquet.Proofs.Cursor
