import Carquet.Impl.FileReal
import Carquet.Proofs.ThriftRoundtripTop
/-
The page header `carquet_page_writer_finalize` writes by hand (Impl.FileReal.pageHeader) is
byte for byte what `parquet_write_page_header` produces for the corresponding `PageHeader`
structure — so the Thrift round trip of C13 (`C13_roundtrip_pageheader`) applies to the
headers of written files.
-/
namespace Carquet.Proofs.FileRealHeader
open Carquet.Impl Carquet.Impl.FileReal Carquet.Impl.ThriftParquet

/-- the `PageHeader` structure a written data page's header denotes -/
def headerOf (unc comp crc numValues : Nat) (stats : Option Writer.PageStats) : PageHeader :=
  { type := 0, uncompressedPageSize := unc, compressedPageSize := comp, crc := some (asI32 crc),
    dataPageHeader :=
      { numValues := numValues, encoding := 0, definitionLevelEncoding := 3, repetitionLevelEncoding := 3,
        statistics := stats.map (fun s => { nullCount := some (s.nullCount : Int), maxValue := s.max, minValue := s.min }) } }

theorem pageHeader_eq_write (unc comp crc numValues : Nat) (stats : Option Writer.PageStats)
    (hs : ∀ s, stats = some s → s.max ≠ [] ∧ s.min ≠ []) :
    pageHeader unc comp crc numValues stats = writePageHeader (headerOf unc comp crc numValues stats) := by
  cases stats with
  | none =>
    simp [pageHeader, writePageHeader, writePageHeaderEnc, headerOf, wPageMember, wDataPageHeader, wOptStats, wOptI,
      pageData, wI]
  | some s =>
    obtain ⟨h1, h2⟩ := hs s rfl
    have e1 : s.max.isEmpty = false := by cases hm : s.max <;> simp_all
    have e2 : s.min.isEmpty = false := by cases hm : s.min <;> simp_all
    simp [pageHeader, writePageHeader, writePageHeaderEnc, headerOf, wPageMember, wDataPageHeader, wOptStats, wOptI,
      pageData, wI, writeStatistics, wBinNonEmpty, e1, e2]

end Carquet.Proofs.FileRealHeader

namespace Carquet.Proofs.FileRealHeader
open Carquet.Impl Carquet.Impl.FileReal Carquet.Impl.ThriftParquet

theorem asI32_isI32 (crc : Nat) (h : crc < 4294967296) : isI32 (asI32 crc) = true := by
  unfold asI32 isI32; split <;> simp <;> omega

theorem headerOf_wf (unc comp crc numValues : Nat) (stats : Option Writer.PageStats)
    (h1 : unc < 2147483648) (h2 : comp < 2147483648) (h3 : crc < 4294967296) (h4 : numValues < 2147483648)
    (hs : ∀ s, stats = some s → s.nullCount < 9223372036854775808 ∧ s.max.length < 2147483648 ∧ s.min.length < 2147483648) :
    (headerOf unc comp crc numValues stats).wf = true := by
  have hc := asI32_isI32 crc h3
  cases stats with
  | none =>
    simp [headerOf, PageHeader.wf, DataPageHeader.wf, isI32, okOpt, pageData] at hc ⊢
    omega
  | some s =>
    obtain ⟨a, b, c⟩ := hs s rfl
    simp [headerOf, PageHeader.wf, DataPageHeader.wf, Statistics.wf, isI32, isI64, isBin, okOpt, pageData] at hc ⊢
    omega

/-- Parsing the header of a written page (followed by anything) returns the structure it
denotes and consumes exactly the header. -/
theorem parse_written_header (unc comp crc numValues : Nat) (stats : Option Writer.PageStats) (rest : List UInt8)
    (h1 : unc < 2147483648) (h2 : comp < 2147483648) (h3 : crc < 4294967296) (h4 : numValues < 2147483648)
    (hs : ∀ s, stats = some s → s.nullCount < 9223372036854775808 ∧ s.max.length < 2147483648 ∧ s.min.length < 2147483648 ∧
          s.max ≠ [] ∧ s.min ≠ []) :
    parsePageHeader (pageHeader unc comp crc numValues stats ++ rest) =
      .ok (headerOf unc comp crc numValues stats, (pageHeader unc comp crc numValues stats).length) := by
  have e := pageHeader_eq_write unc comp crc numValues stats (fun s h => ⟨(hs s h).2.2.2.1, (hs s h).2.2.2.2⟩)
  have w := headerOf_wf unc comp crc numValues stats h1 h2 h3 h4 (fun s h => ⟨(hs s h).1, (hs s h).2.1, (hs s h).2.2.1⟩)
  have r := Carquet.Proofs.Thrift.roundtrip_pageheader (headerOf unc comp crc numValues stats) w rest
  rw [e]
  unfold parsePageHeader
  rw [r.1]
  cases stats <;> simp [headerOf, PageHeader.norm, DataPageHeader.norm, Statistics.norm, pageData, pageDataV2, pageDictionary]

end Carquet.Proofs.FileRealHeader
