import Carquet.Impl.Writer
/-
Helper lemmas about the writer's control model (generic in `Deps`).
-/
namespace Carquet.Proofs.Writer
open Carquet.Impl.Writer

/-- after `ensureHeader` the first stream write is the magic and `headerWritten` holds -/
def HeaderOk (w : W) : Prop :=
  w.headerWritten = true → ∃ rest, w.out = magic :: rest

theorem ensureHeader_ok (w : W) (h : HeaderOk w) (h0 : w.headerWritten = false → w.out = []) :
    (ensureHeader w).headerWritten = true ∧ ∃ rest, (ensureHeader w).out = magic :: rest := by
  unfold ensureHeader
  by_cases hw : w.headerWritten = true
  · simp [hw]; exact h hw
  · have hf : w.headerWritten = false := by simpa using hw
    simp [hf, h0 hf]

/-- invariant of every writer state: nothing is written before the header, and the header is the magic -/
def Inv (w : W) : Prop :=
  (w.headerWritten = false → w.out = []) ∧ (w.headerWritten = true → ∃ rest, w.out = magic :: rest)

theorem inv_init (cols : List Col) (codec pageSize : Nat) (createdBy : String) :
    Inv { cols := cols, codec := codec, pageSize := pageSize, createdBy := createdBy } := by
  refine ⟨fun _ => rfl, fun h => ?_⟩
  simp at h

theorem inv_ensureHeader (w : W) (h : Inv w) : Inv (ensureHeader w) ∧ (ensureHeader w).headerWritten = true := by
  obtain ⟨a, b⟩ := ensureHeader_ok w h.2 h.1
  exact ⟨⟨fun hf => (by rw [a] at hf; cases hf), fun _ => b⟩, a⟩

theorem inv_ensureRowGroup (w : W) (h : Inv w) : Inv (ensureRowGroup w) := by
  unfold ensureRowGroup
  cases hr : w.rg <;> simpa [Inv, hr] using h

theorem ensureRowGroup_header (w : W) : (ensureRowGroup w).headerWritten = w.headerWritten := by
  unfold ensureRowGroup; cases w.rg <;> rfl

theorem inv_flushRowGroup (D : Deps) (w : W) (h : Inv w) (hh : w.headerWritten = true) :
    Inv (flushRowGroup D w).1 ∧ (flushRowGroup D w).1.headerWritten = true := by
  unfold flushRowGroup
  cases hr : w.rg with
  | none => exact ⟨h, hh⟩
  | some cws =>
    simp only
    cases hf : finalizeCols D w w.cols cws w.fileOffset with
    | none => exact ⟨h, hh⟩
    | some p =>
      obtain ⟨bytes, metas⟩ := p
      simp only
      obtain ⟨rest, hrest⟩ := h.2 hh
      refine ⟨⟨fun hf' => (by simp [hh] at hf'), fun _ => ?_⟩, hh⟩
      by_cases hb : bytes.length > 0
      · simp [hb, hrest]
      · simp [hb, hrest]

theorem inv_writeBatch (D : Deps) (w : W) (b : Batch) (h : Inv w) : Inv (writeBatch D w b).1 := by
  unfold writeBatch
  have hE := inv_ensureHeader w h
  have hR := inv_ensureRowGroup _ hE.1
  cases hc : w.cols[b.col]? with
  | none => exact h
  | some c =>
    simp only
    cases hrg : (ensureRowGroup (ensureHeader w)).rg with
    | none => exact h
    | some cws =>
      simp only
      cases hcw : cws[b.col]? with
      | none => exact h
      | some cw =>
        simp only
        cases hcb : colWriteBatch D w.codec (targetPageSize w) c cw b with
        | none => exact hR
        | some cw' => exact ⟨fun hf => hR.1 hf, fun ht => hR.2 ht⟩

theorem inv_step (D : Deps) (w : W) (op : Op) (h : Inv w) : Inv (step D w op).1 := by
  cases op with
  | batch b => exact inv_writeBatch D w b h
  | newRowGroup =>
    have hE := inv_ensureHeader w h
    exact (inv_flushRowGroup D _ hE.1 hE.2).1

/-- shape of what `close` hands to the stream when it reports OK -/
theorem close_shape (D : Deps) (w : W) (h : Inv w) (hok : (close D w).2 = .ok) :
    ∃ body ftr, (close D w).1 = magic :: body ++ [ftr, le32 ftr.length, magic] := by
  unfold close at hok ⊢
  have hE := inv_ensureHeader w h
  have hF := inv_flushRowGroup D _ hE.1 hE.2
  generalize hfl : flushRowGroup D (ensureHeader w) = r at hok hF ⊢
  obtain ⟨w', st⟩ := r
  cases st with
  | ok =>
    obtain ⟨rest, hrest⟩ := hF.1.2 hF.2
    simp only at hrest ⊢
    exact ⟨rest, footerOf D w', by simp [hrest]⟩
  | invalidArgument => simp at hok
  | fileWrite => simp at hok
  | other => simp at hok

theorem run_inv_shape (D : Deps) : ∀ (ops : List Op) (w : W) (acc : List Status), Inv w →
    (run D w ops acc).2.getLast? = some .ok →
    ∃ body ftr, (run D w ops acc).1 = magic :: body ++ [ftr, le32 ftr.length, magic] := by
  intro ops
  induction ops with
  | nil =>
    intro w acc h hl
    simp only [run] at hl ⊢
    have : (close D w).2 = .ok := by simpa using hl
    exact close_shape D w h this
  | cons op ops ih =>
    intro w acc h hl
    simp only [run] at hl ⊢
    exact ih _ _ (inv_step D w op h) hl

end Carquet.Proofs.Writer
