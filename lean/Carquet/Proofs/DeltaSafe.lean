import Carquet.Impl.Delta
/-
Arithmetic safety facts of the Impl decoder (C08 part): the geometry after `init`, the position
invariant `pos + |rest| = size`, the number of values produced.
-/
namespace Carquet.Impl.Delta

theorem readUlebLoop_le (f : Nat) : ∀ (shift : Nat) (acc : BitVec 64) (i : Nat) (data : List UInt8) (v : BitVec 64) (n : Nat),
    readUlebLoop f shift acc i data = some (v, n) → i < n ∧ n ≤ i + data.length := by
  induction f with
  | zero => intro shift acc i data v n h; simp [readUlebLoop] at h
  | succ f ih =>
    intro shift acc i data v n h
    cases data with
    | nil => simp [readUlebLoop] at h
    | cons b bs =>
      simp only [readUlebLoop] at h
      split at h
      · simp only [Option.some.injEq, Prod.mk.injEq] at h
        obtain ⟨_, rfl⟩ := h
        simp
      · have := ih _ _ _ _ _ _ h
        simp only [List.length_cons]
        omega

theorem readUleb128_le (data : List UInt8) (v : BitVec 64) (n : Nat) (h : readUleb128 data = some (v, n)) :
    n ≤ data.length := by
  have := readUlebLoop_le 10 0 0#64 0 data v n h
  omega

/-- what a successful `delta_decoder_init` establishes -/
theorem init_ok (data : List UInt8) (d : Dec) (h : init data = .ok d) :
    d.blockSize = 128 ∧ d.miniBlocksPerBlock = 4 ∧ d.totalValues ≤ 2147483647 ∧
    d.pos + d.rest.length = data.length ∧ d.valuesDecoded = 0 ∧ d.pending = [] ∧ d.widthsLeft = [] := by
  unfold init at h
  cases h1 : readUleb128 data with
  | none => rw [h1] at h; cases h
  | some p1 =>
    obtain ⟨bs, n1⟩ := p1
    rw [h1] at h
    simp only at h
    split at h
    · cases h
    · rename_i hbs
      cases h2 : readUleb128 (data.drop n1) with
      | none => rw [h2] at h; cases h
      | some p2 =>
        obtain ⟨mb, n2⟩ := p2
        rw [h2] at h
        simp only at h
        split at h
        · cases h
        · split at h
          · cases h
          · split at h
            · cases h
            · split at h
              · cases h
              · split at h
                · cases h
                · rename_i hmb hmb0 hbs0 hq hmods
                  cases h3 : readUleb128 (data.drop (n1 + n2)) with
                  | none => rw [h3] at h; cases h
                  | some p3 =>
                    obtain ⟨tot, n3⟩ := p3
                    rw [h3] at h
                    simp only at h
                    split at h
                    · cases h
                    · rename_i htot
                      cases h4 : readUleb128 (data.drop (n1 + n2 + n3)) with
                      | none => rw [h4] at h; cases h
                      | some p4 =>
                        obtain ⟨fst, n4⟩ := p4
                        rw [h4] at h
                        simp only [Except.ok.injEq] at h
                        subst h
                        simp only [blockSize, miniBlocks, miniBlockSize] at hbs hmb hq
                        have l1 := readUleb128_le _ _ _ h1
                        have l2 := readUleb128_le _ _ _ h2
                        have l3 := readUleb128_le _ _ _ h3
                        have l4 := readUleb128_le _ _ _ h4
                        simp only [List.length_drop] at l2 l3 l4
                        have hb128 : bs.toNat = 128 := by omega
                        have hm4 : mb.toNat = 4 := by
                          rw [hb128] at hmods hq
                          have : mb.toNat = 1 ∨ mb.toNat = 2 ∨ mb.toNat = 3 ∨ mb.toNat = 4 := by omega
                          rcases this with h | h | h | h <;> rw [h] at hmods hq <;> simp at hmods hq ⊢ <;> omega
                        refine ⟨hb128, hm4, ?_, ?_, rfl, rfl, rfl⟩
                        · show tot.toNat ≤ 2147483647
                          omega
                        · show n1 + n2 + n3 + n4 + (data.drop (n1 + n2 + n3 + n4)).length = data.length
                          simp only [List.length_drop]
                          omega

def posInv (N : Nat) (d : Dec) : Prop := d.pos + d.rest.length = N

theorem readBlock_inv (N : Nat) (d d' : Dec) (h : readBlock d = .ok d') (hi : posInv N d) :
    posInv N d' ∧ d'.blockSize = d.blockSize ∧ d'.miniBlocksPerBlock = d.miniBlocksPerBlock := by
  unfold readBlock at h
  split at h
  · cases h
  · cases h1 : readUleb128 d.rest with
    | none => rw [h1] at h; cases h
    | some p =>
      obtain ⟨zz, n⟩ := p
      rw [h1] at h
      simp only at h
      split at h
      · cases h
      · rename_i hlen
        simp only [Except.ok.injEq] at h
        subst h
        have := readUleb128_le _ _ _ h1
        simp only [List.length_drop] at hlen
        unfold posInv at hi ⊢
        simp only [List.length_drop]
        exact ⟨by omega, by first | rfl | trivial, by first | rfl | trivial⟩

theorem readMiniData_inv (pre : Bool) (N : Nat) (d d' : Dec) (w : UInt8) (ws : List UInt8)
    (h : readMiniData pre d w ws = .ok d') (hi : posInv N d) :
    posInv N d' ∧ d'.blockSize = d.blockSize ∧ d'.miniBlocksPerBlock = d.miniBlocksPerBlock := by
  unfold readMiniData at h
  unfold posInv at hi ⊢
  split at h
  · simp only [Except.ok.injEq] at h; subst h; exact ⟨hi, rfl, rfl⟩
  · split at h
    · split at h
      · cases h
      · simp only [Except.ok.injEq] at h; subst h
        simp only [List.length_drop]
        exact ⟨by omega, by first | rfl | trivial, by first | rfl | trivial⟩
    · split at h
      · split at h
        · cases h
        · simp only [Except.ok.injEq] at h; subst h
          simp only [List.length_drop]
          exact ⟨by omega, by first | rfl | trivial, by first | rfl | trivial⟩
      · cases h

theorem readMiniBlock_inv (pre : Bool) (N : Nat) (d d' : Dec) (h : readMiniBlock pre d = .ok d') (hi : posInv N d) :
    posInv N d' ∧ d'.blockSize = d.blockSize ∧ d'.miniBlocksPerBlock = d.miniBlocksPerBlock := by
  unfold readMiniBlock at h
  split at h
  · exact readMiniData_inv pre N d d' _ _ h hi
  · cases hb : readBlock d with
    | error s => rw [hb] at h; cases h
    | ok db =>
      rw [hb] at h
      simp only at h
      obtain ⟨i1, i2, i3⟩ := readBlock_inv N d db hb hi
      split at h
      · obtain ⟨j1, j2, j3⟩ := readMiniData_inv pre N db d' _ _ h i1
        exact ⟨j1, by rw [j2, i2], by rw [j3, i3]⟩
      · cases h

theorem popDelta_inv (N : Nat) (d d' : Dec) (v : BitVec 64) (h : popDelta d = .ok (v, d')) (hi : posInv N d) :
    posInv N d' ∧ d'.blockSize = d.blockSize ∧ d'.miniBlocksPerBlock = d.miniBlocksPerBlock := by
  unfold popDelta at h
  split at h
  · simp only [Except.ok.injEq, Prod.mk.injEq] at h
    obtain ⟨_, rfl⟩ := h
    exact ⟨hi, rfl, rfl⟩
  · cases h

theorem next_inv (pre : Bool) (N : Nat) (d d' : Dec) (v : BitVec 64) (h : next pre d = .ok (v, d')) (hi : posInv N d) :
    posInv N d' ∧ d'.blockSize = d.blockSize ∧ d'.miniBlocksPerBlock = d.miniBlocksPerBlock := by
  unfold next at h
  split at h
  · cases h
  · split at h
    · simp only [Except.ok.injEq, Prod.mk.injEq] at h
      obtain ⟨_, rfl⟩ := h
      exact ⟨hi, rfl, rfl⟩
    · split at h
      · exact popDelta_inv N d d' v h hi
      · cases hr : readMiniBlock pre d with
        | error s => rw [hr] at h; cases h
        | ok dm =>
          rw [hr] at h
          simp only at h
          obtain ⟨i1, i2, i3⟩ := readMiniBlock_inv pre N d dm hr hi
          obtain ⟨j1, j2, j3⟩ := popDelta_inv N dm d' v h i1
          exact ⟨j1, by rw [j2, i2], by rw [j3, i3]⟩

theorem decodeLoop_inv (pre : Bool) (N : Nat) (n : Nat) : ∀ (d d' : Dec) (vs : List (BitVec 64)),
    decodeLoop pre n d = .ok (vs, d') → posInv N d → posInv N d' ∧ vs.length = n := by
  induction n with
  | zero =>
    intro d d' vs h hi
    simp only [decodeLoop, Except.ok.injEq, Prod.mk.injEq] at h
    obtain ⟨rfl, rfl⟩ := h
    exact ⟨hi, rfl⟩
  | succ n ih =>
    intro d d' vs h hi
    simp only [decodeLoop] at h
    cases hn : next pre d with
    | error s => rw [hn] at h; cases h
    | ok p =>
      obtain ⟨v, d1⟩ := p
      rw [hn] at h
      simp only at h
      cases hl : decodeLoop pre n d1 with
      | error s => rw [hl] at h; cases h
      | ok q =>
        obtain ⟨vs', d2⟩ := q
        rw [hl] at h
        simp only [Except.ok.injEq, Prod.mk.injEq] at h
        obtain ⟨rfl, rfl⟩ := h
        obtain ⟨i1, _, _⟩ := next_inv pre N d d1 v hn hi
        obtain ⟨j1, j2⟩ := ih d1 _ vs' hl i1
        exact ⟨j1, by simp [j2]⟩

/-- a successful decode produces exactly the requested number of values and reports a consumed
count inside the input -/
theorem decodeV_ok (pre : Bool) (data : List UInt8) (n : Nat) (vs : List (BitVec 64)) (c : Nat)
    (h : decodeV pre data n = .ok (vs, c)) : vs.length = n ∧ c ≤ data.length := by
  unfold decodeV at h
  cases hi : init data with
  | error s => rw [hi] at h; cases h
  | ok d =>
    rw [hi] at h
    simp only at h
    cases hl : decodeLoop pre n d with
    | error s => rw [hl] at h; cases h
    | ok q =>
      obtain ⟨vs', d'⟩ := q
      rw [hl] at h
      simp only [Except.ok.injEq, Prod.mk.injEq] at h
      obtain ⟨rfl, rfl⟩ := h
      have hinv : posInv data.length d := (init_ok data d hi).2.2.2.1
      obtain ⟨j1, j2⟩ := decodeLoop_inv pre data.length n d d' vs' hl hinv
      unfold posInv at j1
      exact ⟨j2, by omega⟩

end Carquet.Impl.Delta
