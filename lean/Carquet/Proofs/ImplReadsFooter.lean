import Carquet.Proofs.ThriftRoundtripStructs
import Carquet.Proofs.ImplReadsThrift
import Carquet.Proofs.SpecFileWholeFull
import Carquet.Proofs.ThriftTop
/-
C06, implementation half — stage "footer": `parquet_parse_file_metadata` on the footer of the
reference writer — any header form, unknown fields in FileMetaData, every SchemaElement, every
RowGroup, ColumnChunk and ColumnMetaData, chunk statistics (C13: `parseFileMetaData_reads`) — returns
exactly the metadata structures `implSE` / `implRG` / `implCC` / `implCM` describe.
-/
namespace Carquet.Proofs.ImplReads
open Carquet.Spec Carquet.Spec.File Carquet.Spec.Thrift
open Carquet.Spec.ParquetThrift hiding Fields
open Carquet.Impl
open Carquet.Proofs.SpecFile (CcDesc RgDesc2 fmFields2 statsFieldsOf)

open Carquet.Proofs.Thrift

/-! ### small tools -/

theorem okF_nil {σ : Type} (tbl : Table σ) (R : Nat) : okFields tbl R [] := by intro f hf; cases hf

theorem okF_cons {σ : Type} (tbl : Table σ) (R : Nat) (f : Int × TVal) (fs : Fields) :
    okFields tbl R (f :: fs) ↔ okT tbl R f.1 f.2 ∧ okFields tbl R fs := by
  simp [okFields]

theorem okF_append {σ : Type} (tbl : Table σ) (R : Nat) (a b : Fields) :
    okFields tbl R (a ++ b) ↔ okFields tbl R a ∧ okFields tbl R b := by
  simp only [okFields, List.mem_append]
  exact ⟨fun h => ⟨fun f hf => h f (Or.inl hf), fun f hf => h f (Or.inr hf)⟩, fun h f hf => hf.elim (h.1 f) (h.2 f)⟩

theorem okF_opt {σ α : Type} (tbl : Table σ) (R : Nat) (id : Int) (mk : α → TVal) (o : Option α)
    (h : ∀ x, o = some x → okT tbl R id (mk x)) : okFields tbl R (optField id mk o) := by
  cases o with
  | none => exact okF_nil tbl R
  | some x => intro f hf; simp only [optField, List.mem_singleton] at hf; subst hf; exact h x rfl

theorem lookupT_ids {σ : Type} (tbl : Table σ) (s : StructSpec) (h : ∀ k ∈ tbl.map (·.1), (s.find k).isSome = true) :
    ∀ id, (lookupT tbl id).isSome = true → (s.find id).isSome = true := by
  intro id hid
  cases hl : lookupT tbl id with
  | none => rw [hl] at hid; cases hid
  | some f => exact h id (List.mem_map.mpr ⟨(id, f), lookupT_mem tbl id f hl, rfl⟩)

theorem map_i32_asInt' (xs : List Int) : (xs.map TVal.i32).map asInt = xs := by
  rw [List.map_map]; exact List.map_id'' (fun _ => rfl) xs

theorem map_binary_cstr' (xs : List Bytes) :
    (xs.map TVal.binary).map (fun v => ThriftParquet.cstr (asBin v)) = xs.map ThriftParquet.cstr := by
  rw [List.map_map]; rfl

theorem map_struct_of {α β : Type} (f : α → Fields) (conv : Fields → β) (g : α → β) (xs : List α) (h : ∀ x ∈ xs, conv (f x) = g x) :
    (xs.map (fun x => TVal.struct (f x))).map (fun v => conv (asFields v)) = xs.map g := by
  rw [List.map_map]
  exact List.map_congr_left (fun x hx => h x hx)

/-! ### Statistics -/

theorem stats_written_ok (R : Nat) (s : StatsMeta) : okFields tblStats R (statsFieldsOf s) := by
  unfold statsFieldsOf
  simp only [okF_append]
  refine ⟨⟨⟨⟨?_, ?_⟩, ?_⟩, ?_⟩, ?_⟩ <;> apply okF_opt <;> intro x _ <;> exact ⟨x, rfl⟩

/-! ### ColumnMetaData -/

theorem cm_sub : ∀ id, (lookupT (tblColumnMeta 27) id).isSome = true → (columnMetaData.find id).isSome = true := by
  apply lookupT_ids
  intro k hk
  simp only [tblColumnMeta, List.map_cons, List.map_nil, List.mem_cons, List.not_mem_nil, or_false] at hk
  rcases hk with rfl | rfl | rfl | rfl | rfl | rfl | rfl | rfl | rfl | rfl | rfl | rfl | rfl | rfl | rfl <;> rfl

theorem cm_written_ok (m : ColumnMeta) (stats : Option Fields) (henc : m.encodings.length ≤ 100) (hpath : m.path.length ≤ 100)
    (hst : ∀ fs, stats = some fs → okFields tblStats 27 fs) :
    okFields (tblColumnMeta 27) 28 (SpecFile.cmFields m ++ optField 12 TVal.struct stats) := by
  unfold SpecFile.cmFields
  simp only [okF_append, okF_cons]
  refine ⟨⟨⟨⟨_, rfl⟩, ?_, ?_, ⟨_, rfl⟩, ⟨_, rfl⟩, ⟨_, rfl⟩, ⟨_, rfl⟩, ⟨_, rfl⟩, okF_nil _ _⟩, ?_⟩, ?_⟩
  · refine ⟨_, _, rfl, ?_, ?_⟩
    · simp only [List.length_map, ThriftParquet.maxEncodings]; omega
    · intro x hx; obtain ⟨n, _, rfl⟩ := List.mem_map.mp hx; exact ⟨n, rfl⟩
  · refine ⟨_, _, rfl, ?_, ?_⟩
    · simp only [List.length_map, ThriftParquet.maxPathElements]; omega
    · intro x hx; obtain ⟨n, _, rfl⟩ := List.mem_map.mp hx; exact ⟨n, rfl⟩
  · apply okF_opt; intro x _; exact ⟨_, rfl⟩
  · apply okF_opt; intro x hx; exact ⟨x, rfl, hst x hx⟩

theorem cm_written_of (m : ColumnMeta) (stats : Option Fields) :
    ofFields (tblColumnMeta 27) {} (SpecFile.cmFields m ++ optField 12 TVal.struct stats) = implCM m stats := by
  obtain ⟨pt, encs, path, codec, nv, tu, tc, dpo, dict⟩ := m
  have e2 : ∀ s : ThriftParquet.ColumnMetaData, stepT (tblColumnMeta 27) s 2 (.list .i32 (encs.map .i32)) = { s with encodings := encs } := by
    intro s
    show ({ s with encodings := (encs.map TVal.i32).map asInt } : ThriftParquet.ColumnMetaData) = _
    rw [map_i32_asInt']
  have e3 : ∀ s : ThriftParquet.ColumnMetaData, stepT (tblColumnMeta 27) s 3 (.list .binary (path.map .binary)) =
      { s with pathInSchema := path.map ThriftParquet.cstr } := by
    intro s
    show ({ s with pathInSchema := (path.map TVal.binary).map (fun v => ThriftParquet.cstr (asBin v)) } : ThriftParquet.ColumnMetaData) = _
    rw [map_binary_cstr']
  cases dict <;> cases stats <;>
    simp only [SpecFile.cmFields, optField, ofFields, List.cons_append, List.nil_append, List.append_nil, List.foldl_cons, List.foldl_nil] <;>
    rw [e2, e3] <;> rfl

/-- what a column chunk description must respect for carquet's parser -/
structure CcLimits (d : CcDesc) : Prop where
  encodingsLen : d.m.encodings.length ≤ 100
  pathLen : d.m.path.length ≤ 100
  statsKnown : ∀ fs, d.stats = some fs → ∃ s, fs = statsFieldsOf s
  chunkDepth : extrasDepth 29 d.chunkExtra = true
  metaDepth : extrasDepth 28 d.metaExtra = true

theorem cmx_ok (d : CcDesc) (hd : d.Ok) (hl : CcLimits d) :
    okFields (tblColumnMeta 27) 28 (withExtras (SpecFile.cmFields d.m ++ optField 12 TVal.struct d.stats) d.metaExtra) := by
  refine okFields_withExtras _ _ _ _ (cm_written_ok d.m d.stats hl.encodingsLen hl.pathLen ?_)
    (lookupT_none_of_extrasOk _ _ _ cm_sub hd.metaExtra) hl.metaDepth
  intro fs hfs
  obtain ⟨s, rfl⟩ := hl.statsKnown fs hfs
  exact stats_written_ok 27 s

theorem cmx_of (d : CcDesc) (hd : d.Ok) :
    ofFields (tblColumnMeta 27) {} (withExtras (SpecFile.cmFields d.m ++ optField 12 TVal.struct d.stats) d.metaExtra) =
      implCM d.m d.stats := by
  rw [ofFields_withExtras _ _ _ _ (lookupT_none_of_extrasOk _ _ _ cm_sub hd.metaExtra)]
  exact cm_written_of d.m d.stats

/-! ### ColumnChunk -/

theorem cc_sub : ∀ id, (lookupT (tblColumnChunk 27) id).isSome = true → (columnChunk.find id).isSome = true := by
  apply lookupT_ids
  intro k hk
  simp only [tblColumnChunk, List.map_cons, List.map_nil, List.mem_cons, List.not_mem_nil, or_false] at hk
  rcases hk with rfl | rfl | rfl | rfl | rfl | rfl | rfl <;> rfl

theorem cc_written_ok (d : CcDesc) (hd : d.Ok) (hl : CcLimits d) : okFields (tblColumnChunk 27) 29 d.fields := by
  unfold CcDesc.fields
  refine okFields_withExtras _ _ _ _ ?_ (lookupT_none_of_extrasOk _ _ _ cc_sub hd.chunkExtra) hl.chunkDepth
  simp only [okF_cons]
  exact ⟨⟨_, rfl⟩, ⟨_, rfl, cmx_ok d hd hl⟩, okF_nil _ _⟩

theorem cc_written_of (d : CcDesc) (hd : d.Ok) : ofFields (tblColumnChunk 27) {} d.fields = implCC d := by
  unfold CcDesc.fields
  rw [ofFields_withExtras _ _ _ _ (lookupT_none_of_extrasOk _ _ _ cc_sub hd.chunkExtra)]
  have e3 : ∀ (s : ThriftParquet.ColumnChunk) (fs : Fields), stepT (tblColumnChunk 27) s 3 (.struct fs) =
      { s with metaData := some (ofFields (tblColumnMeta 27) {} fs) } := fun _ _ => rfl
  simp only [ofFields, List.foldl_cons, List.foldl_nil]
  rw [e3]
  rw [cmx_of d hd]
  rfl

/-! ### RowGroup -/

theorem rg_sub : ∀ id, (lookupT (tblRowGroup 27) id).isSome = true → (rowGroup.find id).isSome = true := by
  apply lookupT_ids
  intro k hk
  simp only [tblRowGroup, List.map_cons, List.map_nil, List.mem_cons, List.not_mem_nil, or_false] at hk
  rcases hk with rfl | rfl | rfl | rfl | rfl | rfl | rfl <;> rfl

theorem rg_written_ok (g : RgDesc2) (hg : g.Ok) (hlen : g.chunks.length ≤ 10000) (hdep : extrasDepth 30 g.extra = true)
    (hl : ∀ d ∈ g.chunks, CcLimits d) : okFields (tblRowGroup 27) 30 g.fields := by
  unfold RgDesc2.fields
  refine okFields_withExtras _ _ _ _ ?_ (lookupT_none_of_extrasOk _ _ _ rg_sub hg.extra) hdep
  simp only [okF_cons]
  refine ⟨⟨_, _, rfl, ?_, ?_⟩, ⟨_, rfl⟩, ⟨_, rfl⟩, okF_nil _ _⟩
  · simp only [List.length_map, ThriftParquet.maxColumnsPerRg]; omega
  · intro x hx
    obtain ⟨d, hd, rfl⟩ := List.mem_map.mp hx
    exact ⟨_, rfl, cc_written_ok d (hg.chunks d hd) (hl d hd)⟩

theorem rg_written_of (g : RgDesc2) (hg : g.Ok) : ofFields (tblRowGroup 27) {} g.fields = implRG g := by
  unfold RgDesc2.fields
  rw [ofFields_withExtras _ _ _ _ (lookupT_none_of_extrasOk _ _ _ rg_sub hg.extra)]
  have e1 : ∀ (s : ThriftParquet.RowGroup), stepT (tblRowGroup 27) s 1 (.list .struct (g.chunks.map (fun d => TVal.struct d.fields))) =
      { s with columns := g.chunks.map implCC } := by
    intro s
    show ({ s with columns := List.map (fun v => ofFields (tblColumnChunk 27) {} (asFields v)) (g.chunks.map (fun d => TVal.struct d.fields)) } : ThriftParquet.RowGroup) = _
    rw [map_struct_of CcDesc.fields (ofFields (tblColumnChunk 27) {}) implCC g.chunks (fun d hd => cc_written_of d (hg.chunks d hd))]
  simp only [ofFields, List.foldl_cons, List.foldl_nil]
  rw [e1]
  rfl

/-! ### SchemaElement -/

theorem se_sub : ∀ id, (lookupT (tblSchema 27) id).isSome = true → (schemaElement.find id).isSome = true := by
  apply lookupT_ids
  intro k hk
  simp only [tblSchema, List.map_cons, List.map_nil, List.mem_cons, List.not_mem_nil, or_false] at hk
  rcases hk with rfl | rfl | rfl | rfl | rfl | rfl | rfl | rfl | rfl | rfl <;> rfl

/-- the union value the reference writer states an annotation with is the Thrift value of the
`carquet_logical_type_t` carquet's parser makes of it -/
theorem annotationTV_impl (a : Schema.Annotation) : annotationTV a = logicalTypeTV (implLogical a) := by
  cases a with
  | time utc u => cases u <;> rfl
  | timestamp utc u => cases u <;> rfl
  | _ => rfl

theorem implLogical_ne_unknown (a : Schema.Annotation) : implLogical a ≠ .unknown := by
  cases a <;> simp [implLogical]

theorem fLogical_impl (a : Schema.Annotation) : fLogical (some (implLogical a)) = [(10, annotationTV a)] := by
  rw [annotationTV_impl]
  cases a <;> rfl

theorem se_known_ok (e : Schema.Element) : okFields (tblSchema 27) 30 (SpecFile.seFields e) := by
  unfold SpecFile.seFields
  simp only [okF_append]
  refine ⟨⟨⟨⟨⟨⟨?_, ?_⟩, ?_⟩, ?_⟩, ?_⟩, ?_⟩, ?_⟩
  · apply okF_opt; intro x _; exact ⟨_, rfl⟩
  · split
    · exact okF_nil _ _
    · simp only [okF_cons]; exact ⟨⟨_, rfl⟩, okF_nil _ _⟩
  · apply okF_opt; intro x _; exact ⟨_, rfl⟩
  · simp only [okF_cons]; exact ⟨⟨_, rfl⟩, okF_nil _ _⟩
  · split
    · exact okF_nil _ _
    · simp only [okF_cons]; exact ⟨⟨_, rfl⟩, okF_nil _ _⟩
  · apply okF_opt; intro x _; exact ⟨_, rfl⟩
  · apply okF_opt; intro a _
    rw [annotationTV_impl, logicalTypeTV_eq]
    exact okT_struct _ _ 10 _ _ _ _ rfl (logical_ok 27 (by decide) (implLogical a))

theorem se_base_of (e : Schema.Element) :
    ofFields (tblSchema 27) {} (SpecFile.seFieldsBase e) = { implSE e with logicalType := none } := by
  obtain ⟨⟨name, rep, pt, tl, lg, lt⟩, nc⟩ := e
  by_cases ht : tl = 0 <;> by_cases hn : nc = 0 <;> cases pt <;> cases rep <;> cases lg <;>
    simp only [SpecFile.seFieldsBase, implSE, optField, ht, hn, ↓reduceIte, List.cons_append, List.nil_append, List.append_nil, ofFields,
      List.foldl_cons, List.foldl_nil] <;> rfl

theorem se_known_of (e : Schema.Element) : ofFields (tblSchema 27) {} (SpecFile.seFields e) = implSE e := by
  have hsplit : SpecFile.seFields e = SpecFile.seFieldsBase e ++ optField 10 annotationTV e.info.logicalType := rfl
  rw [hsplit, ofFields_append, se_base_of]
  cases hl : e.info.logicalType with
  | none =>
    simp only [optField, ofFields, List.foldl_nil, implSE, hl, Option.map_none]
  | some a =>
    have h := piece_logical 27 ({ implSE e with logicalType := none }) (some (implLogical a)) rfl
    rw [fLogical_impl] at h
    simp only [optField]
    rw [h]
    have hn : ThriftParquet.normLogical (some (implLogical a)) = some (implLogical a) := by
      have := implLogical_ne_unknown a
      cases hh : implLogical a <;> first | (exact absurd hh this) | rfl
    rw [hn]
    simp only [implSE, hl, Option.map_some]

theorem se_written_ok (e : Schema.Element) (se : Fields) (hse : extrasOk schemaElement se = true) (hd : extrasDepth 30 se = true) :
    okFields (tblSchema 27) 30 (withExtras (SpecFile.seFields e) se) :=
  okFields_withExtras _ _ _ _ (se_known_ok e) (lookupT_none_of_extrasOk _ _ _ se_sub hse) hd

theorem se_written_of (e : Schema.Element) (se : Fields) (hse : extrasOk schemaElement se = true) :
    ofFields (tblSchema 27) {} (withExtras (SpecFile.seFields e) se) = implSE e := by
  rw [ofFields_withExtras _ _ _ _ (lookupT_none_of_extrasOk _ _ _ se_sub hse)]
  exact se_known_of e

/-! ### FileMetaData -/

theorem fm_sub : ∀ id, (lookupT (tblFileMeta 27) id).isSome = true → (fileMetaData.find id).isSome = true := by
  apply lookupT_ids
  intro k hk
  simp only [tblFileMeta, List.map_cons, List.map_nil, List.mem_cons, List.not_mem_nil, or_false] at hk
  rcases hk with rfl | rfl | rfl | rfl | rfl | rfl <;> rfl

abbrev FMState := ThriftParquet.Top (ThriftParquet.FileMetaData × ThriftParquet.Required)

theorem fm_written_of (version : Int) (schema : List Schema.Element) (se : Fields) (numRows : Nat) (gs : List RgDesc2)
    (createdBy : Option Bytes) (extra : Fields) (hx : extrasOk fileMetaData extra = true)
    (hse : extrasOk schemaElement se = true) (hgs : ∀ g ∈ gs, g.Ok) :
    ofFileMetaFields 27 (fmFields2 version schema se numRows gs createdBy extra) =
      ({ version := version, schema := schema.map implSE, numRows := (numRows : Int), rowGroups := gs.map implRG,
         keyValueMetadata := [], createdBy := createdBy.map ThriftParquet.cstr }, ⟨true, true, true, true⟩) := by
  unfold ofFileMetaFields fmFields2
  rw [ofFields_withExtras _ _ _ _ (lookupT_none_of_extrasOk _ _ _ fm_sub hx)]
  have e2 : ∀ (s : FMState), stepT (tblFileMeta 27) s 2 (.list .struct (schema.map (fun e => TVal.struct (withExtras (SpecFile.seFields e) se))))
      = { s with val := ({ s.val.1 with schema := schema.map implSE }, { s.val.2 with schema := true }) } := by
    intro s
    show ({ s with val := ({ s.val.1 with schema := List.map (fun v => ofFields (tblSchema 27) {} (asFields v)) (schema.map (fun e => TVal.struct (withExtras (SpecFile.seFields e) se))) }, { s.val.2 with schema := true }) } : FMState) = _
    rw [map_struct_of (fun e => withExtras (SpecFile.seFields e) se) (ofFields (tblSchema 27) {}) implSE schema
      (fun e _ => se_written_of e se hse)]
  have e4 : ∀ (s : FMState), stepT (tblFileMeta 27) s 4 (.list .struct (gs.map (fun g => TVal.struct g.fields)))
      = { s with val := ({ s.val.1 with rowGroups := gs.map implRG }, { s.val.2 with rowGroups := true }) } := by
    intro s
    show ({ s with val := ({ s.val.1 with rowGroups := List.map (fun v => ofFields (tblRowGroup 27) {} (asFields v)) (gs.map (fun g => TVal.struct g.fields)) }, { s.val.2 with rowGroups := true }) } : FMState) = _
    rw [map_struct_of RgDesc2.fields (ofFields (tblRowGroup 27) {}) implRG gs (fun g hg => rg_written_of g (hgs g hg))]
  cases createdBy <;>
    simp only [optField, List.cons_append, List.nil_append, List.append_nil, ofFields, List.foldl_cons, List.foldl_nil] <;>
    rw [e2, e4] <;> rfl

theorem fm_written_ok (version : Int) (schema : List Schema.Element) (se : Fields) (numRows : Nat) (gs : List RgDesc2)
    (createdBy : Option Bytes) (extra : Fields) (hx : extrasOk fileMetaData extra = true)
    (hse : extrasOk schemaElement se = true)
    (hsl : schema.length ≤ 10000) (hgl : gs.length ≤ 100000) (hxd : extrasDepth 31 extra = true) (hsd : extrasDepth 30 se = true)
    (hg : ∀ g ∈ gs, okFields (tblRowGroup 27) 30 g.fields) :
    okFields (tblFileMeta 27) 31 (fmFields2 version schema se numRows gs createdBy extra) := by
  unfold fmFields2
  refine okFields_withExtras _ _ _ _ ?_ (lookupT_none_of_extrasOk _ _ _ fm_sub hx) hxd
  simp only [okF_append, okF_cons]
  refine ⟨⟨⟨_, rfl⟩, ⟨_, _, rfl, ?_, ?_⟩, ⟨_, rfl⟩, ⟨_, _, rfl, ?_, ?_⟩, okF_nil _ _⟩, ?_⟩
  · simp only [List.length_map, ThriftParquet.maxSchemaElements]; omega
  · intro x hx'
    obtain ⟨e, _, rfl⟩ := List.mem_map.mp hx'
    exact ⟨_, rfl, se_written_ok e se hse hsd⟩
  · simp only [List.length_map, ThriftParquet.maxRowGroups]; omega
  · intro x hx'
    obtain ⟨g, hg', rfl⟩ := List.mem_map.mp hx'
    exact ⟨_, rfl, hg g hg'⟩
  · apply okF_opt; intro x _; exact ⟨_, rfl⟩

/-- the limits of src/thrift/parquet_types.c a footer must respect, and the depth of its unknown fields -/
structure FooterLimits (schema : List Schema.Element) (se : Fields) (gs : List RgDesc2) (extra : Fields) : Prop where
  schemaLen : schema.length ≤ 10000
  groupsLen : gs.length ≤ 100000
  chunksLen : ∀ g ∈ gs, g.chunks.length ≤ 10000
  encodingsLen : ∀ g ∈ gs, ∀ d ∈ g.chunks, d.m.encodings.length ≤ 100
  pathLen : ∀ g ∈ gs, ∀ d ∈ g.chunks, d.m.path.length ≤ 100
  statsKnown : ∀ g ∈ gs, ∀ d ∈ g.chunks, ∀ fs, d.stats = some fs → ∃ s, fs = statsFieldsOf s
  footerDepth : extrasDepth 31 extra = true
  schemaDepth : extrasDepth 30 se = true
  groupDepth : ∀ g ∈ gs, extrasDepth 30 g.extra = true
  chunkDepth : ∀ g ∈ gs, ∀ d ∈ g.chunks, extrasDepth 29 d.chunkExtra = true ∧ extrasDepth 28 d.metaExtra = true

theorem parseFooter_written (F : ThriftForm) (version : Int) (schema : List Schema.Element) (se : Fields) (numRows : Nat)
    (gs : List RgDesc2) (createdBy : Option Bytes) (extra : Fields)
    (hwf : (TVal.struct (fmFields2 version schema se numRows gs createdBy extra)).wf = true)
    (hx : extrasOk fileMetaData extra = true) (hse : extrasOk schemaElement se = true) (hgs : ∀ g ∈ gs, g.Ok)
    (hlim : FooterLimits schema se gs extra) :
    ThriftParquetReq.parseFileMetaDataReq (encodeValF F (.struct (fmFields2 version schema se numRows gs createdBy extra))) =
      .ok { version := version, schema := schema.map implSE, numRows := (numRows : Int), rowGroups := gs.map implRG,
            keyValueMetadata := [], createdBy := createdBy.map ThriftParquet.cstr } := by
  have hcc : ∀ g ∈ gs, ∀ d ∈ g.chunks, CcLimits d := fun g hg d hd =>
    ⟨hlim.encodingsLen g hg d hd, hlim.pathLen g hg d hd, hlim.statsKnown g hg d hd, (hlim.chunkDepth g hg d hd).1,
      (hlim.chunkDepth g hg d hd).2⟩
  have hok := fm_written_ok version schema se numRows gs createdBy extra hx hse hlim.schemaLen hlim.groupsLen
    hlim.footerDepth hlim.schemaDepth
    (fun g hg => rg_written_ok g (hgs g hg) (hlim.chunksLen g hg) (hlim.groupDepth g hg) (hcc g hg))
  have hof := fm_written_of version schema se numRows gs createdBy extra hx hse hgs
  have h := parseFileMetaData_reads 27 (by decide) _ _ (SpecFile.enc_encodeValF F _ hwf) hok (by rw [hof]; rfl) []
  rw [List.append_nil, hof] at h
  unfold ThriftParquetReq.parseFileMetaDataReq ThriftParquet.parseFileMetaData
  rw [h]
  rfl

end Carquet.Proofs.ImplReads
