import Carquet.Spec.Varint
import Carquet.Impl.Varint
import Carquet.Proofs.NatBits
/-
carquet's varint writers/readers (Impl/Varint.lean) against ULEB128 (Spec/Varint.lean).
-/
namespace Carquet.Proofs.VarintImpl
open Carquet.Impl.Varint Carquet.Proofs.NatBits
open Carquet.Spec

theorem byte_cont : ∀ n, n < 256 → (n &&& 0x80 = 0 ↔ n < 128) := by decide +kernel

theorem low7 (n : Nat) : n &&& 0x7F = n % 128 := and_mask n 7

/-- the write loop emits canonical ULEB128 when the fuel covers the value -/
theorem writeLoop_eq (f v : Nat) (h : v < 2 ^ (7 * (f + 1))) : writeLoop f v = Varint.encode v := by
  induction f generalizing v with
  | zero =>
    have : v < 128 := by simpa using h
    simp [writeLoop, Varint.encode_lt this]
  | succ f ih =>
    simp only [writeLoop]
    split
    · rename_i hge
      have hge' : 128 ≤ v := hge
      rw [Varint.encode_ge hge', low7]
      have hor : v % 128 ||| 0x80 = v % 128 + 128 := by
        have := or_eq_add 1 (v % 128) 7 (Nat.mod_lt _ (by decide))
        simp only [Nat.mul_one] at this
        rw [Nat.or_comm]
        have e : (2:Nat) ^ 7 = 0x80 := by decide
        rw [e] at this
        omega
      rw [hor, shr_eq]
      have hlt : v / 2 ^ 7 < 2 ^ (7 * (f + 1)) := by
        rw [Nat.div_lt_iff_lt_mul (Nat.two_pow_pos 7), ← Nat.pow_add]
        rw [show 7 * (f + 1) + 7 = 7 * (f + 1 + 1) by omega]; exact h
      rw [ih _ hlt]
    · rename_i hlt
      have : v < 128 := by omega
      rw [Varint.encode_lt this]

theorem writeVarint32_eq {v : Nat} (h : v < 2 ^ 32) : writeVarint32 v = Varint.encode v :=
  writeLoop_eq 4 v (Nat.lt_of_lt_of_le h (by decide))

theorem writeVarint64_eq {v : Nat} (h : v < 2 ^ 64) : writeVarint64 v = Varint.encode v :=
  writeLoop_eq 9 v (Nat.lt_of_lt_of_le h (by decide))

/-- the read loop computes what `Spec.Varint.decode` computes, as long as the number is
short enough for the fuel and fits the register -/
theorem readLoop_eq (bits : Nat) : ∀ (bs : List UInt8) (fuel shift result v : Nat) (rest : List UInt8),
    Varint.decode bs = some (v, rest) → bs.length - rest.length ≤ fuel →
    result < 2 ^ shift → result + v * 2 ^ shift < 2 ^ bits →
    readLoop bits fuel shift result bs = some (result + v * 2 ^ shift, rest) := by
  intro bs
  induction bs with
  | nil => intro fuel shift result v rest h; simp [Varint.decode] at h
  | cons b tl ih =>
    intro fuel shift result v rest hdec hfuel hres hfit
    have hrl := Varint.decode_rest_length hdec
    simp only [List.length_cons] at hrl hfuel
    cases fuel with
    | zero => omega
    | succ f =>
      have hb := b.toNat_lt
      simp only [Varint.decode] at hdec
      simp only [readLoop]
      have hor : ∀ x, result + x * 2 ^ shift < 2 ^ bits →
          result ||| ((x <<< shift) % 2 ^ bits) = result + x * 2 ^ shift := by
        intro x hx
        rw [shl_eq, Nat.mod_eq_of_lt (by omega), Nat.or_comm, Nat.mul_comm, or_eq_add _ _ _ hres,
          Nat.add_comm]
      split at hdec
      · rename_i hlt
        cases hdec
        have : b.toNat &&& 0x80 = 0 := (byte_cont _ hb).mpr hlt
        simp only [this, if_true]
        rw [low7, Nat.mod_eq_of_lt hlt, hor _ hfit]
      · rename_i hge
        have hne : ¬ (b.toNat &&& 0x80 = 0) := fun h => hge ((byte_cont _ hb).mp h)
        simp only [hne, if_false]
        split at hdec
        · cases hdec
        · rename_i v' r' heq
          cases hdec
          have hrl' := Varint.decode_rest_length heq
          have hmod : b.toNat % 128 = b.toNat - 128 := by omega
          have hpow : (2:Nat) ^ (shift + 7) = 2 ^ shift * 128 := by rw [Nat.pow_add]
          have hfit1 : result + (b.toNat - 128) * 2 ^ shift < 2 ^ bits := by
            have : (b.toNat - 128) * 2 ^ shift ≤ (b.toNat - 128 + 128 * v') * 2 ^ shift :=
              Nat.mul_le_mul_right _ (by omega)
            omega
          rw [low7, hmod, hor _ hfit1]
          have hexp : (b.toNat - 128 + 128 * v') * 2 ^ shift
              = (b.toNat - 128) * 2 ^ shift + v' * 2 ^ (shift + 7) := by
            rw [Nat.add_mul, hpow, Nat.mul_comm 128 v', Nat.mul_assoc, Nat.mul_comm 128]
          have hres' : result + (b.toNat - 128) * 2 ^ shift < 2 ^ (shift + 7) := by
            rw [hpow]
            have : (b.toNat - 128) * 2 ^ shift ≤ 127 * 2 ^ shift := Nat.mul_le_mul_right _ (by omega)
            omega
          rw [ih f (shift + 7) _ v' rest heq (by omega) hres' (by rw [Nat.add_assoc, ← hexp]; exact hfit)]
          rw [hexp, Nat.add_assoc]

/-- rle.c `read_varint` (and `carquet_decode_varint32`) on a number of at most 5 bytes below 2^32 -/
theorem readVarintRle_of_spec {bs rest : List UInt8} {v : Nat} (h : Varint.decode bs = some (v, rest))
    (hlen : bs.length - rest.length ≤ 5) (hv : v < 2 ^ 32) : readVarintRle bs = some (v, rest) := by
  have := readLoop_eq 32 bs 5 0 0 v rest h hlen (by decide) (by simpa using hv)
  simpa [readVarintRle] using this

theorem decode_append {hdr : List UInt8} {v : Nat} (h : Varint.decode hdr = some (v, [])) (rest : List UInt8) :
    Varint.decode (hdr ++ rest) = some (v, rest) := by
  induction hdr generalizing v with
  | nil => simp [Varint.decode] at h
  | cons b tl ih =>
    simp only [Varint.decode, List.cons_append] at h ⊢
    split at h
    · rename_i hlt
      cases h; simp [hlt]
    · rename_i hge
      simp only [hge, if_false]
      split at h
      · cases h
      · rename_i v' r' heq
        cases h
        rw [ih heq]

/-- reading back what `write_varint` wrote -/
theorem readVarintRle_write {v : Nat} (hv : v < 2 ^ 32) (rest : List UInt8) :
    readVarintRle (writeVarint32 v ++ rest) = some (v, rest) := by
  rw [writeVarint32_eq hv]
  apply readVarintRle_of_spec (Varint.decode_encode_append v rest) _ hv
  have := Varint.encode_length_le 4 v (Nat.lt_of_lt_of_le hv (by decide))
  simp only [List.length_append]; omega

/-- the non-failing header loop of `carquet_rle_decode_levels` agrees with `read_varint`
whenever the latter succeeds -/
theorem readLoopNoFail_of_readLoop : ∀ (bs : List UInt8) (fuel shift result v : Nat) (rest : List UInt8),
    readLoop 32 fuel shift result bs = some (v, rest) →
    readLoopNoFail fuel shift result bs = (v, rest) := by
  intro bs
  induction bs with
  | nil => intro fuel shift result v rest h; cases fuel <;> simp [readLoop] at h
  | cons b tl ih =>
    intro fuel shift result v rest h
    cases fuel with
    | zero => simp [readLoop] at h
    | succ f =>
      simp only [readLoop] at h
      simp only [readLoopNoFail]
      split
      · rename_i h0
        simp only [h0, if_true] at h
        cases h; rfl
      · rename_i h0
        simp only [h0, if_false] at h
        exact ih _ _ _ _ _ h

theorem readHeaderLevels_of_readVarintRle {bs rest : List UInt8} {v : Nat}
    (h : readVarintRle bs = some (v, rest)) : readHeaderLevels bs = (v, rest) :=
  readLoopNoFail_of_readLoop bs 5 0 0 v rest h

end Carquet.Proofs.VarintImpl
