import Carquet.Proofs.DeltaSafe
import Carquet.Impl.DeltaLength
import Carquet.Impl.DeltaStrings
/-
C08 for the byte-array delta decoders: the pointers / copies they make, kept as data
(`DeltaLength.decodeSlices`, `DeltaStrings.decodeAcc`), stay inside the input, inside the work
buffer and inside the previous value; and these instrumented functions are the decoders
(`decode_eq_decodeSlices`, `decode_eq_decodeAcc`).
-/
namespace Carquet.Impl.Delta

theorem decodeInt32_ok (data : List UInt8) (n : Nat) (vs : List (BitVec 32)) (c : Nat)
    (h : decodeInt32 data n = .ok (vs, c)) : vs.length = n ∧ c ≤ data.length := by
  unfold decodeInt32 at h
  cases hd : decodeV false data n with
  | error s => rw [hd] at h; cases h
  | ok p =>
    obtain ⟨ws, c'⟩ := p
    rw [hd] at h
    simp only [Except.ok.injEq, Prod.mk.injEq] at h
    obtain ⟨rfl, rfl⟩ := h
    have := decodeV_ok false data n ws c' hd
    simpa using this

theorem toNat_lt_of_nonneg32 (x : BitVec 32) (h : 0 ≤ x.toInt) : x.toNat < 2 ^ 31 := by
  rw [BitVec.toInt_eq_toNat_cond] at h
  have := x.isLt
  split at h <;> omega

end Carquet.Impl.Delta

namespace Carquet.Impl.DeltaLength
open Carquet.Impl.Delta

theorem slices_eq_offsets (lens : List Nat) (data : List UInt8) : ∀ c0 : Nat,
    slices lens (data.drop c0) = (sliceOffsets c0 lens).map (fun ol => (data.drop ol.1).take ol.2) := by
  induction lens with
  | nil => intro c0; rfl
  | cons l ls ih =>
    intro c0
    simp only [slices, sliceOffsets, List.map_cons, List.drop_drop]
    rw [ih (c0 + l)]

theorem length_sliceOffsets (lens : List Nat) : ∀ c0, (sliceOffsets c0 lens).length = lens.length := by
  induction lens with
  | nil => intro _; rfl
  | cons l ls ih => intro c0; simp [sliceOffsets, ih]

theorem map_snd_sliceOffsets (lens : List Nat) : ∀ c0, (sliceOffsets c0 lens).map Prod.snd = lens := by
  induction lens with
  | nil => intro _; rfl
  | cons l ls ih => intro c0; simp [sliceOffsets, ih]

theorem sliceOffsets_inside (lens : List Nat) : ∀ c0, ∀ ol ∈ sliceOffsets c0 lens,
    c0 ≤ ol.1 ∧ ol.1 + ol.2 ≤ c0 + lens.sum ∧ ol.2 ∈ lens := by
  induction lens with
  | nil => intro c0 ol h; simp [sliceOffsets] at h
  | cons l ls ih =>
    intro c0 ol h
    simp only [sliceOffsets, List.mem_cons] at h
    rcases h with rfl | h
    · simp only [List.sum_cons, List.mem_cons, true_or, and_true]; omega
    · obtain ⟨h1, h2, h3⟩ := ih (c0 + l) ol h
      simp only [List.sum_cons, List.mem_cons]
      exact ⟨by omega, by omega, Or.inr h3⟩

/-- the instrumented decoder is the decoder: the values are the slices of the input it names -/
theorem decode_eq_decodeSlices (data : List UInt8) (n : Int) :
    decode data n =
      (decodeSlices data n).map (fun r => (r.1.map (fun ol => (data.drop ol.1).take ol.2), r.2)) := by
  unfold decode decodeSlices
  split
  · rfl
  · cases decodeInt32 data n.toNat with
    | error s => rfl
    | ok p =>
      obtain ⟨lengths, consumed⟩ := p
      simp only
      split
      · rfl
      · split
        · rfl
        · simp only [Except.map, slices_eq_offsets]

/-- what a successful `carquet_delta_length_decode` hands out: exactly `n` slices, consecutive
from the end `c0` of the length stream, each shorter than 2 GiB, all inside `[c0, consumed)`, and
`consumed ≤ data_size` -/
theorem decodeSlices_safe (data : List UInt8) (n : Int) (sl : List (Nat × Nat)) (c : Nat)
    (h : decodeSlices data n = .ok (sl, c)) :
    0 < n ∧ sl.length = n.toNat ∧ c ≤ data.length ∧
    ∃ c0, c0 ≤ c ∧ sl = sliceOffsets c0 (sl.map Prod.snd) ∧ c = c0 + (sl.map Prod.snd).sum ∧
      ∀ ol ∈ sl, c0 ≤ ol.1 ∧ ol.1 + ol.2 ≤ c ∧ ol.2 < 2 ^ 31 := by
  unfold decodeSlices at h
  split at h
  · cases h
  · rename_i hn
    cases hd : decodeInt32 data n.toNat with
    | error s => rw [hd] at h; cases h
    | ok p =>
      obtain ⟨lengths, consumed⟩ := p
      rw [hd] at h
      simp only at h
      obtain ⟨hl, hc⟩ := decodeInt32_ok data n.toNat lengths consumed hd
      split at h
      · cases h
      · rename_i hneg
        split at h
        · cases h
        · rename_i hfit
          simp only [Except.ok.injEq, Prod.mk.injEq] at h
          obtain ⟨rfl, rfl⟩ := h
          refine ⟨by omega, by simp [length_sliceOffsets, hl], by omega, consumed, by omega, ?_, ?_, ?_⟩
          · rw [map_snd_sliceOffsets]
          · rw [map_snd_sliceOffsets]
          · intro ol hol
            obtain ⟨h1, h2, h3⟩ := sliceOffsets_inside _ consumed ol hol
            refine ⟨h1, h2, ?_⟩
            simp only [List.mem_map] at h3
            obtain ⟨x, hx, hxe⟩ := h3
            rw [← hxe]
            have : ¬ x.toInt < 0 := by
              intro hlt
              apply hneg
              rw [List.any_eq_true]
              exact ⟨x, hx, by simpa using hlt⟩
            exact toNat_lt_of_nonneg32 x (by omega)

end Carquet.Impl.DeltaLength

namespace Carquet.Impl.DeltaStrings
open Carquet.Impl.Delta

theorem asInt32_le (n : Nat) : asInt32 n ≤ (n : Int) := by
  unfold asInt32
  rw [BitVec.toInt_eq_toNat_cond, BitVec.toNat_ofNat]
  have : n % 2 ^ 32 ≤ n := Nat.mod_le _ _
  split <;> omega

theorem reconstructAcc_safe (workSize : Nat) (ps : List Nat) : ∀ (ss : List Nat) (so wo : Nat) (prevLen : Option Nat)
    (accs : List Access), (∀ p ∈ ps, p < 2 ^ 31) → (∀ s ∈ ss, s < 2 ^ 31) → ps.length = ss.length →
    reconstructAcc workSize ps ss so wo prevLen = .ok accs →
    accsSafe workSize so wo (prevLen.getD 0) accs ∧ accs.map (·.suf) = ss ∧ accs.map (·.pre) = ps := by
  induction ps with
  | nil =>
    intro ss so wo prevLen accs _ _ hlen h
    cases ss with
    | nil => simp only [reconstructAcc, Except.ok.injEq] at h; subst h; simp [accsSafe]
    | cons s ss => simp at hlen
  | cons p ps ih =>
    intro ss so wo prevLen accs hp hs hlen h
    cases ss with
    | nil => simp at hlen
    | cons s ss =>
      have hp0 := hp p (by simp)
      have hs0 := hs s (by simp)
      have hmod : (p + s) % 4294967296 = p + s := Nat.mod_eq_of_lt (by omega)
      simp only [reconstructAcc, hmod] at h
      split at h
      · cases h
      · rename_i hw
        split at h
        · cases h
        · rename_i hchk
          cases hr : reconstructAcc workSize ps ss (so + s) (wo + (p + s)) (some (p + s)) with
          | error e => rw [hr] at h; cases h
          | ok as =>
            rw [hr] at h
            simp only [Except.ok.injEq] at h
            subst h
            obtain ⟨i1, i2, i3⟩ := ih ss (so + s) (wo + (p + s)) (some (p + s)) as
              (fun x hx => hp x (by simp [hx])) (fun x hx => hs x (by simp [hx])) (by simpa using hlen) hr
            refine ⟨⟨rfl, rfl, ?_, ?_, ?_⟩, by simp [i2], by simp [i3]⟩
            · show p ≤ prevLen.getD 0
              by_cases hp1 : 0 < p
              · have : ¬ (prevLen = none ∨ asInt32 (prevLen.getD 0) < (p : Int)) := fun hh => hchk ⟨hp1, hh⟩
                have h2 : ¬ asInt32 (prevLen.getD 0) < (p : Int) := fun hh => this (Or.inr hh)
                have := asInt32_le (prevLen.getD 0)
                omega
              · omega
            · show wo + p + s ≤ workSize
              omega
            · simpa [Nat.add_assoc] using i1

/-- the list model of the loop (`reconstruct`) is the access model followed by `buildValues` -/
theorem reconstruct_eq_build (workSize : Nat) (data : List UInt8) (ps : List Nat) :
    ∀ (ss : List Nat) (so wo : Nat) (prev : Option (List UInt8)),
    (∀ p ∈ ps, p < 2 ^ 31) → (∀ s ∈ ss, s < 2 ^ 31) → ps.length = ss.length →
    so + ss.sum ≤ data.length → (∀ pr, prev = some pr → pr.length < 2 ^ 32) →
    reconstruct workSize ps ss (data.drop so) wo prev =
      (reconstructAcc workSize ps ss so wo (prev.map List.length)).map (buildValues data (prev.getD [])) := by
  induction ps with
  | nil =>
    intro ss so wo prev _ _ hlen _ _
    cases ss with
    | nil => simp [reconstruct, reconstructAcc, Except.map, buildValues]
    | cons s ss => simp at hlen
  | cons p ps ih =>
    intro ss so wo prev hp hs hlen hfit hprev
    cases ss with
    | nil => simp at hlen
    | cons s ss =>
      have hp0 := hp p (by simp)
      have hs0 := hs s (by simp)
      have hmod : (p + s) % 4294967296 = p + s := Nat.mod_eq_of_lt (by omega)
      simp only [List.sum_cons] at hfit
      have hpl : asInt32 ((prev.getD []).length) = asInt32 ((prev.map List.length).getD 0) := by
        cases prev <;> rfl
      have hnone : (prev = none) = (prev.map List.length = none) := by cases prev <;> simp
      simp only [reconstruct, reconstructAcc, hmod, hpl, hnone]
      split
      · rfl
      · split
        · rfl
        · rename_i hchk
          -- the new previous value has exactly `p + s` bytes
          have hple : p ≤ (prev.getD []).length := by
            by_cases hp1 : 0 < p
            · have h2 : ¬ asInt32 ((prev.map List.length).getD 0) < (p : Int) := fun hh => hchk ⟨hp1, Or.inr hh⟩
              have := asInt32_le ((prev.map List.length).getD 0)
              have e : (prev.map List.length).getD 0 = (prev.getD []).length := by cases prev <;> rfl
              rw [e] at this h2
              omega
            · omega
          have hvl : ((prev.getD []).take p ++ (data.drop so).take s).length = p + s := by
            simp only [List.length_append, List.length_take, List.length_drop]
            omega
          have := ih ss (so + s) (wo + (p + s)) (some ((prev.getD []).take p ++ (data.drop so).take s))
            (fun x hx => hp x (by simp [hx])) (fun x hx => hs x (by simp [hx])) (by simpa using hlen)
            (by omega) (fun pr h => by cases h; rw [hvl]; omega)
          simp only [Option.map_some, hvl, Option.getD_some] at this
          rw [List.drop_drop, this]
          cases reconstructAcc workSize ps ss (so + s) (wo + (p + s)) (some (p + s)) with
          | error e => rfl
          | ok as => simp [Except.map, buildValues]

/-- `accsSafe` read access by access: every suffix read lies in `[so, so + Σ suf)`, every value
inside the work buffer at or after `wo` -/
theorem accsSafe_forall (workSize : Nat) (accs : List Access) : ∀ (so wo pl : Nat),
    accsSafe workSize so wo pl accs →
    ∀ a ∈ accs, so ≤ a.sufOff ∧ a.sufOff + a.suf ≤ so + (accs.map (·.suf)).sum ∧
      wo ≤ a.workOff ∧ a.workOff + a.pre + a.suf ≤ workSize := by
  induction accs with
  | nil => intro _ _ _ _ a ha; simp at ha
  | cons b bs ih =>
    intro so wo pl h a ha
    obtain ⟨h1, h2, h3, h4, h5⟩ := h
    simp only [List.mem_cons] at ha
    simp only [List.map_cons, List.sum_cons]
    rcases ha with rfl | ha
    · omega
    · obtain ⟨j1, j2, j3, j4⟩ := ih _ _ _ h5 a ha
      omega

theorem mem_zip_left {α β : Type} : ∀ (a : List α) (b : List β), a.length = b.length →
    ∀ x ∈ a, ∃ y, (x, y) ∈ List.zip a b
  | [], _, _, x, hx => by simp at hx
  | _ :: _, [], h, _, _ => by simp at h
  | a0 :: as, b0 :: bs, h, x, hx => by
    simp only [List.mem_cons] at hx
    rcases hx with rfl | hx
    · exact ⟨b0, by simp⟩
    · obtain ⟨y, hy⟩ := mem_zip_left as bs (by simpa using h) x hx
      exact ⟨y, by simp [hy]⟩

theorem mem_zip_right {α β : Type} : ∀ (a : List α) (b : List β), a.length = b.length →
    ∀ y ∈ b, ∃ x, (x, y) ∈ List.zip a b
  | _, [], _, y, hy => by simp at hy
  | [], _ :: _, h, _, _ => by simp at h
  | a0 :: as, b0 :: bs, h, y, hy => by
    simp only [List.mem_cons] at hy
    rcases hy with rfl | hy
    · exact ⟨a0, by simp⟩
    · obtain ⟨x, hx⟩ := mem_zip_right as bs (by simpa using h) y hy
      exact ⟨x, by simp [hx]⟩

/-- the sign check of `carquet_delta_strings_decode` on two lists of equal length -/
theorem nonneg_of_zip_any (suffixes prefixes : List (BitVec 32)) (hl : suffixes.length = prefixes.length)
    (h : ¬ (List.zip suffixes prefixes).any (fun sp => decide (sp.1.toInt < 0 ∨ sp.2.toInt < 0)) = true) :
    (∀ s ∈ suffixes, 0 ≤ s.toInt) ∧ (∀ p ∈ prefixes, 0 ≤ p.toInt) := by
  have key : ∀ sp ∈ List.zip suffixes prefixes, 0 ≤ sp.1.toInt ∧ 0 ≤ sp.2.toInt := by
    intro sp hsp
    have : ¬ (sp.1.toInt < 0 ∨ sp.2.toInt < 0) := by
      intro hh
      apply h
      rw [List.any_eq_true]
      exact ⟨sp, hsp, by simpa using hh⟩
    omega
  constructor
  · intro s hs
    obtain ⟨y, hy⟩ := mem_zip_left suffixes prefixes hl s hs
    exact (key _ hy).1
  · intro p hp
    obtain ⟨x, hx⟩ := mem_zip_right suffixes prefixes hl p hp
    exact (key _ hx).2

theorem map_toNat_lt (l : List (BitVec 32)) (h : ∀ x ∈ l, 0 ≤ x.toInt) :
    ∀ n ∈ l.map (fun x => x.toNat), n < 2 ^ 31 := by
  intro n hn
  simp only [List.mem_map] at hn
  obtain ⟨x, hx, rfl⟩ := hn
  exact toNat_lt_of_nonneg32 x (h x hx)

/-- the instrumented decoder is the decoder -/
theorem decode_eq_decodeAcc (data : List UInt8) (n : Int) (workSize : Nat) :
    decode data n workSize = (decodeAcc data n workSize).map (fun r => (buildValues data [] r.1, r.2)) := by
  unfold decode decodeAcc
  split
  · rfl
  · cases h1 : decodeInt32 data n.toNat with
    | error s => rfl
    | ok p1 =>
      obtain ⟨prefixes, c1⟩ := p1
      simp only
      cases h2 : decodeInt32 (data.drop c1) n.toNat with
      | error s => rfl
      | ok p2 =>
        obtain ⟨suffixes, c2⟩ := p2
        simp only
        obtain ⟨hl1, _⟩ := decodeInt32_ok data n.toNat prefixes c1 h1
        obtain ⟨hl2, _⟩ := decodeInt32_ok (data.drop c1) n.toNat suffixes c2 h2
        split
        · rfl
        · rename_i hneg
          split
          · rfl
          · rename_i hfit
            obtain ⟨hs, hp⟩ := nonneg_of_zip_any suffixes prefixes (by omega) hneg
            have := reconstruct_eq_build workSize data (prefixes.map (fun l => l.toNat))
              (suffixes.map (fun l => l.toNat)) (c1 + c2) 0 none (map_toNat_lt _ hp) (map_toNat_lt _ hs)
              (by simp [hl1, hl2]) (by omega) (by simp)
            simp only [Option.map_none, Option.getD_none] at this
            rw [this]
            cases reconstructAcc workSize (prefixes.map (fun l => l.toNat)) (suffixes.map (fun l => l.toNat))
              (c1 + c2) 0 none with
            | error e => rfl
            | ok as => rfl

/-- what a successful `carquet_delta_strings_decode` does: `n` accesses obeying `accsSafe` from the
end `c0` of the two length streams, `consumed = c0 + Σ suffix lengths ≤ data_size` -/
theorem decodeAcc_safe (data : List UInt8) (n : Int) (workSize : Nat) (accs : List Access) (c : Nat)
    (h : decodeAcc data n workSize = .ok (accs, c)) :
    0 < n ∧ accs.length = n.toNat ∧ c ≤ data.length ∧
    ∃ c0, accsSafe workSize c0 0 0 accs ∧ c = c0 + (accs.map (·.suf)).sum ∧
      (∀ a ∈ accs, a.pre < 2 ^ 31 ∧ a.suf < 2 ^ 31) := by
  unfold decodeAcc at h
  split at h
  · cases h
  · rename_i hn
    cases h1 : decodeInt32 data n.toNat with
    | error s => rw [h1] at h; cases h
    | ok p1 =>
      obtain ⟨prefixes, c1⟩ := p1
      rw [h1] at h
      simp only at h
      cases h2 : decodeInt32 (data.drop c1) n.toNat with
      | error s => rw [h2] at h; cases h
      | ok p2 =>
        obtain ⟨suffixes, c2⟩ := p2
        rw [h2] at h
        simp only at h
        obtain ⟨hl1, _⟩ := decodeInt32_ok data n.toNat prefixes c1 h1
        obtain ⟨hl2, _⟩ := decodeInt32_ok (data.drop c1) n.toNat suffixes c2 h2
        split at h
        · cases h
        · rename_i hneg
          split at h
          · cases h
          · rename_i hfit
            obtain ⟨hs, hp⟩ := nonneg_of_zip_any suffixes prefixes (by omega) hneg
            cases hr : reconstructAcc workSize (prefixes.map (fun l => l.toNat)) (suffixes.map (fun l => l.toNat))
              (c1 + c2) 0 none with
            | error e => rw [hr] at h; cases h
            | ok as =>
              rw [hr] at h
              simp only [Except.ok.injEq, Prod.mk.injEq] at h
              obtain ⟨rfl, rfl⟩ := h
              obtain ⟨i1, i2, i3⟩ := reconstructAcc_safe workSize _ _ (c1 + c2) 0 none as (map_toNat_lt _ hp)
                (map_toNat_lt _ hs) (by simp [hl1, hl2]) hr
              have hlen : as.length = n.toNat := by
                have := congrArg List.length i2
                simpa [hl2] using this
              refine ⟨by omega, hlen, by omega, c1 + c2, by simpa using i1, by rw [i2], ?_⟩
              intro a ha
              constructor
              · exact map_toNat_lt _ hp a.pre (by rw [← i3]; exact List.mem_map_of_mem ha)
              · exact map_toNat_lt _ hs a.suf (by rw [← i2]; exact List.mem_map_of_mem ha)

end Carquet.Impl.DeltaStrings
