import Carquet.Proofs.WriterLayout
/-
Page structure of the data region written by the writer model (C05: "page headers whose sizes
chain exactly through each chunk, value counts that add up pages -> chunk, stored CRC equal
to the CRC of the stored page bytes, uncompressed sizes that match").  Generic in `Deps`.

The ghost field `ColW.pages` records, for every page `flushPage` emits, what the header was
computed from.  The invariants below say that the column buffer is exactly the concatenation
of `header ++ stored body` of those records and that the chunk metadata are their sums; the
data region of the file is then the concatenation over row groups and chunks.
-/
namespace Carquet.Proofs.WriterPages
open Carquet.Impl.Writer Carquet.Proofs.Writer Carquet.Proofs.WriterLayout

def pagesBytes (D : Deps) (ps : List PageRec) : Bytes := (ps.map (PageRec.bytes D)).flatten
def groupBytes (D : Deps) (g : List (List PageRec)) : Bytes := (g.map (pagesBytes D)).flatten
def dataBytes (D : Deps) (gs : List (List (List PageRec))) : Bytes := (gs.map (groupBytes D)).flatten

def sumRows (ps : List PageRec) : Nat := (ps.map (·.rows)).sum
def sumBody (ps : List PageRec) : Nat := (ps.map (·.body.length)).sum

/-- Σ (header + uncompressed body): `total_uncompressed_size` of a chunk as the format defines it -/
def sumUsize (D : Deps) (ps : List PageRec) : Nat := (ps.map (PageRec.usize D)).sum

theorem PageRec.bytes_eq (D : Deps) (r : PageRec) : r.bytes D = r.header D ++ r.comp := rfl

/-- a page record is what `carquet_page_writer_finalize` does: the stored body is the
compression of the uncompressed body, and the page is not empty -/
def PageOk (D : Deps) (codec : Nat) (r : PageRec) : Prop :=
  D.compress codec r.body = some r.comp ∧ 0 < r.rows

/-- the metadata of a chunk are the sums over its pages -/
def ChunkPages (D : Deps) (codec : Nat) (m : ChunkMeta) (ps : List PageRec) : Prop :=
  m.numValues = sumRows ps ∧ m.totalCompressed = (pagesBytes D ps).length ∧
  m.totalUncompressed = sumUsize D ps ∧ m.codec = codec ∧ ∀ r ∈ ps, PageOk D codec r

def AllChunks (D : Deps) (codec : Nat) : List ChunkMeta → List (List PageRec) → Prop
  | [], [] => True
  | m :: ms, p :: ps => ChunkPages D codec m p ∧ AllChunks D codec ms ps
  | _, _ => False

def AllGroups (D : Deps) (codec : Nat) : List RgMeta → List (List (List PageRec)) → Prop
  | [], [] => True
  | g :: gs, p :: ps => AllChunks D codec g.chunks p ∧ AllGroups D codec gs ps
  | _, _ => False

theorem allGroups_append (D : Deps) (codec : Nat) : ∀ (gs : List RgMeta) (ps : List (List (List PageRec)))
    (g : RgMeta) (p : List (List PageRec)),
    AllGroups D codec gs ps → AllChunks D codec g.chunks p → AllGroups D codec (gs ++ [g]) (ps ++ [p]) := by
  intro gs
  induction gs with
  | nil =>
    intro ps g p h hp
    cases ps with
    | nil => exact ⟨hp, trivial⟩
    | cons a as => exact absurd h (by simp [AllGroups])
  | cons a as ih =>
    intro ps g p h hp
    cases ps with
    | nil => exact absurd h (by simp [AllGroups])
    | cons b bs => exact ⟨h.1, ih bs g p h.2 hp⟩

theorem allGroups_nil_right (D : Deps) (codec : Nat) (ps : List (List (List PageRec)))
    (h : AllGroups D codec [] ps) : ps = [] := by
  cases ps with
  | nil => rfl
  | cons a as => exact absurd h (by simp [AllGroups])

/-- invariant of a column writer -/
def ColInv (D : Deps) (codec : Nat) (cw : ColW) : Prop :=
  cw.buffer = pagesBytes D cw.pages ∧ cw.totalUncompressed = sumUsize D cw.pages ∧
  cw.totalValues = sumRows cw.pages + cw.page.numValues ∧ cw.numPages = cw.pages.length ∧
  ∀ r ∈ cw.pages, PageOk D codec r

theorem colInv_empty (D : Deps) (codec : Nat) : ColInv D codec {} := by
  simp [ColInv, pagesBytes, sumUsize, sumRows]

theorem pagesBytes_append (D : Deps) (ps : List PageRec) (r : PageRec) :
    pagesBytes D (ps ++ [r]) = pagesBytes D ps ++ r.bytes D := by
  simp [pagesBytes]

theorem flushPage_colInv (D : Deps) (codec : Nat) (c : Col) (cw cw' : ColW) (h : ColInv D codec cw)
    (hf : flushPage D codec c cw = some cw') : ColInv D codec cw' ∧ cw'.page.numValues = 0 := by
  unfold flushPage at hf
  by_cases h0 : cw.page.numValues = 0
  · simp only [h0, if_true, Option.some.injEq] at hf
    subst hf; exact ⟨h, h0⟩
  · simp only [h0, if_false] at hf
    unfold finalizePage at hf
    cases hc : D.compress codec (pageBody D c cw.page) with
    | none => simp [hc] at hf
    | some comp =>
      simp only [hc, Option.some.injEq] at hf
      subst hf
      obtain ⟨h1, h2, h3, h4, h5⟩ := h
      refine ⟨⟨?_, ?_, ?_, ?_, ?_⟩, rfl⟩
      · simp only [pagesBytes_append, h1]
        simp [PageRec.bytes, pageRecOf, hc]
      · simp only [sumUsize, List.map_append, List.sum_append, List.map_cons, List.map_nil, List.sum_cons,
          List.sum_nil, Nat.add_zero, PageRec.usize, PageRec.header, pageRecOf, hc, Option.getD_some,
          List.length_append] at h2 ⊢
        rw [h2]; omega
      · simp [sumRows, pageRecOf, h3] at *
      · simp [h4]
      · intro r hr
        rcases List.mem_append.mp hr with hr | hr
        · exact h5 r hr
        · have : r = pageRecOf D codec c cw.page := by simpa using hr
          subst this
          exact ⟨by simp [pageRecOf, hc], by simp [pageRecOf]; omega⟩

theorem colWriteBatch_colInv (D : Deps) (codec target : Nat) (c : Col) (cw cw' : ColW) (b : Batch)
    (h : ColInv D codec cw) (hf : colWriteBatch D codec target c cw b = some cw') : ColInv D codec cw' := by
  have hadd : ColInv D codec { cw with page := addValues D c cw.page b, totalValues := cw.totalValues + b.nrows } := by
    obtain ⟨h1, h2, h3, h4, h5⟩ := h
    refine ⟨h1, h2, ?_, h4, h5⟩
    show cw.totalValues + b.nrows = sumRows cw.pages + (addValues D c cw.page b).numValues
    simp [addValues, h3]; omega
  unfold colWriteBatch at hf
  by_cases ht : target ≤ estimatedSize D c (addValues D c cw.page b)
  · simp only [ht, if_true] at hf
    exact (flushPage_colInv D codec c _ _ hadd hf).1
  · simp only [ht, if_false, Option.some.injEq] at hf
    subst hf; exact hadd

theorem finalizeCols_pages (D : Deps) (w : W) : ∀ (cols : List Col) (cws : List ColW) (off : Nat)
    (bytes : Bytes) (metas : List ChunkMeta),
    (∀ cw ∈ cws, ColInv D w.codec cw) →
    finalizeCols D w cols cws off = some (bytes, metas) →
    bytes = groupBytes D (finalizeColsPages D w cols cws) ∧
    AllChunks D w.codec metas (finalizeColsPages D w cols cws) := by
  intro cols
  induction cols with
  | nil =>
    intro cws off bytes metas _ h
    cases cws <;> simp [finalizeCols] at h <;> (obtain ⟨h1, h2⟩ := h; subst h1; subst h2; simp [groupBytes, AllChunks, finalizeColsPages])
  | cons c cs ih =>
    intro cws off bytes metas hinv h
    cases cws with
    | nil =>
      simp [finalizeCols] at h
      obtain ⟨h1, h2⟩ := h; subst h1; subst h2
      simp [groupBytes, AllChunks, finalizeColsPages]
    | cons cw cws =>
      simp only [finalizeCols] at h
      cases hf : flushPage D w.codec c cw with
      | none => simp [hf] at h
      | some cw' =>
        simp only [hf] at h
        cases hr : finalizeCols D w cs cws (off + cw'.buffer.length) with
        | none => simp [hr] at h
        | some p =>
          obtain ⟨b2, m2⟩ := p
          simp only [hr, Option.some.injEq, Prod.mk.injEq] at h
          obtain ⟨i1, i2⟩ := ih cws _ b2 m2 (fun x hx => hinv x (List.mem_cons_of_mem _ hx)) hr
          obtain ⟨⟨c1, c2, c3, c4, c5⟩, c0⟩ := flushPage_colInv D w.codec c cw cw' (hinv cw (List.mem_cons_self ..)) hf
          simp only [finalizeColsPages, hf]
          refine ⟨?_, ?_⟩
          · rw [← h.1, i1, c1]; simp [groupBytes]
          · rw [← h.2]
            refine ⟨⟨?_, ?_, ?_, rfl, c5⟩, i2⟩
            · simp [chunkOf, c3, c0]
            · simp [chunkOf, c1]
            · simp [chunkOf, c2]

/-- page-structure invariant of writer states -/
def PInv (D : Deps) (codec : Nat) (w : W) : Prop :=
  w.codec = codec ∧
  ((w.headerWritten = true → w.out.flatten = magic ++ dataBytes D w.pagesDone) ∧
   AllGroups D codec w.rowGroups w.pagesDone ∧ (w.headerWritten = false → w.pagesDone = [])) ∧
  (∀ cws, w.rg = some cws → ∀ cw ∈ cws, ColInv D codec cw)

theorem pinv_init (D : Deps) (cols : List Col) (codec pageSize : Nat) (createdBy : String) :
    PInv D codec { cols := cols, codec := codec, pageSize := pageSize, createdBy := createdBy } := by
  refine ⟨rfl, ⟨fun h => by simp at h, trivial, fun _ => rfl⟩, fun cws h => by simp at h⟩

theorem pinv_ensureHeader (D : Deps) (codec : Nat) (w : W) (h : PInv D codec w) (ha : AllInv w) :
    PInv D codec (ensureHeader w) := by
  unfold ensureHeader
  by_cases hw : w.headerWritten = true
  · simpa [hw] using h
  · have hf : w.headerWritten = false := by simpa using hw
    obtain ⟨h1, ⟨_, h3, h3'⟩, h4⟩ := h
    have ho := ha.1.1 hf
    have hp := h3' hf
    simp only [hf]
    refine ⟨h1, ⟨fun _ => ?_, ?_, fun hx => by simp at hx⟩, h4⟩
    · simp [ho, dataBytes, hp]
    · simpa using h3

theorem pinv_ensureRowGroup (D : Deps) (codec : Nat) (w : W) (h : PInv D codec w) :
    PInv D codec (ensureRowGroup w) := by
  unfold ensureRowGroup
  cases hr : w.rg with
  | some cws => simpa [hr] using h
  | none =>
    obtain ⟨h1, h2, _⟩ := h
    refine ⟨h1, h2, ?_⟩
    intro cws hc cw hcw
    simp only [Option.some.injEq] at hc
    subst hc
    obtain ⟨_, _, rfl⟩ := List.mem_map.mp hcw
    exact colInv_empty D codec

theorem mem_set_cases {α : Type} (l : List α) (i : Nat) (x y : α) (h : y ∈ l.set i x) : y ∈ l ∨ y = x := by
  induction l generalizing i with
  | nil => simp at h
  | cons a as ih =>
    cases i with
    | zero =>
      simp only [List.set_cons_zero, List.mem_cons] at h
      rcases h with h | h
      · exact Or.inr h
      · exact Or.inl (List.mem_cons_of_mem _ h)
    | succ n =>
      simp only [List.set_cons_succ, List.mem_cons] at h
      rcases h with h | h
      · exact Or.inl (by simp [h])
      · rcases ih n h with h | h
        · exact Or.inl (List.mem_cons_of_mem _ h)
        · exact Or.inr h

theorem pinv_writeBatch (D : Deps) (codec : Nat) (w : W) (b : Batch) (h : PInv D codec w) (ha : AllInv w) :
    PInv D codec (writeBatch D w b).1 := by
  have hE := pinv_ensureHeader D codec w h ha
  have hR := pinv_ensureRowGroup D codec _ hE
  have hcodec : w.codec = codec := h.1
  unfold writeBatch
  cases hc : w.cols[b.col]? with
  | none => exact h
  | some c =>
    simp only
    cases hrg : (ensureRowGroup (ensureHeader w)).rg with
    | none => exact h
    | some cws =>
      simp only
      cases hcw : cws[b.col]? with
      | none => exact h
      | some cw =>
        simp only
        cases hcb : colWriteBatch D w.codec (targetPageSize w) c cw b with
        | none => exact hR
        | some cw' =>
          obtain ⟨r1, r2, r3⟩ := hR
          refine ⟨r1, r2, ?_⟩
          intro cws' hc' x hx
          simp only [Option.some.injEq] at hc'
          subst hc'
          have hcwmem : cw ∈ cws := List.mem_of_getElem? hcw
          rcases mem_set_cases cws b.col cw' x (by simpa [setAt] using hx) with hx | hx
          · exact r3 cws hrg x hx
          · subst hx
            rw [hcodec] at hcb
            exact colWriteBatch_colInv D codec _ c cw _ b (r3 cws hrg cw hcwmem) hcb

theorem pinv_flushRowGroup (D : Deps) (codec : Nat) (w : W) (h : PInv D codec w) (hh : w.headerWritten = true) :
    PInv D codec (flushRowGroup D w).1 := by
  unfold flushRowGroup
  cases hr : w.rg with
  | none => exact h
  | some cws =>
    simp only
    cases hf : finalizeCols D w w.cols cws w.fileOffset with
    | none => exact h
    | some p =>
      obtain ⟨bytes, metas⟩ := p
      obtain ⟨h1, ⟨h2, h3, _⟩, h4⟩ := h
      obtain ⟨p1, p2⟩ := finalizeCols_pages D w w.cols cws w.fileOffset bytes metas
        (fun cw hcw => by rw [h1]; exact h4 cws hr cw hcw) hf
      rw [h1] at p2
      subst p1
      simp only
      refine ⟨h1, ⟨fun _ => ?_, ?_, fun hx => by simp [hh] at hx⟩, fun cws' hc' => by simp at hc'⟩
      · have hout := h2 hh
        by_cases hb : 0 < (groupBytes D (finalizeColsPages D w w.cols cws)).length
        · simp [hb, hout, dataBytes, List.append_assoc]
        · have hb0 : groupBytes D (finalizeColsPages D w w.cols cws) = [] := List.eq_nil_of_length_eq_zero (by omega)
          simp [hb0, hout, dataBytes]
      · exact allGroups_append D codec _ _ _ _ h3 p2

theorem pinv_step (D : Deps) (codec : Nat) (w : W) (op : Op) (h : PInv D codec w) (ha : AllInv w) :
    PInv D codec (step D w op).1 := by
  cases op with
  | batch b => exact pinv_writeBatch D codec w b h ha
  | newRowGroup =>
    exact pinv_flushRowGroup D codec _ (pinv_ensureHeader D codec w h ha) (allInv_ensureHeader w ha).2

theorem pinv_stateAfter (D : Deps) (codec : Nat) : ∀ (ops : List Op) (w : W), PInv D codec w → AllInv w →
    PInv D codec (stateAfter D w ops) := by
  intro ops
  induction ops with
  | nil => intro w h _; exact h
  | cons op ops ih => intro w h ha; exact ih _ (pinv_step D codec w op h ha) (allInv_step D w op ha)

theorem pinv_closing (D : Deps) (codec : Nat) (w : W) (h : PInv D codec w) (ha : AllInv w) :
    PInv D codec (closing D w) :=
  pinv_flushRowGroup D codec _ (pinv_ensureHeader D codec w h ha) (allInv_ensureHeader w ha).2

end Carquet.Proofs.WriterPages
