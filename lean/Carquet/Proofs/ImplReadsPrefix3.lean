import Carquet.Proofs.ImplReadsPrefix2
import Carquet.Impl.ThriftParquetReq
/-
C06, implementation half — PREFIX MONOTONICITY of the Thrift decoder (code after fix F62), part 2:
the struct parsers the page-header parser is made of (`parse_statistics`, the three member structs, the
page-header loop), each run in lock-step on an input and on an extension of it.
-/
namespace Carquet.Proofs.ImplReads.Prefix
open Carquet.Impl Carquet.Impl.Thrift Carquet.Impl.ThriftParquet Carquet.Impl.ThriftParquetReq

variable {x : List UInt8} {N : Nat}

/-! ### `parseStruct` for any loop body -/

theorem parseStruct_eq {σ : Type} (body : Nat → Int → Dec → σ → σ × Dec) (init : σ) (d : Dec) :
    parseStruct body init d =
      ((fieldLoop (fun _ => false) body d.budget (structBegin d) init).1,
        structEnd (fieldLoop (fun _ => false) body d.budget (structBegin d) init).2) := rfl

theorem parseStruct_st {σ : Type} (body : Nat → Int → Dec → σ → σ × Dec) (init : σ) (d : Dec)
    (h : (parseStruct body init d).2.status = none) : d.status = none := by
  rw [parseStruct_eq] at h
  exact structBegin_st d (fieldLoop_st _ _ _ _ _ h)

theorem parseStruct_ext {σ : Type} (body : Nat → Int → Dec → σ → σ × Dec)
    (hst : ∀ ty fid d s, (body ty fid d s).2.status = none → d.status = none)
    (hext : ∀ ty fid s d d', Ext x N d d' → (body ty fid d s).2.status = none →
      (body ty fid d' s).1 = (body ty fid d s).1 ∧ Ext x N (body ty fid d s).2 (body ty fid d' s).2)
    (init : σ) {d d' : Dec} (hE : Ext x N d d') (hs : (parseStruct body init d).2.status = none) :
    (parseStruct body init d').1 = (parseStruct body init d).1 ∧
      Ext x N (parseStruct body init d).2 (parseStruct body init d').2 := by
  rw [parseStruct_eq] at hs
  rw [parseStruct_eq, parseStruct_eq]
  have hs' : (fieldLoop (fun _ => false) body d.budget (structBegin d) init).2.status = none := hs
  have hsb : (structBegin d).status = none := fieldLoop_st _ _ _ _ _ hs'
  obtain ⟨h1, h2⟩ := fieldLoop_ext _ body hst hext d.budget d'.budget _ _ init hE.bud (structBegin_ext hE hsb) hs'
  exact ⟨h1, structEnd_ext h2⟩

/-! ### lock-step as a property of a reader `Dec → α × Dec`, and its combinators -/

/-- `f` keeps an error status, and runs in lock-step on `d` and on `d` with `x` appended as long as it succeeds on `d` -/
def Good {α : Type} (x : List UInt8) (N : Nat) (f : Dec → α × Dec) : Prop :=
  (∀ d, (f d).2.status = none → d.status = none) ∧
  ∀ d d', Ext x N d d' → (f d).2.status = none → (f d').1 = (f d).1 ∧ Ext x N (f d).2 (f d').2

theorem Good.ite {α : Type} (c : Prop) [Decidable c] (f g : Dec → α × Dec) (hf : Good x N f) (hg : Good x N g) :
    Good x N (fun d => if c then f d else g d) := by
  by_cases hc : c
  · simp only [if_pos hc]; exact hf
  · simp only [if_neg hc]; exact hg

/-- a branch `(V d, (f d).2)` where `V d` is made of `(f d).1` -/
theorem Good.leaf {α β : Type} (f : Dec → β × Dec) (hf : Good x N f) (V : Dec → α)
    (hV : ∀ d d', (f d').1 = (f d).1 → V d' = V d) : Good x N (fun d => (V d, (f d).2)) :=
  ⟨fun d h => hf.1 d h, fun d d' hE hs => ⟨hV d d' (hf.2 d d' hE hs).1, (hf.2 d d' hE hs).2⟩⟩

/-- a branch `(s, k d)` -/
theorem Good.const {α : Type} (s : α) (k : Dec → Dec) (hst : ∀ d, (k d).status = none → d.status = none)
    (hext : ∀ d d', Ext x N d d' → (k d).status = none → Ext x N (k d) (k d')) : Good x N (fun d => (s, k d)) :=
  ⟨fun d h => hst d h, fun d d' hE hs => ⟨rfl, hext d d' hE hs⟩⟩

theorem good_skipField {α : Type} (s : α) (ty : Nat) : Good x N (fun d => (s, skipField Cfg.fixed ty d)) :=
  Good.const s _ (fun d h => skipField_st _ _ d h) (fun _ _ hE hs => skipField_ext ty hE hs)

theorem good_readI32 : Good x N readI32 := ⟨readI32_st, fun _ _ hE hs => readI32_ext hE hs⟩
theorem good_readI64 : Good x N readI64 := ⟨readI64_st, fun _ _ hE hs => readI64_ext hE hs⟩
theorem good_readBool : Good x N readBool := ⟨readBool_st, fun _ _ hE hs => readBool_ext hE hs⟩

theorem good_parseStruct {σ : Type} (body : Nat → Int → Dec → σ → σ × Dec)
    (hb : ∀ ty fid s, Good x N (fun d => body ty fid d s)) (init : σ) : Good x N (parseStruct body init) :=
  ⟨fun d h => parseStruct_st body init d h,
   fun _ _ hE hs => parseStruct_ext body (fun ty fid d s h => (hb ty fid s).1 d h)
     (fun ty fid s d d' hE hs => (hb ty fid s).2 d d' hE hs) init hE hs⟩

/- NB. a term whose weak head normal form needs `readBinary d` evaluated (a decision `toI32 n < 0`) must never
reach the kernel's definitional-equality check in a problem that fails first: the kernel would compare 32-bit
literals in unary.  Hence the two projection lemmas, proved with `readBinary d` abstracted. -/
theorem bindup_snd_aux (r : Option (List UInt8) × Int × Dec) : (bytesOf r.1, r.2.2).2 = r.2.2 := rfl
theorem bindup_fst_aux (r : Option (List UInt8) × Int × Dec) : (bytesOf r.1, r.2.2).1 = bytesOf r.1 := rfl
theorem bindupThrift_def (d : Dec) : bindupThrift d = (bytesOf (readBinary d).1, (readBinary d).2.2) := by
  rw [bindupThrift]

theorem bindupThrift_snd (d : Dec) : (bindupThrift d).2 = (readBinary d).2.2 :=
  (congrArg Prod.snd (bindupThrift_def d)).trans (bindup_snd_aux (readBinary d))

theorem bindupThrift_fst (d : Dec) : (bindupThrift d).1 = bytesOf (readBinary d).1 :=
  (congrArg Prod.fst (bindupThrift_def d)).trans (bindup_fst_aux (readBinary d))

theorem good_bindupThrift : Good x N bindupThrift := by
  refine ⟨fun d h => ?_, fun d d' hE hs => ?_⟩
  · rw [bindupThrift_snd] at h; exact readBinary_st d h
  · rw [bindupThrift_snd] at hs
    obtain ⟨h1, _, h3⟩ := readBinary_ext hE hs
    rw [bindupThrift_fst, bindupThrift_fst, bindupThrift_snd, bindupThrift_snd, h1]
    exact ⟨rfl, h3⟩

set_option hygiene false in
/-- the leaves of a body: `({ s with x := (read d).1 }, (read d).2)` for a `read` in the list, or `(s, skipField … d)` -/
macro "good_leaf" : tactic =>
  `(tactic| first
    | exact good_skipField _ _
    | (refine Good.leaf readI32 good_readI32 _ ?_; intro d d' h; rw [h])
    | (refine Good.leaf readI64 good_readI64 _ ?_; intro d d' h; rw [h])
    | (refine Good.leaf readBool good_readBool _ ?_; intro d d' h; rw [h])
    | (refine Good.leaf bindupThrift good_bindupThrift _ ?_; intro d d' h; rw [h]))

/-- an `if fid = … then … else if …` chain of leaves -/
macro "good_body" : tactic => `(tactic| (repeat' apply Good.ite) <;> good_leaf)

/-! ### `parse_statistics` -/

theorem good_statisticsBody (ty : Nat) (fid : Int) (s : Statistics) :
    Good x N (fun d => statisticsBody Cfg.fixed ty fid d s) := by
  unfold statisticsBody
  good_body

theorem good_parseStatistics : Good x N (parseStatistics Cfg.fixed) := good_parseStruct _ good_statisticsBody _

/-! ### the three members of the page-header union -/

theorem dataPageHeaderBody_eq (ty : Nat) (fid : Int) (d : Dec) (s : DataPageHeader) :
    dataPageHeaderBody Cfg.fixed ty fid d s =
      if fid = 1 then ({ s with numValues := (readI32 d).1 }, (readI32 d).2)
      else if fid = 2 then ({ s with encoding := (readI32 d).1 }, (readI32 d).2)
      else if fid = 3 then ({ s with definitionLevelEncoding := (readI32 d).1 }, (readI32 d).2)
      else if fid = 4 then ({ s with repetitionLevelEncoding := (readI32 d).1 }, (readI32 d).2)
      else if fid = 5 then
        ({ s with statistics := some (parseStatistics Cfg.fixed d).1 }, (parseStatistics Cfg.fixed d).2)
      else (s, skipField Cfg.fixed ty d) := rfl

theorem good_dataPageHeaderBody (ty : Nat) (fid : Int) (s : DataPageHeader) :
    Good x N (fun d => dataPageHeaderBody Cfg.fixed ty fid d s) := by
  simp only [dataPageHeaderBody_eq]
  repeat' apply Good.ite
  all_goals first
    | good_leaf
    | (refine Good.leaf (parseStatistics Cfg.fixed) good_parseStatistics _ ?_; intro d d' h; rw [h])

theorem good_dictionaryPageHeaderBody (ty : Nat) (fid : Int) (s : DictionaryPageHeader) :
    Good x N (fun d => dictionaryPageHeaderBody Cfg.fixed ty fid d s) := by
  unfold dictionaryPageHeaderBody
  good_body

theorem dataPageHeaderV2Body_eq (ty : Nat) (fid : Int) (d : Dec) (s : DataPageHeaderV2) :
    dataPageHeaderV2Body Cfg.fixed ty fid d s =
      if fid = 1 then ({ s with numValues := (readI32 d).1 }, (readI32 d).2)
      else if fid = 2 then ({ s with numNulls := (readI32 d).1 }, (readI32 d).2)
      else if fid = 3 then ({ s with numRows := (readI32 d).1 }, (readI32 d).2)
      else if fid = 4 then ({ s with encoding := (readI32 d).1 }, (readI32 d).2)
      else if fid = 5 then ({ s with definitionLevelsByteLength := (readI32 d).1 }, (readI32 d).2)
      else if fid = 6 then ({ s with repetitionLevelsByteLength := (readI32 d).1 }, (readI32 d).2)
      else if fid = 7 then ({ s with isCompressed := (readBool d).1 }, (readBool d).2)
      else if fid = 8 then
        ({ s with statistics := some (parseStatistics Cfg.fixed d).1 }, (parseStatistics Cfg.fixed d).2)
      else (s, skipField Cfg.fixed ty d) := rfl

theorem good_dataPageHeaderV2Body (ty : Nat) (fid : Int) (s : DataPageHeaderV2) :
    Good x N (fun d => dataPageHeaderV2Body Cfg.fixed ty fid d s) := by
  simp only [dataPageHeaderV2Body_eq]
  repeat' apply Good.ite
  all_goals first
    | good_leaf
    | (refine Good.leaf (parseStatistics Cfg.fixed) good_parseStatistics _ ?_; intro d d' h; rw [h])

/-! ### the page-header loop body -/

/-- `pageHdrBody` when the decoder has no error status (the `switch`) -/
def pageHdrInner (ty : Nat) (fid : Int) (s : Top PageHdr) (d : Dec) : Top PageHdr × Dec :=
  if fid = 1 then ({ s with val := { s.val with type := (readI32 d).1 } }, (readI32 d).2)
  else if fid = 2 then ({ s with val := { s.val with uncompressed := (readI32 d).1 } }, (readI32 d).2)
  else if fid = 3 then ({ s with val := { s.val with compressed := (readI32 d).1 } }, (readI32 d).2)
  else if fid = 4 then ({ s with val := { s.val with crc := some (readI32 d).1 } }, (readI32 d).2)
  else if fid = 5 then
    ({ s with val := { s.val with
        word0 := upd s.val.word0
          (parseStruct (dataPageHeaderBody Cfg.fixed) { numValues := sentinel, encoding := sentinel } d).1.numValues
        word4 := upd s.val.word4
          (parseStruct (dataPageHeaderBody Cfg.fixed) { numValues := sentinel, encoding := sentinel } d).1.encoding } },
      (parseStruct (dataPageHeaderBody Cfg.fixed) { numValues := sentinel, encoding := sentinel } d).2)
  else if fid = 7 then
    ({ s with val := { s.val with
        word0 := upd s.val.word0
          (parseStruct (dictionaryPageHeaderBody Cfg.fixed) { numValues := sentinel, encoding := sentinel } d).1.numValues
        word4 := upd s.val.word4
          (parseStruct (dictionaryPageHeaderBody Cfg.fixed) { numValues := sentinel, encoding := sentinel } d).1.encoding } },
      (parseStruct (dictionaryPageHeaderBody Cfg.fixed) { numValues := sentinel, encoding := sentinel } d).2)
  else if fid = 8 then
    ({ s with val := { s.val with
        word0 := upd s.val.word0
          (parseStruct (dataPageHeaderV2Body Cfg.fixed) { numValues := sentinel, numNulls := sentinel } d).1.numValues
        word4 := upd s.val.word4
          (parseStruct (dataPageHeaderV2Body Cfg.fixed) { numValues := sentinel, numNulls := sentinel } d).1.numNulls } },
      (parseStruct (dataPageHeaderV2Body Cfg.fixed) { numValues := sentinel, numNulls := sentinel } d).2)
  else (s, skipField Cfg.fixed ty d)

theorem pageHdrBody_none (ty : Nat) (fid : Int) (d : Dec) (s : Top PageHdr) (h : d.status = none) :
    pageHdrBody Cfg.fixed ty fid d s = pageHdrInner ty fid s d := by
  unfold pageHdrBody
  simp only [h]
  rfl

theorem good_pageHdrInner (ty : Nat) (fid : Int) (s : Top PageHdr) : Good x N (pageHdrInner ty fid s) := by
  unfold pageHdrInner
  repeat' apply Good.ite
  all_goals first
    | good_leaf
    | (refine Good.leaf (parseStruct (dataPageHeaderBody Cfg.fixed) _)
        (good_parseStruct _ good_dataPageHeaderBody _) _ ?_; intro d d' h; rw [h])
    | (refine Good.leaf (parseStruct (dictionaryPageHeaderBody Cfg.fixed) _)
        (good_parseStruct _ good_dictionaryPageHeaderBody _) _ ?_; intro d d' h; rw [h])
    | (refine Good.leaf (parseStruct (dataPageHeaderV2Body Cfg.fixed) _)
        (good_parseStruct _ good_dataPageHeaderV2Body _) _ ?_; intro d d' h; rw [h])

theorem pageHdrBody_st (ty : Nat) (fid : Int) (d : Dec) (s : Top PageHdr)
    (h : (pageHdrBody Cfg.fixed ty fid d s).2.status = none) : d.status = none := by
  cases hd : d.status with
  | none => rfl
  | some e =>
    have : (pageHdrBody Cfg.fixed ty fid d s).2 = d := by unfold pageHdrBody; simp only [hd]
    rw [this, hd] at h
    cases h

theorem pageHdrBody_ext (ty : Nat) (fid : Int) (s : Top PageHdr) {d d' : Dec} (hE : Ext x N d d')
    (hs : (pageHdrBody Cfg.fixed ty fid d s).2.status = none) :
    (pageHdrBody Cfg.fixed ty fid d' s).1 = (pageHdrBody Cfg.fixed ty fid d s).1 ∧
      Ext x N (pageHdrBody Cfg.fixed ty fid d s).2 (pageHdrBody Cfg.fixed ty fid d' s).2 := by
  rw [pageHdrBody_none _ _ _ _ hE.st] at hs
  rw [pageHdrBody_none _ _ _ _ hE.st, pageHdrBody_none _ _ _ _ hE.st']
  exact (good_pageHdrInner ty fid s).2 d d' hE hs

end Carquet.Proofs.ImplReads.Prefix
