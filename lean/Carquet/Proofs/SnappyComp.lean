import Carquet.Spec.Snappy
import Carquet.Impl.Snappy
import Carquet.Proofs.SnappySpec
/-
The compressor model: what an accepted candidate and the extension loop guarantee (independent of
the hash table), the loop invariant of the match finder (operations tile the input; cost ≤ 7/6),
serialisation of valid operations into grammar elements, the preamble, and the two end results
`compress_stream` and `compress_le_bound`.
-/
namespace Carquet.Proofs.Snappy
open Carquet
open Carquet.Impl.Snappy

/-! ### The extension loop -/

theorem extend_le (src : Array UInt8) (off ip : Nat) (h : ip ≤ src.size) : extend src off ip ≤ src.size := by
  fun_induction extend src off ip with
  | case1 ip hlt heq ih => exact ih (by omega)
  | case2 ip hlt hne => omega
  | case3 ip hge => exact h

/-- every position the extension loop walks over repeats the byte `off` back -/
theorem extend_match (src : Array UInt8) (off ip : Nat) :
    ∀ j, ip ≤ j → j < extend src off ip → src[j]? = src[j - off]? := by
  fun_induction extend src off ip with
  | case1 ip hlt heq ih =>
    intro j h1 h2
    by_cases hj : j = ip
    · subst hj
      have hlt2 : j - off < src.size := by omega
      rw [Array.getElem?_eq_getElem hlt, Array.getElem?_eq_getElem hlt2, heq]
    · exact ih j (by omega) h2
  | case2 ip hlt hne => intro j h1 h2; omega
  | case3 ip hge => intro j h1 h2; omega

/-! ### The candidate test -/

theorem read32_inj {src : Array UInt8} {i j : Nat} (hi : i + 3 < src.size) (hj : j + 3 < src.size)
    (h : read32 src i hi = read32 src j hj) :
    src[i] = src[j] ∧ src[i + 1] = src[j + 1] ∧ src[i + 2] = src[j + 2] ∧ src[i + 3] = src[j + 3] := by
  simp only [read32] at h
  have a0 := UInt8.toNat_lt src[i]; have a1 := UInt8.toNat_lt src[i + 1]
  have a2 := UInt8.toNat_lt src[i + 2]; have a3 := UInt8.toNat_lt src[i + 3]
  have b0 := UInt8.toNat_lt src[j]; have b1 := UInt8.toNat_lt src[j + 1]
  have b2 := UInt8.toNat_lt src[j + 2]; have b3 := UInt8.toNat_lt src[j + 3]
  refine ⟨?_, ?_, ?_, ?_⟩ <;> apply UInt8.toNat_inj.mp <;> omega

/-- what an accepted candidate guarantees — nothing about the table is used -/
theorem isMatch_spec {src : Array UInt8} {ref ip : Nat} (h : ip + 3 < src.size)
    (hm : isMatch src ref ip h = true) :
    ref < ip ∧ ip - ref ≤ 32768 ∧ ∀ i, i < 4 → src[ip + i]? = src[ref + i]? := by
  simp only [isMatch] at hm
  split at hm
  · rename_i hlt
    simp only [Bool.and_eq_true, decide_eq_true_eq] at hm
    obtain ⟨h1, h2⟩ := hm
    obtain ⟨e0, e1, e2, e3⟩ := read32_inj (by omega) h h2
    refine ⟨hlt, h1, ?_⟩
    intro i hi
    have hr : ref + 3 < src.size := by omega
    rcases (by omega : i = 0 ∨ i = 1 ∨ i = 2 ∨ i = 3) with rfl | rfl | rfl | rfl
    · simp only [Nat.add_zero]; rw [Array.getElem?_eq_getElem (by omega), Array.getElem?_eq_getElem (by omega), e0]
    · rw [Array.getElem?_eq_getElem (by omega), Array.getElem?_eq_getElem (by omega), e1]
    · rw [Array.getElem?_eq_getElem (by omega), Array.getElem?_eq_getElem (by omega), e2]
    · rw [Array.getElem?_eq_getElem (by omega), Array.getElem?_eq_getElem (by omega), e3]
  · cases hm

/-! ### What the emitted operations satisfy -/

/-- A copy `(off, len)` emitted at input position `p` only repeats bytes that are already there.
This is the hash-independent key fact: it follows from the 4-byte comparison and the extension loop,
whatever the table contained. -/
def CopyValid (src : Array UInt8) (p off len : Nat) : Prop :=
  0 < off ∧ off ≤ p ∧ p + len ≤ src.size ∧ ∀ i, i < len → src[p + i]? = src[p + i - off]?

def OpOk (src : Array UInt8) (p : Nat) : Op → Prop
  | .literal start len => start = p ∧ 0 < len ∧ p + len ≤ src.size
  | .copy off len => CopyValid src p off len ∧ off ≤ 32768 ∧ 4 ≤ len

def opLen : Op → Nat
  | .literal _ len => len
  | .copy _ len => len

/-- `Tiles src p ops q`: the operations cover `src[p..q)` in order, each one valid where it stands. -/
def Tiles (src : Array UInt8) : Nat → List Op → Nat → Prop
  | p, [], q => p = q
  | p, op :: r, q => OpOk src p op ∧ Tiles src (p + opLen op) r q

theorem tiles_append {src : Array UInt8} : ∀ {a b : List Op} {p q r : Nat},
    Tiles src p a q → Tiles src q b r → Tiles src p (a ++ b) r := by
  intro a
  induction a with
  | nil => intro b p q r h1 h2; simp only [Tiles] at h1; subst h1; simpa using h2
  | cons op a ih =>
    intro b p q r h1 h2
    simp only [Tiles, List.cons_append] at h1 ⊢
    exact ⟨h1.1, ih h1.2 h2⟩

theorem match_copyValid {src : Array UInt8} {ref ip : Nat} (h : ip + 15 < src.size)
    (hm : isMatch src ref ip (by omega) = true) :
    CopyValid src ip (ip - ref) (extend src (ip - ref) (ip + 4) - ip) ∧ ip - ref ≤ 32768 ∧
      4 ≤ extend src (ip - ref) (ip + 4) - ip := by
  obtain ⟨h1, h2, h3⟩ := isMatch_spec (by omega) hm
  have hle := le_extend src (ip - ref) (ip + 4)
  have hes := extend_le src (ip - ref) (ip + 4) (by omega)
  refine ⟨⟨by omega, by omega, by omega, ?_⟩, h2, by omega⟩
  intro i hi
  by_cases h4 : i < 4
  · rw [h3 i h4]; congr 1; omega
  · exact extend_match src (ip - ref) (ip + 4) (ip + i) (by omega) (by omega)

/-! ### Sizes -/

theorem literalHeader_length (len : Nat) : 6 * (literalHeader len).length ≤ 6 + len := by
  simp only [literalHeader]
  split
  · simp
  · split
    · simp; omega
    · split
      · simp; omega
      · split
        · simp; omega
        · simp; omega

theorem copyTail_length (off len : Nat) : (copyTail off len).length ≤ 3 := by
  simp only [copyTail]; split <;> simp [copy2Bytes, copy1Bytes]

theorem copyBytes_length (off len : Nat) (h : 4 ≤ len) : (copyBytes off len).length + 1 ≤ len := by
  fun_induction copyBytes off len with
  | case1 len h68 ih =>
    have := ih (by omega)
    simp only [List.length_append, copy2Bytes, List.length_cons, List.length_nil]; omega
  | case2 len h1 h2 =>
    have := copyTail_length off (len - 60)
    simp only [List.length_append, copy2Bytes, List.length_cons, List.length_nil]; omega
  | case3 len h1 h2 =>
    have := copyTail_length off len
    omega

theorem serialize_append (src : Array UInt8) (a b : List Op) :
    serialize src (a ++ b) = serialize src a ++ serialize src b := by
  simp [serialize]

/-- loop invariant of the match finder: the operations so far tile `src[0..anchor)` and cost at most
7/6 of it -/
def Inv (src : Array UInt8) (acc : Array Op) (anchor : Nat) : Prop :=
  Tiles src 0 acc.toList anchor ∧ 6 * (serialize src acc.toList).length ≤ 7 * anchor

theorem opBytes_literal_length (src : Array UInt8) (start len : Nat) (h : start + len ≤ src.size) :
    (opBytes src (.literal start len)).length = (literalHeader len).length + len := by
  simp [opBytes]; omega

theorem inv_pushLit {src : Array UInt8} {acc : Array Op} {anchor ip : Nat} (h : Inv src acc anchor)
    (h1 : anchor ≤ ip) (h2 : ip ≤ src.size) :
    Tiles src 0 (pushLit acc anchor ip).toList ip ∧
      6 * (serialize src (pushLit acc anchor ip).toList).length ≤ 7 * ip + (if anchor < ip then 6 else 0) := by
  simp only [pushLit]
  split
  · rename_i hlt
    simp only [Array.toList_push]
    refine ⟨tiles_append h.1 ?_, ?_⟩
    · simp only [Tiles, OpOk, opLen]; exact ⟨⟨trivial, by omega, by omega⟩, by omega⟩
    · have hh := literalHeader_length (ip - anchor)
      have hl := opBytes_literal_length src anchor (ip - anchor) (by omega)
      have := h.2
      simp only [serialize_append, List.length_append]
      simp only [serialize, List.flatMap_cons, List.flatMap_nil, List.append_nil, hl]
      simp only [serialize] at this
      omega
  · rename_i hge
    have : anchor = ip := by omega
    subst this
    exact ⟨h.1, by have := h.2; omega⟩

theorem inv_pushCopy {src : Array UInt8} {acc : Array Op} {anchor ip off len : Nat} (h : Inv src acc anchor)
    (h1 : anchor ≤ ip) (hv : CopyValid src ip off len) (ho : off ≤ 32768) (hl : 4 ≤ len) :
    Inv src ((pushLit acc anchor ip).push (.copy off len)) (ip + len) := by
  obtain ⟨t1, c1⟩ := inv_pushLit h h1 (by have := hv.2.2.1; omega)
  have hc := copyBytes_length off len hl
  simp only [Inv, Array.toList_push]
  refine ⟨tiles_append t1 ?_, ?_⟩
  · simp only [Tiles, OpOk, opLen]; exact ⟨⟨hv, ho, hl⟩, trivial⟩
  · simp only [serialize_append, List.length_append]
    simp only [serialize, List.flatMap_cons, List.flatMap_nil, List.append_nil, opBytes]
    simp only [serialize] at c1
    split at c1 <;> omega

/-- Whatever the table holds, the main loop keeps the invariant and ends with operations that tile the
whole input at a cost of at most `7n/6 + 1` bytes. -/
theorem mainLoop_inv (src : Array UInt8) (tbl : Table) (ip anchor : Nat) (acc : Array Op)
    (h : Inv src acc anchor) (h1 : anchor ≤ ip) (h2 : ip ≤ src.size) :
    Tiles src 0 (mainLoop src tbl ip anchor acc).toList src.size ∧
      6 * (serialize src (mainLoop src tbl ip anchor acc).toList).length ≤ 7 * src.size + 6 := by
  fun_induction mainLoop src tbl ip anchor acc with
  | case1 tbl ip anchor acc hlim hm ih =>
    obtain ⟨hv, ho, hl⟩ := match_copyValid hlim hm
    have hle := le_extend src (ip - cand src tbl ip (by omega)) (ip + 4)
    have hinv := inv_pushCopy h h1 hv ho hl
    rw [show ip + (extend src (ip - cand src tbl ip (by omega)) (ip + 4) - ip) =
      extend src (ip - cand src tbl ip (by omega)) (ip + 4) by omega] at hinv
    exact ih hinv (Nat.le_refl _) (extend_le _ _ _ (by omega))
  | case2 tbl ip anchor acc hlim hm ih => exact ih h (by omega) (by omega)
  | case3 tbl ip anchor acc hlim =>
    obtain ⟨t1, c1⟩ := inv_pushLit h (by omega : anchor ≤ src.size) (Nat.le_refl _)
    exact ⟨t1, by split at c1 <;> omega⟩

theorem extract_toList (src : Array UInt8) (p len : Nat) :
    (src.extract p (p + len)).toList = (src.toList.drop p).take len := by
  rw [Array.toList_extract, List.extract_eq_take_drop]; congr 1; omega

/-- a literal emitted by `snappy_emit_literal` is a grammar element -/
theorem literal_element (src : Array UInt8) (p len : Nat) (h0 : 0 < len) (h1 : p + len ≤ src.size)
    (h32 : len ≤ 2 ^ 32) :
    Spec.Snappy.Element (literalHeader len ++ (src.extract p (p + len)).toList)
      (src.toList.take p) (src.toList.take (p + len)) := by
  have hdl : ((src.toList.drop p).take len).length = len := by simp; omega
  rw [extract_toList, List.take_add]
  generalize (src.toList.drop p).take len = data at hdl
  simp only [literalHeader]
  split
  · rename_i h
    have ht := ofNat_toNat ((len - 1) * 4) (by omega)
    exact Spec.Snappy.Element.litShort _ data _ (by omega) (by omega) (by omega)
  · split
    · rename_i h
      have ht := ofNat_toNat (60 * 4) (by omega)
      have he := ofNat_toNat (len - 1) (by omega)
      have := Spec.Snappy.Element.litLong (UInt8.ofNat (60 * 4)) [UInt8.ofNat (len - 1)] data (src.toList.take p)
        (by omega) (by omega) (by simp only [List.length_cons, List.length_nil]; omega) (by simp only [Spec.Snappy.leVal]; omega)
      simpa using this
    · split
      · rename_i h
        have ht := ofNat_toNat (61 * 4) (by omega)
        have e0 := ofNat_toNat ((len - 1) % 256) (by omega)
        have e1 := ofNat_toNat ((len - 1) / 256) (by omega)
        have := Spec.Snappy.Element.litLong (UInt8.ofNat (61 * 4))
          [UInt8.ofNat ((len - 1) % 256), UInt8.ofNat ((len - 1) / 256)] data (src.toList.take p)
          (by omega) (by omega) (by simp only [List.length_cons, List.length_nil]; omega) (by simp only [Spec.Snappy.leVal]; omega)
        simpa using this
      · split
        · rename_i h
          have ht := ofNat_toNat (62 * 4) (by omega)
          have e0 := ofNat_toNat ((len - 1) % 256) (by omega)
          have e1 := ofNat_toNat ((len - 1) / 256 % 256) (by omega)
          have e2 := ofNat_toNat ((len - 1) / 65536 % 256) (by omega)
          have := Spec.Snappy.Element.litLong (UInt8.ofNat (62 * 4))
            [UInt8.ofNat ((len - 1) % 256), UInt8.ofNat ((len - 1) / 256 % 256),
             UInt8.ofNat ((len - 1) / 65536 % 256)] data (src.toList.take p)
            (by omega) (by omega) (by simp only [List.length_cons, List.length_nil]; omega) (by simp only [Spec.Snappy.leVal]; omega)
          simpa using this
        · rename_i h
          have ht := ofNat_toNat (63 * 4) (by omega)
          have e0 := ofNat_toNat ((len - 1) % 256) (by omega)
          have e1 := ofNat_toNat ((len - 1) / 256 % 256) (by omega)
          have e2 := ofNat_toNat ((len - 1) / 65536 % 256) (by omega)
          have e3 := ofNat_toNat ((len - 1) / 16777216 % 256) (by omega)
          have := Spec.Snappy.Element.litLong (UInt8.ofNat (63 * 4))
            [UInt8.ofNat ((len - 1) % 256), UInt8.ofNat ((len - 1) / 256 % 256),
             UInt8.ofNat ((len - 1) / 65536 % 256), UInt8.ofNat ((len - 1) / 16777216 % 256)] data (src.toList.take p)
            (by omega) (by omega) (by simp only [List.length_cons, List.length_nil]; omega) (by simp only [Spec.Snappy.leVal]; omega)
          simpa using this

theorem copyValid_shift {src : Array UInt8} {p off a b : Nat} (h : CopyValid src p off (a + b)) :
    CopyValid src p off a ∧ CopyValid src (p + a) off b := by
  obtain ⟨h0, h1, h2, h3⟩ := h
  refine ⟨⟨h0, h1, by omega, fun i hi => h3 i (by omega)⟩, ⟨h0, by omega, by omega, fun i hi => ?_⟩⟩
  have := h3 (a + i) (by omega)
  rw [show p + a + i = p + (a + i) by omega]
  exact this

/-- a valid copy, executed byte by byte on the prefix produced so far, yields the longer prefix -/
theorem copyValid_overlap {src : Array UInt8} {off : Nat} : ∀ {len p : Nat}, CopyValid src p off len →
    Spec.Snappy.copyOverlap off len (src.toList.take p) = some (src.toList.take (p + len)) := by
  intro len
  induction len with
  | zero => intro p _; simp [Spec.Snappy.copyOverlap]
  | succ len ih =>
    intro p h
    have hs := copyValid_shift (a := 1) (b := len) (by rw [Nat.add_comm 1 len]; exact h)
    obtain ⟨h0, h1, h2, h3⟩ := h
    have hp : p < src.size := by omega
    have hlen : (src.toList.take p).length = p := by simp; omega
    have hb : (src.toList.take p)[p - off]? = some src[p] := by
      rw [List.getElem?_take, if_pos (by omega), Array.getElem?_toList]
      have := h3 0 (by omega)
      simp only [Nat.add_zero] at this
      rw [← this, Array.getElem?_eq_getElem hp]
    simp only [Spec.Snappy.copyOverlap, hlen, hb, h0, if_true]
    have ht : src.toList.take p ++ [src[p]] = src.toList.take (p + 1) := by
      rw [List.take_add_one, Array.getElem?_toList, Array.getElem?_eq_getElem hp]; rfl
    rw [ht, ih hs.2]
    congr 2; omega

theorem copy2_element {src : Array UInt8} {p off len : Nat} (h : CopyValid src p off len)
    (h1 : 1 ≤ len) (h2 : len ≤ 64) (ho : off ≤ 65535) :
    Spec.Snappy.Element (copy2Bytes off len) (src.toList.take p) (src.toList.take (p + len)) := by
  have ht := ofNat_toNat ((len - 1) * 4 + 2) (by omega)
  have e0 := ofNat_toNat (off % 256) (by omega)
  have e1 := ofNat_toNat (off / 256) (by omega)
  have hv : Spec.Snappy.leVal [UInt8.ofNat (off % 256), UInt8.ofNat (off / 256)] = off := by
    simp only [Spec.Snappy.leVal]; omega
  have hlen : (src.toList.take p).length = p := by simp; have := h.2.2.1; omega
  refine Spec.Snappy.Element.copy2 _ _ _ _ _ (by omega) (by rw [hv]; exact h.1) (by rw [hv, hlen]; exact h.2.1) ?_
  rw [hv, show (UInt8.ofNat ((len - 1) * 4 + 2)).toNat / 4 + 1 = len by omega]
  exact copyValid_overlap h

theorem copy1_element {src : Array UInt8} {p off len : Nat} (h : CopyValid src p off len)
    (h1 : 4 ≤ len) (h2 : len ≤ 11) (ho : off < 2048) :
    Spec.Snappy.Element (copy1Bytes off len) (src.toList.take p) (src.toList.take (p + len)) := by
  have ht := ofNat_toNat (off / 256 * 32 + (len - 4) * 4 + 1) (by omega)
  have e0 := ofNat_toNat (off % 256) (by omega)
  have hlen : (src.toList.take p).length = p := by simp; have := h.2.2.1; omega
  have hoff : (UInt8.ofNat (off / 256 * 32 + (len - 4) * 4 + 1)).toNat / 32 * 256 + (UInt8.ofNat (off % 256)).toNat = off := by
    omega
  refine Spec.Snappy.Element.copy1 _ _ _ _ (by omega) (by rw [hoff]; exact h.1) (by rw [hoff, hlen]; exact h.2.1) ?_
  rw [hoff, show (UInt8.ofNat (off / 256 * 32 + (len - 4) * 4 + 1)).toNat / 4 % 8 + 4 = len by omega]
  exact copyValid_overlap h

theorem copyTail_element {src : Array UInt8} {p off len : Nat} (h : CopyValid src p off len)
    (h1 : 4 ≤ len) (h2 : len ≤ 64) (ho : off ≤ 65535) :
    Spec.Snappy.Element (copyTail off len) (src.toList.take p) (src.toList.take (p + len)) := by
  simp only [copyTail]
  split
  · exact copy2_element h (by omega) h2 ho
  · exact copy1_element h h1 (by omega) (by omega)

theorem elems_single {e o o' : List UInt8} (h : Spec.Snappy.Element e o o') : Spec.Snappy.Elems e o o' := by
  have := Spec.Snappy.Elems.cons h (Spec.Snappy.Elems.nil o')
  simpa using this

/-- the elements `snappy_emit_copy` writes for a valid copy extend the prefix by `len` bytes -/
theorem copyBytes_elems {src : Array UInt8} {off : Nat} (ho : off ≤ 65535) (len : Nat) :
    ∀ p, CopyValid src p off len → 4 ≤ len →
      Spec.Snappy.Elems (copyBytes off len) (src.toList.take p) (src.toList.take (p + len)) := by
  fun_induction copyBytes off len with
  | case1 len h68 ih =>
    intro p h h4
    have hs := copyValid_shift (a := 64) (b := len - 64) (by rw [show 64 + (len - 64) = len by omega]; exact h)
    have := elems_append (elems_single (copy2_element hs.1 (by omega) (by omega) ho)) (ih (p + 64) hs.2 (by omega))
    rw [show p + 64 + (len - 64) = p + len by omega] at this
    exact this
  | case2 len h1 h2 =>
    intro p h h4
    have hs := copyValid_shift (a := 60) (b := len - 60) (by rw [show 60 + (len - 60) = len by omega]; exact h)
    have := elems_append (elems_single (copy2_element hs.1 (by omega) (by omega) ho))
      (elems_single (copyTail_element hs.2 (by omega) (by omega) ho))
    rw [show p + 60 + (len - 60) = p + len by omega] at this
    exact this
  | case3 len h1 h2 =>
    intro p h h4
    exact elems_single (copyTail_element h h4 (by omega) ho)

/-- serialising operations that tile `src[p..q)` gives grammar elements taking the prefix of length `p`
to the prefix of length `q` -/
theorem serialize_elems {src : Array UInt8} (h32 : src.size ≤ 2 ^ 32) : ∀ (ops : List Op) (p q : Nat),
    Tiles src p ops q →
      Spec.Snappy.Elems (serialize src ops) (src.toList.take p) (src.toList.take q) := by
  intro ops
  induction ops with
  | nil => intro p q h; simp only [Tiles] at h; subst h; exact Spec.Snappy.Elems.nil _
  | cons op r ih =>
    intro p q h
    simp only [Tiles] at h
    obtain ⟨hop, hr⟩ := h
    have hrest := ih _ _ hr
    simp only [serialize, List.flatMap_cons] at hrest ⊢
    cases op with
    | literal start len =>
      simp only [OpOk] at hop
      obtain ⟨rfl, h0, h1⟩ := hop
      exact elems_append (elems_single (literal_element src start len h0 h1 (by omega))) hrest
    | copy off len =>
      simp only [OpOk] at hop
      obtain ⟨hv, ho, h4⟩ := hop
      exact elems_append (copyBytes_elems (by omega) len p hv h4) hrest

/-! ### The whole compressor -/

/-- the operations tile the whole input and serialise to at most `7n/6 + 1` bytes -/
theorem ops_inv (src : Array UInt8) :
    Tiles src 0 (ops src).toList src.size ∧ 6 * (serialize src (ops src).toList).length ≤ 7 * src.size + 6 := by
  simp only [ops]
  split
  · rename_i h0
    simp [Tiles, serialize, h0]
  · split
    · rename_i h0 h15
      refine ⟨?_, ?_⟩
      · simp only [Tiles, OpOk, opLen]; exact ⟨⟨trivial, by omega, by omega⟩, by omega⟩
      · have hh := literalHeader_length src.size
        have hl := opBytes_literal_length src 0 src.size (by omega)
        simp only [serialize, List.flatMap_cons, List.flatMap_nil, List.append_nil, hl]
        omega
    · exact mainLoop_inv src _ 0 0 #[] ⟨by simp [Tiles], by simp [serialize]⟩ (Nat.le_refl _) (Nat.zero_le _)

theorem writeVarint_varint : ∀ (k v : Nat), v < 128 ^ (k + 1) →
    Spec.Snappy.Varint (writeVarint k v) v ∧ (writeVarint k v).length ≤ k + 1 := by
  intro k
  induction k with
  | zero =>
    intro v hv
    have ht := ofNat_toNat v (by omega)
    have := Spec.Snappy.Varint.last (UInt8.ofNat v) (by omega)
    rw [ht] at this
    exact ⟨this, by simp [writeVarint]⟩
  | succ k ih =>
    intro v hv
    simp only [writeVarint]
    split
    · rename_i hge
      have hd : v / 128 < 128 ^ (k + 1) := by
        apply Nat.div_lt_of_lt_mul
        rw [Nat.pow_succ, Nat.mul_comm] at hv
        exact hv
      obtain ⟨i1, i2⟩ := ih (v / 128) hd
      have ht := ofNat_toNat (v % 128 + 128) (by omega)
      have := Spec.Snappy.Varint.more (UInt8.ofNat (v % 128 + 128)) _ _ (by omega) i1
      rw [show (UInt8.ofNat (v % 128 + 128)).toNat - 128 + 128 * (v / 128) = v by omega] at this
      exact ⟨this, by simp; omega⟩
    · rename_i hlt
      have ht := ofNat_toNat v (by omega)
      have := Spec.Snappy.Varint.last (UInt8.ofNat v) (by omega)
      rw [ht] at this
      exact ⟨this, by simp⟩

/-- carquet's compressed bytes form a valid raw Snappy block for the input (inputs below 4 GiB, the
format's own limit; the C code writes `(uint32_t)src_size` into the preamble) -/
theorem compress_stream (x : List UInt8) (h : x.length < 2 ^ 32) : Spec.Snappy.Stream (compress x) x := by
  obtain ⟨ht, _⟩ := ops_inv x.toArray
  have he := serialize_elems (src := x.toArray) (by simp; omega) _ _ _ ht
  simp only [List.take_zero, List.size_toArray, List.take_length] at he
  obtain ⟨v1, v2⟩ := writeVarint_varint 4 x.length (by omega)
  simp only [compress, compressBytes, List.size_toArray, Nat.mod_eq_of_lt h]
  exact Spec.Snappy.Stream.mk v1 v2 h he rfl

/-- the compressed size never exceeds the advertised bound -/
theorem compress_le_bound (x : List UInt8) : (compress x).length ≤ compressBound x.length := by
  obtain ⟨_, hc⟩ := ops_inv x.toArray
  obtain ⟨_, v2⟩ := writeVarint_varint 4 (x.length % 2 ^ 32) (by omega)
  simp only [List.size_toArray] at hc
  simp only [compress, compressBytes, List.size_toArray, List.length_append, compressBound]
  omega

/-! ### Reading the tiling back: what it says about each copy -/

def opsLen (l : List Op) : Nat := (l.map opLen).sum

theorem tiles_split {src : Array UInt8} : ∀ {a b : List Op} {p q : Nat},
    Tiles src p (a ++ b) q → Tiles src (p + opsLen a) b q := by
  intro a
  induction a with
  | nil => intro b p q h; simpa [opsLen] using h
  | cons op a ih =>
    intro b p q h
    simp only [List.cons_append, Tiles] at h
    have := ih h.2
    simp only [opsLen, List.map_cons, List.sum_cons] at this ⊢
    rw [show p + (opLen op + (List.map opLen a).sum) = p + opLen op + (List.map opLen a).sum by omega]
    exact this

theorem tiles_copy {src : Array UInt8} {a b : List Op} {off len q : Nat}
    (h : Tiles src 0 (a ++ .copy off len :: b) q) :
    CopyValid src (opsLen a) off len ∧ off ≤ 32768 ∧ 4 ≤ len := by
  have := tiles_split h
  simp only [Tiles, OpOk, Nat.zero_add] at this
  exact this.1

end Carquet.Proofs.Snappy
