import Carquet.Spec.File.Codec
import Carquet.Proofs.SpecFileEnvelope
/-
The raw / RLE-block ZSTD frames of `Spec.File.zstdRaw` are decodable: a reader of RFC 8878 frames
with Single_Segment, no checksum, no dictionary and only Raw / RLE blocks (`unzstdRaw`, defined here
for the proof only) recovers the data.  Hence two frames with the same bytes hold the same data.
-/
namespace Carquet.Proofs.SpecFile
open Carquet.Spec Carquet.Spec.File

/-- Raw and RLE blocks up to and including the last one -/
def unzBlocks : Nat → Bytes → Option Bytes
  | 0, _ => none
  | f + 1, bs =>
    if bs.length < 3 then none
    else if leNat (bs.take 3) / 2 % 4 = 0 then
      (if (bs.drop 3).length < leNat (bs.take 3) / 8 then none
       else if leNat (bs.take 3) % 2 = 1 then some ((bs.drop 3).take (leNat (bs.take 3) / 8))
       else
         match unzBlocks f ((bs.drop 3).drop (leNat (bs.take 3) / 8)) with
         | some d => some ((bs.drop 3).take (leNat (bs.take 3) / 8) ++ d)
         | none => none)
    else if leNat (bs.take 3) / 2 % 4 = 1 then
      (match bs.drop 3 with
       | [] => none
       | b :: r =>
         if leNat (bs.take 3) % 2 = 1 then some (List.replicate (leNat (bs.take 3) / 8) b)
         else
           match unzBlocks f r with
           | some d => some (List.replicate (leNat (bs.take 3) / 8) b ++ d)
           | none => none)
    else none

theorem zBlockHeader_length (last : Bool) (type size : Nat) : (zBlockHeader last type size).length = 3 :=
  leBytes_length 3 _

theorem zBlockHeader_value (last : Bool) (type size : Nat) (ht : type ≤ 1) (hs : size < 2 ^ 17) :
    leNat (zBlockHeader last type size) = (if last then 1 else 0) + 2 * type + 8 * size := by
  unfold zBlockHeader
  apply leNat_leBytes
  cases last <;> simp <;> omega

theorem zBlockHeader_fields (last : Bool) (type size : Nat) (ht : type ≤ 1) (hs : size < 2 ^ 17) :
    ∃ v, leNat (zBlockHeader last type size) = v ∧ v / 2 % 4 = type ∧ v / 8 = size ∧ (v % 2 = 1 ↔ last = true) := by
  refine ⟨_, zBlockHeader_value last type size ht hs, ?_, ?_, ?_⟩ <;> cases last <;> simp <;> omega

theorem unz_raw (f : Nat) (last : Bool) (n : Nat) (payload rest : Bytes) (hn : n < 2 ^ 17) (hp : payload.length = n) :
    unzBlocks (f + 1) (zBlockHeader last 0 n ++ payload ++ rest) =
      if last then some payload
      else match unzBlocks f rest with
        | some d => some (payload ++ d)
        | none => none := by
  have hl := zBlockHeader_length last 0 n
  obtain ⟨v, hv, h1, h2, h3⟩ := zBlockHeader_fields last 0 n (by omega) hn
  generalize hu : unzBlocks f rest = u
  generalize hh : zBlockHeader last 0 n = hdr at hl hv
  rw [List.append_assoc]
  unfold unzBlocks
  simp only [List.take_left' hl, List.drop_left' hl, hv, h1, h2, h3, if_true, List.length_append,
    ← hp, List.take_left, List.drop_left, hu]
  have hA : ¬ (3 + (payload.length + rest.length) < 3) := by omega
  have hB : ¬ (payload.length + rest.length < payload.length) := by omega
  cases last <;> simp [hl, hA, hB]

theorem unz_rle (f : Nat) (last : Bool) (n : Nat) (b : UInt8) (rest : Bytes) (hn : n < 2 ^ 17) :
    unzBlocks (f + 1) (zBlockHeader last 1 n ++ [b] ++ rest) =
      if last then some (List.replicate n b)
      else match unzBlocks f rest with
        | some d => some (List.replicate n b ++ d)
        | none => none := by
  have hl := zBlockHeader_length last 1 n
  obtain ⟨v, hv, h1, h2, h3⟩ := zBlockHeader_fields last 1 n (by omega) hn
  generalize hu : unzBlocks f rest = u
  generalize hh : zBlockHeader last 1 n = hdr at hl hv
  rw [List.append_assoc]
  unfold unzBlocks
  have h10 : ¬ ((1 : Nat) = 0) := by omega
  simp only [if_false, List.take_left' hl, List.drop_left' hl, hv, h1, h2, h3, if_true, h10, List.cons_append,
    List.nil_append, hu]
  have hA : ¬ (3 + (rest.length + 1) < 3) := by omega
  cases last <;> simp [hl, hA]

/-- **blocks round trip** -/
theorem unzBlocks_zBlocks : ∀ (plan : List ZBlock) (data bl : Bytes), zBlocks plan data = some bl →
    ∀ f, plan.length < f → unzBlocks f bl = some data
  | [], data, bl, h, f, hf => by
    simp only [zBlocks] at h
    split at h
    · rename_i hlen
      cases h
      cases f with
      | zero => omega
      | succ f =>
        have := unz_raw f true data.length data [] hlen rfl
        simpa using this
    · cases h
  | .raw n :: r, data, bl, h, f, hf => by
    simp only [zBlocks] at h
    split at h
    · cases h
    · rename_i hc
      have hn : n < 2 ^ 17 := by omega
      have hdl : n ≤ data.length := by omega
      cases f with
      | zero => omega
      | succ f =>
        split at h
        · rename_i hfin
          cases h
          have := unz_raw f true n data [] hn hfin.2
          simpa using this
        · cases hz : zBlocks r (data.drop n) with
          | none => simp [hz] at h
          | some bs =>
            simp only [hz, Option.some.injEq] at h
            subst h
            have ih := unzBlocks_zBlocks r (data.drop n) bs hz f (by simp at hf; omega)
            rw [unz_raw f false n (data.take n) bs hn (by simp; omega), ih]
            simp
  | .rle n :: r, data, bl, h, f, hf => by
    simp only [zBlocks] at h
    cases data with
    | nil => simp at h
    | cons b t =>
      simp only at h
      split at h
      · cases h
      · rename_i hc
        have hn : n < 2 ^ 17 := by omega
        have htake : (b :: t).take n = List.replicate n b := by
          apply Classical.byContradiction; intro hne; exact hc (Or.inr (Or.inr (Or.inr hne)))
        cases f with
        | zero => omega
        | succ f =>
          split at h
          · rename_i hfin
            cases h
            have := unz_rle f true n b [] hn
            rw [List.append_nil] at this
            rw [this]
            simp only [if_true]
            rw [← htake, List.take_of_length_le (by omega)]
          · cases hz : zBlocks r ((b :: t).drop n) with
            | none => simp [hz] at h
            | some bs =>
              simp only [hz, Option.some.injEq] at h
              subst h
              have ih := unzBlocks_zBlocks r ((b :: t).drop n) bs hz f (by simp at hf; omega)
              rw [unz_rle f false n b bs hn, ih]
              simp only [Bool.false_eq_true, if_false]
              rw [← htake, List.take_append_drop]

theorem zBlocks_length : ∀ (plan : List ZBlock) (data bl : Bytes), zBlocks plan data = some bl → plan.length < bl.length
  | [], data, bl, h => by
    simp only [zBlocks] at h
    split at h
    · cases h; simp only [List.length_append, zBlockHeader_length, List.length_nil]; omega
    · cases h
  | .raw n :: r, data, bl, h => by
    simp only [zBlocks] at h
    split at h
    · cases h
    · split at h
      · rename_i hfin
        cases h
        simp only [List.length_append, zBlockHeader_length, List.length_cons, hfin.1, List.length_nil]; omega
      · cases hz : zBlocks r (data.drop n) with
        | none => simp [hz] at h
        | some bs =>
          simp only [hz, Option.some.injEq] at h
          subst h
          have := zBlocks_length r _ bs hz
          simp [zBlockHeader_length]; omega
  | .rle n :: r, data, bl, h => by
    simp only [zBlocks] at h
    cases data with
    | nil => simp at h
    | cons b t =>
      simp only at h
      split at h
      · cases h
      · split at h
        · rename_i hfin
          cases h
          simp only [List.length_append, zBlockHeader_length, List.length_cons, hfin.1, List.length_nil]; omega
        · cases hz : zBlocks r ((b :: t).drop n) with
          | none => simp [hz] at h
          | some bs =>
            simp only [hz, Option.some.injEq] at h
            subst h
            have := zBlocks_length r _ bs hz
            simp [zBlockHeader_length]; omega

def fcsLen (f : Nat) : Nat := if f = 0 then 1 else if f = 1 then 2 else if f = 2 then 4 else 8

/-- a reader of the frames `zstdRaw` produces (for the proof only) -/
def unzstdRaw (bs : Bytes) : Option Bytes :=
  if bs.take 4 ≠ [0x28, 0xB5, 0x2F, 0xFD] then none
  else
    match bs.drop 4 with
    | [] => none
    | d :: r => unzBlocks (r.length + 1) (r.drop (fcsLen (d.toNat / 64)))

theorem zContentSize_some {f n : Nat} {cs : Bytes} (h : zContentSize f n = some cs) :
    f ≤ 4 ∧ cs.length = fcsLen (if f = 4 then 0 else f) := by
  unfold zContentSize at h
  unfold fcsLen
  by_cases h0 : f = 0
  · subst h0
    simp only [if_true] at h
    split at h
    · cases h; simp [leBytes_length]
    · cases h
  · by_cases h1 : f = 1
    · subst h1
      simp only [if_false, if_true, h0] at h
      split at h
      · cases h; simp [leBytes_length]
      · cases h
    · by_cases h2 : f = 2
      · subst h2
        simp only [if_false, if_true, h0, h1] at h
        split at h
        · cases h; simp [leBytes_length]
        · cases h
      · by_cases h3 : f = 3
        · subst h3
          simp only [if_false, if_true, h0, h1, h2] at h
          split at h
          · cases h; simp [leBytes_length]
          · cases h
        · by_cases h4 : f = 4
          · subst h4
            simp at h
            subst h
            simp
          · simp [h0, h1, h2, h3, h4] at h

theorem unzstdRaw_zstdRaw (f : Nat) (plan : List ZBlock) (data comp : Bytes) (h : zstdRaw f plan data = some comp) :
    unzstdRaw comp = some data := by
  unfold zstdRaw at h
  cases hcs : zContentSize f data.length with
  | none => simp [hcs] at h
  | some cs =>
    cases hbl : zBlocks plan data with
    | none => simp [hcs, hbl] at h
    | some bl =>
      simp only [hcs, hbl, Option.some.injEq] at h
      subst h
      obtain ⟨hf, hl⟩ := zContentSize_some hcs
      have hd : (zDescriptor f).toNat / 64 = (if f = 4 then 0 else f) := by
        unfold zDescriptor
        by_cases h4 : f = 4
        · simp [h4]
        · simp only [h4, if_false]
          rw [UInt8.toNat_ofNat']; omega
      have hfuel := zBlocks_length plan data bl hbl
      unfold unzstdRaw
      simp only [List.cons_append, List.nil_append, List.take_succ_cons, List.take_zero, List.drop_succ_cons, List.drop_zero,
        ne_eq, not_true_eq_false, if_false, hd, ← hl, List.drop_left]
      exact unzBlocks_zBlocks plan data bl hbl _ (by simp only [List.length_append]; omega)

end Carquet.Proofs.SpecFile
