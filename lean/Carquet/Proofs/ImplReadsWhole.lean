import Carquet.Proofs.ImplReadsFile
/-
C06, implementation half — the whole-file theorem over the stage lemmas: for the file `writeFull t l`
of an admissible layout inside carquet's claimed set, `carquet_reader_open*` succeeds in every mode and
the opened reader satisfies `Opening` (every `get_column` succeeds and one complete `read_batch` per
chunk returns the chunk's entries); hence `readAll` returns `readerTableOfSpec t`.
-/
namespace Carquet.Proofs.ImplReads
open Carquet.Spec Carquet.Spec.File Carquet.Spec.Thrift Carquet.Spec.ParquetThrift
open Carquet.Impl
open Carquet.Impl.Reader hiding Bytes
open Carquet.Proofs.SpecFile (ChunkAdm CcDesc RgDesc2 chunkDesc fmFields2 statsFieldsOf LayoutAdm layoutAdm_iff)
open Carquet.Proofs.Cursor (ResOk)
open Carquet.Impl.Reader.Claim (zipWith3)

theorem claimed_bounds {f : Bool} {leaf : LeafInfo} {cl : ChunkLayout} {es : Chunk} (h : chunkClaimed f leaf cl es = true) :
    leaf.path.length ≤ 100 ∧ (usedEncodings cl).length ≤ 100 ∧ chunkExtrasDepthOk cl = true := by
  unfold Carquet.Impl.Reader.Claim.chunkClaimed at h
  simp only [Bool.and_eq_true, decide_eq_true_eq] at h
  exact ⟨h.1.1.2, h.1.2, h.1.1.1.1.1.1⟩

theorem chunkDepth_parts {cl : ChunkLayout} (h : chunkExtrasDepthOk cl = true) :
    extrasDepth 29 cl.chunkExtra = true ∧ extrasDepth 28 cl.metaExtra = true := by
  unfold Carquet.Impl.Reader.Claim.chunkExtrasDepthOk at h
  simp only [Bool.and_eq_true] at h
  exact ⟨h.1.1.1, h.1.1.2⟩

theorem writer_le32 (n : Nat) : Writer.le32 n = File.leBytes 4 n := by
  rw [Carquet.Proofs.ReaderPageRoundtrip.le32_eq_leBytes, file_leBytes_eq]

/-- the FileMetaData record `parquet_parse_file_metadata` returns for the reference writer's footer -/
def mdOf (version : Int) (els : List Schema.Element) (numRows : Nat) (ds : List RgDesc2) (createdBy : Option Bytes) :
    ThriftParquet.FileMetaData :=
  { version := version, schema := els.map implSE, numRows := (numRows : Int), rowGroups := ds.map implRG,
    keyValueMetadata := [], createdBy := createdBy.map ThriftParquet.cstr }

/-- **open + every cell**: the reader opened on the reference writer's file -/
theorem opening_reference (t : File.Table) (l : Layout) (file : Bytes) (oracle : Oracle)
    (hw : writeFull t l = some (file, oracle)) (hadm : layoutAdm l = true)
    (hwf : ∀ v, footerTV t l = some v → v.wf = true ∧ footerUsizeOk v = true)
    (hlen : file.length < 2 ^ 31) (hsmall : ∀ g ∈ t.rowGroups, ∀ es ∈ g.chunks, es.length < 2 ^ 31)
    (mode : Mode) (hclaim : fileClaimed (decide (mode = .fread)) t l = true)
    (verify : Bool) (L : Libs) (hL : LibsDecode L oracle) :
    ∃ (o : Opened) (leaves : List LeafInfo), columnsOf t.schema = .ok leaves ∧ openFile mode file = .ok o ∧
      Opening L verify mode file o leaves t.rowGroups ∧ o.md.numRows = (numRowsOfSpec t : Int) := by
  have hl := layoutAdm_iff hadm
  obtain ⟨schema, groups⟩ := t
  unfold writeFull at hw
  unfold footerTV at hwf
  unfold Carquet.Impl.Reader.Claim.fileClaimed at hclaim
  simp only at hw hwf hsmall hclaim
  cases hcols : columnsOf schema with
  | error e => simp [hcols] at hw
  | ok leaves =>
    simp only [hcols] at hw hwf hclaim
    cases hg : writeGroups leaves l.rowGroupExtra l.rowGroups groups 4 with
    | none => simp [hg] at hw
    | some G =>
      simp only [hg, Option.some.injEq, Prod.mk.injEq] at hw hwf
      obtain ⟨hfile, horacle⟩ := hw
      obtain ⟨hwfv, husv⟩ := hwf _ rfl
      simp only [Bool.and_eq_true, decide_eq_true_eq] at hclaim
      obtain ⟨⟨⟨⟨hdep, hsl⟩, hgl⟩, hll⟩, hzip⟩ := hclaim
      unfold Carquet.Impl.Reader.Claim.layoutExtrasDepthOk at hdep
      simp only [Bool.and_eq_true] at hdep
      obtain ⟨⟨⟨hd1, hd2⟩, hd3⟩, _⟩ := hdep
      have husz := Carquet.Proofs.SpecFile.footerUsizeOk_withExtras _ _ _ _ _ _ hl.footerExtra husv
      obtain ⟨ds, hds, hdok, hend, hnr, hl1, hl2, hcells⟩ := writeGroups_cells leaves l.rowGroupExtra hl.rowGroupExtra
        l.rowGroups groups 4 G hl.chunks hg husz
      obtain ⟨lfs, hbs, hlfl, hlf⟩ := buildSchema_written schema leaves hcols
      -- every cell: where it lies, and that it is inside the claimed set
      have hcellx : ∀ (i j : Nat) (cls : List ChunkLayout) (g : RowGroup) (rd : RgDesc2) (leaf : LeafInfo) (cl : ChunkLayout)
          (es : Chunk) (d : CcDesc), l.rowGroups[i]? = some cls → groups[i]? = some g → ds[i]? = some rd →
          leaves[j]? = some leaf → cls[j]? = some cl → g.chunks[j]? = some es → rd.chunks[j]? = some d →
          CellOf G.bytes 4 G.oracle leaf cl es d ∧ ChunkAdm cl ∧
            chunkClaimed (decide (mode = .fread)) leaf cl es = true := by
        intro i j cls g rd leaf cl es d k1 k2 k3 k4 k5 k6 k7
        obtain ⟨_, _, _, _, hc⟩ := hcells i cls g rd k1 k2 k3
        refine ⟨hc j leaf cl es d k4 k5 k6 k7, hl.chunks cls (List.mem_of_getElem? k1) cl (List.mem_of_getElem? k5), ?_⟩
        have hz := zipWith_all _ _ _ hzip i cls g k1 k2
        exact zipWith3_all _ _ _ _ hz j leaf cl es k4 k5 k6
      -- every footer entry is a `chunkDesc`
      have hdesc : ∀ rd ∈ ds, rd.extra = l.rowGroupExtra ∧ rd.chunks.length = leaves.length ∧
          ∀ d ∈ rd.chunks, ∃ (leaf : LeafInfo) (cl : ChunkLayout) (es : Chunk) (posj : Nat) (dp pages : Written),
            d = chunkDesc leaf cl es posj dp pages ∧ chunkClaimed (decide (mode = .fread)) leaf cl es = true := by
        intro rd hrd
        obtain ⟨i, hi⟩ := List.mem_iff_getElem?.mp hrd
        have hilt : i < ds.length := by
          apply Classical.byContradiction; intro h
          rw [List.getElem?_eq_none (by omega)] at hi; cases hi
        obtain ⟨cls, hcls⟩ := getElem?_of_lt l.rowGroups i (by omega)
        obtain ⟨g, hgi⟩ := getElem?_of_lt groups i (by omega)
        obtain ⟨e1, e2, e3, e4, _⟩ := hcells i cls g rd hcls hgi hi
        refine ⟨e1, e2, ?_⟩
        intro d hd
        obtain ⟨j, hj⟩ := List.mem_iff_getElem?.mp hd
        have hjlt : j < rd.chunks.length := by
          apply Classical.byContradiction; intro h
          rw [List.getElem?_eq_none (by omega)] at hj; cases hj
        obtain ⟨leaf, hleaf⟩ := getElem?_of_lt leaves j (by omega)
        obtain ⟨cl, hcl⟩ := getElem?_of_lt cls j (by omega)
        obtain ⟨es, hes⟩ := getElem?_of_lt g.chunks j (by omega)
        obtain ⟨hcell, _, hcc⟩ := hcellx i j cls g rd leaf cl es d hcls hgi hi hleaf hcl hes hj
        obtain ⟨posj, c, a, b, dp, pages, _, _, _, h4, _⟩ := hcell
        exact ⟨leaf, cl, es, posj, dp, pages, h4, hcc⟩
      -- the footer
      have hlim : FooterLimits (Schema.flatten schema) l.schemaExtra ds l.footerExtra := by
        refine ⟨hsl, by omega, ?_, ?_, ?_, ?_, hd1, hd2, ?_, ?_⟩
        · intro g hg'; rw [(hdesc g hg').2.1]; exact hll
        · intro g hg' d hd
          obtain ⟨leaf, cl, es, posj, dp, pages, rfl, hcc⟩ := (hdesc g hg').2.2 d hd
          exact (claimed_bounds hcc).2.1
        · intro g hg' d hd
          obtain ⟨leaf, cl, es, posj, dp, pages, rfl, hcc⟩ := (hdesc g hg').2.2 d hd
          simp only [chunkDesc, List.length_map]
          exact (claimed_bounds hcc).1
        · intro g hg' d hd fs hfs
          obtain ⟨leaf, cl, es, posj, dp, pages, rfl, hcc⟩ := (hdesc g hg').2.2 d hd
          simp only [chunkDesc] at hfs
          split at hfs
          · simp only [Option.some.injEq] at hfs
            exact ⟨_, hfs.symm⟩
          · cases hfs
        · intro g hg'; rw [(hdesc g hg').1]; exact hd3
        · intro g hg' d hd
          obtain ⟨leaf, cl, es, posj, dp, pages, rfl, hcc⟩ := (hdesc g hg').2.2 d hd
          exact chunkDepth_parts (claimed_bounds hcc).2.2
      have hfooterTV : fileMetaTV l.version ((Schema.flatten schema).map (fun e => schemaElementTV e l.schemaExtra))
          ((groups.map (groupRows leaves)).sum) G.metas l.createdBy l.footerExtra =
          .struct (fmFields2 l.version (Schema.flatten schema) l.schemaExtra ((groups.map (groupRows leaves)).sum) ds
            l.createdBy l.footerExtra) := by
        rw [hds]
        rfl
      rw [hfooterTV] at hwfv hfile
      have hparse := parseFooter_written l.form l.version (Schema.flatten schema) l.schemaExtra ((groups.map (groupRows leaves)).sum)
        ds l.createdBy l.footerExtra hwfv hl.footerExtra hl.schemaExtra hdok hlim
      generalize hft : encodeValF l.form (.struct (fmFields2 l.version (Schema.flatten schema) l.schemaExtra
        ((groups.map (groupRows leaves)).sum) ds l.createdBy l.footerExtra)) = ft at hfile hparse
      have hparse' : ThriftParquetReq.parseFileMetaDataReq ft =
          .ok (mdOf l.version (Schema.flatten schema) ((groups.map (groupRows leaves)).sum) ds l.createdBy) := hparse
      generalize hmd : mdOf l.version (Schema.flatten schema) ((groups.map (groupRows leaves)).sum) ds l.createdBy = md at hparse'
      have hfoot : Reader.parseFooter ft = .ok ⟨md, lfs⟩ := by
        unfold Reader.parseFooter
        rw [hparse']
        simp only
        rw [← hmd]
        simp only [mdOf, hbs]
      have hflen : file.length = 4 + G.bytes.length + ft.length + 4 + 4 := by
        rw [← hfile]
        simp only [List.length_append, Carquet.Proofs.SpecFile.leBytes_length, Carquet.Proofs.SpecFile.magic_length]
      have hopen : openFile mode file = .ok ⟨md, lfs⟩ := by
        have := Carquet.Proofs.Roundtrip.openFile_envelope mode G.bytes ft (by omega) ⟨md, lfs⟩ hfoot
        rw [writer_le32] at this
        rw [← hfile]
        exact this
      have hfile2 : file = File.magic ++ G.bytes ++ (ft ++ File.leBytes 4 ft.length ++ File.magic) := by
        rw [← hfile]; simp [List.append_assoc]
      have htail : 8 ≤ (ft ++ File.leBytes 4 ft.length ++ File.magic).length := by
        simp only [List.length_append, Carquet.Proofs.SpecFile.leBytes_length, Carquet.Proofs.SpecFile.magic_length]
        omega
      have hrg : (⟨md, lfs⟩ : Opened).md.rowGroups = ds.map implRG := by rw [← hmd]; rfl
      have hsch : (⟨md, lfs⟩ : Opened).md.schema = (Schema.flatten schema).map implSE := by rw [← hmd]; rfl
      refine ⟨⟨md, lfs⟩, leaves, rfl, hopen, ⟨?_, ?_, ?_, ?_⟩, ?_⟩
      · simp [Opened.numColumns, hlfl]
      · show md.rowGroups.length = groups.length
        have hrg' : md.rowGroups = ds.map implRG := hrg
        rw [hrg', List.length_map]; omega
      · intro g hg'
        have hg'' : g ∈ groups := hg'
        obtain ⟨i, hi⟩ := List.mem_iff_getElem?.mp hg''
        have hilt : i < groups.length := by
          apply Classical.byContradiction; intro h
          rw [List.getElem?_eq_none (by omega)] at hi; cases hi
        obtain ⟨cls, hcls⟩ := getElem?_of_lt l.rowGroups i (by omega)
        obtain ⟨rd, hrd⟩ := getElem?_of_lt ds i (by omega)
        exact (hcells i cls g rd hcls hi hrd).2.2.2.1
      · intro i j g es hgi0 hes
        have hgi : groups[i]? = some g := hgi0
        have hilt : i < groups.length := by
          apply Classical.byContradiction; intro h
          rw [List.getElem?_eq_none (by omega)] at hgi; cases hgi
        obtain ⟨cls, hcls⟩ := getElem?_of_lt l.rowGroups i (by omega)
        obtain ⟨rd, hrd⟩ := getElem?_of_lt ds i (by omega)
        obtain ⟨e1, e2, e3, e4, _⟩ := hcells i cls g rd hcls hgi hrd
        have hjlt : j < g.chunks.length := by
          apply Classical.byContradiction; intro h
          rw [List.getElem?_eq_none (by omega)] at hes; cases hes
        obtain ⟨leaf, hleaf⟩ := getElem?_of_lt leaves j (by omega)
        obtain ⟨cl, hcl⟩ := getElem?_of_lt cls j (by omega)
        obtain ⟨d, hd⟩ := getElem?_of_lt rd.chunks j (by omega)
        obtain ⟨lf, hlfj⟩ := getElem?_of_lt lfs j (by omega)
        obtain ⟨hcell, hcadm, hcc⟩ := hcellx i j cls g rd leaf cl es d hcls hgi hrd hleaf hcl hes hd
        obtain ⟨hmdef, hmrep, hel⟩ := hlf j lf leaf hlfj hleaf
        have hflba : leaf.ptype = .flba → 0 < leaf.typeLength := by
          obtain ⟨_, _, _, _, h⟩ := hel; exact h
        have hpt : d.m.ptype = ptypeCode leaf.ptype := by
          obtain ⟨posj, c, a, b, dp, pages, _, _, _, h4, _⟩ := hcell
          rw [h4]; rfl
        have hnv : d.m.numValues = es.length := by
          obtain ⟨posj, c, a, b, dp, pages, _, _, _, h4, _⟩ := hcell
          rw [h4]; rfl
        refine ⟨leaf, implCM d.m d.stats, ?_, ?_⟩
        · exact getColumn_written ⟨md, lfs⟩ ds (Schema.flatten schema) hrg hsch i j rd d lf leaf hrd hd hlfj hmdef hmrep hel hpt
        · intro wd wr
          have hes31 : es.length < 2 ^ 31 := hsmall g (List.mem_of_getElem? hgi) es (List.mem_of_getElem? hes)
          obtain ⟨rows, r1, r2, r3, r4, r5, r6⟩ := cell_read L verify mode G.bytes (ft ++ File.leBytes 4 ft.length ++ File.magic)
            G.oracle leaf cl es d hcell (chunkClaim_of mode leaf cl es hcadm hflba hcc).1 (by rw [← hfile2]; exact hlen) hes31
            (by rw [horacle]; exact hL) htail wd wr
          rw [← hfile2] at r1
          exact ⟨rows, r1, r2, r3, r4, r5, by simp [colOfLeaf, implCM, hnv], r6⟩
      · rw [← hmd]
        simp [mdOf, numRowsOfSpec, hcols]

/-- **the whole file**: `readAll` on the reference writer's file returns the table, as carquet hands it out -/
theorem readAll_reference (t : File.Table) (l : Layout) (file : Bytes) (oracle : Oracle)
    (hw : writeFull t l = some (file, oracle)) (hadm : layoutAdm l = true)
    (hwf : ∀ v, footerTV t l = some v → v.wf = true ∧ footerUsizeOk v = true)
    (hlen : file.length < 2 ^ 31) (hsmall : ∀ g ∈ t.rowGroups, ∀ es ∈ g.chunks, es.length < 2 ^ 31)
    (mode : Mode) (hclaim : fileClaimed (decide (mode = .fread)) t l = true)
    (verify : Bool) (L : Libs) (hL : LibsDecode L oracle) :
    readAll Fixes.all L verify mode file = .ok (readerTableOfSpec t) := by
  obtain ⟨o, leaves, _, hopen, hop, hrows⟩ := opening_reference t l file oracle hw hadm hwf hlen hsmall mode hclaim verify L hL
  have hgs := readRowGroups_spec L verify mode file o leaves t.rowGroups hop t.rowGroups.length (Nat.le_refl _)
  rw [List.take_of_length_le (by simp)] at hgs
  unfold readAll
  rw [hopen]
  simp only [hop.numRowGroups, hgs, hrows]
  rfl

end Carquet.Proofs.ImplReads
