import Carquet.Proofs.ThriftTable
/-
The parsers of parquet_types.c, struct by struct: the table of what each handler does with its
field's Thrift value, and the theorem that the parser reads every acceptable encoding
(`…_reads`).  `R` is the nesting depth allowed to unknown (skipped) fields.
-/
namespace Carquet.Proofs.Thrift
open Carquet.Spec.Thrift
open Carquet.Impl.Thrift
open Carquet.Impl.ThriftParquet

variable {σ : Type}

/-! ### more entry kinds -/

/-- a handler that skips the value and updates the state regardless of it -/
def semSkip (R : Nat) (f : σ → σ) : FieldSem σ := ⟨fun v => v.depth ≤ R, fun s _ => f s⟩

theorem entry_skipWith (Inv : σ → Prop) (body : Nat → Int → Dec → σ → σ × Dec) (R : Nat) (hR : R ≤ maxNesting) (id : Int)
    (f : σ → σ) (hbody : ∀ ty d s, d.status = none → body ty id d s = (f s, skipField Cfg.fixed ty d)) :
    EntryOK Inv body R (id, semSkip R f) := by
  refine ⟨?_, ?_⟩
  · intro b _ d s _ hs _ _ _ _
    refine ⟨d.boolValue, ?_⟩
    rw [hbody _ _ _ hs]
    unfold skipField stackBudget
    cases b
    · simp only [fieldCode]; rw [skip_2 _ _ _ hs]; rfl
    · simp only [fieldCode]; rw [skip_1 _ _ _ hs]; rfl
  · intro v hnb hsh b2 hb2 s _ d r hd
    obtain ⟨bv, hsk⟩ := (skip_consumes v hnb b2 hb2 stackBudget
      (Nat.lt_of_le_of_lt hsh (stackBudget_big R hR))).weaken hsh d r hd
    refine ⟨bv, ?_⟩
    show body v.ty.code id d s = _
    simp only [Prod.mk.injEq, true_and] at hsk
    rw [hbody _ _ _ hd.ok]
    unfold skipField
    rw [hsk]
    rfl

/-- a struct-valued member parsed by `p` -/
def semStruct {β : Type} (okf : List (Int × TVal) → Prop) (of : List (Int × TVal) → β) (set : σ → β → σ) : FieldSem σ :=
  ⟨fun v => ∃ fs, v = .struct fs ∧ okf fs, fun s v => set s (of (asFields v))⟩

theorem entry_struct {β : Type} (Inv : σ → Prop) (body : Nat → Int → Dec → σ → σ × Dec) (k : Nat) (id : Int)
    (p : Dec → β × Dec) (okf : List (Int × TVal) → Prop) (of : List (Int × TVal) → β) (set : σ → β → σ)
    (hp : ∀ fs bs, Enc (.val (.struct fs)) bs → okf fs → Reads k p bs (of fs))
    (hbody : ∀ ty d s, d.status = none → body ty id d s = (set s (p d).1, (p d).2)) :
    EntryOK Inv body k (id, semStruct okf of set) :=
  entry_of_reads Inv body k id _ p set (fun v => of (asFields v)) (by rintro b ⟨fs, h, _⟩; cases h) hbody (fun _ _ _ => rfl)
    (by rintro v ⟨fs, rfl, hok⟩ b2 hb2; exact hp fs b2 hb2 hok)

/-- a struct-valued member parsed by `p`, which may start from the current state (`p s`) -/
def semStructS {β : Type} (okf : List (Int × TVal) → Prop) (of : σ → List (Int × TVal) → β) (set : σ → β → σ) : FieldSem σ :=
  ⟨fun v => ∃ fs, v = .struct fs ∧ okf fs, fun s v => set s (of s (asFields v))⟩

theorem entry_structS {β : Type} (Inv : σ → Prop) (body : Nat → Int → Dec → σ → σ × Dec) (k : Nat) (id : Int)
    (p : σ → Dec → β × Dec) (okf : List (Int × TVal) → Prop) (of : σ → List (Int × TVal) → β) (set : σ → β → σ)
    (hp : ∀ s fs bs, Enc (.val (.struct fs)) bs → okf fs → Reads k (p s) bs (of s fs))
    (hbody : ∀ ty d s, d.status = none → body ty id d s = (set s (p s d).1, (p s d).2)) :
    EntryOK Inv body k (id, semStructS okf of set) := by
  refine ⟨?_, ?_⟩
  · rintro b ⟨fs, h, _⟩
    cases h
  rintro v _ ⟨fs, rfl, hok⟩ b2 hb2 s _ d r hd
  obtain ⟨bv, h⟩ := hp s fs b2 hb2 hok d r hd
  exact ⟨bv, by show body _ id d s = _; rw [hbody _ _ _ hd.ok, h]; rfl⟩

/-- a list-valued member read by `parseListOf max elem` -/
def semList {β : Type} (max : Int) (shapeE : TVal → Prop) (conv : TVal → β) (set : σ → List β → σ) : FieldSem σ :=
  ⟨fun v => ∃ et xs, v = .list et xs ∧ (xs.length : Int) ≤ max ∧ ∀ x ∈ xs, shapeE x,
   fun s v => set s ((asElems v).map conv)⟩

theorem entry_list {β : Type} (Inv : σ → Prop) (body : Nat → Int → Dec → σ → σ × Dec) (k : Nat) (id : Int)
    (max : Int) (elem : Dec → β × Dec) (shapeE : TVal → Prop) (conv : TVal → β) (set : σ → List β → σ)
    (helem : ∀ x, shapeE x → ∀ b, Enc (.val x) b → Reads k elem b (conv x))
    (hbody : ∀ ty d s, d.status = none → body ty id d s = setList s set (parseListOf max elem d)) :
    EntryOK Inv body k (id, semList max shapeE conv set) :=
  entry_of_reads Inv body k id _ (parseListOf max elem) (optSet set) (fun v => some ((asElems v).map conv))
    (by rintro b ⟨_, _, h, _⟩; cases h) (fun ty d s hs => by rw [hbody ty d s hs]; rfl) (fun _ _ _ => rfl)
    (by
      rintro v ⟨et, xs, rfl, hmax, hsh⟩ b2 hb2
      exact parseListOf_reads max elem conv k et xs hmax (fun x hx => helem x (hsh x hx)) b2 hb2)

/-! ### Statistics -/

def tblStats : Table Statistics :=
  [(1, semBin (fun s x => { s with maxDeprecated := x })),
   (2, semBin (fun s x => { s with minDeprecated := x })),
   (3, semI64 (fun s x => { s with nullCount := some x })),
   (4, semI64 (fun s x => { s with distinctCount := some x })),
   (5, semBin (fun s x => { s with maxValue := x })),
   (6, semBin (fun s x => { s with minValue := x })),
   (7, semBool (fun s x => { s with isMaxValueExact := some x })),
   (8, semBool (fun s x => { s with isMinValueExact := some x }))]

theorem parseStatistics_reads (R : Nat) (hR : R ≤ maxNesting) (fs : List (Int × TVal)) (bs : List UInt8)
    (henc : Enc (.val (.struct fs)) bs) (hok : ∀ f ∈ fs, okT tblStats R f.1 f.2) :
    Reads (R + 1) (parseStatistics Cfg.fixed) bs (ofFields tblStats {} fs) := by
  refine parse_by_table tblStats (statisticsBody Cfg.fixed) R hR ?_ ?_ {} fs bs henc hok
  · intro e he
    simp only [tblStats, List.mem_cons, List.not_mem_nil, or_false] at he
    rcases he with rfl | rfl | rfl | rfl | rfl | rfl | rfl | rfl
    · apply entry_bin; intro _ _ _ _; rfl
    · apply entry_bin; intro _ _ _ _; rfl
    · apply entry_i64; intro _ _ _ _; rfl
    · apply entry_i64; intro _ _ _ _; rfl
    · apply entry_bin; intro _ _ _ _; rfl
    · apply entry_bin; intro _ _ _ _; rfl
    · apply entry_bool; intro _ _ _ _; rfl
    · apply entry_bool; intro _ _ _ _; rfl
  · intro id hid ty d s _
    simp [tblStats] at hid
    simp [statisticsBody, hid]

/-! ### KeyValue, PageEncodingStats -/

def tblKV : Table KeyValue :=
  [(1, semStr (fun s x => { s with key := x })), (2, semStr (fun s x => { s with value := x }))]

theorem parseKeyValue_reads (R : Nat) (hR : R ≤ maxNesting) (fs : List (Int × TVal)) (bs : List UInt8)
    (henc : Enc (.val (.struct fs)) bs) (hok : ∀ f ∈ fs, okT tblKV R f.1 f.2) :
    Reads (R + 1) (parseKeyValue Cfg.fixed) bs (ofFields tblKV {} fs) := by
  refine parse_by_table tblKV (keyValueBody Cfg.fixed) R hR ?_ ?_ {} fs bs henc hok
  · intro e he
    simp only [tblKV, List.mem_cons, List.not_mem_nil, or_false] at he
    rcases he with rfl | rfl
    · apply entry_str; intro _ _ _ _; rfl
    · apply entry_str; intro _ _ _ _; rfl
  · intro id hid ty d s _
    simp [tblKV] at hid
    simp [keyValueBody, hid]

def tblPES : Table PageEncodingStats :=
  [(1, semI32 (fun s x => { s with pageType := x })), (2, semI32 (fun s x => { s with encoding := x })),
   (3, semI32 (fun s x => { s with count := x }))]

theorem parseEncodingStats_reads (R : Nat) (hR : R ≤ maxNesting) (fs : List (Int × TVal)) (bs : List UInt8)
    (henc : Enc (.val (.struct fs)) bs) (hok : ∀ f ∈ fs, okT tblPES R f.1 f.2) :
    Reads (R + 1) (parseEncodingStats Cfg.fixed) bs (ofFields tblPES {} fs) := by
  refine parse_by_table tblPES (encodingStatsBody Cfg.fixed) R hR ?_ ?_ {} fs bs henc hok
  · intro e he
    simp only [tblPES, List.mem_cons, List.not_mem_nil, or_false] at he
    rcases he with rfl | rfl | rfl
    · apply entry_i32; intro _ _ _ _; rfl
    · apply entry_i32; intro _ _ _ _; rfl
    · apply entry_i32; intro _ _ _ _; rfl
  · intro id hid ty d s _
    simp [tblPES] at hid
    simp [encodingStatsBody, hid]

/-! ### LogicalType and its members -/

def tblDecimal : Table (Int × Int) :=
  [(1, semI32 (fun s x => (x, s.2))), (2, semI32 (fun s x => (s.1, x)))]

theorem parseDecimal_reads (R : Nat) (hR : R ≤ maxNesting) (fs : List (Int × TVal)) (bs : List UInt8)
    (henc : Enc (.val (.struct fs)) bs) (hok : ∀ f ∈ fs, okT tblDecimal R f.1 f.2) :
    Reads (R + 1) (parseStruct (decimalBody Cfg.fixed) (0, 0)) bs (ofFields tblDecimal (0, 0) fs) := by
  refine parse_by_table tblDecimal (decimalBody Cfg.fixed) R hR ?_ ?_ _ fs bs henc hok
  · intro e he
    simp only [tblDecimal, List.mem_cons, List.not_mem_nil, or_false] at he
    rcases he with rfl | rfl
    · apply entry_i32; intro _ _ _ _; rfl
    · apply entry_i32; intro _ _ _ _; rfl
  · intro id hid ty d s _
    simp [tblDecimal] at hid
    simp [decimalBody, hid]

def tblInteger : Table (Int × Bool) :=
  [(1, semI8 (fun s x => (x, s.2))), (2, semBool (fun s x => (s.1, x)))]

theorem parseInteger_reads (R : Nat) (hR : R ≤ maxNesting) (fs : List (Int × TVal)) (bs : List UInt8)
    (henc : Enc (.val (.struct fs)) bs) (hok : ∀ f ∈ fs, okT tblInteger R f.1 f.2) :
    Reads (R + 1) (parseStruct (integerBody Cfg.fixed) (0, false)) bs (ofFields tblInteger (0, false) fs) := by
  refine parse_by_table tblInteger (integerBody Cfg.fixed) R hR ?_ ?_ _ fs bs henc hok
  · intro e he
    simp only [tblInteger, List.mem_cons, List.not_mem_nil, or_false] at he
    rcases he with rfl | rfl
    · apply entry_i8; intro _ _ _ _; rfl
    · apply entry_bool; intro _ _ _ _; rfl
  · intro id hid ty d s _
    simp [tblInteger] at hid
    simp [integerBody, hid]

def tblTimeUnit (R : Nat) : Table TimeUnit :=
  [(1, semSkip R (fun _ => .millis)), (2, semSkip R (fun _ => .micros)), (3, semSkip R (fun _ => .nanos))]

theorem parseTimeUnit_reads (R : Nat) (hR : R ≤ maxNesting) (init : TimeUnit) (fs : List (Int × TVal)) (bs : List UInt8)
    (henc : Enc (.val (.struct fs)) bs) (hok : ∀ f ∈ fs, okT (tblTimeUnit R) R f.1 f.2) :
    Reads (R + 1) (parseStruct (timeUnitBody Cfg.fixed) init) bs (ofFields (tblTimeUnit R) init fs) := by
  refine parse_by_table (tblTimeUnit R) (timeUnitBody Cfg.fixed) R hR ?_ ?_ _ fs bs henc hok
  · intro e he
    simp only [tblTimeUnit, List.mem_cons, List.not_mem_nil, or_false] at he
    rcases he with rfl | rfl | rfl
    · apply entry_skipWith _ _ _ hR; intro _ _ _ _; rfl
    · apply entry_skipWith _ _ _ hR; intro _ _ _ _; rfl
    · apply entry_skipWith _ _ _ hR; intro _ _ _ _; rfl
  · intro id hid ty d s _
    simp [tblTimeUnit] at hid
    simp [timeUnitBody, hid]

/-- acceptable TimeUnit union value -/
def okTimeUnit (R : Nat) (fs : List (Int × TVal)) : Prop := ∀ f ∈ fs, okT (tblTimeUnit R) R f.1 f.2

def tblTime (R : Nat) : Table (Bool × TimeUnit) :=
  [(1, semBool (fun s x => (x, s.2))),
   (2, semStructS (okTimeUnit R) (fun s fs => ofFields (tblTimeUnit R) s.2 fs) (fun s u => (s.1, u)))]

theorem parseTime_reads (R : Nat) (hR : R + 1 ≤ maxNesting) (fs : List (Int × TVal)) (bs : List UInt8)
    (henc : Enc (.val (.struct fs)) bs) (hok : ∀ f ∈ fs, okT (tblTime R) (R + 1) f.1 f.2) :
    Reads (R + 2) (parseStruct (timeBody Cfg.fixed) (false, .millis)) bs (ofFields (tblTime R) (false, .millis) fs) := by
  refine parse_by_table (tblTime R) (timeBody Cfg.fixed) (R + 1) hR ?_ ?_ _ fs bs henc hok
  · intro e he
    simp only [tblTime, List.mem_cons, List.not_mem_nil, or_false] at he
    rcases he with rfl | rfl
    · apply entry_bool; intro _ _ _ _; rfl
    · apply entry_structS _ _ _ _ (fun s d => parseStruct (timeUnitBody Cfg.fixed) s.2 d)
      · intro s fs' bs' he' hok'
        exact parseTimeUnit_reads R (by omega) s.2 fs' bs' he' hok'
      · intro _ _ _ _; rfl
  · intro id hid ty d s _
    simp [tblTime] at hid
    simp [timeBody, hid]

def okFields {σ : Type} (tbl : Table σ) (R : Nat) (fs : List (Int × TVal)) : Prop := ∀ f ∈ fs, okT tbl R f.1 f.2

def tblLogical (R : Nat) : Table (LogicalType × Bool) :=
  [(1, semSkip (R + 2) (fun s => memberState s .string)),
   (2, semSkip (R + 2) (fun s => memberState s .map)),
   (3, semSkip (R + 2) (fun s => memberState s .list)),
   (4, semSkip (R + 2) (fun s => memberState s .enum)),
   (5, semStruct (okFields tblDecimal R) (ofFields tblDecimal (0, 0)) (fun s p => memberState s (.decimal p.1 p.2))),
   (6, semSkip (R + 2) (fun s => memberState s .date)),
   (7, semStruct (okFields (tblTime R) (R + 1)) (ofFields (tblTime R) (false, .millis)) (fun s p => memberState s (.time p.1 p.2))),
   (8, semStruct (okFields (tblTime R) (R + 1)) (ofFields (tblTime R) (false, .millis)) (fun s p => memberState s (.timestamp p.1 p.2))),
   (10, semStruct (okFields tblInteger R) (ofFields tblInteger (0, false)) (fun s p => memberState s (.integer p.1 p.2))),
   (11, semSkip (R + 2) (fun s => memberState s .null)),
   (12, semSkip (R + 2) (fun s => memberState s .json)),
   (13, semSkip (R + 2) (fun s => memberState s .bson)),
   (14, semSkip (R + 2) (fun s => memberState s .uuid)),
   (15, semSkip (R + 2) (fun s => memberState s .float16))]

theorem parseLogicalType_reads (R : Nat) (hR : R + 2 ≤ maxNesting) (fs : List (Int × TVal)) (bs : List UInt8)
    (henc : Enc (.val (.struct fs)) bs) (hok : okFields (tblLogical R) (R + 2) fs) :
    Reads (R + 3) (parseLogicalType Cfg.fixed) bs (ofFields (tblLogical R) (.unknown, false) fs) := by
  refine parse_by_table (tblLogical R) (logicalBody Cfg.fixed) (R + 2) hR ?_ ?_ _ fs bs henc hok
  · intro e he
    simp only [tblLogical, List.mem_cons, List.not_mem_nil, or_false] at he
    rcases he with rfl | rfl | rfl | rfl | rfl | rfl | rfl | rfl | rfl | rfl | rfl | rfl | rfl | rfl
    · apply entry_skipWith _ _ _ hR; intro _ _ _ _; rfl
    · apply entry_skipWith _ _ _ hR; intro _ _ _ _; rfl
    · apply entry_skipWith _ _ _ hR; intro _ _ _ _; rfl
    · apply entry_skipWith _ _ _ hR; intro _ _ _ _; rfl
    · apply entry_struct _ _ _ _ (parseStruct (decimalBody Cfg.fixed) (0, 0))
      · intro fs' bs' he' hok'
        exact (parseDecimal_reads R (by omega) fs' bs' he' hok').weaken (by omega)
      · intro _ _ _ _; rfl
    · apply entry_skipWith _ _ _ hR; intro _ _ _ _; rfl
    · apply entry_struct _ _ _ _ (parseStruct (timeBody Cfg.fixed) (false, .millis))
      · intro fs' bs' he' hok'
        exact parseTime_reads R (by omega) fs' bs' he' hok'
      · intro _ _ _ _; rfl
    · apply entry_struct _ _ _ _ (parseStruct (timeBody Cfg.fixed) (false, .millis))
      · intro fs' bs' he' hok'
        exact parseTime_reads R (by omega) fs' bs' he' hok'
      · intro _ _ _ _; rfl
    · apply entry_struct _ _ _ _ (parseStruct (integerBody Cfg.fixed) (0, false))
      · intro fs' bs' he' hok'
        exact (parseInteger_reads R (by omega) fs' bs' he' hok').weaken (by omega)
      · intro _ _ _ _; rfl
    · apply entry_skipWith _ _ _ hR; intro _ _ _ _; rfl
    · apply entry_skipWith _ _ _ hR; intro _ _ _ _; rfl
    · apply entry_skipWith _ _ _ hR; intro _ _ _ _; rfl
    · apply entry_skipWith _ _ _ hR; intro _ _ _ _; rfl
    · apply entry_skipWith _ _ _ hR; intro _ _ _ _; rfl
  · intro id hid ty d s _
    simp [tblLogical] at hid
    simp [logicalBody, hid]

/-! ### SchemaElement -/

/-- a LogicalType union value with at most one member, so that no C-union overlay happens -/
def okLogical (R : Nat) (fs : List (Int × TVal)) : Prop :=
  okFields (tblLogical R) (R + 2) fs ∧ (ofFields (tblLogical R) (.unknown, false) fs).2 = false

def tblSchema (R : Nat) : Table SchemaElement :=
  [(1, semI32 (fun s x => { s with type := some x })),
   (2, semI32 (fun s x => { s with typeLength := x })),
   (3, semI32 (fun s x => { s with repetition := some x })),
   (4, semStr (fun s x => { s with name := x })),
   (5, semI32 (fun s x => { s with numChildren := x })),
   (6, semI32 (fun s x => { s with convertedType := some x })),
   (7, semI32 (fun s x => { s with scale := x })),
   (8, semI32 (fun s x => { s with precision := x })),
   (9, semI32 (fun s x => { s with fieldId := some x })),
   (10, semStruct (okLogical R) (fun fs => (ofFields (tblLogical R) (.unknown, false) fs).1)
          (fun s lt => { s with logicalType := some lt }))]

theorem parseSchemaElement_reads (R : Nat) (hR : R + 3 ≤ maxNesting) (fs : List (Int × TVal)) (bs : List UInt8)
    (henc : Enc (.val (.struct fs)) bs) (hok : okFields (tblSchema R) (R + 3) fs) :
    Reads (R + 4) (parseSchemaElement Cfg.fixed) bs (ofFields (tblSchema R) {} fs) := by
  refine parse_by_table (tblSchema R) (schemaElementBody Cfg.fixed) (R + 3) hR ?_ ?_ {} fs bs henc hok
  · intro e he
    simp only [tblSchema, List.mem_cons, List.not_mem_nil, or_false] at he
    rcases he with rfl | rfl | rfl | rfl | rfl | rfl | rfl | rfl | rfl | rfl
    · apply entry_i32; intro _ _ _ _; rfl
    · apply entry_i32; intro _ _ _ _; rfl
    · apply entry_i32; intro _ _ _ _; rfl
    · apply entry_str; intro _ _ _ _; rfl
    · apply entry_i32; intro _ _ _ _; rfl
    · apply entry_i32; intro _ _ _ _; rfl
    · apply entry_i32; intro _ _ _ _; rfl
    · apply entry_i32; intro _ _ _ _; rfl
    · apply entry_i32; intro _ _ _ _; rfl
    · -- logicalType: the ghost flag stays clear because the union has one member
      refine ⟨?_, ?_⟩
      · rintro b ⟨fs', h, _⟩
        cases h
      rintro v _ ⟨fs', rfl, hok', hclash⟩ b2 hb2 s _ d r hd
      obtain ⟨bv, h⟩ := parseLogicalType_reads R (by omega) fs' b2 hb2 hok' d r hd
      refine ⟨bv, ?_⟩
      show schemaElementBody Cfg.fixed _ 10 d s = _
      have e : schemaElementBody Cfg.fixed (TVal.struct fs').ty.code 10 d s =
          ({ s with logicalType := some (parseLogicalType Cfg.fixed d).1.1 },
            noteOverlay (parseLogicalType Cfg.fixed d).1.2 (parseLogicalType Cfg.fixed d).2) := rfl
      rw [e, h]
      simp only [hclash, noteOverlay, Bool.false_eq_true, if_false]
      rfl
  · intro id hid ty d s _
    simp [tblSchema] at hid
    simp [schemaElementBody, hid]

/-! ### ColumnMetaData, ColumnChunk, RowGroup -/

def isI32V (v : TVal) : Prop := ∃ x, v = .i32 x
def isBinV (v : TVal) : Prop := ∃ b, v = .binary b
def isStructOf {σ : Type} (tbl : Table σ) (R : Nat) (v : TVal) : Prop := ∃ fs, v = .struct fs ∧ okFields tbl R fs

def tblColumnMeta (R : Nat) : Table ColumnMetaData :=
  [(1, semI32 (fun s x => { s with type := x })),
   (2, semList maxEncodings isI32V asInt (fun s xs => { s with encodings := xs })),
   (3, semList maxPathElements isBinV (fun v => cstr (asBin v)) (fun s xs => { s with pathInSchema := xs })),
   (4, semI32 (fun s x => { s with codec := x })),
   (5, semI64 (fun s x => { s with numValues := x })),
   (6, semI64 (fun s x => { s with totalUncompressedSize := x })),
   (7, semI64 (fun s x => { s with totalCompressedSize := x })),
   (8, semList maxKeyValuePairs (isStructOf tblKV R) (fun v => ofFields tblKV {} (asFields v))
         (fun s xs => { s with keyValueMetadata := xs })),
   (9, semI64 (fun s x => { s with dataPageOffset := x })),
   (10, semI64 (fun s x => { s with indexPageOffset := some x })),
   (11, semI64 (fun s x => { s with dictionaryPageOffset := some x })),
   (12, semStruct (okFields tblStats R) (ofFields tblStats {}) (fun s x => { s with statistics := some x })),
   (13, semList maxEncodingStats (isStructOf tblPES R) (fun v => ofFields tblPES {} (asFields v))
         (fun s xs => { s with encodingStats := xs })),
   (14, semI64 (fun s x => { s with bloomFilterOffset := some x })),
   (15, semI32 (fun s x => { s with bloomFilterLength := some x }))]

theorem parseColumnMetaData_reads (R : Nat) (hR : R + 1 ≤ maxNesting) (fs : List (Int × TVal)) (bs : List UInt8)
    (henc : Enc (.val (.struct fs)) bs) (hok : okFields (tblColumnMeta R) (R + 1) fs) :
    Reads (R + 2) (parseColumnMetaData Cfg.fixed) bs (ofFields (tblColumnMeta R) {} fs) := by
  refine parse_by_table (tblColumnMeta R) (columnMetaDataBody Cfg.fixed) (R + 1) hR ?_ ?_ {} fs bs henc hok
  · intro e he
    simp only [tblColumnMeta, List.mem_cons, List.not_mem_nil, or_false] at he
    rcases he with rfl | rfl | rfl | rfl | rfl | rfl | rfl | rfl | rfl | rfl | rfl | rfl | rfl | rfl | rfl
    · apply entry_i32; intro _ _ _ _; rfl
    · apply entry_list _ _ _ _ maxEncodings readI32
      · rintro x ⟨n, rfl⟩; exact reads_enc_i32 n _
      · intro _ _ _ _; rfl
    · apply entry_list _ _ _ _ maxPathElements strdupBytes
      · rintro x ⟨n, rfl⟩; exact reads_enc_strdupBytes n _
      · intro _ _ _ _; rfl
    · apply entry_i32; intro _ _ _ _; rfl
    · apply entry_i64; intro _ _ _ _; rfl
    · apply entry_i64; intro _ _ _ _; rfl
    · apply entry_i64; intro _ _ _ _; rfl
    · apply entry_list _ _ _ _ maxKeyValuePairs (parseKeyValue Cfg.fixed)
      · rintro x ⟨fs', rfl, hok'⟩ b hb; exact parseKeyValue_reads R (by omega) fs' b hb hok'
      · intro _ _ _ _; rfl
    · apply entry_i64; intro _ _ _ _; rfl
    · apply entry_i64; intro _ _ _ _; rfl
    · apply entry_i64; intro _ _ _ _; rfl
    · apply entry_struct _ _ _ _ (parseStatistics Cfg.fixed)
      · intro fs' bs' he' hok'; exact parseStatistics_reads R (by omega) fs' bs' he' hok'
      · intro _ _ _ _; rfl
    · apply entry_list _ _ _ _ maxEncodingStats (parseEncodingStats Cfg.fixed)
      · rintro x ⟨fs', rfl, hok'⟩ b hb; exact parseEncodingStats_reads R (by omega) fs' b hb hok'
      · intro _ _ _ _; rfl
    · apply entry_i64; intro _ _ _ _; rfl
    · apply entry_i32; intro _ _ _ _; rfl
  · intro id hid ty d s _
    simp [tblColumnMeta] at hid
    simp [columnMetaDataBody, hid]

def tblColumnChunk (R : Nat) : Table ColumnChunk :=
  [(1, semStr (fun s x => { s with filePath := x })),
   (2, semI64 (fun s x => { s with fileOffset := x })),
   (3, semStruct (okFields (tblColumnMeta R) (R + 1)) (ofFields (tblColumnMeta R) {}) (fun s x => { s with metaData := some x })),
   (4, semI64 (fun s x => { s with offsetIndexOffset := some x })),
   (5, semI32 (fun s x => { s with offsetIndexLength := some x })),
   (6, semI64 (fun s x => { s with columnIndexOffset := some x })),
   (7, semI32 (fun s x => { s with columnIndexLength := some x }))]

theorem parseColumnChunk_reads (R : Nat) (hR : R + 2 ≤ maxNesting) (fs : List (Int × TVal)) (bs : List UInt8)
    (henc : Enc (.val (.struct fs)) bs) (hok : okFields (tblColumnChunk R) (R + 2) fs) :
    Reads (R + 3) (parseColumnChunk Cfg.fixed) bs (ofFields (tblColumnChunk R) {} fs) := by
  refine parse_by_table (tblColumnChunk R) (columnChunkBody Cfg.fixed) (R + 2) hR ?_ ?_ {} fs bs henc hok
  · intro e he
    simp only [tblColumnChunk, List.mem_cons, List.not_mem_nil, or_false] at he
    rcases he with rfl | rfl | rfl | rfl | rfl | rfl | rfl
    · apply entry_str; intro _ _ _ _; rfl
    · apply entry_i64; intro _ _ _ _; rfl
    · apply entry_struct _ _ _ _ (parseColumnMetaData Cfg.fixed)
      · intro fs' bs' he' hok'; exact parseColumnMetaData_reads R (by omega) fs' bs' he' hok'
      · intro _ _ _ _; rfl
    · apply entry_i64; intro _ _ _ _; rfl
    · apply entry_i32; intro _ _ _ _; rfl
    · apply entry_i64; intro _ _ _ _; rfl
    · apply entry_i32; intro _ _ _ _; rfl
  · intro id hid ty d s _
    simp [tblColumnChunk] at hid
    simp [columnChunkBody, hid]

def tblRowGroup (R : Nat) : Table RowGroup :=
  [(1, semList maxColumnsPerRg (isStructOf (tblColumnChunk R) (R + 2)) (fun v => ofFields (tblColumnChunk R) {} (asFields v))
         (fun s xs => { s with columns := xs })),
   (2, semI64 (fun s x => { s with totalByteSize := x })),
   (3, semI64 (fun s x => { s with numRows := x })),
   (4, semSkip (R + 3) (fun s => s)),
   (5, semI64 (fun s x => { s with fileOffset := some x })),
   (6, semI64 (fun s x => { s with totalCompressedSize := some x })),
   (7, semI16 (fun s x => { s with ordinal := some x }))]

theorem parseRowGroup_reads (R : Nat) (hR : R + 3 ≤ maxNesting) (fs : List (Int × TVal)) (bs : List UInt8)
    (henc : Enc (.val (.struct fs)) bs) (hok : okFields (tblRowGroup R) (R + 3) fs) :
    Reads (R + 4) (parseRowGroup Cfg.fixed) bs (ofFields (tblRowGroup R) {} fs) := by
  refine parse_by_table (tblRowGroup R) (rowGroupBody Cfg.fixed) (R + 3) hR ?_ ?_ {} fs bs henc hok
  · intro e he
    simp only [tblRowGroup, List.mem_cons, List.not_mem_nil, or_false] at he
    rcases he with rfl | rfl | rfl | rfl | rfl | rfl | rfl
    · apply entry_list _ _ _ _ maxColumnsPerRg (parseColumnChunk Cfg.fixed)
      · rintro x ⟨fs', rfl, hok'⟩ b hb; exact parseColumnChunk_reads R (by omega) fs' b hb hok'
      · intro _ _ _ _; rfl
    · apply entry_i64; intro _ _ _ _; rfl
    · apply entry_i64; intro _ _ _ _; rfl
    · apply entry_skipWith _ _ _ hR; intro _ _ _ _; rfl
    · apply entry_i64; intro _ _ _ _; rfl
    · apply entry_i64; intro _ _ _ _; rfl
    · apply entry_i16; intro _ _ _ _; rfl
  · intro id hid ty d s _
    simp [tblRowGroup] at hid
    simp [rowGroupBody, hid]

/-! ### page header members -/

def tblDataPage (R : Nat) : Table DataPageHeader :=
  [(1, semI32 (fun s x => { s with numValues := x })),
   (2, semI32 (fun s x => { s with encoding := x })),
   (3, semI32 (fun s x => { s with definitionLevelEncoding := x })),
   (4, semI32 (fun s x => { s with repetitionLevelEncoding := x })),
   (5, semStruct (okFields tblStats R) (ofFields tblStats {}) (fun s x => { s with statistics := some x }))]

theorem parseDataPage_reads (R : Nat) (hR : R + 1 ≤ maxNesting) (init : DataPageHeader) (fs : List (Int × TVal)) (bs : List UInt8)
    (henc : Enc (.val (.struct fs)) bs) (hok : okFields (tblDataPage R) (R + 1) fs) :
    Reads (R + 2) (parseStruct (dataPageHeaderBody Cfg.fixed) init) bs (ofFields (tblDataPage R) init fs) := by
  refine parse_by_table (tblDataPage R) (dataPageHeaderBody Cfg.fixed) (R + 1) hR ?_ ?_ init fs bs henc hok
  · intro e he
    simp only [tblDataPage, List.mem_cons, List.not_mem_nil, or_false] at he
    rcases he with rfl | rfl | rfl | rfl | rfl
    · apply entry_i32; intro _ _ _ _; rfl
    · apply entry_i32; intro _ _ _ _; rfl
    · apply entry_i32; intro _ _ _ _; rfl
    · apply entry_i32; intro _ _ _ _; rfl
    · apply entry_struct _ _ _ _ (parseStatistics Cfg.fixed)
      · intro fs' bs' he' hok'; exact parseStatistics_reads R (by omega) fs' bs' he' hok'
      · intro _ _ _ _; rfl
  · intro id hid ty d s _
    simp [tblDataPage] at hid
    simp [dataPageHeaderBody, hid]

def tblDataPageV2 (R : Nat) : Table DataPageHeaderV2 :=
  [(1, semI32 (fun s x => { s with numValues := x })),
   (2, semI32 (fun s x => { s with numNulls := x })),
   (3, semI32 (fun s x => { s with numRows := x })),
   (4, semI32 (fun s x => { s with encoding := x })),
   (5, semI32 (fun s x => { s with definitionLevelsByteLength := x })),
   (6, semI32 (fun s x => { s with repetitionLevelsByteLength := x })),
   (7, semBool (fun s x => { s with isCompressed := x })),
   (8, semStruct (okFields tblStats R) (ofFields tblStats {}) (fun s x => { s with statistics := some x }))]

theorem parseDataPageV2_reads (R : Nat) (hR : R + 1 ≤ maxNesting) (init : DataPageHeaderV2) (fs : List (Int × TVal)) (bs : List UInt8)
    (henc : Enc (.val (.struct fs)) bs) (hok : okFields (tblDataPageV2 R) (R + 1) fs) :
    Reads (R + 2) (parseStruct (dataPageHeaderV2Body Cfg.fixed) init) bs (ofFields (tblDataPageV2 R) init fs) := by
  refine parse_by_table (tblDataPageV2 R) (dataPageHeaderV2Body Cfg.fixed) (R + 1) hR ?_ ?_ init fs bs henc hok
  · intro e he
    simp only [tblDataPageV2, List.mem_cons, List.not_mem_nil, or_false] at he
    rcases he with rfl | rfl | rfl | rfl | rfl | rfl | rfl | rfl
    · apply entry_i32; intro _ _ _ _; rfl
    · apply entry_i32; intro _ _ _ _; rfl
    · apply entry_i32; intro _ _ _ _; rfl
    · apply entry_i32; intro _ _ _ _; rfl
    · apply entry_i32; intro _ _ _ _; rfl
    · apply entry_i32; intro _ _ _ _; rfl
    · apply entry_bool; intro _ _ _ _; rfl
    · apply entry_struct _ _ _ _ (parseStatistics Cfg.fixed)
      · intro fs' bs' he' hok'; exact parseStatistics_reads R (by omega) fs' bs' he' hok'
      · intro _ _ _ _; rfl
  · intro id hid ty d s _
    simp [tblDataPageV2] at hid
    simp [dataPageHeaderV2Body, hid]

def tblDictPage : Table DictionaryPageHeader :=
  [(1, semI32 (fun s x => { s with numValues := x })),
   (2, semI32 (fun s x => { s with encoding := x })),
   (3, semBool (fun s x => { s with isSorted := x }))]

theorem parseDictPage_reads (R : Nat) (hR : R ≤ maxNesting) (init : DictionaryPageHeader) (fs : List (Int × TVal)) (bs : List UInt8)
    (henc : Enc (.val (.struct fs)) bs) (hok : okFields tblDictPage R fs) :
    Reads (R + 1) (parseStruct (dictionaryPageHeaderBody Cfg.fixed) init) bs (ofFields tblDictPage init fs) := by
  refine parse_by_table tblDictPage (dictionaryPageHeaderBody Cfg.fixed) R hR ?_ ?_ init fs bs henc hok
  · intro e he
    simp only [tblDictPage, List.mem_cons, List.not_mem_nil, or_false] at he
    rcases he with rfl | rfl | rfl
    · apply entry_i32; intro _ _ _ _; rfl
    · apply entry_i32; intro _ _ _ _; rfl
    · apply entry_bool; intro _ _ _ _; rfl
  · intro id hid ty d s _
    simp [tblDictPage] at hid
    simp [dictionaryPageHeaderBody, hid]

end Carquet.Proofs.Thrift
