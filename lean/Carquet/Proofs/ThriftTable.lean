import Carquet.Proofs.ThriftParse
/-
A struct parser of parquet_types.c, seen from the Thrift value: a table `id ↦ (shape, update)`.
`parse_by_table`: if every table entry's handler reads values of its shape and every other id
is skipped, the parser maps any admitted encoding of a struct whose fields are acceptable
(`okT`) to the fold of the updates (`ofFields`).
-/
namespace Carquet.Proofs.Thrift
open Carquet.Spec.Thrift
open Carquet.Impl.Thrift
open Carquet.Impl.ThriftParquet

/-- what a handler does with its field's value: which values it can read, and the update -/
structure FieldSem (σ : Type) where
  shape : TVal → Prop
  upd : σ → TVal → σ

abbrev Table (σ : Type) := List (Int × FieldSem σ)

def lookupT {σ : Type} (tbl : Table σ) (id : Int) : Option (FieldSem σ) :=
  match tbl with
  | [] => none
  | (k, f) :: r => if id = k then some f else lookupT r id

/-- the parser's effect on the loop state of one field -/
def stepT {σ : Type} (tbl : Table σ) (s : σ) (id : Int) (v : TVal) : σ :=
  match lookupT tbl id with
  | some f => f.upd s v
  | none => s

/-- a field the parser handles as the writer meant: a known id carries a value of its shape, an
unknown id any value nested at most `R` deep -/
def okT {σ : Type} (tbl : Table σ) (R : Nat) (id : Int) (v : TVal) : Prop :=
  match lookupT tbl id with
  | some f => f.shape v
  | none => v.depth ≤ R

/-- the value a parser produces from a field list -/
def ofFields {σ : Type} (tbl : Table σ) (init : σ) (fs : List (Int × TVal)) : σ :=
  fs.foldl (fun s f => stepT tbl s f.1 f.2) init

/-- the handler of table entry `(id, f)` honours its contract -/
def EntryOK {σ : Type} (Inv : σ → Prop) (body : Nat → Int → Dec → σ → σ × Dec) (k : Nat) (e : Int × FieldSem σ) : Prop :=
  (∀ b, e.2.shape (.bool b) → BoolFieldOK Inv body (fun s _ v => e.2.upd s v) k e.1 b) ∧
  (∀ v, v.ty ≠ .bool → e.2.shape v → ValFieldOK Inv body (fun s _ v => e.2.upd s v) k e.1 v)

theorem lookupT_mem {σ : Type} (tbl : Table σ) (id : Int) (f : FieldSem σ) (h : lookupT tbl id = some f) : (id, f) ∈ tbl := by
  induction tbl with
  | nil => simp [lookupT] at h
  | cons e r ih =>
    obtain ⟨k, g⟩ := e
    simp only [lookupT] at h
    by_cases hk : id = k
    · simp only [hk, if_true, Option.some.injEq] at h; subst h; subst hk; exact List.mem_cons_self
    · simp only [hk, if_false] at h; exact List.mem_cons_of_mem _ (ih h)

theorem lookupT_none {σ : Type} (tbl : Table σ) (id : Int) (h : lookupT tbl id = none) : id ∉ tbl.map (·.1) := by
  induction tbl with
  | nil => simp
  | cons e r ih =>
    obtain ⟨k, g⟩ := e
    simp only [lookupT] at h
    by_cases hk : id = k
    · simp [hk] at h
    · simp only [hk, if_false] at h
      simp only [List.map_cons, List.mem_cons, not_or]
      exact ⟨hk, ih h⟩

/-- **a table-described struct parser reads every acceptable encoding** -/
theorem loop_by_table {σ : Type} (stop : σ → Bool) (Inv : σ → Prop) (hstop : ∀ s, Inv s → stop s = false)
    (tbl : Table σ) (hinv : ∀ e ∈ tbl, ∀ s v, Inv s → Inv (e.2.upd s v))
    (body : Nat → Int → Dec → σ → σ × Dec) (R : Nat) (hR : R ≤ maxNesting)
    (hentries : ∀ e ∈ tbl, EntryOK Inv body R e)
    (hunknown : ∀ id, id ∉ tbl.map (·.1) → ∀ ty d s, d.status = none → body ty id d s = (s, skipField Cfg.fixed ty d))
    (fs : List (Int × TVal)) (hok : ∀ f ∈ fs, okT tbl R f.1 f.2) :
    (∀ s id v, Inv s → Inv (stepT tbl s id v)) ∧
    (∀ id b, (id, TVal.bool b) ∈ fs → BoolFieldOK Inv body (stepT tbl) R id b) ∧
    (∀ id v, (id, v) ∈ fs → v.ty ≠ .bool → ValFieldOK Inv body (stepT tbl) R id v) := by
  refine ⟨?_, ?_, ?_⟩
  · intro s id v hs
    unfold stepT
    cases hl : lookupT tbl id with
    | none => exact hs
    | some f => exact hinv _ (lookupT_mem tbl id f hl) s v hs
  · intro id b hm
    have h := hok _ hm
    unfold okT at h
    cases hl : lookupT tbl id with
    | some f =>
      rw [hl] at h
      have he := (hentries _ (lookupT_mem tbl id f hl)).1 b h
      intro d s hi hs hp hv hroom hbud
      obtain ⟨bv, hb⟩ := he d s hi hs hp hv hroom hbud
      exact ⟨bv, by rw [hb]; simp [stepT, hl]⟩
    | none =>
      have hu := hunknown id (lookupT_none tbl id hl)
      intro d s hi hs hp hv hroom hbud
      refine ⟨d.boolValue, ?_⟩
      rw [hu _ d s hs]
      have : stepT tbl s id (.bool b) = s := by simp [stepT, hl]
      rw [this]
      unfold skipField stackBudget
      cases b
      · simp only [fieldCode]; rw [skip_2 _ _ _ hs]
      · simp only [fieldCode]; rw [skip_1 _ _ _ hs]
  · intro id v hm hnb
    have h := hok _ hm
    unfold okT at h
    cases hl : lookupT tbl id with
    | some f =>
      rw [hl] at h
      have he := (hentries _ (lookupT_mem tbl id f hl)).2 v hnb h
      intro b2 hb2 s hi d r hd
      obtain ⟨bv, hb⟩ := he b2 hb2 s hi d r hd
      exact ⟨bv, by rw [hb]; simp [stepT, hl]⟩
    | none =>
      rw [hl] at h
      have hu := hunknown id (lookupT_none tbl id hl)
      intro b2 hb2 s _ d r hd
      obtain ⟨bv, hsk⟩ := (skip_consumes v hnb b2 hb2 stackBudget
        (Nat.lt_of_le_of_lt h (stackBudget_big R hR))).weaken h d r hd
      refine ⟨bv, ?_⟩
      show body v.ty.code id d s = _
      simp only [Prod.mk.injEq, true_and] at hsk
      rw [hu _ d s hd.ok]
      have : stepT tbl s id v = s := by simp [stepT, hl]
      rw [this]
      unfold skipField
      rw [hsk]

/-- nested struct parsers (`parseStruct`) -/
theorem parse_by_table {σ : Type} (tbl : Table σ) (body : Nat → Int → Dec → σ → σ × Dec) (R : Nat) (hR : R ≤ maxNesting)
    (hentries : ∀ e ∈ tbl, EntryOK (fun _ => True) body R e)
    (hunknown : ∀ id, id ∉ tbl.map (·.1) → ∀ ty d s, d.status = none → body ty id d s = (s, skipField Cfg.fixed ty d))
    (init : σ) (fs : List (Int × TVal)) (bs : List UInt8) (henc : Enc (.val (.struct fs)) bs)
    (hok : ∀ f ∈ fs, okT tbl R f.1 f.2) :
    Reads (R + 1) (parseStruct body init) bs (ofFields tbl init fs) := by
  obtain ⟨_, hb, hv⟩ := loop_by_table (fun _ => false) (fun _ => True) (fun _ _ => rfl) tbl (fun _ _ _ _ _ => trivial)
    body R hR hentries hunknown fs hok
  exact parseStruct_reads body (stepT tbl) R init fs bs henc hb hv

/-! ### entries -/

variable {σ : Type}

def semI8 (set : σ → Int → σ) : FieldSem σ := ⟨fun v => ∃ x, v = .i8 x, fun s v => set s (asInt v)⟩
def semI16 (set : σ → Int → σ) : FieldSem σ := ⟨fun v => ∃ x, v = .i16 x, fun s v => set s (asInt v)⟩
def semI32 (set : σ → Int → σ) : FieldSem σ := ⟨fun v => ∃ x, v = .i32 x, fun s v => set s (asInt v)⟩
def semI64 (set : σ → Int → σ) : FieldSem σ := ⟨fun v => ∃ x, v = .i64 x, fun s v => set s (asInt v)⟩
def semBool (set : σ → Bool → σ) : FieldSem σ := ⟨fun v => ∃ b, v = .bool b, fun s v => set s (asBool v)⟩
def semBin (set : σ → Bytes → σ) : FieldSem σ := ⟨fun v => ∃ b, v = .binary b, fun s v => set s (asBin v)⟩
/-- a string member: stored as the C string the bytes denote (cut at the first NUL) -/
def semStr (set : σ → Option Bytes → σ) : FieldSem σ := ⟨fun v => ∃ b, v = .binary b, fun s v => set s (some (cstr (asBin v)))⟩

/-- entry read by `rd`, for the values of a non-bool shape -/
theorem entry_of_reads {α : Type} (Inv : σ → Prop) (body : Nat → Int → Dec → σ → σ × Dec) (k : Nat) (id : Int)
    (sem : FieldSem σ) (rd : Dec → α × Dec) (set : σ → α → σ) (conv : TVal → α)
    (hnb : ∀ b, ¬ sem.shape (.bool b))
    (hbody : ∀ ty d s, d.status = none → body ty id d s = (set s (rd d).1, (rd d).2))
    (hupd : ∀ s v, sem.shape v → sem.upd s v = set s (conv v))
    (hreads : ∀ v, sem.shape v → ∀ b2, Enc (.val v) b2 → Reads k rd b2 (conv v)) : EntryOK Inv body k (id, sem) := by
  refine ⟨fun b hb => absurd hb (hnb b), ?_⟩
  intro v _ hsh b2 hb2 s _ d r hd
  obtain ⟨bv, h⟩ := hreads v hsh b2 hb2 d r hd
  exact ⟨bv, by show body v.ty.code id d s = _; rw [hbody _ _ _ hd.ok, h]; simp [hupd s v hsh]⟩

theorem entry_i8 (Inv : σ → Prop) (body : Nat → Int → Dec → σ → σ × Dec) (k : Nat) (id : Int) (set : σ → Int → σ)
    (hbody : ∀ ty d s, d.status = none → body ty id d s = (set s (readI8 d).1, (readI8 d).2)) :
    EntryOK Inv body k (id, semI8 set) :=
  entry_of_reads Inv body k id _ readI8 set asInt (by rintro b ⟨x, h⟩; cases h) hbody (fun _ _ _ => rfl)
    (by rintro v ⟨x, rfl⟩; exact reads_enc_i8 x k)
theorem entry_i16 (Inv : σ → Prop) (body : Nat → Int → Dec → σ → σ × Dec) (k : Nat) (id : Int) (set : σ → Int → σ)
    (hbody : ∀ ty d s, d.status = none → body ty id d s = (set s (readI16 d).1, (readI16 d).2)) :
    EntryOK Inv body k (id, semI16 set) :=
  entry_of_reads Inv body k id _ readI16 set asInt (by rintro b ⟨x, h⟩; cases h) hbody (fun _ _ _ => rfl)
    (by rintro v ⟨x, rfl⟩; exact reads_enc_i16 x k)
theorem entry_i32 (Inv : σ → Prop) (body : Nat → Int → Dec → σ → σ × Dec) (k : Nat) (id : Int) (set : σ → Int → σ)
    (hbody : ∀ ty d s, d.status = none → body ty id d s = (set s (readI32 d).1, (readI32 d).2)) :
    EntryOK Inv body k (id, semI32 set) :=
  entry_of_reads Inv body k id _ readI32 set asInt (by rintro b ⟨x, h⟩; cases h) hbody (fun _ _ _ => rfl)
    (by rintro v ⟨x, rfl⟩; exact reads_enc_i32 x k)
theorem entry_i64 (Inv : σ → Prop) (body : Nat → Int → Dec → σ → σ × Dec) (k : Nat) (id : Int) (set : σ → Int → σ)
    (hbody : ∀ ty d s, d.status = none → body ty id d s = (set s (readI64 d).1, (readI64 d).2)) :
    EntryOK Inv body k (id, semI64 set) :=
  entry_of_reads Inv body k id _ readI64 set asInt (by rintro b ⟨x, h⟩; cases h) hbody (fun _ _ _ => rfl)
    (by rintro v ⟨x, rfl⟩; exact reads_enc_i64 x k)
theorem entry_bin (Inv : σ → Prop) (body : Nat → Int → Dec → σ → σ × Dec) (k : Nat) (id : Int) (set : σ → Bytes → σ)
    (hbody : ∀ ty d s, d.status = none → body ty id d s = (set s (bindupThrift d).1, (bindupThrift d).2)) :
    EntryOK Inv body k (id, semBin set) :=
  entry_of_reads Inv body k id _ bindupThrift set asBin (by rintro b ⟨x, h⟩; cases h) hbody (fun _ _ _ => rfl)
    (by rintro v ⟨x, rfl⟩; exact reads_enc_bindup x k)
theorem entry_str (Inv : σ → Prop) (body : Nat → Int → Dec → σ → σ × Dec) (k : Nat) (id : Int) (set : σ → Option Bytes → σ)
    (hbody : ∀ ty d s, d.status = none → body ty id d s = (set s (strdupThrift d).1, (strdupThrift d).2)) :
    EntryOK Inv body k (id, semStr set) :=
  entry_of_reads Inv body k id _ strdupThrift set (fun v => some (cstr (asBin v))) (by rintro b ⟨x, h⟩; cases h) hbody
    (fun _ _ _ => rfl) (by rintro v ⟨x, rfl⟩; exact reads_enc_strdup x k)

theorem entry_bool (Inv : σ → Prop) (body : Nat → Int → Dec → σ → σ × Dec) (k : Nat) (id : Int) (set : σ → Bool → σ)
    (hbody : ∀ ty d s, d.status = none → body ty id d s = (set s (readBool d).1, (readBool d).2)) :
    EntryOK Inv body k (id, semBool set) := by
  refine ⟨?_, ?_⟩
  · intro b _ d s _ hs hp hv _ _
    exact ⟨d.boolValue, by rw [hbody _ _ _ hs, readBool_pending d hp, hv]; rfl⟩
  · rintro v hnb ⟨b, rfl⟩
    exact absurd rfl hnb

end Carquet.Proofs.Thrift
