import Carquet.Proofs.ImplReadsWalk
import Carquet.Proofs.ImplReadsFooter
import Carquet.Proofs.ImplReadsSchema
import Carquet.Proofs.RoundtripOpen
/-
C06, implementation half — the whole file: `carquet_reader_open*` (envelope, footer, schema),
`carquet_reader_get_column` for every cell, one complete read per chunk, the loops over columns and row
groups — `Impl.Reader.readAll` on the file of the reference writer returns `readerTableOfSpec t`.
-/
namespace Carquet.Proofs.ImplReads
open Carquet.Spec Carquet.Spec.File Carquet.Spec.Thrift Carquet.Spec.ParquetThrift
open Carquet.Impl
open Carquet.Impl.Reader hiding Bytes
open Carquet.Proofs.SpecFile (ChunkAdm CcDesc RgDesc2 chunkDesc fmFields2 statsFieldsOf LayoutAdm layoutAdm_iff)
open Carquet.Proofs.Cursor (ResOk)
open Carquet.Impl.Reader.Claim (zipWith3)

/-! ### index-wise reading of the decidable claims -/

theorem zipWith3_all {α β γ : Type} (f : α → β → γ → Bool) : ∀ (as : List α) (bs : List β) (cs : List γ),
    (zipWith3 f as bs cs).all id = true →
    ∀ (j : Nat) (a : α) (b : β) (c : γ), as[j]? = some a → bs[j]? = some b → cs[j]? = some c → f a b c = true
  | [], _, _, _, j, a, _, _, h, _, _ => by simp at h
  | _ :: _, [], _, _, j, _, b, _, _, h, _ => by simp at h
  | _ :: _, _ :: _, [], _, j, _, _, c, _, _, h => by simp at h
  | x :: as, y :: bs, z :: cs, hall, j, a, b, c, h1, h2, h3 => by
    simp only [zipWith3, List.all_cons, Bool.and_eq_true, id] at hall
    cases j with
    | zero =>
      simp only [List.getElem?_cons_zero, Option.some.injEq] at h1 h2 h3
      subst h1 h2 h3
      exact hall.1
    | succ j =>
      simp only [List.getElem?_cons_succ] at h1 h2 h3
      exact zipWith3_all f as bs cs hall.2 j a b c h1 h2 h3

theorem zipWith_all {α β : Type} (f : α → β → Bool) : ∀ (as : List α) (bs : List β),
    (List.zipWith f as bs).all id = true → ∀ (i : Nat) (a : α) (b : β), as[i]? = some a → bs[i]? = some b → f a b = true
  | [], _, _, i, a, _, h, _ => by simp at h
  | _ :: _, [], _, i, _, b, _, h => by simp at h
  | x :: as, y :: bs, hall, i, a, b, h1, h2 => by
    simp only [List.zipWith_cons_cons, List.all_cons, Bool.and_eq_true, id] at hall
    cases i with
    | zero =>
      simp only [List.getElem?_cons_zero, Option.some.injEq] at h1 h2
      subst h1 h2
      exact hall.1
    | succ i =>
      simp only [List.getElem?_cons_succ] at h1 h2
      exact zipWith_all f as bs hall.2 i a b h1 h2

/-- the per-chunk claim, from the decidable one -/
theorem chunkClaim_of (mode : Mode) (leaf : LeafInfo) (cl : ChunkLayout) (es : Chunk) (hadm : ChunkAdm cl)
    (hflba : leaf.ptype = .flba → 0 < leaf.typeLength)
    (h : chunkClaimed (decide (mode = .fread)) leaf cl es = true) :
    ChunkClaim mode leaf cl es ∧ leaf.path.length ≤ 100 ∧ (usedEncodings cl).length ≤ 100 := by
  unfold Carquet.Impl.Reader.Claim.chunkClaimed at h
  simp only [Bool.and_eq_true, decide_eq_true_eq, Bool.or_eq_true, Bool.not_eq_true', decide_eq_false_iff_not] at h
  obtain ⟨⟨⟨⟨⟨⟨h1, h3⟩, h4⟩, h5⟩, h6⟩, h7⟩, h8⟩ := h
  refine ⟨⟨hadm, h1, ?_, ⟨hflba, h4, h5⟩, ?_⟩, h6, h7⟩
  · intro hd
    rcases h3 with h3 | h3
    · cases hdd : cl.dict with
      | none => rw [hdd] at hd; cases hd
      | some x => rw [hdd] at h3; cases h3
    · simpa using h3
  · intro hm
    rcases h8 with h8 | h8
    · exact absurd hm h8
    · exact h8

/-! ### get_column -/

theorem getColumn_written (o : Opened) (gs : List RgDesc2) (els : List Schema.Element)
    (hrg : o.md.rowGroups = gs.map implRG) (hsch : o.md.schema = els.map implSE)
    (i j : Nat) (rd : RgDesc2) (d : CcDesc) (lf : Schema.Leaf) (leaf : LeafInfo)
    (hi : gs[i]? = some rd) (hj : rd.chunks[j]? = some d) (hlf : o.leaves[j]? = some lf)
    (hmd : lf.maxDef = leaf.maxDef) (hmr : lf.maxRep = leaf.maxRep)
    (hel : ∃ el, (els.map implSE)[lf.elemIdx]? = some el ∧ el.type = some (ptypeCode leaf.ptype : Int) ∧
      el.typeLength = (leaf.typeLength : Int) ∧ (leaf.ptype = .flba → 0 < leaf.typeLength))
    (hpt : d.m.ptype = ptypeCode leaf.ptype) :
    getColumn o (i : Int) (j : Int) = .ok (colOfLeaf leaf (implCM d.m d.stats)) := by
  obtain ⟨el, hel1, hel2, hel3, hel4⟩ := hel
  have hilt : i < gs.length := by
    apply Classical.byContradiction; intro h
    rw [List.getElem?_eq_none (by omega)] at hi; cases hi
  have hjlt : j < o.leaves.length := by
    apply Classical.byContradiction; intro h
    rw [List.getElem?_eq_none (by omega)] at hlf; cases hlf
  have hjlt2 : j < rd.chunks.length := by
    apply Classical.byContradiction; intro h
    rw [List.getElem?_eq_none (by omega)] at hj; cases hj
  have hg : o.md.rowGroups[i]? = some (implRG rd) := by rw [hrg, List.getElem?_map, hi]; rfl
  have hch : (implRG rd).columns[j]? = some (implCC d) := by simp only [implRG, List.getElem?_map, hj]; rfl
  unfold getColumn
  rw [if_neg (by rw [hrg, List.length_map]; omega), if_neg (by omega)]
  simp only [Int.toNat_natCast, hg, hlf]
  rw [if_neg (by simp only [implRG, List.length_map]; omega)]
  simp only [hch, implCC]
  rw [hsch, hel1]
  simp only
  have hmis : chunkMismatch (implCM d.m d.stats) el = false := by
    unfold chunkMismatch
    simp only [hel2, hel3, implCM, hpt, Option.isNone_some, Bool.false_or, ne_eq, not_true_eq_false, decide_false,
      Bool.or_eq_false_iff, Bool.and_eq_false_iff, decide_eq_false_iff_not]
    refine ⟨?_, by omega⟩
    by_cases h7 : (ptypeCode leaf.ptype : Int) = 7
    · right
      have := hel4 (ptypeCode_flba _ h7)
      omega
    · left
      intro h; exact h7 (by simpa using h)
  rw [hmis]
  simp only [Bool.false_eq_true, if_false, colOfLeaf, hmd, hmr, hel3]
  congr 1
  simp [implCM, hpt]

/-! ### one cell -/

/-- **one cell of the file, read completely** by the single `read_batch` of `num_values` entries, with or
without level arrays: every entry comes back -/
theorem cell_read (L : Libs) (verify : Bool) (mode : Mode) (data tail : Bytes) (oracle : Oracle) (leaf : LeafInfo)
    (cl : ChunkLayout) (es : Chunk) (d : CcDesc) (hcell : CellOf data 4 oracle leaf cl es d)
    (hclaim : ChunkClaim mode leaf cl es) (hlen : (File.magic ++ data ++ tail).length < 2 ^ 31) (hes : es.length < 2 ^ 31)
    (hL : LibsDecode L oracle) (htail : 8 ≤ tail.length) (wd wr : Bool) :
    ∃ rows, ResOk wd wr es.length
        (ColumnReader.readBatch ColumnReader.Fixes.all
          (ColumnReader.getColumn (chunkOf Fixes.all L verify mode (File.magic ++ data ++ tail) (colOfLeaf leaf (implCM d.m d.stats))))
          (colOfLeaf leaf (implCM d.m d.stats)).cm.numValues wd wr).2 rows ∧
      rows.map (·.defLevel) = es.map (·.dl) ∧ rows.map (·.repLevel) = es.map (·.rep) ∧
      rows.filterMap (·.val) = es.filterMap (·.val) ∧ rows.length = es.length ∧
      ∀ row ∈ rows, Carquet.Spec.Cursor.Row.WF leaf.maxDef row := by
  obtain ⟨posj, c, a, b, dp, pages, h1, h2, h3, h4, h5, h6, h7⟩ := hcell
  subst h4
  have hfile : File.magic ++ data ++ tail = (File.magic ++ a) ++ c.bytes ++ (b ++ tail) := by
    rw [h2]; simp [List.append_assoc]
  have hml : File.magic.length = 4 := rfl
  rw [hfile] at hlen ⊢
  have hlen' := hlen
  simp only [List.length_append, hml] at hlen'
  refine chunk_read L verify mode leaf cl es posj c _ h1 hclaim ?_ ?_ ?_ ?_ (File.magic ++ a) (b ++ tail) ?_ ?_ ?_ h7 hes ?_ ?_ wd wr
  · simp [implCM, chunkDesc]
  · simp [implCM, chunkDesc]
  · simp only [implCM, chunkDesc]
    cases cl.dict with
    | none => rfl
    | some dl => cases hop : dl.offsetPresent <;> simp [hop]
  · intro hno
    simp only [implCM, chunkDesc]
    cases hd : cl.dict with
    | none => rfl
    | some dl => simp [hno dl hd]
  · simp only [List.length_append, hml]; omega
  · simp only [List.length_append]; omega
  · omega
  · omega
  · exact hL.mono h6

/-! ### the loops -/

theorem take_succ_of_get {α : Type} (l : List α) (n : Nat) (x : α) (h : l[n]? = some x) : l.take (n + 1) = l.take n ++ [x] := by
  rw [List.take_add_one, h]; rfl

theorem getElem?_of_lt {α : Type} (l : List α) (n : Nat) (h : n < l.length) : ∃ x, l[n]? = some x :=
  ⟨l[n], List.getElem?_eq_getElem h⟩

/-- everything the loops need to know about the opened file -/
structure Opening (L : Libs) (verify : Bool) (mode : Mode) (file : Bytes) (o : Opened) (leaves : List LeafInfo)
    (groups : List RowGroup) : Prop where
  numColumns : o.numColumns = leaves.length
  numRowGroups : o.numRowGroups = groups.length
  chunks : ∀ g ∈ groups, g.chunks.length = leaves.length
  cell : ∀ (i j : Nat) (g : RowGroup) (es : Chunk), groups[i]? = some g → g.chunks[j]? = some es →
    ∃ (leaf : LeafInfo) (cm : ThriftParquet.ColumnMetaData), getColumn o (i : Int) (j : Int) = .ok (colOfLeaf leaf cm) ∧
      ∀ wd wr, ∃ rows, ResOk wd wr es.length
        (ColumnReader.readBatch ColumnReader.Fixes.all
          (ColumnReader.getColumn (chunkOf Fixes.all L verify mode file (colOfLeaf leaf cm)))
          (colOfLeaf leaf cm).cm.numValues wd wr).2 rows ∧
        rows.map (·.defLevel) = es.map (·.dl) ∧ rows.map (·.repLevel) = es.map (·.rep) ∧
        rows.filterMap (·.val) = es.filterMap (·.val) ∧ rows.length = es.length ∧
        (colOfLeaf leaf cm).cm.numValues = (es.length : Int) ∧
        ∀ row ∈ rows, Carquet.Spec.Cursor.Row.WF leaf.maxDef row

section loops
variable (L : Libs) (verify : Bool) (mode : Mode) (file : Bytes) (o : Opened) (leaves : List LeafInfo) (groups : List RowGroup)
  (hop : Opening L verify mode file o leaves groups)
include hop

theorem readRowGroup_spec (i : Nat) (g : RowGroup) (hg : groups[i]? = some g) :
    ∀ n, n ≤ leaves.length →
      readRowGroup Fixes.all L verify mode file o i n = .ok ((g.chunks.map columnDataOfSpec).take n)
  | 0, _ => by simp [readRowGroup]
  | n + 1, hn => by
    have ih := readRowGroup_spec i g hg n (by omega)
    have hglen := hop.chunks g (List.mem_of_getElem? hg)
    obtain ⟨es, hes⟩ := getElem?_of_lt g.chunks n (by omega)
    obtain ⟨leaf, cm, hgc, hread⟩ := hop.cell i n g es hg hes
    obtain ⟨rows, hres, hd, _, hv, hlen, hnv, hwf⟩ := hread true false
    have hget : (g.chunks.map columnDataOfSpec)[n]? = some (columnDataOfSpec es) := by simp [List.getElem?_map, hes]
    rw [take_succ_of_get _ n _ hget]
    have hcd := Carquet.Proofs.Roundtrip.columnData_of_resOk leaf.maxDef es.length _ rows false hres hwf
    rw [hlen, hnv] at hcd
    unfold readRowGroup
    rw [ih]
    simp only [hgc]
    have hmd : (colOfLeaf leaf cm).maxDef = leaf.maxDef := rfl
    rw [hmd, hnv, hcd, hd, hv]
    rfl

theorem readRowGroups_spec :
    ∀ n, n ≤ groups.length →
      Reader.readRowGroups Fixes.all L verify mode file o n = .ok ((groups.map (fun g => g.chunks.map columnDataOfSpec)).take n)
  | 0, _ => by simp [Reader.readRowGroups]
  | n + 1, hn => by
    have ih := readRowGroups_spec n (by omega)
    obtain ⟨g, hg⟩ := getElem?_of_lt groups n (by omega)
    have hrg := readRowGroup_spec L verify mode file o leaves groups hop n g hg leaves.length (Nat.le_refl _)
    have hglen := hop.chunks g (List.mem_of_getElem? hg)
    rw [List.take_of_length_le (by simp [hglen])] at hrg
    have hget : (groups.map (fun g => g.chunks.map columnDataOfSpec))[n]? = some (g.chunks.map columnDataOfSpec) := by
      simp [List.getElem?_map, hg]
    rw [take_succ_of_get _ n _ hget]
    unfold Reader.readRowGroups
    rw [ih]
    simp only [hop.numColumns, hrg]

end loops

end Carquet.Proofs.ImplReads
