import Carquet.Proofs.Xxh64
import Carquet.Spec.Sbbf
import Carquet.Impl.Bloom
/-
Helper lemmas for C20 (Bloom part).  The byte-level model of bloom_filter.c is related to the
format's filter (`Spec.Sbbf`) through the abstraction `Spec.Sbbf.parse` (bytes → little-endian
words → blocks of eight words).
-/
namespace Carquet.Proofs.Bloom
open Carquet
open Carquet.Spec.Sbbf (Word Block wordOfBytes wordsOfBytes blocksOfWords parse modifyNth)
open Carquet.Proofs.Xxh64 (lt4_of_not_cons lt8_of_not_cons)

/-! ### constants -/

theorem blockSize_eq : Impl.Bloom.blockSize = 32 := by decide
theorem salt_eq : Impl.Bloom.salt = Spec.Sbbf.salt := by decide

/-! ### words and bytes -/

theorem horner4_32 (x0 x1 x2 x3 : BitVec 32) :
    x0 ||| (x1 <<< 8) ||| (x2 <<< 16) ||| (x3 <<< 24)
    = (((x3 <<< 8 ||| x2) <<< 8 ||| x1) <<< 8 ||| x0) := by
  simp only [BitVec.shiftLeft_or_distrib]
  simp only [← BitVec.shiftLeft_add]
  rw [show (8+8+8 : Nat) = 24 from rfl, show (8+8 : Nat) = 16 from rfl]
  generalize x3 <<< 24 = y3
  generalize x2 <<< 16 = y2
  generalize x1 <<< 8 = y1
  ac_rfl

theorem wordOfBytes_cons (b : UInt8) (bs : List UInt8) :
    Spec.Sbbf.wordOfBytes (b :: bs) = (Spec.Sbbf.wordOfBytes bs <<< 8) ||| b.toBitVec.setWidth 32 := rfl

theorem wordOfBytes_one (b : UInt8) : Spec.Sbbf.wordOfBytes [b] = b.toBitVec.setWidth 32 := by
  rw [wordOfBytes_cons]
  show (0#32 <<< 8) ||| _ = _
  rw [BitVec.zero_shiftLeft, BitVec.zero_or]

theorem load32_eq (b0 b1 b2 b3 : UInt8) :
    Impl.Bloom.load32 b0 b1 b2 b3 = Spec.Sbbf.wordOfBytes [b0, b1, b2, b3] := by
  rw [wordOfBytes_cons, wordOfBytes_cons, wordOfBytes_cons, wordOfBytes_one]
  exact horner4_32 _ _ _ _

theorem load_store (w : BitVec 32) :
    Impl.Bloom.load32 (UInt8.ofBitVec (w.setWidth 8)) (UInt8.ofBitVec ((w >>> 8).setWidth 8))
      (UInt8.ofBitVec ((w >>> 16).setWidth 8)) (UInt8.ofBitVec ((w >>> 24).setWidth 8)) = w := by
  apply BitVec.eq_of_getLsbD_eq
  intro i hi
  simp only [Impl.Bloom.load32, Impl.Xxh64.read32le, Impl.Xxh64.u32, BitVec.getLsbD_or, BitVec.getLsbD_shiftLeft, BitVec.getLsbD_setWidth, BitVec.getLsbD_ushiftRight]
  have h : i < 8 ∨ (8 ≤ i ∧ i < 16) ∨ (16 ≤ i ∧ i < 24) ∨ (24 ≤ i ∧ i < 32) := by omega
  rcases h with h | h | h | h
  · have a1 : i < 16 := by omega
    have a2 : i < 24 := by omega
    simp [h, hi, a1, a2]
  · have a0 : ¬ i < 8 := by omega
    have a2 : i < 24 := by omega
    have e : 8 + (i - 8) = i := by omega
    have c1 : i - 8 < 32 := by omega
    have c2 : i - 8 < 8 := by omega
    simp [h.2, hi, a0, a2, e, c1, c2]
  · have a0 : ¬ i < 8 := by omega
    have a1 : ¬ i < 16 := by omega
    have e : 16 + (i - 16) = i := by omega
    have c1 : i - 16 < 32 := by omega
    have c2 : i - 16 < 8 := by omega
    have d2 : ¬ i - 8 < 8 := by omega
    simp [h.2, hi, a0, a1, e, c1, c2, d2]
  · have a0 : ¬ i < 8 := by omega
    have a1 : ¬ i < 16 := by omega
    have a2 : ¬ i < 24 := by omega
    have e : 24 + (i - 24) = i := by omega
    have c1 : i - 24 < 32 := by omega
    have c2 : i - 24 < 8 := by omega
    have d2 : ¬ i - 8 < 8 := by omega
    have d3 : ¬ i - 16 < 8 := by omega
    simp [hi, a0, a1, a2, e, c1, c2, d2, d3]

theorem u8_ext (a b : UInt8) (h : a.toBitVec = b.toBitVec) : a = b := UInt8.eq_of_toBitVec_eq h

theorem store_load (b0 b1 b2 b3 : UInt8) :
    Impl.Bloom.store32 (Impl.Bloom.load32 b0 b1 b2 b3) = [b0, b1, b2, b3] := by
  simp only [Impl.Bloom.store32, List.cons.injEq, and_true]
  refine ⟨?_, ?_, ?_, ?_⟩ <;> apply UInt8.eq_of_toBitVec_eq <;> apply BitVec.eq_of_getLsbD_eq <;> intro i hi <;>
    simp only [Impl.Bloom.load32, Impl.Xxh64.read32le, Impl.Xxh64.u32,
      BitVec.getLsbD_or, BitVec.getLsbD_shiftLeft, BitVec.getLsbD_setWidth, BitVec.getLsbD_ushiftRight]
  · have a0 : i < 32 := by omega
    have a1 : i < 16 := by omega
    have a2 : i < 24 := by omega
    simp [hi, a0, a1, a2]
  · have a4 : i < 32 := by omega
    have a0 : 8 + i < 32 := by omega
    have a1 : ¬ 8 + i < 8 := by omega
    have a2 : 8 + i < 16 := by omega
    have a3 : 8 + i < 24 := by omega
    have z0 : b0.toBitVec.getLsbD (8 + i) = false := BitVec.getLsbD_of_ge _ _ (by omega)
    simp [hi, a0, a1, a2, a3, a4]
  · have a4 : i < 32 := by omega
    have a0 : 16 + i < 32 := by omega
    have a1 : ¬ 16 + i < 8 := by omega
    have a2 : ¬ 16 + i < 16 := by omega
    have a3 : 16 + i < 24 := by omega
    have z0 : b0.toBitVec.getLsbD (16 + i) = false := BitVec.getLsbD_of_ge _ _ (by omega)
    have z1 : b1.toBitVec.getLsbD (16 + i - 8) = false := BitVec.getLsbD_of_ge _ _ (by omega)
    simp [hi, a0, a1, a2, a3, a4, z0, z1]
  · have a4 : i < 32 := by omega
    have a0 : 24 + i < 32 := by omega
    have a1 : ¬ 24 + i < 8 := by omega
    have a2 : ¬ 24 + i < 16 := by omega
    have a3 : ¬ 24 + i < 24 := by omega
    have z0 : b0.toBitVec.getLsbD (24 + i) = false := BitVec.getLsbD_of_ge _ _ (by omega)
    have z1 : b1.toBitVec.getLsbD (24 + i - 8) = false := BitVec.getLsbD_of_ge _ _ (by omega)
    have z2 : b2.toBitVec.getLsbD (24 + i - 16) = false := BitVec.getLsbD_of_ge _ _ (by omega)
    simp [hi, a0, a1, a2, a3, a4, z0, z1, z2]

/-! ### the block loops, seen on words -/

/-- word-level view of `Impl.Bloom.blockInsertLoop` -/
def insWords (key : Word) : List Word → List Word → List Word
  | s :: ss, w :: ws => (w ||| Impl.Bloom.bitOf s key) :: insWords key ss ws
  | _, ws => ws

/-- word-level view of `Impl.Bloom.blockCheckLoop` -/
def chkWords (key : Word) : List Word → List Word → Bool
  | s :: ss, w :: ws => if w &&& Impl.Bloom.bitOf s key = 0#32 then false else chkWords key ss ws
  | [], _ => true
  | _ :: _, [] => false

theorem wordsOf_short (p : List UInt8) (h : p.length < 4) : wordsOfBytes p = [] := by
  rcases p with _ | ⟨b0, _ | ⟨b1, _ | ⟨b2, _ | ⟨b3, rest⟩⟩⟩⟩ <;> simp [wordsOfBytes] at h ⊢
  omega

theorem wordsOf_cons4 (b0 b1 b2 b3 : UInt8) (rest : List UInt8) :
    wordsOfBytes (b0 :: b1 :: b2 :: b3 :: rest) = Impl.Bloom.load32 b0 b1 b2 b3 :: wordsOfBytes rest := by
  rw [wordsOfBytes, load32_eq]

theorem insWords_nil (key : Word) (salts : List Word) : insWords key salts [] = [] := by
  cases salts <;> rfl

theorem insertLoop_nil_salts (key : Word) (p : List UInt8) : Impl.Bloom.blockInsertLoop key [] p = p := by
  simp [Impl.Bloom.blockInsertLoop]

theorem wordsOf_store_append (w : Word) (tl : List UInt8) :
    wordsOfBytes (Impl.Bloom.store32 w ++ tl) = w :: wordsOfBytes tl := by
  simp only [Impl.Bloom.store32, List.cons_append, List.nil_append]
  rw [wordsOf_cons4, load_store]

theorem wordsOf_insertLoop (key : Word) (salts : List Word) (p : List UInt8) :
    wordsOfBytes (Impl.Bloom.blockInsertLoop key salts p) = insWords key salts (wordsOfBytes p) := by
  induction salts generalizing p with
  | nil => rw [insertLoop_nil_salts]; rfl
  | cons s ss ih =>
    rcases p with _ | ⟨b0, _ | ⟨b1, _ | ⟨b2, _ | ⟨b3, rest⟩⟩⟩⟩
    · simp [Impl.Bloom.blockInsertLoop, wordsOfBytes, insWords]
    · simp [Impl.Bloom.blockInsertLoop, wordsOfBytes, insWords]
    · simp [Impl.Bloom.blockInsertLoop, wordsOfBytes, insWords]
    · simp [Impl.Bloom.blockInsertLoop, wordsOfBytes, insWords]
    · rw [Impl.Bloom.blockInsertLoop, wordsOf_store_append, wordsOf_cons4, ih, insWords]

theorem insertLoop_length (key : Word) (salts : List Word) (p : List UInt8) :
    (Impl.Bloom.blockInsertLoop key salts p).length = p.length := by
  induction salts generalizing p with
  | nil => rw [insertLoop_nil_salts]
  | cons s ss ih =>
    rcases p with _ | ⟨b0, _ | ⟨b1, _ | ⟨b2, _ | ⟨b3, rest⟩⟩⟩⟩
    · simp [Impl.Bloom.blockInsertLoop]
    · simp [Impl.Bloom.blockInsertLoop]
    · simp [Impl.Bloom.blockInsertLoop]
    · simp [Impl.Bloom.blockInsertLoop]
    · rw [Impl.Bloom.blockInsertLoop]
      simp [Impl.Bloom.store32, ih]

theorem checkLoop_words (key : Word) (salts : List Word) (p : List UInt8) :
    Impl.Bloom.blockCheckLoop key salts p = chkWords key salts (wordsOfBytes p) := by
  induction salts generalizing p with
  | nil => simp [Impl.Bloom.blockCheckLoop, chkWords]
  | cons s ss ih =>
    rcases p with _ | ⟨b0, _ | ⟨b1, _ | ⟨b2, _ | ⟨b3, rest⟩⟩⟩⟩
    · simp [Impl.Bloom.blockCheckLoop, wordsOfBytes, chkWords]
    · simp [Impl.Bloom.blockCheckLoop, wordsOfBytes, chkWords]
    · simp [Impl.Bloom.blockCheckLoop, wordsOfBytes, chkWords]
    · simp [Impl.Bloom.blockCheckLoop, wordsOfBytes, chkWords]
    · rw [Impl.Bloom.blockCheckLoop, wordsOf_cons4, chkWords, ih]

theorem wordsOf_drop (k : Nat) (p : List UInt8) :
    wordsOfBytes (p.drop (4 * k)) = (wordsOfBytes p).drop k := by
  induction k generalizing p with
  | zero => simp
  | succ k ih =>
    by_cases hp : p.length < 4
    · have h1 : p.length ≤ 4 * (k + 1) := by omega
      rw [List.drop_eq_nil_of_le h1, wordsOf_short p hp]
      simp [wordsOfBytes]
    · rcases p with _ | ⟨b0, _ | ⟨b1, _ | ⟨b2, _ | ⟨b3, rest⟩⟩⟩⟩
      · simp at hp
      · simp at hp
      · simp at hp
      · simp at hp
      · rw [show 4 * (k + 1) = 4 * k + 1 + 1 + 1 + 1 by omega]
        simp only [List.drop_succ_cons, wordsOf_cons4]
        exact ih rest

/-- the bytes after an insert at word offset `k`, seen on words -/
theorem wordsOf_insertAt (key : Word) (salts : List Word) (k : Nat) (p : List UInt8) :
    wordsOfBytes (p.take (4 * k) ++ Impl.Bloom.blockInsertLoop key salts (p.drop (4 * k))) =
      (wordsOfBytes p).take k ++ insWords key salts ((wordsOfBytes p).drop k) := by
  induction k generalizing p with
  | zero => simp [wordsOf_insertLoop]
  | succ k ih =>
    by_cases hp : p.length < 4
    · have h1 : p.length ≤ 4 * (k + 1) := by omega
      rw [List.take_of_length_le h1, List.drop_eq_nil_of_le h1, wordsOf_short p hp]
      have : Impl.Bloom.blockInsertLoop key salts [] = [] := by
        cases salts <;> simp [Impl.Bloom.blockInsertLoop]
      rw [this, List.append_nil, wordsOf_short p hp]
      simp [insWords_nil]
    · rcases p with _ | ⟨b0, _ | ⟨b1, _ | ⟨b2, _ | ⟨b3, rest⟩⟩⟩⟩
      · simp at hp
      · simp at hp
      · simp at hp
      · simp at hp
      · rw [show 4 * (k + 1) = 4 * k + 1 + 1 + 1 + 1 by omega]
        simp only [List.take_succ_cons, List.drop_succ_cons, List.cons_append, wordsOf_cons4]
        rw [ih rest]


/-! ### single-bit masks -/

theorem bitpos_lt (x : Word) : (x >>> 27).toNat < 32 := by
  rw [BitVec.toNat_ushiftRight, Nat.shiftRight_eq_div_pow]
  have := x.isLt
  omega

theorem bitOf_eq_mask (s key : Word) : Impl.Bloom.bitOf s key = 1#32 <<< ((key * s) >>> 27).toNat := by
  rw [Impl.Bloom.bitOf, BitVec.mul_comm]

theorem twoPow_ne_zero (n : Nat) (h : n < 32) : (1#32 <<< n) ≠ 0#32 := by
  intro e
  have := congrArg (fun v => v.getLsbD n) e
  simp [← BitVec.twoPow_eq, h] at this

/-- the C test `(w & m) == 0` and the format's "bit of the mask is set" agree for a one-bit mask -/
theorem test_bit (w : Word) (n : Nat) (h : n < 32) :
    (w &&& (1#32 <<< n) = 0#32) ↔ ¬ (w &&& (1#32 <<< n) = 1#32 <<< n) := by
  rw [← BitVec.twoPow_eq, BitVec.and_twoPow]
  by_cases hb : w.getLsbD n = true
  · simp [hb, BitVec.twoPow_eq, twoPow_ne_zero n h]
  · simp [hb, BitVec.twoPow_eq]
    exact fun e => twoPow_ne_zero n h e.symm

theorem test_bitOf (w s key : Word) (X : Bool) :
    (if w &&& Impl.Bloom.bitOf s key = 0#32 then false else X) =
      ((w &&& Impl.Bloom.bitOf s key == Impl.Bloom.bitOf s key) && X) := by
  have h := test_bit w ((s * key) >>> 27).toNat (bitpos_lt _)
  rw [← Impl.Bloom.bitOf] at h
  generalize w &&& Impl.Bloom.bitOf s key = a at h ⊢
  generalize Impl.Bloom.bitOf s key = m at h ⊢
  by_cases h0 : a = 0#32
  · have hm : ¬ a = m := h.mp h0
    have e : (a == m) = false := by simpa using hm
    rw [if_pos h0, e, Bool.false_and]
  · have hm : a = m := Classical.not_not.mp (mt h.mpr h0)
    have e : (a == m) = true := by simpa using hm
    rw [if_neg h0, e, Bool.true_and]


/-! ### words and blocks -/

theorem exists_cons8 {α} (l : List α) (h : 8 ≤ l.length) :
    ∃ a0 a1 a2 a3 a4 a5 a6 a7 rest, l = a0 :: a1 :: a2 :: a3 :: a4 :: a5 :: a6 :: a7 :: rest := by
  rcases l with _ | ⟨a0, _ | ⟨a1, _ | ⟨a2, _ | ⟨a3, _ | ⟨a4, _ | ⟨a5, _ | ⟨a6, _ | ⟨a7, rest⟩⟩⟩⟩⟩⟩⟩⟩
  all_goals first | exact ⟨_, _, _, _, _, _, _, _, _, rfl⟩ | (simp at h; done) | (simp at h; omega)

theorem blocks_cons8 (w0 w1 w2 w3 w4 w5 w6 w7 : Word) (rest : List Word) :
    blocksOfWords (w0 :: w1 :: w2 :: w3 :: w4 :: w5 :: w6 :: w7 :: rest) =
      [w0, w1, w2, w3, w4, w5, w6, w7] :: blocksOfWords rest := by
  rw [blocksOfWords]

theorem blocks_short (W : List Word) (h : W.length < 8) : blocksOfWords W = [] := by
  apply Spec.Sbbf.blocksOfWords.eq_2
  intro w0 w1 w2 w3 w4 w5 w6 w7 rest e
  rw [e] at h
  simp at h
  omega

theorem insWords_length (key : Word) (salts ws : List Word) : (insWords key salts ws).length = ws.length := by
  induction salts generalizing ws with
  | nil => simp [insWords]
  | cons s ss ih => cases ws <;> simp [insWords, ih]

theorem insWords_nil_salts (key : Word) (ws : List Word) : insWords key [] ws = ws := by
  simp [insWords]

theorem modifyNth_nil {α} (g : α → α) (i : Nat) : modifyNth g i [] = [] := by
  cases i <;> rfl

theorem blocks_insertAt (key : Word) (i : Nat) (W : List Word) :
    blocksOfWords (W.take (8 * i) ++ insWords key Impl.Bloom.salt (W.drop (8 * i))) =
      Spec.Sbbf.insertAt (blocksOfWords W) i key := by
  induction i generalizing W with
  | zero =>
    by_cases hW : W.length < 8
    · rw [blocks_short W hW, Spec.Sbbf.insertAt, modifyNth_nil]
      apply blocks_short
      simp [insWords_length]; omega
    · obtain ⟨w0, w1, w2, w3, w4, w5, w6, w7, rest, rfl⟩ := exists_cons8 W (by omega)
      rw [blocks_cons8, salt_eq]
      simp only [Nat.mul_zero, List.take_zero, List.drop_zero, List.nil_append, Spec.Sbbf.salt, insWords,
        blocks_cons8, Spec.Sbbf.insertAt, modifyNth, Spec.Sbbf.blockInsert, Spec.Sbbf.mask, List.map_cons,
        List.map_nil, List.zipWith_cons_cons, List.zipWith_nil_right, bitOf_eq_mask]
  | succ i ih =>
    by_cases hW : W.length < 8
    · rw [blocks_short W hW, Spec.Sbbf.insertAt, modifyNth_nil]
      apply blocks_short
      simp [insWords_length]; omega
    · obtain ⟨w0, w1, w2, w3, w4, w5, w6, w7, rest, rfl⟩ := exists_cons8 W (by omega)
      rw [show 8 * (i + 1) = 8 * i + 1 + 1 + 1 + 1 + 1 + 1 + 1 + 1 by omega]
      simp only [List.take_succ_cons, List.drop_succ_cons, List.cons_append, blocks_cons8,
        Spec.Sbbf.insertAt, modifyNth]
      congr 1
      exact ih rest

theorem chkWords_short (key : Word) (salts ws : List Word) (h : ws.length < salts.length) :
    chkWords key salts ws = false := by
  induction salts generalizing ws with
  | nil => simp at h
  | cons s ss ih =>
    cases ws with
    | nil => rfl
    | cons w ws =>
      rw [chkWords]
      split
      · rfl
      · exact ih ws (by simpa using h)

theorem salt_length : Impl.Bloom.salt.length = 8 := by decide

theorem blocks_checkAt (key : Word) (i : Nat) (W : List Word) :
    chkWords key Impl.Bloom.salt (W.drop (8 * i)) = Spec.Sbbf.checkAt (blocksOfWords W) i key := by
  induction i generalizing W with
  | zero =>
    by_cases hW : W.length < 8
    · rw [blocks_short W hW, chkWords_short]
      · simp [Spec.Sbbf.checkAt]
      · rw [salt_length]; simpa using hW
    · obtain ⟨w0, w1, w2, w3, w4, w5, w6, w7, rest, rfl⟩ := exists_cons8 W (by omega)
      rw [blocks_cons8, salt_eq]
      simp only [Nat.mul_zero, List.drop_zero, Spec.Sbbf.salt, chkWords, test_bitOf]
      simp only [Spec.Sbbf.checkAt, List.getElem?_cons_zero, Spec.Sbbf.blockCheck, Spec.Sbbf.mask,
        Spec.Sbbf.salt, List.map_cons, List.map_nil, List.zipWith_cons_cons, List.zipWith_nil_right,
        ← bitOf_eq_mask, List.all_cons, List.all_nil, List.length_cons, List.length_nil, id]
      rfl
  | succ i ih =>
    by_cases hW : W.length < 8
    · rw [blocks_short W hW, chkWords_short]
      · simp [Spec.Sbbf.checkAt]
      · rw [salt_length]; simp; omega
    · obtain ⟨w0, w1, w2, w3, w4, w5, w6, w7, rest, rfl⟩ := exists_cons8 W (by omega)
      rw [show 8 * (i + 1) = 8 * i + 1 + 1 + 1 + 1 + 1 + 1 + 1 + 1 by omega]
      simp only [List.drop_succ_cons, blocks_cons8, Spec.Sbbf.checkAt, List.getElem?_cons_succ]
      exact ih rest


/-! ### lengths, serialisation -/

theorem wordsOf_length (p : List UInt8) : (wordsOfBytes p).length = p.length / 4 := by
  induction p using Spec.Sbbf.wordsOfBytes.induct with
  | case1 b0 b1 b2 b3 rest ih =>
    rw [wordsOf_cons4, List.length_cons, ih]
    simp only [List.length_cons]
    omega
  | case2 p hp =>
    have := Proofs.Xxh64.lt4_of_not_cons p hp
    rw [wordsOf_short p this, List.length_nil]
    omega

theorem blocks_length (W : List Word) : (blocksOfWords W).length = W.length / 8 := by
  induction W using Spec.Sbbf.blocksOfWords.induct with
  | case1 w0 w1 w2 w3 w4 w5 w6 w7 rest ih =>
    rw [blocks_cons8, List.length_cons, ih]
    simp only [List.length_cons]
    omega
  | case2 W hW =>
    have := Proofs.Xxh64.lt8_of_not_cons W hW
    rw [blocks_short W this, List.length_nil]
    omega

theorem parse_length (p : List UInt8) : (parse p).length = p.length / 32 := by
  rw [parse, blocks_length, wordsOf_length, Nat.div_div_eq_div_mul]

theorem blocks_mem_length (W : List Word) (b : Block) (h : b ∈ blocksOfWords W) : b.length = 8 := by
  induction W using Spec.Sbbf.blocksOfWords.induct with
  | case1 w0 w1 w2 w3 w4 w5 w6 w7 rest ih =>
    rw [blocks_cons8, List.mem_cons] at h
    rcases h with h | h
    · rw [h]; rfl
    · exact ih h
  | case2 W hW =>
    rw [blocks_short W (Proofs.Xxh64.lt8_of_not_cons W hW)] at h
    cases h

theorem wordBytes_eq (w : Word) : Spec.Sbbf.wordBytes w = Impl.Bloom.store32 w := rfl

theorem words_bytes (p : List UInt8) (h : p.length % 4 = 0) :
    (wordsOfBytes p).flatMap Spec.Sbbf.wordBytes = p := by
  induction p using Spec.Sbbf.wordsOfBytes.induct with
  | case1 b0 b1 b2 b3 rest ih =>
    rw [wordsOf_cons4, List.flatMap_cons, wordBytes_eq, store_load, ih]
    · rfl
    · simp only [List.length_cons] at h; omega
  | case2 p hp =>
    have := Proofs.Xxh64.lt4_of_not_cons p hp
    have : p.length = 0 := by omega
    rw [List.length_eq_zero_iff.mp this]
    rfl

theorem blocks_words (W : List Word) (h : W.length % 8 = 0) :
    (blocksOfWords W).flatMap id = W := by
  induction W using Spec.Sbbf.blocksOfWords.induct with
  | case1 w0 w1 w2 w3 w4 w5 w6 w7 rest ih =>
    rw [blocks_cons8, List.flatMap_cons, ih]
    · rfl
    · simp only [List.length_cons] at h; omega
  | case2 W hW =>
    have := Proofs.Xxh64.lt8_of_not_cons W hW
    have : W.length = 0 := by omega
    rw [List.length_eq_zero_iff.mp this]
    rfl

theorem serialize_eq (f : Spec.Sbbf.Filter) :
    Spec.Sbbf.serialize f = (f.flatMap id).flatMap Spec.Sbbf.wordBytes := by
  rw [Spec.Sbbf.serialize, List.flatMap_assoc]
  rfl

/-- a bitset of whole blocks is the serialisation of the filter it denotes -/
theorem serialize_parse (p : List UInt8) (h : p.length % 32 = 0) :
    Spec.Sbbf.serialize (parse p) = p := by
  rw [serialize_eq, parse, blocks_words, words_bytes]
  · omega
  · rw [wordsOf_length]; omega

theorem wordsOf_zeros (k : Nat) : wordsOfBytes (List.replicate (4 * k) 0) = List.replicate k 0#32 := by
  induction k with
  | zero => rfl
  | succ k ih =>
    rw [show 4 * (k + 1) = 4 * k + 1 + 1 + 1 + 1 by omega]
    simp only [List.replicate_succ]
    rw [wordsOf_cons4, ih]
    rfl

theorem blocks_zeros (z : Nat) : blocksOfWords (List.replicate (8 * z) 0#32) = Spec.Sbbf.empty z := by
  induction z with
  | zero => rfl
  | succ z ih =>
    rw [show 8 * (z + 1) = 8 * z + 1 + 1 + 1 + 1 + 1 + 1 + 1 + 1 by omega]
    simp only [List.replicate_succ]
    rw [blocks_cons8, ih]
    rfl

theorem parse_zeros (z : Nat) : parse (List.replicate (32 * z) 0) = Spec.Sbbf.empty z := by
  rw [parse, show 32 * z = 4 * (8 * z) by omega, wordsOf_zeros, blocks_zeros]


/-! ### the format's filter: bits are only ever set -/

/-- every bit of `a` is a bit of `b` -/
def WordLe (a b : Word) : Prop := a &&& b = a

/-- block `b'` has all bits of block `b` (same number of words) -/
inductive BlockLe : Block → Block → Prop
  | nil : BlockLe [] []
  | cons {a b : Word} {as bs : Block} : WordLe a b → BlockLe as bs → BlockLe (a :: as) (b :: bs)

theorem BlockLe.length_eq {b b' : Block} (h : BlockLe b b') : b.length = b'.length := by
  induction h with
  | nil => rfl
  | cons _ _ ih => simp [ih]

theorem wordLe_or_left (a m : Word) : WordLe a (a ||| m) := by
  unfold WordLe
  ext i hi
  simp only [BitVec.getElem_and, BitVec.getElem_or]
  cases a[i] <;> simp

theorem wordLe_or_right (a m : Word) : WordLe a (m ||| a) := by
  rw [BitVec.or_comm]; exact wordLe_or_left a m

theorem or_and_self (w m : Word) : (w ||| m) &&& m = m := by
  ext i hi
  simp only [BitVec.getElem_and, BitVec.getElem_or]
  cases w[i] <;> cases m[i] <;> rfl

theorem wordLe_test (a b n : Word) (h : WordLe a b) (ha : a &&& n = n) : b &&& n = n := by
  unfold WordLe at h
  ext i hi
  have h1 := congrArg (fun v => v[i]) h
  have h2 := congrArg (fun v => v[i]) ha
  simp only [BitVec.getElem_and] at h1 h2 ⊢
  revert h1 h2
  cases a[i] <;> cases b[i] <;> cases n[i] <;> simp

theorem mask_length (x : Word) : (Spec.Sbbf.mask x).length = 8 := by
  simp [Spec.Sbbf.mask, Spec.Sbbf.salt]

theorem blockLe_zipWith_or (b c : Block) (h : b.length ≤ c.length) :
    BlockLe b (List.zipWith (· ||| ·) b c) := by
  induction b generalizing c with
  | nil => exact BlockLe.nil
  | cons w b ih =>
    cases c with
    | nil => simp at h
    | cons m c =>
      rw [List.zipWith_cons_cons]
      exact BlockLe.cons (wordLe_or_left w m) (ih c (by simpa using h))

theorem blockLe_zipWith_or' (b c : Block) (h : c.length ≤ b.length) :
    BlockLe c (List.zipWith (· ||| ·) b c) := by
  induction c generalizing b with
  | nil => rw [List.zipWith_nil_right]; exact BlockLe.nil
  | cons m c ih =>
    cases b with
    | nil => simp at h
    | cons w b =>
      rw [List.zipWith_cons_cons]
      exact BlockLe.cons (wordLe_or_right m w) (ih b (by simpa using h))

theorem all_test_le (b b' ms : List Word) (h : BlockLe b b')
    (hc : (List.zipWith (fun w m => w &&& m == m) b ms).all id = true) :
    (List.zipWith (fun w m => w &&& m == m) b' ms).all id = true := by
  induction h generalizing ms with
  | nil => simp
  | cons hw _ ih =>
    cases ms with
    | nil => simp
    | cons m ms =>
      simp only [List.zipWith_cons_cons, List.all_cons, id, Bool.and_eq_true, beq_iff_eq] at hc ⊢
      exact ⟨wordLe_test _ _ _ hw hc.1, ih ms hc.2⟩

theorem blockCheck_le (b b' : Block) (y : Word) (h : BlockLe b b')
    (hc : Spec.Sbbf.blockCheck b y = true) : Spec.Sbbf.blockCheck b' y = true := by
  simp only [Spec.Sbbf.blockCheck, Bool.and_eq_true, beq_iff_eq] at hc ⊢
  exact ⟨by rw [← h.length_eq]; exact hc.1, all_test_le b b' _ h hc.2⟩

theorem all_test_self (b ms : List Word) :
    (List.zipWith (fun w m => w &&& m == m) (List.zipWith (· ||| ·) b ms) ms).all id = true := by
  induction b generalizing ms with
  | nil => simp
  | cons w b ih =>
    cases ms with
    | nil => simp
    | cons m ms =>
      simp only [List.zipWith_cons_cons, List.all_cons, id, Bool.and_eq_true, beq_iff_eq]
      exact ⟨or_and_self w m, ih ms⟩

theorem blockCheck_blockInsert_self (b : Block) (x : Word) (h : b.length = 8) :
    Spec.Sbbf.blockCheck (Spec.Sbbf.blockInsert b x) x = true := by
  simp only [Spec.Sbbf.blockCheck, Spec.Sbbf.blockInsert, Bool.and_eq_true, beq_iff_eq]
  exact ⟨by rw [List.length_zipWith, mask_length, h]; rfl, all_test_self b _⟩

theorem blockCheck_blockInsert_mono (b : Block) (x y : Word)
    (hc : Spec.Sbbf.blockCheck b y = true) : Spec.Sbbf.blockCheck (Spec.Sbbf.blockInsert b x) y = true := by
  have hl : b.length = 8 := by
    simp only [Spec.Sbbf.blockCheck, Bool.and_eq_true, beq_iff_eq] at hc
    exact hc.1
  exact blockCheck_le b _ y (blockLe_zipWith_or b _ (by rw [mask_length, hl]; exact Nat.le_refl 8)) hc

theorem modifyNth_length {α} (g : α → α) (i : Nat) (l : List α) : (modifyNth g i l).length = l.length := by
  induction l generalizing i with
  | nil => rw [modifyNth_nil]
  | cons a l ih => cases i <;> simp [modifyNth, ih]

theorem getElem?_modifyNth {α} (g : α → α) (i j : Nat) (l : List α) :
    (modifyNth g i l)[j]? = if i = j then l[j]?.map g else l[j]? := by
  induction l generalizing i j with
  | nil => rw [modifyNth_nil]; simp
  | cons a l ih =>
    cases i with
    | zero => cases j <;> simp [modifyNth]
    | succ i =>
      cases j with
      | zero => simp [modifyNth]
      | succ j => simp [modifyNth, ih]

theorem insertAt_length (F : Spec.Sbbf.Filter) (i : Nat) (x : Word) :
    (Spec.Sbbf.insertAt F i x).length = F.length := modifyNth_length _ _ _

theorem checkAt_insertAt_self (F : Spec.Sbbf.Filter) (i : Nat) (x : Word) (hi : i < F.length)
    (h8 : ∀ b ∈ F, b.length = 8) : Spec.Sbbf.checkAt (Spec.Sbbf.insertAt F i x) i x = true := by
  simp only [Spec.Sbbf.checkAt, Spec.Sbbf.insertAt, getElem?_modifyNth,
    List.getElem?_eq_getElem hi, Option.map_some]
  exact blockCheck_blockInsert_self _ _ (h8 _ (List.getElem_mem hi))

theorem checkAt_insertAt_mono (F : Spec.Sbbf.Filter) (i j : Nat) (x y : Word)
    (hc : Spec.Sbbf.checkAt F j y = true) : Spec.Sbbf.checkAt (Spec.Sbbf.insertAt F i x) j y = true := by
  simp only [Spec.Sbbf.checkAt, Spec.Sbbf.insertAt, getElem?_modifyNth] at hc ⊢
  cases hj : F[j]? with
  | none => rw [hj] at hc; cases hc
  | some b =>
    rw [hj] at hc
    by_cases hij : i = j
    · rw [if_pos hij]; exact blockCheck_blockInsert_mono b x y hc
    · rw [if_neg hij]; exact hc

theorem empty_length (z : Nat) : (Spec.Sbbf.empty z).length = z := by simp [Spec.Sbbf.empty]

theorem blockCheck_empty (x : Word) : Spec.Sbbf.blockCheck Spec.Sbbf.emptyBlock x = false := by
  have hm : Spec.Sbbf.mask x = (1#32 <<< ((x * 0x47b6137b#32) >>> 27).toNat) :: (Spec.Sbbf.mask x).tail := rfl
  have he : Spec.Sbbf.emptyBlock = 0#32 :: List.replicate 7 0#32 := rfl
  have hz : (0#32 &&& (1#32 <<< ((x * 0x47b6137b#32) >>> 27).toNat) ==
      (1#32 <<< ((x * 0x47b6137b#32) >>> 27).toNat)) = false := by
    rw [BitVec.zero_and]
    exact beq_false_of_ne (twoPow_ne_zero _ (bitpos_lt _)).symm
  rw [Spec.Sbbf.blockCheck, hm, he, List.zipWith_cons_cons, List.all_cons, id, hz]
  simp

theorem checkAt_empty (z i : Nat) (x : Word) : Spec.Sbbf.checkAt (Spec.Sbbf.empty z) i x = false := by
  simp only [Spec.Sbbf.checkAt, Spec.Sbbf.empty, List.getElem?_replicate]
  by_cases h : i < z
  · simp only [if_pos h]; exact blockCheck_empty x
  · simp only [if_neg h]


/-! ### the model of bloom_filter.c against the format's filter -/

/-- Well-formed filter object: what `create` / `from_data` establish and every operation keeps. -/
structure WF (f : Impl.Bloom.Filter) : Prop where
  len : f.data.length = f.numBytes
  bytes : f.numBytes = 32 * f.numBlocks
  pos : 0 < f.numBlocks

theorem parse_insertHash (f : Impl.Bloom.Filter) (h : BitVec 64) :
    parse (Impl.Bloom.insertHash f h).data =
      Spec.Sbbf.insertAt (parse f.data) (Impl.Bloom.blockIndex h f.numBlocks) (Spec.Sbbf.low h) := by
  simp only [Impl.Bloom.insertHash, blockSize_eq, parse]
  rw [show Impl.Bloom.blockIndex h f.numBlocks * 32 = 4 * (8 * Impl.Bloom.blockIndex h f.numBlocks) by omega,
    wordsOf_insertAt, blocks_insertAt]
  rfl

theorem checkHash_eq (f : Impl.Bloom.Filter) (h : BitVec 64) :
    Impl.Bloom.checkHash f h =
      Spec.Sbbf.checkAt (parse f.data) (Impl.Bloom.blockIndex h f.numBlocks) (Spec.Sbbf.low h) := by
  simp only [Impl.Bloom.checkHash, blockSize_eq, parse]
  rw [show Impl.Bloom.blockIndex h f.numBlocks * 32 = 4 * (8 * Impl.Bloom.blockIndex h f.numBlocks) by omega,
    checkLoop_words, wordsOf_drop, blocks_checkAt]
  rfl

theorem insertHash_data_length (f : Impl.Bloom.Filter) (h : BitVec 64) :
    (Impl.Bloom.insertHash f h).data.length = f.data.length := by
  simp only [Impl.Bloom.insertHash, List.length_append, List.length_take, insertLoop_length, List.length_drop]
  omega

theorem WF.insertHash {f : Impl.Bloom.Filter} (w : WF f) (h : BitVec 64) : WF (Impl.Bloom.insertHash f h) :=
  ⟨by rw [insertHash_data_length]; exact w.len, w.bytes, w.pos⟩

theorem WF.foldl {f : Impl.Bloom.Filter} (w : WF f) (hs : List (BitVec 64)) :
    WF (hs.foldl Impl.Bloom.insertHash f) := by
  induction hs generalizing f with
  | nil => exact w
  | cons h hs ih => exact ih (w.insertHash h)

theorem insertHash_numBlocks (f : Impl.Bloom.Filter) (h : BitVec 64) :
    (Impl.Bloom.insertHash f h).numBlocks = f.numBlocks := rfl

theorem foldl_numBlocks (f : Impl.Bloom.Filter) (hs : List (BitVec 64)) :
    (hs.foldl Impl.Bloom.insertHash f).numBlocks = f.numBlocks := by
  induction hs generalizing f with
  | nil => rfl
  | cons h hs ih => rw [List.foldl_cons, ih, insertHash_numBlocks]

theorem WF.parse_length {f : Impl.Bloom.Filter} (w : WF f) : (parse f.data).length = f.numBlocks := by
  rw [Proofs.Bloom.parse_length, w.len, w.bytes]; omega

theorem parse_block_length (p : List UInt8) : ∀ b ∈ parse p, b.length = 8 :=
  fun b hb => blocks_mem_length _ b hb

theorem hi_lt (h : BitVec 64) : (h >>> 32).toNat < 2 ^ 32 := by
  rw [BitVec.toNat_ushiftRight, Nat.shiftRight_eq_div_pow]
  have := h.isLt
  omega

/-- In a filter of at most 2^32 blocks the 64-bit multiply-shift of the C code is the format's. -/
theorem blockIndex_eq_spec (h : BitVec 64) (nb : Nat) (hnb : nb ≤ 2 ^ 32) :
    Impl.Bloom.blockIndex h nb = Spec.Sbbf.blockIndex h nb := by
  have h1 := hi_lt h
  have h2 : (h >>> 32).toNat * nb < 2 ^ 64 := by
    calc (h >>> 32).toNat * nb ≤ (h >>> 32).toNat * 2 ^ 32 := Nat.mul_le_mul_left _ hnb
      _ < 2 ^ 32 * 2 ^ 32 := Nat.mul_lt_mul_of_pos_right h1 (by decide)
      _ = 2 ^ 64 := by decide
  have h3 : nb % 2 ^ 64 = nb := Nat.mod_eq_of_lt (by omega)
  simp only [Impl.Bloom.blockIndex, Spec.Sbbf.blockIndex, BitVec.toNat_ushiftRight, BitVec.toNat_mul,
    BitVec.toNat_ofNat]
  rw [h3, ← BitVec.toNat_ushiftRight, Nat.mod_eq_of_lt h2]

/-- The block index of the C code is always a block of the filter (also when the product wraps). -/
theorem blockIndex_lt (h : BitVec 64) (nb : Nat) (hnb : 0 < nb) : Impl.Bloom.blockIndex h nb < nb := by
  by_cases hle : nb ≤ 2 ^ 32
  · rw [blockIndex_eq_spec h nb hle, Spec.Sbbf.blockIndex, Nat.shiftRight_eq_div_pow]
    apply Nat.div_lt_of_lt_mul
    have h1 := hi_lt h
    exact Nat.mul_lt_mul_of_pos_right h1 hnb
  · have : Impl.Bloom.blockIndex h nb < 2 ^ 32 := by
      simp only [Impl.Bloom.blockIndex, BitVec.toNat_ushiftRight, Nat.shiftRight_eq_div_pow]
      have := (BitVec.mul (h >>> 32) (BitVec.ofNat 64 nb)).isLt
      show ((h >>> 32) * BitVec.ofNat 64 nb).toNat / 2 ^ 32 < 2 ^ 32
      have := ((h >>> 32) * BitVec.ofNat 64 nb).isLt
      omega
    omega

theorem checkHash_insertHash_self (f : Impl.Bloom.Filter) (w : WF f) (h : BitVec 64) :
    Impl.Bloom.checkHash (Impl.Bloom.insertHash f h) h = true := by
  rw [checkHash_eq, parse_insertHash, insertHash_numBlocks]
  exact checkAt_insertAt_self _ _ _ (by rw [w.parse_length]; exact blockIndex_lt h _ w.pos)
    (parse_block_length _)

theorem checkHash_insertHash_mono (f : Impl.Bloom.Filter) (h h' : BitVec 64)
    (hc : Impl.Bloom.checkHash f h = true) : Impl.Bloom.checkHash (Impl.Bloom.insertHash f h') h = true := by
  rw [checkHash_eq] at hc
  rw [checkHash_eq, parse_insertHash, insertHash_numBlocks]
  exact checkAt_insertAt_mono _ _ _ _ _ hc

/-- bits are only ever set: whatever was inserted, or was already answered "present", stays present -/
theorem checkHash_foldl (f : Impl.Bloom.Filter) (w : WF f) (hs : List (BitVec 64)) (h : BitVec 64)
    (hin : h ∈ hs ∨ Impl.Bloom.checkHash f h = true) :
    Impl.Bloom.checkHash (hs.foldl Impl.Bloom.insertHash f) h = true := by
  induction hs generalizing f with
  | nil =>
    rcases hin with hin | hin
    · cases hin
    · exact hin
  | cons x xs ih =>
    rw [List.foldl_cons]
    apply ih _ (w.insertHash x)
    rcases hin with hin | hin
    · rcases List.mem_cons.mp hin with e | e
      · right; rw [e]; exact checkHash_insertHash_self f w x
      · left; exact e
    · right; exact checkHash_insertHash_mono f h x hin

/-! ### create, from_data -/

theorem createSize_spec (req n : Nat) (h : Impl.Bloom.createSize req = some n) :
    n % 32 = 0 ∧ 32 ≤ n ∧ req ≤ n ∧ (req < 32 → n = 32) ∧ (32 ≤ req → n < req + 32) ∧ n < 2 ^ 64 := by
  simp only [Impl.Bloom.createSize, blockSize_eq, Impl.Bloom.sizeMax] at h
  split at h
  · cases h
  · split at h <;> (injection h with h; omega)

theorem createSize_none (req : Nat) : Impl.Bloom.createSize req = none ↔ 2 ^ 64 - 32 < req := by
  simp only [Impl.Bloom.createSize, blockSize_eq, Impl.Bloom.sizeMax]
  split
  · simp; omega
  · split <;> simp <;> omega

theorem WF.fresh (n : Nat) (h1 : n % 32 = 0) (h2 : 32 ≤ n) : WF (Impl.Bloom.fresh n) :=
  ⟨by simp [Impl.Bloom.fresh], by simp only [Impl.Bloom.fresh, blockSize_eq]; omega,
   by simp only [Impl.Bloom.fresh, blockSize_eq]; omega⟩

theorem create_some (req : Nat) (f : Impl.Bloom.Filter) (h : Impl.Bloom.create req = some f) :
    ∃ n, Impl.Bloom.createSize req = some n ∧ f = Impl.Bloom.fresh n := by
  simp only [Impl.Bloom.create, Option.map_eq_some_iff] at h
  obtain ⟨n, hn, e⟩ := h
  exact ⟨n, hn, e.symm⟩

theorem WF.create {req : Nat} {f : Impl.Bloom.Filter} (h : Impl.Bloom.create req = some f) : WF f := by
  obtain ⟨n, hn, rfl⟩ := create_some req f h
  have := createSize_spec req n hn
  exact WF.fresh n this.1 this.2.1

theorem parse_fresh (n : Nat) (h : n % 32 = 0) :
    parse (Impl.Bloom.fresh n).data = Spec.Sbbf.empty (Impl.Bloom.fresh n).numBlocks := by
  simp only [Impl.Bloom.fresh, blockSize_eq]
  have e : n = 32 * (n / 32) := by omega
  conv => lhs; rw [e]
  exact parse_zeros _

theorem checkHash_fresh (n : Nat) (h : n % 32 = 0) (x : BitVec 64) :
    Impl.Bloom.checkHash (Impl.Bloom.fresh n) x = false := by
  rw [checkHash_eq, parse_fresh n h]
  exact checkAt_empty _ _ _

theorem WF.fromData {d : List UInt8} {f : Impl.Bloom.Filter} (h : Impl.Bloom.fromData (some d) = some f) :
    WF f ∧ f.data = d := by
  simp only [Impl.Bloom.fromData, blockSize_eq] at h
  split at h
  · cases h
  · split at h
    · cases h
    · injection h with h
      subst h
      exact ⟨⟨rfl, by simp only; omega, by simp only; omega⟩, rfl⟩

/-- a well-formed filter object is determined by its bytes -/
theorem WF.eq_of_data {f : Impl.Bloom.Filter} (w : WF f) :
    f = ⟨f.data, f.data.length, f.data.length / Impl.Bloom.blockSize⟩ := by
  cases f with
  | mk d nby nbl =>
    have h1 := w.len; have h2 := w.bytes
    simp only at h1 h2
    simp only [blockSize_eq, Impl.Bloom.Filter.mk.injEq, true_and]
    omega

theorem fromData_of_WF {f : Impl.Bloom.Filter} (w : WF f) : Impl.Bloom.fromData (some f.data) = some f := by
  have h1 := w.len; have h2 := w.bytes; have h3 := w.pos
  simp only [Impl.Bloom.fromData, blockSize_eq]
  rw [if_neg (by omega), if_neg (by omega)]
  rw [← blockSize_eq, ← w.eq_of_data]


/-! ### merge -/

theorem mergeLoop_eq (d s : List UInt8) (h : d.length = s.length) :
    Impl.Bloom.mergeLoop d s = List.zipWith (· ||| ·) d s := by
  induction d generalizing s with
  | nil => cases s <;> simp [Impl.Bloom.mergeLoop]
  | cons a d ih =>
    cases s with
    | nil => simp at h
    | cons b s => simp only [Impl.Bloom.mergeLoop, List.zipWith_cons_cons]; rw [ih s (by simpa using h)]

theorem exists_cons4 {α} (l : List α) (h : 4 ≤ l.length) :
    ∃ a0 a1 a2 a3 rest, l = a0 :: a1 :: a2 :: a3 :: rest := by
  rcases l with _ | ⟨a0, _ | ⟨a1, _ | ⟨a2, _ | ⟨a3, rest⟩⟩⟩⟩
  all_goals first | exact ⟨_, _, _, _, _, rfl⟩ | (simp at h; done) | (simp at h; omega)

theorem load32_or (b0 b1 b2 b3 c0 c1 c2 c3 : UInt8) :
    Impl.Bloom.load32 (b0 ||| c0) (b1 ||| c1) (b2 ||| c2) (b3 ||| c3) =
      Impl.Bloom.load32 b0 b1 b2 b3 ||| Impl.Bloom.load32 c0 c1 c2 c3 := by
  simp only [Impl.Bloom.load32, Impl.Xxh64.read32le, Impl.Xxh64.u32, UInt8.toBitVec_or, BitVec.setWidth_or,
    BitVec.shiftLeft_or_distrib]
  generalize BitVec.setWidth 32 b1.toBitVec <<< 8 = x1
  generalize BitVec.setWidth 32 b2.toBitVec <<< 16 = x2
  generalize BitVec.setWidth 32 b3.toBitVec <<< 24 = x3
  generalize BitVec.setWidth 32 c1.toBitVec <<< 8 = y1
  generalize BitVec.setWidth 32 c2.toBitVec <<< 16 = y2
  generalize BitVec.setWidth 32 c3.toBitVec <<< 24 = y3
  ac_rfl

theorem wordsOf_zipWith_or (d s : List UInt8) (h : d.length = s.length) :
    wordsOfBytes (List.zipWith (· ||| ·) d s) =
      List.zipWith (· ||| ·) (wordsOfBytes d) (wordsOfBytes s) := by
  induction d using Spec.Sbbf.wordsOfBytes.induct generalizing s with
  | case1 b0 b1 b2 b3 rest ih =>
    obtain ⟨c0, c1, c2, c3, srest, rfl⟩ := exists_cons4 s (by rw [← h]; simp)
    simp only [List.zipWith_cons_cons, wordsOf_cons4, load32_or]
    rw [ih srest (by simpa using h)]
  | case2 d hd =>
    have h1 := Proofs.Xxh64.lt4_of_not_cons d hd
    rw [wordsOf_short d h1, wordsOf_short s (by omega), wordsOf_short]
    · rfl
    · simp; omega

theorem blocks_zipWith_or (W V : List Word) (h : W.length = V.length) :
    blocksOfWords (List.zipWith (· ||| ·) W V) =
      List.zipWith (List.zipWith (· ||| ·)) (blocksOfWords W) (blocksOfWords V) := by
  induction W using Spec.Sbbf.blocksOfWords.induct generalizing V with
  | case1 w0 w1 w2 w3 w4 w5 w6 w7 rest ih =>
    obtain ⟨v0, v1, v2, v3, v4, v5, v6, v7, vrest, rfl⟩ := exists_cons8 V (by rw [← h]; simp)
    simp only [List.zipWith_cons_cons, blocks_cons8, List.zipWith_nil_right]
    rw [ih vrest (by simpa using h)]
  | case2 W hW =>
    have h1 := Proofs.Xxh64.lt8_of_not_cons W hW
    rw [blocks_short W h1, blocks_short V (by omega), blocks_short]
    · rfl
    · simp; omega

/-- byte-wise OR of two bitsets of the same size is the union (word-wise OR) of the filters -/
theorem parse_zipWith_or (d s : List UInt8) (h : d.length = s.length) :
    parse (List.zipWith (· ||| ·) d s) = Spec.Sbbf.union (parse d) (parse s) := by
  rw [parse, wordsOf_zipWith_or d s h, blocks_zipWith_or _ _ (by rw [wordsOf_length, wordsOf_length, h])]
  rfl

theorem checkAt_union_left (F G : Spec.Sbbf.Filter) (j : Nat) (y : Word) (hl : F.length = G.length)
    (hG : ∀ b ∈ G, b.length = 8) (hc : Spec.Sbbf.checkAt F j y = true) :
    Spec.Sbbf.checkAt (Spec.Sbbf.union F G) j y = true := by
  simp only [Spec.Sbbf.checkAt, Spec.Sbbf.union, List.getElem?_zipWith] at hc ⊢
  cases hj : F[j]? with
  | none => rw [hj] at hc; cases hc
  | some b =>
    rw [hj] at hc
    have hjl : j < G.length := by
      rw [← hl]; exact (List.getElem?_eq_some_iff.mp hj).1
    rw [List.getElem?_eq_getElem hjl]
    have hb : b.length = 8 := by
      simp only [Spec.Sbbf.blockCheck, Bool.and_eq_true, beq_iff_eq] at hc; exact hc.1
    exact blockCheck_le b _ y (blockLe_zipWith_or b _ (by rw [hb, hG _ (List.getElem_mem hjl)]; exact Nat.le_refl 8)) hc

theorem checkAt_union_right (F G : Spec.Sbbf.Filter) (j : Nat) (y : Word) (hl : F.length = G.length)
    (hF : ∀ b ∈ F, b.length = 8) (hc : Spec.Sbbf.checkAt G j y = true) :
    Spec.Sbbf.checkAt (Spec.Sbbf.union F G) j y = true := by
  simp only [Spec.Sbbf.checkAt, Spec.Sbbf.union, List.getElem?_zipWith] at hc ⊢
  cases hj : G[j]? with
  | none => rw [hj] at hc; cases hc
  | some c =>
    rw [hj] at hc
    have hjl : j < F.length := by
      rw [hl]; exact (List.getElem?_eq_some_iff.mp hj).1
    rw [List.getElem?_eq_getElem hjl]
    have hc8 : c.length = 8 := by
      simp only [Spec.Sbbf.blockCheck, Bool.and_eq_true, beq_iff_eq] at hc; exact hc.1
    exact blockCheck_le c _ y (blockLe_zipWith_or' _ c (by rw [hc8, hF _ (List.getElem_mem hjl)]; exact Nat.le_refl 8)) hc

theorem merge_ok (dest src : Impl.Bloom.Filter) (wd : WF dest) (ws : WF src) (he : dest.numBytes = src.numBytes) :
    Impl.Bloom.merge dest src =
      (.ok, { dest with data := List.zipWith (· ||| ·) dest.data src.data }) := by
  rw [Impl.Bloom.merge, if_neg (by simpa using he), mergeLoop_eq _ _ (by rw [wd.len, ws.len, he])]

theorem WF.merged {dest src : Impl.Bloom.Filter} (wd : WF dest) (ws : WF src) (he : dest.numBytes = src.numBytes) :
    WF { dest with data := List.zipWith (· ||| ·) dest.data src.data } :=
  ⟨by simp only [List.length_zipWith, wd.len, ws.len, he]; omega, wd.bytes, wd.pos⟩


/-! ### typed values -/

theorem mem32_eq (v : BitVec 32) : Impl.Bloom.mem32 v = Spec.Sbbf.leBytes 4 v := by
  simp [Impl.Bloom.mem32, Impl.Bloom.store32, Spec.Sbbf.leBytes, List.range, List.range.loop]

theorem mem64_eq (v : BitVec 64) : Impl.Bloom.mem64 v = Spec.Sbbf.leBytes 8 v := by
  simp [Impl.Bloom.mem64, Impl.Bloom.memByte, Spec.Sbbf.leBytes, List.range, List.range.loop]

/-- the typed entry points hash the PLAIN encoding with XXH64, seed 0 -/
theorem hashOf_eq (v : Spec.Sbbf.Value) : Impl.Bloom.hashOf v = Spec.Sbbf.hashValue v := by
  cases v <;>
    simp only [Impl.Bloom.hashOf, Spec.Sbbf.hashValue, Spec.Sbbf.plain, Proofs.Xxh64.xxh64_eq, mem32_eq, mem64_eq]


end Carquet.Proofs.Bloom
