import Carquet.Proofs.ThriftDec
/-
Struct level: `thrift_read_field_begin` reads both header forms, the field loop
`while (read_field_begin) { body }` folds a per-field step over any admitted field list, and
`thrift_skip` (repaired code) consumes exactly one value of any wire type.
-/
namespace Carquet.Proofs.Thrift
open Carquet.Spec.Thrift
open Carquet.Impl.Thrift

/-! ### inversion of the encoding relation -/

theorem enc_elems_nil {bs} (h : Enc (.elems []) bs) : bs = [] := by cases h; rfl
theorem enc_elems_cons {x r bs} (h : Enc (.elems (x :: r)) bs) :
    ∃ b1 b2, bs = b1 ++ b2 ∧ Enc (.val x) b1 ∧ Enc (.elems r) b2 := by
  cases h with | elemsCons h1 h2 => exact ⟨_, _, rfl, h1, h2⟩
theorem enc_kvs_nil {bs} (h : Enc (.kvs []) bs) : bs = [] := by cases h; rfl
theorem enc_kvs_cons {k v r bs} (h : Enc (.kvs ((k, v) :: r)) bs) :
    ∃ b1 b2 b3, bs = b1 ++ b2 ++ b3 ∧ Enc (.val k) b1 ∧ Enc (.val v) b2 ∧ Enc (.kvs r) b3 := by
  cases h with | kvsCons h1 h2 h3 => exact ⟨_, _, _, rfl, h1, h2, h3⟩
theorem enc_fields_nil {last bs} (h : Enc (.fields last []) bs) : bs = [] := by cases h; rfl
theorem enc_fields_cons {last id v r bs} (h : Enc (.fields last ((id, v) :: r)) bs) :
    inI16 id ∧ ∃ hdr b2 b3, bs = hdr ++ b2 ++ b3 ∧ FieldHdr last id (fieldCode v) hdr ∧ Enc (.fields id r) b3 ∧
      ((∃ b, v = .bool b ∧ b2 = []) ∨ (v.ty ≠ .bool ∧ Enc (.val v) b2)) := by
  cases h with
  | fieldsBool hid hh h3 => exact ⟨hid, _, [], _, by simp, hh, h3, Or.inl ⟨_, rfl, rfl⟩⟩
  | fieldsCons hid hnb hh h2 h3 => exact ⟨hid, _, _, _, rfl, hh, h3, Or.inr ⟨hnb, h2⟩⟩
theorem enc_struct_inv {fs bs} (h : Enc (.val (.struct fs)) bs) : ∃ body, bs = body ++ [0] ∧ Enc (.fields 0 fs) body := by
  cases h with | struct h1 => exact ⟨_, rfl, h1⟩
theorem enc_list_inv {et xs bs} (h : Enc (.val (.list et xs)) bs) :
    ∃ hdr body, bs = hdr ++ body ∧ xs.length < 2 ^ 31 ∧ (∀ x ∈ xs, x.ty = et) ∧ ListHdr et xs.length hdr ∧ Enc (.elems xs) body := by
  cases h with | list h1 h2 h3 h4 => exact ⟨_, _, rfl, h1, h2, h3, h4⟩
theorem enc_set_inv {et xs bs} (h : Enc (.val (.set et xs)) bs) :
    ∃ hdr body, bs = hdr ++ body ∧ xs.length < 2 ^ 31 ∧ (∀ x ∈ xs, x.ty = et) ∧ ListHdr et xs.length hdr ∧ Enc (.elems xs) body := by
  cases h with | set h1 h2 h3 h4 => exact ⟨_, _, rfl, h1, h2, h3, h4⟩
theorem enc_map_nil {bs} (h : Enc (.val (.map [])) bs) : bs = [0] := by cases h; rfl
theorem enc_map_cons {k v r bs} (h : Enc (.val (.map ((k, v) :: r))) bs) :
    ∃ body, bs = uleb (r.length + 1) ++ UInt8.ofNat (k.ty.code * 16 + v.ty.code) :: body ∧ r.length + 1 < 2 ^ 31 ∧
      (∀ p ∈ (k, v) :: r, p.1.ty = k.ty ∧ p.2.ty = v.ty) ∧ Enc (.kvs ((k, v) :: r)) body := by
  cases h with | mapCons h1 h2 h3 => exact ⟨_, rfl, h1, h2, h3⟩

/-! ### a normal form for decoder states inside a struct -/

def _root_.Carquet.Impl.Thrift.Dec.upd (d : Dec) (rest : List UInt8) (pos : Nat) (l : List Int) (bv : Bool) : Dec :=
  { d with rest := rest, pos := pos, lastId := l, boolValue := bv }

@[simp] theorem upd_rest (d : Dec) (r p l bv) : (d.upd r p l bv).rest = r := rfl
@[simp] theorem upd_pos (d : Dec) (r p l bv) : (d.upd r p l bv).pos = p := rfl
@[simp] theorem upd_lastId (d : Dec) (r p l bv) : (d.upd r p l bv).lastId = l := rfl
@[simp] theorem upd_status (d : Dec) (r p l bv) : (d.upd r p l bv).status = d.status := rfl
@[simp] theorem upd_boolPending (d : Dec) (r p l bv) : (d.upd r p l bv).boolPending = d.boolPending := rfl
@[simp] theorem upd_boolValue (d : Dec) (r p l bv) : (d.upd r p l bv).boolValue = bv := rfl
@[simp] theorem upd_budget (d : Dec) (r p l bv) : (d.upd r p l bv).budget = d.budget := rfl
@[simp] theorem upd_overlay (d : Dec) (r p l bv) : (d.upd r p l bv).overlay = d.overlay := rfl
@[simp] theorem upd_upd (d : Dec) (r p l bv r' p' l' bv') : (d.upd r p l bv).upd r' p' l' bv' = d.upd r' p' l' bv' := rfl
@[simp] theorem upd_atb (d : Dec) (r p l bv r' p' bv') : (d.upd r p l bv).atb r' p' bv' = d.upd r' p' l bv' := rfl
theorem atb_eq_upd (d : Dec) (r p bv) : d.atb r p bv = d.upd r p d.lastId bv := rfl

/-! ### struct begin / end, field headers -/

theorem structBegin_ok (d : Dec) (h : d.lastId.length < maxNesting) :
    structBegin d = d.upd d.rest d.pos (0 :: d.lastId) d.boolValue := by
  unfold structBegin
  rw [if_neg (by omega)]
  rfl

theorem readFieldBegin_stop (d : Dec) (r : List UInt8) (hr : d.rest = 0 :: r) (hs : d.status = none) :
    readFieldBegin d = ⟨false, 0, 0, d.atb r (d.pos + 1) d.boolValue⟩ := by
  obtain ⟨rest, pos, lastId, bp, bv, status, ov, bud⟩ := d
  simp only at hr hs
  subst hr hs
  simp [readFieldBegin, Dec.atb]

theorem toI16_small (v : Int) (h : inI16 v) : toI16 v = v := toI16_id v h

/-- `thrift_read_field_begin` on either header form: the type nibble, the id, the decoder moved
past the header with the id remembered; a bool field leaves its value pending -/
theorem readFieldBegin_hdr {last id : Int} {code : Nat} {hdr : List UInt8} (h : FieldHdr last id code hdr)
    (hid : inI16 id) (hc1 : 1 ≤ code) (hc13 : code ≤ 13) (d : Dec) (r : List UInt8) (stk : List Int)
    (hr : d.rest = hdr ++ r) (hs : d.status = none) (hl : d.lastId = last :: stk) :
    readFieldBegin d = ⟨true, code, id,
      notePendingBool code (d.upd r (d.pos + hdr.length) (id :: stk) d.boolValue)⟩ := by
  obtain ⟨rest, pos, lastId, bp, bv, status, ov, bud⟩ := d
  simp only at hr hs hl
  subst hr hs hl
  rcases h with ⟨hpos, hle, rfl⟩ | rfl
  · have hdlt : (id - last).toNat * 16 + code < 256 := by omega
    have hb : (UInt8.ofNat ((id - last).toNat * 16 + code)).toNat = (id - last).toNat * 16 + code := u8_toNat _ hdlt
    have hne : UInt8.ofNat ((id - last).toNat * 16 + code) ≠ 0 := by
      intro h0
      have := congrArg UInt8.toNat h0
      rw [hb] at this
      simp at this
      omega
    have e1 : ((id - last).toNat * 16 + code) % 16 = code := by omega
    have e2 : ((id - last).toNat * 16 + code) / 16 = (id - last).toNat := by omega
    have e3 : ¬ (id - last).toNat = 0 := by omega
    have e4 : toI16 (last + ((id - last).toNat : Int)) = id := by
      have : last + ((id - last).toNat : Int) = id := by omega
      rw [this]; exact toI16_id id hid
    simp only [readFieldBegin, shortFieldHdr, List.singleton_append, hne, if_false, readFieldBeginK, hb, e1, e2, e3,
      List.headD_cons, e4, setTop, List.length_singleton]
    rfl
  · have hb : (UInt8.ofNat code).toNat = code := u8_toNat _ (by omega)
    have hne : UInt8.ofNat code ≠ 0 := by
      intro h0
      have := congrArg UInt8.toNat h0
      rw [hb] at this
      simp at this
      omega
    have e1 : code % 16 = code := by omega
    have e2 : code / 16 = 0 := by omega
    simp only [readFieldBegin, longFieldHdr, List.cons_append, hne, if_false, readFieldBeginK, hb, e1, e2, if_true]
    have hz := readZigzag_zigzag id (inI64_of_inI16 hid)
      (⟨uleb (zigzag id) ++ r, pos + 1, last :: stk, bp, bv, none, ov, bud⟩ : Dec) r rfl
    have hi : readI16 (⟨uleb (zigzag id) ++ r, pos + 1, last :: stk, bp, bv, none, ov, bud⟩ : Dec)
        = (id, (⟨r, pos + 1 + (uleb (zigzag id)).length, last :: stk, bp, bv, none, ov, bud⟩ : Dec)) := by
      unfold readI16; rw [hz]; simp [toI16_id id hid, Dec.at]
    rw [hi]
    simp only [setTop, List.length_cons, Dec.upd]
    congr 3
    omega

theorem notePending_nonbool (code : Nat) (d : Dec) (h : 3 ≤ code) : notePendingBool code d = d := by
  unfold notePendingBool
  rw [if_neg (by omega), if_neg (by omega)]

/-! ### the field loop -/

/-- the id of the last field (what `last_field_id` holds at the stop byte) -/
def lastOf (last : Int) : List (Int × TVal) → Int
  | [] => last
  | (id, _) :: r => lastOf id r

/-- contract of a loop body for a bool field: value pending, nothing to read -/
def BoolFieldOK {σ : Type} (Inv : σ → Prop) (body : Nat → Int → Dec → σ → σ × Dec) (step : σ → Int → TVal → σ) (k : Nat)
    (id : Int) (b : Bool) : Prop :=
  ∀ (d : Dec) (s : σ), Inv s → d.status = none → d.boolPending = true → d.boolValue = b →
    d.lastId.length + k ≤ maxNesting → d.rest.length < d.budget →
    ∃ bv, body (fieldCode (.bool b)) id d s = (step s id (.bool b), { d with boolPending := false, boolValue := bv })

/-- contract of a loop body for a field with value bytes -/
def ValFieldOK {σ : Type} (Inv : σ → Prop) (body : Nat → Int → Dec → σ → σ × Dec) (step : σ → Int → TVal → σ) (k : Nat)
    (id : Int) (v : TVal) : Prop :=
  ∀ b2, Enc (.val v) b2 → ∀ s, Inv s → Reads k (fun d => body v.ty.code id d s) b2 (step s id v)

theorem fieldLoop_reads {σ : Type} (stop : σ → Bool) (Inv : σ → Prop) (hstop : ∀ s, Inv s → stop s = false)
    (body : Nat → Int → Dec → σ → σ × Dec) (step : σ → Int → TVal → σ)
    (hinv : ∀ s id v, Inv s → Inv (step s id v)) (k : Nat) :
    ∀ (fs : List (Int × TVal)) (last : Int) (bs : List UInt8), Enc (.fields last fs) bs →
    (∀ id b, (id, TVal.bool b) ∈ fs → BoolFieldOK Inv body step k id b) →
    (∀ id v, (id, v) ∈ fs → v.ty ≠ .bool → ValFieldOK Inv body step k id v) →
    ∀ (fuel : Nat) (d : Dec) (r : List UInt8) (s : σ) (stk : List Int), Inv s →
      d.rest = bs ++ 0 :: r → d.status = none → d.boolPending = false → d.lastId = last :: stk →
      stk.length + 1 + k ≤ maxNesting → d.rest.length < d.budget → fs.length < fuel →
      ∃ bv, fieldLoop stop body fuel d s
        = (fs.foldl (fun s f => step s f.1 f.2) s, d.upd r (d.pos + bs.length + 1) (lastOf last fs :: stk) bv) := by
  intro fs
  induction fs with
  | nil =>
    intro last bs henc _ _ fuel d r s stk _ hr hs hnb hl _ _ hf
    have := enc_fields_nil henc; subst this
    obtain ⟨fuel, rfl⟩ : ∃ f, fuel = f + 1 := ⟨fuel - 1, by simp at hf; omega⟩
    refine ⟨d.boolValue, ?_⟩
    simp only [List.nil_append] at hr
    simp only [fieldLoop, readFieldBegin_stop d r hr hs, List.foldl_nil, lastOf, List.length_nil, Nat.add_zero]
    rw [atb_eq_upd, hl]
  | cons f rest ih =>
    obtain ⟨id, v⟩ := f
    intro last bs henc hbool hval fuel d r s stk his hr hs hnb hl hroom hbud hf
    obtain ⟨fuel, rfl⟩ : ∃ f, fuel = f + 1 := ⟨fuel - 1, by omega⟩
    obtain ⟨hid, hdr, b2, b3, rfl, hh, h3, hcase⟩ := enc_fields_cons henc
    have hc := fieldCode_range v
    have hr' : d.rest = hdr ++ (b2 ++ (b3 ++ 0 :: r)) := by rw [hr]; simp
    have hfb := readFieldBegin_hdr hh hid hc.1 hc.2 d _ stk hr' hs hl
    have hhl := fieldHdr_len hh
    rcases hcase with ⟨b, rfl, rfl⟩ | ⟨hnb', hv⟩
    · -- bool field
      have hok := hbool id b List.mem_cons_self
      let d1 := notePendingBool (fieldCode (.bool b)) (d.upd ([] ++ (b3 ++ 0 :: r)) (d.pos + hdr.length) (id :: stk) d.boolValue)
      have hd1 : d1 = { d.upd (b3 ++ 0 :: r) (d.pos + hdr.length) (id :: stk) b with boolPending := true } := by
        cases b <;> rfl
      obtain ⟨bv, hb⟩ := hok d1 s his (by rw [hd1]; exact hs) (by rw [hd1]) (by rw [hd1]; rfl)
        (by rw [hd1]; simp; omega) (by rw [hd1]; simp; rw [hr'] at hbud; simp at hbud; omega)
      have hd2 : ({ d1 with boolPending := false, boolValue := bv } : Dec) = d.upd (b3 ++ 0 :: r) (d.pos + hdr.length) (id :: stk) bv := by
        rw [hd1]; unfold Dec.upd; simp [hnb]
      obtain ⟨bv', hrec⟩ := ih id b3 h3 (fun i b' hm => hbool i b' (List.mem_cons_of_mem _ hm))
        (fun i v' hm => hval i v' (List.mem_cons_of_mem _ hm)) fuel
        (d.upd (b3 ++ 0 :: r) (d.pos + hdr.length) (id :: stk) bv) r (step s id (.bool b)) stk (hinv _ _ _ his)
        rfl hs hnb rfl hroom (by simp; rw [hr'] at hbud; simp at hbud; omega) (by simp at hf; omega)
      refine ⟨bv', ?_⟩
      simp only [fieldLoop, hfb]
      have hst : stop (body (fieldCode (.bool b)) id d1 s).1 = false := by rw [hb]; exact hstop _ (hinv _ _ _ his)
      change (if stop (body (fieldCode (.bool b)) id d1 s).1 = true then _ else
        fieldLoop stop body fuel (body (fieldCode (.bool b)) id d1 s).2 (body (fieldCode (.bool b)) id d1 s).1) = _
      rw [hst, if_neg (by simp), hb, hd2, hrec]
      simp only [List.foldl_cons, lastOf, upd_upd, upd_pos, List.append_nil, List.length_append]
      congr 2
      omega
    · -- field with value bytes
      have hok := hval id v List.mem_cons_self hnb' b2 hv s his
      obtain ⟨hfc, h3le⟩ := fieldCode_of_ne_bool v hnb'
      let d1 := d.upd (b2 ++ (b3 ++ 0 :: r)) (d.pos + hdr.length) (id :: stk) d.boolValue
      have hrd : Ready d1 b2 (b3 ++ 0 :: r) k :=
        ⟨rfl, hs, hnb, by simp [d1]; omega, by simp [d1]; rw [hr'] at hbud; simp at hbud; omega⟩
      obtain ⟨bv, hb⟩ := hok d1 _ hrd
      obtain ⟨bv', hrec⟩ := ih id b3 h3 (fun i b' hm => hbool i b' (List.mem_cons_of_mem _ hm))
        (fun i v' hm => hval i v' (List.mem_cons_of_mem _ hm)) fuel
        (d1.atb (b3 ++ 0 :: r) (d1.pos + b2.length) bv) r (step s id v) stk (hinv _ _ _ his)
        rfl hs hnb rfl hroom (by simp [d1]; rw [hr'] at hbud; simp at hbud; omega) (by simp at hf; omega)
      refine ⟨bv', ?_⟩
      simp only [fieldLoop, hfb, hfc, notePending_nonbool _ _ h3le]
      have hb' : body v.ty.code id d1 s = (step s id v, d1.atb (b3 ++ 0 :: r) (d1.pos + b2.length) bv) := hb
      have hst : stop (body v.ty.code id d1 s).1 = false := by rw [hb']; exact hstop _ (hinv _ _ _ his)
      change (if stop (body v.ty.code id d1 s).1 = true then _ else
        fieldLoop stop body fuel (body v.ty.code id d1 s).2 (body v.ty.code id d1 s).1) = _
      rw [hst, if_neg (by simp), hb', hrec]
      simp only [List.foldl_cons, lastOf, d1, upd_atb, upd_upd, upd_pos, List.length_append]
      congr 2
      omega

end Carquet.Proofs.Thrift
