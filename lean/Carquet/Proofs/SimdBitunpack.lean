import Carquet.Impl.SimdBitunpack
import Carquet.Spec.Kernels
import Carquet.Proofs.SimdPrefix
import Carquet.Proofs.SimdBools
/-
C15 helper lemmas: the ten SIMD bit unpackers equal `Spec.Kernels.bitUnpack` on every input.
Method: for symbolic input bytes both the model and the Spec unfold (by `rfl`) to a list of
per-byte (per-byte-pair) expressions; the per-byte facts are checked on all 256 bytes, the one
about `_mm_srli_epi16` (a 16-bit lane shift seen through its bytes) by arithmetic.
-/
namespace Carquet.Proofs.SimdBitunpack
open Carquet Carquet.Impl.Simd Carquet.Proofs.SimdPrefix Carquet.Proofs.SimdBools
open Carquet.Spec.Kernels (bitUnpack)

/-! ### the Spec on symbolic bytes -/

def tb (x : UInt8) (i : Nat) : Nat := if x.toNat.testBit i then 1 else 0

/-- eight 1-bit values of a byte -/
def sBits (x : UInt8) : List Nat :=
  [tb x 0 + 2 * 0, tb x 1 + 2 * 0, tb x 2 + 2 * 0, tb x 3 + 2 * 0, tb x 4 + 2 * 0, tb x 5 + 2 * 0,
   tb x 6 + 2 * 0, tb x 7 + 2 * 0]
/-- the nibble starting at bit `s` -/
def sNib (x : UInt8) (s : Nat) : Nat :=
  tb x (s + 0) + 2 * (tb x (s + 1) + 2 * (tb x (s + 2) + 2 * (tb x (s + 3) + 2 * 0)))
/-- the eight bits of `x` on top of `r` -/
def s8on (x : UInt8) (r : Nat) : Nat :=
  tb x 0 + 2 * (tb x 1 + 2 * (tb x 2 + 2 * (tb x 3 + 2 * (tb x 4 + 2 * (tb x 5 + 2 * (tb x 6 + 2 * (tb x 7 + 2 * r)))))))
def s8 (x : UInt8) : Nat := s8on x 0
def s16 (x y : UInt8) : Nat := s8on x (s8on y 0)

theorem s8_eq : ∀ x : UInt8, s8 x = x.toNat := forall_uint8 _ (by decide +kernel)

theorem nat8 (t0 t1 t2 t3 t4 t5 t6 t7 r : Nat) :
    t0 + 2 * (t1 + 2 * (t2 + 2 * (t3 + 2 * (t4 + 2 * (t5 + 2 * (t6 + 2 * (t7 + 2 * r))))))) =
    t0 + 2 * (t1 + 2 * (t2 + 2 * (t3 + 2 * (t4 + 2 * (t5 + 2 * (t6 + 2 * (t7 + 2 * 0))))))) + 256 * r := by
  omega

theorem s8on_eq (x : UInt8) (r : Nat) : s8on x r = x.toNat + 256 * r := by
  have h := s8_eq x
  unfold s8 at h
  rw [← h]
  exact nat8 _ _ _ _ _ _ _ _ r

theorem s16_eq (x y : UInt8) : s16 x y = x.toNat + 256 * y.toNat := by
  unfold s16; rw [s8on_eq, s8on_eq]; omega

theorem sNib0_eq : ∀ x : UInt8, sNib x 0 = (x &&& 0x0F).toNat := forall_uint8 _ (by decide +kernel)
theorem sNib4_eq : ∀ x : UInt8, sNib x 4 = (x >>> 4).toNat := forall_uint8 _ (by decide +kernel)

/-! ### `_mm_srli_epi16(v, 4)` then `& 0x0F`, byte by byte -/

theorem and15 (n : Nat) : n &&& 15 = n % 16 := Nat.and_two_pow_sub_one_eq_mod n 4

theorem hiNib_lo (x y : UInt8) : (UInt8.ofNat ((x.toNat + 256 * y.toNat) >>> 4 % 256)) &&& (0x0F : UInt8) = x >>> 4 := by
  apply UInt8.toNat_inj.mp
  have hx := x.toNat_lt; have hy := y.toNat_lt
  simp only [UInt8.toNat_and, UInt8.toNat_ofNat', UInt8.toNat_shiftRight, Nat.shiftRight_eq_div_pow]
  show _ &&& 15 = _
  rw [and15]
  simp
  omega

theorem hiNib_hi (x y : UInt8) : (UInt8.ofNat ((x.toNat + 256 * y.toNat) >>> 4 / 256)) &&& (0x0F : UInt8) = y >>> 4 := by
  apply UInt8.toNat_inj.mp
  have hx := x.toNat_lt; have hy := y.toNat_lt
  simp only [UInt8.toNat_and, UInt8.toNat_ofNat', UInt8.toNat_shiftRight, Nat.shiftRight_eq_div_pow]
  show _ &&& 15 = _
  rw [and15]
  simp
  omega


/-! ### widening -/

/-- a byte stored as the low byte of a 32-bit lane whose other bytes are zero -/
def z8 (x : UInt8) : BitVec 32 := le32 x 0 0 0
/-- `cvtepu8_epi32` of one byte -/
def c8 (x : UInt8) : BitVec 32 := BitVec.ofNat 32 x.toNat
def c16 (x y : UInt8) : BitVec 32 := BitVec.ofNat 32 (x.toNat + 256 * y.toNat)

theorem z8_toNat : ∀ x : UInt8, (z8 x).toNat = x.toNat := forall_uint8 _ (by decide +kernel)
theorem c8_toNat (x : UInt8) : (c8 x).toNat = x.toNat := by
  have := x.toNat_lt
  simp [c8]
theorem c16_toNat (x y : UInt8) : (c16 x y).toNat = x.toNat + 256 * y.toNat := by
  have := x.toNat_lt; have := y.toNat_lt
  simp [c16]; omega

/-! ### 1 bit -/

theorem bits_z8 : ∀ x : UInt8, ((expand x).map z8).map (·.toNat) = sBits x := forall_uint8 _ (by decide +kernel)

theorem sse_32x1 (input : List UInt8) (h : input.length = 4) :
    some ((sseBitunpack32x1 input).map (·.toNat)) = bitUnpack 1 32 input := by
  obtain ⟨p0, p1, p2, p3, rfl⟩ := list_len4 input h
  have hm : sseBitunpack32x1 [p0, p1, p2, p3] =
      (expand p0).map z8 ++ (expand p1).map z8 ++ (expand p2).map z8 ++ (expand p3).map z8 := rfl
  have hs : bitUnpack 1 32 [p0, p1, p2, p3] = some (sBits p0 ++ sBits p1 ++ sBits p2 ++ sBits p3) := rfl
  rw [hm, hs]
  simp only [List.map_append, bits_z8]

def mBits (x : UInt8) : List (BitVec 32) :=
  (List.range 8).map fun i => BitVec.ofNat 32 ((x >>> UInt8.ofNat i) &&& 1).toNat

theorem bits_scalar : ∀ x : UInt8, (mBits x).map (·.toNat) = sBits x := forall_uint8 _ (by decide +kernel)

theorem avx2_64x1 (input : List UInt8) (h : input.length = 8) :
    some ((avx2Bitunpack64x1 input).map (·.toNat)) = bitUnpack 1 64 input := by
  obtain ⟨p0, p1, p2, p3, p4, p5, p6, p7, rfl⟩ := list_len8 input h
  have hm : avx2Bitunpack64x1 [p0, p1, p2, p3, p4, p5, p6, p7] =
      mBits p0 ++ mBits p1 ++ mBits p2 ++ mBits p3 ++ mBits p4 ++ mBits p5 ++ mBits p6 ++ mBits p7 := by
    simp [avx2Bitunpack64x1, mBits]
  have hs : bitUnpack 1 64 [p0, p1, p2, p3, p4, p5, p6, p7] =
      some (sBits p0 ++ sBits p1 ++ sBits p2 ++ sBits p3 ++ sBits p4 ++ sBits p5 ++ sBits p6 ++ sBits p7) := rfl
  rw [hm, hs]
  simp only [List.map_append, bits_scalar]

/-! ### 4 bits -/

def zLo (x : UInt8) : BitVec 32 := z8 (x &&& 0x0F)
def zHiLo (x y : UInt8) : BitVec 32 := z8 ((UInt8.ofNat ((x.toNat + 256 * y.toNat) >>> 4 % 256)) &&& 0x0F)
def zHiHi (x y : UInt8) : BitVec 32 := z8 ((UInt8.ofNat ((x.toNat + 256 * y.toNat) >>> 4 / 256)) &&& 0x0F)
def cLo (x : UInt8) : BitVec 32 := c8 (x &&& 0x0F)
def cHiLo (x y : UInt8) : BitVec 32 := c8 ((UInt8.ofNat ((x.toNat + 256 * y.toNat) >>> 4 % 256)) &&& 0x0F)
def cHiHi (x y : UInt8) : BitVec 32 := c8 ((UInt8.ofNat ((x.toNat + 256 * y.toNat) >>> 4 / 256)) &&& 0x0F)

theorem zLo_toNat (x : UInt8) : (zLo x).toNat = sNib x 0 := by rw [zLo, z8_toNat, sNib0_eq]
theorem zHiLo_toNat (x y : UInt8) : (zHiLo x y).toNat = sNib x 4 := by rw [zHiLo, hiNib_lo, z8_toNat, sNib4_eq]
theorem zHiHi_toNat (x y : UInt8) : (zHiHi x y).toNat = sNib y 4 := by rw [zHiHi, hiNib_hi, z8_toNat, sNib4_eq]
theorem cLo_toNat (x : UInt8) : (cLo x).toNat = sNib x 0 := by rw [cLo, c8_toNat, sNib0_eq]
theorem cHiLo_toNat (x y : UInt8) : (cHiLo x y).toNat = sNib x 4 := by rw [cHiLo, hiNib_lo, c8_toNat, sNib4_eq]
theorem cHiHi_toNat (x y : UInt8) : (cHiHi x y).toNat = sNib y 4 := by rw [cHiHi, hiNib_hi, c8_toNat, sNib4_eq]

theorem sse_8x4 (input : List UInt8) (h : input.length = 4) :
    some ((sseBitunpack8x4 input).map (·.toNat)) = bitUnpack 4 8 input := by
  obtain ⟨p0, p1, p2, p3, rfl⟩ := list_len4 input h
  have hm : sseBitunpack8x4 [p0, p1, p2, p3] =
      [zLo p0, zHiLo p0 p1, zLo p1, zHiHi p0 p1, zLo p2, zHiLo p2 p3, zLo p3, zHiHi p2 p3] := rfl
  have hs : bitUnpack 4 8 [p0, p1, p2, p3] =
      some [sNib p0 0, sNib p0 4, sNib p1 0, sNib p1 4, sNib p2 0, sNib p2 4, sNib p3 0, sNib p3 4] := rfl
  rw [hm, hs]
  simp only [List.map_cons, List.map_nil, zLo_toNat, zHiLo_toNat, zHiHi_toNat]

theorem avx2_16x4 (input : List UInt8) (h : input.length = 8) :
    some ((avx2Bitunpack16x4 input).map (·.toNat)) = bitUnpack 4 16 input := by
  obtain ⟨p0, p1, p2, p3, p4, p5, p6, p7, rfl⟩ := list_len8 input h
  have hm : avx2Bitunpack16x4 [p0, p1, p2, p3, p4, p5, p6, p7] =
      [cLo p0, cHiLo p0 p1, cLo p1, cHiHi p0 p1, cLo p2, cHiLo p2 p3, cLo p3, cHiHi p2 p3,
       cLo p4, cHiLo p4 p5, cLo p5, cHiHi p4 p5, cLo p6, cHiLo p6 p7, cLo p7, cHiHi p6 p7] := rfl
  have hs : bitUnpack 4 16 [p0, p1, p2, p3, p4, p5, p6, p7] =
      some [sNib p0 0, sNib p0 4, sNib p1 0, sNib p1 4, sNib p2 0, sNib p2 4, sNib p3 0, sNib p3 4,
            sNib p4 0, sNib p4 4, sNib p5 0, sNib p5 4, sNib p6 0, sNib p6 4, sNib p7 0, sNib p7 4] := rfl
  rw [hm, hs]
  simp only [List.map_cons, List.map_nil, cLo_toNat, cHiLo_toNat, cHiHi_toNat]

theorem avx512_32x4 (input : List UInt8) (h : input.length = 16) :
    some ((avx512Bitunpack32x4 input).map (·.toNat)) = bitUnpack 4 32 input := by
  obtain ⟨p0, p1, p2, p3, p4, p5, p6, p7, p8, p9, p10, p11, p12, p13, p14, p15, rfl⟩ := list_len16 input h
  have hm : avx512Bitunpack32x4 [p0, p1, p2, p3, p4, p5, p6, p7, p8, p9, p10, p11, p12, p13, p14, p15] =
      [cLo p0, cHiLo p0 p1, cLo p1, cHiHi p0 p1, cLo p2, cHiLo p2 p3, cLo p3, cHiHi p2 p3,
       cLo p4, cHiLo p4 p5, cLo p5, cHiHi p4 p5, cLo p6, cHiLo p6 p7, cLo p7, cHiHi p6 p7,
       cLo p8, cHiLo p8 p9, cLo p9, cHiHi p8 p9, cLo p10, cHiLo p10 p11, cLo p11, cHiHi p10 p11,
       cLo p12, cHiLo p12 p13, cLo p13, cHiHi p12 p13, cLo p14, cHiLo p14 p15, cLo p15, cHiHi p14 p15] := rfl
  have hs : bitUnpack 4 32 [p0, p1, p2, p3, p4, p5, p6, p7, p8, p9, p10, p11, p12, p13, p14, p15] =
      some [sNib p0 0, sNib p0 4, sNib p1 0, sNib p1 4, sNib p2 0, sNib p2 4, sNib p3 0, sNib p3 4,
            sNib p4 0, sNib p4 4, sNib p5 0, sNib p5 4, sNib p6 0, sNib p6 4, sNib p7 0, sNib p7 4,
            sNib p8 0, sNib p8 4, sNib p9 0, sNib p9 4, sNib p10 0, sNib p10 4, sNib p11 0, sNib p11 4,
            sNib p12 0, sNib p12 4, sNib p13 0, sNib p13 4, sNib p14 0, sNib p14 4, sNib p15 0, sNib p15 4] := rfl
  rw [hm, hs]
  simp only [List.map_cons, List.map_nil, cLo_toNat, cHiLo_toNat, cHiHi_toNat]

/-! ### 8 bits -/

theorem sse_8x8 (input : List UInt8) (h : input.length = 8) :
    some ((sseBitunpack8x8 input).map (·.toNat)) = bitUnpack 8 8 input := by
  obtain ⟨p0, p1, p2, p3, p4, p5, p6, p7, rfl⟩ := list_len8 input h
  have hm : sseBitunpack8x8 [p0, p1, p2, p3, p4, p5, p6, p7] =
      [z8 p0, z8 p1, z8 p2, z8 p3, z8 p4, z8 p5, z8 p6, z8 p7] := rfl
  have hs : bitUnpack 8 8 [p0, p1, p2, p3, p4, p5, p6, p7] =
      some [s8 p0, s8 p1, s8 p2, s8 p3, s8 p4, s8 p5, s8 p6, s8 p7] := rfl
  rw [hm, hs]
  simp only [List.map_cons, List.map_nil, z8_toNat, s8_eq]

theorem avx2_16x8 (input : List UInt8) (h : input.length = 16) :
    some ((avx2Bitunpack16x8 input).map (·.toNat)) = bitUnpack 8 16 input := by
  obtain ⟨p0, p1, p2, p3, p4, p5, p6, p7, p8, p9, p10, p11, p12, p13, p14, p15, rfl⟩ := list_len16 input h
  have hm : avx2Bitunpack16x8 [p0, p1, p2, p3, p4, p5, p6, p7, p8, p9, p10, p11, p12, p13, p14, p15] =
      [c8 p0, c8 p1, c8 p2, c8 p3, c8 p4, c8 p5, c8 p6, c8 p7, c8 p8, c8 p9, c8 p10, c8 p11, c8 p12, c8 p13,
       c8 p14, c8 p15] := rfl
  have hs : bitUnpack 8 16 [p0, p1, p2, p3, p4, p5, p6, p7, p8, p9, p10, p11, p12, p13, p14, p15] =
      some [s8 p0, s8 p1, s8 p2, s8 p3, s8 p4, s8 p5, s8 p6, s8 p7, s8 p8, s8 p9, s8 p10, s8 p11, s8 p12, s8 p13,
            s8 p14, s8 p15] := rfl
  rw [hm, hs]
  simp only [List.map_cons, List.map_nil, c8_toNat, s8_eq]

/-- a list of 32 = two lists of 16 -/
theorem split32 (input : List UInt8) (h : input.length = 32) :
    ∃ a b : List UInt8, a.length = 16 ∧ b.length = 16 ∧ input = a ++ b :=
  ⟨input.take 16, input.drop 16, by simp [h], by simp [h], (List.take_append_drop 16 input).symm⟩

theorem avx512_32x8 (input : List UInt8) (h : input.length = 32) :
    some ((avx512Bitunpack32x8 input).map (·.toNat)) = bitUnpack 8 32 input := by
  obtain ⟨a, b, ha, hb, rfl⟩ := split32 input h
  obtain ⟨p0, p1, p2, p3, p4, p5, p6, p7, p8, p9, p10, p11, p12, p13, p14, p15, rfl⟩ := list_len16 a ha
  obtain ⟨q0, q1, q2, q3, q4, q5, q6, q7, q8, q9, q10, q11, q12, q13, q14, q15, rfl⟩ := list_len16 b hb
  have hm : avx512Bitunpack32x8 ([p0, p1, p2, p3, p4, p5, p6, p7, p8, p9, p10, p11, p12, p13, p14, p15] ++
        [q0, q1, q2, q3, q4, q5, q6, q7, q8, q9, q10, q11, q12, q13, q14, q15]) =
      [c8 p0, c8 p1, c8 p2, c8 p3, c8 p4, c8 p5, c8 p6, c8 p7, c8 p8, c8 p9, c8 p10, c8 p11, c8 p12, c8 p13,
       c8 p14, c8 p15, c8 q0, c8 q1, c8 q2, c8 q3, c8 q4, c8 q5, c8 q6, c8 q7, c8 q8, c8 q9, c8 q10, c8 q11,
       c8 q12, c8 q13, c8 q14, c8 q15] := rfl
  have hs : bitUnpack 8 32 ([p0, p1, p2, p3, p4, p5, p6, p7, p8, p9, p10, p11, p12, p13, p14, p15] ++
        [q0, q1, q2, q3, q4, q5, q6, q7, q8, q9, q10, q11, q12, q13, q14, q15]) =
      some [s8 p0, s8 p1, s8 p2, s8 p3, s8 p4, s8 p5, s8 p6, s8 p7, s8 p8, s8 p9, s8 p10, s8 p11, s8 p12, s8 p13,
            s8 p14, s8 p15, s8 q0, s8 q1, s8 q2, s8 q3, s8 q4, s8 q5, s8 q6, s8 q7, s8 q8, s8 q9, s8 q10, s8 q11,
            s8 q12, s8 q13, s8 q14, s8 q15] := rfl
  rw [hm, hs]
  simp only [List.map_cons, List.map_nil, c8_toNat, s8_eq]

/-! ### 16 bits -/

theorem avx2_8x16 (input : List UInt8) (h : input.length = 16) :
    some ((avx2Bitunpack8x16 input).map (·.toNat)) = bitUnpack 16 8 input := by
  obtain ⟨p0, p1, p2, p3, p4, p5, p6, p7, p8, p9, p10, p11, p12, p13, p14, p15, rfl⟩ := list_len16 input h
  have hm : avx2Bitunpack8x16 [p0, p1, p2, p3, p4, p5, p6, p7, p8, p9, p10, p11, p12, p13, p14, p15] =
      [c16 p0 p1, c16 p2 p3, c16 p4 p5, c16 p6 p7, c16 p8 p9, c16 p10 p11, c16 p12 p13, c16 p14 p15] := rfl
  have hs : bitUnpack 16 8 [p0, p1, p2, p3, p4, p5, p6, p7, p8, p9, p10, p11, p12, p13, p14, p15] =
      some [s16 p0 p1, s16 p2 p3, s16 p4 p5, s16 p6 p7, s16 p8 p9, s16 p10 p11, s16 p12 p13, s16 p14 p15] := rfl
  rw [hm, hs]
  simp only [List.map_cons, List.map_nil, c16_toNat, s16_eq]

theorem avx512_16x16 (input : List UInt8) (h : input.length = 32) :
    some ((avx512Bitunpack16x16 input).map (·.toNat)) = bitUnpack 16 16 input := by
  obtain ⟨a, b, ha, hb, rfl⟩ := split32 input h
  obtain ⟨p0, p1, p2, p3, p4, p5, p6, p7, p8, p9, p10, p11, p12, p13, p14, p15, rfl⟩ := list_len16 a ha
  obtain ⟨q0, q1, q2, q3, q4, q5, q6, q7, q8, q9, q10, q11, q12, q13, q14, q15, rfl⟩ := list_len16 b hb
  have hm : avx512Bitunpack16x16 ([p0, p1, p2, p3, p4, p5, p6, p7, p8, p9, p10, p11, p12, p13, p14, p15] ++
        [q0, q1, q2, q3, q4, q5, q6, q7, q8, q9, q10, q11, q12, q13, q14, q15]) =
      [c16 p0 p1, c16 p2 p3, c16 p4 p5, c16 p6 p7, c16 p8 p9, c16 p10 p11, c16 p12 p13, c16 p14 p15,
       c16 q0 q1, c16 q2 q3, c16 q4 q5, c16 q6 q7, c16 q8 q9, c16 q10 q11, c16 q12 q13, c16 q14 q15] := rfl
  have hs : bitUnpack 16 16 ([p0, p1, p2, p3, p4, p5, p6, p7, p8, p9, p10, p11, p12, p13, p14, p15] ++
        [q0, q1, q2, q3, q4, q5, q6, q7, q8, q9, q10, q11, q12, q13, q14, q15]) =
      some [s16 p0 p1, s16 p2 p3, s16 p4 p5, s16 p6 p7, s16 p8 p9, s16 p10 p11, s16 p12 p13, s16 p14 p15,
            s16 q0 q1, s16 q2 q3, s16 q4 q5, s16 q6 q7, s16 q8 q9, s16 q10 q11, s16 q12 q13, s16 q14 q15] := rfl
  rw [hm, hs]
  simp only [List.map_cons, List.map_nil, c16_toNat, s16_eq]

end Carquet.Proofs.SimdBitunpack
