import Carquet.Spec.File.Admissible
import Carquet.Proofs.SpecFileEnvelope
/-
The stored-block GZIP members of `Spec.File.gzipStored` are decodable: a reader of RFC 1952 /
RFC 1951 stored blocks (`gunzipStored`, defined here for the proof only) recovers the data, provided
the FNAME field holds no zero byte (it is zero-terminated).  Hence two members with the same bytes
hold the same data — what the coherence of the writer's oracle table needs.
-/
namespace Carquet.Proofs.SpecFile
open Carquet.Spec Carquet.Spec.File

/-- stored deflate blocks up to and including the final one: the data and what follows -/
def unstore : Nat → Bytes → Option (Bytes × Bytes)
  | 0, _ => none
  | f + 1, bs =>
    if bs.length < 5 then none
    else if (bs.drop 5).length < leNat ((bs.drop 1).take 2) then none
    else if bs.take 1 = [1] then
      some ((bs.drop 5).take (leNat ((bs.drop 1).take 2)), (bs.drop 5).drop (leNat ((bs.drop 1).take 2)))
    else if bs.take 1 = [0] then
      match unstore f ((bs.drop 5).drop (leNat ((bs.drop 1).take 2))) with
      | some (d, r) => some ((bs.drop 5).take (leNat ((bs.drop 1).take 2)) ++ d, r)
      | none => none
    else none

theorem storedBlock_shape (final : Bool) (piece rest : Bytes) :
    storedBlock final piece ++ rest =
      (if final then (1 : UInt8) else 0) :: (File.leBytes 2 piece.length ++ (File.leBytes 2 (65535 - piece.length) ++ (piece ++ rest))) := by
  simp [storedBlock, List.append_assoc]

theorem unstore_block (f : Nat) (final : Bool) (piece rest : Bytes) (hl : piece.length ≤ 65535) :
    unstore (f + 1) (storedBlock final piece ++ rest) =
      if final then some (piece, rest)
      else match unstore f rest with
        | some (d, r) => some (piece ++ d, r)
        | none => none := by
  rw [storedBlock_shape]
  have hlen2 : (File.leBytes 2 piece.length).length = 2 := leBytes_length 2 _
  have hlen2' : (File.leBytes 2 (65535 - piece.length)).length = 2 := leBytes_length 2 _
  have hn : leNat (File.leBytes 2 piece.length) = piece.length := leNat_leBytes 2 _ (by omega)
  generalize hu : unstore f rest = u
  unfold unstore
  have hd1 : ∀ (x : UInt8) (l : Bytes), (x :: l).drop 1 = l := fun _ _ => rfl
  have ht1 : ∀ (x : UInt8) (l : Bytes), (x :: l).take 1 = [x] := fun _ _ => by simp
  have hd5 : ∀ (x : UInt8), (x :: (File.leBytes 2 piece.length ++ (File.leBytes 2 (65535 - piece.length) ++ (piece ++ rest)))).drop 5
      = piece ++ rest := by
    intro x
    have : (5 : Nat) = 1 + (2 + 2) := rfl
    rw [this, ← List.drop_drop, hd1, ← List.drop_drop, List.drop_left' hlen2, List.drop_left' hlen2']
  have hlen5 : ∀ (x : UInt8), ¬ ((x :: (File.leBytes 2 piece.length ++ (File.leBytes 2 (65535 - piece.length) ++ (piece ++ rest)))).length < 5) := by
    intro x; simp [hlen2, hlen2']; omega
  simp only [hd1, ht1, hd5, hlen5, if_false, List.take_left' hlen2, hn, List.length_append, List.take_left, List.drop_left]
  have hlt : ¬ (piece.length + rest.length < piece.length) := by omega
  simp only [hlt, if_false, hu]
  cases final with
  | true => simp
  | false => simp

/-- every piece fits a stored block -/
theorem unstore_storedBlocks : ∀ (ps : List Bytes) (rest : Bytes) (f : Nat), (∀ p ∈ ps, p.length ≤ 65535) → ps.length < f →
    unstore f (storedBlocks ps ++ rest) = some (ps.flatten, rest)
  | [], rest, f, _, hf => by
    cases f with
    | zero => omega
    | succ f => rw [storedBlocks, unstore_block f true [] rest (by simp)]; simp
  | [p], rest, f, hp, hf => by
    cases f with
    | zero => omega
    | succ f => rw [storedBlocks, unstore_block f true p rest (hp p (by simp))]; simp
  | p :: q :: r, rest, f, hp, hf => by
    cases f with
    | zero => omega
    | succ f =>
      have ih := unstore_storedBlocks (q :: r) rest f (fun x hx => hp x (by simp [hx])) (by simp at hf ⊢; omega)
      rw [storedBlocks, List.append_assoc, unstore_block f false p _ (hp p (by simp)), ih]
      simp

theorem chunksOf_flatten (k : Nat) : ∀ (fuel : Nat) (bs : Bytes), bs.length ≤ fuel → (chunksOf k fuel bs).flatten = bs
  | 0, bs, h => by
    have : bs = [] := List.length_eq_zero_iff.mp (by omega)
    subst this; rfl
  | fuel + 1, bs, h => by
    unfold chunksOf
    by_cases hb : bs = []
    · simp [hb]
    · have hpos : 0 < bs.length := List.length_pos_iff.mpr hb
      have ih := chunksOf_flatten k fuel (bs.drop (max k 1)) (by simp only [List.length_drop]; omega)
      simp only [hb, if_false, List.flatten_cons, ih, List.take_append_drop]

theorem chunksOf_piece_le (k : Nat) : ∀ (fuel : Nat) (bs : Bytes), ∀ p ∈ chunksOf k fuel bs, p.length ≤ max k 1
  | 0, _, p, hp => by simp [chunksOf] at hp
  | fuel + 1, bs, p, hp => by
    unfold chunksOf at hp
    by_cases hb : bs = []
    · simp [hb] at hp
    · simp only [hb, if_false, List.mem_cons] at hp
      rcases hp with rfl | hp
      · simp only [List.length_take]; omega
      · exact chunksOf_piece_le k fuel _ p hp

theorem chunksOf_length_le (k : Nat) : ∀ (fuel : Nat) (bs : Bytes), (chunksOf k fuel bs).length ≤ fuel
  | 0, _ => by simp [chunksOf]
  | fuel + 1, bs => by
    unfold chunksOf
    by_cases hb : bs = []
    · simp [hb]
    · have := chunksOf_length_le k fuel (bs.drop (max k 1))
      simp only [hb, if_false, List.length_cons]; omega

/-- the rest of a zero-terminated string -/
def skipName : Bytes → Option Bytes
  | [] => none
  | b :: r => if b = 0 then some r else skipName r

theorem skipName_name : ∀ (n rest : Bytes), n.all (· != 0) = true → skipName (n ++ 0 :: rest) = some rest
  | [], rest, _ => by simp [skipName]
  | b :: r, rest, h => by
    simp only [List.all_cons, Bool.and_eq_true, bne_iff_ne, ne_eq] at h
    simp only [List.cons_append, skipName, h.1, if_false]
    exact skipName_name r rest h.2

/-- a reader of gzip members whose deflate stream consists of stored blocks (for the proof only) -/
def gunzipStored (bs : Bytes) : Option Bytes :=
  if bs.take 3 ≠ [0x1f, 0x8b, 8] then none
  else
    match (if (bs.drop 3).take 1 = [8] then skipName (bs.drop 10)
           else if (bs.drop 3).take 1 = [0] then some (bs.drop 10) else none) with
    | some r =>
      match unstore (r.length + 1) r with
      | some (d, _) => some d
      | none => none
    | none => none

theorem gunzipStored_gzipStored (k : Nat) (name : Option Bytes) (data : Bytes) (hn : fnameOk name = true) :
    gunzipStored (gzipStored k name data) = some data := by
  have hk : max (min (max k 1) 65535) 1 ≤ 65535 := by omega
  have hps : ∀ p ∈ chunksOf (min (max k 1) 65535) data.length data, p.length ≤ 65535 :=
    fun p hp => Nat.le_trans (chunksOf_piece_le _ _ _ p hp) hk
  have hfl := chunksOf_flatten (min (max k 1) 65535) data.length data (Nat.le_refl _)
  have hcl := chunksOf_length_le (min (max k 1) 65535) data.length data
  generalize hps' : chunksOf (min (max k 1) 65535) data.length data = ps at hps hfl hcl
  generalize htr : File.leBytes 4 (Crc32.crc32 data).toNat ++ File.leBytes 4 (data.length % 2 ^ 32) = trailer
  have hblocks : ∀ f, ps.length < f → unstore f (storedBlocks ps ++ trailer) = some (data, trailer) := by
    intro f hf
    rw [unstore_storedBlocks ps trailer f hps hf, hfl]
  have hsl : ps.length < (storedBlocks ps ++ trailer).length + 1 := by
    have : ps.length ≤ (storedBlocks ps).length := by
      clear hblocks hfl hcl hps hps'
      induction ps with
      | nil => simp
      | cons p r ih =>
        cases r with
        | nil => simp [storedBlocks, storedBlock]
        | cons q r' =>
          simp only [storedBlocks, List.length_append, List.length_cons] at ih ⊢
          have : 0 < (storedBlock false p).length := by simp [storedBlock]
          omega
    simp only [List.length_append]; omega
  unfold gzipStored
  rw [hps']
  cases name with
  | none =>
    simp only [List.append_nil, List.append_assoc, htr]
    unfold gunzipStored
    simp only [List.cons_append, List.nil_append, List.take_succ_cons, List.take_zero, List.drop_succ_cons, List.drop_zero,
      ne_eq, not_true_eq_false, if_false]
    have h80 : ¬ (([0] : Bytes) = [8]) := by decide
    simp only [h80, if_false, if_true]
    rw [hblocks _ hsl]
  | some n =>
    simp only [fnameOk] at hn
    simp only [List.append_assoc, htr]
    unfold gunzipStored
    simp only [List.cons_append, List.nil_append, List.take_succ_cons, List.take_zero, List.drop_succ_cons, List.drop_zero,
      ne_eq, not_true_eq_false, if_false, if_true]
    rw [skipName_name n _ hn]
    simp only []
    rw [hblocks _ hsl]

end Carquet.Proofs.SpecFile
