import Carquet.Proofs.CursorBasic
import Carquet.Proofs.CursorLoad
/-
C02, column reader: the abstraction invariant (`Inv`, `pending`) and the refinement of
`Spec.Cursor` by `Impl.ColumnReader` — one `carquet_read_next_page`, the `read_batch` loop, the
`skip` loop, one API call, a whole history.
-/
namespace Carquet.Proofs.Cursor
open Carquet.Spec.Cursor (Row Op)
open Carquet.Impl.ColumnReader

/-! ### valid chunks -/

/-- A decoded page of a valid file: one repetition level per row, as many values as rows at the
maximum definition level, no level above the maximum.  A page may be EMPTY (no rows; F63). -/
def PageOk (maxDef : Nat) (p : Page α) : Prop :=
  p.reps.length = p.defs.length ∧ p.vals.length = nn maxDef p.defs ∧ ∀ d ∈ p.defs, d ≤ maxDef

def rowsOfPage (maxDef : Nat) (p : Page α) : List (Row α) := pageRows maxDef p.defs p.reps p.vals

def rowsOfPages (maxDef : Nat) : List (Option (Page α)) → List (Row α)
  | [] => []
  | some p :: ps => rowsOfPage maxDef p ++ rowsOfPages maxDef ps
  | none :: ps => rowsOfPages maxDef ps

/-- The rows of a chunk: concatenation of the rows of its pages. -/
def chunkRows (c : Chunk α) : List (Row α) := rowsOfPages c.maxDef c.pages

/-- A chunk of a valid file: every page loads and is well formed, and the metadata's `num_values`
is the number of rows. -/
def ChunkOk (c : Chunk α) : Prop :=
  (∀ p ∈ c.pages, ∃ q, p = some q ∧ PageOk c.maxDef q) ∧ c.numValues = (chunkRows c).length

/-! ### field lemmas for the state updates -/

section fields
variable (fx : Fixes) (r : Reader α) (p : Page α) (n : Nat)

@[simp] theorem swapPageData_chunk : (swapPageData fx r).chunk = r.chunk := by
  unfold swapPageData; split <;> (try split) <;> rfl
@[simp] theorem swapPageData_valuesRemaining : (swapPageData fx r).valuesRemaining = r.valuesRemaining := by
  unfold swapPageData; split <;> (try split) <;> rfl
@[simp] theorem swapPageData_currentPage : (swapPageData fx r).currentPage = r.currentPage := by
  unfold swapPageData; split <;> (try split) <;> rfl

@[simp] theorem installPage_chunk : (installPage fx r p).chunk = r.chunk := by simp [installPage]
@[simp] theorem installPage_valuesRemaining : (installPage fx r p).valuesRemaining = r.valuesRemaining := by
  simp [installPage]
@[simp] theorem installPage_currentPage : (installPage fx r p).currentPage = r.currentPage := by simp [installPage]
@[simp] theorem installPage_pageLoaded : (installPage fx r p).pageLoaded = true := rfl
@[simp] theorem installPage_pageNumValues : (installPage fx r p).pageNumValues = p.defs.length := rfl
@[simp] theorem installPage_pageValuesRead : (installPage fx r p).pageValuesRead = 0 := rfl
@[simp] theorem installPage_pageNonNullRead : (installPage fx r p).pageNonNullRead = 0 := rfl
@[simp] theorem installPage_decodedDefs : (installPage fx r p).decodedDefs = p.defs := rfl
@[simp] theorem installPage_decodedReps : (installPage fx r p).decodedReps = p.reps := rfl
@[simp] theorem installPage_decodedVals : (installPage fx r p).decodedVals = p.vals := rfl
@[simp] theorem installPage_ownershipView : (installPage fx r p).ownershipView = r.chunk.view := rfl

@[simp] theorem advance_chunk : (advance r).chunk = r.chunk := by unfold advance; split <;> rfl
@[simp] theorem advance_valuesRemaining : (advance r).valuesRemaining = r.valuesRemaining := by
  unfold advance; split <;> rfl
@[simp] theorem advance_pageLoaded : (advance r).pageLoaded = false := by
  unfold advance; split
  · rfl
  · rename_i h; simpa using h
theorem advance_currentPage : (advance r).currentPage = if r.pageLoaded then r.currentPage + 1 else r.currentPage := by
  unfold advance; split <;> rfl

@[simp] theorem consume_chunk : (consume fx r n).chunk = r.chunk := rfl
@[simp] theorem consume_pageLoaded : (consume fx r n).pageLoaded = r.pageLoaded := rfl
@[simp] theorem consume_currentPage : (consume fx r n).currentPage = r.currentPage := rfl
@[simp] theorem consume_pageNumValues : (consume fx r n).pageNumValues = r.pageNumValues := rfl
@[simp] theorem consume_pageValuesRead : (consume fx r n).pageValuesRead = r.pageValuesRead + n := rfl
@[simp] theorem consume_pageNonNullRead :
    (consume fx r n).pageNonNullRead = r.pageNonNullRead + copyCount fx r n := rfl
@[simp] theorem consume_valuesRemaining : (consume fx r n).valuesRemaining = r.valuesRemaining - n := rfl
@[simp] theorem consume_decodedDefs : (consume fx r n).decodedDefs = r.decodedDefs := rfl
@[simp] theorem consume_decodedReps : (consume fx r n).decodedReps = r.decodedReps := rfl
@[simp] theorem consume_decodedVals : (consume fx r n).decodedVals = r.decodedVals := rfl
@[simp] theorem consume_ownershipView : (consume fx r n).ownershipView = r.ownershipView := rfl

@[simp] theorem releaseRetired_chunk : (releaseRetired fx r).chunk = r.chunk := by
  unfold releaseRetired; split <;> rfl
@[simp] theorem releaseRetired_valuesRemaining : (releaseRetired fx r).valuesRemaining = r.valuesRemaining := by
  unfold releaseRetired; split <;> rfl
@[simp] theorem releaseRetired_currentPage : (releaseRetired fx r).currentPage = r.currentPage := by
  unfold releaseRetired; split <;> rfl
@[simp] theorem releaseRetired_pageLoaded : (releaseRetired fx r).pageLoaded = r.pageLoaded := by
  unfold releaseRetired; split <;> rfl
@[simp] theorem releaseRetired_pageNumValues : (releaseRetired fx r).pageNumValues = r.pageNumValues := by
  unfold releaseRetired; split <;> rfl
@[simp] theorem releaseRetired_pageValuesRead : (releaseRetired fx r).pageValuesRead = r.pageValuesRead := by
  unfold releaseRetired; split <;> rfl
@[simp] theorem releaseRetired_pageNonNullRead : (releaseRetired fx r).pageNonNullRead = r.pageNonNullRead := by
  unfold releaseRetired; split <;> rfl
@[simp] theorem releaseRetired_decodedDefs : (releaseRetired fx r).decodedDefs = r.decodedDefs := by
  unfold releaseRetired; split <;> rfl
@[simp] theorem releaseRetired_decodedReps : (releaseRetired fx r).decodedReps = r.decodedReps := by
  unfold releaseRetired; split <;> rfl
@[simp] theorem releaseRetired_decodedVals : (releaseRetired fx r).decodedVals = r.decodedVals := by
  unfold releaseRetired; split <;> rfl
@[simp] theorem releaseRetired_ownershipView : (releaseRetired fx r).ownershipView = r.ownershipView := by
  unfold releaseRetired; split <;> rfl

end fields

/-! ### the abstraction -/

/-- Unread rows of the loaded page. -/
def curRows (r : Reader α) : List (Row α) :=
  pageRows r.chunk.maxDef (r.decodedDefs.drop r.pageValuesRead) (r.decodedReps.drop r.pageValuesRead)
    (r.decodedVals.drop r.pageNonNullRead)

/-- Rows the reader has not delivered yet: rest of the loaded page, then the pages behind it. -/
def pending (r : Reader α) : List (Row α) :=
  if r.pageLoaded then curRows r ++ rowsOfPages r.chunk.maxDef (r.chunk.pages.drop (r.currentPage + 1))
  else rowsOfPages r.chunk.maxDef (r.chunk.pages.drop r.currentPage)

/-- Representation invariant of a column reader over a valid chunk. -/
structure Inv (r : Reader α) : Prop where
  pagesOk : ∀ p ∈ r.chunk.pages, ∃ q, p = some q ∧ PageOk r.chunk.maxDef q
  rem : r.valuesRemaining = (pending r).length
  numVals : r.pageLoaded = true → r.pageNumValues = r.decodedDefs.length
  readLe : r.pageLoaded = true → r.pageValuesRead ≤ r.pageNumValues
  repsLen : r.pageLoaded = true → r.decodedReps.length = r.decodedDefs.length
  nnLe : r.pageLoaded = true → r.pageNonNullRead ≤ r.decodedVals.length
  valsLen : r.pageLoaded = true →
    r.decodedVals.length - r.pageNonNullRead = nn r.chunk.maxDef (r.decodedDefs.drop r.pageValuesRead)
  defsLe : r.pageLoaded = true → ∀ d ∈ r.decodedDefs, d ≤ r.chunk.maxDef
  nnEq : r.pageLoaded = true → r.pageNonNullRead = nn r.chunk.maxDef (r.decodedDefs.take r.pageValuesRead)

theorem pending_getColumn (c : Chunk α) : pending (getColumn c) = chunkRows c := by
  simp [pending, getColumn, chunkRows]

theorem inv_getColumn (c : Chunk α) (h : ChunkOk c) : Inv (getColumn c) := by
  refine ⟨h.1, ?_, ?_, ?_, ?_, ?_, ?_, ?_, ?_⟩
  · rw [pending_getColumn]; exact h.2
  all_goals (intro hl; simp [getColumn] at hl)

theorem pending_releaseRetired (fx : Fixes) (r : Reader α) : pending (releaseRetired fx r) = pending r := by
  simp [pending, curRows]

theorem inv_releaseRetired (fx : Fixes) (r : Reader α) (h : Inv r) : Inv (releaseRetired fx r) := by
  refine ⟨?_, ?_, ?_, ?_, ?_, ?_, ?_, ?_, ?_⟩
  · simpa using h.pagesOk
  · rw [pending_releaseRetired]; simpa using h.rem
  · simpa using h.numVals
  · simpa using h.readLe
  · simpa using h.repsLen
  · simpa using h.nnLe
  · simpa using h.valsLen
  · simpa using h.defsLe
  · simpa using h.nnEq

theorem nn_zero_of_le (ds : List Nat) (h : ∀ d ∈ ds, d ≤ 0) : nn 0 ds = ds.length := by
  induction ds with
  | nil => simp [nn]
  | cons d ds ih =>
    have hd : d = 0 := by have := h d (by simp); omega
    rw [nn_cons, ih (fun x hx => h x (by simp [hx]))]
    simp [hd]; omega

theorem nn_take_add_drop (maxDef : Nat) (ds : List Nat) (n : Nat) :
    nn maxDef (ds.take n) + nn maxDef (ds.drop n) = nn maxDef ds := by
  rw [← nn_append, List.take_append_drop]

theorem rowsOfPages_cons_of_drop (_maxDef : Nat) (pages : List (Option (Page α))) (i : Nat) (q : Page α)
    (rest : List (Option (Page α))) (h : pages.drop i = some q :: rest) :
    pages[i]? = some (some q) ∧ pages.drop (i + 1) = rest := by
  constructor
  · have := congrArg List.head? h
    simpa [List.head?_drop] using this
  · have : pages.drop (i + 1) = (pages.drop i).drop 1 := by simp [List.drop_drop]
    rw [this, h]; rfl

theorem map_some_def (l : List (Row α)) :
    l.map (fun row => some row.defLevel) = (l.map (·.defLevel)).map some := by simp
theorem map_some_rep (l : List (Row α)) :
    l.map (fun row => some row.repLevel) = (l.map (·.repLevel)).map some := by simp

theorem pending_consume (fx : Fixes) (r : Reader α) (n : Nat) (hl : r.pageLoaded = true) :
    pending (consume fx r n) =
      pageRows r.chunk.maxDef (r.decodedDefs.drop (r.pageValuesRead + n)) (r.decodedReps.drop (r.pageValuesRead + n))
        (r.decodedVals.drop (r.pageNonNullRead + copyCount fx r n)) ++
      rowsOfPages r.chunk.maxDef (r.chunk.pages.drop (r.currentPage + 1)) := by
  unfold pending
  rw [consume_pageLoaded, hl]
  rfl

@[simp] theorem installEmpty_chunk (r : Reader α) : (installEmpty r).chunk = r.chunk := rfl
@[simp] theorem installEmpty_valuesRemaining (r : Reader α) : (installEmpty r).valuesRemaining = r.valuesRemaining := rfl
@[simp] theorem installEmpty_currentPage (r : Reader α) : (installEmpty r).currentPage = r.currentPage := rfl
@[simp] theorem installEmpty_pageLoaded (r : Reader α) : (installEmpty r).pageLoaded = true := rfl

theorem rowsOfPage_empty (maxDef : Nat) (q : Page α) (h : q.defs.length = 0) : rowsOfPage maxDef q = [] := by
  unfold rowsOfPage
  rw [List.eq_nil_of_length_eq_zero h, pageRows_nil_defs]

/-- The page-load loop over a valid chunk, started in ANY state that needs a load (also the
intermediate state after an empty page, whose decoded buffers are stale): when rows are left in the
pages from the next index on, the loop steps over the empty pages and loads the first page with
rows; nothing is delivered. -/
theorem prepareLoop_ok : ∀ (fuel : Nat) (r : Reader α),
    (∀ p ∈ r.chunk.pages, ∃ q, p = some q ∧ PageOk r.chunk.maxDef q) →
    needLoad r = true →
    r.valuesRemaining = (rowsOfPages r.chunk.maxDef (r.chunk.pages.drop (advance r).currentPage)).length →
    rowsOfPages r.chunk.maxDef (r.chunk.pages.drop (advance r).currentPage) ≠ [] →
    r.chunk.pages.length - (advance r).currentPage < fuel →
    ∃ r1, prepareLoop Fixes.all fuel r = (r1, none) ∧ Inv r1 ∧
      pending r1 = rowsOfPages r.chunk.maxDef (r.chunk.pages.drop (advance r).currentPage) ∧ r1.chunk = r.chunk ∧
      r1.pageLoaded = true ∧ r1.pageValuesRead < r1.pageNumValues := by
  intro fuel
  induction fuel with
  | zero => intro r _ _ _ _ hf; omega
  | succ fuel ih =>
    intro r hpages hn hrem hne hf
    unfold prepareLoop
    simp only [hn, if_true]
    cases hd : r.chunk.pages.drop (advance r).currentPage with
    | nil => simp [hd, rowsOfPages] at hne
    | cons x rest =>
      have hx : x ∈ r.chunk.pages := by
        have : x ∈ r.chunk.pages.drop (advance r).currentPage := by simp [hd]
        exact List.mem_of_mem_drop this
      obtain ⟨q, rfl, hq⟩ := hpages x hx
      obtain ⟨hget, hrest⟩ := rowsOfPages_cons_of_drop r.chunk.maxDef _ _ q rest hd
      have hlt : (advance r).currentPage < r.chunk.pages.length := (List.getElem?_eq_some_iff.mp hget).1
      have hfits : ¬ ((q.defs.length : Int) > (advance r).valuesRemaining) := by
        have h1 := hrem
        rw [hd] at h1
        simp only [rowsOfPages, List.length_append, rowsOfPage] at h1
        rw [length_pageRows _ _ _ _ (by rw [hq.1]; exact Nat.le_refl _)] at h1
        rw [advance_valuesRemaining, h1]
        omega
      by_cases he : q.defs.length = 0
      · -- an empty page: stepped over
        have hload : loadNextPage Fixes.all (advance r) = .ok (installEmpty (advance r)) := by
          simp only [loadNextPage, advance_chunk, hget, hfits, if_false]
          simp [Fixes.all, he]
        simp only [hload]
        have hf63 : Fixes.all.f63 = true := rfl
        simp only [hf63, if_true]
        have hadv : (advance (installEmpty (advance r))).currentPage = (advance r).currentPage + 1 := by
          rw [advance_of_loaded _ (installEmpty_pageLoaded _)]; rfl
        have hrows : rowsOfPages r.chunk.maxDef (r.chunk.pages.drop ((advance r).currentPage + 1)) =
            rowsOfPages r.chunk.maxDef (r.chunk.pages.drop (advance r).currentPage) := by
          rw [hd, hrest]
          simp [rowsOfPages, rowsOfPage_empty _ q he]
        obtain ⟨r1, h1, h2, h3, h4, h5, h6⟩ := ih (installEmpty (advance r))
          (by simpa using hpages)
          (by simp [needLoad, installEmpty])
          (by rw [hadv]; simp only [installEmpty_chunk, installEmpty_valuesRemaining, advance_chunk,
                advance_valuesRemaining]; rw [hrows]; exact hrem)
          (by rw [hadv]; simp only [installEmpty_chunk, advance_chunk]; rw [hrows]; exact hne)
          (by rw [hadv]; simp only [installEmpty_chunk, advance_chunk]; omega)
        refine ⟨r1, h1, h2, ?_, by rw [h4]; simp, h5, h6⟩
        rw [h3, hadv]; simp only [installEmpty_chunk, advance_chunk]; rw [hrows, hd]
      · -- a page with rows: loaded, the loop ends
        have hload : loadNextPage Fixes.all (advance r) = .ok (installPage Fixes.all (advance r) q) := by
          simp only [loadNextPage, advance_chunk, hget, hfits, if_false]
          simp [he]
        simp only [hload]
        have hf63 : Fixes.all.f63 = true := rfl
        simp only [hf63, if_true]
        have hnl : needLoad (installPage Fixes.all (advance r) q) = false := by
          simp only [needLoad, installPage_pageLoaded, installPage_pageValuesRead, installPage_pageNumValues]
          have hge : ¬ (0 ≥ q.defs.length) := by omega
          simp only [hge, decide_false]; rfl
        have hfuel : ∃ f, fuel = f + 1 := ⟨fuel - 1, by omega⟩
        obtain ⟨f, rfl⟩ := hfuel
        unfold prepareLoop
        simp only [hnl, Bool.false_eq_true, if_false]
        have hpend : pending (installPage Fixes.all (advance r) q) =
            rowsOfPages r.chunk.maxDef (r.chunk.pages.drop (advance r).currentPage) := by
          rw [hd]
          simp [pending, curRows, rowsOfPages, rowsOfPage, hrest]
        refine ⟨_, rfl, ?_, by rw [← hd]; exact hpend, by simp, by simp, ?_⟩
        · refine ⟨?_, ?_, ?_, ?_, ?_, ?_, ?_, ?_, ?_⟩
          · simpa using hpages
          · rw [hpend]; simpa using hrem
          · intro _; simp
          · intro _; simp
          · intro _; simpa using hq.1
          · intro _; simp
          · intro _; simpa using hq.2.1
          · intro _; simpa using hq.2.2
          · intro _; simp [nn]
        · simp; omega

/-- `carquet_read_next_page`, first half: over a valid chunk with rows left a page with unread rows
gets loaded (or already is) — empty pages on the way are stepped over; nothing is delivered. -/
theorem preparePage_ok (r : Reader α) (h : Inv r) (hne : pending r ≠ []) :
    ∃ r1, preparePage Fixes.all r = (r1, none) ∧ Inv r1 ∧ pending r1 = pending r ∧ r1.chunk = r.chunk ∧
      r1.pageLoaded = true ∧ r1.pageValuesRead < r1.pageNumValues := by
  rw [preparePage_eq_loop Fixes.all r (r.chunk.pages.length + 1) (by omega)]
  by_cases hn : needLoad r = true
  · -- the rows left all lie in pages behind `advance r`
    have hp : pending r = rowsOfPages r.chunk.maxDef (r.chunk.pages.drop (advance r).currentPage) := by
      rw [advance_currentPage]
      unfold pending
      by_cases hl : r.pageLoaded = true
      · simp only [hl, if_true]
        have hge : r.pageValuesRead ≥ r.pageNumValues := by
          simpa [needLoad, hl] using hn
        have : curRows r = [] := by
          unfold curRows
          have : r.decodedDefs.drop r.pageValuesRead = [] := by
            rw [List.drop_eq_nil_iff, ← h.numVals hl]; exact hge
          rw [this, pageRows_nil_defs]
        simp [this]
      · simp [hl]
    obtain ⟨r1, h1, h2, h3, h4, h5, h6⟩ := prepareLoop_ok (r.chunk.pages.length + 1) r h.pagesOk hn
      (by rw [← hp]; exact h.rem) (by rw [← hp]; exact hne) (by omega)
    exact ⟨r1, h1, h2, by rw [h3, hp], h4, h5, h6⟩
  · have hn' : needLoad r = false := by simpa using hn
    unfold prepareLoop
    simp only [hn', Bool.false_eq_true, if_false]
    have hl : r.pageLoaded = true := by
      cases hpl : r.pageLoaded with
      | true => rfl
      | false => simp [needLoad, hpl] at hn'
    have hlt : r.pageValuesRead < r.pageNumValues := by
      simpa [needLoad, hl] using hn'
    exact ⟨r, rfl, h, rfl, rfl, hl, hlt⟩

theorem toInt32_of_small (m : Nat) (h : m < 2147483648) : toInt32 (m : Int) = m := by
  unfold toInt32; omega

/-- What one `carquet_read_next_page` call does over a valid chunk with rows left:
it delivers a non-empty prefix of the pending rows (at most `m`), levels per row and values dense. -/
theorem readNextPage_ok (r : Reader α) (h : Inv r) (hne : pending r ≠ []) (m : Nat) (hm : 0 < m)
    (hm2 : m < 2147483648) :
    ∃ r' c, readNextPage Fixes.all r (m : Int) = (r', .ok c) ∧ Inv r' ∧ r'.chunk = r.chunk ∧
      1 ≤ c.rows ∧ c.rows ≤ m ∧ c.rows ≤ (pending r).length ∧
      c.defs = ((pending r).take c.rows).map (fun row => some row.defLevel) ∧
      c.reps = ((pending r).take c.rows).map (fun row => some row.repLevel) ∧
      c.vals = (((pending r).take c.rows).filterMap (·.val)).map some ∧
      c.nonNull = (((pending r).take c.rows).filterMap (·.val)).length ∧
      pending r' = (pending r).drop c.rows := by
  obtain ⟨r1, hprep, hinv1, hpend1, hchunk1, hl, hlt⟩ := preparePage_ok r h hne
  -- abbreviations
  have hN := hinv1.numVals hl
  have hR := hinv1.repsLen hl
  have hV := hinv1.valsLen hl
  have hnnLe := hinv1.nnLe hl
  have hdefsLe := hinv1.defsLe hl
  -- to_copy
  have hcopy : toCopyOf r1 (m : Int) = ((min m (r1.pageNumValues - r1.pageValuesRead) : Nat) : Int) := by
    unfold toCopyOf available
    rw [toInt32_of_small m hm2]
    split <;> omega
  clear hm2
  generalize hn : min m (r1.pageNumValues - r1.pageValuesRead) = n at hcopy
  have hnm : n ≤ m := by rw [← hn]; exact Nat.min_le_left _ _
  have hnav : n ≤ r1.pageNumValues - r1.pageValuesRead := by rw [← hn]; exact Nat.min_le_right _ _
  have hnpos : 1 ≤ n := by
    rw [← hn]; exact Nat.le_min.mpr ⟨hm, Nat.sub_pos_of_lt hlt⟩
  clear hn
  have hnle : r1.pageValuesRead + n ≤ r1.decodedDefs.length := by omega
  unfold readNextPage
  simp only [hprep, hcopy]
  have hneg : ¬ ((n : Int) < 0) := by omega
  simp only [hneg, if_false, Int.toNat_natCast]
  -- the rest of the loaded page
  have hlenD : (r1.decodedDefs.drop r1.pageValuesRead).length ≤ (r1.decodedReps.drop r1.pageValuesRead).length := by
    simp [hR]
  have hnnV : nn r1.chunk.maxDef (r1.decodedDefs.drop r1.pageValuesRead) ≤
      (r1.decodedVals.drop r1.pageNonNullRead).length := by
    simp [hV]
  have hcurlen : (curRows r1).length = r1.decodedDefs.length - r1.pageValuesRead := by
    unfold curRows; rw [length_pageRows _ _ _ _ hlenD]; simp
  have hpend1' : pending r1 = curRows r1 ++ rowsOfPages r1.chunk.maxDef (r1.chunk.pages.drop (r1.currentPage + 1)) := by
    simp [pending, hl]
  have hncur : n ≤ (curRows r1).length := by rw [hcurlen]; omega
  have htake : (pending r).take n = (curRows r1).take n := by
    rw [← hpend1, hpend1', List.take_append_of_le_length hncur]
  have hdrop : (pending r).drop n = (curRows r1).drop n ++
      rowsOfPages r1.chunk.maxDef (r1.chunk.pages.drop (r1.currentPage + 1)) := by
    rw [← hpend1, hpend1', List.drop_append_of_le_length hncur]
  -- number of values copied
  have hcnt : copyCount Fixes.all r1 n = nn r1.chunk.maxDef ((r1.decodedDefs.drop r1.pageValuesRead).take n) := by
    simp only [copyCount, Fixes.all, if_true, nonNullIn]
    split
    · rfl
    · rename_i hz
      have hz' : r1.chunk.maxDef = 0 := by omega
      rw [hz', nn_zero_of_le]
      · simp; omega
      · intro d hd
        have := hdefsLe d (List.mem_of_mem_drop (List.mem_of_mem_take hd))
        omega
  generalize hcntdef : nn r1.chunk.maxDef ((r1.decodedDefs.drop r1.pageValuesRead).take n) = cnt at hcnt
  have hsplit := nn_take_add_drop r1.chunk.maxDef (r1.decodedDefs.drop r1.pageValuesRead) n
  rw [hcntdef] at hsplit
  have hcntV : r1.pageNonNullRead + cnt ≤ r1.decodedVals.length := by omega
  have htakeRows : (curRows r1).take n =
      pageRows r1.chunk.maxDef ((r1.decodedDefs.drop r1.pageValuesRead).take n)
        ((r1.decodedReps.drop r1.pageValuesRead).take n) ((r1.decodedVals.drop r1.pageNonNullRead).take cnt) := by
    unfold curRows
    rw [pageRows_take _ _ _ _ n hlenD hnnV, hcntdef]
  have hlenD' : ((r1.decodedDefs.drop r1.pageValuesRead).take n).length ≤
      ((r1.decodedReps.drop r1.pageValuesRead).take n).length := by
    simp [hR]
  have hpendC : pending (consume Fixes.all r1 n) = (pending r).drop n := by
    have hc : (curRows r1).drop n =
        pageRows r1.chunk.maxDef (r1.decodedDefs.drop (r1.pageValuesRead + n))
          (r1.decodedReps.drop (r1.pageValuesRead + n)) (r1.decodedVals.drop (r1.pageNonNullRead + cnt)) := by
      unfold curRows
      rw [pageRows_drop _ _ _ _ n hlenD hnnV, hcntdef, List.drop_drop, List.drop_drop, List.drop_drop]
    rw [hdrop, pending_consume _ _ _ hl, hc, hcnt]
  have hnpend : n ≤ (pending r).length := by
    rw [← hpend1, hpend1', List.length_append]; omega
  have hrows : (pageCopy Fixes.all r1 n).rows = n := rfl
  refine ⟨_, _, rfl, ?_, by simp [hchunk1], hnpos, hnm, ?_, ?_, ?_, ?_, ?_, ?_⟩
  · -- invariant after the copy
    refine ⟨?_, ?_, ?_, ?_, ?_, ?_, ?_, ?_, ?_⟩
    · simpa using hinv1.pagesOk
    · rw [hpendC, consume_valuesRemaining, hinv1.rem, hpend1, List.length_drop]
      omega
    · intro _; simpa using hN
    · intro _; simp; omega
    · intro _; simpa using hR
    · intro _; simp [hcnt]; omega
    · intro _
      simp only [consume_decodedVals, consume_pageNonNullRead, consume_chunk, consume_decodedDefs,
        consume_pageValuesRead, hcnt]
      rw [← List.drop_drop]
      omega
    · intro _; simpa using hdefsLe
    · intro _
      simp only [consume_pageNonNullRead, consume_chunk, consume_decodedDefs, consume_pageValuesRead, hcnt]
      rw [List.take_add, nn_append, ← hinv1.nnEq hl, hcntdef]
  · rw [hrows]; exact hnpend
  · rw [hrows]
    show srcSlice r1.decodedDefs r1.pageValuesRead n = _
    rw [srcSlice_eq _ _ _ hnle, htake, htakeRows, map_some_def, map_def_pageRows _ _ _ _ hlenD']
  · rw [hrows]
    show srcSlice r1.decodedReps r1.pageValuesRead n = _
    have hlenDn : ((r1.decodedDefs.drop r1.pageValuesRead).take n).length = n := by
      rw [List.length_take, List.length_drop]; omega
    rw [srcSlice_eq _ _ _ (by omega), htake, htakeRows, map_some_rep, map_rep_pageRows _ _ _ _ hlenD',
      hlenDn, List.take_take, Nat.min_self]
  · rw [hrows]
    show srcSlice r1.decodedVals (srcOffset Fixes.all r1) (copyCount Fixes.all r1 n) = _
    have hoff : srcOffset Fixes.all r1 = r1.pageNonNullRead := rfl
    rw [hoff, hcnt, srcSlice_eq _ _ _ hcntV, htake, htakeRows,
      filterMap_val_pageRows _ _ _ _ hlenD' (by rw [hcntdef]; simp; omega), hcntdef,
      List.take_take, Nat.min_self]
  · rw [hrows]
    show copyCount Fixes.all r1 n = _
    rw [hcnt, htake, htakeRows, filterMap_val_pageRows _ _ _ _ hlenD' (by rw [hcntdef]; simp; omega), hcntdef]
    simp; omega
  · rw [hrows]; exact hpendC

/-! ### carquet_column_read_batch -/

/-- The loop variables describe "the rows `del` have been delivered into `k`-slot arrays". -/
structure StOk (wd wr : Bool) (k : Nat) (st : LoopSt α) (del : List (Row α)) : Prop where
  tr : st.totalRead = del.length
  tn : st.totalNonNull = (del.filterMap (·.val)).length
  defs : st.defs = if wd then fill (del.map (·.defLevel)) k else []
  reps : st.reps = if wr then fill (del.map (·.repLevel)) k else []
  vals : st.vals = fill (del.filterMap (·.val)) k
  rowDefs : st.rowDefs = del.map (fun row => some row.defLevel)

theorem stOk_init (wd wr : Bool) (k : Nat) : StOk (α := α) wd wr k (LoopSt.init wd wr k) [] := by
  refine ⟨rfl, rfl, ?_, ?_, ?_, rfl⟩
  · simp only [LoopSt.init]; split <;> simp [fill]
  · simp only [LoopSt.init]; split <;> simp [fill]
  · simp [LoopSt.init, fill]

theorem readLoop_ok (wd wr : Bool) (k : Nat) (hk : k < 2147483648) :
    ∀ (fuel : Nat) (r : Reader α) (st : LoopSt α) (del : List (Row α)),
      Inv r → k - st.totalRead < fuel → st.totalRead ≤ k → StOk wd wr k st del →
      ∃ r' st', readLoop Fixes.all wd wr k fuel r st = (r', st'.result st'.totalRead) ∧
        StOk wd wr k st' (del ++ (pending r).take (k - st.totalRead)) ∧
        Inv r' ∧ r'.chunk = r.chunk ∧ pending r' = (pending r).drop (k - st.totalRead) := by
  intro fuel
  induction fuel with
  | zero => intro r st del _ hf; omega
  | succ fuel ih =>
    intro r st del hinv hf hle hst
    unfold readLoop
    by_cases hc : st.totalRead < k ∧ r.valuesRemaining > 0
    · simp only [hc, and_self, if_true]
      have hne : pending r ≠ [] := by
        intro he; have := hinv.rem; rw [he] at this; simp at this; omega
      have hm : 0 < k - st.totalRead := by omega
      obtain ⟨r', c, heq, hinv', hchunk', hc1, hcm, hcl, hcd, hcr, hcv, hcn, hpend'⟩ :=
        readNextPage_ok r hinv hne (k - st.totalRead) hm (by omega)
      have hcast : (k : Int) - (st.totalRead : Int) = ((k - st.totalRead : Nat) : Int) := by omega
      rw [hcast, heq]
      have hc0 : c.rows ≠ 0 := by omega
      simp only [hc0, if_false]
      -- the loop variables after this iteration
      have hst' : StOk wd wr k (st.push Fixes.all wd wr c) (del ++ (pending r).take c.rows) := by
        refine ⟨?_, ?_, ?_, ?_, ?_, ?_⟩
        · simp [LoopSt.push, hst.tr]; omega
        · simp [LoopSt.push, hst.tn, hcn]
        · simp only [LoopSt.push]
          cases wd with
          | false => simpa using hst.defs
          | true =>
            simp only [if_true]
            have h1 := hst.defs
            simp only [if_true] at h1
            rw [h1, hcd, map_some_def, hst.tr]
            have : del.length = (del.map (·.defLevel)).length := by simp
            rw [this, bufWrite_fill]; simp
        · simp only [LoopSt.push]
          cases wr with
          | false => simpa using hst.reps
          | true =>
            simp only [if_true]
            have h1 := hst.reps
            simp only [if_true] at h1
            rw [h1, hcr, map_some_rep, hst.tr]
            have : del.length = (del.map (·.repLevel)).length := by simp
            rw [this, bufWrite_fill]; simp
        · simp only [LoopSt.push]
          have : dstOffset Fixes.all st = (del.filterMap (·.val)).length := by
            simp [dstOffset, Fixes.all, hst.tn]
          rw [this, hst.vals, hcv, bufWrite_fill]; simp
        · simp [LoopSt.push, hst.rowDefs, hcd]
      have htr' : (st.push Fixes.all wd wr c).totalRead = st.totalRead + c.rows := rfl
      obtain ⟨r'', st'', heq2, hst'', hinv'', hchunk'', hpend''⟩ :=
        ih r' (st.push Fixes.all wd wr c) _ hinv' (by rw [htr']; omega) (by rw [htr']; omega) hst'
      refine ⟨r'', st'', heq2, ?_, hinv'', by rw [hchunk'', hchunk'], ?_⟩
      · have : del ++ (pending r).take (k - st.totalRead) =
            del ++ (pending r).take c.rows ++ (pending r').take (k - (st.push Fixes.all wd wr c).totalRead) := by
          rw [htr', hpend', List.append_assoc]
          congr 1
          have : k - st.totalRead = c.rows + (k - (st.totalRead + c.rows)) := by omega
          rw [this, List.take_add]
        rw [this]; exact hst''
      · rw [hpend'', htr', hpend', List.drop_drop]
        congr 1; omega
    · simp only [hc, if_false]
      have hnil : (pending r).take (k - st.totalRead) = [] ∧ (pending r).drop (k - st.totalRead) = pending r := by
        by_cases h1 : st.totalRead < k
        · have h2 : ¬ r.valuesRemaining > 0 := fun h2 => hc ⟨h1, h2⟩
          have : (pending r).length = 0 := by have := hinv.rem; omega
          have : pending r = [] := List.eq_nil_of_length_eq_zero this
          simp [this]
        · have : k - st.totalRead = 0 := by omega
          simp [this]
      refine ⟨r, st, rfl, ?_, hinv, rfl, ?_⟩
      · rw [hnil.1, List.append_nil]; exact hst
      · rw [hnil.2]

/-- What a read call leaves in the caller's arrays after delivering the rows `del`. -/
structure ResOk (wd wr : Bool) (k : Nat) (res : ReadResult α) (del : List (Row α)) : Prop where
  count : res.count = del.length
  defs : res.defs = if wd then fill (del.map (·.defLevel)) k else []
  reps : res.reps = if wr then fill (del.map (·.repLevel)) k else []
  vals : res.vals = fill (del.filterMap (·.val)) k
  rowDefs : res.rowDefs = del.map (fun row => some row.defLevel)

theorem resOk_of_stOk (wd wr : Bool) (k : Nat) (st : LoopSt α) (del : List (Row α)) (h : StOk wd wr k st del) :
    ResOk wd wr k (st.result st.totalRead) del :=
  ⟨by simp [LoopSt.result, h.tr], h.defs, h.reps, h.vals, h.rowDefs⟩

/-- `carquet_column_read_batch(…, k, …)` with `0 < k`: the first `k` pending rows are delivered. -/
theorem readBatch_ok (r : Reader α) (h : Inv r) (k : Nat) (hk0 : 0 < k) (hk : k < 2147483648) (wd wr : Bool) :
    ∃ r' res, readBatch Fixes.all r (k : Int) wd wr = (r', res) ∧ Inv r' ∧ r'.chunk = r.chunk ∧
      pending r' = (pending r).drop k ∧ ResOk wd wr k res ((pending r).take k) := by
  have h' := inv_releaseRetired Fixes.all r h
  have hp' := pending_releaseRetired Fixes.all r
  unfold readBatch
  have h1 : ¬ ((k : Int) < 0) := by omega
  have h2 : ¬ ((k : Int) = 0) := by omega
  simp only [h1, h2, if_false, Int.toNat_natCast]
  by_cases hz : (releaseRetired Fixes.all r).valuesRemaining ≤ 0
  · simp only [hz, if_true]
    have : (pending r) = [] := by
      have := h'.rem; rw [hp'] at this
      exact List.eq_nil_of_length_eq_zero (by omega)
    refine ⟨_, _, rfl, h', by simp, by rw [hp', this]; simp, ?_⟩
    rw [this]
    have := resOk_of_stOk wd wr k _ _ (stOk_init (α := α) wd wr k)
    simpa [LoopSt.init, LoopSt.result] using this
  · simp only [hz, if_false]
    obtain ⟨r', st', heq, hst', hinv', hchunk', hpend'⟩ :=
      readLoop_ok wd wr k hk (k + 1) (releaseRetired Fixes.all r) (LoopSt.init wd wr k) [] h'
        (by simp [LoopSt.init]) (by simp [LoopSt.init]) (stOk_init wd wr k)
    refine ⟨r', _, heq, hinv', by rw [hchunk']; simp, ?_, ?_⟩
    · rw [hpend', hp']; simp [LoopSt.init]
    · have := resOk_of_stOk wd wr k _ _ hst'
      simpa [hp', LoopSt.init] using this

theorem consume_zero (r : Reader α) : consume Fixes.all r 0 = r := by
  cases r
  simp [consume, copyCount, nonNullIn, Fixes.all]

/-- `carquet_column_read_batch(…, 0, …)`: nothing is delivered (a first page may get loaded). -/
theorem readBatch_zero (r : Reader α) (h : Inv r) (wd wr : Bool) :
    ∃ r', readBatch Fixes.all r 0 wd wr = (r', ⟨0, [], [], [], [], []⟩) ∧ Inv r' ∧ r'.chunk = r.chunk ∧
      pending r' = pending r := by
  have h' := inv_releaseRetired Fixes.all r h
  have hp' := pending_releaseRetired Fixes.all r
  unfold readBatch
  simp only [Int.lt_irrefl, if_false, if_true]
  by_cases hc : (releaseRetired Fixes.all r).valuesRemaining > 0 ∧ (releaseRetired Fixes.all r).pageLoaded = false
  · simp only [hc, and_self, if_true]
    have hne : pending (releaseRetired Fixes.all r) ≠ [] := by
      intro he; have := h'.rem; rw [he, List.length_nil] at this; omega
    obtain ⟨r1, hprep, hinv1, hpend1, hchunk1, hl, hlt⟩ := preparePage_ok _ h' hne
    have hcopy : toCopyOf r1 0 = 0 := by
      unfold toCopyOf available toInt32
      split <;> omega
    have : readNextPage Fixes.all (releaseRetired Fixes.all r) 0 = (r1, .ok (pageCopy Fixes.all r1 0)) := by
      unfold readNextPage
      simp only [hprep, hcopy, Int.lt_irrefl, if_false, Int.toNat_zero, consume_zero]
    rw [this]
    exact ⟨r1, rfl, hinv1, by rw [hchunk1]; simp, by rw [hpend1, hp']⟩
  · simp only [hc, if_false]
    exact ⟨_, rfl, h', by simp, hp'⟩

end Carquet.Proofs.Cursor
