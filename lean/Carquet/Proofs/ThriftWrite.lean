import Carquet.Proofs.ThriftSpec
import Carquet.Impl.ThriftParquet
import Carquet.Spec.ParquetThriftValue
/-
The writers of parquet_types.c produce exactly the canonical compact-protocol encoding
(`Spec.Thrift.encode`) of the Thrift value parquet.thrift assigns to the structure.
-/
namespace Carquet.Proofs.Thrift
open Carquet.Spec.Thrift Carquet.Spec.ParquetThrift
open Carquet.Impl.Thrift
open Carquet.Impl.ThriftParquet

/-! ### encoder primitives -/

@[simp] theorem append_out (e : Enc) (bs : List UInt8) : (e.append bs).out = e.out ++ bs := by
  simp [Enc.append, Enc.out, List.reverseAux_eq]
@[simp] theorem out_mk (r : List UInt8) (l : List Int) (st : Option Err) : (Enc.mk r l st).out = r.reverse := rfl
@[simp] theorem append_lastId (e : Enc) (bs : List UInt8) : (e.append bs).lastId = e.lastId := rfl
@[simp] theorem append_status (e : Enc) (bs : List UInt8) : (e.append bs).status = e.status := rfl

theorem toU64_nat (n : Nat) (h : n < 2 ^ 64) : toU64 (n : Int) = n := by
  have h2 : (2:Nat)^64 = 18446744073709551616 := by decide
  rw [h2] at h
  unfold toU64
  omega

/-- what a field contributes after its header: nothing for a bool -/
def fieldBytes : TVal → List UInt8
  | .bool _ => []
  | v => encodeVal v

theorem encodeFields_cons (last id : Int) (v : TVal) (r : Fields) :
    encodeFields last ((id, v) :: r) = fieldHdr last id (fieldCode v) ++ fieldBytes v ++ encodeFields id r := by
  cases v <;> simp [encodeFields, fieldBytes]

def lastOfF (last : Int) : Fields → Int
  | [] => last
  | (id, _) :: r => lastOfF id r

theorem encodeFields_append (a b : Fields) : ∀ last, encodeFields last (a ++ b) = encodeFields last a ++ encodeFields (lastOfF last a) b := by
  induction a with
  | nil => intro last; simp [encodeFields, lastOfF]
  | cons f r ih =>
    obtain ⟨id, v⟩ := f
    intro last
    simp only [List.cons_append, encodeFields_cons, ih, lastOfF, List.append_assoc]

theorem lastOfF_append (a b : Fields) : ∀ last, lastOfF last (a ++ b) = lastOfF (lastOfF last a) b := by
  induction a with
  | nil => intro last; rfl
  | cons f r ih => obtain ⟨id, v⟩ := f; intro last; simp only [List.cons_append, lastOfF, ih]

/-- `thrift_write_field_header` writes the canonical header -/
theorem writeFieldHeader_spec (e : Enc) (code : Nat) (id last : Int) (stk : List Int) (hl : e.lastId = last :: stk)
    (hc : code ≤ 15) (h0 : 0 ≤ last) (h1 : last ≤ 32767) (hi0 : 0 ≤ id) (hi1 : id ≤ 32767) :
    (writeFieldHeader e code id).out = e.out ++ fieldHdr last id code ∧
    (writeFieldHeader e code id).lastId = id :: stk ∧ (writeFieldHeader e code id).status = e.status := by
  have hd : toI16 (id - last) = id - last := by unfold toI16; omega
  have hc' : code % 16 = code := by omega
  unfold writeFieldHeader fieldHdr
  simp only [hl, List.headD_cons, hd]
  by_cases hs : 0 < id - last ∧ id - last ≤ 15
  · have hm : (id - last).toNat % 16 = (id - last).toNat := by omega
    rw [if_pos hs, if_pos hs]
    refine ⟨?_, rfl, rfl⟩
    simp [writeByte, shortFieldHdr, hm, hc', Enc.out, Enc.append, List.reverseAux_eq]
  · rw [if_neg hs, if_neg hs]
    refine ⟨?_, rfl, rfl⟩
    simp [writeI, writeZigzag, writeVarint, writeByte, longFieldHdr, varintBytes_eq, zigzagEnc_eq, hc', Enc.out,
      Enc.append, List.reverseAux_eq]

/-! ### writers against the canonical encoder -/

/-- `w` appends the canonical encoding of the value `v` (needing `k` nesting levels) -/
def ValW (k : Nat) (w : Enc → Enc) (v : TVal) : Prop :=
  ∀ e : Enc, e.status = none → e.lastId.length + k ≤ maxNesting →
    (w e).out = e.out ++ encodeVal v ∧ (w e).lastId = e.lastId ∧ (w e).status = none

/-- `w` appends, inside a struct whose previous field id is `last`, the canonical encoding of the
fields `fs` -/
def FieldsW (k : Nat) (w : Enc → Enc) (fs : Fields) : Prop :=
  ∀ (e : Enc) (last : Int) (stk : List Int), e.lastId = last :: stk → e.status = none → 0 ≤ last → last ≤ 32767 →
    stk.length + 1 + k ≤ maxNesting →
    (w e).out = e.out ++ encodeFields last fs ∧ (w e).lastId = lastOfF last fs :: stk ∧ (w e).status = none ∧
      0 ≤ lastOfF last fs ∧ lastOfF last fs ≤ 32767

theorem FieldsW.nil (k : Nat) : FieldsW k (fun e => e) [] := by
  intro e last stk hl hs h0 h1 _
  simp [encodeFields, lastOfF, hl, hs, h0, h1]

theorem FieldsW.comp {k : Nat} {w1 w2 : Enc → Enc} {f1 f2 : Fields} (h1 : FieldsW k w1 f1) (h2 : FieldsW k w2 f2) :
    FieldsW k (fun e => w2 (w1 e)) (f1 ++ f2) := by
  intro e last stk hl hs h0 hm hroom
  obtain ⟨a1, a2, a3, a4, a5⟩ := h1 e last stk hl hs h0 hm hroom
  obtain ⟨b1, b2, b3, b4, b5⟩ := h2 (w1 e) _ stk a2 a3 a4 a5 hroom
  refine ⟨?_, ?_, b3, ?_, ?_⟩
  · rw [b1, a1, encodeFields_append, List.append_assoc]
  · rw [b2, lastOfF_append]
  · rw [lastOfF_append]; exact b4
  · rw [lastOfF_append]; exact b5

theorem FieldsW.mono {k k' : Nat} {w : Enc → Enc} {fs : Fields} (h : FieldsW k w fs) (hk : k ≤ k') : FieldsW k' w fs :=
  fun e last stk hl hs h0 h1 hroom => h e last stk hl hs h0 h1 (by omega)

theorem ValW.mono {k k' : Nat} {w : Enc → Enc} {v : TVal} (h : ValW k w v) (hk : k ≤ k') : ValW k' w v :=
  fun e hs hroom => h e hs (by omega)

/-- a field with value bytes: header, then the value -/
theorem FieldsW.field {k : Nat} (id : Int) (hi0 : 0 ≤ id) (hi1 : id ≤ 32767) (code : Nat) (wv : Enc → Enc) (v : TVal)
    (hnb : v.ty ≠ .bool) (hcode : code = v.ty.code) (hv : ValW k wv v) :
    FieldsW k (fun e => wv (writeFieldHeader e code id)) (f1 id v) := by
  intro e last stk hl hs h0 h1 hroom
  have hc : code ≤ 15 := by rw [hcode]; have := code_pos v.ty; omega
  obtain ⟨a1, a2, a3⟩ := writeFieldHeader_spec e code id last stk hl hc h0 h1 hi0 hi1
  obtain ⟨b1, b2, b3⟩ := hv (writeFieldHeader e code id) (by rw [a3]; exact hs) (by rw [a2]; simp; omega)
  have hfc : fieldCode v = code := by
    rw [hcode]; cases v <;> simp_all [fieldCode, TVal.ty]
  have hfb : fieldBytes v = encodeVal v := by cases v <;> simp_all [fieldBytes, TVal.ty]
  refine ⟨?_, ?_, b3, ?_, ?_⟩
  · rw [b1, a1]
    simp only [f1, encodeFields_cons, hfc, hfb, encodeFields, List.append_nil, List.append_assoc]
  · rw [b2, a2]; rfl
  · simpa [f1, lastOfF] using hi0
  · simpa [f1, lastOfF] using hi1

/-- a bool field: the value is the header's type nibble -/
theorem FieldsW.boolField {k : Nat} (id : Int) (hi0 : 0 ≤ id) (hi1 : id ≤ 32767) (b : Bool) :
    FieldsW k (fun e => writeFieldHeader e (tBool b) id) (f1 id (.bool b)) := by
  intro e last stk hl hs h0 h1 _
  have hc : tBool b ≤ 15 := by cases b <;> simp [tBool]
  obtain ⟨a1, a2, a3⟩ := writeFieldHeader_spec e (tBool b) id last stk hl hc h0 h1 hi0 hi1
  have hfc : fieldCode (.bool b) = tBool b := by cases b <;> rfl
  refine ⟨?_, ?_, by rw [a3]; exact hs, ?_, ?_⟩
  · rw [a1]; simp only [f1, encodeFields_cons, hfc, fieldBytes, encodeFields, List.append_nil]
  · rw [a2]; rfl
  · simpa [f1, lastOfF] using hi0
  · simpa [f1, lastOfF] using hi1

theorem writeStructEnd_out (x : Enc) : (writeStructEnd x).out = x.out ++ [0] := by
  simp [writeStructEnd, writeFieldStop, writeByte, Enc.out, Enc.append, List.reverseAux_eq]
theorem with_lastId_out (e : Enc) (l : List Int) : ({ e with lastId := l } : Enc).out = e.out := rfl

/-- a struct value: begin, fields, stop -/
theorem ValW.struct {k : Nat} (w : Enc → Enc) (fs : Fields) (h : FieldsW k w fs) :
    ValW (k + 1) (fun e => writeStructEnd (w (writeStructBegin e))) (.struct fs) := by
  intro e hs hroom
  have hb : writeStructBegin e = { e with lastId := 0 :: e.lastId } := by
    unfold writeStructBegin; rw [if_neg (by omega)]
  obtain ⟨a1, a2, a3, _, _⟩ := h { e with lastId := 0 :: e.lastId } 0 e.lastId rfl hs (by omega) (by omega) (by omega)
  dsimp only
  rw [hb]
  refine ⟨?_, ?_, ?_⟩
  · rw [writeStructEnd_out, a1, with_lastId_out]
    simp [encodeVal]
  · simp [writeStructEnd, a2]
  · simp [writeStructEnd, writeFieldStop, writeByte, a3]

theorem ValW.int (f : Int → TVal) (hf : ∀ x, encodeVal (f x) = uleb (zigzag x)) (x : Int) :
    ValW 0 (fun e => writeI e x) (f x) := by
  intro e hs _
  simp [writeI, writeZigzag, writeVarint, varintBytes_eq, zigzagEnc_eq, hf, hs]

theorem ValW.i16 (x : Int) : ValW 0 (fun e => writeI e x) (.i16 x) := ValW.int .i16 (fun _ => rfl) x
theorem ValW.i32 (x : Int) : ValW 0 (fun e => writeI e x) (.i32 x) := ValW.int .i32 (fun _ => rfl) x
theorem ValW.i64 (x : Int) : ValW 0 (fun e => writeI e x) (.i64 x) := ValW.int .i64 (fun _ => rfl) x

theorem byteOfI8_eq (x : Int) : byteOfI8 x = byteOf x := rfl

theorem ValW.i8 (x : Int) : ValW 0 (fun e => writeByte e (byteOfI8 x)) (.i8 x) := by
  intro e hs _
  simp [writeByte, encodeVal, byteOfI8_eq, hs]

theorem ValW.binary (b : Bytes) : ValW 0 (fun e => writeBinary e b) (.binary b) := by
  intro e hs _
  simp [writeBinary, writeVarint, varintBytes_eq, encodeVal, hs]

/-- a list: header, then the elements -/
theorem ValW.list {α : Type} {k : Nat} (et : TType) (f : Enc → α → Enc) (tv : α → TVal) (xs : List α)
    (hlen : xs.length < 2 ^ 31) (hx : ∀ x ∈ xs, ValW k (fun e => f e x) (tv x)) :
    ValW k (fun e => wEach f (writeListBegin e et.code (xs.length : Int)) xs) (.list et (xs.map tv)) := by
  intro e hs hroom
  dsimp only
  have h31 : (2:Nat)^31 = 2147483648 := by decide
  rw [h31] at hlen
  have hcp := code_pos et
  have hhdr : (writeListBegin e et.code (xs.length : Int)).out = e.out ++ listHdr et xs.length ∧
      (writeListBegin e et.code (xs.length : Int)).lastId = e.lastId ∧
      (writeListBegin e et.code (xs.length : Int)).status = none := by
    unfold writeListBegin listHdr
    have hc' : et.code % 16 = et.code := by omega
    by_cases h15 : xs.length < 15
    · have : ((xs.length : Int) < 15) := by omega
      have hm : ((xs.length : Int) % 16).toNat = xs.length := by omega
      simp [this, h15, writeByte, shortListHdr, hm, hc', hs]
    · have : ¬ ((xs.length : Int) < 15) := by omega
      have hu := toU64_nat xs.length (Nat.lt_trans hlen (by decide))
      simp [this, h15, writeByte, writeVarint, longListHdr, varintBytes_eq, hu, hc', hs]
  obtain ⟨a1, a2, a3⟩ := hhdr
  have key : ∀ (ys : List α) (e' : Enc), (∀ y ∈ ys, ValW k (fun e => f e y) (tv y)) → e'.status = none →
      e'.lastId.length + k ≤ maxNesting →
      (wEach f e' ys).out = e'.out ++ encodeElems (ys.map tv) ∧ (wEach f e' ys).lastId = e'.lastId ∧
        (wEach f e' ys).status = none := by
    intro ys
    induction ys with
    | nil => intro e' _ hs' _; simp [wEach, encodeElems, hs']
    | cons y r ih =>
      intro e' hy hs' hr'
      obtain ⟨b1, b2, b3⟩ := hy y List.mem_cons_self e' hs' hr'
      obtain ⟨c1, c2, c3⟩ := ih (f e' y) (fun z hz => hy z (List.mem_cons_of_mem _ hz)) b3 (by rw [b2]; exact hr')
      simp only [wEach, List.foldl_cons] at c1 c2 c3 ⊢
      refine ⟨?_, by rw [c2, b2], c3⟩
      rw [c1, b1]
      simp [encodeElems]
  obtain ⟨c1, c2, c3⟩ := key xs _ hx a3 (by rw [a2]; exact hroom)
  refine ⟨?_, by rw [c2, a2], c3⟩
  rw [c1, a1]
  simp [encodeVal]

end Carquet.Proofs.Thrift
