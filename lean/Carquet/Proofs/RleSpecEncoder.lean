import Carquet.Proofs.RleGrammar
/-
The choice-steered reference encoder of Spec/RleHybrid.lean only produces streams of the grammar.
-/
namespace Carquet.Proofs.RleSpecEncoder
open Carquet.Spec Carquet.Spec.RleHybrid
open Carquet.Proofs.NatBits Carquet.Proofs.BitPackSpec Carquet.Proofs.RleGrammar

theorem encodeWith_sound (w : Nat) : ∀ (cs : List Choice) (vals : List Nat) (bs : List UInt8),
    encodeWith w cs vals = some bs → Stream w bs vals := by
  intro cs
  induction cs with
  | nil =>
    intro vals bs h
    simp only [encodeWith] at h
    split at h
    · rename_i hv
      cases h; subst hv
      exact ⟨[], Runs.nil⟩
    · cases h
  | cons c cs ih =>
    intro vals bs h
    cases c with
    | rle n extra =>
      cases vals with
      | nil => simp [encodeWith] at h
      | cons v tl =>
        simp only [encodeWith] at h
        split at h
        · cases h
        · rename_i hc
          split at h
          · cases h
          · rename_i hh
            cases hrec : encodeWith w cs ((v :: tl).drop n) with
            | none => rw [hrec] at h; cases h
            | some bs' =>
              rw [hrec] at h
              cases h
              obtain ⟨pad, hr⟩ := ih _ _ hrec
              have hc' : ¬ n = 0 ∧ ¬ (v :: tl).length < n ∧ (v :: tl).take n = List.replicate n v ∧ ¬ v ≥ 2 ^ w := by
                simpa [not_or] using hc
              have hh' : IsHeader (encodeHeader (2 * n) extra) (2 * n) := by simpa using hh
              have hsplit : List.replicate n v ++ (v :: tl).drop n = v :: tl := by
                rw [← hc'.2.2.1, List.take_append_drop]
              refine ⟨pad, ?_⟩
              have := Runs.rle _ n v _ _ hh' (by omega) hr
              rw [← List.append_assoc, hsplit] at this
              exact this
    | emptyRle v extra =>
      simp only [encodeWith] at h
      split at h
      · cases h
      · rename_i hv
        split at h
        · cases h
        · rename_i hh
          cases hrec : encodeWith w cs vals with
          | none => rw [hrec] at h; cases h
          | some bs' =>
            rw [hrec] at h
            cases h
            obtain ⟨pad, hr⟩ := ih _ _ hrec
            have hh' : IsHeader (encodeHeader 0 extra) (2 * 0) := by simpa using hh
            refine ⟨pad, ?_⟩
            have := Runs.rle _ 0 v _ _ hh' (by omega) hr
            simpa using this
    | packed g pad0 extra =>
      simp only [encodeWith] at h
      split at h
      · cases h
      · rename_i hlen
        split at h
        · cases h
        · rename_i hlt
          split at h
          · cases h
          · rename_i hh
            cases hrec : encodeWith w cs (vals.drop (8 * g)) with
            | none => rw [hrec] at h; cases h
            | some bs' =>
              rw [hrec] at h
              cases h
              obtain ⟨pad, hr⟩ := ih _ _ hrec
              have hh' : IsHeader (encodeHeader (2 * g + 1) extra) (2 * g + 1) := by simpa using hh
              have hlen' : (vals.take (8 * g) ++ pad0.take (8 * g - (vals.take (8 * g)).length)).length = 8 * g := by
                simpa using hlen
              have hlt' : ∀ x ∈ vals.take (8 * g) ++ pad0.take (8 * g - (vals.take (8 * g)).length), x < 2 ^ w := by
                intro x hx
                have := hlt
                simp only [not_exists, not_and] at this
                have := this x hx
                omega
              have hdl : (BitPack.pack w (vals.take (8 * g) ++ pad0.take (8 * g - (vals.take (8 * g)).length))).length
                  = g * w := by
                rw [pack_eq, leBytes_length, hlen', Nat.mul_assoc, Nat.mul_comm 8]
                omega
              have hu := unpack_pack w _ hlt'
              rw [hlen'] at hu
              have hruns := Runs.packed _ g _ _ _ _ hh' hdl hu hr
              -- the values denoted are `vals` followed by padding
              by_cases hfull : 8 * g ≤ vals.length
              · have h0 : 8 * g - (vals.take (8 * g)).length = 0 := by rw [List.length_take]; omega
                rw [h0, List.take_zero, List.append_nil] at hruns
                refine ⟨pad, ?_⟩
                rw [← List.append_assoc, List.take_append_drop] at hruns
                rw [h0, List.take_zero, List.append_nil]
                exact hruns
              · have hd : vals.drop (8 * g) = [] := List.drop_eq_nil_of_le (by omega)
                have ht : vals.take (8 * g) = vals := List.take_of_length_le (by omega)
                rw [hd, List.nil_append, ht] at hruns
                rw [ht]
                exact ⟨pad0.take (8 * g - vals.length) ++ pad, by rw [← List.append_assoc]; exact hruns⟩

end Carquet.Proofs.RleSpecEncoder
