import Carquet.Spec.Lz4
import Carquet.Impl.Lz4
import Carquet.Proofs.Lz4Spec
/-
The model of `carquet_lz4_decompress` (after fix F40) computes the Spec decoder: same result on
every input and capacity, every Spec error being `invalidData`, and the fail-stop memory errors
`oobRead` / `oobWrite` never occurring.
-/
namespace Carquet.Proofs.Lz4Decomp
open Carquet
open Carquet.Spec.Lz4 (applyMatch copy1 readChain readLen)
open Carquet.Proofs.Lz4Spec

/-- status mapping: every format error is `CARQUET_ERROR_INVALID_COMPRESSED_DATA` -/
def mapR : Except Spec.Lz4.Err (Array UInt8) → Except Impl.Lz4.Err (Array UInt8)
  | .ok o => .ok o
  | .error _ => .error .invalidData

/-- the Impl step does what the Spec step does, at position `ip' > ip0` of `bs` -/
inductive Sim (bs : List UInt8) (cap ip0 : Nat) : Spec.Lz4.Step → Impl.Lz4.Step → Prop
  | done (r : Except Spec.Lz4.Err (Array UInt8)) :
      (∀ o, r = .ok o → o.size ≤ cap) → Sim bs cap ip0 (.done r) (.done (mapR r))
  | more (ip' : Nat) (o : Array UInt8) :
      ip0 < ip' → ip' ≤ bs.length → o.size ≤ cap → Sim bs cap ip0 (.more (bs.drop ip') o) (.more ip' o)

theorem Sim.err {bs : List UInt8} {cap ip0 : Nat} (e : Spec.Lz4.Err) :
    Sim bs cap ip0 (.done (.error e)) (.done (.error .invalidData)) :=
  Sim.done (.error e) (by intro o h; cases h)

/-! ### length chains -/

theorem readChain_add (k : Nat) : ∀ (l : List UInt8) (acc : Nat),
    readChain l (acc + k) = (readChain l acc).map (fun p => (p.1 + k, p.2)) := by
  intro l
  induction l with
  | nil => intro acc; simp [readChain]
  | cons b r ih =>
    intro acc
    simp only [readChain]
    split
    · rw [show acc + k + 255 = acc + 255 + k by omega, ih]
    · simp; omega

theorem chain_sim (bs : List UInt8) : ∀ (fuel ip acc : Nat), bs.length - ip < fuel → ip ≤ bs.length →
    (readChain (bs.drop ip) acc = none → Impl.Lz4.chain bs.toArray fuel ip acc = .error .invalidData) ∧
    (∀ v rest, readChain (bs.drop ip) acc = some (v, rest) →
      ∃ ip', Impl.Lz4.chain bs.toArray fuel ip acc = .ok (v, ip') ∧
        rest = bs.drop ip' ∧ ip < ip' ∧ ip' ≤ bs.length) := by
  intro fuel
  induction fuel with
  | zero => intro ip acc h; omega
  | succ fuel ih =>
    intro ip acc hf hip
    by_cases hlt : ip < bs.length
    · rw [List.drop_eq_getElem_cons hlt]
      simp only [readChain, Impl.Lz4.chain, List.size_toArray, List.getElem?_toArray]
      rw [if_neg (show ¬ (bs.length ≤ ip) by omega)]
      simp only [List.getElem?_eq_getElem hlt]
      by_cases h255 : bs[ip] = 255
      · rw [if_pos h255, if_pos h255]
        obtain ⟨ihn, ihs⟩ := ih (ip + 1) (acc + 255) (by omega) (by omega)
        refine ⟨ihn, ?_⟩
        intro v rest h
        obtain ⟨ip', h1, h2, h3, h4⟩ := ihs v rest h
        exact ⟨ip', h1, h2, by omega, h4⟩
      · rw [if_neg h255, if_neg h255]
        refine ⟨by simp, ?_⟩
        intro v rest h
        simp only [Option.some.injEq, Prod.mk.injEq] at h
        exact ⟨ip + 1, by rw [h.1], h.2.symm, by omega, by omega⟩
    · have hnil : bs.drop ip = [] := List.drop_eq_nil_of_le (by omega)
      rw [hnil]
      simp only [readChain, Impl.Lz4.chain, List.size_toArray]
      rw [if_pos (show bs.length ≤ ip by omega)]
      simp

/-! ### match copy -/

theorem applyMatch_snoc (off : Nat) : ∀ (n : Nat) (l : List UInt8),
    applyMatch l off (n + 1) = copy1 (applyMatch l off n) off := by
  intro n
  induction n with
  | zero => intro l; simp [applyMatch]
  | succ n ih => intro l; rw [applyMatch, ih]; rfl

theorem applyMatch_add (off : Nat) : ∀ (a b : Nat) (l : List UInt8),
    applyMatch l off (a + b) = applyMatch (applyMatch l off a) off b := by
  intro a
  induction a with
  | zero => intro b l; simp [applyMatch]
  | succ a ih =>
    intro b l
    rw [show a + 1 + b = (a + b) + 1 by omega, applyMatch, ih]
    rfl

/-- while the copy has not caught up with its own output it is a block copy -/
theorem applyMatch_block {off : Nat} (h0 : 0 < off) : ∀ (k : Nat) (l : List UInt8), off ≤ l.length → k ≤ off →
    applyMatch l off k = l ++ (l.drop (l.length - off)).take k := by
  intro k
  induction k with
  | zero => intro l _ _; simp [applyMatch]
  | succ k ih =>
    intro l h1 hk
    rw [applyMatch_snoc, ih l h1 (by omega)]
    have hlen : (l ++ List.take k (List.drop (l.length - off) l)).length = l.length + k := by
      simp; omega
    have hidx : l.length + k - off < l.length := by omega
    simp only [copy1, hlen]
    rw [List.getElem?_append_left hidx]
    rw [List.getElem?_eq_getElem hidx]
    simp only [List.append_assoc, List.append_cancel_left_eq]
    rw [List.take_succ_eq_append_getElem (by simp; omega)]
    simp only [List.getElem_drop]
    congr 3
    omega

theorem copyMatch_size {off : Nat} (h0 : 0 < off) (n : Nat) (l : List UInt8) (h1 : off ≤ l.length) :
    (Spec.Lz4.copyMatch l.toArray off n).size = l.length + n := by
  rw [copyMatch_eq h0 n l h1]; simp [applyMatch_length h0 n l h1]

theorem copyBytes_eq {off cap : Nat} (h0 : 0 < off) : ∀ (n : Nat) (l : List UInt8), off ≤ l.length →
    l.length + n ≤ cap → Impl.Lz4.copyBytes off cap n l.toArray = .ok (applyMatch l off n).toArray := by
  intro n
  induction n with
  | zero => intro l _ _; simp [Impl.Lz4.copyBytes, applyMatch]
  | succ n ih =>
    intro l h1 hc
    obtain ⟨b, hb, hcp⟩ := copy1_valid h0 h1
    simp only [Impl.Lz4.copyBytes, List.size_toArray, List.getElem?_toArray, hb, applyMatch, hcp,
      List.push_toArray]
    rw [if_neg (by omega), if_neg (by omega)]
    exact ih _ (by simp; omega) (by simp; omega)

theorem copy8_eq {off cap : Nat} (h8 : 8 ≤ off) (l : List UInt8) (h1 : off ≤ l.length)
    (hc : l.length + 8 ≤ cap) : Impl.Lz4.copy8 l.toArray off cap = .ok (applyMatch l off 8).toArray := by
  simp only [Impl.Lz4.copy8, List.size_toArray]
  rw [if_neg (by omega), if_neg (by omega), if_neg (by omega)]
  rw [applyMatch_block (by omega) 8 l h1 h8]
  simp [List.extract_toArray, List.extract_eq_take_drop]

theorem copyWide_eq {off cap : Nat} (h8 : 8 ≤ off) : ∀ (k : Nat) (l : List UInt8), off ≤ l.length →
    l.length + 8 * k ≤ cap → Impl.Lz4.copyWide off cap k l.toArray = .ok (applyMatch l off (8 * k)).toArray := by
  intro k
  induction k with
  | zero => intro l _ _; simp [Impl.Lz4.copyWide, applyMatch]
  | succ k ih =>
    intro l h1 hc
    simp only [Impl.Lz4.copyWide]
    rw [copy8_eq h8 l h1 (by omega)]
    simp only
    have hlen := applyMatch_length (show 0 < off by omega) 8 l h1
    rw [ih _ (by omega) (by omega)]
    rw [show 8 * (k + 1) = 8 + 8 * k by omega, applyMatch_add]

/-- the wide-copy loop and the byte loop together write exactly the byte-by-byte copy -/
theorem copyMatch_impl_eq {off cap : Nat} (h0 : 0 < off) (n : Nat) (l : List UInt8) (h1 : off ≤ l.length)
    (hc : l.length + n ≤ cap) :
    Impl.Lz4.copyMatch l.toArray off cap n = .ok (applyMatch l off n).toArray := by
  unfold Impl.Lz4.copyMatch
  split
  · rename_i h8
    have hdm : 8 * (n / 8) + n % 8 = n := Nat.div_add_mod n 8
    rw [copyWide_eq h8 (n / 8) l h1 (by omega)]
    simp only
    have hlen := applyMatch_length h0 (8 * (n / 8)) l h1
    rw [copyBytes_eq h0 (n % 8) _ (by omega) (by omega), ← applyMatch_add, hdm]
  · exact copyBytes_eq h0 n l h1 hc

/-! ### the step -/

theorem stepCopy_sim (bs : List UInt8) (cap ip0 : Nat) {off : Nat} (h0 : 0 < off) (mc ip : Nat)
    (l : List UInt8) (h1 : off ≤ l.length) (hip0 : ip0 < ip) (hip : ip ≤ bs.length) :
    Sim bs cap ip0
      (if cap < l.toArray.size + (mc + 4) then .done (.error .outputOverrun)
       else .more (bs.drop ip) (Spec.Lz4.copyMatch l.toArray off (mc + 4)))
      (Impl.Lz4.stepCopy off (mc + 4) ip l.toArray cap) := by
  unfold Impl.Lz4.stepCopy
  by_cases hc : cap < l.toArray.size + (mc + 4)
  · rw [if_pos hc, if_pos hc]; exact Sim.err _
  · rw [if_neg hc, if_neg hc]
    simp only [List.size_toArray] at hc
    rw [copyMatch_impl_eq h0 (mc + 4) l h1 (by omega), copyMatch_eq h0 (mc + 4) l h1]
    simp only
    refine Sim.more ip _ hip0 hip ?_
    simp [applyMatch_length h0 (mc + 4) l h1]; omega

theorem tok_mod_lt (tok : UInt8) : tok.toNat % 16 < 16 := Nat.mod_lt _ (by omega)

theorem stepOff_sim (bs : List UInt8) (cap ip0 : Nat) (tok : UInt8) (off ip : Nat) (l : List UInt8)
    (hip0 : ip0 < ip) (hip : ip ≤ bs.length) :
    Sim bs cap ip0 (Spec.Lz4.stepOff tok off (bs.drop ip) l.toArray cap)
      (Impl.Lz4.stepOff bs.toArray tok off ip l.toArray cap) := by
  unfold Spec.Lz4.stepOff Impl.Lz4.stepOff
  by_cases hz : off = 0
  · rw [if_pos hz, if_pos (Or.inl hz)]; exact Sim.err _
  · rw [if_neg hz]
    by_cases hfar : l.toArray.size < off
    · rw [if_pos hfar, if_pos (Or.inr hfar)]; exact Sim.err _
    · rw [if_neg hfar, if_neg (by intro h; cases h <;> contradiction)]
      simp only [List.size_toArray] at hfar
      have h0 : 0 < off := by omega
      have h1 : off ≤ l.length := by omega
      unfold readLen
      by_cases h15 : tok.toNat % 16 = 15
      · rw [if_pos h15, if_neg (by omega)]
        obtain ⟨hn, hs⟩ := chain_sim bs (bs.length + 1) ip 15 (by omega) hip
        simp only [List.size_toArray]
        cases hrc : readChain (bs.drop ip) 15 with
        | none =>
          have := readChain_add 4 (bs.drop ip) 15
          rw [hrc] at this
          simp only [Option.map_none] at this
          obtain ⟨hn', _⟩ := chain_sim bs (bs.length + 1) ip (15 + 4) (by omega) hip
          rw [hn' this]
          exact Sim.err _
        | some p =>
          obtain ⟨v, rest⟩ := p
          have := readChain_add 4 (bs.drop ip) 15
          rw [hrc] at this
          simp only [Option.map_some] at this
          obtain ⟨_, hs'⟩ := chain_sim bs (bs.length + 1) ip (15 + 4) (by omega) hip
          obtain ⟨ip', e1, e2, e3, e4⟩ := hs' _ _ this
          rw [e1]
          simp only
          rw [e2]
          exact stepCopy_sim bs cap ip0 h0 v ip' l h1 (by omega) e4
      · have hlt : tok.toNat % 16 < 15 := by have := tok_mod_lt tok; omega
        rw [if_neg h15, if_pos hlt]
        exact stepCopy_sim bs cap ip0 h0 (tok.toNat % 16) ip l h1 hip0 hip

theorem offset_eq (lo hi : UInt8) : lo.toNat ||| (hi.toNat <<< 8) = lo.toNat + 256 * hi.toNat := by
  have hlo : lo.toNat < 2 ^ 8 := by have := lo.toNat_lt; omega
  rw [Nat.or_comm, ← Nat.shiftLeft_add_eq_or_of_lt hlo, Nat.shiftLeft_eq]
  omega

theorem stepEnd_sim (bs : List UInt8) (cap ip0 : Nat) (tok : UInt8) (ip : Nat) (l : List UInt8)
    (hip0 : ip0 < ip) (_hip : ip ≤ bs.length) (hl : l.length ≤ cap) :
    Sim bs cap ip0 (Spec.Lz4.stepMatch tok (bs.drop ip) l.toArray cap)
      (Impl.Lz4.stepEnd bs.toArray tok ip l.toArray cap) := by
  unfold Impl.Lz4.stepEnd
  simp only [List.size_toArray, List.getElem?_toArray]
  by_cases h1 : bs.length ≤ ip
  · rw [if_pos h1, List.drop_eq_nil_of_le h1]
    simp only [Spec.Lz4.stepMatch]
    exact Sim.done (.ok l.toArray) (by intro o h; cases h; simpa using hl)
  · rw [if_neg h1]
    have hlt : ip < bs.length := by omega
    rw [List.drop_eq_getElem_cons hlt]
    by_cases h2 : bs.length < ip + 2
    · rw [if_pos h2, List.drop_eq_nil_of_le (by omega)]
      simp only [Spec.Lz4.stepMatch]
      exact Sim.err _
    · rw [if_neg h2]
      have hlt2 : ip + 1 < bs.length := by omega
      rw [List.drop_eq_getElem_cons hlt2]
      simp only [Spec.Lz4.stepMatch, List.getElem?_eq_getElem hlt, List.getElem?_eq_getElem hlt2, offset_eq]
      exact stepOff_sim bs cap ip0 tok _ (ip + 2) l (by omega) (by omega)

theorem stepLits_sim (bs : List UInt8) (cap ip0 : Nat) (tok : UInt8) (ll ip : Nat) (l : List UInt8)
    (hip0 : ip0 < ip) (hip : ip ≤ bs.length) (hl : l.length ≤ cap) :
    Sim bs cap ip0 (Spec.Lz4.stepLits tok ll (bs.drop ip) l.toArray cap)
      (Impl.Lz4.stepLits bs.toArray tok ll ip l.toArray cap) := by
  unfold Spec.Lz4.stepLits Impl.Lz4.stepLits
  simp only [List.size_toArray, List.length_take, List.length_drop]
  by_cases hll : 0 < ll
  · rw [if_pos hll]
    by_cases ha : bs.length < ip + ll
    · rw [if_pos (show min ll (bs.length - ip) < ll by omega), if_pos (Or.inl ha)]; exact Sim.err _
    · rw [if_neg (show ¬ (min ll (bs.length - ip) < ll) by omega)]
      by_cases hb : cap < l.length + ll
      · rw [if_pos hb, if_pos (Or.inr hb)]; exact Sim.err _
      · rw [if_neg hb, if_neg (by intro h; cases h <;> contradiction)]
        simp only [Impl.Lz4.memcpyLits, List.size_toArray]
        rw [if_neg ha, if_neg hb]
        simp only [List.extract_toArray, List.extract_eq_take_drop, List.append_toArray, List.toArray_appendList,
          List.drop_drop, Nat.add_sub_cancel_left]
        have := stepEnd_sim bs cap ip0 tok (ip + ll) (l ++ List.take ll (List.drop ip bs)) (by omega) (by omega)
          (by simp; omega)
        exact this
  · have h0 : ll = 0 := by omega
    subst h0
    rw [if_neg (by omega), if_neg (by omega), if_neg (by omega)]
    simp only [List.take_zero, List.drop_zero, List.toArray_appendList, List.append_nil]
    exact stepEnd_sim bs cap ip0 tok ip l hip0 hip hl

theorem step_sim (bs : List UInt8) (cap ip : Nat) (l : List UInt8) (hip : ip < bs.length) (hl : l.length ≤ cap) :
    Sim bs cap ip (Spec.Lz4.step (bs.drop ip) l.toArray cap) (Impl.Lz4.step bs.toArray ip l.toArray cap) := by
  rw [List.drop_eq_getElem_cons hip]
  unfold Spec.Lz4.step Impl.Lz4.step
  simp only [List.getElem?_toArray, List.getElem?_eq_getElem hip, List.size_toArray]
  have hlt16 : bs[ip].toNat / 16 < 16 := by have := bs[ip].toNat_lt; omega
  unfold readLen
  by_cases h15 : bs[ip].toNat / 16 = 15
  · rw [if_pos h15, if_neg (by omega)]
    obtain ⟨hn, hs⟩ := chain_sim bs (bs.length + 1) (ip + 1) 15 (by omega) (by omega)
    cases hrc : readChain (bs.drop (ip + 1)) 15 with
    | none => rw [hn hrc]; exact Sim.err _
    | some p =>
      obtain ⟨v, rest⟩ := p
      obtain ⟨ip', e1, e2, e3, e4⟩ := hs _ _ hrc
      rw [e1]
      simp only
      rw [e2]
      exact stepLits_sim bs cap ip _ v ip' l (by omega) e4 hl
  · rw [if_neg h15, if_pos (by omega)]
    exact stepLits_sim bs cap ip _ _ (ip + 1) l (by omega) (by omega) hl

/-! ### the loop -/

theorem loop_sim (bs : List UInt8) (cap : Nat) : ∀ (fuel ip : Nat) (l : List UInt8), ip ≤ bs.length →
    l.length ≤ cap →
    Impl.Lz4.loop bs.toArray cap fuel ip l.toArray = mapR (Spec.Lz4.loop fuel (bs.drop ip) l.toArray cap) ∧
    (∀ o, Spec.Lz4.loop fuel (bs.drop ip) l.toArray cap = .ok o → o.size ≤ cap) := by
  intro fuel
  induction fuel with
  | zero => intro ip l _ _; simp [Impl.Lz4.loop, Spec.Lz4.loop, mapR]
  | succ fuel ih =>
    intro ip l hip hl
    simp only [Impl.Lz4.loop, Spec.Lz4.loop, List.size_toArray]
    by_cases hend : bs.length ≤ ip
    · rw [if_pos hend, List.drop_eq_nil_of_le hend]
      simp [Spec.Lz4.step, mapR]
    · rw [if_neg hend]
      have hs := step_sim bs cap ip l (by omega) hl
      revert hs
      generalize Spec.Lz4.step (bs.drop ip) l.toArray cap = ss
      generalize Impl.Lz4.step bs.toArray ip l.toArray cap = is
      intro hs
      cases hs with
      | done r hr => exact ⟨rfl, hr⟩
      | more ip' o h1 h2 h3 =>
        obtain ⟨ol⟩ := o
        exact ih ip' ol h2 (by simpa using h3)

theorem decompress_eq_spec (bs : List UInt8) (cap : Nat) :
    Impl.Lz4.decompress bs cap =
      (match Spec.Lz4.decode bs cap with
       | .ok o => .ok o
       | .error _ => .error .invalidData) := by
  have h := (loop_sim bs cap (bs.length + 1) 0 [] (by omega) (by simp)).1
  simp only [List.drop_zero] at h
  unfold Impl.Lz4.decompress Spec.Lz4.decode
  have e : (#[] : Array UInt8) = ([] : List UInt8).toArray := rfl
  rw [e, h]
  cases Spec.Lz4.loop (bs.length + 1) bs ([] : List UInt8).toArray cap <;> simp [mapR, Impl.Lz4.finish]

theorem decode_le_cap (bs : List UInt8) (cap : Nat) (out : List UInt8) (h : Spec.Lz4.decode bs cap = .ok out) :
    out.length ≤ cap := by
  have h2 := (loop_sim bs cap (bs.length + 1) 0 [] (by omega) (by simp)).2
  simp only [List.drop_zero] at h2
  unfold Spec.Lz4.decode at h
  have e : (#[] : Array UInt8) = ([] : List UInt8).toArray := rfl
  rw [e] at h
  cases hl : Spec.Lz4.loop (bs.length + 1) bs ([] : List UInt8).toArray cap with
  | error e => rw [hl] at h; cases h
  | ok o =>
    rw [hl] at h
    simp only [Except.ok.injEq] at h
    have := h2 o hl
    rw [← h]; simpa using this

end Carquet.Proofs.Lz4Decomp
