import Carquet.Proofs.SpecFileFooter
/-
The LogicalType union in the independent reader (`Spec.File.logicalTypeOf` and the member readers):
what it REJECTS — any union value that does not hold exactly one member, any DecimalType / TimeType /
TimestampType / IntType that lacks a REQUIRED field, any TimeUnit that does not hold exactly one of
MILLIS / MICROS / NANOS — and that the union values which state an annotation (`annotationTV`, what a
written footer carries) are complete per parquet.thrift (`logicalTypeComplete`).  Also: the metadata
stages alone (`readSchema`) return the schema tree `read` returns.
-/
namespace Carquet.Proofs.SpecFile
open Carquet.Spec Carquet.Spec.File Carquet.Spec.Thrift Carquet.Spec.ParquetThrift

/-! ### rejection -/

theorem checkStruct_incomplete (s : StructSpec) (fs : Fields) (h : s.complete fs = false) :
    checkStruct s fs = .error (.missingField s.name) := by
  simp [checkStruct, h]

/-- a DecimalType without `scale` or without `precision` is rejected, whatever else it holds -/
theorem decimalTypeOf_incomplete (m : Fields) (h : decimalType.complete m = false) :
    decimalTypeOf m = .error (.missingField "DecimalType") := by
  unfold decimalTypeOf
  rw [checkStruct_incomplete _ _ h]
  rfl

/-- a TimeType / TimestampType without `isAdjustedToUTC` or without `unit` is rejected -/
theorem timeTypeOf_incomplete (m : Fields) (h : timeType.complete m = false) :
    timeTypeOf m = .error (.missingField "TimeType / TimestampType") := by
  unfold timeTypeOf
  rw [checkStruct_incomplete _ _ h]
  rfl

/-- an IntType without `bitWidth` or without `isSigned` is rejected -/
theorem intTypeOf_incomplete (m : Fields) (h : intType.complete m = false) :
    intTypeOf m = .error (.missingField "IntType") := by
  unfold intTypeOf
  rw [checkStruct_incomplete _ _ h]
  rfl

/-- a TimeUnit union that does not hold exactly one member is rejected -/
theorem timeUnitOf_not_one (u : Fields) (h : u.length ≠ 1) : ∃ e, timeUnitOf u = .error e := by
  unfold timeUnitOf
  cases checkStruct timeUnit u with
  | error e => exact ⟨e, rfl⟩
  | ok x =>
    match u, h with
    | [], _ => exact ⟨_, rfl⟩
    | [_], h => exact absurd rfl h
    | _ :: _ :: _, _ => exact ⟨_, rfl⟩

/-- a one-member union value passes the union's own struct check when the member is a struct -/
theorem checkStruct_logical_member (id : Int) (m : Fields) :
    checkStruct ParquetThrift.logicalType [(id, .struct m)] = .ok () := by
  unfold checkStruct
  have hreq : ∀ fsp ∈ ParquetThrift.logicalType.fields, fsp.required = false := by decide
  have h1 : ParquetThrift.logicalType.complete [(id, TVal.struct m)] = true := by
    unfold StructSpec.complete
    exact List.all_eq_true.mpr (fun fsp hf => by simp [hreq fsp hf])
  have h2 : knownTyped ParquetThrift.logicalType [(id, TVal.struct m)] = true := by
    simp only [knownTyped, List.all_cons, List.all_nil, Bool.and_true]
    cases hf : ParquetThrift.logicalType.find id with
    | none => rfl
    | some fsp =>
      have hm := List.mem_of_find?_eq_some hf
      simp only [ParquetThrift.logicalType, List.mem_cons, List.not_mem_nil, or_false] at hm
      rcases hm with rfl | rfl | rfl | rfl | rfl | rfl | rfl | rfl | rfl | rfl | rfl | rfl | rfl | rfl | rfl | rfl | rfl <;> rfl
  simp [h1, h2]

/-- **DECIMAL without a required field**: a LogicalType union whose member 5 lacks `scale` or `precision`
is rejected with the reason `missingField "DecimalType"` -/
theorem logicalTypeOf_decimal_incomplete (m : Fields) (h : decimalType.complete m = false) :
    logicalTypeOf [(5, .struct m)] = .error (.missingField "DecimalType") := by
  unfold logicalTypeOf
  rw [checkStruct_logical_member]
  show logicalMemberOf 5 m = _
  unfold logicalMemberOf
  rw [decimalTypeOf_incomplete m h]
  rfl

/-- **TIME / TIMESTAMP without a required field** (member 7 or 8 lacks `isAdjustedToUTC` or `unit`) -/
theorem logicalTypeOf_time_incomplete (id : Int) (hid : id = 7 ∨ id = 8) (m : Fields) (h : timeType.complete m = false) :
    logicalTypeOf [(id, .struct m)] = .error (.missingField "TimeType / TimestampType") := by
  unfold logicalTypeOf
  rw [checkStruct_logical_member]
  show logicalMemberOf id m = _
  unfold logicalMemberOf
  rw [timeTypeOf_incomplete m h]
  rcases hid with rfl | rfl <;> rfl

/-- **INTEGER without a required field** -/
theorem logicalTypeOf_int_incomplete (m : Fields) (h : intType.complete m = false) :
    logicalTypeOf [(10, .struct m)] = .error (.missingField "IntType") := by
  unfold logicalTypeOf
  rw [checkStruct_logical_member]
  show logicalMemberOf 10 m = _
  unfold logicalMemberOf
  rw [intTypeOf_incomplete m h]
  rfl

/-- **not exactly one member**: an empty LogicalType union, or one with two or more members, is rejected -/
theorem logicalTypeOf_not_one (u : Fields) (h : u.length ≠ 1) : ∃ e, logicalTypeOf u = .error e := by
  unfold logicalTypeOf
  cases checkStruct ParquetThrift.logicalType u with
  | error e => exact ⟨e, rfl⟩
  | ok x =>
    match u, h with
    | [], _ => exact ⟨_, rfl⟩
    | [_], h => exact absurd rfl h
    | _ :: _ :: _, _ => exact ⟨_, rfl⟩

/-- an error in field 10 is an error of the schema element, hence (below) of the footer and of the file -/
theorem schemaElementOf_logical_error (fs : Fields) (e : Reason) (h : optLogicalTypeOf fs = .error e) :
    ∃ e', schemaElementOf fs = .error e' := by
  unfold schemaElementOf
  simp only [bind, Except.bind, pure, Except.pure, throw, throwThe, MonadExceptOf.throw, h]
  repeat' split
  all_goals exact ⟨_, rfl⟩

/-! ### completeness of the union values that state an annotation -/

/-- the union value that states an annotation is complete per parquet.thrift -/
theorem annotationTV_complete (a : Schema.Annotation) :
    ∃ u, annotationTV a = .struct u ∧ logicalTypeComplete u = true := by
  cases a with
  | time utc u => cases u <;> cases utc <;> exact ⟨_, rfl, by decide⟩
  | timestamp utc u => cases u <;> cases utc <;> exact ⟨_, rfl, by decide⟩
  | integer bw sg => cases sg <;> exact ⟨_, rfl, rfl⟩
  | decimal s p => exact ⟨_, rfl, rfl⟩
  | _ => exact ⟨_, rfl, by decide⟩

/-- field 10 of the SchemaElement value the reference writer (and, byte for byte, carquet's writer) emits:
absent, or a complete LogicalType union -/
theorem seFields_logical_complete (e : Schema.Element) :
    ∀ u, getStruct (seFields e) 10 = some u → logicalTypeComplete u = true := by
  intro u hu
  obtain ⟨⟨name, rep, pt, tl, lg, lt⟩, nc⟩ := e
  cases lt with
  | none =>
    exfalso
    revert hu
    cases pt <;> cases rep <;> cases lg <;> by_cases ht : tl = 0 <;> by_cases hn : nc = 0 <;>
      simp [seFields, optField, ht, hn, getStruct, field?]
  | some a =>
    obtain ⟨w, hw, hc⟩ := annotationTV_complete a
    have : getStruct (seFields ⟨⟨name, rep, pt, tl, lg, some a⟩, nc⟩) 10 = some w := by
      simp only [seFields, optField]
      rw [hw]
      cases pt <;> cases rep <;> cases lg <;> by_cases ht : tl = 0 <;> by_cases hn : nc = 0 <;>
        simp [optField, ht, hn, getStruct, field?]
    rw [this] at hu
    cases hu
    exact hc

/-! ### the metadata stages alone -/

/-- `readSchema` is the prefix of `read` that produces the schema tree -/
theorem readSchema_of_read (bs : Bytes) (st : Bool) (o : Oracle) (t : Table) (h : File.read bs st o = .ok t) :
    readSchema bs = .ok t.schema := by
  unfold File.read readWith at h
  unfold readSchema
  simp only [bind, Except.bind] at h ⊢
  cases hs : splitFile bs with
  | error e => rw [hs] at h; cases h
  | ok sf =>
    obtain ⟨fstart, footer⟩ := sf
    rw [hs] at h
    simp only at h ⊢
    cases hp : parseFooter footer with
    | error e => rw [hp] at h; cases h
    | ok fm =>
      rw [hp] at h
      simp only at h ⊢
      cases hsch : schemaOf fm.schema with
      | error e => rw [hsch] at h; cases h
      | ok root =>
        rw [hsch] at h
        simp only at h
        cases hcols : columnsOf root with
        | error e => rw [hcols] at h; cases h
        | ok leaves =>
          rw [hcols] at h
          simp only at h
          cases hrg : readRowGroups ⟨st, o⟩ bs fstart leaves fm.rowGroups 4 with
          | error e => rw [hrg] at h; cases h
          | ok r =>
            obtain ⟨rgs, pos⟩ := r
            rw [hrg] at h
            simp only [pure, Except.pure, throw, throwThe, MonadExceptOf.throw] at h
            split at h
            · cases h
            · split at h
              · cases h
              · cases h
                rfl

end Carquet.Proofs.SpecFile
