import Carquet.Proofs.ImplReadsCell
/-
C06, implementation half — stage "layout": walking `writeGroups` / `writeChunks`, every column chunk of
the file is a `writeChunk` output sitting at the offset its footer entry (`chunkDesc`) records, with
known bytes before and after it.
-/
namespace Carquet.Proofs.ImplReads
open Carquet.Spec Carquet.Spec.File Carquet.Spec.Thrift Carquet.Spec.ParquetThrift
open Carquet.Proofs.SpecFile (ChunkAdm CcDesc RgDesc2 writeChunk_adm chunkDesc chunkDesc_ok)

/-- chunk `(leaf, cl, es)` with footer entry `d` lies in `bytes`, which start at file offset `pos` -/
def CellOf (bytes : Bytes) (pos : Nat) (oracle : Oracle) (leaf : LeafInfo) (cl : ChunkLayout) (es : Chunk) (d : CcDesc) : Prop :=
  ∃ (posj : Nat) (c : ChunkOut) (a b : Bytes) (dp pages : Written),
    writeChunk leaf cl es posj = some c ∧ bytes = a ++ c.bytes ++ b ∧ posj = pos + a.length ∧
    d = chunkDesc leaf cl es posj dp pages ∧ c.cmeta = .struct d.fields ∧ (∀ e ∈ c.oracle, e ∈ oracle) ∧
    chunkUsizeOk c.cmeta = true

theorem CellOf.extend {bytes : Bytes} {pos : Nat} {oracle : Oracle} {leaf : LeafInfo} {cl : ChunkLayout} {es : Chunk} {d : CcDesc}
    (h : CellOf bytes pos oracle leaf cl es d) (pre post : Bytes) (pos0 : Nat) (oracle' : Oracle) (hpos : pos = pos0 + pre.length)
    (ho : ∀ e ∈ oracle, e ∈ oracle') : CellOf (pre ++ bytes ++ post) pos0 oracle' leaf cl es d := by
  obtain ⟨posj, c, a, b, dp, pages, h1, h2, h3, h4, h5, h6, h7⟩ := h
  refine ⟨posj, c, pre ++ a, b ++ post, dp, pages, h1, ?_, ?_, h4, h5, fun e he => ho e (h6 e he), h7⟩
  · rw [h2]; simp [List.append_assoc]
  · rw [h3, hpos]; simp only [List.length_append]; omega

/-- the chunks of one row group -/
theorem writeChunks_cells : ∀ (leaves : List LeafInfo) (cls : List ChunkLayout) (ess : List Chunk) (pos : Nat) (g : GroupOut),
    (∀ cl ∈ cls, ChunkAdm cl) → writeChunks leaves cls ess pos = some g → (∀ mv ∈ g.metas, chunkUsizeOk mv = true) →
    ∃ ds : List CcDesc, g.metas = ds.map (fun d => TVal.struct d.fields) ∧ (∀ d ∈ ds, d.Ok) ∧
      g.endPos = pos + g.bytes.length ∧ ds.length = leaves.length ∧ cls.length = leaves.length ∧ ess.length = leaves.length ∧
      ∀ (j : Nat) (leaf : LeafInfo) (cl : ChunkLayout) (es : Chunk) (d : CcDesc),
        leaves[j]? = some leaf → cls[j]? = some cl → ess[j]? = some es → ds[j]? = some d →
        CellOf g.bytes pos g.oracle leaf cl es d
  | [], [], [], pos, g, _, hw, _ => by
    simp only [writeChunks, Option.some.injEq] at hw
    subst hw
    exact ⟨[], rfl, (fun d hd => by cases hd), by simp, rfl, rfl, rfl, fun j _ _ _ _ h => by simp at h⟩
  | leaf :: ls, cl :: cls, es :: ess, pos, g, hpl, hw, husz => by
    simp only [writeChunks] at hw
    cases hc : writeChunk leaf cl es pos with
    | none => simp [hc] at hw
    | some c =>
      cases hr : writeChunks ls cls ess c.endPos with
      | none => simp [hc, hr] at hw
      | some g' =>
        simp only [hc, hr, Option.some.injEq] at hw
        subst hw
        simp only at husz
        have hcl := hpl cl (by simp)
        obtain ⟨dp, pages, hdp, hpages, hwf, hcodecs, hdictc, hbytes, hmeta, horacle, hend, _⟩ := writeChunk_adm hcl hc
        obtain ⟨ds', hds', hok', hend', hl1, hl2, hl3, hcells⟩ := writeChunks_cells ls cls ess c.endPos g'
          (fun x hx => hpl x (by simp [hx])) hr (fun x hx => husz x (by simp [hx]))
        have hdok := chunkDesc_ok leaf cl es pos dp pages hcl
        have hclen : c.endPos = pos + c.bytes.length := by rw [hend, hbytes]; simp only [List.length_append]; omega
        refine ⟨chunkDesc leaf cl es pos dp pages :: ds', ?_, ?_, ?_, ?_, ?_, ?_, ?_⟩
        · simp [hmeta, hds']
        · intro d hd
          rcases List.mem_cons.mp hd with rfl | hd'
          · exact hdok
          · exact hok' d hd'
        · simp only [List.length_append, hend', hclen]; omega
        · simp [hl1]
        · simp [hl2]
        · simp [hl3]
        · intro j leaf' cl' es' d h1 h2 h3 h4
          cases j with
          | zero =>
            simp only [List.getElem?_cons_zero, Option.some.injEq] at h1 h2 h3 h4
            subst h1 h2 h3 h4
            exact ⟨pos, c, [], g'.bytes, dp, pages, hc, by simp, by simp, rfl, hmeta, fun e he => by simp [he],
              husz _ (by simp)⟩
          | succ j =>
            simp only [List.getElem?_cons_succ] at h1 h2 h3 h4
            have := (hcells j leaf' cl' es' d h1 h2 h3 h4).extend c.bytes [] pos (c.oracle ++ g'.oracle) hclen
              (fun e he => by simp [he])
            simpa using this
  | [], _ :: _, _, _, _, _, hw, _ => by simp [writeChunks] at hw
  | [], [], _ :: _, _, _, _, hw, _ => by simp [writeChunks] at hw
  | _ :: _, [], _, _, _, _, hw, _ => by simp [writeChunks] at hw
  | _ :: _, _ :: _, [], _, _, _, hw, _ => by simp [writeChunks] at hw

/-- the row groups of a file -/
theorem writeGroups_cells (leaves : List LeafInfo) (extra : File.Fields) (hx : extrasOk rowGroup extra = true) :
    ∀ (lay : List (List ChunkLayout)) (groups : List RowGroup) (pos : Nat) (G : GroupOut),
      (∀ g ∈ lay, ∀ cl ∈ g, ChunkAdm cl) → writeGroups leaves extra lay groups pos = some G →
      (∀ rg ∈ G.metas, rgUsizeOk rg = true) →
      ∃ ds : List RgDesc2, G.metas = ds.map (fun d => TVal.struct d.fields) ∧ (∀ d ∈ ds, d.Ok) ∧
        G.endPos = pos + G.bytes.length ∧ ds.map (·.numRows) = groups.map (groupRows leaves) ∧
        ds.length = groups.length ∧ lay.length = groups.length ∧
        ∀ (i : Nat) (cls : List ChunkLayout) (g : RowGroup) (rd : RgDesc2),
          lay[i]? = some cls → groups[i]? = some g → ds[i]? = some rd →
          rd.extra = extra ∧ rd.chunks.length = leaves.length ∧ cls.length = leaves.length ∧ g.chunks.length = leaves.length ∧
          ∀ (j : Nat) (leaf : LeafInfo) (cl : ChunkLayout) (es : Chunk) (d : CcDesc),
            leaves[j]? = some leaf → cls[j]? = some cl → g.chunks[j]? = some es → rd.chunks[j]? = some d →
            CellOf G.bytes pos G.oracle leaf cl es d
  | [], [], pos, G, _, hw, _ => by
    simp only [writeGroups, Option.some.injEq] at hw
    subst hw
    exact ⟨[], rfl, (fun d hd => by cases hd), by simp, rfl, rfl, rfl, fun i _ _ _ h => by simp at h⟩
  | cls :: r, g :: gs, pos, G, hpl, hw, husz => by
    simp only [writeGroups] at hw
    split at hw
    · cases hw
    · cases hwc : writeChunks leaves cls g.chunks pos with
      | none => simp [hwc] at hw
      | some o =>
        cases hr : writeGroups leaves extra r gs o.endPos with
        | none => simp [hwc, hr] at hw
        | some rest =>
          simp only [hwc, hr, Option.some.injEq] at hw
          subst hw
          simp only at husz
          have husz0 := Carquet.Proofs.SpecFile.rgUsizeOk_withExtras o.metas o.usize (groupRows leaves g) extra hx
            (husz _ (by simp))
          obtain ⟨ms, hms, hmok, hend, hl1, hl2, hl3, hcells⟩ := writeChunks_cells leaves cls g.chunks pos o (hpl cls (by simp))
            hwc husz0
          obtain ⟨ds', hds', hok', hend', hnr', hl4, hl5, hcells'⟩ := writeGroups_cells leaves extra hx r gs o.endPos rest
            (fun x hx' => hpl x (by simp [hx'])) hr (fun x hx' => husz x (by simp [hx']))
          refine ⟨⟨ms, o.usize, groupRows leaves g, extra⟩ :: ds', ?_, ?_, ?_, ?_, ?_, ?_, ?_⟩
          · simp only [List.map_cons, hds', hms]
            rfl
          · intro d hd
            rcases List.mem_cons.mp hd with rfl | hd'
            · exact ⟨hx, hmok⟩
            · exact hok' d hd'
          · simp only [List.length_append, hend', hend]; omega
          · simp [hnr']
          · simp [hl4]
          · simp [hl5]
          · intro i cls' g' rd h1 h2 h3
            cases i with
            | zero =>
              simp only [List.getElem?_cons_zero, Option.some.injEq] at h1 h2 h3
              subst h1 h2 h3
              refine ⟨rfl, hl1, hl2, hl3, ?_⟩
              intro j leaf cl es d k1 k2 k3 k4
              have := (hcells j leaf cl es d k1 k2 k3 k4).extend [] rest.bytes pos (o.oracle ++ rest.oracle) (by simp)
                (fun e he => by simp [he])
              simpa using this
            | succ i =>
              simp only [List.getElem?_cons_succ] at h1 h2 h3
              obtain ⟨e1, e2, e3, e4, hc⟩ := hcells' i cls' g' rd h1 h2 h3
              refine ⟨e1, e2, e3, e4, ?_⟩
              intro j leaf cl es d k1 k2 k3 k4
              have := (hc j leaf cl es d k1 k2 k3 k4).extend o.bytes [] pos (o.oracle ++ rest.oracle) hend
                (fun e he => by simp [he])
              simpa using this
  | [], _ :: _, _, _, _, hw, _ => by simp [writeGroups] at hw
  | _ :: _, [], _, _, _, hw, _ => by simp [writeGroups] at hw

end Carquet.Proofs.ImplReads
