import Carquet.Proofs.ReaderBounds
import Carquet.Proofs.Crc32Damage
/-
Page checksum verification in the page loaders (helper lemmas for C14_page_damage_reported and
C14_clean_page_accepted).
-/
namespace Carquet.Proofs.ReaderCrc
open Carquet.Impl Carquet.Impl.Reader
open Carquet.Proofs.ReaderBounds

/-- The stored body of the data page whose header `hr` the loader has found in state `st`, when
everything the loader tests before the checksum passes (page type, sizes, value count, body inside
the file). -/
def storedDataPage (mode : Mode) (b : Reader.Bytes) (st : PState) (hr : ThriftParquetReq.PageHdr × Nat) : Option Reader.Bytes :=
  if hr.1.type = 3 then none
  else if hr.1.type ≠ 0 then none
  else if (!sizesValid hr.1 || decide (hr.1.word0 < 0) || decide (hr.1.word0 > st.valuesRemaining)) = true then none
  else
    match (bodyBytes mode b (st.dataStart + st.currentPage).toNat hr.2 hr.1.compressed.toNat).1 with
    | .error _ => none
    | .ok body => some body

/-- likewise the dictionary page at `off` -/
def storedDictPage (mode : Mode) (b : Reader.Bytes) (off : Int) : Option (ThriftParquetReq.PageHdr × Nat × Reader.Bytes) :=
  match (loadHeader mode b off).result with
  | .error _ => none
  | .ok hr =>
    if hr.1.type ≠ 2 then none
    else if (!sizesValid hr.1 || decide (hr.1.word0 < 0)) = true then none
    else
      match (bodyBytes mode b off.toNat hr.2 hr.1.compressed.toNat).1 with
      | .error _ => none
      | .ok body => some (hr.1, hr.2, body)

theorem andThen_result' {α β : Type} (l : Load α) (k : α → Load β) :
    (l.andThen k).result = match l.result with | .error e => .error e | .ok a => (k a).result := by
  unfold Load.andThen; split <;> simp_all

/-- `load_next_page_*` is `prepStage` followed by `finishDataPage` -/
theorem loadDataPage_of_prep (fx : Fixes) (L : Libs) (verify : Bool) (mode : Mode) (b : Reader.Bytes) (c : Col) (st : PState)
    (sh : PState × (ThriftParquetReq.PageHdr × Nat)) (h : (prepStage fx L verify mode b c st).result = .ok sh) :
    (loadDataPage fx L verify mode b c st).result = (finishDataPage fx L verify mode b c sh.1 sh.2).result := by
  unfold loadDataPage
  rw [andThen_result', h]

/-- the checksum test is the first thing that happens to a stored data page -/
theorem finishDataPage_crcBad (fx : Fixes) (L : Libs) (verify : Bool) (mode : Mode) (b : Reader.Bytes) (c : Col) (st : PState)
    (hr : ThriftParquetReq.PageHdr × Nat) (body : Reader.Bytes)
    (hst : storedDataPage mode b st hr = some body) (hbad : crcBad verify hr.1.crc body = true) :
    (finishDataPage fx L verify mode b c st hr).result = .error .crcMismatch := by
  unfold storedDataPage at hst
  unfold finishDataPage
  by_cases h3 : hr.1.type = 3
  · rw [if_pos h3] at hst; cases hst
  · rw [if_neg h3] at hst ⊢
    by_cases ht : hr.1.type ≠ 0
    · rw [if_pos ht] at hst; cases hst
    · rw [if_neg ht] at hst ⊢
      by_cases hsz : (!sizesValid hr.1 || decide (hr.1.word0 < 0) || decide (hr.1.word0 > st.valuesRemaining)) = true
      · rw [if_pos hsz] at hst; cases hst
      · rw [if_neg hsz] at hst ⊢
        rw [andThen_result', Load.ofPair]
        cases hb : (bodyBytes mode b (st.dataStart + st.currentPage).toNat hr.2 hr.1.compressed.toNat).1 with
        | error e => rw [hb] at hst; cases hst
        | ok body' =>
          rw [hb] at hst
          simp only [Option.some.injEq] at hst
          subst hst
          simp only [hbad, if_true, Load.pure]

theorem loadDictionary_crcBad (fx : Fixes) (L : Libs) (verify : Bool) (mode : Mode) (b : Reader.Bytes) (c : Col) (off : Int)
    (h : ThriftParquetReq.PageHdr) (hs : Nat) (body : Reader.Bytes)
    (hst : storedDictPage mode b off = some (h, hs, body)) (hbad : crcBad verify h.crc body = true) :
    (loadDictionary fx L verify mode b c off).result = .error .crcMismatch := by
  unfold storedDictPage at hst
  unfold loadDictionary
  rw [andThen_result']
  cases hh : (loadHeader mode b off).result with
  | error e => rw [hh] at hst; cases hst
  | ok hr =>
    rw [hh] at hst
    simp only at hst ⊢
    by_cases ht : hr.1.type ≠ 2
    · rw [if_pos ht] at hst; cases hst
    · rw [if_neg ht] at hst ⊢
      by_cases hsz : (!sizesValid hr.1 || decide (hr.1.word0 < 0)) = true
      · rw [if_pos hsz] at hst; cases hst
      · rw [if_neg hsz] at hst ⊢
        rw [andThen_result', Load.ofPair]
        cases hb : (bodyBytes mode b off.toNat hr.2 hr.1.compressed.toNat).1 with
        | error e => rw [hb] at hst; cases hst
        | ok body' =>
          rw [hb] at hst
          simp only [Option.some.injEq, Prod.mk.injEq] at hst
          obtain ⟨h1, h2, h3⟩ := hst
          subst h1 h2 h3
          simp only [hbad, if_true, Load.pure]

/-- verification on, a stored checksum that is the checksum of `orig`, a stored body that is a
burst-damaged `orig`: the test fails -/
theorem crcBad_of_burst (crc : Int) (orig body : Reader.Bytes) (w : Nat) (hw : w ≤ 32)
    (hcrc : (crc % 4294967296).toNat = (Crc32.crc32 orig).toNat)
    (hd : Carquet.Spec.Crc32.BurstDamage w orig body) : crcBad true (some crc) body = true := by
  unfold crcBad
  simp only [Bool.true_and, decide_eq_true_eq]
  rw [hcrc]
  intro heq
  have hne : Crc32.crc32 orig ≠ Crc32.crc32 body := by
    rw [Carquet.Proofs.Crc32.impl_crc32_eq, Carquet.Proofs.Crc32.impl_crc32_eq]
    exact Carquet.Proofs.Crc32.crc32_burst_ne w hw orig body hd
  exact hne (BitVec.eq_of_toNat_eq heq.symm)

/-- a body whose checksum is the stored one passes the test (and so does every body when
verification is off or no checksum is stored) -/
theorem crcBad_clean (verify : Bool) (crc : Int) (body : Reader.Bytes)
    (hcrc : (crc % 4294967296).toNat = (Crc32.crc32 body).toNat) : crcBad verify (some crc) body = false := by
  unfold crcBad
  simp [hcrc]

theorem crcBad_off (crc : Option Int) (body : Reader.Bytes) : crcBad false crc body = false := by
  unfold crcBad; cases crc <;> simp

theorem crcBad_none (verify : Bool) (body : Reader.Bytes) : crcBad verify none body = false := rfl

/-! ### nothing after the checksum test reports CRC_MISMATCH -/

def NoCrc {α : Type} (r : Except Err α) : Prop := r ≠ .error .crcMismatch

theorem noCrc_ok {α : Type} (a : α) : NoCrc (Except.ok a : Except Err α) := by intro h; cases h

theorem mapSnappy_noCrc (r : Except Snappy.Err Reader.Bytes) : NoCrc (mapSnappy r) := by
  unfold mapSnappy NoCrc; split <;> simp

theorem mapLz4_noCrc (r : Except Lz4.Err Reader.Bytes) : NoCrc (mapLz4 r) := by
  unfold mapLz4 NoCrc; split <;> simp

theorem mapWrap_noCrc (r : Except CodecWrappers.Err Reader.Bytes) : NoCrc (mapWrap r) := by
  unfold mapWrap NoCrc; split <;> simp

theorem pageData_noCrc (L : Libs) (codec : Int) (body : Reader.Bytes) (u : Nat) : NoCrc (pageData L codec body u) := by
  unfold pageData
  split
  · exact noCrc_ok _
  · unfold decompressPage
    split
    · split
      · intro h; cases h
      · exact noCrc_ok _
    · split
      · exact mapSnappy_noCrc _
      · split
        · exact mapLz4_noCrc _
        · split
          · exact mapWrap_noCrc _
          · split
            · exact mapWrap_noCrc _
            · intro h; cases h

theorem levelBlock_noCrc (fx : Fixes) (m n : Nat) (data : Reader.Bytes) : NoCrc (levelBlock fx m n data) := by
  unfold levelBlock NoCrc
  split
  · simp
  · split
    · simp
    · split
      · split <;> simp
      · simp

theorem plainRes_noCrc {α : Type} (f : α → List Reader.Bytes) (r : Plain.Res α) : NoCrc (plainRes f r) := by
  unfold plainRes NoCrc; split <;> simp

theorem plainValues_noCrc (ptype tl : Int) (input : Reader.Bytes) (n : Nat) : NoCrc (plainValues ptype tl input n) := by
  unfold plainValues
  repeat (first | exact plainRes_noCrc _ _ | split)
  intro h; cases h

theorem gatherBytes_noCrc (d : Dict) : ∀ (is : List Nat), NoCrc (gatherBytes d is) := by
  intro is
  induction is with
  | nil => exact noCrc_ok _
  | cons i is ih =>
    unfold gatherBytes
    split
    · intro h; cases h
    · split
      · intro h; cases h
      · split
        · rename_i e he
          intro h
          rw [h] at he
          exact ih he
        · exact noCrc_ok _

theorem gatherFixed_noCrc (k : Nat) (d : Dict) (idx : List Nat) : NoCrc (gatherFixed k d idx) := by
  unfold gatherFixed NoCrc; split <;> simp

theorem dictValues_noCrc (fx : Fixes) (c : Col) (dict : Option Dict) (input : Reader.Bytes) (n : Nat) :
    NoCrc (dictValues fx c dict input n) := by
  unfold dictValues
  split
  · intro h; cases h
  · split
    · intro h; cases h
    · split
      · split <;> (intro h; cases h)
      · split
        · split <;> (intro h; cases h)
        · split
          · exact gatherBytes_noCrc _ _
          · split
            · split
              · intro h; cases h
              · split
                · exact noCrc_ok _
                · split <;> (intro h; cases h)
            · exact gatherFixed_noCrc _ _ _

theorem decodeValues_noCrc (fx : Fixes) (c : Col) (dict : Option Dict) (enc : Int) (input : Reader.Bytes) (n : Nat) :
    NoCrc (decodeValues fx c dict enc input n) := by
  unfold decodeValues
  split
  · exact plainValues_noCrc _ _ _ _
  · split
    · exact dictValues_noCrc _ _ _ _ _
    · intro h; cases h

theorem readDataPageV1_noCrc (fx : Fixes) (c : Col) (dict : Option Dict) (pd : Reader.Bytes) (n : Nat) (enc : Int) :
    NoCrc (readDataPageV1 fx c dict pd n enc) := by
  unfold readDataPageV1
  split
  · rename_i e he
    intro h
    simp only [Except.error.injEq] at h
    subst h
    unfold repLevels at he
    split at he
    · exact levelBlock_noCrc _ _ _ _ he
    · cases he
  · split
    · rename_i e he
      intro h
      simp only [Except.error.injEq] at h
      subst h
      unfold defLevels at he
      split at he
      · exact levelBlock_noCrc _ _ _ _ he
      · cases he
    · split
      · rename_i e he
        intro h
        simp only [Except.error.injEq] at h
        subst h
        exact decodeValues_noCrc _ _ _ _ _ _ he
      · exact noCrc_ok _

/-- a stored data page that passes the checksum test is never reported as a checksum mismatch -/
theorem finishDataPage_clean (fx : Fixes) (L : Libs) (verify : Bool) (mode : Mode) (b : Reader.Bytes) (c : Col) (st : PState)
    (hr : ThriftParquetReq.PageHdr × Nat) (body : Reader.Bytes)
    (hst : storedDataPage mode b st hr = some body) (hok : crcBad verify hr.1.crc body = false) :
    (finishDataPage fx L verify mode b c st hr).result ≠ .error .crcMismatch := by
  unfold storedDataPage at hst
  unfold finishDataPage
  by_cases h3 : hr.1.type = 3
  · rw [if_pos h3] at hst; cases hst
  · rw [if_neg h3] at hst ⊢
    by_cases ht : hr.1.type ≠ 0
    · rw [if_pos ht] at hst; cases hst
    · rw [if_neg ht] at hst ⊢
      by_cases hsz : (!sizesValid hr.1 || decide (hr.1.word0 < 0) || decide (hr.1.word0 > st.valuesRemaining)) = true
      · rw [if_pos hsz] at hst; cases hst
      · rw [if_neg hsz] at hst ⊢
        rw [andThen_result', Load.ofPair]
        cases hb : (bodyBytes mode b (st.dataStart + st.currentPage).toNat hr.2 hr.1.compressed.toNat).1 with
        | error e => rw [hb] at hst; cases hst
        | ok body' =>
          rw [hb] at hst
          simp only [Option.some.injEq] at hst
          subst hst
          simp only [hok, Bool.false_eq_true, if_false]
          split
          · simp [Load.pure]
          split
          · rw [andThen_result']
            unfold viewPage
            simp only
            split
            · rename_i e he
              intro hx
              simp only [Except.error.injEq] at hx
              subst hx
              split at he <;> cases he
            · simp [Load.pure]
          · split
            · rename_i e he
              intro hx
              simp only [Load.pure, Except.error.injEq] at hx
              subst hx
              exact pageData_noCrc _ _ _ _ he
            · split
              · rename_i e he
                intro hx
                simp only [Load.pure, Except.error.injEq] at hx
                subst hx
                exact readDataPageV1_noCrc _ _ _ _ _ _ he
              · simp [Load.pure]

end Carquet.Proofs.ReaderCrc
