import Carquet.Impl.Simd
import Carquet.Proofs.SimdBlocked
import Carquet.Proofs.SimdPrefix
/-
C15 helper lemmas: the byte-stream-split (float) block steps of the SSE / AVX2 / AVX-512 kernels
are the 4 x W byte transposes the scalar loop performs.
-/
namespace Carquet.Proofs.SimdBss
open Carquet Carquet.Impl.Simd Carquet.Proofs.SimdBlocked Carquet.Proofs.SimdPrefix

theorem sse_enc_block (b : List (BitVec 32)) (h : b.length = 4) : sseBssEncBlk b = bssEncScalar b := by
  obtain ⟨a0, a1, a2, a3, rfl⟩ := list_len4 b h
  rfl

theorem avx2_enc_block (b : List (BitVec 32)) (h : b.length = 8) : avx2BssEncBlk b = bssEncScalar b := by
  obtain ⟨a0, a1, a2, a3, a4, a5, a6, a7, rfl⟩ := list_len8 b h
  rfl

theorem avx512_enc_block (b : List (BitVec 32)) (h : b.length = 16) : avx512BssEncBlk b = bssEncScalar b := by
  obtain ⟨a0, a1, a2, a3, a4, a5, a6, a7, a8, a9, a10, a11, a12, a13, a14, a15, rfl⟩ := list_len16 b h
  rfl

theorem sse_dec_block (b : List T4) (h : b.length = 4) : sseBssDecBlk b = bssDecScalar b := by
  obtain ⟨a0, a1, a2, a3, rfl⟩ := list_len4 b h
  rfl

theorem avx2_dec_block (b : List T4) (h : b.length = 8) : avx2BssDecBlk b = bssDecScalar b := by
  obtain ⟨a0, a1, a2, a3, a4, a5, a6, a7, rfl⟩ := list_len8 b h
  rfl

theorem avx512_dec_block (b : List T4) (h : b.length = 16) : avx512BssDecBlk b = bssDecScalar b := by
  obtain ⟨a0, a1, a2, a3, a4, a5, a6, a7, a8, a9, a10, a11, a12, a13, a14, a15, rfl⟩ := list_len16 b h
  rfl

end Carquet.Proofs.SimdBss
