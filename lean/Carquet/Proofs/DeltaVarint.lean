import Carquet.Spec.Delta
import Carquet.Impl.Delta
/-
ULEB128 and zigzag: Spec round trips, and the Impl bit-twiddling versions against the Spec.
-/
namespace Carquet.Spec.Delta

theorem ulebEncodeAux_fuel (f f' n : Nat) (h : n ≤ f) (h' : n ≤ f') :
    ulebEncodeAux f n = ulebEncodeAux f' n := by
  induction f generalizing f' n with
  | zero =>
    have : n = 0 := by omega
    subst this
    cases f' <;> simp [ulebEncodeAux]
  | succ f ih =>
    cases f' with
    | zero =>
      have : n = 0 := by omega
      subst this; simp [ulebEncodeAux]
    | succ f' =>
      simp only [ulebEncodeAux]
      split
      · rfl
      · rw [ih f' (n / 128) (by omega) (by omega)]

theorem ulebEncode_eq (n : Nat) :
    ulebEncode n = if n < 128 then [UInt8.ofNat n] else UInt8.ofNat (n % 128 + 128) :: ulebEncode (n / 128) := by
  unfold ulebEncode
  cases n with
  | zero => simp [ulebEncodeAux]
  | succ n =>
    simp only [ulebEncodeAux]
    split
    · rfl
    · rw [ulebEncodeAux_fuel n ((n + 1) / 128) ((n + 1) / 128) (by omega) (by omega)]

theorem ulebEncode_small (n : Nat) (h : n < 128) : ulebEncode n = [UInt8.ofNat n] := by
  rw [ulebEncode_eq, if_pos h]

theorem ulebEncode_big (n : Nat) (h : ¬ n < 128) :
    ulebEncode n = UInt8.ofNat (n % 128 + 128) :: ulebEncode (n / 128) := by
  rw [ulebEncode_eq, if_neg h]

theorem ulebEncode_ne_nil (n : Nat) : ulebEncode n ≠ [] := by
  rw [ulebEncode_eq]; split <;> simp

theorem toNat_ofNat_lt (n : Nat) (h : n < 256) : (UInt8.ofNat n).toNat = n := by
  simp [UInt8.toNat_ofNat', Nat.mod_eq_of_lt h]

/-- ULEB128 round trip (Spec encoder, Spec decoder), any bytes following -/
theorem ulebDecode_ulebEncode (n : Nat) (tail : List UInt8) :
    ulebDecode (ulebEncode n ++ tail) = some (n, tail) := by
  induction n using Nat.strongRecOn with
  | _ n ih =>
    by_cases h : n < 128
    · rw [ulebEncode_small n h]
      simp [ulebDecode, toNat_ofNat_lt n (by omega), h]
    · rw [ulebEncode_big n h]
      simp only [List.cons_append, ulebDecode]
      rw [toNat_ofNat_lt (n % 128 + 128) (by omega)]
      rw [if_neg (by omega), ih (n / 128) (by omega)]
      simp only [Option.some.injEq, Prod.mk.injEq, and_true]
      omega

theorem ulebDecode64_ulebEncode (n : Nat) (tail : List UInt8) (h : n < 2 ^ 64) :
    ulebDecode64 (ulebEncode n ++ tail) = .ok (n, tail) := by
  unfold ulebDecode64
  rw [ulebDecode_ulebEncode]
  simp only
  rw [if_pos h]

theorem zigzagEnc_lt64 (i : Int) (h : inI64 i) : zigzagEnc i < 2 ^ 64 := by
  unfold zigzagEnc; unfold inI64 at h; split <;> omega

theorem zigzagDec_zigzagEnc (i : Int) : zigzagDec (zigzagEnc i) = i := by
  unfold zigzagDec zigzagEnc
  by_cases h : 0 ≤ i
  · simp only [h, if_true]
    have : (2 * i).toNat % 2 = 0 := by omega
    simp only [this, if_true]
    omega
  · simp only [h, if_false]
    have : (-2 * i - 1).toNat % 2 ≠ 0 := by omega
    simp only [this, if_false]
    omega

end Carquet.Spec.Delta

namespace Carquet.Impl.Delta
open Carquet.Spec.Delta (ulebEncode ulebEncode_small ulebEncode_big zigzagEnc)

theorem or128 : ∀ r, r < 256 → (r ||| 128) = r % 128 + 128 := by decide +kernel
theorem and127 : ∀ r, r < 256 → (r &&& 127) = r % 128 := by decide +kernel
theorem and128_zero : ∀ r, r < 256 → ((r &&& 128 = 0) ↔ r < 128) := by decide +kernel

theorem ofNat_or128 (a : Nat) : UInt8.ofNat (a ||| 0x80) = UInt8.ofNat (a % 128 + 128) := by
  apply UInt8.toNat_inj.mp
  simp only [UInt8.toNat_ofNat']
  have h1 : (a ||| 128) % 2 ^ 8 = (a % 2 ^ 8 ||| 128 % 2 ^ 8) := Nat.or_mod_two_pow
  have h2 := or128 (a % 256) (Nat.mod_lt _ (by decide))
  simp only [Nat.reducePow, Nat.reduceMod] at h1
  rw [h1, h2]
  omega

/-- `write_uleb128` is the minimal ULEB128 of the 64-bit value -/
theorem writeUlebLoop_eq (f : Nat) (v : BitVec 64) (h : v.toNat < 2 ^ (7 * f)) :
    writeUlebLoop f v = ulebEncode v.toNat := by
  induction f generalizing v with
  | zero =>
    simp at h
    simp [writeUlebLoop, ulebEncode_small v.toNat (by omega)]
  | succ f ih =>
    simp only [writeUlebLoop]
    by_cases hv : 0x80 ≤ v.toNat
    · rw [if_pos hv, ulebEncode_big v.toNat (by omega), ofNat_or128]
      have e : (v >>> 7).toNat = v.toNat / 128 := by
        simp [BitVec.toNat_ushiftRight, Nat.shiftRight_eq_div_pow]
      rw [ih (v >>> 7) (by
        rw [e]
        have : 2 ^ (7 * (f + 1)) = 128 * 2 ^ (7 * f) := by
          rw [Nat.mul_succ, Nat.pow_add]; simp [Nat.mul_comm]
        rw [this] at h
        exact Nat.div_lt_of_lt_mul h), e]
    · rw [if_neg hv, ulebEncode_small v.toNat (by omega)]

theorem writeUleb128_eq (v : BitVec 64) : writeUleb128 v = ulebEncode v.toNat :=
  writeUlebLoop_eq 10 v (by have := v.isLt; omega)

theorem or_shift_eq (acc : BitVec 64) (low shift : Nat) (hacc : acc.toNat < 2 ^ shift)
    (hlt : low * 2 ^ shift + acc.toNat < 2 ^ 64) :
    acc ||| (BitVec.ofNat 64 low <<< shift) = BitVec.ofNat 64 (low * 2 ^ shift + acc.toNat) := by
  apply BitVec.eq_of_toNat_eq
  have hp : 0 < 2 ^ shift := Nat.two_pow_pos shift
  have hlow : low < 2 ^ 64 := by
    have : low * 1 ≤ low * 2 ^ shift := Nat.mul_le_mul_left _ hp
    omega
  rw [BitVec.toNat_or, BitVec.toNat_shiftLeft, BitVec.toNat_ofNat, BitVec.toNat_ofNat,
      Nat.mod_eq_of_lt hlow, Nat.shiftLeft_eq, Nat.mod_eq_of_lt (by omega), Nat.mod_eq_of_lt hlt,
      Nat.or_comm, ← Nat.shiftLeft_eq, ← Nat.shiftLeft_add_eq_or_of_lt hacc]

theorem mul_split (q r p : Nat) : q * (128 * p) + (r * p) = (128 * q + r) * p := by
  rw [Nat.add_mul, Nat.mul_left_comm, Nat.mul_assoc]

/-- `read_uleb128` on a minimal ULEB128 of a value that fits the 64-bit register -/
theorem readUlebLoop_ulebEncode (n : Nat) : ∀ (f shift : Nat) (acc : BitVec 64) (i : Nat) (tail : List UInt8),
    (ulebEncode n).length ≤ f → acc.toNat < 2 ^ shift → n * 2 ^ shift + acc.toNat < 2 ^ 64 →
    readUlebLoop f shift acc i (ulebEncode n ++ tail) =
      some (BitVec.ofNat 64 (n * 2 ^ shift + acc.toNat), i + (ulebEncode n).length) := by
  induction n using Nat.strongRecOn with
  | _ n ih =>
    intro f shift acc i tail hf hacc hlt
    by_cases h : n < 128
    · rw [ulebEncode_small n h] at hf ⊢
      cases f with
      | zero => simp at hf
      | succ f =>
        simp only [List.cons_append, List.nil_append, readUlebLoop, List.length_singleton]
        rw [Spec.Delta.toNat_ofNat_lt n (by omega)]
        rw [if_pos ((and128_zero n (by omega)).mpr h), and127 n (by omega), Nat.mod_eq_of_lt h,
            or_shift_eq acc n shift hacc hlt]
    · rw [ulebEncode_big n h] at hf ⊢
      cases f with
      | zero => simp at hf
      | succ f =>
        simp only [List.cons_append, readUlebLoop, List.length_cons]
        rw [Spec.Delta.toNat_ofNat_lt (n % 128 + 128) (by omega)]
        have hp : 0 < 2 ^ shift := Nat.two_pow_pos shift
        have hnz : ¬ ((n % 128 + 128) &&& 128 = 0) := by
          rw [and128_zero _ (by omega)]; omega
        have hsplit : n * 2 ^ shift = (n / 128) * (128 * 2 ^ shift) + (n % 128) * 2 ^ shift := by
          rw [mul_split, Nat.div_add_mod]
        have hlow : (n % 128) * 2 ^ shift + acc.toNat < 2 ^ 64 := by
          have : 0 ≤ (n / 128) * (128 * 2 ^ shift) := Nat.zero_le _
          omega
        rw [if_neg hnz, and127 _ (by omega)]
        have e : (n % 128 + 128) % 128 = n % 128 := by omega
        rw [e, or_shift_eq acc (n % 128) shift hacc hlow]
        have hacc' : (BitVec.ofNat 64 (n % 128 * 2 ^ shift + acc.toNat)).toNat = n % 128 * 2 ^ shift + acc.toNat := by
          rw [BitVec.toNat_ofNat, Nat.mod_eq_of_lt hlow]
        have hpow : (2:Nat) ^ (shift + 7) = 128 * 2 ^ shift := by
          rw [Nat.pow_add, Nat.mul_comm]
        have hb : n % 128 * 2 ^ shift + acc.toNat < 2 ^ (shift + 7) := by
          rw [hpow]
          have h127 : n % 128 * 2 ^ shift ≤ 127 * 2 ^ shift := Nat.mul_le_mul_right _ (by omega)
          omega
        have hsum : n / 128 * (128 * 2 ^ shift) + (n % 128 * 2 ^ shift + acc.toNat) = n * 2 ^ shift + acc.toNat := by
          omega
        have hlen : (ulebEncode (n / 128)).length ≤ f := by simpa using hf
        rw [ih (n / 128) (by omega) f (shift + 7) _ (i + 1) tail hlen
              (by rw [hacc']; exact hb) (by rw [hacc', hpow, hsum]; exact hlt)]
        rw [hacc', hpow, hsum]
        congr 2
        omega

theorem length_ulebEncode_le (n : Nat) : ∀ k, n < 2 ^ (7 * k) → 0 < k → (ulebEncode n).length ≤ k := by
  induction n using Nat.strongRecOn with
  | _ n ih =>
    intro k hk hpos
    by_cases h : n < 128
    · rw [ulebEncode_small n h]; exact hpos
    · rw [ulebEncode_big n h]
      cases k with
      | zero => omega
      | succ k =>
        have hk' : n / 128 < 2 ^ (7 * k) := by
          have : 2 ^ (7 * (k + 1)) = 128 * 2 ^ (7 * k) := by
            rw [Nat.mul_succ, Nat.pow_add]; simp [Nat.mul_comm]
          rw [this] at hk
          exact Nat.div_lt_of_lt_mul hk
        have hkpos : 0 < k := by
          cases k with
          | zero => simp at hk'; omega
          | succ k => omega
        simpa using ih (n / 128) (by omega) k hk' hkpos

/-- `read_uleb128` reads back a minimal ULEB128 of any 64-bit value -/
theorem readUleb128_ulebEncode (n : Nat) (tail : List UInt8) (h : n < 2 ^ 64) :
    readUleb128 (ulebEncode n ++ tail) = some (BitVec.ofNat 64 n, (ulebEncode n).length) := by
  have := readUlebLoop_ulebEncode n 10 0 0#64 0 tail
    (length_ulebEncode_le n 10 (by omega) (by decide)) (by simp) (by simpa using h)
  simpa [readUleb128] using this

/-! zigzag -/

theorem zigzagEncode64_toNat (v : BitVec 64) : (zigzagEncode64 v).toNat = zigzagEnc v.toInt := by
  unfold zigzagEncode64 zigzagEnc
  have hv := v.isLt
  by_cases hm : v.msb = true
  · have hge : 2 ^ 63 ≤ v.toNat := by simpa [BitVec.msb_eq_decide] using hm
    have hint : v.toInt = (v.toNat : Int) - 2 ^ 64 := by
      rw [BitVec.toInt_eq_msb_cond]; simp [hm]
    have hs : v.sshiftRight 63 = BitVec.allOnes 64 := by
      rw [BitVec.sshiftRight_eq_of_msb_true hm]
      have : (~~~v) >>> 63 = 0#64 := by
        apply BitVec.eq_of_toNat_eq
        rw [BitVec.toNat_ushiftRight, BitVec.toNat_not, Nat.shiftRight_eq_div_pow]
        simp only [BitVec.toNat_ofNat, Nat.zero_mod]
        apply Nat.div_eq_of_lt
        omega
      rw [this]; decide
    rw [hs, BitVec.xor_allOnes, BitVec.toNat_not, BitVec.toNat_shiftLeft, Nat.shiftLeft_eq, hint]
    have hneg : ¬ (0 ≤ (v.toNat : Int) - 2 ^ 64) := by omega
    rw [if_neg hneg]
    omega
  · have hm' : v.msb = false := by simpa using hm
    have hlt : v.toNat < 2 ^ 63 := by
      have : ¬ (2 ^ 63 ≤ v.toNat) := by simpa [BitVec.msb_eq_decide] using hm'
      omega
    have hint : v.toInt = (v.toNat : Int) := by
      rw [BitVec.toInt_eq_msb_cond]; simp [hm']
    have hs : v.sshiftRight 63 = 0#64 := by
      rw [BitVec.sshiftRight_eq_of_msb_false hm']
      apply BitVec.eq_of_toNat_eq
      rw [BitVec.toNat_ushiftRight, Nat.shiftRight_eq_div_pow]
      simp only [BitVec.toNat_ofNat, Nat.zero_mod]
      exact Nat.div_eq_of_lt hlt
    rw [hs, BitVec.xor_zero, BitVec.toNat_shiftLeft, Nat.shiftLeft_eq, hint]
    have hpos : (0 : Int) ≤ (v.toNat : Int) := by omega
    rw [if_pos hpos]
    omega

theorem zigzagEnc_lt (i : Int) (hlo : -(2 ^ 63) ≤ i) (hhi : i < 2 ^ 63) : zigzagEnc i < 2 ^ 64 := by
  unfold zigzagEnc; split <;> omega

theorem zigzagDecode64_zigzagEnc (i : Int) (hlo : -(2 ^ 63) ≤ i) (hhi : i < 2 ^ 63) :
    zigzagDecode64 (BitVec.ofNat 64 (zigzagEnc i)) = BitVec.ofInt 64 i := by
  have hz := zigzagEnc_lt i hlo hhi
  unfold zigzagDecode64
  have hn : (BitVec.ofNat 64 (zigzagEnc i)).toNat = zigzagEnc i := by
    rw [BitVec.toNat_ofNat, Nat.mod_eq_of_lt hz]
  have hand : (BitVec.ofNat 64 (zigzagEnc i) &&& 1#64).toNat = zigzagEnc i % 2 := by
    rw [BitVec.toNat_and, hn]; simp [Nat.and_one_is_mod]
  by_cases h : 0 ≤ i
  · have hz2 : zigzagEnc i = (2 * i).toNat := by simp [zigzagEnc, h]
    have h0 : BitVec.ofNat 64 (zigzagEnc i) &&& 1#64 = 0#64 := by
      apply BitVec.eq_of_toNat_eq; rw [hand, hz2]; simp; omega
    rw [h0]
    have : ~~~(0#64) + 1#64 = 0#64 := by decide
    rw [this, BitVec.xor_zero]
    apply BitVec.eq_of_toNat_eq
    rw [BitVec.toNat_ushiftRight, hn, BitVec.toNat_ofInt, Nat.shiftRight_eq_div_pow, hz2]
    omega
  · have hz2 : zigzagEnc i = (-2 * i - 1).toNat := by simp [zigzagEnc, h]
    have h1 : BitVec.ofNat 64 (zigzagEnc i) &&& 1#64 = 1#64 := by
      apply BitVec.eq_of_toNat_eq; rw [hand, hz2]; simp; omega
    rw [h1]
    have : ~~~(1#64) + 1#64 = BitVec.allOnes 64 := by decide
    rw [this, BitVec.xor_allOnes]
    apply BitVec.eq_of_toNat_eq
    rw [BitVec.toNat_not, BitVec.toNat_ushiftRight, hn, BitVec.toNat_ofInt, Nat.shiftRight_eq_div_pow, hz2]
    omega

theorem zigzagDecode64_zigzagEncode64 (v : BitVec 64) :
    zigzagDecode64 (BitVec.ofNat 64 (zigzagEncode64 v).toNat) = v := by
  rw [zigzagEncode64_toNat, zigzagDecode64_zigzagEnc v.toInt (by have := @BitVec.le_toInt 64 v; simpa using this)
        (by have := @BitVec.toInt_lt 64 v; simpa using this), BitVec.ofInt_toInt]

end Carquet.Impl.Delta
