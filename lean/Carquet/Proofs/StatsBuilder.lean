import Carquet.Spec.Order
import Carquet.Impl.Stats
import Carquet.Proofs.StatsOrder
import Carquet.Proofs.StatsCmp
/-
Fold invariant of a running minimum / maximum in the statistics order, and its two instances:
the statistics builder and the page writer.
-/
namespace Carquet.Proofs.StatsBuilder
open Carquet.Spec.Order Carquet.Impl.Stats Carquet.Proofs.StatsOrder Carquet.Proofs.StatsCmp

/-! ### rows -/

theorem countNulls_append (a b : List Row) : countNulls (a ++ b) = countNulls a + countNulls b := by
  induction a with
  | nil => simp [countNulls]
  | cons x r ih => cases x <;> simp [countNulls, ih] <;> omega

theorem countNulls_replicate (n : Nat) : countNulls (List.replicate n (none : Row)) = n := by
  induction n with
  | zero => rfl
  | succ n ih => simp [List.replicate_succ, countNulls, ih]

theorem countNulls_map_some (l : List (List UInt8)) : countNulls (l.map some) = 0 := by
  induction l with
  | nil => rfl
  | cons x r ih => simp [countNulls, ih]

/-! ### the abstract running min/max -/

structure MM where
  has : Bool
  mn : List UInt8
  mx : List UInt8

def MM.step (t : PType) (s : MM) (v : List UInt8) : MM :=
  if s.has = false then ⟨true, v, v⟩
  else ⟨true, if tcmp t v s.mn = .lt then v else s.mn, if tcmp t v s.mx = .gt then v else s.mx⟩

/-- nothing seen yet, or: both bounds are attained and bound every value seen -/
def MM.Inv (t : PType) (s : MM) (rows : List Row) : Prop :=
  (s.has = false → ∀ x, some x ∉ rows) ∧
  (s.has = true → some s.mn ∈ rows ∧ some s.mx ∈ rows ∧ ∀ x, some x ∈ rows → tle t s.mn x ∧ tle t x s.mx)

theorem tle_of_lt {t : PType} {a b : List UInt8} (h : tcmp t a b = .lt) : tle t a b := by
  unfold tle; rw [h]; decide

theorem tle_of_not_lt {t : PType} {a b : List UInt8} (h : tcmp t a b ≠ .lt) : tle t b a := by
  unfold tle; rw [(tcmp_good t).swap a b]; cases hc : tcmp t a b <;> simp_all [Ordering.swap]

theorem tle_of_gt {t : PType} {a b : List UInt8} (h : tcmp t a b = .gt) : tle t b a := by
  apply tle_of_not_lt; rw [h]; decide

theorem tle_of_not_gt {t : PType} {a b : List UInt8} (h : tcmp t a b ≠ .gt) : tle t a b := h

theorem MM.step_inv (t : PType) (s : MM) (rows : List Row) (v : List UInt8) (h : MM.Inv t s rows) :
    MM.Inv t (s.step t v) (rows ++ [some v]) := by
  unfold MM.step
  by_cases hh : s.has = false
  · simp only [hh, if_true]
    refine ⟨by simp, fun _ => ⟨by simp, by simp, ?_⟩⟩
    intro x hx
    have hno := h.1 hh x
    simp only [List.mem_append, List.mem_singleton, Option.some.injEq] at hx
    rcases hx with hx | hx
    · exact absurd hx hno
    · subst hx; exact ⟨tle_refl t x, tle_refl t x⟩
  · have hs : s.has = true := by cases hb : s.has <;> simp_all
    obtain ⟨hmn, hmx, hall⟩ := h.2 hs
    simp only [hh]
    refine ⟨by simp, fun _ => ⟨?_, ?_, ?_⟩⟩
    · by_cases hc : tcmp t v s.mn = .lt <;> simp [hc, hmn]
    · by_cases hc : tcmp t v s.mx = .gt <;> simp [hc, hmx]
    · intro x hx
      simp only [List.mem_append, List.mem_singleton, Option.some.injEq] at hx
      constructor
      · by_cases hc : tcmp t v s.mn = .lt
        · simp only [hc, if_true]
          rcases hx with hx | hx
          · exact tle_trans (tle_of_lt hc) (hall x hx).1
          · subst hx; exact tle_refl t x
        · simp only [hc, if_false]
          rcases hx with hx | hx
          · exact (hall x hx).1
          · subst hx; exact tle_of_not_lt hc
      · by_cases hc : tcmp t v s.mx = .gt
        · simp only [hc, if_true]
          rcases hx with hx | hx
          · exact tle_trans (hall x hx).2 (tle_of_gt hc)
          · subst hx; exact tle_refl t x
        · simp only [hc, if_false]
          rcases hx with hx | hx
          · exact (hall x hx).2
          · subst hx; exact tle_of_not_gt hc

theorem MM.fold_inv (t : PType) (vals : List (List UInt8)) (s : MM) (rows : List Row) (h : MM.Inv t s rows) :
    MM.Inv t (vals.foldl (MM.step t) s) (rows ++ vals.map some) := by
  induction vals generalizing s rows with
  | nil => simpa using h
  | cons v r ih =>
    have := ih (s.step t v) (rows ++ [some v]) (MM.step_inv t s rows v h)
    simpa [List.append_assoc] using this

theorem MM.inv_append_nulls (t : PType) (s : MM) (rows : List Row) (n : Nat) (h : MM.Inv t s rows) :
    MM.Inv t s (rows ++ List.replicate n none) := by
  have hm : ∀ x : List UInt8, some x ∈ rows ++ List.replicate n (none : Row) ↔ some x ∈ rows := by
    intro x; simp [List.mem_append, List.mem_replicate]
  refine ⟨fun hh x => by rw [hm]; exact h.1 hh x, fun hh => ?_⟩
  obtain ⟨a, b, c⟩ := h.2 hh
  exact ⟨(hm _).2 a, (hm _).2 b, fun x hx => c x ((hm x).1 hx)⟩

theorem MM.inv_empty (t : PType) (mn mx : List UInt8) : MM.Inv t ⟨false, mn, mx⟩ [] :=
  ⟨fun _ x => by simp, fun h => by simp at h⟩

/-! ### the statistics builder -/

def mmOf (b : Builder) : MM := ⟨b.hasMin, b.minV, b.maxV⟩

structure BInv (t : PType) (tl : Int) (b : Builder) (rows : List Row) : Prop where
  ty : b.type = t
  tlen : b.typeLength = tl
  flags : b.hasMin = b.hasMax
  nulls : b.nullCount = (countNulls rows : Int)
  mm : b.skippedOversized = true ∨ MM.Inv t (mmOf b) rows

theorem binv_create (t : PType) (tl : Int) : BInv t tl (create t tl) [] :=
  ⟨rfl, rfl, rfl, rfl, Or.inr (MM.inv_empty t [] [])⟩

theorem cmpFixed_eq (t : PType) (ht : t ≠ .byteArray) (a b : List UInt8) : cmpFixed t a b = ordInt (tcmp t a b) := by
  rw [← cmpTyped_eq]; cases t <;> simp_all [cmpFixed]

/-- one builder step is the abstract step -/
theorem mmOf_step (t : PType) (b : Builder) (v : List UInt8) (hb : b.hasMin = b.hasMax)
    (cmp : List UInt8 → List UInt8 → Int) (hc : ∀ x y, cmp x y = ordInt (tcmp t x y)) :
    (⟨true,
      if b.hasMin = false ∨ cmp v b.minV < 0 then v else b.minV,
      if b.hasMax = false ∨ cmp v b.maxV > 0 then v else b.maxV⟩ : MM) = (mmOf b).step t v := by
  unfold MM.step mmOf
  simp only [hc, ordInt_lt_zero, ordInt_gt_zero]
  cases h1 : b.hasMin
  · have h2 : b.hasMax = false := by rw [← hb, h1]
    simp [h2]
  · have h2 : b.hasMax = true := by rw [← hb, h1]
    simp [h2]

theorem binv_stepFixed (t : PType) (tl : Int) (ht : t ≠ .byteArray) (b : Builder) (rows : List Row)
    (v : List UInt8) (h : BInv t tl b rows) : BInv t tl (stepFixed t b v) (rows ++ [some v]) := by
  refine ⟨h.ty, h.tlen, rfl, ?_, ?_⟩
  · show b.nullCount = _
    rw [countNulls_append, h.nulls]; simp [countNulls]
  · rcases h.mm with hs | hi
    · exact Or.inl hs
    · right
      have := mmOf_step t b v h.flags (cmpFixed t) (cmpFixed_eq t ht)
      show MM.Inv t (mmOf (stepFixed t b v)) _
      have e : mmOf (stepFixed t b v) = (mmOf b).step t v := this
      rw [e]; exact MM.step_inv t _ rows v hi

theorem binv_foldFixed (t : PType) (tl : Int) (ht : t ≠ .byteArray) (vals : List (List UInt8)) (b : Builder)
    (rows : List Row) (h : BInv t tl b rows) :
    BInv t tl (vals.foldl (stepFixed t) b) (rows ++ vals.map some) := by
  induction vals generalizing b rows with
  | nil => simpa using h
  | cons v r ih =>
    have := ih (stepFixed t b v) (rows ++ [some v]) (binv_stepFixed t tl ht b rows v h)
    simpa [List.append_assoc] using this

theorem binv_stepBA (tl : Int) (b : Builder) (rows : List Row) (v : List UInt8)
    (h : BInv .byteArray tl b rows) : BInv .byteArray tl (stepBA b v) (rows ++ [some v]) := by
  unfold stepBA
  by_cases hl : v.length > cap
  · simp only [hl, if_true]
    refine ⟨h.ty, h.tlen, h.flags, ?_, Or.inl rfl⟩
    show b.nullCount = _
    rw [countNulls_append, h.nulls]; simp [countNulls]
  · simp only [hl, if_false]
    refine ⟨h.ty, h.tlen, rfl, ?_, ?_⟩
    · show b.nullCount = _
      rw [countNulls_append, h.nulls]; simp [countNulls]
    · rcases h.mm with hs | hi
      · exact Or.inl hs
      · right
        have e := mmOf_step .byteArray b v h.flags cmpBytes (fun x y => by
          rw [cmpBytes_eq, tcmp_of_not_nan rfl rfl]; rfl)
        show MM.Inv .byteArray (mmOf _) _
        unfold mmOf at e ⊢
        simp only at e ⊢
        rw [e]; exact MM.step_inv .byteArray _ rows v hi

theorem binv_foldBA (tl : Int) (vals : List (List UInt8)) (b : Builder) (rows : List Row)
    (h : BInv .byteArray tl b rows) :
    BInv .byteArray tl (vals.foldl stepBA b) (rows ++ vals.map some) := by
  induction vals generalizing b rows with
  | nil => simpa using h
  | cons v r ih =>
    have := ih (stepBA b v) (rows ++ [some v]) (binv_stepBA tl b rows v h)
    simpa [List.append_assoc] using this

theorem binv_bump (t : PType) (tl : Int) (b : Builder) (rows : List Row) (n : Int) (h : BInv t tl b rows) :
    BInv t tl (bumpNum b n) rows := ⟨h.ty, h.tlen, h.flags, h.nulls, h.mm⟩

theorem binv_runOp (t : PType) (tl : Int) (b : Builder) (rows : List Row) (op : BOp) (hw : WfOp op)
    (h : BInv t tl b rows) : BInv t tl (runOp b op).2 (rows ++ rowsOfOp b op) := by
  cases op with
  | nulls c =>
    simp only [runOp, rowsOfOp, addNulls]
    refine ⟨h.ty, h.tlen, h.flags, ?_, ?_⟩
    · show b.nullCount + c = _
      have hc : 0 ≤ c := hw
      rw [countNulls_append, countNulls_replicate, h.nulls]
      have : ((c.toNat : Nat) : Int) = c := Int.toNat_of_nonneg hc
      omega
    · rcases h.mm with hs | hi
      · exact Or.inl hs
      · exact Or.inr (MM.inv_append_nulls t _ rows _ hi)
  | values d n =>
    simp only [runOp, rowsOfOp, addValues]
    by_cases h1 : n ≤ 0
    · simpa [h1] using h
    · by_cases h2 : valueSize b.type b.typeLength = 0
      · simpa [h1, h2] using h
      · by_cases h3 : valueSize b.type b.typeLength > cap
        · simpa [h1, h2, h3] using h
        · simp only [h1, h2, h3, if_false, if_true]
          have hty : b.type ≠ .byteArray := by
            intro hb; apply h2; rw [hb]; rfl
          have ht' : t ≠ .byteArray := by rw [← h.ty]; exact hty
          rw [h.ty]
          exact binv_bump t tl _ _ n (binv_foldFixed t tl ht' _ b rows h)
  | byteArrays vs =>
    simp only [runOp, rowsOfOp, addByteArrays]
    by_cases h1 : vs.length = 0
    · simpa [h1] using h
    · by_cases h2 : b.type ≠ .byteArray
      · simpa [h1, h2] using h
      · simp only [h1, h2, if_false, if_true]
        have hb : b.type = .byteArray := by simpa using h2
        have : t = .byteArray := by rw [← h.ty]; exact hb
        subst this
        exact binv_bump _ tl _ _ _ (binv_foldBA tl vs b rows h)

theorem binv_runOps (t : PType) (tl : Int) (ops : List BOp) (b : Builder) (rows : List Row)
    (hw : ∀ o ∈ ops, WfOp o) (h : BInv t tl b rows) :
    BInv t tl (runOps b ops) (rows ++ rowsOf b ops) := by
  induction ops generalizing b rows with
  | nil => simpa [runOps, rowsOf] using h
  | cons o os ih =>
    have h1 := binv_runOp t tl b rows o (hw o (by simp)) h
    have := ih (runOp b o).2 (rows ++ rowsOfOp b o) (fun o' ho' => hw o' (by simp [ho'])) h1
    simpa [runOps, rowsOf, List.append_assoc] using this

/-- what `build` emits from a state satisfying the invariant is true of the rows, and the
emitted bounds are attained (which is what the `is_*_value_exact` flags claim) -/
theorem binv_build (t : PType) (tl : Int) (b : Builder) (rows : List Row) (h : BInv t tl b rows) :
    TrueBounds t (toStats (build b)) rows ∧
    (∀ lo, (build b).minValue = some lo → some lo ∈ rows) ∧
    (∀ hi, (build b).maxValue = some hi → some hi ∈ rows) := by
  have key : ∀ (c : Prop) [Decidable c] (v w : List UInt8), (if c then some v else none) = some w → c ∧ v = w := by
    intro c _ v w hh; by_cases hc : c <;> simp_all
  refine ⟨⟨?_, ?_, ?_⟩, ?_, ?_⟩
  · intro lo hlo x hx
    obtain ⟨⟨h1, _, h3⟩, rfl⟩ := key _ _ _ hlo
    rcases h.mm with hs | hi
    · rw [hs] at h3; exact absurd h3 (by decide)
    · exact ((hi.2 h1).2.2 x hx).1
  · intro hi' hhi x hx
    obtain ⟨⟨h1, _, h3⟩, rfl⟩ := key _ _ _ hhi
    rcases h.mm with hs | hi
    · rw [hs] at h3; exact absurd h3 (by decide)
    · have : (mmOf b).has = true := by show b.hasMin = true; rw [h.flags]; exact h1
      exact ((hi.2 this).2.2 x hx).2
  · intro n hn
    have : b.nullCount = n := by simpa [toStats, build] using hn
    rw [← this, h.nulls]
  · intro lo hlo
    obtain ⟨⟨h1, _, h3⟩, rfl⟩ := key _ _ _ hlo
    rcases h.mm with hs | hi
    · rw [hs] at h3; exact absurd h3 (by decide)
    · exact (hi.2 h1).1
  · intro hi' hhi
    obtain ⟨⟨h1, _, h3⟩, rfl⟩ := key _ _ _ hhi
    rcases h.mm with hs | hi
    · rw [hs] at h3; exact absurd h3 (by decide)
    · have : (mmOf b).has = true := by show b.hasMin = true; rw [h.flags]; exact h1
      exact (hi.2 this).2.1

end Carquet.Proofs.StatsBuilder
