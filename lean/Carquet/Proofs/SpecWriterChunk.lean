import Carquet.Proofs.SpecFileUsize
import Carquet.Proofs.SpecWriterPage
import Carquet.Proofs.SnappyComp
import Carquet.Proofs.SnappySpec
import Carquet.Proofs.Lz4Comp
import Carquet.Proofs.Lz4Spec
import Carquet.Proofs.Crc32Damage
/-
Page and chunk stages of `Spec.File.read` on the bytes of a written column chunk
(`pagesBytes D ps`, the concatenation of `header ++ stored body` of the chunk's page records):
header, sizes, CRC (C14), decompression by the Spec decoders (C10), length check, page body, and
the chaining of pages to the end of the chunk; then the chunk's own checks (value count, first
repetition level).
-/
namespace Carquet.Proofs.SpecWriter
open Carquet.Impl Carquet.Impl.Writer Carquet.Impl.FileReal
open Carquet.Spec Carquet.Spec.File
open Carquet.Proofs.WriterTable Carquet.Proofs.WriterPages Carquet.Proofs.SpecFile

/-! ### CRC and decompression -/

theorem crc_accepts (x : List UInt8) :
    (Spec.Crc32.crc32 x).toNat = ((asI32 (FileReal.crc32 x)) % 4294967296).toNat := by
  have hlt : (Impl.Crc32.crc32 x).toNat < 4294967296 := (Impl.Crc32.crc32 x).isLt
  rw [← Carquet.Proofs.Crc32.impl_crc32_eq]
  unfold FileReal.crc32 asI32
  generalize (Impl.Crc32.crc32 x).toNat = n at hlt ⊢
  split <;> omega

theorem crc32_lt (x : List UInt8) : FileReal.crc32 x < 4294967296 := (Impl.Crc32.crc32 x).isLt

/-- what `compress_data` stores is decompressed by the Spec decoders to the page body -/
theorem decompress_compress (o : FileReal.Oracle) (or' : File.Oracle) (codec : Nat)
    (hcodec : codec = 0 ∨ codec = 1 ∨ codec = 5 ∨ codec = 7)
    (body comp : List UInt8) (hlen : body.length < 2 ^ 32) (h : FileReal.compress o codec body = some comp) :
    File.decompress or' codec comp body.length = .ok body := by
  rcases hcodec with rfl | rfl | rfl | rfl
  · simp only [FileReal.compress, Option.some.injEq] at h
    subst h; simp [File.decompress]
  · simp only [FileReal.compress, Option.some.injEq] at h
    subst h
    have := Carquet.Proofs.Snappy.decode_of_stream (Carquet.Proofs.Snappy.compress_stream body hlen)
    simp [File.decompress, this]
  · simp only [FileReal.compress] at h
    obtain ⟨seqs, last, h1, h2, _, _⟩ := Carquet.Proofs.Lz4Comp.compress_spec body (Lz4.bound body.length) (Nat.le_refl _)
    rw [h1] at h
    simp only [Option.some.injEq] at h
    subst h
    have := Carquet.Proofs.Lz4Spec.decode_complete (Carquet.Proofs.Lz4Spec.encode_block h2) (Nat.le_refl body.length)
    simp [File.decompress, this]
  · simp only [FileReal.compress] at h
    obtain ⟨seqs, last, h1, h2, _, _⟩ := Carquet.Proofs.Lz4Comp.compress_spec body (Lz4.bound body.length) (Nat.le_refl _)
    rw [h1] at h
    simp only [Option.some.injEq] at h
    subst h
    have := Carquet.Proofs.Lz4Spec.decode_complete (Carquet.Proofs.Lz4Spec.encode_block h2) (Nat.le_refl body.length)
    simp [File.decompress, this]

/-! ### one page -/

/-- **raw-page stage**: header, sizes, CRC, decompression, uncompressed length -/
theorem readRawPage_written (o : FileReal.Oracle) (cfg : Config) (codec : Nat)
    (hcodec : codec = 0 ∨ codec = 1 ∨ codec = 5 ∨ codec = 7) (r : PageRec) (rest : List UInt8)
    (hcomp : (deps o).compress codec r.body = some r.comp)
    (hsz : HeaderSizes r.body.length r.comp.length r.rows r.stats) :
    readRawPage cfg codec (r.bytes (deps o) ++ rest) =
      .ok ⟨pageHdrOfWritten r.body.length r.comp.length (FileReal.crc32 r.comp) r.rows r.stats, r.body,
           (r.bytes (deps o)).length, rest⟩ := by
  have hbytes : r.bytes (deps o) ++ rest =
      pageHeader r.body.length r.comp.length (FileReal.crc32 r.comp) r.rows r.stats ++ (r.comp ++ rest) := by
    simp [PageRec.bytes, deps, List.append_assoc]
  have hparse := parsePageHeader_written r.body.length r.comp.length (FileReal.crc32 r.comp) r.rows r.stats
    (r.comp ++ rest) hsz (crc32_lt r.comp)
  have hdec := decompress_compress o cfg.oracle codec hcodec r.body r.comp
    (Nat.lt_trans hsz.unc (by decide)) hcomp
  have hcrc := crc_accepts r.comp
  unfold readRawPage
  rw [hbytes, hparse]
  simp only [bind, Except.bind, pure, Except.pure, pageHdrOfWritten, List.take_left', List.drop_left',
    List.length_append, hcrc, hdec]
  simp [PageRec.bytes, deps]

/-- the three numbers of a page that the C code keeps in `int32_t` -/
structure PageSmall (r : PageRec) : Prop where
  body : r.body.length < 2147483648
  comp : r.comp.length < 2147483648
  rows : r.rows < 2147483648

instance (r : PageRec) : Decidable (PageSmall r) :=
  decidable_of_iff (r.body.length < 2147483648 ∧ r.comp.length < 2147483648 ∧ r.rows < 2147483648)
    ⟨fun h => ⟨h.1, h.2.1, h.2.2⟩, fun h => ⟨h.body, h.comp, h.rows⟩⟩

/-- everything the reader's page stages need to know about one page record of column `c` -/
structure PageFacts (o : FileReal.Oracle) (codec : Nat) (c : Col) (r : PageRec) : Prop where
  isRec : r = pageRecOf (deps o) codec c r.src
  ok : PageOk (deps o) codec r
  good : PageGood c r.src
  small : PageSmall r

theorem valOk_stat_length (c : Col) (hs : hasStats c.ptype = true) (v : Val) (hv : ValOk c v) :
    v.length < 2147483648 ∧ v ≠ [] := by
  unfold ValOk at hv
  cases hp : c.ptype <;> simp [hp, hasStats] at hs <;> simp only [hp, valOkT] at hv <;>
    exact ⟨by omega, by intro h; simp [h] at hv⟩

theorem pageFacts_rows {o : FileReal.Oracle} {codec : Nat} {c : Col} {r : PageRec} (hf : PageFacts o codec c r) :
    r.rows = r.src.numValues := by
  have := congrArg PageRec.rows hf.isRec; simpa [pageRecOf] using this

theorem pageFacts_body {o : FileReal.Oracle} {codec : Nat} {c : Col} {r : PageRec} (hf : PageFacts o codec c r) :
    r.body = pageBody (deps o) c r.src := by
  have := congrArg PageRec.body hf.isRec; simpa [pageRecOf] using this

theorem pageFacts_stats {o : FileReal.Oracle} {codec : Nat} {c : Col} {r : PageRec} (hf : PageFacts o codec c r) :
    r.stats = pageStatsOf r.src := by
  have := congrArg PageRec.stats hf.isRec; simpa [pageRecOf] using this

theorem numNulls_le (c : Col) (p : Page) (hg : PageGood c p) : p.numNulls ≤ p.numValues := by
  rw [hg.nulls]
  by_cases h0 : c.maxDef = 0
  · simp [hg.defsNil h0]
  · have := hg.defsLen (by omega)
    have := List.length_filter_le (fun x => decide (x < c.maxDef)) p.defs
    omega

theorem headerSizes_of_facts {o : FileReal.Oracle} {codec : Nat} {c : Col} {r : PageRec} (hf : PageFacts o codec c r) :
    HeaderSizes r.body.length r.comp.length r.rows r.stats := by
  refine ⟨hf.small.body, hf.small.comp, hf.small.rows, ?_⟩
  intro s hs
  rw [pageFacts_stats hf] at hs
  unfold pageStatsOf at hs
  rw [hf.good.minMax] at hs
  by_cases hst : hasStats c.ptype = true
  · simp only [hst, if_true] at hs
    cases hfold : r.src.values.foldl (FileReal.statsStep c.ptype) none with
    | none => simp [hfold] at hs
    | some q =>
      obtain ⟨mn, mx⟩ := q
      simp only [hfold, Option.some.injEq] at hs
      subst hs
      obtain ⟨hmn, hmx, _⟩ := statsFold_bounds c.ptype hst r.src.values mn mx hfold
      obtain ⟨a1, a2⟩ := valOk_stat_length c hst mn (hf.good.valsOk mn hmn)
      obtain ⟨b1, b2⟩ := valOk_stat_length c hst mx (hf.good.valsOk mx hmx)
      have hn := numNulls_le c r.src hf.good
      have hr := hf.small.rows
      rw [pageFacts_rows hf] at hr
      exact ⟨by simp only; omega, b1, a1, b2, a2⟩
  · simp [hst] at hs

theorem levels_length_lt {o : FileReal.Oracle} {codec : Nat} {c : Col} {r : PageRec} (hf : PageFacts o codec c r)
    (h0 : 0 < r.src.defs.length) :
    (Rle.encode (FileReal.bitWidth c.maxDef) r.src.defs).length < 2 ^ 32 := by
  · have hb := hf.small.body
    rw [pageFacts_body hf] at hb
    simp only [pageBody, h0, if_true, deps,
      FileReal.levels, List.length_append, gt_iff_lt] at hb
    omega

theorem repLevels_length_lt {o : FileReal.Oracle} {codec : Nat} {c : Col} {r : PageRec} (hf : PageFacts o codec c r)
    (h0 : 0 < r.src.reps.length) :
    (Rle.encode (FileReal.bitWidth c.maxRep) r.src.reps).length < 2 ^ 32 := by
  · have hb := hf.small.body
    rw [pageFacts_body hf] at hb
    simp only [pageBody, h0, if_true, deps,
      FileReal.levels, List.length_append, gt_iff_lt] at hb
    omega

/-! ### entries of concatenated pages -/

theorem specEntries_append (m : Nat) : ∀ (d1 : List Nat) (v1 : List Val) (d2 : List Nat) (v2 : List Val),
    v1.length = (d1.filter (· == m)).length →
    specEntries m (d1 ++ d2) (v1 ++ v2) = specEntries m d1 v1 ++ specEntries m d2 v2
  | [], v1, d2, v2, h => by
    have : v1 = [] := List.eq_nil_of_length_eq_zero (by simpa using h)
    subst this; simp [specEntries]
  | d :: r, v1, d2, v2, h => by
    by_cases hd : d = m
    · cases v1 with
      | nil => simp [hd] at h
      | cons v v1' =>
        have h' : v1'.length = (r.filter (· == m)).length := by simpa [hd] using h
        simp only [List.cons_append, specEntries, hd, if_true, specEntries_append m r v1' d2 v2 h']
    · have h' : v1.length = (r.filter (· == m)).length := by simpa [hd] using h
      simp only [List.cons_append, specEntries, hd, if_false, specEntries_append m r v1 d2 v2 h']

theorem specEntries_length (m : Nat) : ∀ (ds : List Nat) (vs : List Val), (specEntries m ds vs).length = ds.length
  | [], _ => rfl
  | d :: r, vs => by
    simp only [specEntries]
    split
    · cases vs <;> simp [specEntries_length m r]
    · simp [specEntries_length m r]

theorem specEntries_rep (m : Nat) : ∀ (ds : List Nat) (vs : List Val), ∀ e ∈ specEntries m ds vs, e.rep = 0
  | [], _, e, he => by simp [specEntries] at he
  | d :: r, vs, e, he => by
    simp only [specEntries] at he
    split at he
    · cases vs with
      | nil =>
        rcases List.mem_cons.mp he with rfl | he'
        · rfl
        · exact specEntries_rep m r [] e he'
      | cons v vs' =>
        rcases List.mem_cons.mp he with rfl | he'
        · rfl
        · exact specEntries_rep m r vs' e he'
    · rcases List.mem_cons.mp he with rfl | he'
      · rfl
      · exact specEntries_rep m r vs e he'

theorem specEntriesR_append (m : Nat) : ∀ (r1 d1 : List Nat) (v1 : List Val) (r2 d2 : List Nat) (v2 : List Val),
    r1.length = d1.length → v1.length = (d1.filter (· == m)).length →
    specEntriesR m (r1 ++ r2) (d1 ++ d2) (v1 ++ v2) = specEntriesR m r1 d1 v1 ++ specEntriesR m r2 d2 v2
  | [], [], v1, r2, d2, v2, _, h => by
    have : v1 = [] := List.eq_nil_of_length_eq_zero (by simpa using h)
    subst this; simp [specEntriesR]
  | [], _ :: _, _, _, _, _, hl, _ => by simp at hl
  | _ :: _, [], _, _, _, _, hl, _ => by simp at hl
  | r :: rs, d :: ds, v1, r2, d2, v2, hl, h => by
    have hl' : rs.length = ds.length := by simpa using hl
    by_cases hd : d = m
    · cases v1 with
      | nil => simp [hd] at h
      | cons v v1' =>
        have h' : v1'.length = (ds.filter (· == m)).length := by simpa [hd] using h
        simp only [List.cons_append, specEntriesR, hd, if_true, specEntriesR_append m rs ds v1' r2 d2 v2 hl' h']
    · have h' : v1.length = (ds.filter (· == m)).length := by simpa [hd] using h
      simp only [List.cons_append, specEntriesR, hd, if_false, specEntriesR_append m rs ds v1 r2 d2 v2 hl' h']

theorem specEntriesR_length (m : Nat) : ∀ (rs ds : List Nat) (vs : List Val), rs.length = ds.length →
    (specEntriesR m rs ds vs).length = ds.length
  | [], [], _, _ => by simp [specEntriesR]
  | [], _ :: _, _, hl => by simp at hl
  | _ :: _, [], _, hl => by simp at hl
  | r :: rs, d :: ds, vs, hl => by
    have hl' : rs.length = ds.length := by simpa using hl
    simp only [specEntriesR]
    split
    · cases vs <;> simp [specEntriesR_length m rs ds _ hl']
    · simp [specEntriesR_length m rs ds _ hl']

/-- the repetition levels of the entries are the levels given -/
theorem specEntriesR_reps (m : Nat) : ∀ (rs ds : List Nat) (vs : List Val), rs.length = ds.length →
    (specEntriesR m rs ds vs).map (·.rep) = rs
  | [], [], _, _ => by simp [specEntriesR]
  | [], _ :: _, _, hl => by simp at hl
  | _ :: _, [], _, hl => by simp at hl
  | r :: rs, d :: ds, vs, hl => by
    have hl' : rs.length = ds.length := by simpa using hl
    simp only [specEntriesR]
    split
    · cases vs <;> simp [specEntriesR_reps m rs ds _ hl']
    · simp [specEntriesR_reps m rs ds _ hl']

theorem pagesData_cons (r : PageRec) (ps : List PageRec) :
    pagesData (r :: ps) = (pageData r.src).append (pagesData ps) := by
  simp [pagesData, pageData, ColData.append]

theorem specChunkOf_append (c : Col) (p : Page) (hg : PageGood c p) (d : ColData) :
    specChunkOf c ((pageData p).append d) = specChunkOf c (pageData p) ++ specChunkOf c d := by
  have hnn := nonNullCount_specDefs c p hg
  unfold nonNullCount at hnn
  have hdefs : specDefs c ((pageData p).append d) = specDefs c (pageData p) ++ specDefs c d := by
    unfold specDefs
    by_cases h0 : c.maxDef = 0
    · simp [h0, ColData.append]
    · simp [h0, ColData.append]
  have hreps : specReps c ((pageData p).append d) = specReps c (pageData p) ++ specReps c d := by
    unfold specReps
    by_cases h0 : c.maxRep = 0
    · simp [h0, ColData.append]
    · simp [h0, ColData.append]
  unfold specChunkOf
  rw [hdefs, hreps]
  exact specEntriesR_append c.maxDef _ _ _ _ _ _
    ((specReps_length c p hg).trans (specDefs_length c p hg).symm) hnn.symm

theorem specChunkOf_pageData_length (c : Col) (p : Page) (hg : PageGood c p) :
    (specChunkOf c (pageData p)).length = p.numValues := by
  unfold specChunkOf
  rw [specEntriesR_length _ _ _ _ ((specReps_length c p hg).trans (specDefs_length c p hg).symm), specDefs_length c p hg]

theorem specChunkOf_empty (c : Col) : specChunkOf c (pagesData []) = [] := by
  unfold specChunkOf specDefs specReps pagesData
  by_cases h0 : c.maxDef = 0 <;> by_cases h1 : c.maxRep = 0 <;> simp [h0, h1, specEntriesR]

/-! ### the pages of a chunk -/

theorem pagesBytes_cons (D : Deps) (r : PageRec) (ps : List PageRec) :
    pagesBytes D (r :: ps) = r.bytes D ++ pagesBytes D ps := by
  simp [pagesBytes]

theorem pageBytes_length_pos {o : FileReal.Oracle} {codec : Nat} {c : Col} {r : PageRec} (hf : PageFacts o codec c r) :
    0 < (r.bytes (deps o)).length := by
  have hs := headerSizes_of_facts hf
  have := pageHeader_length_pos r.body.length r.comp.length (FileReal.crc32 r.comp) r.rows r.stats
    (fun s h => ⟨(hs.stats s h).2.2.2.1, (hs.stats s h).2.2.2.2⟩)
  simp only [PageRec.bytes, deps, List.length_append]
  omega

theorem pages_le_bytes {o : FileReal.Oracle} {codec : Nat} {c : Col} : ∀ (ps : List PageRec),
    (∀ r ∈ ps, PageFacts o codec c r) → ps.length ≤ (pagesBytes (deps o) ps).length
  | [], _ => by simp
  | r :: ps, h => by
    have := pages_le_bytes ps (fun x hx => h x (by simp [hx]))
    have := pageBytes_length_pos (h r (by simp))
    rw [pagesBytes_cons]
    simp only [List.length_cons, List.length_append]
    omega

/-- one written page, followed by anything: raw page and decoded entries -/
theorem page_written (o : FileReal.Oracle) (cfg : Config) (codec : Nat)
    (hcodec : codec = 0 ∨ codec = 1 ∨ codec = 5 ∨ codec = 7) (c : Col) (hrep : c.maxRep < 2 ^ 32) (hdef : c.maxDef < 2 ^ 32)
    (r : PageRec) (hf : PageFacts o codec c r) (rest : List UInt8) :
    readRawPage cfg codec (r.bytes (deps o) ++ rest) =
      .ok ⟨pageHdrOfWritten r.body.length r.comp.length (FileReal.crc32 r.comp) r.rows r.stats, r.body,
           (r.bytes (deps o)).length, rest⟩ ∧
    decodeDataPage (leafOf c) none ⟨r.rows, 0, 3, 3, r.stats.map statsMetaOf⟩ r.body =
      .ok (specChunkOf c (pageData r.src)) := by
  refine ⟨readRawPage_written o cfg codec hcodec r rest hf.ok.1 (headerSizes_of_facts hf), ?_⟩
  have hrows : 0 < r.src.numValues := by rw [← pageFacts_rows hf]; exact hf.ok.2
  rw [pageFacts_rows hf, pageFacts_stats hf, pageFacts_body hf]
  exact decodeDataPage_written o c r.src hf.good hrep hdef hrows (repLevels_length_lt hf) (levels_length_lt hf)

/-- **page chaining**: the reader walks the pages of a written chunk to its last byte and returns
the entries of the pages in order -/
theorem readDataPages_written (o : FileReal.Oracle) (cfg : Config) (codec : Nat)
    (hcodec : codec = 0 ∨ codec = 1 ∨ codec = 5 ∨ codec = 7) (c : Col) (hrep : c.maxRep < 2 ^ 32) (hdef : c.maxDef < 2 ^ 32) :
    ∀ (ps : List PageRec) (fuel : Nat), ps.length < fuel → (∀ r ∈ ps, PageFacts o codec c r) →
      readDataPages cfg codec (leafOf c) [0, 3] none fuel (pagesBytes (deps o) ps) = .ok (specChunkOf c (pagesData ps))
  | [], fuel, hfuel, _ => by
    cases fuel with
    | zero => omega
    | succ f => simp [readDataPages, pagesBytes, specChunkOf_empty]
  | r :: ps, fuel, hfuel, h => by
    cases fuel with
    | zero => omega
    | succ f =>
      have hf := h r (by simp)
      obtain ⟨h1, h2⟩ := page_written o cfg codec hcodec c hrep hdef r hf (pagesBytes (deps o) ps)
      have ih := readDataPages_written o cfg codec hcodec c hrep hdef ps f (by simp at hfuel; omega)
        (fun x hx => h x (by simp [hx]))
      have hne : r.bytes (deps o) ++ pagesBytes (deps o) ps ≠ [] := by
        intro he
        have := pageBytes_length_pos hf
        have hl := congrArg List.length he
        simp only [List.length_append, List.length_nil] at hl
        omega
      rw [pagesBytes_cons, pagesData_cons, specChunkOf_append c r.src hf.good]
      unfold readDataPages
      simp only [hne, if_false, h1, pageHdrOfWritten, h2, ih]
      simp

/-- **`total_uncompressed_size`**: the independent reader's sum of page-header lengths and uncompressed
page sizes over a written chunk is Σ (header + uncompressed body) of its page records — what the
writer records in the chunk metadata after fix F23 -/
theorem chunkUsize_written (o : FileReal.Oracle) (cfg : Config) (codec : Nat)
    (hcodec : codec = 0 ∨ codec = 1 ∨ codec = 5 ∨ codec = 7) (c : Col) :
    ∀ (ps : List PageRec) (fuel : Nat), ps.length < fuel → (∀ r ∈ ps, PageFacts o codec c r) →
      chunkUsize fuel (pagesBytes (deps o) ps) = some (sumUsize (deps o) ps)
  | [], fuel, hfuel, _ => by
    cases fuel with
    | zero => omega
    | succ f => simp [chunkUsize, pagesBytes, sumUsize]
  | r :: ps, fuel, hfuel, h => by
    cases fuel with
    | zero => omega
    | succ f =>
      have hf := h r (by simp)
      have h1 := readRawPage_written o cfg codec hcodec r (pagesBytes (deps o) ps) hf.ok.1 (headerSizes_of_facts hf)
      have ih := chunkUsize_written o cfg codec hcodec c ps f (by simp at hfuel; omega)
        (fun x hx => h x (by simp [hx]))
      have hne : r.bytes (deps o) ++ pagesBytes (deps o) ps ≠ [] := by
        intro he
        have := pageBytes_length_pos hf
        have hl := congrArg List.length he
        simp only [List.length_append, List.length_nil] at hl
        omega
      rw [pagesBytes_cons, chunkUsize_of_raw cfg codec _ _ f hne h1]
      simp only [ih, Option.map_some, Option.some.injEq, RawPage.usize, pageHdrOfWritten, sumUsize, List.map_cons,
        List.sum_cons, PageRec.usize, PageRec.bytes_eq, List.length_append]
      omega

/-! ### the chunk -/

theorem specChunkOf_pagesData_length {o : FileReal.Oracle} {codec : Nat} {c : Col} : ∀ (ps : List PageRec),
    (∀ r ∈ ps, PageFacts o codec c r) → (specChunkOf c (pagesData ps)).length = sumRows ps
  | [], _ => by simp [specChunkOf_empty, sumRows]
  | r :: ps, h => by
    have hf := h r (by simp)
    have ih := specChunkOf_pagesData_length ps (fun x hx => h x (by simp [hx]))
    rw [pagesData_cons, specChunkOf_append c r.src hf.good, List.length_append, ih,
      specChunkOf_pageData_length c r.src hf.good, ← pageFacts_rows hf]
    simp [sumRows]

/-- the first repetition level of a column's content is 0 (vacuous for an empty chunk and for a
non-repeated column): a row group begins with a new row -/
def FirstRepZero (c : Col) (d : ColData) : Prop := c.maxRep > 0 → d.reps.headD 0 = 0

instance (c : Col) (d : ColData) : Decidable (FirstRepZero c d) := by unfold FirstRepZero; exact inferInstance

theorem specReps_pagesData_length {o : FileReal.Oracle} {codec : Nat} {c : Col} : ∀ (ps : List PageRec),
    (∀ r ∈ ps, PageFacts o codec c r) →
    (specReps c (pagesData ps)).length = (pagesData ps).rows ∧ (specDefs c (pagesData ps)).length = (pagesData ps).rows
  | [], _ => by
    unfold specReps specDefs pagesData
    by_cases h0 : c.maxDef = 0 <;> by_cases h1 : c.maxRep = 0 <;> simp [h0, h1]
  | r :: ps, h => by
    have hf := h r (by simp)
    obtain ⟨i1, i2⟩ := specReps_pagesData_length ps (fun x hx => h x (by simp [hx]))
    have a1 := specReps_length c r.src hf.good
    have a2 := specDefs_length c r.src hf.good
    rw [pagesData_cons]
    unfold specReps specDefs at *
    by_cases h0 : c.maxDef = 0 <;> by_cases h1 : c.maxRep = 0 <;>
      simp [h0, h1, ColData.append, pageData] at * <;> omega

/-- the first entry of a chunk whose first repetition level is 0 has repetition level 0 -/
theorem specChunkOf_first_rep {o : FileReal.Oracle} {codec : Nat} {c : Col} (ps : List PageRec)
    (h : ∀ r ∈ ps, PageFacts o codec c r) (hfirst : FirstRepZero c (pagesData ps)) :
    ∀ e es, specChunkOf c (pagesData ps) = e :: es → e.rep = 0 := by
  intro e es he
  obtain ⟨l1, l2⟩ := specReps_pagesData_length ps h
  have hmap := specEntriesR_reps c.maxDef (specReps c (pagesData ps)) (specDefs c (pagesData ps)) (pagesData ps).vals
    (l1.trans l2.symm)
  unfold specChunkOf at he
  rw [he] at hmap
  unfold specReps at hmap
  by_cases h1 : c.maxRep = 0
  · simp only [h1, if_true, List.map_cons] at hmap
    cases hn : (pagesData ps).rows with
    | zero => simp [hn] at hmap
    | succ k => simp [hn, List.replicate_succ] at hmap; exact hmap.1
  · simp only [h1, if_false, List.map_cons] at hmap
    have := hfirst (by omega)
    rw [← hmap] at this
    exact this

/-- **chunk stage**: the bytes of a written chunk are read to the entries of its pages; value count
and first repetition level agree with the metadata -/
theorem readChunk_written (o : FileReal.Oracle) (cfg : Config) (codec : Nat)
    (hcodec : codec = 0 ∨ codec = 1 ∨ codec = 5 ∨ codec = 7) (c : Col) (hrep : c.maxRep < 2 ^ 32) (hdef : c.maxDef < 2 ^ 32)
    (ps : List PageRec) (h : ∀ r ∈ ps, PageFacts o codec c r) (hfirst : FirstRepZero c (pagesData ps))
    (m : ColumnMeta) (henc : m.encodings = [0, 3])
    (hmc : m.codec = codec) (hd : m.dictionaryPageOffset = none) (hnv : m.numValues = sumRows ps) (start : Nat) :
    readChunk cfg (leafOf c) m start (pagesBytes (deps o) ps) = .ok (specChunkOf c (pagesData ps)) := by
  have hlen := specChunkOf_pagesData_length ps h
  have hreps := specChunkOf_first_rep ps h hfirst
  have hpages := readDataPages_written o cfg codec hcodec c hrep hdef ps ((pagesBytes (deps o) ps).length + 1)
    (by have := pages_le_bytes ps h; omega) h
  unfold readChunk
  simp only [henc, hmc, hd, bind, Except.bind, pure, Except.pure]
  cases ps with
  | nil =>
    simp only [pagesBytes, List.map_nil, List.flatten_nil, if_true] at *
    simp [legalEncoding, hnv, sumRows, specChunkOf_empty]
  | cons r ps' =>
    have hf := h r (by simp)
    have hne : pagesBytes (deps o) (r :: ps') ≠ [] := by
      intro he
      have := pageBytes_length_pos hf
      have hl := congrArg List.length he
      rw [pagesBytes_cons] at hl
      simp only [List.length_append, List.length_nil] at hl
      omega
    obtain ⟨h1, _⟩ := page_written o cfg codec hcodec c hrep hdef r hf (pagesBytes (deps o) ps')
    rw [← pagesBytes_cons] at h1
    simp only [hne, if_false, h1, pageHdrOfWritten, hpages]
    simp [legalEncoding, hnv, hlen]
    generalize specChunkOf c (pagesData (r :: ps')) = es at hreps ⊢
    cases es with
    | nil => rfl
    | cons e es' =>
      have := hreps e es' rfl
      simp [this]

end Carquet.Proofs.SpecWriter
