import Carquet.Impl.ReaderApi
import Carquet.Proofs.ReaderModes
import Carquet.Proofs.CursorColumn
/-
Helper lemmas for Properties/C03/Api.lean.
-/
namespace Carquet.Proofs.ReaderApi
open Carquet.Impl Carquet.Impl.Reader Carquet.Impl.ReaderApi

/-- a reader opened through the mapped path has seen the leading magic -/
theorem openMapped_ok_magic (b : Reader.Bytes) (o : Opened) (h : (openMapped b).1 = .ok o) : b.take 4 = magic := by
  unfold openMapped at h
  split at h; · cases h
  split at h
  · cases h
  · rename_i hm
    simpa using hm

theorem openFread_ok_len (b : Reader.Bytes) (o : Opened) (h : (openFread b).1 = .ok o) : 12 ≤ b.length := by
  unfold openFread at h
  split at h
  · cases h
  · omega

theorem openFile_mmap_ok_magic (b : Reader.Bytes) (o : Opened) (h : openFile .mmap b = .ok o) : b.take 4 = magic := by
  unfold openFile openFileA at h
  simp only at h
  split at h
  · have := openFread_ok_len b o h; omega
  · exact openMapped_ok_magic b o h

/-- all three open: one and the same `Opened` -/
theorem opened_same (b : Reader.Bytes) (o1 o2 o3 : Opened) (h1 : openFile .fread b = .ok o1)
    (h2 : openFile .mmap b = .ok o2) (h3 : openFile .buffer b = .ok o3) : o1 = o2 ∧ o2 = o3 := by
  have hm := openFile_mmap_ok_magic b o2 h2
  obtain ⟨e1, e2⟩ := Carquet.Proofs.ReaderModes.openFile_modes b hm
  rw [h1, h2] at e1
  rw [h2, h3] at e2
  exact ⟨by cases e1; rfl, by cases e2; rfl⟩

/-! ### can_zero_copy over-approximates the view decision of the page loader -/

/-- the column description `get_column` hands out, unfolded -/
theorem getColumn_parts (o : Opened) (rg col : Int) (c : Col) (h : getColumn o rg col = .ok c) :
    ¬ (rg < 0 ∨ rg ≥ o.md.rowGroups.length) ∧ ¬ (col < 0 ∨ col ≥ o.leaves.length) ∧
    ∃ g lf ch m, o.md.rowGroups[rg.toNat]? = some g ∧ o.leaves[col.toNat]? = some lf ∧ ¬ (col ≥ g.columns.length) ∧
      g.columns[col.toNat]? = some ch ∧ ch.metaData = some m ∧ c.cm = m ∧ c.maxDef = lf.maxDef ∧ c.ptype = m.type := by
  unfold getColumn at h
  split at h; · cases h
  rename_i hrg
  split at h; · cases h
  rename_i hcol
  refine ⟨hrg, hcol, ?_⟩
  split at h
  · rename_i g lf hg hlf
    split at h; · cases h
    rename_i hcg
    split at h
    · cases h
    · rename_i ch hch
      split at h
      · cases h
      · rename_i m hm
        split at h
        · cases h
        · rename_i el hel
          split at h
          · cases h
          · cases h
            exact ⟨g, lf, ch, m, hg, hlf, hcg, hch, hm, rfl, rfl, rfl⟩
  · cases h

theorem canZeroCopy_of_takesView (fx : Fixes) (fix90 : Bool) (mode : Mode) (o : Opened) (rg col : Int) (c : Col)
    (hdr : ThriftParquetReq.PageHdr) (hc : getColumn o rg col = .ok c) (hv : takesView fx mode c hdr = true)
    (hsrc : zeroCopySource fix90 mode = true) : canZeroCopy fix90 mode o rg col = true := by
  obtain ⟨hrg, hcol, g, lf, ch, m, hg, hlf, hcg, hch, hm, hcm, hdef, hpt⟩ := getColumn_parts o rg col c hc
  unfold takesView zeroCopyEligible at hv
  simp only [Bool.and_eq_true, Bool.not_eq_true', Bool.or_eq_false_iff, decide_eq_true_eq, decide_eq_false_iff_not] at hv
  obtain ⟨⟨⟨_, ⟨⟨hcodec, _⟩, hfw⟩⟩, ⟨hd, _⟩⟩, _⟩ := hv
  unfold canZeroCopy
  rw [hsrc]
  simp only [Bool.true_eq_false, if_false, if_neg hrg, if_neg hcol, hg, hlf, if_neg hcg, hch]
  unfold chunkZeroCopy
  rw [hm]
  simp only
  rw [if_neg (by rw [← hcm]; simpa using hcodec), if_neg (by rw [← hdef]; omega), ← hpt]
  exact hfw

theorem canZeroCopy_fread (fix90 : Bool) (o : Opened) (rg col : Int) : canZeroCopy fix90 .fread o rg col = false := by
  unfold canZeroCopy zeroCopySource
  cases fix90 <;> simp [Mode.mapped, hasMmapInfo]

theorem canZeroCopy_out_of_range (fix90 : Bool) (mode : Mode) (o : Opened) (rg col : Int)
    (h : rg < 0 ∨ rg ≥ o.md.rowGroups.length ∨ col < 0 ∨ col ≥ o.leaves.length) :
    canZeroCopy fix90 mode o rg col = false := by
  unfold canZeroCopy
  split; · rfl
  split; · rfl
  rename_i hrg
  split; · rfl
  rename_i hcol
  exfalso
  rcases h with h | h | h | h
  · exact hrg (Or.inl h)
  · exact hrg (Or.inr h)
  · exact hcol (Or.inl h)
  · exact hcol (Or.inr h)

/-! ### … and the zero-copy branch of the batch reader -/

open Carquet.Impl.ColumnReader

/-- the ownership flag is only ever set from the chunk's view decision -/
def VI (c : Chunk α) (r : Reader α) : Prop := r.chunk = c ∧ (r.ownershipView = true → c.view = true)

theorem vi_getColumn (c : Chunk α) : VI c (ColumnReader.getColumn c) := ⟨rfl, by simp [ColumnReader.getColumn]⟩

theorem vi_advance (c : Chunk α) (r : Reader α) (h : VI c r) : VI c (advance r) := by
  unfold advance; split
  · exact ⟨h.1, h.2⟩
  · exact h

theorem vi_load (fx : ColumnReader.Fixes) (c : Chunk α) (r r' : Reader α) (h : VI c r) (hl : loadNextPage fx r = .ok r') : VI c r' := by
  unfold loadNextPage at hl
  split at hl
  · split at hl; · cases hl
    split at hl
    · cases hl; exact ⟨h.1, h.2⟩
    · cases hl
      refine ⟨by simp [h.1], ?_⟩
      intro hv
      simp only [Carquet.Proofs.Cursor.installPage_ownershipView] at hv
      rw [h.1] at hv; exact hv
  · cases hl

theorem vi_prepareLoop (fx : ColumnReader.Fixes) (c : Chunk α) : ∀ (fuel : Nat) (r : Reader α), VI c r → VI c (prepareLoop fx fuel r).1
  | 0, r, h => h
  | fuel + 1, r, h => by
    unfold prepareLoop
    split
    · cases hl : loadNextPage fx (advance r) with
      | error e => exact vi_advance c r h
      | ok r' =>
        have h' := vi_load fx c (advance r) r' (vi_advance c r h) hl
        simp only
        split
        · exact vi_prepareLoop fx c fuel r' h'
        · exact h'
    · exact h

theorem vi_readNextPage (fx : ColumnReader.Fixes) (c : Chunk α) (r : Reader α) (k : Int) (h : VI c r) : VI c (readNextPage fx r k).1 := by
  unfold readNextPage preparePage
  have hp := vi_prepareLoop fx c (r.chunk.pages.length + 1) r h
  cases hq : prepareLoop fx (r.chunk.pages.length + 1) r with
  | mk r1 e =>
    rw [hq] at hp
    cases e with
    | some e => exact hp
    | none =>
      simp only
      split
      · exact hp
      · exact ⟨hp.1, hp.2⟩

theorem vi_readLoop (fx : ColumnReader.Fixes) (wd wr : Bool) (k : Nat) (c : Chunk α) :
    ∀ (fuel : Nat) (r : Reader α) (st : LoopSt α), VI c r → VI c (readLoop fx wd wr k fuel r st).1
  | 0, r, st, h => h
  | fuel + 1, r, st, h => by
    unfold readLoop
    split
    · have hn := vi_readNextPage fx c r ((k : Int) - (st.totalRead : Int)) h
      cases hq : readNextPage fx r ((k : Int) - (st.totalRead : Int)) with
      | mk r' res =>
        rw [hq] at hn
        cases res with
        | error e => simp only; split <;> exact hn
        | ok cp =>
          simp only
          split
          · exact hn
          · exact vi_readLoop fx wd wr k c fuel r' _ hn
    · exact h

theorem vi_releaseRetired (fx : ColumnReader.Fixes) (c : Chunk α) (r : Reader α) (h : VI c r) : VI c (releaseRetired fx r) := by
  unfold releaseRetired; split
  · exact ⟨h.1, h.2⟩
  · exact h

theorem vi_readBatch (fx : ColumnReader.Fixes) (c : Chunk α) (r : Reader α) (k : Int) (wd wr : Bool) (h : VI c r) :
    VI c (readBatch fx r k wd wr).1 := by
  have hr := vi_releaseRetired fx c r h
  unfold readBatch
  split; · exact hr
  split
  · split
    · exact vi_readNextPage fx c _ 0 hr
    · exact hr
  · split
    · exact hr
    · exact vi_readLoop fx wd wr _ c _ _ _ hr

end Carquet.Proofs.ReaderApi
