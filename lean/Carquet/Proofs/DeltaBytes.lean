import Carquet.Proofs.DeltaTop
import Carquet.Impl.DeltaLength
import Carquet.Impl.DeltaStrings
/-
DELTA_LENGTH_BYTE_ARRAY and DELTA_BYTE_ARRAY: round trips of the Impl models and both directions
against the Spec, on top of the DELTA_BINARY_PACKED INT32 results.
-/
namespace Carquet.Impl.DeltaLength
open Carquet.Impl.Delta
open Carquet.Spec.Delta (Stream)

theorem ofNat32_toNat (n : Nat) (h : n < 2 ^ 31) : (BitVec.ofNat 32 n).toNat = n := by
  rw [BitVec.toNat_ofNat, Nat.mod_eq_of_lt (by omega)]

theorem ofNat32_toInt (n : Nat) (h : n < 2 ^ 31) : (BitVec.ofNat 32 n).toInt = (n : Int) := by
  rw [BitVec.toInt_eq_toNat_cond, ofNat32_toNat n h]
  have : 2 * n < 2 ^ 32 := by omega
  simp [this]

theorem slices_flatten (vs : List (List UInt8)) (tail : List UInt8) :
    slices (vs.map List.length) (vs.flatten ++ tail) = vs := by
  induction vs with
  | nil => rfl
  | cons v vs ih =>
    simp only [List.map_cons, slices, List.flatten_cons, List.append_assoc]
    rw [List.take_left' rfl, List.drop_left' rfl, ih]

theorem map_toNat_lens (vs : List (List UInt8)) (h : ∀ v ∈ vs, v.length < 2 ^ 31) :
    (vs.map (fun v => BitVec.ofNat 32 v.length)).map (fun l => l.toNat) = vs.map List.length := by
  rw [List.map_map]
  apply List.map_congr_left
  intro v hv
  exact ofNat32_toNat _ (h v hv)

theorem map_toInt_lens (vs : List (List UInt8)) (h : ∀ v ∈ vs, v.length < 2 ^ 31) :
    (vs.map (fun v => BitVec.ofNat 32 v.length)).map BitVec.toInt = vs.map (fun v => Int.ofNat v.length) := by
  rw [List.map_map]
  apply List.map_congr_left
  intro v hv
  exact ofNat32_toInt _ (h v hv)

theorem any_neg_lens (vs : List (List UInt8)) (h : ∀ v ∈ vs, v.length < 2 ^ 31) :
    (vs.map (fun v => BitVec.ofNat 32 v.length)).any (fun l => decide (l.toInt < 0)) = false := by
  rw [List.any_eq_false]
  intro l hl
  simp only [List.mem_map] at hl
  obtain ⟨v, hv, rfl⟩ := hl
  rw [ofNat32_toInt _ (h v hv)]
  simp

/-- C11 for DELTA_LENGTH_BYTE_ARRAY on the models -/
theorem roundtrip (vs : List (List UInt8)) (bs tail : List UInt8) (hne : vs ≠ [])
    (hlen : vs.length ≤ 2147483647) (hv : ∀ v ∈ vs, v.length < 2 ^ 31) (henc : encode vs = .ok bs) :
    decode (bs ++ tail) vs.length = .ok (vs, bs.length) := by
  unfold encode at henc
  rw [if_neg hne] at henc
  cases hl : encodeInt32 (vs.map (fun v => BitVec.ofNat 32 v.length)) (lengthsCapacity vs.length) with
  | error s => rw [hl] at henc; cases henc
  | ok lb =>
    rw [hl] at henc
    simp only [Except.ok.injEq] at henc
    subst henc
    have hpos : 0 < vs.length := List.length_pos_iff.mpr hne
    have hrt := int32_roundtrip (vs.map (fun v => BitVec.ofNat 32 v.length)) _ lb (vs.flatten ++ tail)
      (by simpa using hne) (by simpa using hlen) hl
    simp only [List.length_map] at hrt
    unfold decode
    rw [if_neg (by omega), Int.toNat_natCast, List.append_assoc, hrt]
    simp only
    rw [any_neg_lens vs hv]
    simp only [Bool.false_eq_true, if_false, map_toNat_lens vs hv]
    have hsum : (vs.map List.length).sum = vs.flatten.length := by rw [List.length_flatten]
    rw [hsum, if_neg (by simp only [List.length_append]; omega), List.drop_left' rfl, slices_flatten]
    simp [List.length_append]

theorem splitByLengths_flatten (vs : List (List UInt8)) (tail : List UInt8) :
    Spec.Delta.splitByLengths (vs.map (fun v => Int.ofNat v.length)) (vs.flatten ++ tail) = .ok (vs, tail) := by
  induction vs with
  | nil => rfl
  | cons v vs ih =>
    simp only [List.map_cons, Spec.Delta.splitByLengths, List.flatten_cons, List.append_assoc]
    rw [if_neg (by simp), if_neg (by simp)]
    simp only [Int.ofNat_eq_natCast, Int.toNat_natCast] at ih ⊢
    rw [List.drop_left' rfl, ih, List.take_left' rfl]

/-- C12, carquet → Spec, DELTA_LENGTH_BYTE_ARRAY -/
theorem to_spec (vs : List (List UInt8)) (bs tail : List UInt8) (hne : vs ≠ [])
    (hlen : vs.length ≤ 2147483647) (hv : ∀ v ∈ vs, v.length < 2 ^ 31) (henc : encode vs = .ok bs) :
    Spec.Delta.decodeLengthByteArray (bs ++ tail) = .ok (vs, tail) := by
  unfold encode at henc
  rw [if_neg hne] at henc
  cases hl : encodeInt32 (vs.map (fun v => BitVec.ofNat 32 v.length)) (lengthsCapacity vs.length) with
  | error s => rw [hl] at henc; cases henc
  | ok lb =>
    rw [hl] at henc
    simp only [Except.ok.injEq] at henc
    subst henc
    have hsp := int32_to_spec (vs.map (fun v => BitVec.ofNat 32 v.length)) _ lb (vs.flatten ++ tail)
      (by simpa using hne) (by simpa using hlen) hl
    unfold Spec.Delta.decodeLengthByteArray
    rw [List.append_assoc, hsp]
    simp only
    rw [map_toInt_lens vs hv, splitByLengths_flatten]

theorem splitByLengths_ok (ls : List Int) : ∀ (rest : List UInt8) (vals : List (List UInt8)) (rest' : List UInt8),
    Spec.Delta.splitByLengths ls rest = .ok (vals, rest') →
    (∀ l ∈ ls, 0 ≤ l) ∧ vals = slices (ls.map Int.toNat) rest ∧
    (ls.map Int.toNat).sum ≤ rest.length ∧ rest' = rest.drop (ls.map Int.toNat).sum := by
  induction ls with
  | nil =>
    intro rest vals rest' h
    simp only [Spec.Delta.splitByLengths, Except.ok.injEq, Prod.mk.injEq] at h
    obtain ⟨rfl, rfl⟩ := h
    simp [slices]
  | cons l ls ih =>
    intro rest vals rest' h
    simp only [Spec.Delta.splitByLengths] at h
    split at h
    · cases h
    · split at h
      · cases h
      · rename_i hneg hshort
        cases hr : Spec.Delta.splitByLengths ls (rest.drop l.toNat) with
        | error e => rw [hr] at h; cases h
        | ok p =>
          obtain ⟨vs', r'⟩ := p
          rw [hr] at h
          simp only [Except.ok.injEq, Prod.mk.injEq] at h
          obtain ⟨rfl, rfl⟩ := h
          obtain ⟨h1, h2, h3, h4⟩ := ih _ _ _ hr
          refine ⟨?_, ?_, ?_, ?_⟩
          · intro x hx
            simp only [List.mem_cons] at hx
            rcases hx with rfl | hx
            · omega
            · exact h1 x hx
          · simp [slices, h2]
          · simp only [List.map_cons, List.sum_cons]
            rw [List.length_drop] at h3
            omega
          · simp only [List.map_cons, List.sum_cons]
            rw [h4, List.drop_drop]

theorem toInt_ofInt_wrapped (W : Nat) (s : Stream) :
    ((s.values W).map (BitVec.ofInt W)).map BitVec.toInt = s.values W := by
  rw [List.map_map]
  conv => rhs; rw [← List.map_id (s.values W)]
  apply List.map_congr_left
  intro y hy
  simp only [Function.comp_def, id, BitVec.toInt_ofInt]
  exact wrap_values W s y hy

theorem toNat_of_nonneg32 (x : BitVec 32) (h : 0 ≤ x.toInt) : x.toNat = x.toInt.toNat := by
  rw [BitVec.toInt_eq_toNat_cond] at h ⊢
  split at h <;> rename_i hc
  · rw [if_pos hc]; simp
  · have := x.isLt
    omega

/-- C12, Spec → carquet, DELTA_LENGTH_BYTE_ARRAY: whenever the length stream is a grammar stream of
geometry 128/4 and the reference decoder accepts the whole input, carquet returns the same byte
arrays and reports the same end of stream. -/
theorem from_spec (s : Stream) (rest rest' : List UInt8) (vals : List (List UInt8))
    (hwf : s.wf) (hg : s.geom = ⟨128, 4⟩) (hapi : Stream.fitsApi s) (hc : 0 < s.count)
    (hspec : Spec.Delta.decodeLengthByteArray (s.bytes ++ rest) = .ok (vals, rest')) :
    decode (s.bytes ++ rest) s.count = .ok (vals, s.bytes.length + rest.length - rest'.length) := by
  unfold Spec.Delta.decodeLengthByteArray at hspec
  rw [Spec.Delta.decode_stream 32 s rest hwf] at hspec
  simp only at hspec
  obtain ⟨h1, h2, h3, h4⟩ := splitByLengths_ok _ _ _ _ hspec
  unfold decode
  rw [if_neg (by omega), Int.toNat_natCast, stream_decodeInt32 s rest hwf hg hapi]
  simp only
  have hti := toInt_ofInt_wrapped 32 s
  have hany : ((s.values 32).map (BitVec.ofInt 32)).any (fun l => decide (l.toInt < 0)) = false := by
    rw [List.any_eq_false]
    intro l hl
    have : l.toInt ∈ ((s.values 32).map (BitVec.ofInt 32)).map BitVec.toInt := List.mem_map_of_mem hl
    rw [hti] at this
    have := h1 _ this
    simp; omega
  have hnat : ((s.values 32).map (BitVec.ofInt 32)).map (fun l => l.toNat) = (s.values 32).map Int.toNat := by
    conv => rhs; rw [← hti, List.map_map]
    apply List.map_congr_left
    intro l hl
    have : l.toInt ∈ ((s.values 32).map (BitVec.ofInt 32)).map BitVec.toInt := List.mem_map_of_mem hl
    rw [hti] at this
    exact toNat_of_nonneg32 l (h1 _ this)
  rw [hany]
  simp only [Bool.false_eq_true, if_false, hnat]
  rw [if_neg (by simp only [List.length_append]; omega), List.drop_left' rfl, ← h2, h4, List.length_drop]
  congr 2
  omega

end Carquet.Impl.DeltaLength

namespace Carquet.Impl.DeltaStrings
open Carquet.Impl.Delta Carquet.Impl.DeltaLength
open Carquet.Spec.Delta (Stream)

theorem commonPrefix_spec (a b : List UInt8) :
    commonPrefixLength a b ≤ a.length ∧ commonPrefixLength a b ≤ b.length ∧
    a.take (commonPrefixLength a b) = b.take (commonPrefixLength a b) := by
  induction a generalizing b with
  | nil => simp [commonPrefixLength]
  | cons x xs ih =>
    cases b with
    | nil => simp [commonPrefixLength]
    | cons y ys =>
      simp only [commonPrefixLength]
      by_cases h : x = y
      · subst h
        obtain ⟨h1, h2, h3⟩ := ih ys
        simp only [if_true, List.length_cons, List.take_succ_cons, h3]
        exact ⟨by omega, by omega, trivial⟩
      · simp [h]

/-- suffix lengths and suffixes the encoder derives from its prefix lengths -/
def suffixLens (pl : List Nat) (vs : List (List UInt8)) : List Nat := List.zipWith (fun p v => v.length - p) pl vs
def suffixes (pl : List Nat) (vs : List (List UInt8)) : List (List UInt8) := List.zipWith (fun p (v : List UInt8) => v.drop p) pl vs

theorem length_prefixLengths (prev : Option (List UInt8)) (vs : List (List UInt8)) :
    (prefixLengths prev vs).length = vs.length := by
  induction vs generalizing prev with
  | nil => cases prev <;> rfl
  | cons v vs ih => cases prev <;> simp [prefixLengths, ih]

theorem prefixLengths_le (prev : Option (List UInt8)) (vs : List (List UInt8)) (h : ∀ v ∈ vs, v.length < 2 ^ 31) :
    ∀ p ∈ prefixLengths prev vs, p < 2 ^ 31 := by
  induction vs generalizing prev with
  | nil => cases prev <;> simp [prefixLengths]
  | cons v vs ih =>
    have hv := h v (by simp)
    cases prev with
    | none =>
      simp only [prefixLengths, List.mem_cons]
      rintro p (rfl | hp)
      · omega
      · exact ih (some v) (fun x hx => h x (by simp [hx])) p hp
    | some pr =>
      simp only [prefixLengths, List.mem_cons]
      rintro p (rfl | hp)
      · have := (commonPrefix_spec pr v).2.1; omega
      · exact ih (some v) (fun x hx => h x (by simp [hx])) p hp

theorem suffixLens_lt (prev : Option (List UInt8)) (vs : List (List UInt8)) (h : ∀ v ∈ vs, v.length < 2 ^ 31) :
    ∀ x ∈ suffixLens (prefixLengths prev vs) vs, x < 2 ^ 31 := by
  induction vs generalizing prev with
  | nil => cases prev <;> simp [prefixLengths, suffixLens]
  | cons v vs ih =>
    have hv := h v (by simp)
    cases prev <;>
    · simp only [prefixLengths, suffixLens, List.zipWith_cons_cons, List.mem_cons]
      rintro x (rfl | hx)
      · omega
      · exact ih (some v) (fun y hy => h y (by simp [hy])) x hx

theorem suffixes_lens (prev : Option (List UInt8)) (vs : List (List UInt8)) :
    (suffixes (prefixLengths prev vs) vs).map List.length = suffixLens (prefixLengths prev vs) vs := by
  induction vs generalizing prev with
  | nil => cases prev <;> simp [prefixLengths, suffixLens, suffixes]
  | cons v vs ih =>
    cases prev <;> simp [prefixLengths, suffixLens, suffixes] <;> exact ih (some v)

/-- the "Reconstruct strings" loop on what the encoder wrote -/
theorem reconstruct_encoded (workSize : Nat) (vs : List (List UInt8)) :
    ∀ (prev : Option (List UInt8)) (off : Nat) (tail : List UInt8),
      (∀ v ∈ vs, v.length < 2 ^ 31) → (∀ pr, prev = some pr → pr.length < 2 ^ 31) →
      off + (vs.map List.length).sum ≤ workSize →
      reconstruct workSize (prefixLengths prev vs) (suffixLens (prefixLengths prev vs) vs)
        ((suffixes (prefixLengths prev vs) vs).flatten ++ tail) off prev = .ok vs := by
  induction vs with
  | nil => intro prev off tail _ _ _; cases prev <;> simp [prefixLengths, suffixLens, suffixes, reconstruct]
  | cons v vs ih =>
    intro prev off tail hv hp hw
    have hvl := hv v (by simp)
    simp only [List.map_cons, List.sum_cons] at hw
    have key : ∀ (p : Nat), p ≤ v.length → (prev.getD []).take p = v.take p →
        ¬ (0 < p ∧ (prev = none ∨ asInt32 ((prev.getD []).length) < (p : Int))) →
        prefixLengths prev (v :: vs) = p :: prefixLengths (some v) vs →
        reconstruct workSize (prefixLengths prev (v :: vs)) (suffixLens (prefixLengths prev (v :: vs)) (v :: vs))
          ((suffixes (prefixLengths prev (v :: vs)) (v :: vs)).flatten ++ tail) off prev = .ok (v :: vs) := by
      intro p hple htk hchk hpl
      rw [hpl]
      simp only [suffixLens, suffixes, List.zipWith_cons_cons, List.flatten_cons, List.append_assoc, reconstruct]
      have hsum : (p + (v.length - p)) % 4294967296 = v.length := by
        rw [Nat.add_sub_cancel' hple, Nat.mod_eq_of_lt (by omega)]
      rw [hsum, if_neg (by omega), if_neg hchk]
      have hdl : (v.drop p).length = v.length - p := by simp
      rw [List.take_left' hdl, List.drop_left' hdl, htk, List.take_append_drop]
      have := ih (some v) (off + v.length) tail (fun x hx => hv x (by simp [hx]))
        (fun pr h => by cases h; exact hvl) (by omega)
      simp only [suffixLens, suffixes] at this
      rw [this]
    cases prev with
    | none =>
      apply key 0 (by omega) (by simp) (by simp) (by simp [prefixLengths])
    | some pr =>
      obtain ⟨h1, h2, h3⟩ := commonPrefix_spec pr v
      have hprl := hp pr rfl
      apply key (commonPrefixLength pr v) h2 (by simpa using h3) ?_ (by simp [prefixLengths])
      simp only [Option.getD_some, reduceCtorEq, false_or, not_and, Int.not_lt]
      intro _
      have : asInt32 pr.length = (pr.length : Int) := ofNat32_toInt _ hprl
      rw [this]
      omega

theorem map_ofNat32_toNat (l : List Nat) (h : ∀ x ∈ l, x < 2 ^ 31) :
    (l.map (BitVec.ofNat 32)).map (fun b => b.toNat) = l := by
  rw [List.map_map]
  conv => rhs; rw [← List.map_id l]
  exact List.map_congr_left (fun x hx => ofNat32_toNat x (h x hx))

theorem map_ofNat32_toInt (l : List Nat) (h : ∀ x ∈ l, x < 2 ^ 31) :
    (l.map (BitVec.ofNat 32)).map BitVec.toInt = l.map Int.ofNat := by
  rw [List.map_map]
  exact List.map_congr_left (fun x hx => ofNat32_toInt x (h x hx))

theorem nonneg_ofNat32 (l : List Nat) (h : ∀ x ∈ l, x < 2 ^ 31) : ∀ b ∈ l.map (BitVec.ofNat 32), 0 ≤ b.toInt := by
  intro b hb
  simp only [List.mem_map] at hb
  obtain ⟨x, hx, rfl⟩ := hb
  rw [ofNat32_toInt x (h x hx)]; omega

theorem zip_any_neg_false (a b : List (BitVec 32)) (ha : ∀ x ∈ a, 0 ≤ x.toInt) (hb : ∀ x ∈ b, 0 ≤ x.toInt) :
    (List.zip a b).any (fun sp => decide (sp.1.toInt < 0 ∨ sp.2.toInt < 0)) = false := by
  rw [List.any_eq_false]
  intro sp hsp
  obtain ⟨x, y⟩ := sp
  obtain ⟨hx, hy⟩ := List.of_mem_zip hsp
  have := ha x hx
  have := hb y hy
  simp; omega

theorem encode_parts (vs : List (List UInt8)) (bs : List UInt8) (hne : vs ≠ []) (henc : encode vs = .ok bs) :
    ∃ pre suf,
      encodeInt32 ((prefixLengths none vs).map (BitVec.ofNat 32)) (deltaCapacity vs.length) = .ok pre ∧
      encodeInt32 ((suffixLens (prefixLengths none vs) vs).map (BitVec.ofNat 32)) (deltaCapacity vs.length) = .ok suf ∧
      bs = pre ++ suf ++ (suffixes (prefixLengths none vs) vs).flatten := by
  unfold encode at henc
  rw [if_neg hne] at henc
  cases h1 : encodeInt32 ((prefixLengths none vs).map (BitVec.ofNat 32)) (deltaCapacity vs.length) with
  | error s => rw [h1] at henc; cases henc
  | ok pre =>
    rw [h1] at henc
    simp only at henc
    have e : List.zipWith (fun p (v : List UInt8) => BitVec.ofNat 32 (v.length - p)) (prefixLengths none vs) vs =
        (suffixLens (prefixLengths none vs) vs).map (BitVec.ofNat 32) := by
      simp [suffixLens, List.map_zipWith]
    rw [e] at henc
    cases h2 : encodeInt32 ((suffixLens (prefixLengths none vs) vs).map (BitVec.ofNat 32)) (deltaCapacity vs.length) with
    | error s => rw [h2] at henc; cases henc
    | ok suf =>
      rw [h2] at henc
      simp only [Except.ok.injEq] at henc
      exact ⟨pre, suf, rfl, rfl, henc.symm⟩

theorem length_suffixLens (vs : List (List UInt8)) :
    (suffixLens (prefixLengths none vs) vs).length = vs.length := by
  simp [suffixLens, length_prefixLengths]

/-- C11 for DELTA_BYTE_ARRAY on the models -/
theorem roundtrip (vs : List (List UInt8)) (bs tail : List UInt8) (work : Nat) (hne : vs ≠ [])
    (hlen : vs.length ≤ 2147483647) (hv : ∀ v ∈ vs, v.length < 2 ^ 31)
    (hwork : (vs.map List.length).sum ≤ work) (henc : encode vs = .ok bs) :
    decode (bs ++ tail) vs.length work = .ok (vs, bs.length) := by
  obtain ⟨pre, suf, h1, h2, rfl⟩ := encode_parts vs bs hne henc
  have hpos : 0 < vs.length := List.length_pos_iff.mpr hne
  have hpl := prefixLengths_le none vs hv
  have hsl := suffixLens_lt none vs hv
  have r1 := int32_roundtrip _ _ pre (suf ++ ((suffixes (prefixLengths none vs) vs).flatten ++ tail))
    (by
      intro h
      have := congrArg List.length h
      simp only [List.length_map, length_prefixLengths, List.length_nil] at this
      omega)
    (by simpa [length_prefixLengths] using hlen) h1
  have r2 := int32_roundtrip _ _ suf ((suffixes (prefixLengths none vs) vs).flatten ++ tail)
    (by
      intro h
      have := congrArg List.length h
      simp only [List.length_map, length_suffixLens, List.length_nil] at this
      omega)
    (by simpa [length_suffixLens] using hlen) h2
  simp only [List.length_map, length_prefixLengths, length_suffixLens] at r1 r2
  unfold decode
  rw [if_neg (by omega), Int.toNat_natCast]
  simp only [List.append_assoc]
  rw [r1]
  simp only
  rw [List.drop_left' rfl, r2]
  simp only
  rw [zip_any_neg_false _ _ (nonneg_ofNat32 _ hsl) (nonneg_ofNat32 _ hpl)]
  simp only [Bool.false_eq_true, if_false]
  rw [map_ofNat32_toNat _ hsl, map_ofNat32_toNat _ hpl]
  have hsum : (suffixLens (prefixLengths none vs) vs).sum = (suffixes (prefixLengths none vs) vs).flatten.length := by
    rw [List.length_flatten, suffixes_lens]
  have hd : ∀ (a b c : List UInt8), (a ++ (b ++ c)).drop (a.length + b.length) = c := by
    intro a b c; rw [← List.drop_drop, List.drop_left' rfl, List.drop_left' rfl]
  rw [if_neg (by simp only [List.length_append, hsum]; omega), hd]
  rw [reconstruct_encoded work vs none 0 tail hv (by simp) (by omega)]
  simp [List.length_append, hsum, Nat.add_assoc]

/-- the Spec's prefix joining on what the encoder wrote -/
theorem joinPrefixes_encoded (vs : List (List UInt8)) : ∀ (prev : Option (List UInt8)),
    Spec.Delta.joinPrefixes (prev.getD []) ((prefixLengths prev vs).map Int.ofNat)
      (suffixes (prefixLengths prev vs) vs) = .ok vs := by
  induction vs with
  | nil => intro prev; cases prev <;> simp [prefixLengths, suffixes, Spec.Delta.joinPrefixes]
  | cons v vs ih =>
    intro prev
    have key : ∀ p : Nat, p ≤ (prev.getD []).length → (prev.getD []).take p = v.take p →
        prefixLengths prev (v :: vs) = p :: prefixLengths (some v) vs →
        Spec.Delta.joinPrefixes (prev.getD []) ((prefixLengths prev (v :: vs)).map Int.ofNat)
          (suffixes (prefixLengths prev (v :: vs)) (v :: vs)) = .ok (v :: vs) := by
      intro p hp htk hpl
      rw [hpl]
      simp only [List.map_cons, suffixes, List.zipWith_cons_cons, Spec.Delta.joinPrefixes]
      rw [if_neg (by simp), if_neg (by simp; omega)]
      simp only [Int.ofNat_eq_natCast, Int.toNat_natCast]
      rw [htk, List.take_append_drop]
      have := ih (some v)
      simp only [Option.getD_some, suffixes, Int.ofNat_eq_natCast] at this
      rw [this]
    cases prev with
    | none => exact key 0 (by simp) (by simp) (by simp [prefixLengths])
    | some pr =>
      obtain ⟨h1, _, h3⟩ := commonPrefix_spec pr v
      exact key _ (by simpa using h1) (by simpa using h3) (by simp [prefixLengths])

/-- C12, carquet → Spec, DELTA_BYTE_ARRAY -/
theorem to_spec (vs : List (List UInt8)) (bs tail : List UInt8) (hne : vs ≠ [])
    (hlen : vs.length ≤ 2147483647) (hv : ∀ v ∈ vs, v.length < 2 ^ 31) (henc : encode vs = .ok bs) :
    Spec.Delta.decodeByteArray (bs ++ tail) = .ok (vs, tail) := by
  obtain ⟨pre, suf, h1, h2, rfl⟩ := encode_parts vs bs hne henc
  have hpos : 0 < vs.length := List.length_pos_iff.mpr hne
  have hpl := prefixLengths_le none vs hv
  have hsl := suffixLens_lt none vs hv
  have r1 := int32_to_spec _ _ pre (suf ++ ((suffixes (prefixLengths none vs) vs).flatten ++ tail))
    (by
      intro h
      have := congrArg List.length h
      simp only [List.length_map, length_prefixLengths, List.length_nil] at this
      omega)
    (by simpa [length_prefixLengths] using hlen) h1
  have r2 := int32_to_spec _ _ suf ((suffixes (prefixLengths none vs) vs).flatten ++ tail)
    (by
      intro h
      have := congrArg List.length h
      simp only [List.length_map, length_suffixLens, List.length_nil] at this
      omega)
    (by simpa [length_suffixLens] using hlen) h2
  unfold Spec.Delta.decodeByteArray Spec.Delta.decodeLengthByteArray
  simp only [List.append_assoc]
  rw [r1]
  simp only
  rw [r2]
  simp only
  rw [map_ofNat32_toInt _ hsl, map_ofNat32_toInt _ hpl]
  have hs : (suffixLens (prefixLengths none vs) vs).map Int.ofNat =
      (suffixes (prefixLengths none vs) vs).map (fun v => Int.ofNat v.length) := by
    rw [← suffixes_lens, List.map_map]; rfl
  rw [hs, splitByLengths_flatten]
  simp only
  have := joinPrefixes_encoded vs none
  simp only [Option.getD_none] at this
  rw [this]

theorem length_slices (ls : List Nat) (data : List UInt8) : (slices ls data).length = ls.length := by
  induction ls generalizing data with
  | nil => rfl
  | cons l ls ih => simp [slices, ih]

/-- if the Spec joins prefixes and suffixes successfully, the C reconstruction loop does too and
yields the same strings -/
theorem reconstruct_of_join (work : Nat) (Pn : List Nat) :
    ∀ (Sn : List Nat) (data : List UInt8) (prev : Option (List UInt8)) (off : Nat) (vals : List (List UInt8)),
      Spec.Delta.joinPrefixes (prev.getD []) (Pn.map Int.ofNat) (slices Sn data) = .ok vals →
      Pn.length = Sn.length → Sn.sum ≤ data.length →
      (∀ pr, prev = some pr → pr.length < 2 ^ 31) → (∀ v ∈ vals, v.length < 2 ^ 31) →
      off + (vals.map List.length).sum ≤ work →
      reconstruct work Pn Sn data off prev = .ok vals := by
  induction Pn with
  | nil =>
    intro Sn data prev off vals hj hl _ _ _ _
    have : Sn = [] := List.eq_nil_of_length_eq_zero (by simpa using hl.symm)
    subst this
    simp only [List.map_nil, slices, Spec.Delta.joinPrefixes, Except.ok.injEq] at hj
    subst hj
    simp [reconstruct]
  | cons p ps ih =>
    intro Sn data prev off vals hj hl hsum hpr hvals hwork
    cases Sn with
    | nil => simp at hl
    | cons sl ss =>
      simp only [List.map_cons, slices, Spec.Delta.joinPrefixes] at hj
      rw [if_neg (by simp)] at hj
      simp only [Int.ofNat_eq_natCast, Int.toNat_natCast] at hj
      split at hj
      · cases hj
      · rename_i hple
        cases hr : Spec.Delta.joinPrefixes ((prev.getD []).take p ++ data.take sl) (ps.map Int.ofNat) (slices ss (data.drop sl)) with
        | error e => rw [hr] at hj; cases hj
        | ok vs' =>
          rw [hr] at hj
          simp only [Except.ok.injEq] at hj
          subst hj
          simp only [List.sum_cons] at hsum
          simp only [List.map_cons, List.sum_cons, List.length_append, List.length_take] at hwork
          have hple' : p ≤ (prev.getD []).length := by omega
          have hvl := hvals ((prev.getD []).take p ++ data.take sl) (by simp)
          simp only [List.length_append, List.length_take] at hvl
          have hmin1 : min p (prev.getD []).length = p := Nat.min_eq_left hple'
          have hmin2 : min sl data.length = sl := Nat.min_eq_left (by omega)
          rw [hmin1, hmin2] at hwork hvl
          simp only [reconstruct]
          rw [Nat.mod_eq_of_lt (by omega), if_neg (by omega)]
          have hchk : ¬ (0 < p ∧ (prev = none ∨ asInt32 ((prev.getD []).length) < (p : Int))) := by
            rintro ⟨hp0, hor⟩
            rcases hor with hnone | hlt
            · subst hnone; simp at hple'; omega
            · cases prev with
              | none => simp at hple'; omega
              | some pr =>
                have := hpr pr rfl
                simp only [Option.getD_some] at hlt hple'
                rw [show asInt32 pr.length = (pr.length : Int) from ofNat32_toInt _ this] at hlt
                omega
          rw [if_neg hchk]
          have := ih ss (data.drop sl) (some ((prev.getD []).take p ++ data.take sl)) (off + (p + sl)) vs'
            (by simpa using hr) (by simpa using hl) (by rw [List.length_drop]; omega)
            (by intro pr h; cases h; simp only [List.length_append, List.length_take, hmin1, hmin2]; exact hvl)
            (fun v hv => hvals v (by simp [hv])) (by omega)
          rw [this]

theorem joinPrefixes_nonneg (P : List Int) : ∀ (prev : List UInt8) (sufs vals : List (List UInt8)),
    Spec.Delta.joinPrefixes prev P sufs = .ok vals → (∀ p ∈ P, 0 ≤ p) ∧ P.length = sufs.length := by
  induction P with
  | nil =>
    intro prev sufs vals h
    cases sufs with
    | nil => simp
    | cons s ss => simp [Spec.Delta.joinPrefixes] at h
  | cons p ps ih =>
    intro prev sufs vals h
    cases sufs with
    | nil => simp [Spec.Delta.joinPrefixes] at h
    | cons s ss =>
      simp only [Spec.Delta.joinPrefixes] at h
      split at h
      · cases h
      · split at h
        · cases h
        · rename_i hn _
          cases hr : Spec.Delta.joinPrefixes (prev.take p.toNat ++ s) ps ss with
          | error e => rw [hr] at h; cases h
          | ok vs' =>
            obtain ⟨h1, h2⟩ := ih _ _ _ hr
            refine ⟨?_, by simp [h2]⟩
            intro x hx
            simp only [List.mem_cons] at hx
            rcases hx with rfl | hx
            · omega
            · exact h1 x hx

theorem map_toNat_ofInt32 (s : Stream) (h : ∀ y ∈ s.values 32, 0 ≤ y) :
    ((s.values 32).map (BitVec.ofInt 32)).map (fun l => l.toNat) = (s.values 32).map Int.toNat := by
  have hti := toInt_ofInt_wrapped 32 s
  conv => rhs; rw [← hti, List.map_map]
  apply List.map_congr_left
  intro l hl
  have : l.toInt ∈ ((s.values 32).map (BitVec.ofInt 32)).map BitVec.toInt := List.mem_map_of_mem hl
  rw [hti] at this
  exact toNat_of_nonneg32 l (h _ this)

theorem nonneg_ofInt32 (s : Stream) (h : ∀ y ∈ s.values 32, 0 ≤ y) :
    ∀ b ∈ (s.values 32).map (BitVec.ofInt 32), 0 ≤ b.toInt := by
  intro b hb
  have hti := toInt_ofInt_wrapped 32 s
  have : b.toInt ∈ ((s.values 32).map (BitVec.ofInt 32)).map BitVec.toInt := List.mem_map_of_mem hb
  rw [hti] at this
  exact h _ this

/-- C12, Spec → carquet, DELTA_BYTE_ARRAY: prefix-length and suffix-length streams are grammar
streams of geometry 128/4; whenever the reference decoder accepts the whole input, carquet returns
the same byte arrays and the same end of stream (work buffer large enough, values below 2 GiB). -/
theorem from_spec (sP sS : Stream) (rest rest' : List UInt8) (vals : List (List UInt8)) (work : Nat)
    (hwfP : sP.wf) (hgP : sP.geom = ⟨128, 4⟩) (hapiP : Stream.fitsApi sP)
    (hwfS : sS.wf) (hgS : sS.geom = ⟨128, 4⟩) (hapiS : Stream.fitsApi sS)
    (hcnt : sP.count = sS.count) (hc : 0 < sP.count)
    (hspec : Spec.Delta.decodeByteArray (sP.bytes ++ (sS.bytes ++ rest)) = .ok (vals, rest'))
    (hwork : (vals.map List.length).sum ≤ work) (hsmall : ∀ v ∈ vals, v.length < 2 ^ 31) :
    decode (sP.bytes ++ (sS.bytes ++ rest)) sP.count work =
      .ok (vals, sP.bytes.length + sS.bytes.length + rest.length - rest'.length) := by
  unfold Spec.Delta.decodeByteArray Spec.Delta.decodeLengthByteArray at hspec
  rw [Spec.Delta.decode_stream 32 sP _ hwfP] at hspec
  simp only at hspec
  rw [Spec.Delta.decode_stream 32 sS _ hwfS] at hspec
  simp only at hspec
  cases hsp : Spec.Delta.splitByLengths (sS.values 32) rest with
  | error e => rw [hsp] at hspec; cases hspec
  | ok q =>
    obtain ⟨sufs, r'⟩ := q
    rw [hsp] at hspec
    simp only at hspec
    cases hj : Spec.Delta.joinPrefixes [] (sP.values 32) sufs with
    | error e => rw [hj] at hspec; cases hspec
    | ok vs' =>
      rw [hj] at hspec
      simp only [Except.ok.injEq, Prod.mk.injEq] at hspec
      obtain ⟨rfl, rfl⟩ := hspec
      obtain ⟨hS0, hsufs, hSsum, hr'⟩ := splitByLengths_ok _ _ _ _ hsp
      obtain ⟨hP0, hPlen⟩ := joinPrefixes_nonneg _ _ _ _ hj
      unfold decode
      rw [if_neg (by omega), Int.toNat_natCast, stream_decodeInt32 sP _ hwfP hgP hapiP]
      simp only
      rw [List.drop_left' rfl, hcnt, stream_decodeInt32 sS _ hwfS hgS hapiS]
      simp only
      rw [zip_any_neg_false _ _ (nonneg_ofInt32 sS hS0) (nonneg_ofInt32 sP hP0)]
      simp only [Bool.false_eq_true, if_false]
      rw [map_toNat_ofInt32 sS hS0, map_toNat_ofInt32 sP hP0]
      have hd : ∀ (a b c : List UInt8), (a ++ (b ++ c)).drop (a.length + b.length) = c := by
        intro a b c; rw [← List.drop_drop, List.drop_left' rfl, List.drop_left' rfl]
      rw [if_neg (by simp only [List.length_append]; omega), hd]
      have hPback : ((sP.values 32).map Int.toNat).map Int.ofNat = sP.values 32 := by
        rw [List.map_map]
        conv => rhs; rw [← List.map_id (sP.values 32)]
        apply List.map_congr_left
        intro y hy
        simp only [Function.comp_def, Int.ofNat_eq_natCast, id]
        exact Int.toNat_of_nonneg (hP0 y hy)
      have := reconstruct_of_join work ((sP.values 32).map Int.toNat) ((sS.values 32).map Int.toNat) rest none 0 vs'
        (by simpa [hPback, ← hsufs] using hj)
        (by simp only [List.length_map]; rw [hPlen, hsufs, length_slices]; simp)
        hSsum (by simp) hsmall (by omega)
      rw [this, hr', List.length_drop]
      simp only [Except.ok.injEq, Prod.mk.injEq, true_and]
      omega

end Carquet.Impl.DeltaStrings
