import Carquet.Proofs.NatBits
/-
The byte loops of Impl/Bitpack.lean in closed form:
  pack8 w vals   = the w little-endian bytes of  concat w vals = Σ (vᵢ mod 2^w)·2^(w·i)
  unpack8 w inp  = [nth w N i | i < 8]   with   N = leNat (inp.take w),  nth w N i = (N >>> w·i) mod 2^w
-/
namespace Carquet.Proofs.BitpackImpl
open Carquet.Impl.Bitpack Carquet.Proofs.NatBits

/-- the integer whose base-`2^w` digits are the (masked) values, least significant first -/
def concat (w : Nat) : List Nat → Nat
  | [] => 0
  | v :: vs => v % 2 ^ w + 2 ^ w * concat w vs

/-- the `i`-th `w`-bit field of `N` -/
def nth (w N i : Nat) : Nat := (N >>> (w * i)) % 2 ^ w

theorem mask_eq {w : Nat} (hw : w ≤ 32) : mask w = 2 ^ w - 1 := by
  unfold mask
  rw [one_shl]
  apply Nat.mod_eq_of_lt
  have : 2 ^ w ≤ 2 ^ 32 := Nat.pow_le_pow_right (by decide) hw
  have := Nat.two_pow_pos w
  omega

theorem concat_lt (w : Nat) (vals : List Nat) : concat w vals < 2 ^ (w * vals.length) := by
  induction vals with
  | nil => simp [concat]
  | cons v vs ih =>
    simp only [concat, List.length_cons]
    rw [show w * (vs.length + 1) = w + w * vs.length by rw [Nat.mul_add]; omega, Nat.pow_add]
    have h1 : v % 2 ^ w < 2 ^ w := Nat.mod_lt _ (Nat.two_pow_pos w)
    have h2 : concat w vs + 1 ≤ 2 ^ (w * vs.length) := ih
    have h3 : 2 ^ w * (concat w vs + 1) ≤ 2 ^ w * 2 ^ (w * vs.length) := Nat.mul_le_mul_left _ h2
    rw [Nat.mul_add] at h3
    omega

/-! ### packing -/

theorem packTail_eq (w : Nat) : ∀ (fuel acc bytePos val bw : Nat),
    w ≤ bw + 8 * fuel → val < 2 ^ (w - bw) →
    packTail w fuel acc bytePos val bw = acc ||| (val <<< (8 * bytePos)) := by
  intro fuel
  induction fuel with
  | zero =>
    intro acc bytePos val bw h1 h2
    have : w - bw = 0 := by omega
    rw [this] at h2
    have : val = 0 := by simpa using h2
    subst this
    simp [packTail]
  | succ f ih =>
    intro acc bytePos val bw h1 h2
    simp only [packTail]
    split
    · rename_i hlt
      have hv : val >>> 8 < 2 ^ (w - (bw + 8)) := by
        rw [shr_eq]
        by_cases h8 : w - bw ≥ 8
        · rw [Nat.div_lt_iff_lt_mul (Nat.two_pow_pos 8), ← Nat.pow_add]
          rw [show w - (bw + 8) + 8 = w - bw by omega]; exact h2
        · have : val < 2 ^ 8 :=
            Nat.lt_of_lt_of_le h2 (Nat.pow_le_pow_right (by decide) (by omega))
          rw [Nat.div_eq_of_lt this]; exact Nat.two_pow_pos _
      rw [ih (orByte acc bytePos val) (bytePos + 1) (val >>> 8) (bw + 8) (by omega) hv]
      unfold orByte
      rw [Nat.or_assoc, show 8 * (bytePos + 1) = 8 * bytePos + 8 by omega, or_byte_rest]
    · rename_i hge
      have : w - bw = 0 := by omega
      rw [this] at h2
      have : val = 0 := by simpa using h2
      subst this
      simp

theorem packValue_eq {w : Nat} (hw : w ≤ 32) (acc bitPos v : Nat) :
    packValue w acc bitPos v = acc ||| ((v % 2 ^ w) <<< bitPos) := by
  unfold packValue
  rw [mask_eq hw, and_mask]
  have hoff : bitPos % 8 < 8 := Nat.mod_lt _ (by decide)
  have hv : v % 2 ^ w < 2 ^ w := Nat.mod_lt _ (Nat.two_pow_pos w)
  have hmod : ((v % 2 ^ w) <<< (bitPos % 8)) % 2 ^ 32 % 256 = ((v % 2 ^ w) <<< (bitPos % 8)) % 256 :=
    Nat.mod_mod_of_dvd _ (by decide : 256 ∣ 2 ^ 32)
  have hpos : 8 * (bitPos / 8) + bitPos % 8 = bitPos := Nat.div_add_mod bitPos 8
  -- `(val <<< off) >>> 8 = val >>> (8 - off)`
  have hshr : ((v % 2 ^ w) <<< (bitPos % 8)) >>> 8 = (v % 2 ^ w) >>> (8 - bitPos % 8) := by
    rw [shl_eq, shr_eq, shr_eq]
    have e : (2:Nat) ^ 8 = 2 ^ (bitPos % 8) * 2 ^ (8 - bitPos % 8) := by
      rw [← Nat.pow_add]; congr 1; omega
    rw [e, ← Nat.div_div_eq_div_mul, Nat.mul_div_cancel _ (Nat.two_pow_pos _)]
  have hfull : ((v % 2 ^ w) <<< (bitPos % 8)) <<< (8 * (bitPos / 8)) = (v % 2 ^ w) <<< bitPos := by
    rw [← Nat.shiftLeft_add, Nat.add_comm, hpos]
  split
  · rename_i hlt
    rw [packTail_eq w w _ _ _ _ (by omega)]
    · unfold orByte
      rw [hmod, Nat.or_assoc, show 8 * (bitPos / 8 + 1) = 8 * (bitPos / 8) + 8 by omega, ← hshr,
        or_byte_rest, hfull]
    · rw [shr_eq, Nat.div_lt_iff_lt_mul (Nat.two_pow_pos _), ← Nat.pow_add]
      rw [show w - (8 - bitPos % 8) + (8 - bitPos % 8) = w by omega]; exact hv
  · rename_i hge
    unfold orByte
    rw [hmod]
    have hsmall : (v % 2 ^ w) <<< (bitPos % 8) < 256 := by
      rw [shl_eq]
      have h1 : v % 2 ^ w < 2 ^ (8 - bitPos % 8) :=
        Nat.lt_of_lt_of_le hv (Nat.pow_le_pow_right (by decide) (by omega))
      have h2 : v % 2 ^ w * 2 ^ (bitPos % 8) < 2 ^ (8 - bitPos % 8) * 2 ^ (bitPos % 8) :=
        Nat.mul_lt_mul_of_pos_right h1 (Nat.two_pow_pos _)
      rw [← Nat.pow_add, show 8 - bitPos % 8 + bitPos % 8 = 8 by omega] at h2
      exact h2
    rw [Nat.mod_eq_of_lt hsmall, hfull]

theorem packLoop_eq {w : Nat} (hw : w ≤ 32) (vals : List Nat) (bitPos acc : Nat) :
    packLoop w vals bitPos acc = acc ||| (concat w vals <<< bitPos) := by
  induction vals generalizing bitPos acc with
  | nil => simp [packLoop, concat]
  | cons v vs ih =>
    simp only [packLoop, concat]
    rw [ih, packValue_eq hw, Nat.or_assoc]
    congr 1
    have hv : v % 2 ^ w < 2 ^ w := Nat.mod_lt _ (Nat.two_pow_pos w)
    rw [Nat.add_comm (v % 2 ^ w), ← or_eq_add _ _ _ hv, Nat.shiftLeft_or_distrib, Nat.or_comm]
    congr 1
    rw [shl_eq, shl_eq, Nat.pow_add]
    rw [Nat.mul_comm (2 ^ w), Nat.mul_assoc, Nat.mul_comm (2 ^ w)]

theorem leBytes_concat8 (vals : List Nat) :
    leBytes vals.length (concat 8 vals) = vals.map (fun v => UInt8.ofNat v) := by
  induction vals with
  | nil => rfl
  | cons v vs ih =>
    simp only [List.length_cons, leBytes, concat, List.map_cons]
    have h8 : (2:Nat) ^ 8 = 256 := by decide
    rw [h8]
    have hv : v % 256 < 256 := Nat.mod_lt _ (by decide)
    have h1 : (v % 256 + 256 * concat 8 vs) % 256 = v % 256 := by omega
    have h2 : (v % 256 + 256 * concat 8 vs) / 256 = concat 8 vs := by omega
    rw [h1, h2, ih, ofNat_mod]

/-- `carquet_bitpack8_32` in closed form -/
theorem pack8_eq {w : Nat} (hw : w ≤ 32) (vals : List Nat) (hlen : vals.length = 8) :
    pack8 w vals = leBytes w (concat w vals) := by
  unfold pack8
  by_cases h0 : w = 0
  · subst h0; simp [leBytes]
  · by_cases h8 : w = 8
    · subst h8
      simp only [h0, if_false, if_true]
      rw [← leBytes_concat8, hlen]
    · simp only [h0, h8, if_false]
      rw [packLoop_eq hw]
      simp

/-! ### unpacking -/

theorem nth_mod (w N a i : Nat) (h : w * i + w ≤ a) : nth w (N % 2 ^ a) i = nth w N i := by
  unfold nth
  exact shr_mod_window N a (w * i) w h

/-- one iteration of the generic loop keeps the invariant -/
theorem extracted_eq (inp : List UInt8) (s : GenSt) (hb : s.bytePos = s.bitPos / 8) :
    extracted inp s = (leNat inp >>> s.bitPos) % 2 ^ bitsFromByte s := by
  unfold extracted
  rw [one_shl, and_mask, byteAt_eq, hb]
  have hle : bitsFromByte s ≤ 8 - s.bitPos % 8 := by unfold bitsFromByte; omega
  have : (leNat inp >>> (8 * (s.bitPos / 8))) % 256 = (leNat inp >>> (8 * (s.bitPos / 8))) % 2 ^ 8 := rfl
  rw [this, shr_mod_window _ 8 _ _ (by omega), shr_shr, Nat.div_add_mod]

theorem genInner_eq (inp : List UInt8) : ∀ (fuel : Nat) (s : GenSt) (start : Nat),
    s.bitsNeeded ≤ fuel → s.bytePos = s.bitPos / 8 → start + s.bitsInBuf = s.bitPos →
    s.bits = (leNat inp >>> start) % 2 ^ s.bitsInBuf →
    (genInner inp fuel s).bits = (leNat inp >>> start) % 2 ^ (s.bitsInBuf + s.bitsNeeded) ∧
    (genInner inp fuel s).bitPos = s.bitPos + s.bitsNeeded ∧
    (genInner inp fuel s).bytePos = (s.bitPos + s.bitsNeeded) / 8 := by
  intro fuel
  induction fuel with
  | zero =>
    intro s start h1 h2 h3 h4
    have : s.bitsNeeded = 0 := by omega
    simp [genInner, this, h4, h2]
  | succ f ih =>
    intro s start h1 h2 h3 h4
    simp only [genInner]
    split
    · rename_i h0
      simp [h0, h4, h2]
    · rename_i h0
      have hk1 : 1 ≤ bitsFromByte s := by unfold bitsFromByte; omega
      have hk2 : bitsFromByte s ≤ s.bitsNeeded := by unfold bitsFromByte; omega
      have hk3 : bitsFromByte s ≤ 8 - s.bitPos % 8 := by unfold bitsFromByte; omega
      have hbits : (genStep inp s).bits = (leNat inp >>> start) % 2 ^ ((genStep inp s).bitsInBuf) := by
        simp only [genStep]
        rw [extracted_eq inp s h2, h4, ← h3, ← shr_shr, or_low_high]
      have hbyte : (genStep inp s).bytePos = (genStep inp s).bitPos / 8 := by
        simp only [genStep]
        split <;> omega
      have hstart : start + (genStep inp s).bitsInBuf = (genStep inp s).bitPos := by
        simp only [genStep]; omega
      have hneed : (genStep inp s).bitsNeeded ≤ f := by
        simp only [genStep]; omega
      obtain ⟨r1, r2, r3⟩ := ih (genStep inp s) start hneed hbyte hstart hbits
      have e1 : (genStep inp s).bitsInBuf + (genStep inp s).bitsNeeded = s.bitsInBuf + s.bitsNeeded := by
        simp only [genStep]; omega
      have e2 : (genStep inp s).bitPos + (genStep inp s).bitsNeeded = s.bitPos + s.bitsNeeded := by
        simp only [genStep]; omega
      rw [e1] at r1
      rw [e2] at r2 r3
      exact ⟨r1, r2, r3⟩

theorem genOuter_eq {w : Nat} (hw : w ≤ 32) (inp : List UInt8) (n i : Nat) :
    genOuter w inp n (w * i) (w * i / 8) = (List.range' i n).map (nth w (leNat inp)) := by
  induction n generalizing i with
  | zero => simp [genOuter]
  | succ n ih =>
    obtain ⟨r1, r2, r3⟩ := genInner_eq inp w ⟨0, w, 0, w * i, w * i / 8⟩ (w * i)
      (Nat.le_refl _) rfl rfl (by simp [Nat.mod_one])
    simp only [genOuter, List.range'_succ, List.map_cons]
    simp only [Nat.zero_add] at r1
    rw [r1, r2, r3, mask_eq hw, and_mask, Nat.mod_mod]
    rw [show w * i + w = w * (i + 1) by rw [Nat.mul_add]; omega, ih (i + 1)]
    rfl

theorem extract_eq (N w : Nat) (m : Nat) (hm : m = 2 ^ w - 1) (shifts : List Nat) :
    extract N m shifts = shifts.map (fun s => (N >>> s) % 2 ^ w) := by
  unfold extract
  subst hm
  simp

/-- the generic `bit_pos`/`byte_pos` loop in closed form, at every width up to 32 -/
theorem unpack8Generic_eq {w : Nat} (hw : w ≤ 32) (inp : List UInt8) :
    unpack8Generic w inp = (List.range 8).map (nth w (leNat (inp.take w))) := by
  unfold unpack8Generic
  have := genOuter_eq hw inp 8 0
  simp only [Nat.mul_zero, Nat.zero_div] at this
  rw [this, leNat_take]
  have : List.range' 0 8 = List.range 8 := by decide
  rw [this]
  apply List.map_congr_left
  intro i hi
  have hi8 : i < 8 := by simpa using hi
  rw [nth_mod]
  rw [show w * i + w = w * (i + 1) by rw [Nat.mul_add]; omega, Nat.mul_comm 8 w]
  exact Nat.mul_le_mul_left w hi8

/-- `carquet_bitunpack8_32` in closed form (the specialised unpackers and the generic loop
all compute the same eight fields of the first `w` input bytes) -/
theorem unpack8_eq {w : Nat} (hw : w ≤ 32) (inp : List UInt8) :
    unpack8 w inp = (List.range 8).map (nth w (leNat (inp.take w))) := by
  have hr : List.range 8 = [0, 1, 2, 3, 4, 5, 6, 7] := by decide
  unfold unpack8
  by_cases h0 : w = 0
  · subst h0; simp [hr, nth, Nat.mod_one]
  simp only [h0, if_false]
  by_cases h1 : w = 1
  · subst h1
    simp only [if_true, unpack8_1bit]
    rw [extract_eq _ 1 1 rfl, byteAt_eq, hr]
    simp only [nth, List.map_cons, List.map_nil, leNat_take]
    have e : (256 : Nat) = 2 ^ 8 := by decide
    simp only [Nat.mul_zero, Nat.shiftRight_zero, e, Nat.mul_one]
  simp only [h1, if_false]
  by_cases h2 : w = 2
  · subst h2; simp only [if_true, unpack8_2bit]; rw [extract_eq _ 2 _ rfl, hr]; rfl
  simp only [h2, if_false]
  by_cases h3 : w = 3
  · subst h3; simp only [if_true, unpack8_3bit]; rw [extract_eq _ 3 _ rfl, hr]; rfl
  simp only [h3, if_false]
  by_cases h4 : w = 4
  · subst h4; simp only [if_true, unpack8_4bit]; rw [extract_eq _ 4 _ rfl, hr]; rfl
  simp only [h4, if_false]
  by_cases h5 : w = 5
  · subst h5; simp only [if_true, unpack8_5bit]; rw [extract_eq _ 5 _ rfl, hr]; rfl
  simp only [h5, if_false]
  by_cases h6 : w = 6
  · subst h6; simp only [if_true, unpack8_6bit]; rw [extract_eq _ 6 _ rfl, hr]; rfl
  simp only [h6, if_false]
  by_cases h7 : w = 7
  · subst h7; simp only [if_true, unpack8_7bit]; rw [extract_eq _ 7 _ rfl, hr]; rfl
  simp only [h7, if_false]
  by_cases h8 : w = 8
  · subst h8
    simp only [if_true, unpack8_8bit, hr, List.map_cons, List.map_nil, nth]
    have e : (2 : Nat) ^ 8 = 256 := by decide
    simp only [byteAt_eq, leNat_take, e]
    have key : ∀ k, k < 8 → (leNat inp >>> (8 * k)) % 256 = ((leNat inp % 2 ^ (8 * 8)) >>> (8 * k)) % 256 := by
      intro k hk
      have := shr_mod_window (leNat inp) (8 * 8) (8 * k) 8 (by omega)
      rw [e] at this; exact this.symm
    rw [key 0 (by decide), key 1 (by decide), key 2 (by decide), key 3 (by decide),
        key 4 (by decide), key 5 (by decide), key 6 (by decide), key 7 (by decide)]
  simp only [h8, if_false]
  exact unpack8Generic_eq hw inp

theorem unpack8_length {w : Nat} (hw : w ≤ 32) (inp : List UInt8) : (unpack8 w inp).length = 8 := by
  rw [unpack8_eq hw]; simp

/-- the fields of `concat` are the values -/
theorem nth_concat (w : Nat) (vals : List Nat) (i : Nat) (hi : i < vals.length) :
    nth w (concat w vals) i = vals[i] % 2 ^ w := by
  induction vals generalizing i with
  | nil => simp at hi
  | cons v vs ih =>
    have hv : v % 2 ^ w < 2 ^ w := Nat.mod_lt _ (Nat.two_pow_pos w)
    cases i with
    | zero =>
      simp only [nth, concat, Nat.mul_zero, Nat.shiftRight_zero, List.getElem_cons_zero]
      rw [Nat.add_mul_mod_self_left, Nat.mod_mod]
    | succ i =>
      simp only [List.getElem_cons_succ]
      rw [← ih i (by simpa using hi)]
      simp only [nth, concat]
      rw [show w * (i + 1) = w + w * i by rw [Nat.mul_add]; omega, ← shr_shr]
      congr 2
      rw [shr_eq, Nat.add_mul_div_left _ _ (Nat.two_pow_pos w), Nat.div_eq_of_lt hv, Nat.zero_add]

end Carquet.Proofs.BitpackImpl
