import Carquet.Proofs.CFun3.Bitunpack
import Carquet.Properties.C11.CFun
/-
Stage-3 link: `carquet_bitunpack_32` (src/core/bitpack.c) as translated in Gen/CFun.lean
(`carquet_bitunpack_32`, `_loop1` = the groups of 8, `_loop2` = the copy of the tail values out of `temp`) against
`Impl.Bitpack.unpack`.
-/
namespace Carquet.Proofs.CFun3.Bitunpack32
open Carquet Carquet.Impl Carquet.Impl.CSem Carquet.Proofs.CFun2 Carquet.Proofs.CFun3.Bitunpack

/-! ### `size_t` facts -/

theorem toNat64 (n : Nat) (h : n < 2 ^ 64) : (BitVec.ofNat 64 n).toNat = n := by
  rw [BitVec.toNat_ofNat]; exact Nat.mod_eq_of_lt h

theorem add64 (a b : Nat) : BitVec.ofNat 64 a + BitVec.ofNat 64 b = BitVec.ofNat 64 (a + b) := by
  apply BitVec.eq_of_toNat_eq
  simp [BitVec.toNat_add, BitVec.toNat_ofNat]

theorem sub64 (a b : Nat) (h : b ≤ a) (ha : a < 2 ^ 64) :
    BitVec.ofNat 64 a - BitVec.ofNat 64 b = BitVec.ofNat 64 (a - b) := by
  apply BitVec.eq_of_toNat_eq
  simp only [BitVec.toNat_sub, BitVec.toNat_ofNat]
  omega

theorem lt64 (a b : Nat) (ha : a < 2 ^ 64) (hb : b < 2 ^ 64) :
    decide (BitVec.ofNat 64 a < BitVec.ofNat 64 b) = decide (a < b) := by
  simp only [BitVec.lt_def, toNat64 a ha, toNat64 b hb]

theorem le64 (a b : Nat) (ha : a < 2 ^ 64) (hb : b < 2 ^ 64) :
    decide (BitVec.ofNat 64 a ≤ BitVec.ofNat 64 b) = decide (a ≤ b) := by
  simp only [BitVec.le_def, toNat64 a ha, toNat64 b hb]

/-- `(size_t)bit_width` for a width 0..32 -/
theorem sext_w (w : Nat) (hw : w ≤ 32) : BitVec.signExtend 64 (BitVec.ofNat 32 w) = BitVec.ofNat 64 w := by
  apply BitVec.eq_of_toNat_eq
  rw [Carquet.Proofs.CFun.toNat_signExtend_32_64_of_nonneg _ (by rw [ofNat_toInt_small w (by omega)]; omega),
    ofNat_toInt_small w (by omega), toNat64 w (by omega)]
  simp

/-- `carquet_packed_size(r, bit_width)` on small arguments (stage 1) -/
theorem packed_size_small (r w : Nat) (hr : r < 8) (hw : w ≤ 32) :
    Gen.CFun.carquet_packed_size (BitVec.ofNat 64 r) (BitVec.ofNat 32 w) = BitVec.ofNat 64 (Bitpack.packedSize r w) := by
  have h1 : r * w ≤ 7 * 32 := Nat.mul_le_mul (by omega) hw
  have hi : (BitVec.ofNat 32 w).toInt = (w : Int) := ofNat_toInt_small w (by omega)
  have h := Carquet.Properties.C11.C11_cfun_packed_size (BitVec.ofNat 64 r) (BitVec.ofNat 32 w) (by rw [hi]; omega)
    (by rw [hi, toNat64 r (by omega)]; simp; omega)
  rw [hi, toNat64 r (by omega)] at h
  simp only [Int.toNat_natCast] at h
  apply BitVec.eq_of_toNat_eq
  rw [h, toNat64]
  unfold Bitpack.packedSize
  omega

theorem packedSize_le (r w : Nat) (hr : r < 8) (hw : w ≤ 32) : Bitpack.packedSize r w ≤ 28 := by
  have h1 : r * w ≤ 7 * 32 := Nat.mul_le_mul (by omega) hw
  unfold Bitpack.packedSize
  omega

/-! ### list facts -/

theorem take_app3 {α : Type} (A B C : List α) (m : Nat) (h : A.length + B.length = m) :
    (A ++ B ++ C).take m = A ++ B := by
  rw [List.take_append_of_le_length (by simp; omega), List.take_of_length_le (by simp; omega)]

theorem drop_app3 {α : Type} (A B C : List α) (m : Nat) (h : A.length + B.length ≤ m) :
    (A ++ B ++ C).drop m = C.drop (m - (A.length + B.length)) := by
  rw [List.drop_append, List.drop_of_length_le (by simp; omega)]
  simp

/-- `memcpy(packed, input + off, n)` into `uint8_t packed[32] = {0}` -/
theorem copyInto_zeros (Z input : List UInt8) (off n : Nat) (hZ : Z = List.replicate 32 0) :
    copyInto Z 0 input off n = (input.drop off).take n ++ List.replicate (32 - n) 0 := by
  subst hZ
  simp only [copyInto, List.take_zero, List.nil_append, Nat.zero_add, List.drop_replicate]

/-! ### loop #2: `for (j = 0; j < count - i; j++) values[i + j] = temp[j];` -/

theorem loop2_eq (input : List UInt8) (ti : List (BitVec 32)) (bw : BitVec 32) (bc rb : BitVec 64)
    (temp : List (BitVec 32)) (packed : List UInt8) (count i r : Nat) (hcount : count = i + r) (hc : count < 2 ^ 63)
    (ht : r ≤ temp.length) :
    ∀ (n fuel j : Nat) (values : List (BitVec 32)), j + n = r → n < fuel → count ≤ values.length →
    Gen.CFun.carquet_bitunpack_32_loop2 fuel input ti (BitVec.ofNat 64 count) bw values bc (BitVec.ofNat 64 i) temp
      packed rb (BitVec.ofNat 64 j) =
    (bc + rb, values.take (i + j) ++ (temp.drop j).take n ++ values.drop (i + j + n)) := by
  intro n
  induction n with
  | zero =>
    intro fuel j values hj hf hv
    obtain ⟨f, rfl⟩ : ∃ f, fuel = f + 1 := ⟨fuel - 1, by omega⟩
    rw [Gen.CFun.carquet_bitunpack_32_loop2, sub64 count i (by omega) (by omega), lt64 j (count - i) (by omega) (by omega)]
    have : ¬ j < count - i := by omega
    simp [this]
  | succ n ih =>
    intro fuel j values hj hf hv
    obtain ⟨f, rfl⟩ : ∃ f, fuel = f + 1 := ⟨fuel - 1, by omega⟩
    rw [Gen.CFun.carquet_bitunpack_32_loop2, sub64 count i (by omega) (by omega), lt64 j (count - i) (by omega) (by omega)]
    have hlt : j < count - i := by omega
    have e1 : BitVec.ofNat 64 j + 1#64 = BitVec.ofNat 64 (j + 1) := add64 j 1
    simp only [hlt, decide_true, if_true, add64, e1, toNat64 (i + j) (by omega), toNat64 j (by omega)]
    rw [ih f (j + 1) _ (by omega) (by omega) (by simpa [wr] using hv)]
    have hjt : j < temp.length := by omega
    have e2 : (temp.drop j).take (n + 1) = rd temp j :: (temp.drop (j + 1)).take n := by
      rw [List.drop_eq_getElem_cons hjt, List.take_succ_cons]
      simp [rd, hjt]
    have e3 : i + (j + 1) = i + j + 1 := by omega
    rw [e2, e3, wr, take_succ_set values (i + j) _ (by omega), List.drop_set_of_lt (by omega)]
    have e4 : i + j + 1 + n = i + j + (n + 1) := by omega
    rw [e4]
    simp

theorem loop2_defined (input : List UInt8) (ti : List (BitVec 32)) (bw : BitVec 32) (bc rb : BitVec 64)
    (temp : List (BitVec 32)) (packed : List UInt8) (count i r : Nat) (hcount : count = i + r) (hc : count < 2 ^ 63)
    (hr : r ≤ 8) :
    ∀ (n fuel j : Nat) (values : List (BitVec 32)), j + n = r → n < fuel → count ≤ values.length →
    Gen.CFun.carquet_bitunpack_32_loop2_defined fuel input ti (BitVec.ofNat 64 count) bw values bc (BitVec.ofNat 64 i)
      temp packed rb (BitVec.ofNat 64 j) = true := by
  intro n
  induction n with
  | zero =>
    intro fuel j values hj hf hv
    obtain ⟨f, rfl⟩ : ∃ f, fuel = f + 1 := ⟨fuel - 1, by omega⟩
    rw [Gen.CFun.carquet_bitunpack_32_loop2_defined, sub64 count i (by omega) (by omega),
      lt64 j (count - i) (by omega) (by omega)]
    have : ¬ j < count - i := by omega
    simp [this]
  | succ n ih =>
    intro fuel j values hj hf hv
    obtain ⟨f, rfl⟩ : ∃ f, fuel = f + 1 := ⟨fuel - 1, by omega⟩
    rw [Gen.CFun.carquet_bitunpack_32_loop2_defined, sub64 count i (by omega) (by omega),
      lt64 j (count - i) (by omega) (by omega)]
    have hlt : j < count - i := by omega
    have e1 : BitVec.ofNat 64 j + 1#64 = BitVec.ofNat 64 (j + 1) := add64 j 1
    simp only [hlt, decide_true, if_true, add64, e1, toNat64 (i + j) (by omega), toNat64 j (by omega)]
    rw [ih f (j + 1) _ (by omega) (by omega) (by simpa [wr] using hv)]
    have hin : inb values (i + j) 1 = true := by rw [inb_iff]; omega
    have hj8 : j < 8 := by omega
    simp [hin, hj8]

/-! ### the tail: `if (i < count) { … }` -/

/-- the zero-padded local `packed[32]` after the `memcpy` of the tail bytes -/
def padded (w : Nat) (input : List UInt8) (count : Nat) : List UInt8 :=
  ((input.drop (count / 8 * w)).take (Bitpack.packedSize (count % 8) w)) ++
    List.replicate (32 - Bitpack.packedSize (count % 8) w) 0

/-- the values of the tail group -/
def tailVals (w : Nat) (input : List UInt8) (count : Nat) : List Nat :=
  if count % 8 = 0 then [] else (Bitpack.unpack8 w (padded w input count)).take (count % 8)

/-- the bytes of the tail group -/
def tailBytes (w count : Nat) : Nat := if count % 8 = 0 then 0 else Bitpack.packedSize (count % 8) w

theorem unpack_split (w : Nat) (input : List UInt8) (count : Nat) (h0 : w ≠ 0) :
    Bitpack.unpack w input count =
      (Bitpack.unpackGroups w (count / 8) input ++ tailVals w input count, count / 8 * w + tailBytes w count) := by
  unfold Bitpack.unpack tailVals tailBytes padded
  rw [if_neg h0]
  split <;> simp

theorem padded_length (w : Nat) (input : List UInt8) (count : Nat) (hw : w ≤ 32)
    (hi : count / 8 * w + Bitpack.packedSize (count % 8) w ≤ input.length) : (padded w input count).length = 32 := by
  have := packedSize_le (count % 8) w (Nat.mod_lt _ (by decide)) hw
  simp only [padded, List.length_append, List.length_take, List.length_drop, List.length_replicate]
  omega

/-- `remaining_bytes = carquet_packed_size(count - i, bit_width)` at `i = 8 * (count / 8)` -/
theorem rem_packed_size (w count : Nat) (hw : w ≤ 32) (hc : count < 2 ^ 61) :
    Gen.CFun.carquet_packed_size (BitVec.ofNat 64 count - BitVec.ofNat 64 (8 * (count / 8))) (BitVec.ofNat 32 w) =
      BitVec.ofNat 64 (Bitpack.packedSize (count % 8) w) := by
  have hsub : BitVec.ofNat 64 count - BitVec.ofNat 64 (8 * (count / 8)) = BitVec.ofNat 64 (count % 8) := by
    rw [sub64 count _ (by omega) (by omega)]; congr 1; omega
  rw [hsub, packed_size_small _ _ (Nat.mod_lt _ (by decide)) hw]

/-- `uint8_t packed[32] = {0}; memcpy(packed, input + bytes_consumed, remaining_bytes);` -/
theorem copyInto_padded (Z input : List UInt8) (w count : Nat) (hZ : Z = List.replicate 32 0) :
    copyInto Z 0 input (count / 8 * w) (Bitpack.packedSize (count % 8) w) = padded w input count := by
  rw [copyInto_zeros Z input _ _ hZ, padded]

/-- the tail block, entered with `i = count / 8 * 8 < count`, `bytes_consumed = count / 8 * w`, `temp` = the group
unpacked from the padded copy -/
theorem tail_eq (input : List UInt8) (values ti : List (BitVec 32)) (w count : Nat) (hw : w ≤ 32)
    (hc : count < 2 ^ 61) (hi : count / 8 * w + tailBytes w count ≤ input.length) (hv : count ≤ values.length)
    (ht : ti.length = 8) (hr : count % 8 ≠ 0) (pk : List UInt8) :
    (Gen.CFun.carquet_bitunpack_32_loop2 9 input ti (BitVec.ofNat 64 count) (BitVec.ofNat 32 w) values
      (BitVec.ofNat 64 (count / 8 * w)) (BitVec.ofNat 64 (8 * (count / 8)))
      (Gen.CFun.carquet_bitunpack8_32 (padded w input count) (BitVec.ofNat 32 w) ti) pk
      (BitVec.ofNat 64 (Bitpack.packedSize (count % 8) w)) 0#64).1.toNat = count / 8 * w + tailBytes w count ∧
    (Gen.CFun.carquet_bitunpack_32_loop2 9 input ti (BitVec.ofNat 64 count) (BitVec.ofNat 32 w) values
      (BitVec.ofNat 64 (count / 8 * w)) (BitVec.ofNat 64 (8 * (count / 8)))
      (Gen.CFun.carquet_bitunpack8_32 (padded w input count) (BitVec.ofNat 32 w) ti) pk
      (BitVec.ofNat 64 (Bitpack.packedSize (count % 8) w)) 0#64).2.map BitVec.toNat =
      (values.take (8 * (count / 8))).map BitVec.toNat ++ tailVals w input count ++
        (values.drop count).map BitVec.toNat := by
  have hr8 : count % 8 < 8 := Nat.mod_lt _ (by decide)
  have hgw : count / 8 * w ≤ count / 8 * 32 := Nat.mul_le_mul_left _ hw
  have hps := packedSize_le (count % 8) w hr8 hw
  have htb : tailBytes w count = Bitpack.packedSize (count % 8) w := by rw [tailBytes, if_neg hr]
  rw [htb] at hi
  have hpl := padded_length w input count hw hi
  have hfull := bitunpack8_32_full (padded w input count) ti w hw (by omega) (by omega)
  rw [List.drop_of_length_le (by omega : ti.length ≤ 8), List.map_nil, List.append_nil] at hfull
  have hlen8 : (Gen.CFun.carquet_bitunpack8_32 (padded w input count) (BitVec.ofNat 32 w) ti).length = 8 := by
    have := congrArg List.length hfull
    rwa [List.length_map, Carquet.Proofs.BitpackImpl.unpack8_length hw] at this
  have hl := loop2_eq input ti (BitVec.ofNat 32 w) (BitVec.ofNat 64 (count / 8 * w))
    (BitVec.ofNat 64 (Bitpack.packedSize (count % 8) w))
    (Gen.CFun.carquet_bitunpack8_32 (padded w input count) (BitVec.ofNat 32 w) ti) pk count (8 * (count / 8)) (count % 8)
    (by omega) (by omega) (by omega) (count % 8) 9 0 values (by omega) (by omega) hv
  change Gen.CFun.carquet_bitunpack_32_loop2 9 input ti (BitVec.ofNat 64 count) (BitVec.ofNat 32 w) values
      (BitVec.ofNat 64 (count / 8 * w)) (BitVec.ofNat 64 (8 * (count / 8)))
      (Gen.CFun.carquet_bitunpack8_32 (padded w input count) (BitVec.ofNat 32 w) ti) pk
      (BitVec.ofNat 64 (Bitpack.packedSize (count % 8) w)) (BitVec.ofNat 64 0) = _ at hl
  rw [hl]
  refine ⟨?_, ?_⟩
  · rw [htb, add64, toNat64 _ (by omega)]
  · have e : 8 * (count / 8) + count % 8 = count := by omega
    simp only [Nat.add_zero, List.drop_zero, e, List.map_append, List.map_take, hfull, tailVals, if_neg hr]

/-- no undefined behaviour in the tail block: `memcpy` of `packed_size(count % 8, w) ≤ 32` bytes that lie inside `input`,
a whole group unpacked from the 32-byte local into the 8-entry local, `count % 8` stores inside `values[0 .. count)` -/
theorem tail_defined (input : List UInt8) (values ti : List (BitVec 32)) (w count : Nat) (hw : w ≤ 32)
    (hc : count < 2 ^ 61) (hi : count / 8 * w + tailBytes w count ≤ input.length) (hv : count ≤ values.length)
    (ht : ti.length = 8) (hr : count % 8 ≠ 0) (pk : List UInt8) (tmp : List (BitVec 32)) :
    Bitpack.packedSize (count % 8) w ≤ 32 ∧
    inb input (count / 8 * w) (Bitpack.packedSize (count % 8) w) = true ∧
    Gen.CFun.carquet_bitunpack8_32_defined (padded w input count) (BitVec.ofNat 32 w) ti = true ∧
    Gen.CFun.carquet_bitunpack_32_loop2_defined 9 input ti (BitVec.ofNat 64 count) (BitVec.ofNat 32 w) values
      (BitVec.ofNat 64 (count / 8 * w)) (BitVec.ofNat 64 (8 * (count / 8))) tmp pk
      (BitVec.ofNat 64 (Bitpack.packedSize (count % 8) w)) 0#64 = true := by
  have hr8 : count % 8 < 8 := Nat.mod_lt _ (by decide)
  have hps := packedSize_le (count % 8) w hr8 hw
  have htb : tailBytes w count = Bitpack.packedSize (count % 8) w := by rw [tailBytes, if_neg hr]
  rw [htb] at hi
  have hpl := padded_length w input count hw hi
  refine ⟨by omega, by rw [inb_iff]; omega,
    bitunpack8_32_full_defined (padded w input count) ti w hw (by omega) (by omega), ?_⟩
  exact loop2_defined input ti (BitVec.ofNat 32 w) (BitVec.ofNat 64 (count / 8 * w))
    (BitVec.ofNat 64 (Bitpack.packedSize (count % 8) w)) tmp pk count (8 * (count / 8)) (count % 8)
    (by omega) (by omega) (by omega) (count % 8) 9 0 values (by omega) (by omega) hv

/-! ### loop #1: `for (; i + 8 <= count; i += 8)` and what follows it -/

/-- one group: `values + i` comes back through `splice` -/
theorem group_step (input : List UInt8) (values : List (BitVec 32)) (w g count : Nat) (hw : w ≤ 32)
    (hin : g * w + w ≤ input.length) (hg : 8 * g + 8 ≤ count) (hv : count ≤ values.length) :
    (splice values (8 * g) (Gen.CFun.carquet_bitunpack8_32 (input.drop (g * w)) (BitVec.ofNat 32 w)
      (values.drop (8 * g)))).map BitVec.toNat =
      (values.take (8 * g)).map BitVec.toNat ++ Bitpack.unpack8 w (input.drop (g * w)) ++
        (values.drop (8 * g + 8)).map BitVec.toNat := by
  have h := bitunpack8_32_full (input.drop (g * w)) (values.drop (8 * g)) w hw (by rw [List.length_drop]; omega)
    (by rw [List.length_drop]; omega)
  rw [splice, List.map_append, h, List.drop_drop, List.append_assoc]

theorem loop1_eq (input : List UInt8) (ti : List (BitVec 32)) (w count : Nat) (hw : w ≤ 32) (hc : count < 2 ^ 61)
    (hi : count / 8 * w + tailBytes w count ≤ input.length) (ht : ti.length = 8) :
    ∀ (n fuel g : Nat) (values : List (BitVec 32)), g + n = count / 8 → n < fuel → count ≤ values.length →
    (Gen.CFun.carquet_bitunpack_32_loop1 fuel input ti (BitVec.ofNat 64 count) (BitVec.ofNat 32 w) values
      (BitVec.ofNat 64 (g * w)) (BitVec.ofNat 64 (8 * g))).1.toNat = count / 8 * w + tailBytes w count ∧
    (Gen.CFun.carquet_bitunpack_32_loop1 fuel input ti (BitVec.ofNat 64 count) (BitVec.ofNat 32 w) values
      (BitVec.ofNat 64 (g * w)) (BitVec.ofNat 64 (8 * g))).2.map BitVec.toNat =
      (values.take (8 * g)).map BitVec.toNat ++ Bitpack.unpackGroups w n (input.drop (g * w)) ++
        tailVals w input count ++ (values.drop count).map BitVec.toNat := by
  have hGw : count / 8 * w ≤ count / 8 * 32 := Nat.mul_le_mul_left _ hw
  intro n
  induction n with
  | zero =>
    intro fuel g values hg hf hv
    obtain ⟨f, rfl⟩ : ∃ f, fuel = f + 1 := ⟨fuel - 1, by omega⟩
    obtain rfl : g = count / 8 := by omega
    have hn : ¬ (8 * (count / 8) + 8 ≤ count) := by omega
    have hps := packedSize_le (count % 8) w (Nat.mod_lt _ (by decide)) hw
    rw [Gen.CFun.carquet_bitunpack_32_loop1, add64, le64 _ _ (by omega) (by omega), lt64 _ _ (by omega) (by omega)]
    simp only [hn, decide_false, Bool.false_eq_true, if_false]
    by_cases hr : count % 8 = 0
    · have hn2 : ¬ (8 * (count / 8) < count) := by omega
      simp only [hn2, decide_false, Bool.false_eq_true, if_false, tailBytes, tailVals, hr, if_true,
        Bitpack.unpackGroups, List.append_nil, Nat.add_zero]
      refine ⟨toNat64 _ (by omega), ?_⟩
      have e : 8 * (count / 8) = count := by omega
      rw [e, ← List.map_append, List.take_append_drop]
    · have hy : 8 * (count / 8) < count := by omega
      simp (disch := decide) only [hy, decide_true, if_true, Bitpack.unpackGroups, List.append_nil,
        rem_packed_size w count hw hc, toNat64 (count / 8 * w) (by omega),
        toNat64 (Bitpack.packedSize (count % 8) w) (by omega), copyInto_padded]
      exact tail_eq input values ti w count hw hc hi hv ht hr _
  | succ n ih =>
    intro fuel g values hg hf hv
    obtain ⟨f, rfl⟩ : ∃ f, fuel = f + 1 := ⟨fuel - 1, by omega⟩
    have hgG : (g + 1) * w ≤ count / 8 * w := Nat.mul_le_mul_right _ (by omega)
    have hy : 8 * g + 8 ≤ count := by omega
    have e1 : g * w + w = (g + 1) * w := (Nat.succ_mul g w).symm
    have e2 : 8 * g + 8 = 8 * (g + 1) := by omega
    rw [Gen.CFun.carquet_bitunpack_32_loop1, add64, le64 _ _ (by omega) (by omega)]
    simp only [hy, decide_true, if_true]
    simp only [sext_w w hw, add64, toNat64 (g * w) (by omega), toNat64 (8 * g) (by omega), e1, e2]
    have hs := group_step input values w g count hw (by omega) hy hv
    have hl8 := Carquet.Proofs.BitpackImpl.unpack8_length hw (input.drop (g * w))
    have hlen := congrArg List.length hs
    simp only [List.length_map, List.length_append, List.length_take, List.length_drop, hl8] at hlen
    obtain ⟨r1, r2⟩ := ih f (g + 1) (splice values (8 * g) (Gen.CFun.carquet_bitunpack8_32 (input.drop (g * w))
      (BitVec.ofNat 32 w) (values.drop (8 * g)))) (by omega) (by omega) (by omega)
    refine ⟨r1, ?_⟩
    rw [r2, List.map_take, List.map_drop, hs, ← e2,
      take_app3 _ _ _ _ (by simp only [List.length_map, List.length_take, hl8]; omega),
      drop_app3 _ _ _ _ (by simp only [List.length_map, List.length_take, hl8]; omega)]
    have e3 : count - ((List.map BitVec.toNat (values.take (8 * g))).length +
        (Bitpack.unpack8 w (input.drop (g * w))).length) = count - (8 * g + 8) := by
      simp only [List.length_map, List.length_take, hl8]; omega
    have e4 : 8 * g + 8 + (count - (8 * g + 8)) = count := by omega
    rw [e3, ← List.map_drop, List.drop_drop, e4, Bitpack.unpackGroups, List.drop_drop, ← e1]
    simp only [List.append_assoc]

theorem loop1_defined (input : List UInt8) (ti : List (BitVec 32)) (w count : Nat) (hw : w ≤ 32) (hc : count < 2 ^ 61)
    (hi : count / 8 * w + tailBytes w count ≤ input.length) (ht : ti.length = 8) :
    ∀ (n fuel g : Nat) (values : List (BitVec 32)), g + n = count / 8 → n < fuel → count ≤ values.length →
    Gen.CFun.carquet_bitunpack_32_loop1_defined fuel input ti (BitVec.ofNat 64 count) (BitVec.ofNat 32 w) values
      (BitVec.ofNat 64 (g * w)) (BitVec.ofNat 64 (8 * g)) = true := by
  have hGw : count / 8 * w ≤ count / 8 * 32 := Nat.mul_le_mul_left _ hw
  intro n
  induction n with
  | zero =>
    intro fuel g values hg hf hv
    obtain ⟨f, rfl⟩ : ∃ f, fuel = f + 1 := ⟨fuel - 1, by omega⟩
    obtain rfl : g = count / 8 := by omega
    have hn : ¬ (8 * (count / 8) + 8 ≤ count) := by omega
    have hps := packedSize_le (count % 8) w (Nat.mod_lt _ (by decide)) hw
    rw [Gen.CFun.carquet_bitunpack_32_loop1_defined, add64, le64 _ _ (by omega) (by omega),
      lt64 _ _ (by omega) (by omega)]
    simp only [hn, decide_false, Bool.false_eq_true, if_false]
    by_cases hr : count % 8 = 0
    · have hn2 : ¬ (8 * (count / 8) < count) := by omega
      simp only [hn2, decide_false, Bool.false_eq_true, if_false]
    · have hy : 8 * (count / 8) < count := by omega
      obtain ⟨t1, t2, t3, t4⟩ := tail_defined input values ti w count hw hc hi hv ht hr (padded w input count)
        (Gen.CFun.carquet_bitunpack8_32 (padded w input count) (BitVec.ofNat 32 w) ti)
      simp (disch := decide) only [hy, decide_true, if_true, rem_packed_size w count hw hc,
        toNat64 (count / 8 * w) (by omega), toNat64 (Bitpack.packedSize (count % 8) w) (by omega), copyInto_padded,
        t1, t2, t3, t4, ht, Carquet.Properties.C11.C11_cfun_packed_size_defined, Bool.and_true, BEq.rfl]
  | succ n ih =>
    intro fuel g values hg hf hv
    obtain ⟨f, rfl⟩ : ∃ f, fuel = f + 1 := ⟨fuel - 1, by omega⟩
    have hgG : (g + 1) * w ≤ count / 8 * w := Nat.mul_le_mul_right _ (by omega)
    have hy : 8 * g + 8 ≤ count := by omega
    have e1 : g * w + w = (g + 1) * w := (Nat.succ_mul g w).symm
    have e2 : 8 * g + 8 = 8 * (g + 1) := by omega
    rw [Gen.CFun.carquet_bitunpack_32_loop1_defined, add64, le64 _ _ (by omega) (by omega)]
    simp only [hy, decide_true, if_true]
    simp only [sext_w w hw, add64, toNat64 (g * w) (by omega), toNat64 (8 * g) (by omega), e1, e2]
    have hs := group_step input values w g count hw (by omega) hy hv
    have hl8 := Carquet.Proofs.BitpackImpl.unpack8_length hw (input.drop (g * w))
    have hlen := congrArg List.length hs
    simp only [List.length_map, List.length_append, List.length_take, List.length_drop, hl8] at hlen
    rw [ih f (g + 1) (splice values (8 * g) (Gen.CFun.carquet_bitunpack8_32 (input.drop (g * w))
        (BitVec.ofNat 32 w) (values.drop (8 * g)))) (by omega) (by omega) (by omega),
      bitunpack8_32_full_defined (input.drop (g * w)) (values.drop (8 * g)) w hw (by rw [List.length_drop]; omega)
        (by rw [List.length_drop]; omega)]
    rfl

/-! ### `carquet_bitunpack_32` -/

/-- `memset(values, 0, count * sizeof(uint32_t))` -/
theorem memset_len (count : Nat) (hc : count < 2 ^ 61) :
    (BitVec.ofNat 64 count * 4#64).toNat % 4 = 0 ∧ (BitVec.ofNat 64 count * 4#64).toNat / 4 = count := by
  have e : (BitVec.ofNat 64 count * 4#64).toNat = count * 4 := by
    have h4 : (4#64 : BitVec 64).toNat = 4 := rfl
    rw [BitVec.toNat_mul, toNat64 count (by omega), h4]
    exact Nat.mod_eq_of_lt (by omega)
  rw [e]
  omega

/-- **`carquet_bitunpack_32(input, count, bit_width, values)`** for a width 0..32 and an input that holds the bytes the
function reports as consumed: the return value and the `count` values are those of `Bitpack.unpack`, the rest of `values`
is untouched — whatever the uninitialised local `temp` contained (`temp_indet`) -/
theorem bitunpack_32_full (input : List UInt8) (values temp_indet : List (BitVec 32)) (w count : Nat) (hw : w ≤ 32)
    (hc : count < 2 ^ 61) (hi : (Bitpack.unpack w input count).2 ≤ input.length) (hv : count ≤ values.length)
    (ht : temp_indet.length = 8) :
    ((Gen.CFun.carquet_bitunpack_32 input (BitVec.ofNat 64 count) (BitVec.ofNat 32 w) values temp_indet).1.toNat =
      (Bitpack.unpack w input count).2) ∧
    ((Gen.CFun.carquet_bitunpack_32 input (BitVec.ofNat 64 count) (BitVec.ofNat 32 w) values temp_indet).2.map BitVec.toNat =
      (Bitpack.unpack w input count).1 ++ (values.drop count).map BitVec.toNat) := by
  by_cases h0 : w = 0
  · subst h0
    obtain ⟨_, m2⟩ := memset_len count hc
    have hb : (BitVec.ofNat 32 0 == 0#32) = true := rfl
    simp only [Gen.CFun.carquet_bitunpack_32, hb, if_true, m2, Bitpack.unpack, fill, List.take_zero, List.nil_append,
      Nat.zero_add, List.map_append, List.map_replicate]
    exact ⟨rfl, rfl⟩
  · rw [unpack_split w input count h0] at hi ⊢
    have hb := beq_ofNat_ne w 0 (by omega) (by omega) h0
    have hl := loop1_eq input temp_indet w count hw hc hi ht (count / 8) (count / 8 + 1) 0 values (by omega) (by omega) hv
    simp only [Nat.zero_mul, Nat.mul_zero, List.take_zero, List.map_nil, List.nil_append, List.drop_zero] at hl
    change (BitVec.ofNat 32 w == 0#32) = false at hb
    simp only [Gen.CFun.carquet_bitunpack_32, hb, Bool.false_eq_true, if_false, toNat64 count (by omega)]
    exact hl

/-- … and it reaches no undefined behaviour: every read of `input` lies inside `input[0 .. bytes_consumed)` (the tail group
reads `packed_size(count % 8, w)` bytes of it, through the padded local), every write inside `values[0 .. count)`, the
locals `packed[32]` / `temp[8]` are not overrun, `size_t` arithmetic does not matter, the loop fuels are not exhausted -/
theorem bitunpack_32_full_defined (input : List UInt8) (values temp_indet : List (BitVec 32)) (w count : Nat)
    (hw : w ≤ 32) (hc : count < 2 ^ 61) (hi : (Bitpack.unpack w input count).2 ≤ input.length)
    (hv : count ≤ values.length) (ht : temp_indet.length = 8) :
    Gen.CFun.carquet_bitunpack_32_defined input (BitVec.ofNat 64 count) (BitVec.ofNat 32 w) values temp_indet = true := by
  by_cases h0 : w = 0
  · subst h0
    obtain ⟨m1, m2⟩ := memset_len count hc
    have hb : (BitVec.ofNat 32 0 == 0#32) = true := rfl
    have hin : inb values 0 count = true := by rw [inb_iff]; omega
    simp only [Gen.CFun.carquet_bitunpack_32_defined, hb, if_true, m1, m2, hin, BEq.rfl, Bool.and_true]
  · rw [unpack_split w input count h0] at hi
    have hb := beq_ofNat_ne w 0 (by omega) (by omega) h0
    have hl := loop1_defined input temp_indet w count hw hc hi ht (count / 8) (count / 8 + 1) 0 values (by omega)
      (by omega) hv
    simp only [Nat.zero_mul, Nat.mul_zero] at hl
    change (BitVec.ofNat 32 w == 0#32) = false at hb
    simp only [Gen.CFun.carquet_bitunpack_32_defined, hb, Bool.false_eq_true, if_false, toNat64 count (by omega)]
    exact hl

end Carquet.Proofs.CFun3.Bitunpack32
