import Carquet.Impl.CFun3.BitReader
import Carquet.Proofs.BitIO
/-
Stage-3 link: the bit reader of src/core/bitpack.c as translated in Gen/CFun.lean (`carquet_bit_reader_init`,
`refill_buffer` + `refill_buffer_loop1`, `carquet_bit_reader_read_bit / _read_bits / _read_bits64 / _has_more /
_remaining_bits`) against `Impl.BitIO` through `Impl.CFun3.rdAbs / rdInv`.

  * `rdInv_iff`        `rdInv s data` = `data` field 0, `size` = length, and the model invariant `RInv (rdAbs s data)`, so
                       preservation of the invariant is inherited from Proofs/BitIO.lean once the states agree;
  * `refillLoop_fuel`  the model loop gives the same result for every fuel that covers `56 < buffer_bits` (8 in the
                       model, 9 condition tests in the generated loop);
  * `loop1_eq / loop1_defined`  the generated loop and `refillLoop` unroll in lockstep (any fuel); no out-of-bounds
                       read, shift count `0..56`, no overflow of `buffer_bits + 8`, one spare condition test;
  * `read_bit_tail / read_bits_tail`  the straight-line part after the conditional refill (take `k ≤ buffer_bits` bits);
  * `…_eq`             per function: value, state, invariant, `bit_pos` untouched, `_defined`.
Signed `int` facts are turned into `toNat` facts on values `< 2^31` (`slt_small`, `sle_small`, `sel_min`).  The generated
`_vN` helpers are never named: they are unfolded by definitional unification against the `…_tail` lemmas.
-/
namespace Carquet.Proofs.CFun3.BitReader
open Carquet Carquet.Impl Carquet.Impl.CSem Carquet.Impl.CFun3 Carquet.Impl.BitIO Carquet.Proofs.BitIO

/-! ### the invariant -/

theorem shr_eq_zero_iff (x k : Nat) : x >>> k = 0 ↔ x < 2 ^ k := by
  rw [Nat.shiftRight_eq_div_pow, Nat.div_eq_zero_iff]
  have := Nat.two_pow_pos k
  omega

/-- `rdInv` is the model invariant `RInv` of the abstraction, plus the two fields the model does not carry -/
theorem rdInv_iff (s : Gen.CFun.carquet_bit_reader_t) (data : List UInt8) :
    rdInv s data = true ↔ s.data = 0 ∧ s.size.toNat = data.length ∧ RInv (rdAbs s data) := by
  simp only [rdInv, rdAbs, Bool.and_eq_true, beq_iff_eq, decide_eq_true_eq, shr_eq_zero_iff]
  constructor
  · rintro ⟨⟨⟨⟨h1, h2⟩, h3⟩, h4⟩, h5⟩
    exact ⟨h1, h2, ⟨by simpa [h2] using h3, h4, h5⟩⟩
  · rintro ⟨h1, h2, ⟨h3, h4, h5⟩⟩
    exact ⟨⟨⟨⟨h1, h2⟩, by simpa [h2] using h3⟩, h4⟩, h5⟩

/-! ### `int buffer_bits` in `0..64` -/

theorem toInt_of_le64 (b : BitVec 32) (h : b.toNat ≤ 64) : b.toInt = (b.toNat : Int) := by
  rw [BitVec.toInt_eq_toNat_cond]; split <;> omega

theorem msb_of_le64 (b : BitVec 32) (h : b.toNat ≤ 64) : b.msb = false := by
  rw [BitVec.msb_eq_decide]; simp; omega

theorem toNat_of_toInt_nonneg (n : BitVec 32) (h : 0 ≤ n.toInt) : n.toInt = (n.toNat : Int) ∧ n.toNat < 2 ^ 31 := by
  rw [BitVec.toInt_eq_toNat_cond] at h ⊢
  split at h <;> split <;> omega

/-! ### `refill_buffer` -/

/-- the model loop has stopped once the fuel covers `56 < buffer_bits`: any larger fuel gives the same result (the
model runs with fuel 8, the generated loop with 9 condition tests) -/
theorem refillLoop_fuel : ∀ (f g : Nat) (r : Reader), 56 < r.bufferBits + 8 * f → f ≤ g →
    refillLoop g r = refillLoop f r := by
  intro f
  induction f with
  | zero =>
    intro g r h _
    cases g with
    | zero => rfl
    | succ g =>
      have : ¬ (r.bufferBits ≤ 56 ∧ r.bytePos < r.data.length) := by omega
      simp only [refillLoop, this, if_false]
  | succ f ih =>
    intro g r h hg
    cases g with
    | zero => omega
    | succ g =>
      simp only [refillLoop]
      split
      · rw [ih g (refillStep r) (by simp only [refillStep]; omega) (by omega)]
      · rfl

/-- the loop condition `buffer_bits <= 56 && byte_pos < size` -/
theorem loop_cond (data : List UInt8) (size bp : BitVec 64) (bits : BitVec 32)
    (hs : size.toNat = data.length) (hb : bits.toNat ≤ 64) :
    (BitVec.sle bits 56#32 && decide (bp < size)) = decide (bits.toNat ≤ 56 ∧ bp.toNat < data.length) := by
  have h56 : (56#32).toInt = 56 := by decide
  rw [Bool.eq_iff_iff]
  simp only [BitVec.sle_eq_decide, toInt_of_le64 bits hb, BitVec.lt_def, hs, h56, Bool.and_eq_true, decide_eq_true_eq]
  omega

/-- `buffer |= (uint64_t)data[byte_pos] << buffer_bits` -/
theorem step_buf (data : List UInt8) (i k : Nat) (buf : BitVec 64) :
    (buf ||| (BitVec.setWidth 64 (rd8 data i) <<< k)).toNat = (buf.toNat ||| (data.getD i 0).toNat <<< k) % 2 ^ 64 := by
  have hb : (data.getD i 0).toNat < 2 ^ 64 := Nat.lt_of_lt_of_le (data.getD i 0).toNat_lt (by decide)
  rw [BitVec.toNat_or, BitVec.toNat_shiftLeft, BitVec.toNat_setWidth, rd8, UInt8.toNat_toBitVec,
    Nat.mod_eq_of_lt hb, Nat.or_mod_two_pow, Nat.mod_eq_of_lt buf.isLt]

/-- the generated loop and the model loop unroll in lockstep (same fuel) -/
theorem loop1_eq : ∀ (f : Nat) (data : List UInt8) (size bp : BitVec 64) (bitpos : BitVec 32) (buf : BitVec 64)
    (bits : BitVec 32), size.toNat = data.length → bp.toNat ≤ data.length → bits.toNat ≤ 64 →
    rdAbs (Gen.CFun.refill_buffer_loop1 f data 0 size bp bitpos buf bits) data =
      (refillLoop f ⟨data, bp.toNat, buf.toNat, bits.toNat⟩).1 ∧
    (Gen.CFun.refill_buffer_loop1 f data 0 size bp bitpos buf bits).data = 0 ∧
    (Gen.CFun.refill_buffer_loop1 f data 0 size bp bitpos buf bits).size = size ∧
    (Gen.CFun.refill_buffer_loop1 f data 0 size bp bitpos buf bits).bit_pos = bitpos := by
  intro f
  induction f with
  | zero => intros; simp [Gen.CFun.refill_buffer_loop1, refillLoop, rdAbs]
  | succ f ih =>
    intro data size bp bitpos buf bits hs hp hb
    have hlen : data.length < 2 ^ 64 := by rw [← hs]; exact size.isLt
    simp only [Gen.CFun.refill_buffer_loop1, refillLoop, loop_cond data size bp bits hs hb]
    by_cases hc : bits.toNat ≤ 56 ∧ bp.toNat < data.length
    · have e1 : (bp + 1#64).toNat = bp.toNat + 1 := by
        rw [BitVec.toNat_add]; simp only [BitVec.toNat_ofNat]; omega
      have e2 : (bits + 8#32).toNat = bits.toNat + 8 := by
        rw [BitVec.toNat_add]; simp only [BitVec.toNat_ofNat]; omega
      simp only [hc, and_self, decide_true, if_true]
      have key := fun b => ih data size (bp + 1#64) bitpos b (bits + 8#32) hs (by omega) (by omega)
      simp only [e1, e2] at key
      refine ⟨?_, (key _).2⟩
      rw [(key _).1]
      simp [refillStep, step_buf, -BitVec.toNat_or]
    · simp only [hc, decide_false, if_false, rdAbs, Bool.false_eq_true]
      exact ⟨trivial, trivial, trivial, trivial⟩

/-- no undefined behaviour in the loop: every `data[byte_pos]` is inside the buffer, the shift count is `0..56`, and
one more condition test than the number of iterations is available -/
theorem loop1_defined : ∀ (f : Nat) (data : List UInt8) (size bp : BitVec 64) (bitpos : BitVec 32) (buf : BitVec 64)
    (bits : BitVec 32), size.toNat = data.length → bp.toNat ≤ data.length → bits.toNat ≤ 64 →
    56 < bits.toNat + 8 * f →
    Gen.CFun.refill_buffer_loop1_defined (f + 1) data 0 size bp bitpos buf bits = true := by
  intro f
  induction f with
  | zero =>
    intro data size bp bitpos buf bits hs hp hb hf
    have hc : ¬ (bits.toNat ≤ 56 ∧ bp.toNat < data.length) := by omega
    simp [Gen.CFun.refill_buffer_loop1_defined, loop_cond data size bp bits hs hb, hc]
  | succ f ih =>
    intro data size bp bitpos buf bits hs hp hb hf
    have hlen : data.length < 2 ^ 64 := by rw [← hs]; exact size.isLt
    rw [Gen.CFun.refill_buffer_loop1_defined]
    simp only [loop_cond data size bp bits hs hb]
    by_cases hc : bits.toNat ≤ 56 ∧ bp.toNat < data.length
    · have e1 : (bp + 1#64).toNat = bp.toNat + 1 := by
        rw [BitVec.toNat_add]; simp only [BitVec.toNat_ofNat]; omega
      have e2 : (bits + 8#32).toNat = bits.toNat + 8 := by
        rw [BitVec.toNat_add]; simp only [BitVec.toNat_ofNat]; omega
      have h1 : inb data (0 + bp.toNat) 1 = true := by simp [inb]; omega
      have h2 : shCountOk true 64 bits = true := by
        simp only [shCountOk, msb_of_le64 bits hb]; simp; omega
      have h3 : sAddOk bits 8#32 = true := by
        have h8 : (8#32).toInt = 8 := by decide
        simp only [sAddOk, BitVec.saddOverflow, toInt_of_le64 bits hb, h8]
        simp; omega
      have h4 := fun b => ih data size (bp + 1#64) bitpos b (bits + 8#32) hs (by omega) (by omega) (by omega)
      simp only [hc, and_self, decide_true, if_true, h1, h2, h3, h4, Bool.and_self]
    · simp only [hc, decide_false, if_false, Bool.false_eq_true]

/-- **`refill_buffer`** is the model's `refill` on the abstraction; the invariant is kept, the other fields untouched -/
theorem refill_buffer_eq (s : Gen.CFun.carquet_bit_reader_t) (data : List UInt8) (h : rdInv s data = true) :
    rdAbs (Gen.CFun.refill_buffer s data) data = (refill (rdAbs s data)).1 ∧
    rdInv (Gen.CFun.refill_buffer s data) data = true ∧
    (Gen.CFun.refill_buffer s data).data = s.data ∧ (Gen.CFun.refill_buffer s data).size = s.size ∧
    (Gen.CFun.refill_buffer s data).bit_pos = s.bit_pos := by
  obtain ⟨hd, hs, hi⟩ := (rdInv_iff s data).mp h
  have hp : s.byte_pos.toNat ≤ data.length := hi.pos
  have hb : s.buffer_bits.toNat ≤ 64 := hi.bits
  obtain ⟨a, b, c, d⟩ := loop1_eq 9 data s.size s.byte_pos s.bit_pos s.buffer s.buffer_bits hs hp hb
  have hfuel : refillLoop 9 (rdAbs s data) = refill (rdAbs s data) :=
    refillLoop_fuel 8 9 (rdAbs s data) (by omega) (by omega)
  have habs : rdAbs (Gen.CFun.refill_buffer s data) data = (refill (rdAbs s data)).1 := by
    rw [← hfuel]; simp only [Gen.CFun.refill_buffer, hd]; exact a
  have hdata : (Gen.CFun.refill_buffer s data).data = 0 := by simpa only [Gen.CFun.refill_buffer, hd] using b
  have hsize : (Gen.CFun.refill_buffer s data).size = s.size := by simpa only [Gen.CFun.refill_buffer, hd] using c
  refine ⟨habs, ?_, by rw [hdata, hd], hsize, by simpa only [Gen.CFun.refill_buffer, hd] using d⟩
  rw [rdInv_iff]
  exact ⟨hdata, by rw [hsize, hs], by rw [habs]; exact (refill_spec _ hi).1.inv⟩

theorem refill_buffer_defined (s : Gen.CFun.carquet_bit_reader_t) (data : List UInt8) (h : rdInv s data = true) :
    Gen.CFun.refill_buffer_defined s data = true := by
  obtain ⟨hd, hs, hi⟩ := (rdInv_iff s data).mp h
  have := loop1_defined 8 data s.size s.byte_pos s.bit_pos s.buffer s.buffer_bits hs hi.pos hi.bits (by omega)
  simpa only [Gen.CFun.refill_buffer_defined, hd] using this

/-! ### taking `k ≤ buffer_bits` bits out of the accumulator -/

theorem take_abs (s : Gen.CFun.carquet_bit_reader_t) (data : List UInt8) (k : BitVec 32) (j : Nat) (hj : j = k.toNat)
    (hk : k.toNat ≤ s.buffer_bits.toNat) :
    rdAbs { s with buffer := s.buffer >>> j, buffer_bits := s.buffer_bits - k } data =
      { rdAbs s data with buffer := (rdAbs s data).buffer >>> k.toNat,
                          bufferBits := (rdAbs s data).bufferBits - k.toNat } := by
  subst hj
  simp only [rdAbs, BitVec.toNat_ushiftRight, BitVec.toNat_sub_of_le (BitVec.le_def.mpr hk)]

theorem take_inv (s : Gen.CFun.carquet_bit_reader_t) (data : List UInt8) (k : BitVec 32) (j : Nat) (hj : j = k.toNat)
    (hk : k.toNat ≤ s.buffer_bits.toNat) (h : rdInv s data = true) :
    rdInv { s with buffer := s.buffer >>> j, buffer_bits := s.buffer_bits - k } data = true := by
  obtain ⟨hd, hs, hi⟩ := (rdInv_iff s data).mp h
  rw [rdInv_iff, take_abs s data k j hj hk]
  exact ⟨hd, hs, (take_bits (rdAbs s data) hi k.toNat hk).2.1⟩

/-! ### `carquet_bit_reader_read_bit` -/

/-- `int bit = reader->buffer & 1` -/
theorem bit_val (b : BitVec 64) : (BitVec.setWidth 32 (b &&& 1#64)).toInt = ((b.toNat &&& 1 : Nat) : Int) := by
  have h1 : b.toNat &&& 1 ≤ 1 := Nat.and_le_right
  have h2 : (BitVec.setWidth 32 (b &&& 1#64)).toNat = b.toNat &&& 1 := by
    rw [BitVec.toNat_setWidth, BitVec.toNat_and]
    show (b.toNat &&& 1) % 2 ^ 32 = _
    omega
  rw [BitVec.toInt_eq_toNat_cond, h2]
  split <;> omega

theorem bits_eq_zero_iff (b : BitVec 32) : (b == 0#32) = decide (b.toNat = 0) := by
  rw [Bool.eq_iff_iff]
  simp only [beq_iff_eq, decide_eq_true_eq]
  exact ⟨fun e => by rw [e]; rfl, fun e => BitVec.eq_of_toNat_eq (by simpa using e)⟩

/-- the part of `read_bit` after the conditional refill, on a state `s1` that satisfies the invariant -/
theorem read_bit_tail (s1 : Gen.CFun.carquet_bit_reader_t) (data : List UInt8) (h : rdInv s1 data = true)
    (hne : s1.buffer_bits.toNat ≠ 0) :
    (BitVec.setWidth 32 (s1.buffer &&& 1#64)).toInt = (((rdAbs s1 data).buffer &&& 1 : Nat) : Int) ∧
    rdAbs { s1 with buffer := s1.buffer >>> 1, buffer_bits := s1.buffer_bits - 1#32 } data =
      { rdAbs s1 data with buffer := (rdAbs s1 data).buffer >>> 1, bufferBits := (rdAbs s1 data).bufferBits - 1 } ∧
    rdInv { s1 with buffer := s1.buffer >>> 1, buffer_bits := s1.buffer_bits - 1#32 } data = true ∧
    sSubOk s1.buffer_bits 1#32 = true := by
  obtain ⟨_, _, hi⟩ := (rdInv_iff s1 data).mp h
  have hb : s1.buffer_bits.toNat ≤ 64 := hi.bits
  have h1 : (1#32).toNat ≤ s1.buffer_bits.toNat := by show 1 ≤ _; omega
  refine ⟨bit_val _, take_abs s1 data 1#32 1 rfl h1, take_inv s1 data 1#32 1 rfl h1 h, ?_⟩
  have e1 : (1#32).toInt = 1 := by decide
  simp only [sSubOk, BitVec.ssubOverflow, toInt_of_le64 _ hb, e1]
  simp; omega

theorem read_bit_eq (s : Gen.CFun.carquet_bit_reader_t) (data : List UInt8) (h : rdInv s data = true) :
    (Gen.CFun.carquet_bit_reader_read_bit s data).1.toInt = (readBit (rdAbs s data)).1 ∧
    rdAbs (Gen.CFun.carquet_bit_reader_read_bit s data).2 data = (readBit (rdAbs s data)).2.1 ∧
    rdInv (Gen.CFun.carquet_bit_reader_read_bit s data).2 data = true ∧
    (Gen.CFun.carquet_bit_reader_read_bit s data).2.bit_pos = s.bit_pos ∧
    Gen.CFun.carquet_bit_reader_read_bit_defined s data = true := by
  obtain ⟨r1, r2, _, _, r5⟩ := refill_buffer_eq s data h
  have hm1 : (4294967295#32).toInt = -1 := by decide
  simp only [Gen.CFun.carquet_bit_reader_read_bit, Gen.CFun.carquet_bit_reader_read_bit_defined, readBit,
    refillIfEmpty, bits_eq_zero_iff, refill_buffer_defined s data h, Bool.true_and]
  by_cases h0 : (rdAbs s data).bufferBits = 0
  · have h0' : s.buffer_bits.toNat = 0 := h0
    simp only [h0, h0', decide_true, if_true]
    by_cases h1 : (refill (rdAbs s data)).1.bufferBits = 0
    · have h1' : (Gen.CFun.refill_buffer s data).buffer_bits.toNat = 0 := by rw [← r1] at h1; exact h1
      simp only [h1, h1', decide_true, if_true]
      exact ⟨hm1, r1, r2, r5, trivial⟩
    · have h1' : (Gen.CFun.refill_buffer s data).buffer_bits.toNat ≠ 0 := by rw [← r1] at h1; exact h1
      simp only [h1, h1', decide_false, if_false, Bool.false_eq_true]
      obtain ⟨t1, t2, t3, t4⟩ := read_bit_tail _ data r2 h1'
      rw [r1] at t1 t2
      exact ⟨t1, t2, t3, r5, t4⟩
  · have h0' : s.buffer_bits.toNat ≠ 0 := h0
    simp only [h0, h0', decide_false, if_false, Bool.false_eq_true]
    obtain ⟨t1, t2, t3, t4⟩ := read_bit_tail _ data h h0'
    exact ⟨t1, t2, t3, trivial, t4⟩

/-! ### `carquet_bit_reader_read_bits` -/

theorem toInt_small (a : BitVec 32) (h : a.toNat < 2 ^ 31) : a.toInt = (a.toNat : Int) := by
  rw [BitVec.toInt_eq_toNat_cond]; split <;> omega

theorem slt_small (a b : BitVec 32) (ha : a.toNat < 2 ^ 31) (hb : b.toNat < 2 ^ 31) :
    BitVec.slt a b = decide (a.toNat < b.toNat) := by
  rw [BitVec.slt_eq_decide, toInt_small a ha, toInt_small b hb]; simp

theorem sle_small (a b : BitVec 32) (ha : a.toNat < 2 ^ 31) (hb : b.toNat < 2 ^ 31) :
    BitVec.sle a b = decide (a.toNat ≤ b.toNat) := by
  rw [BitVec.sle_eq_decide, toInt_small a ha, toInt_small b hb]; simp

/-- `if (b > a) b = a` on non-negative `int`s: the minimum -/
theorem sel_min (a b : BitVec 32) (ha : a.toNat < 2 ^ 31) (hb : b.toNat < 2 ^ 31) :
    (if BitVec.slt a b then a else b).toNat = min b.toNat a.toNat := by
  rw [slt_small a b ha hb]
  by_cases h : a.toNat < b.toNat
  · simp only [h, decide_true, if_true]; omega
  · simp only [h, decide_false, if_false, Bool.false_eq_true]; omega

/-- `(uint32_t)(buffer & ((1ULL << k) - 1))` for `k < 64` -/
theorem mask_val (b : BitVec 64) (k : Nat) (hk : k < 64) :
    (BitVec.setWidth 32 (b &&& ((1#64 <<< k) - 1#64))).toNat = (b.toNat &&& ((1 <<< k) - 1)) % 2 ^ 32 := by
  have h1 : (1 : Nat) <<< k = 2 ^ k := by rw [Nat.shiftLeft_eq, Nat.one_mul]
  have h2 : (2 : Nat) ^ k < 2 ^ 64 := Nat.pow_lt_pow_right (by decide) hk
  have h3 := Nat.two_pow_pos k
  have hm : ((1#64 <<< k) - 1#64).toNat = (1 <<< k) - 1 := by
    simp only [BitVec.toNat_sub, BitVec.toNat_shiftLeft, BitVec.toNat_ofNat, h1]
    omega
  rw [BitVec.toNat_setWidth, BitVec.toNat_and, hm]

/-- the part of `read_bits` after the conditional refill, on a state `s1` that satisfies the invariant: `k` bits are
taken, `k = min(num_bits, buffer_bits)` -/
theorem read_bits_tail (s1 : Gen.CFun.carquet_bit_reader_t) (data : List UInt8) (h : rdInv s1 data = true)
    (m : Nat) (k : BitVec 32) (hm : m ≤ 32) (hk : k.toNat = min m s1.buffer_bits.toNat) :
    (BitVec.setWidth 32 (s1.buffer &&& ((1#64 <<< k.toNat) - 1#64))).toNat =
      ((rdAbs s1 data).buffer &&& ((1 <<< min m (rdAbs s1 data).bufferBits) - 1)) % 2 ^ 32 ∧
    rdAbs { s1 with buffer := s1.buffer >>> k.toNat, buffer_bits := s1.buffer_bits - k } data =
      ⟨(rdAbs s1 data).data, (rdAbs s1 data).bytePos, (rdAbs s1 data).buffer >>> min m (rdAbs s1 data).bufferBits,
       (rdAbs s1 data).bufferBits - min m (rdAbs s1 data).bufferBits⟩ ∧
    rdInv { s1 with buffer := s1.buffer >>> k.toNat, buffer_bits := s1.buffer_bits - k } data = true ∧
    shCountOk true 64 k = true ∧ sSubOk s1.buffer_bits k = true := by
  obtain ⟨_, _, hi⟩ := (rdInv_iff s1 data).mp h
  have hb : s1.buffer_bits.toNat ≤ 64 := hi.bits
  have hbb : (rdAbs s1 data).bufferBits = s1.buffer_bits.toNat := rfl
  have hle : k.toNat ≤ s1.buffer_bits.toNat := by omega
  have hk32 : k.toNat ≤ 32 := by omega
  rw [hbb, ← hk]
  refine ⟨mask_val _ _ (by omega), take_abs s1 data k _ rfl hle, take_inv s1 data k _ rfl hle h, ?_, ?_⟩
  · have : k.msb = false := by rw [BitVec.msb_eq_decide]; simp; omega
    simp only [shCountOk, this]; simp; omega
  · simp only [sSubOk, BitVec.ssubOverflow, toInt_of_le64 _ hb, toInt_small k (by omega)]
    simp; omega

theorem read_bits_eq (s : Gen.CFun.carquet_bit_reader_t) (data : List UInt8) (n : BitVec 32)
    (h : rdInv s data = true) (hn : 0 ≤ n.toInt) :
    (Gen.CFun.carquet_bit_reader_read_bits s data n).1.toNat = (readBits (rdAbs s data) n.toNat).1 ∧
    rdAbs (Gen.CFun.carquet_bit_reader_read_bits s data n).2 data = (readBits (rdAbs s data) n.toNat).2.1 ∧
    rdInv (Gen.CFun.carquet_bit_reader_read_bits s data n).2 data = true ∧
    (Gen.CFun.carquet_bit_reader_read_bits s data n).2.bit_pos = s.bit_pos ∧
    Gen.CFun.carquet_bit_reader_read_bits_defined s data n = true := by
  obtain ⟨r1, r2, _, _, r5⟩ := refill_buffer_eq s data h
  obtain ⟨_, _, hi⟩ := (rdInv_iff s data).mp h
  obtain ⟨_, _, hi1⟩ := (rdInv_iff _ data).mp r2
  have hb : s.buffer_bits.toNat ≤ 64 := hi.bits
  have hb1 : (Gen.CFun.refill_buffer s data).buffer_bits.toNat ≤ 64 := hi1.bits
  have hn31 : n.toNat < 2 ^ 31 := (toNat_of_toInt_nonneg n hn).2
  have hm : (if BitVec.slt 32#32 n then 32#32 else n).toNat = min n.toNat 32 := sel_min 32#32 n (by decide) hn31
  have hm32 : min n.toNat 32 ≤ 32 := Nat.min_le_right _ _
  simp only [Gen.CFun.carquet_bit_reader_read_bits, Gen.CFun.carquet_bit_reader_read_bits_defined, bits_eq_zero_iff,
    readBits]
  by_cases hz : n.toNat = 0
  · simp only [hz, decide_true, if_true]
    refine ⟨?_, ?_, ?_, ?_, ?_⟩ <;> first | rfl | trivial | exact h
  · rw [slt_small _ _ (by omega) (by omega), hm]
    simp only [hz, decide_false, if_false, Bool.false_eq_true, readBitsCore, refillIfShort]
    by_cases hlt : s.buffer_bits.toNat < min n.toNat 32
    · have hlt' : (rdAbs s data).bufferBits < min n.toNat 32 := hlt
      simp only [hlt, hlt', decide_true, if_true, refill_buffer_defined s data h, Bool.true_and]
      rw [← r1]
      obtain ⟨t1, t2, t3, t4, t5⟩ := read_bits_tail (Gen.CFun.refill_buffer s data) data r2 (min n.toNat 32) _ hm32
        (by rw [← hm]; exact sel_min _ _ (by omega) (by omega))
      refine ⟨t1, t2, t3, r5, ?_⟩
      simp only [Bool.and_eq_true]
      repeat' constructor
      all_goals first | exact t4 | exact t5
    · have hlt' : ¬ (rdAbs s data).bufferBits < min n.toNat 32 := hlt
      simp only [hlt, hlt', decide_false, if_false, Bool.false_eq_true]
      obtain ⟨t1, t2, t3, t4, t5⟩ := read_bits_tail s data h (min n.toNat 32)
        (if BitVec.slt 32#32 n then 32#32 else n) hm32 (by rw [hm]; omega)
      refine ⟨t1, t2, t3, by first | rfl | trivial, ?_⟩
      simp only [Bool.and_eq_true]
      repeat' constructor
      all_goals first | exact t4 | exact t5

/-! ### `carquet_bit_reader_read_bits64` -/

theorem widen_val (v : BitVec 32) : (BitVec.setWidth 64 v).toNat = v.toNat := by
  rw [BitVec.toNat_setWidth]; exact Nat.mod_eq_of_lt (Nat.lt_of_lt_of_le v.isLt (by decide))

/-- `low | (high << 32)` -/
theorem lowhigh_val (lo hi : BitVec 32) :
    (BitVec.setWidth 64 lo ||| (BitVec.setWidth 64 hi <<< 32)).toNat = (lo.toNat ||| hi.toNat <<< 32) % 2 ^ 64 := by
  rw [BitVec.toNat_or, BitVec.toNat_shiftLeft, widen_val, widen_val, Nat.or_mod_two_pow,
    Nat.mod_eq_of_lt (Nat.lt_of_lt_of_le lo.isLt (by decide : 2 ^ 32 ≤ 2 ^ 64))]

theorem read_bits64_eq (s : Gen.CFun.carquet_bit_reader_t) (data : List UInt8) (n : BitVec 32)
    (h : rdInv s data = true) (hn : 0 ≤ n.toInt) :
    (Gen.CFun.carquet_bit_reader_read_bits64 s data n).1.toNat = (readBits64 (rdAbs s data) n.toNat).1 ∧
    rdAbs (Gen.CFun.carquet_bit_reader_read_bits64 s data n).2 data = (readBits64 (rdAbs s data) n.toNat).2.1 ∧
    rdInv (Gen.CFun.carquet_bit_reader_read_bits64 s data n).2 data = true ∧
    (Gen.CFun.carquet_bit_reader_read_bits64 s data n).2.bit_pos = s.bit_pos ∧
    Gen.CFun.carquet_bit_reader_read_bits64_defined s data n = true := by
  have hn31 : n.toNat < 2 ^ 31 := (toNat_of_toInt_nonneg n hn).2
  have hm : (if BitVec.slt 64#32 n then 64#32 else n).toNat = min n.toNat 64 := sel_min 64#32 n (by decide) hn31
  have hmi : 0 ≤ (if BitVec.slt 64#32 n then 64#32 else n).toInt := by
    rw [toInt_small _ (by omega)]; omega
  have e32 : (32#32).toNat = 32 := rfl
  simp only [Gen.CFun.carquet_bit_reader_read_bits64, Gen.CFun.carquet_bit_reader_read_bits64_defined,
    bits_eq_zero_iff, readBits64]
  by_cases hz : n.toNat = 0
  · simp only [hz, decide_true, if_true]
    refine ⟨?_, ?_, ?_, ?_, ?_⟩ <;> first | rfl | trivial | exact h
  · rw [sle_small _ _ (by omega) (by decide), hm, e32]
    by_cases hle : min n.toNat 64 ≤ 32
    · simp only [hz, hle, decide_true, decide_false, if_true, if_false, Bool.false_eq_true]
      obtain ⟨a1, a2, a3, a4, a5⟩ := read_bits_eq s data _ h hmi
      rw [hm] at a1 a2
      rcases hR : Gen.CFun.carquet_bit_reader_read_bits s data (if BitVec.slt 64#32 n then 64#32 else n) with ⟨v, s1⟩
      rw [hR] at a1 a2 a3 a4
      exact ⟨by rw [← a1]; exact widen_val v, a2, a3, a4, a5⟩
    · simp only [hz, hle, decide_false, if_false, Bool.false_eq_true]
      obtain ⟨b1, b2, b3, b4, b5⟩ := read_bits_eq s data 32#32 h (by decide)
      rw [e32] at b1 b2
      rcases hR2 : Gen.CFun.carquet_bit_reader_read_bits s data 32#32 with ⟨v2, s2⟩
      rw [hR2] at b1 b2 b3 b4
      have hk : ((if BitVec.slt 64#32 n then 64#32 else n) - 32#32).toNat = min n.toNat 64 - 32 := by
        rw [BitVec.toNat_sub_of_le (BitVec.le_def.mpr (by rw [hm, e32]; omega)), hm, e32]
      obtain ⟨c1, c2, c3, c4, c5⟩ := read_bits_eq s2 data ((if BitVec.slt 64#32 n then 64#32 else n) - 32#32) b3
        (by rw [toInt_small _ (by omega)]; omega)
      rw [hk] at c1 c2
      rcases hR3 : Gen.CFun.carquet_bit_reader_read_bits s2 data ((if BitVec.slt 64#32 n then 64#32 else n) - 32#32)
        with ⟨v3, s3⟩
      rw [hR3] at c1 c2 c3 c4
      have hsub : sSubOk (if BitVec.slt 64#32 n then 64#32 else n) 32#32 = true := by
        have e : (32#32).toInt = 32 := by decide
        simp only [sSubOk, BitVec.ssubOverflow, toInt_small _ (show (if BitVec.slt 64#32 n then 64#32 else n).toNat < 2 ^ 31 by omega), e]
        simp; omega
      simp only [b5, c5, hsub, Bool.and_self]
      rw [← b2, ← b1, ← c1, ← c2]
      exact ⟨lowhigh_val v2 v3, by first | rfl | trivial, c3, by rw [c4, b4], by first | rfl | trivial⟩

/-! ### `carquet_bit_reader_has_more`, `carquet_bit_reader_remaining_bits` -/

theorem has_more_eq (s : Gen.CFun.carquet_bit_reader_t) (data : List UInt8) (h : rdInv s data = true) :
    Gen.CFun.carquet_bit_reader_has_more s = hasMore (rdAbs s data) := by
  obtain ⟨_, hs, hi⟩ := (rdInv_iff s data).mp h
  have hb : s.buffer_bits.toNat ≤ 64 := hi.bits
  have e0 : (0#32).toNat = 0 := rfl
  have hm : hasMore (rdAbs s data) = (decide (0 < s.buffer_bits.toNat) || decide (s.byte_pos.toNat < data.length)) := rfl
  rw [hm, Bool.eq_iff_iff]
  simp only [Gen.CFun.carquet_bit_reader_has_more,
    slt_small 0#32 _ (by decide) (show s.buffer_bits.toNat < 2 ^ 31 by omega), BitVec.lt_def, hs, e0,
    Bool.or_eq_true, decide_eq_true_eq]

theorem remaining_bits_eq (s : Gen.CFun.carquet_bit_reader_t) (data : List UInt8) (h : rdInv s data = true) :
    (Gen.CFun.carquet_bit_reader_remaining_bits s).toNat = remainingBits (rdAbs s data) := by
  obtain ⟨_, hs, hi⟩ := (rdInv_iff s data).mp h
  have hb : s.buffer_bits.toNat ≤ 64 := hi.bits
  have hp : s.byte_pos.toNat ≤ s.size.toNat := by rw [hs]; exact hi.pos
  have h1 : (BitVec.signExtend 64 s.buffer_bits).toNat = s.buffer_bits.toNat := by
    rw [BitVec.toNat_signExtend, msb_of_le64 _ hb]
    simp only [BitVec.toNat_setWidth, Bool.false_eq_true, if_false, Nat.add_zero]
    omega
  have h2 : (s.size - s.byte_pos).toNat = data.length - s.byte_pos.toNat := by
    rw [BitVec.toNat_sub_of_le (BitVec.le_def.mpr hp), hs]
  have e8 : (8#64).toNat = 8 := rfl
  simp only [Gen.CFun.carquet_bit_reader_remaining_bits, remainingBits, rdAbs, BitVec.toNat_add, BitVec.toNat_mul, h1, h2, e8]
  omega

end Carquet.Proofs.CFun3.BitReader