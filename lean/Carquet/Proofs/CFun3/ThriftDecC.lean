import Carquet.Proofs.CFun3.ThriftDecB
/-
Helper lemmas for Properties/C13/CFun3Thrift.lean, part C: `thrift_read_field_begin`.  The generated definition is
first brought into a closed form over small named pieces (`hiC`, `loC`, `prevC`, `fidShort`, `setTopC`, `noteBoolC`:
the C expressions of the function body), by `rfl`; each piece is then linked to the model separately.
-/
namespace Carquet.Proofs.CFun3.ThriftDec
open Carquet Carquet.Impl Carquet.Impl.CSem Carquet.Impl.CFun3 Carquet.Proofs.CFun2

/-! ### `thrift_read_field_begin` -/

/-- `delta = (header >> 4) & 0x0F` as an `int16_t` -/
def hiC (r : BitVec 8) : BitVec 16 := BitVec.setWidth 16 ((BitVec.sshiftRight (BitVec.setWidth 32 r) 4) &&& 15#32)
/-- `header & 0x0F` -/
def loC (r : BitVec 8) : BitVec 32 := (BitVec.setWidth 32 r) &&& 15#32
/-- `prev_field_id` -/
def prevC (d : Gen.CFun.thrift_decoder_t) : BitVec 16 :=
  if BitVec.slt 0#32 d.nesting_level then rd d.last_field_id (d.nesting_level - 1#32).toInt.toNat else 0#16
/-- `prev_field_id + delta` (computed in `int`) converted to `int16_t` -/
def fidShort (d : Gen.CFun.thrift_decoder_t) (r : BitVec 8) : BitVec 16 :=
  BitVec.setWidth 16 (BitVec.signExtend 32 (prevC d) + BitVec.signExtend 32 (hiC r))
/-- "Update last field ID" -/
def setTopC (d : Gen.CFun.thrift_decoder_t) (v : BitVec 16) : Gen.CFun.thrift_decoder_t :=
  { d with last_field_id := (if BitVec.slt 0#32 d.nesting_level then
      wr d.last_field_id (d.nesting_level - 1#32).toInt.toNat v else d.last_field_id) }
/-- "Handle embedded boolean values" -/
def noteBoolC (t : BitVec 32) (d : Gen.CFun.thrift_decoder_t) : Gen.CFun.thrift_decoder_t :=
  { d with bool_pending := if t == 1#32 then true else if t == 2#32 then true else d.bool_pending,
           bool_value := if t == 1#32 then true else if t == 2#32 then false else d.bool_value }
def tyOutC (t : BitVec 32) : BitVec 32 := if t == 1#32 then 1#32 else if t == 2#32 then 2#32 else t

/-- `thrift_read_field_begin` after a non-zero header byte `r` has been read (state `d`) -/
def fieldKC (d : Gen.CFun.thrift_decoder_t) (r : BitVec 8) (data : List UInt8) :
    Bool × Gen.CFun.thrift_decoder_t × BitVec 32 × BitVec 16 :=
  if BitVec.signExtend 32 (hiC r) == 0#32 then
    (true, noteBoolC (loC r) (setTopC (Gen.CFun.thrift_read_i16 d data).2 (Gen.CFun.thrift_read_i16 d data).1),
      tyOutC (loC r), (Gen.CFun.thrift_read_i16 d data).1)
  else (true, noteBoolC (loC r) (setTopC d (fidShort d r)), tyOutC (loC r), fidShort d r)

/-- `thrift_read_field_begin` in closed form (no hypothesis: the generated definition unfolds to this) -/
theorem field_begin_eq (s : Gen.CFun.thrift_decoder_t) (data : List UInt8) (ty0 : BitVec 32) (fid0 : BitVec 16) :
    Gen.CFun.thrift_read_field_begin s data ty0 fid0 =
      if s.status != 0#32 then (false, s, 0#32, 0#16)
      else if BitVec.setWidth 32 (Gen.CFun.read_byte_raw s data).1 == 0#32 then
        (false, (Gen.CFun.read_byte_raw s data).2, 0#32, 0#16)
      else fieldKC (Gen.CFun.read_byte_raw s data).2 (Gen.CFun.read_byte_raw s data).1 data := by
  unfold Gen.CFun.thrift_read_field_begin fieldKC
  simp only []
  rfl

theorem tyOutC_eq (t : BitVec 32) : tyOutC t = t := by
  unfold tyOutC
  split
  · rename_i h; exact (eq_of_beq h).symm
  · split
    · rename_i h; exact (eq_of_beq h).symm
    · rfl

theorem byte_is0 (r : BitVec 8) : ((BitVec.setWidth 32 r) == 0#32) = decide (r.toNat = 0) := by
  revert r; decide +kernel

theorem hiC_is0 (r : BitVec 8) : (BitVec.signExtend 32 (hiC r) == 0#32) = decide (r.toNat / 16 = 0) := by
  revert r; decide +kernel

theorem hiC_toInt (r : BitVec 8) : (BitVec.signExtend 32 (hiC r)).toInt = ((r.toNat / 16 : Nat) : Int) := by
  revert r; decide +kernel

theorem hiC_toInt16 (r : BitVec 8) : (hiC r).toInt = ((r.toNat / 16 : Nat) : Int) := by
  revert r; decide +kernel

theorem loC_eq (r : BitVec 8) : loC r = BitVec.ofNat 32 (r.toNat % 16) := byte_lo4 r

theorem inv_setTopC (d : Gen.CFun.thrift_decoder_t) (data : List UInt8) (h : DecInvP d data) (v : BitVec 16) :
    DecInvP (setTopC d v) data := by
  refine ⟨h.off, h.size, h.pos, h.nl, h.nli, ?_, h.st⟩
  show (if BitVec.slt 0#32 d.nesting_level then wr d.last_field_id _ v else d.last_field_id).length = 32
  split
  · simp [wr, h.lf]
  · exact h.lf

theorem abs_setTopC (ov : Bool) (bd : Nat) (d : Gen.CFun.thrift_decoder_t) (data : List UInt8) (h : DecInvP d data)
    (v : BitVec 16) :
    decAbs ov bd (setTopC d v) data =
      { decAbs ov bd d data with lastId := Thrift.setTop (decAbs ov bd d data).lastId v.toInt } := by
  have hnl := h.nl
  unfold setTopC
  rw [slt0 d data h]
  by_cases hpos : 0 < d.nesting_level.toNat
  · obtain ⟨n1, n2⟩ := nl_pred d.nesting_level hpos h.nl
    obtain ⟨j, hj⟩ : ∃ j, d.nesting_level.toNat = j + 1 := ⟨d.nesting_level.toNat - 1, by omega⟩
    have hi : (d.nesting_level - 1#32).toInt.toNat = j := by rw [n2]; simp; omega
    have := stk_setTop d.last_field_id j v (by rw [h.lf]; omega)
    unfold stk at this
    simp only [hpos, decide_true, if_true, hi, wr]
    unfold decAbs
    simp only [hj, this]
  · have h0 : d.nesting_level.toNat = 0 := by omega
    simp only [hpos, decide_false, Bool.false_eq_true, if_false]
    unfold decAbs
    simp [h0, Thrift.setTop]

theorem prevC_toInt (ov : Bool) (bd : Nat) (d : Gen.CFun.thrift_decoder_t) (data : List UInt8) (h : DecInvP d data) :
    (prevC d).toInt = (decAbs ov bd d data).lastId.headD 0 := by
  have hnl := h.nl
  unfold prevC
  rw [slt0 d data h, abs_lastId]
  by_cases hpos : 0 < d.nesting_level.toNat
  · obtain ⟨n1, n2⟩ := nl_pred d.nesting_level hpos h.nl
    obtain ⟨j, hj⟩ : ∃ j, d.nesting_level.toNat = j + 1 := ⟨d.nesting_level.toNat - 1, by omega⟩
    have hi : (d.nesting_level - 1#32).toInt.toNat = j := by rw [n2]; simp; omega
    simp only [hpos, decide_true, if_true, hi]
    rw [hj, stk_head _ _ (by rw [h.lf]; omega)]
  · have h0 : d.nesting_level.toNat = 0 := by omega
    simp only [hpos, decide_false, Bool.false_eq_true, if_false]
    rw [h0]; rfl

theorem sext32_toInt (x : BitVec 16) : (BitVec.signExtend 32 x).toInt = x.toInt :=
  BitVec.toInt_signExtend_of_le (by decide)

theorem i16_range (x : BitVec 16) : -32768 ≤ x.toInt ∧ x.toInt < 32768 := by
  have := x.isLt
  rw [BitVec.toInt_eq_toNat_cond]; split <;> omega

theorem add32_toInt (a b : BitVec 32) (h1 : -2 ^ 30 ≤ a.toInt ∧ a.toInt < 2 ^ 30) (h2 : -2 ^ 30 ≤ b.toInt ∧ b.toInt < 2 ^ 30) :
    (a + b).toInt = a.toInt + b.toInt := by
  rw [BitVec.toInt_add, Int.bmod_def]
  simp only [Nat.reducePow]
  split <;> omega

theorem cast_i16_32 (r : BitVec 32) : (BitVec.setWidth 16 r).toInt = Thrift.toI16 r.toInt := by
  have hn := r.isLt
  rw [BitVec.toInt_setWidth, BitVec.toInt_eq_toNat_cond, Int.bmod_def]
  unfold Thrift.toI16
  simp only [Nat.reducePow]
  split <;> split <;> omega

theorem fidShort_toInt (ov : Bool) (bd : Nat) (d : Gen.CFun.thrift_decoder_t) (data : List UInt8) (h : DecInvP d data)
    (r : BitVec 8) :
    (fidShort d r).toInt = Thrift.toI16 ((decAbs ov bd d data).lastId.headD 0 + ((r.toNat / 16 : Nat) : Int)) := by
  have hr := r.isLt
  have hp := i16_range (prevC d)
  unfold fidShort
  rw [cast_i16_32, add32_toInt _ _ (by rw [sext32_toInt]; omega) (by rw [hiC_toInt]; omega), sext32_toInt, hiC_toInt,
    prevC_toInt ov bd d data h]

theorem fidShort_addOk (d : Gen.CFun.thrift_decoder_t) (r : BitVec 8) :
    sAddOk (BitVec.signExtend 32 (prevC d)) (BitVec.signExtend 32 (hiC r)) = true := by
  have hr := r.isLt
  have hp := i16_range (prevC d)
  simp only [sAddOk, BitVec.saddOverflow, sext32_toInt, hiC_toInt16]
  simp
  omega

theorem inv_noteBoolC (t : BitVec 32) (d : Gen.CFun.thrift_decoder_t) (data : List UInt8) (h : DecInvP d data) :
    DecInvP (noteBoolC t d) data := ⟨h.off, h.size, h.pos, h.nl, h.nli, h.lf, h.st⟩

theorem abs_noteBoolC (ov : Bool) (bd : Nat) (n : Nat) (hn : n < 16) (d : Gen.CFun.thrift_decoder_t) (data : List UInt8) :
    decAbs ov bd (noteBoolC (BitVec.ofNat 32 n) d) data = Thrift.notePendingBool n (decAbs ov bd d data) := by
  have e1 : (BitVec.ofNat 32 n == 1#32) = decide (n = 1) := by
    have : ∀ m, m < 16 → (BitVec.ofNat 32 m == 1#32) = decide (m = 1) := by decide
    exact this n hn
  have e2 : (BitVec.ofNat 32 n == 2#32) = decide (n = 2) := by
    have : ∀ m, m < 16 → (BitVec.ofNat 32 m == 2#32) = decide (m = 2) := by decide
    exact this n hn
  unfold noteBoolC Thrift.notePendingBool
  rw [e1, e2]
  by_cases h1 : n = 1
  · simp [h1, decAbs]
  · by_cases h2 : n = 2
    · simp [h2, decAbs]
    · simp [h1, h2, decAbs]

theorem fieldKC_abs (ov : Bool) (bd : Nat) (d : Gen.CFun.thrift_decoder_t) (data : List UInt8) (h : DecInvP d data)
    (r : BitVec 8) (b : UInt8) (hb : r.toNat = b.toNat) :
    (fieldKC d r data).1 = (Thrift.readFieldBeginK b (decAbs ov bd d data)).more ∧
    (fieldKC d r data).2.2.1.toNat = (Thrift.readFieldBeginK b (decAbs ov bd d data)).ty ∧
    (fieldKC d r data).2.2.2.toInt = (Thrift.readFieldBeginK b (decAbs ov bd d data)).fid ∧
    decAbs ov bd (fieldKC d r data).2.1 data = (Thrift.readFieldBeginK b (decAbs ov bd d data)).dec ∧
    DecInvP (fieldKC d r data).2.1 data ∧
    (fieldKC d r data).2.1.reader.size = d.reader.size ∧ (fieldKC d r data).2.1.reader.data = d.reader.data := by
  have hr := r.isLt
  have hty : (tyOutC (loC r)).toNat = b.toNat % 16 := by
    rw [tyOutC_eq, loC_eq, ofNat_toNat_small _ (by omega), hb]
  unfold fieldKC Thrift.readFieldBeginK
  rw [hiC_is0, loC_eq, ← hb]
  by_cases h0 : r.toNat / 16 = 0
  · obtain ⟨v1, v2, v3, v4⟩ := i16_abs ov bd d data h
    simp only [h0, decide_true, if_true]
    rw [abs_noteBoolC ov bd _ (by omega), abs_setTopC ov bd _ data v3, v2, ← v1]
    refine ⟨trivial, ?_, rfl, rfl, inv_noteBoolC _ _ data (inv_setTopC _ data v3 _), v4.size, v4.data⟩
    rw [← loC_eq]; rw [hb]; exact hty
  · simp only [h0, decide_false, Bool.false_eq_true, if_false]
    rw [abs_noteBoolC ov bd _ (by omega), abs_setTopC ov bd _ data h, fidShort_toInt ov bd d data h]
    refine ⟨trivial, ?_, rfl, rfl, inv_noteBoolC _ _ data (inv_setTopC _ data h _), rfl, rfl⟩
    rw [← loC_eq]; rw [hb]; exact hty

theorem abs_status_ok (ov : Bool) (bd : Nat) (s : Gen.CFun.thrift_decoder_t) (data : List UInt8)
    (h0 : s.status = 0#32) : (decAbs ov bd s data).status = none := by
  unfold decAbs; rw [h0]; rfl

theorem abs_status_err (ov : Bool) (bd : Nat) (s : Gen.CFun.thrift_decoder_t) (data : List UInt8) (h : DecInvP s data)
    (h0 : s.status ≠ 0#32) : ∃ x, (decAbs ov bd s data).status = some x := by
  have hne : errOfCode s.status.toNat ≠ some none := by
    intro hh; rw [errOfCode_ok] at hh; apply h0; apply BitVec.eq_of_toNat_eq; simpa using hh
  have hst := h.st
  unfold decAbs
  cases hv : errOfCode s.status.toNat with
  | none => exact absurd hv hst
  | some o =>
    cases o with
    | none => exact absurd hv hne
    | some x => exact ⟨x, rfl⟩

theorem readFieldBegin_err (d : Thrift.Dec) (x : Thrift.Err) (hs : d.status = some x) :
    Thrift.readFieldBegin d = ⟨false, 0, 0, d⟩ := by
  unfold Thrift.readFieldBegin
  split
  · rfl
  · rename_i hx; rw [hs] at hx; cases hx

theorem readFieldBegin_nil (d : Thrift.Dec) (hs : d.status = none) (hr : d.rest = []) :
    Thrift.readFieldBegin d = ⟨false, 0, 0, d.setError .truncated⟩ := by
  unfold Thrift.readFieldBegin
  split
  · rename_i x hx; rw [hs] at hx; cases hx
  · split
    · rfl
    · rename_i hx; rw [hr] at hx; cases hx

theorem readFieldBegin_cons (d : Thrift.Dec) (b : UInt8) (tl : List UInt8) (hs : d.status = none)
    (hr : d.rest = b :: tl) :
    Thrift.readFieldBegin d =
      if b = 0 then ⟨false, 0, 0, { d with rest := tl, pos := d.pos + 1 }⟩
      else Thrift.readFieldBeginK b { d with rest := tl, pos := d.pos + 1 } := by
  unfold Thrift.readFieldBegin
  split
  · rename_i x hx; rw [hs] at hx; cases hx
  · split
    · rename_i hx; rw [hr] at hx; cases hx
    · rename_i hx; rw [hr] at hx; cases hx; rfl

theorem field_begin_abs (ov : Bool) (bd : Nat) (s : Gen.CFun.thrift_decoder_t) (data : List UInt8) (h : DecInvP s data)
    (ty0 : BitVec 32) (fid0 : BitVec 16) :
    (Gen.CFun.thrift_read_field_begin s data ty0 fid0).1 = (Thrift.readFieldBegin (decAbs ov bd s data)).more ∧
    (Gen.CFun.thrift_read_field_begin s data ty0 fid0).2.2.1.toNat = (Thrift.readFieldBegin (decAbs ov bd s data)).ty ∧
    (Gen.CFun.thrift_read_field_begin s data ty0 fid0).2.2.2.toInt = (Thrift.readFieldBegin (decAbs ov bd s data)).fid ∧
    decAbs ov bd (Gen.CFun.thrift_read_field_begin s data ty0 fid0).2.1 data =
      (Thrift.readFieldBegin (decAbs ov bd s data)).dec ∧
    DecInvP (Gen.CFun.thrift_read_field_begin s data ty0 fid0).2.1 data ∧
    (Gen.CFun.thrift_read_field_begin s data ty0 fid0).2.1.reader.size = s.reader.size ∧
    (Gen.CFun.thrift_read_field_begin s data ty0 fid0).2.1.reader.data = s.reader.data := by
  rw [field_begin_eq]
  by_cases h0 : s.status = 0#32
  · have hc : ¬ ((s.status != 0#32) = true) := by simp [h0]
    have hs := abs_status_ok ov bd s data h0
    rw [if_neg hc, read_byte_raw_eq s data h]
    by_cases hlt : s.reader.pos.toNat < data.length
    · have hr := abs_rest ov bd s data hlt
      have hb := rd8_toNat data _ hlt
      rw [if_pos hlt, readFieldBegin_cons _ _ _ hs hr, byte_is0]
      simp only []
      by_cases hz : data[s.reader.pos.toNat] = 0
      · have hz' : (rd8 data s.reader.pos.toNat).toNat = 0 := by rw [hb, hz]; rfl
        rw [if_pos hz, if_pos (by simpa using hz')]
        exact ⟨rfl, rfl, rfl, abs_adv1 ov bd s data h hlt, inv_adv1 s data h hlt, rfl, rfl⟩
      · have hz' : ¬ (rd8 data s.reader.pos.toNat).toNat = 0 := by
          rw [hb]; intro hh; exact hz (UInt8.toNat_inj.mp hh)
        rw [if_neg hz, if_neg (by simpa using hz')]
        have := fieldKC_abs ov bd (adv1 s) data (inv_adv1 s data h hlt) _ _ hb
        rw [abs_adv1 ov bd s data h hlt] at this
        exact this
    · have hr := abs_rest_nil ov bd s data hlt
      rw [if_neg hlt, readFieldBegin_nil _ hs hr, code_truncated]
      exact ⟨rfl, rfl, rfl, abs_set_error ov bd s data _ errIsC_truncated h,
        inv_set_error s data _ errIsC_truncated h, (frame_set_error s _).size, (frame_set_error s _).data⟩
  · have hc : (s.status != 0#32) = true := by simp [h0]
    obtain ⟨x, hx⟩ := abs_status_err ov bd s data h h0
    rw [if_pos hc, readFieldBegin_err _ x hx]
    exact ⟨rfl, rfl, rfl, rfl, h, rfl, rfl⟩

/-- the index `nesting_level - 1` into `last_field_id` is computed without overflow and lies in `0..31` -/
def idxOk (d : Gen.CFun.thrift_decoder_t) : Bool :=
  if BitVec.slt 0#32 d.nesting_level then
    (sSubOk d.nesting_level 1#32 && !(d.nesting_level - 1#32).msb && decide ((d.nesting_level - 1#32).toInt < 32))
  else true

theorem field_begin_defined_eq (s : Gen.CFun.thrift_decoder_t) (data : List UInt8) (ty0 : BitVec 32) (fid0 : BitVec 16) :
    Gen.CFun.thrift_read_field_begin_defined s data ty0 fid0 =
      if s.status != 0#32 then true
      else (Gen.CFun.read_byte_raw_defined s data &&
        (if BitVec.setWidth 32 (Gen.CFun.read_byte_raw s data).1 == 0#32 then true
        else (idxOk (Gen.CFun.read_byte_raw s data).2 &&
          (if BitVec.signExtend 32 (hiC (Gen.CFun.read_byte_raw s data).1) == 0#32 then
            (Gen.CFun.thrift_read_i16_defined (Gen.CFun.read_byte_raw s data).2 data &&
              idxOk (Gen.CFun.thrift_read_i16 (Gen.CFun.read_byte_raw s data).2 data).2)
          else
            (sAddOk (BitVec.signExtend 32 (prevC (Gen.CFun.read_byte_raw s data).2))
                (BitVec.signExtend 32 (hiC (Gen.CFun.read_byte_raw s data).1)) &&
              idxOk (Gen.CFun.read_byte_raw s data).2))))) := by
  unfold Gen.CFun.thrift_read_field_begin_defined
  simp only []
  rfl

theorem idxOk_inv (d : Gen.CFun.thrift_decoder_t) (data : List UInt8) (h : DecInvP d data) : idxOk d = true := by
  have hnl := h.nl
  unfold idxOk
  rw [slt0 d data h]
  by_cases hpos : 0 < d.nesting_level.toNat
  · obtain ⟨n1, n2⟩ := nl_pred d.nesting_level hpos h.nl
    have ho : sSubOk d.nesting_level 1#32 = true := by
      simp only [sSubOk, BitVec.ssubOverflow, h.nli]
      have h1 : (1#32 : BitVec 32).toInt = 1 := by decide
      rw [h1]; simp; omega
    have hm : (d.nesting_level - 1#32).msb = false := by
      rw [BitVec.msb_eq_decide, n1]; simp; omega
    simp only [hpos, decide_true, if_true, ho, hm, n2]
    simp; omega
  · simp [hpos]

theorem i16_defined (s : Gen.CFun.thrift_decoder_t) (data : List UInt8) (h : DecInvP s data) :
    Gen.CFun.thrift_read_i16_defined s data = true := by
  unfold Gen.CFun.thrift_read_i16_defined; exact zigzag_defined s data h

theorem field_begin_defined (s : Gen.CFun.thrift_decoder_t) (data : List UInt8) (h : DecInvP s data)
    (ty0 : BitVec 32) (fid0 : BitVec 16) : Gen.CFun.thrift_read_field_begin_defined s data ty0 fid0 = true := by
  obtain ⟨_, _, b3⟩ := read_byte_raw_abs false 0 s data h
  obtain ⟨_, _, v3, _⟩ := i16_abs false 0 _ data b3
  rw [field_begin_defined_eq, read_byte_raw_defined s data h, idxOk_inv _ data b3, idxOk_inv _ data v3,
    i16_defined _ data b3, fidShort_addOk]
  simp
end Carquet.Proofs.CFun3.ThriftDec