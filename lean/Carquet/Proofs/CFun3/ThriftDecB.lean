import Carquet.Proofs.CFun3.ThriftDecA
import Carquet.Proofs.Zigzag
import Carquet.Impl.Varint
/-
Helper lemmas for Properties/C13/CFun3Thrift.lean, part B: `thrift_read_varint` and the scalar readers built on it,
`thrift_read_bool`, `thrift_read_struct_begin/_end`, `thrift_read_list_begin`, `thrift_read_field_begin`.
-/
namespace Carquet.Proofs.CFun3.ThriftDec
open Carquet Carquet.Impl Carquet.Impl.CSem Carquet.Impl.CFun3 Carquet.Proofs.CFun2

/-! ### `thrift_read_varint` -/

theorem varint_abs (ov : Bool) (bd : Nat) (s : Gen.CFun.thrift_decoder_t) (data : List UInt8) (h : DecInvP s data) :
    (Gen.CFun.thrift_read_varint s data).1.toNat = (Thrift.readVarint (decAbs ov bd s data)).1 ∧
    decAbs ov bd (Gen.CFun.thrift_read_varint s data).2 data = (Thrift.readVarint (decAbs ov bd s data)).2 ∧
    DecInvP (Gen.CFun.thrift_read_varint s data).2 data ∧ Frame (Gen.CFun.thrift_read_varint s data).2 s := by
  unfold Gen.CFun.thrift_read_varint Thrift.readVarint
  exact varint_loop_abs ov bd data 10 0 11 s 0#64 0 (by omega) (by omega) h (by decide) (by decide)

theorem varint_defined (s : Gen.CFun.thrift_decoder_t) (data : List UInt8) (h : DecInvP s data) :
    Gen.CFun.thrift_read_varint_defined s data = true := by
  unfold Gen.CFun.thrift_read_varint_defined
  exact varint_loop_defined data 10 0 11 s 0#64 (by omega) (by omega) h

/-! ### zigzag and the casts -/

theorem zigzag_dec64 (n : BitVec 64) : (Gen.CFun.carquet_zigzag_decode64 n).toInt = Thrift.zigzagDec n.toNat := by
  have e : Gen.CFun.carquet_zigzag_decode64 n = Impl.Varint.zigzagDecode64 n := rfl
  rw [e, BitVec.toInt_eq_toNat_cond, Proofs.Zigzag.dec64_toNat]
  have hn := n.isLt
  unfold Thrift.zigzagDec
  by_cases h : n.toNat % 2 = 0
  · rw [if_pos h, if_pos h, if_pos (by omega)]
  · rw [if_neg h, if_neg h, if_neg (by omega)]; omega

theorem zigzag_dec64_defined (v : BitVec 64) : Gen.CFun.carquet_zigzag_decode64_defined v = true := by
  simp only [Gen.CFun.carquet_zigzag_decode64_defined, CSem.sNegOk, bne_iff_ne, ne_eq]
  intro h
  have h1 : (v &&& 1#64).toNat ≤ 1 := by
    rw [BitVec.toNat_and]; exact Nat.and_le_right
  rw [h] at h1
  exact absurd h1 (by decide)

theorem cast_i16 (r : BitVec 64) : (BitVec.setWidth 16 r).toInt = Thrift.toI16 r.toInt := by
  have hn := r.isLt
  rw [BitVec.toInt_setWidth, BitVec.toInt_eq_toNat_cond, Int.bmod_def]
  unfold Thrift.toI16
  simp only [Nat.reducePow]
  split <;> split <;> omega

theorem cast_i32 (r : BitVec 64) : (BitVec.setWidth 32 r).toInt = Thrift.toI32 r.toInt := by
  have hn := r.isLt
  rw [BitVec.toInt_setWidth, BitVec.toInt_eq_toNat_cond, Int.bmod_def]
  unfold Thrift.toI32
  simp only [Nat.reducePow]
  split <;> split <;> omega

theorem cast_i8 (r : BitVec 8) : r.toInt = Thrift.toI8 r.toNat := by
  have hn := r.isLt
  rw [BitVec.toInt_eq_toNat_cond]
  unfold Thrift.toI8
  split <;> omega

theorem zigzag_abs (ov : Bool) (bd : Nat) (s : Gen.CFun.thrift_decoder_t) (data : List UInt8) (h : DecInvP s data) :
    (Gen.CFun.thrift_read_zigzag s data).1.toInt = (Thrift.readZigzag (decAbs ov bd s data)).1 ∧
    decAbs ov bd (Gen.CFun.thrift_read_zigzag s data).2 data = (Thrift.readZigzag (decAbs ov bd s data)).2 ∧
    DecInvP (Gen.CFun.thrift_read_zigzag s data).2 data ∧ Frame (Gen.CFun.thrift_read_zigzag s data).2 s := by
  obtain ⟨v1, v2, v3, v4⟩ := varint_abs ov bd s data h
  unfold Gen.CFun.thrift_read_zigzag Thrift.readZigzag
  exact ⟨by rw [zigzag_dec64, v1], v2, v3, v4⟩

theorem zigzag_defined (s : Gen.CFun.thrift_decoder_t) (data : List UInt8) (h : DecInvP s data) :
    Gen.CFun.thrift_read_zigzag_defined s data = true := by
  unfold Gen.CFun.thrift_read_zigzag_defined
  simp [varint_defined s data h, zigzag_dec64_defined]

theorem i16_abs (ov : Bool) (bd : Nat) (s : Gen.CFun.thrift_decoder_t) (data : List UInt8) (h : DecInvP s data) :
    (Gen.CFun.thrift_read_i16 s data).1.toInt = (Thrift.readI16 (decAbs ov bd s data)).1 ∧
    decAbs ov bd (Gen.CFun.thrift_read_i16 s data).2 data = (Thrift.readI16 (decAbs ov bd s data)).2 ∧
    DecInvP (Gen.CFun.thrift_read_i16 s data).2 data ∧ Frame (Gen.CFun.thrift_read_i16 s data).2 s := by
  obtain ⟨v1, v2, v3, v4⟩ := zigzag_abs ov bd s data h
  unfold Gen.CFun.thrift_read_i16 Thrift.readI16
  exact ⟨by rw [← v1]; exact cast_i16 _, v2, v3, v4⟩

theorem i32_abs (ov : Bool) (bd : Nat) (s : Gen.CFun.thrift_decoder_t) (data : List UInt8) (h : DecInvP s data) :
    (Gen.CFun.thrift_read_i32 s data).1.toInt = (Thrift.readI32 (decAbs ov bd s data)).1 ∧
    decAbs ov bd (Gen.CFun.thrift_read_i32 s data).2 data = (Thrift.readI32 (decAbs ov bd s data)).2 ∧
    DecInvP (Gen.CFun.thrift_read_i32 s data).2 data ∧ Frame (Gen.CFun.thrift_read_i32 s data).2 s := by
  obtain ⟨v1, v2, v3, v4⟩ := zigzag_abs ov bd s data h
  unfold Gen.CFun.thrift_read_i32 Thrift.readI32
  exact ⟨by rw [← v1]; exact cast_i32 _, v2, v3, v4⟩

theorem i64_abs (ov : Bool) (bd : Nat) (s : Gen.CFun.thrift_decoder_t) (data : List UInt8) (h : DecInvP s data) :
    (Gen.CFun.thrift_read_i64 s data).1.toInt = (Thrift.readI64 (decAbs ov bd s data)).1 ∧
    decAbs ov bd (Gen.CFun.thrift_read_i64 s data).2 data = (Thrift.readI64 (decAbs ov bd s data)).2 ∧
    DecInvP (Gen.CFun.thrift_read_i64 s data).2 data ∧ Frame (Gen.CFun.thrift_read_i64 s data).2 s := by
  obtain ⟨v1, v2, v3, v4⟩ := zigzag_abs ov bd s data h
  unfold Gen.CFun.thrift_read_i64 Thrift.readI64
  exact ⟨v1, v2, v3, v4⟩

theorem byte_abs (ov : Bool) (bd : Nat) (s : Gen.CFun.thrift_decoder_t) (data : List UInt8) (h : DecInvP s data) :
    (Gen.CFun.thrift_read_byte s data).1.toInt = (Thrift.readI8 (decAbs ov bd s data)).1 ∧
    decAbs ov bd (Gen.CFun.thrift_read_byte s data).2 data = (Thrift.readI8 (decAbs ov bd s data)).2 ∧
    DecInvP (Gen.CFun.thrift_read_byte s data).2 data ∧ Frame (Gen.CFun.thrift_read_byte s data).2 s := by
  obtain ⟨v1, v2, v3⟩ := read_byte_raw_abs ov bd s data h
  have v4 := frame_read_byte_raw s data h
  unfold Gen.CFun.thrift_read_byte Thrift.readI8
  exact ⟨by rw [← v1]; exact cast_i8 _, v2, v3, v4⟩

/-! ### `thrift_read_bool` -/

theorem byte_is1 (r : BitVec 8) : ((BitVec.setWidth 32 r) == 1#32) = decide (r.toNat = 1) := by
  revert r; decide +kernel

theorem u8_is1 (b : UInt8) : (b == 1) = decide (b.toNat = 1) := by
  by_cases hb : b = 1
  · subst hb; decide
  · have : b.toNat ≠ 1 := fun hh => hb (UInt8.toNat_inj.mp hh)
    simp [hb, this]

theorem bool_abs (ov : Bool) (bd : Nat) (s : Gen.CFun.thrift_decoder_t) (data : List UInt8) (h : DecInvP s data) :
    (Gen.CFun.thrift_read_bool s data).1 = (Thrift.readBool (decAbs ov bd s data)).1 ∧
    decAbs ov bd (Gen.CFun.thrift_read_bool s data).2 data = (Thrift.readBool (decAbs ov bd s data)).2 ∧
    DecInvP (Gen.CFun.thrift_read_bool s data).2 data ∧
    (Gen.CFun.thrift_read_bool s data).2.reader.size = s.reader.size ∧
    (Gen.CFun.thrift_read_bool s data).2.reader.data = s.reader.data := by
  obtain ⟨v1, v2, v3⟩ := read_byte_raw_abs ov bd s data h
  have v4 := frame_read_byte_raw s data h
  unfold Gen.CFun.thrift_read_bool Thrift.readBool
  have hp : (decAbs ov bd s data).boolPending = s.bool_pending := rfl
  rw [hp]
  cases hbp : s.bool_pending
  · simp only [Bool.false_eq_true, if_false]
    refine ⟨?_, v2, v3, v4.size, v4.data⟩
    rw [byte_is1, u8_is1, v1]
  · simp only [if_true]
    refine ⟨?_, ?_, ?_, ?_, ?_⟩
    all_goals first | rfl | trivial | exact ⟨h.off, h.size, h.pos, h.nl, h.nli, h.lf, h.st⟩

theorem bool_defined (s : Gen.CFun.thrift_decoder_t) (data : List UInt8) (h : DecInvP s data) :
    Gen.CFun.thrift_read_bool_defined s data = true := by
  unfold Gen.CFun.thrift_read_bool_defined
  rw [read_byte_raw_defined s data h]; simp

/-! ### the stack `last_field_id[0 .. nesting_level)` (the model keeps it innermost first) -/

/-- the model's `lastId` of the first `n` cells of `last_field_id` -/
def stk (lf : List (BitVec 16)) (n : Nat) : List Int := ((lf.take n).reverse).map (·.toInt)

theorem abs_lastId (ov : Bool) (bd : Nat) (s : Gen.CFun.thrift_decoder_t) (data : List UInt8) :
    (decAbs ov bd s data).lastId = stk s.last_field_id s.nesting_level.toNat := rfl

theorem stk_length (lf : List (BitVec 16)) (n : Nat) (h : n ≤ lf.length) : (stk lf n).length = n := by
  simp [stk]; omega

theorem stk_succ (lf : List (BitVec 16)) (j : Nat) (h : j < lf.length) :
    stk lf (j + 1) = lf[j].toInt :: stk lf j := by
  unfold stk
  rw [List.take_succ_eq_append_getElem h, List.reverse_append]
  rfl

theorem stk_set_ge (lf : List (BitVec 16)) (j i : Nat) (v : BitVec 16) (h : j ≤ i) : stk (lf.set i v) j = stk lf j := by
  simp [stk, List.take_set_of_le h]

theorem stk_push (lf : List (BitVec 16)) (j : Nat) (v : BitVec 16) (h : j < lf.length) :
    stk (lf.set j v) (j + 1) = v.toInt :: stk lf j := by
  rw [stk_succ _ _ (by simpa using h), stk_set_ge _ _ _ _ (Nat.le_refl _)]
  simp

theorem stk_setTop (lf : List (BitVec 16)) (j : Nat) (v : BitVec 16) (h : j < lf.length) :
    stk (lf.set j v) (j + 1) = Thrift.setTop (stk lf (j + 1)) v.toInt := by
  rw [stk_push _ _ _ h, stk_succ _ _ h]; rfl

theorem stk_head (lf : List (BitVec 16)) (j : Nat) (h : j < lf.length) :
    (stk lf (j + 1)).headD 0 = (rd lf j).toInt := by
  rw [stk_succ _ _ h]
  simp [rd, List.getD_eq_getElem?_getD, List.getElem?_eq_getElem h]

/-! ### `thrift_read_struct_begin`, `thrift_read_struct_end` -/

theorem nl_succ (nl : BitVec 32) (h : nl.toNat < 32) : (nl + 1#32).toNat = nl.toNat + 1 ∧
    (nl + 1#32).toInt = ((nl.toNat + 1 : Nat) : Int) := by
  have h1 : (nl + 1#32).toNat = nl.toNat + 1 := by bv_omega
  refine ⟨h1, ?_⟩
  rw [BitVec.toInt_eq_toNat_cond, h1]; split <;> omega

theorem nl_pred (nl : BitVec 32) (h0 : 0 < nl.toNat) (h : nl.toNat ≤ 32) : (nl - 1#32).toNat = nl.toNat - 1 ∧
    (nl - 1#32).toInt = ((nl.toNat - 1 : Nat) : Int) := by
  have h1 : (nl - 1#32).toNat = nl.toNat - 1 := by bv_omega
  refine ⟨h1, ?_⟩
  rw [BitVec.toInt_eq_toNat_cond, h1]; split <;> omega

theorem sle32 (s : Gen.CFun.thrift_decoder_t) (data : List UInt8) (h : DecInvP s data) :
    BitVec.sle 32#32 s.nesting_level = decide (32 ≤ s.nesting_level.toNat) := by
  have h32 : (32#32 : BitVec 32).toInt = 32 := by decide
  rw [BitVec.sle_eq_decide, h.nli, h32]
  have : (32 ≤ (s.nesting_level.toNat : Int)) ↔ 32 ≤ s.nesting_level.toNat := by omega
  simp [this]

theorem slt0 (s : Gen.CFun.thrift_decoder_t) (data : List UInt8) (h : DecInvP s data) :
    BitVec.slt 0#32 s.nesting_level = decide (0 < s.nesting_level.toNat) := by
  have h0 : (0#32 : BitVec 32).toInt = 0 := by decide
  rw [BitVec.slt_eq_decide, h.nli, h0]
  simp

theorem struct_begin_abs (ov : Bool) (bd : Nat) (s : Gen.CFun.thrift_decoder_t) (data : List UInt8) (h : DecInvP s data) :
    decAbs ov bd (Gen.CFun.thrift_read_struct_begin s) data = Thrift.structBegin (decAbs ov bd s data) ∧
    DecInvP (Gen.CFun.thrift_read_struct_begin s) data ∧
    (Gen.CFun.thrift_read_struct_begin s).reader = s.reader := by
  have hlen : (decAbs ov bd s data).lastId.length = s.nesting_level.toNat := by
    rw [abs_lastId, stk_length _ _ (by rw [h.lf]; exact h.nl)]
  unfold Gen.CFun.thrift_read_struct_begin Thrift.structBegin
  rw [sle32 s data h, hlen]
  by_cases hge : 32 ≤ s.nesting_level.toNat
  · have hm : Thrift.maxNesting ≤ s.nesting_level.toNat := hge
    rw [if_pos hm]
    simp only [hge, decide_true, if_true]
    rw [code_decode]
    exact ⟨abs_set_error ov bd s data _ errIsC_decode h, inv_set_error s data _ errIsC_decode h,
      (set_error_frame s _).1⟩
  · have hm : ¬ Thrift.maxNesting ≤ s.nesting_level.toNat := hge
    rw [if_neg hm]
    simp only [hge, decide_false, Bool.false_eq_true, if_false]
    obtain ⟨n1, n2⟩ := nl_succ s.nesting_level (by omega)
    have hi : s.nesting_level.toInt.toNat = s.nesting_level.toNat := by rw [h.nli]; simp
    refine ⟨?_, ⟨h.off, h.size, h.pos, by show (s.nesting_level + 1#32).toNat ≤ 32; omega, ?_, ?_, h.st⟩, by first | rfl | trivial⟩
    · unfold decAbs
      simp only [n1, hi, wr]
      have := stk_push s.last_field_id s.nesting_level.toNat 0#16 (by rw [h.lf]; omega)
      unfold stk at this
      rw [this]; rfl
    · show (s.nesting_level + 1#32).toInt = ((s.nesting_level + 1#32).toNat : Int)
      rw [n1, n2]
    · show (wr s.last_field_id _ 0#16).length = 32
      simp [wr, h.lf]

theorem struct_begin_defined (s : Gen.CFun.thrift_decoder_t) (data : List UInt8) (h : DecInvP s data) :
    Gen.CFun.thrift_read_struct_begin_defined s = true := by
  unfold Gen.CFun.thrift_read_struct_begin_defined
  rw [sle32 s data h]
  by_cases hge : 32 ≤ s.nesting_level.toNat
  · simp [hge, Gen.CFun.set_error_defined]
  · have hmsb : s.nesting_level.msb = false := by
      rw [BitVec.msb_eq_decide]; have := h.nl; simp; omega
    have ho : sAddOk s.nesting_level 1#32 = true := by
      simp only [sAddOk, BitVec.saddOverflow, h.nli]
      have h1 : (1#32 : BitVec 32).toInt = 1 := by decide
      rw [h1]; simp; omega
    simp only [hge, decide_false, Bool.false_eq_true, if_false, hmsb, ho, h.nli]
    simp; omega

/-- `thrift_read_struct_end` in closed form (the generated definition unfolds to this) -/
theorem struct_end_eq (s : Gen.CFun.thrift_decoder_t) :
    Gen.CFun.thrift_read_struct_end s =
      { s with nesting_level := (if BitVec.slt 0#32 s.nesting_level then s.nesting_level - 1#32 else s.nesting_level) } :=
  rfl

theorem struct_end_abs (ov : Bool) (bd : Nat) (s : Gen.CFun.thrift_decoder_t) (data : List UInt8) (h : DecInvP s data) :
    decAbs ov bd (Gen.CFun.thrift_read_struct_end s) data = Thrift.structEnd (decAbs ov bd s data) ∧
    DecInvP (Gen.CFun.thrift_read_struct_end s) data ∧
    (Gen.CFun.thrift_read_struct_end s).reader = s.reader ∧
    (Gen.CFun.thrift_read_struct_end s).last_field_id = s.last_field_id := by
  rw [struct_end_eq]
  unfold Thrift.structEnd
  rw [slt0 s data h]
  by_cases hpos : 0 < s.nesting_level.toNat
  · simp only [hpos, decide_true, if_true]
    obtain ⟨n1, n2⟩ := nl_pred s.nesting_level hpos h.nl
    refine ⟨?_, ⟨h.off, h.size, h.pos, by show (s.nesting_level - 1#32).toNat ≤ 32; have := h.nl; omega, ?_, h.lf, h.st⟩,
      by first | rfl | trivial, by first | rfl | trivial⟩
    · unfold decAbs
      simp only [n1]
      obtain ⟨j, hj⟩ : ∃ j, s.nesting_level.toNat = j + 1 := ⟨s.nesting_level.toNat - 1, by omega⟩
      have := stk_succ s.last_field_id j (by rw [h.lf]; have := h.nl; omega)
      unfold stk at this
      rw [hj, this]; rfl
    · show (s.nesting_level - 1#32).toInt = ((s.nesting_level - 1#32).toNat : Int)
      rw [n1, n2]
  · simp only [hpos, decide_false, Bool.false_eq_true, if_false]
    have h0 : s.nesting_level.toNat = 0 := by omega
    refine ⟨?_, ⟨h.off, h.size, h.pos, h.nl, h.nli, h.lf, h.st⟩, by first | rfl | trivial, by first | rfl | trivial⟩
    unfold decAbs
    simp [h0]

theorem struct_end_defined (s : Gen.CFun.thrift_decoder_t) (data : List UInt8) (h : DecInvP s data) :
    Gen.CFun.thrift_read_struct_end_defined s = true := by
  unfold Gen.CFun.thrift_read_struct_end_defined
  rw [slt0 s data h]
  by_cases hpos : 0 < s.nesting_level.toNat
  · have ho : sSubOk s.nesting_level 1#32 = true := by
      simp only [sSubOk, BitVec.ssubOverflow, h.nli]
      have h1 : (1#32 : BitVec 32).toInt = 1 := by decide
      have := h.nl
      rw [h1]; simp; omega
    simp [hpos, ho]
  · simp [hpos]

/-! ### `thrift_read_list_begin` -/

theorem byte_hi4 (r : BitVec 8) :
    (BitVec.sshiftRight (BitVec.setWidth 32 r) 4) &&& 15#32 = BitVec.ofNat 32 (r.toNat / 16) := by
  revert r; decide +kernel

theorem byte_lo4 (r : BitVec 8) : (BitVec.setWidth 32 r) &&& 15#32 = BitVec.ofNat 32 (r.toNat % 16) := by
  revert r; decide +kernel

theorem byte_hi4_is15 (r : BitVec 8) : (BitVec.ofNat 32 (r.toNat / 16) == 15#32) = decide (r.toNat / 16 = 15) := by
  revert r; decide +kernel

/-- the two checks on `*count` at the end of `thrift_read_list_begin` -/
def listTail (d : Gen.CFun.thrift_decoder_t) (et c : BitVec 32) : Gen.CFun.thrift_decoder_t × BitVec 32 × BitVec 32 :=
  if BitVec.slt c 0#32 then (Gen.CFun.set_error d 30#32, et, 0#32)
  else if Gen.CFun.carquet_buffer_reader_remaining d.reader.pos d.reader.size < BitVec.signExtend 64 c then
    (Gen.CFun.set_error d 30#32, et, 0#32)
  else (d, et, c)

theorem list_begin_eq (s : Gen.CFun.thrift_decoder_t) (data : List UInt8) (et0 c0 : BitVec 32) :
    Gen.CFun.thrift_read_list_begin s data et0 c0 =
      if (Gen.CFun.read_byte_raw s data).1.toNat / 16 = 15 then
        listTail (Gen.CFun.thrift_read_varint (Gen.CFun.read_byte_raw s data).2 data).2
          (BitVec.ofNat 32 ((Gen.CFun.read_byte_raw s data).1.toNat % 16))
          (BitVec.setWidth 32 (Gen.CFun.thrift_read_varint (Gen.CFun.read_byte_raw s data).2 data).1)
      else
        listTail (Gen.CFun.read_byte_raw s data).2
          (BitVec.ofNat 32 ((Gen.CFun.read_byte_raw s data).1.toNat % 16))
          (BitVec.ofNat 32 ((Gen.CFun.read_byte_raw s data).1.toNat / 16)) := by
  unfold Gen.CFun.thrift_read_list_begin listTail
  simp only [byte_hi4, byte_lo4, byte_hi4_is15, decide_eq_true_eq]

theorem sext64_nonneg (c : BitVec 32) (h : 0 ≤ c.toInt) : (BitVec.signExtend 64 c).toNat = c.toInt.toNat := by
  have h1 : (BitVec.signExtend 64 c).toInt = c.toInt := BitVec.toInt_signExtend_of_le (by decide)
  have h2 := (BitVec.signExtend 64 c).isLt
  rw [BitVec.toInt_eq_toNat_cond] at h1
  have h3 : c.toInt < 2 ^ 31 := by
    have := c.isLt
    rw [BitVec.toInt_eq_toNat_cond]; split <;> omega
  split at h1 <;> omega

theorem abs_rest_length (ov : Bool) (bd : Nat) (s : Gen.CFun.thrift_decoder_t) (data : List UInt8) :
    (decAbs ov bd s data).rest.length = data.length - s.reader.pos.toNat := by
  simp [decAbs]

theorem remaining_toNat (s : Gen.CFun.thrift_decoder_t) (data : List UInt8) (h : DecInvP s data) :
    (Gen.CFun.carquet_buffer_reader_remaining s.reader.pos s.reader.size).toNat = data.length - s.reader.pos.toNat := by
  have h1 := h.size; have h2 := h.pos
  unfold Gen.CFun.carquet_buffer_reader_remaining; bv_omega

theorem listTail_abs (ov : Bool) (bd : Nat) (d : Gen.CFun.thrift_decoder_t) (data : List UInt8) (h : DecInvP d data)
    (et c : BitVec 32) (etN : Nat) :
    (listTail d et c).2.1 = et ∧
    (listTail d et c).2.2.toInt = (Thrift.listCountChecks etN c.toInt (decAbs ov bd d data)).count ∧
    decAbs ov bd (listTail d et c).1 data = (Thrift.listCountChecks etN c.toInt (decAbs ov bd d data)).dec ∧
    (Thrift.listCountChecks etN c.toInt (decAbs ov bd d data)).elemTy = etN ∧
    DecInvP (listTail d et c).1 data ∧ Frame (listTail d et c).1 d := by
  have h0 : (0#32 : BitVec 32).toInt = 0 := by decide
  have hse := abs_set_error ov bd d data _ errIsC_decode h
  have hsi := inv_set_error d data _ errIsC_decode h
  rw [← code_decode] at hse hsi
  unfold listTail Thrift.listCountChecks
  rw [BitVec.slt_eq_decide, h0]
  by_cases hneg : c.toInt < 0
  · have hd : decide (c.toInt < 0) = true := by simpa using hneg
    rw [if_pos hd, if_pos hneg]
    exact ⟨rfl, rfl, hse, rfl, hsi, frame_set_error d _⟩
  · have hd : ¬ (decide (c.toInt < 0) = true) := by simpa using hneg
    rw [if_neg hd, if_neg hneg]
    have hcond : Gen.CFun.carquet_buffer_reader_remaining d.reader.pos d.reader.size < BitVec.signExtend 64 c ↔
        data.length - d.reader.pos.toNat < c.toInt.toNat := by
      rw [BitVec.lt_def, remaining_toNat d data h, sext64_nonneg c (by omega)]
    have hhas : (decAbs ov bd d data).has c.toInt.toNat = decide (c.toInt.toNat ≤ data.length - d.reader.pos.toNat) := by
      unfold Thrift.Dec.has
      rw [Proofs.CFun.lengthGe_eq, abs_rest_length]
    rw [hhas]
    by_cases hrem : data.length - d.reader.pos.toNat < c.toInt.toNat
    · have h2 : (!decide (c.toInt.toNat ≤ data.length - d.reader.pos.toNat)) = true := by simp; omega
      rw [if_pos (hcond.mpr hrem), if_pos h2]
      exact ⟨rfl, rfl, hse, rfl, hsi, frame_set_error d _⟩
    · have h2 : ¬ ((!decide (c.toInt.toNat ≤ data.length - d.reader.pos.toNat)) = true) := by simp; omega
      rw [if_neg (fun hh => hrem (hcond.mp hh)), if_neg h2]
      exact ⟨rfl, rfl, rfl, rfl, h, Frame.refl d⟩

theorem cast_i32_nat (r : BitVec 64) : (BitVec.setWidth 32 r).toInt = Thrift.toI32 (r.toNat : Int) := by
  have hn := r.isLt
  rw [BitVec.toInt_setWidth, Int.bmod_def]
  unfold Thrift.toI32
  simp only [Nat.reducePow]
  split <;> omega

theorem ofNat32_small (n : Nat) (h : n < 256) : (BitVec.ofNat 32 n).toNat = n ∧ (BitVec.ofNat 32 n).toInt = (n : Int) :=
  ⟨ofNat_toNat_small n (by omega), ofNat_toInt_small n (by omega)⟩

theorem list_begin_abs (ov : Bool) (bd : Nat) (s : Gen.CFun.thrift_decoder_t) (data : List UInt8) (h : DecInvP s data)
    (et0 c0 : BitVec 32) :
    (Gen.CFun.thrift_read_list_begin s data et0 c0).2.1.toNat = (Thrift.readListBegin (decAbs ov bd s data)).elemTy ∧
    (Gen.CFun.thrift_read_list_begin s data et0 c0).2.2.toInt = (Thrift.readListBegin (decAbs ov bd s data)).count ∧
    decAbs ov bd (Gen.CFun.thrift_read_list_begin s data et0 c0).1 data =
      (Thrift.readListBegin (decAbs ov bd s data)).dec ∧
    DecInvP (Gen.CFun.thrift_read_list_begin s data et0 c0).1 data ∧
    Frame (Gen.CFun.thrift_read_list_begin s data et0 c0).1 s := by
  obtain ⟨b1, b2, b3⟩ := read_byte_raw_abs ov bd s data h
  have b4 := frame_read_byte_raw s data h
  have hlt : (Gen.CFun.read_byte_raw s data).1.toNat < 256 := (Gen.CFun.read_byte_raw s data).1.isLt
  obtain ⟨m1, _⟩ := ofNat32_small ((Gen.CFun.read_byte_raw s data).1.toNat % 16) (by omega)
  rw [list_begin_eq]
  unfold Thrift.readListBegin
  rw [← b1, ← b2]
  by_cases h15 : (Gen.CFun.read_byte_raw s data).1.toNat / 16 = 15
  · rw [if_pos h15, if_pos h15]
    obtain ⟨v1, v2, v3, v4⟩ := varint_abs ov bd (Gen.CFun.read_byte_raw s data).2 data b3
    rw [← v1, ← v2, ← cast_i32_nat]
    obtain ⟨t1, t2, t3, t4, t5, t6⟩ := listTail_abs ov bd _ data v3
      (BitVec.ofNat 32 ((Gen.CFun.read_byte_raw s data).1.toNat % 16))
      (BitVec.setWidth 32 (Gen.CFun.thrift_read_varint (Gen.CFun.read_byte_raw s data).2 data).1)
      ((Gen.CFun.read_byte_raw s data).1.toNat % 16)
    exact ⟨by rw [t1, t4, m1], t2, t3, t5, (t6.trans v4).trans b4⟩
  · rw [if_neg h15, if_neg h15]
    obtain ⟨_, m2⟩ := ofNat32_small ((Gen.CFun.read_byte_raw s data).1.toNat / 16) (by omega)
    obtain ⟨t1, t2, t3, t4, t5, t6⟩ := listTail_abs ov bd _ data b3
      (BitVec.ofNat 32 ((Gen.CFun.read_byte_raw s data).1.toNat % 16))
      (BitVec.ofNat 32 ((Gen.CFun.read_byte_raw s data).1.toNat / 16))
      ((Gen.CFun.read_byte_raw s data).1.toNat % 16)
    rw [m2] at t2 t3 t4
    exact ⟨by rw [t1, t4, m1], t2, t3, t5, t6.trans b4⟩
theorem list_begin_defined (s : Gen.CFun.thrift_decoder_t) (data : List UInt8) (h : DecInvP s data)
    (et0 c0 : BitVec 32) : Gen.CFun.thrift_read_list_begin_defined s data et0 c0 = true := by
  obtain ⟨_, _, b3⟩ := read_byte_raw_abs false 0 s data h
  have hv := varint_defined (Gen.CFun.read_byte_raw s data).2 data b3
  unfold Gen.CFun.thrift_read_list_begin_defined
  simp [read_byte_raw_defined s data h, hv, Gen.CFun.set_error_defined,
    Gen.CFun.carquet_buffer_reader_remaining_defined]
end Carquet.Proofs.CFun3.ThriftDec