import Carquet.Impl.CFun3.BitWriter
import Carquet.Proofs.CFun2.Mem
import Carquet.Proofs.CFun2.Ints
/-
Stage-3 link: the bit WRITER of src/core/bitpack.c as translated in Gen/CFun.lean (`carquet_bit_writer_*`, `flush_buffer`
with `flush_buffer_loop1`) against `Impl.BitIO.Writer` through `Impl.CFun3.wrAbs`.

  * `WrInvP m`            the Bool invariant `wrInvUpTo m` as a structure of propositions;
  * `Frame`               what a call leaves alone (length, stored bytes, bytes from the new `byte_pos` on, the fields
                          `capacity` / `data` / `bit_pos`), reflexive and transitive;
  * `flush_loop_spec`     the translated loop and the model's `flushLoop` unroll in lockstep for every sufficient fuel on
                          both sides (model: `buffer_bits / 8`, translation: 9), no UB;
  * `flush_buffer_spec`, `flushIf56_spec`, `makeRoomC_spec`, `push_inv`   the building blocks of the C text;
  * `write_bit_spec`, `write_bits_spec`, `write_bits64_spec`, `flush_spec`, `init_spec`   one lemma per function, in
    the form `∃ s' d', f … = (s', d') ∧ wrAbs s' d' = model ∧ Frame … ∧ WrInvP … ∧ f_defined … = true`.
The only statements that depend on the shape of the generated terms are the `…_eq` lemmas (`write_bit_eq`,
`write_bits_eq`, `flush_eq` and their `_defined` twins): the generated function is, by unfolding, the composition of
these building blocks (proved by `rfl` after a case split on the branch conditions; the `_vN` helper definitions are never named).
-/
namespace Carquet.Proofs.CFun3.BitWriter
open Carquet Carquet.Impl Carquet.Impl.CSem Carquet.Impl.CFun3 Carquet.Proofs.CFun2
open Carquet.Gen.CFun (carquet_bit_writer_t)

/-! ### the invariant as propositions -/

structure WrInvP (m : Nat) (s : carquet_bit_writer_t) (data : List UInt8) : Prop where
  dat : s.data = 0
  pos : s.byte_pos.toNat ≤ s.capacity.toNat
  cap : s.capacity.toNat ≤ data.length
  nonneg : 0 ≤ s.buffer_bits.toInt
  bits : s.buffer_bits.toInt ≤ (m : Int)
  buf : s.buffer.toNat < 2 ^ s.buffer_bits.toNat

theorem wrInvUpTo_iff (m : Nat) (s : carquet_bit_writer_t) (data : List UInt8) :
    wrInvUpTo m s data = true ↔ WrInvP m s data := by
  simp only [wrInvUpTo, Bool.and_eq_true, decide_eq_true_eq, BitVec.le_def]
  constructor
  · rintro ⟨⟨⟨⟨⟨a, b⟩, c⟩, d⟩, e⟩, f⟩; exact ⟨a, b, c, d, e, f⟩
  · rintro ⟨a, b, c, d, e, f⟩; exact ⟨⟨⟨⟨⟨a, b⟩, c⟩, d⟩, e⟩, f⟩

/-- a non-negative `int` : `toInt` is `toNat` -/
theorem toInt_of_nonneg (x : BitVec 32) (h : 0 ≤ x.toInt) : x.toInt = (x.toNat : Int) := by
  rw [BitVec.toInt_eq_toNat_cond] at *
  split <;> simp_all <;> omega

theorem toNat_lt_of_nonneg (x : BitVec 32) (h : 0 ≤ x.toInt) : x.toNat < 2 ^ 31 := by
  rw [BitVec.toInt_eq_toNat_cond] at h
  split at h <;> omega

theorem toInt_of_small (x : BitVec 32) (h : x.toNat < 2 ^ 31) : x.toInt = (x.toNat : Int) := by
  rw [BitVec.toInt_eq_toNat_cond]
  split <;> omega

theorem WrInvP.bitsNat {m : Nat} {s : carquet_bit_writer_t} {data : List UInt8} (h : WrInvP m s data) :
    s.buffer_bits.toNat ≤ m := by
  have := toInt_of_nonneg _ h.nonneg
  have := h.bits
  omega

/-- what a call leaves alone: the length of the array, the bytes from the new `byte_pos` on, the fields the model does
not carry; `byte_pos` never decreases -/
structure Frame (s : carquet_bit_writer_t) (data : List UInt8) (s' : carquet_bit_writer_t) (data' : List UInt8) : Prop where
  len : data'.length = data.length
  mono : s.byte_pos.toNat ≤ s'.byte_pos.toNat
  head : data'.take s.byte_pos.toNat = data.take s.byte_pos.toNat
  tail : data'.drop s'.byte_pos.toNat = data.drop s'.byte_pos.toNat
  cap : s'.capacity = s.capacity
  dat : s'.data = s.data
  bitpos : s'.bit_pos = s.bit_pos

theorem Frame.refl (s : carquet_bit_writer_t) (data : List UInt8) : Frame s data s data :=
  ⟨rfl, Nat.le_refl _, rfl, rfl, rfl, rfl, rfl⟩

theorem take_of_take_eq {a b : List UInt8} {i j : Nat} (h : i ≤ j) (e : a.take j = b.take j) : a.take i = b.take i := by
  have := congrArg (List.take i) e
  rwa [List.take_take, List.take_take, Nat.min_eq_left h] at this

theorem drop_of_drop_eq {a b : List UInt8} {i j : Nat} (h : i ≤ j) (e : a.drop i = b.drop i) : a.drop j = b.drop j := by
  have e2 : j = i + (j - i) := by omega
  rw [e2, ← List.drop_drop, ← List.drop_drop, e]

theorem Frame.trans {s0 s1 s2 : carquet_bit_writer_t} {d0 d1 d2 : List UInt8} (a : Frame s0 d0 s1 d1)
    (b : Frame s1 d1 s2 d2) : Frame s0 d0 s2 d2 := by
  refine ⟨b.len.trans a.len, Nat.le_trans a.mono b.mono, (take_of_take_eq a.mono b.head).trans a.head, ?_, b.cap.trans a.cap, b.dat.trans a.dat, b.bitpos.trans a.bitpos⟩
  rw [b.tail]
  exact drop_of_drop_eq b.mono a.tail

/-! ### one store `data[byte_pos++] = (uint8_t)buffer` -/

theorem take_set_succ (data : List UInt8) (i : Nat) (b : UInt8) (h : i < data.length) :
    (data.set i b).take (i + 1) = data.take i ++ [b] := by
  rw [List.take_add_one, List.take_set_of_le (Nat.le_refl i)]
  simp [h]

theorem drop_set_succ (data : List UInt8) (i : Nat) (b : UInt8) :
    (data.set i b).drop (i + 1) = data.drop (i + 1) := by
  rw [List.drop_set]; simp

theorem ofBitVec_setWidth8 (x : BitVec 64) : UInt8.ofBitVec (BitVec.setWidth 8 x) = UInt8.ofNat x.toNat := by
  apply UInt8.toNat_inj.mp
  simp [UInt8.toNat_ofNat']


/-! ### `int` facts -/

theorem sle8_iff (bits : BitVec 32) (h : 0 ≤ bits.toInt) : BitVec.sle 8#32 bits = decide (8 ≤ bits.toNat) := by
  have := toInt_of_nonneg bits h
  rw [BitVec.sle_eq_decide]
  have e : (8#32).toInt = 8 := by decide
  rw [e]
  apply decide_eq_decide.mpr
  omega

theorem sub8_toNat (bits : BitVec 32) (h8 : 8 ≤ bits.toNat) : (bits - 8#32).toNat = bits.toNat - 8 := by
  bv_omega

theorem sub8_nonneg (bits : BitVec 32) (h : 0 ≤ bits.toInt) (h8 : 8 ≤ bits.toNat) : 0 ≤ (bits - 8#32).toInt := by
  have := toNat_lt_of_nonneg bits h
  rw [toInt_of_small _ (by rw [sub8_toNat bits h8]; omega)]
  omega

theorem sSubOk8 (bits : BitVec 32) (h : 0 ≤ bits.toInt) : sSubOk bits 8#32 = true := by
  have e : (8#32).toInt = 8 := by decide
  have := toInt_of_nonneg bits h
  have := toNat_lt_of_nonneg bits h
  simp only [sSubOk, BitVec.ssubOverflow, e]
  simp
  omega

theorem shr8_lt (b n : Nat) (h8 : 8 ≤ n) (h : b < 2 ^ n) : b >>> 8 < 2 ^ (n - 8) := by
  rw [Nat.shiftRight_eq_div_pow]
  apply Nat.div_lt_of_lt_mul
  rw [← Nat.pow_add]
  have : 8 + (n - 8) = n := by omega
  rw [this]; exact h

/-! ### `flush_buffer` -/

/-- the translated loop of `flush_buffer` against the model's `flushLoop`, for every sufficient fuel on both sides (the
model runs with `buffer_bits / 8`, the translation with 9) -/
theorem flush_loop_spec : ∀ (fuel : Nat) (data : List UInt8) (cap bp : BitVec 64) (bpos : BitVec 32) (buf : BitVec 64)
    (bits : BitVec 32), bp.toNat ≤ cap.toNat → cap.toNat ≤ data.length → 0 ≤ bits.toInt → bits.toNat / 8 < fuel →
    ∃ s' d', Gen.CFun.flush_buffer_loop1 fuel data 0 cap bp bpos buf bits = (s', d') ∧
      wrAbs s' d' = BitIO.flushLoop (bits.toNat / 8) (wrAbs ⟨0, cap, bp, bpos, buf, bits⟩ data) ∧
      Frame ⟨0, cap, bp, bpos, buf, bits⟩ data s' d' ∧
      s'.byte_pos.toNat ≤ cap.toNat ∧ s'.buffer_bits.toNat = bits.toNat % 8 ∧
      (buf.toNat < 2 ^ bits.toNat → s'.buffer.toNat < 2 ^ s'.buffer_bits.toNat) ∧
      Gen.CFun.flush_buffer_loop1_defined fuel data 0 cap bp bpos buf bits = true := by
  intro fuel
  induction fuel with
  | zero => intro _ _ _ _ _ _ _ _ _ hf; omega
  | succ f ih =>
    intro data cap bp bpos buf bits hp hc hn hf
    rw [Gen.CFun.flush_buffer_loop1, Gen.CFun.flush_buffer_loop1_defined, sle8_iff bits hn]
    by_cases h8 : 8 ≤ bits.toNat
    · -- one more byte leaves the accumulator
      simp only [h8, decide_true, if_true]
      have hdiv : bits.toNat / 8 = (bits.toNat - 8) / 8 + 1 := by omega
      have hsub := sub8_toNat bits h8
      by_cases hlt : bp < cap
      · -- stored
        have hlt' : bp.toNat < cap.toNat := BitVec.lt_def.mp hlt
        have hbp1 : (bp + 1#64).toNat = bp.toNat + 1 := by bv_omega
        obtain ⟨s', d', e, habs, hfr, hpos, hbits, hbuf, hdef⟩ :=
          ih (wr8 data bp.toNat (BitVec.setWidth 8 buf)) cap (bp + 1#64) bpos (buf >>> 8) (bits - 8#32)
            (by omega) (by simp [wr8]; omega) (sub8_nonneg bits hn h8) (by omega)
        refine ⟨s', d', by simpa [hlt] using e, ?_, ?_, hpos, by rw [hbits, hsub]; omega, ?_, ?_⟩
        · rw [habs, hdiv, BitIO.flushLoop]
          have hlen : (List.take bp.toNat data).length < cap.toNat := by
            rw [List.length_take]; omega
          simp only [wrAbs, hsub, hbp1, wr8, BitVec.toNat_ushiftRight, hlen, h8, if_true,
            take_set_succ data bp.toNat _ (by omega), ofBitVec_setWidth8]
        · have l1 := hfr.len
          have l2 := hfr.mono
          have l3 := hfr.tail
          simp only [hbp1, wr8, List.length_set] at l1 l2 l3
          have l4' := hfr.head
          simp only [hbp1, wr8] at l4'
          have l4 := take_of_take_eq (Nat.le_succ bp.toNat) l4'
          refine ⟨l1, by simp only; omega, by rw [l4, List.take_set_of_le (Nat.le_refl _)], ?_, hfr.cap, hfr.dat, hfr.bitpos⟩
          rw [l3]
          exact drop_of_drop_eq l2 (drop_set_succ _ _ _)
        · intro hb
          exact hbuf (by rw [BitVec.toNat_ushiftRight, hsub]; exact shr8_lt _ _ h8 hb)
        · simp only [hlt, decide_true, if_true, sSubOk8 bits hn, Bool.true_and, inb, Nat.zero_add]
          rw [Bool.and_eq_true]
          exact ⟨by simp; omega, by simpa [hlt] using hdef⟩
      · -- output full: the byte is dropped
        obtain ⟨s', d', e, habs, hfr, hpos, hbits, hbuf, hdef⟩ :=
          ih data cap bp bpos (buf >>> 8) (bits - 8#32) hp hc (sub8_nonneg bits hn h8) (by omega)
        have hge : ¬ bp.toNat < cap.toNat := fun h => hlt (BitVec.lt_def.mpr h)
        refine ⟨s', d', by simpa [hlt] using e, ?_, ?_, hpos, by rw [hbits, hsub]; omega, ?_, ?_⟩
        · rw [habs, hdiv, BitIO.flushLoop]
          have hlen : ¬ (List.take bp.toNat data).length < cap.toNat := by
            rw [List.length_take]; omega
          simp only [wrAbs, hsub, BitVec.toNat_ushiftRight, hlen, h8, if_true, if_false]
        · exact ⟨hfr.len, hfr.mono, hfr.head, hfr.tail, hfr.cap, hfr.dat, hfr.bitpos⟩
        · intro hb
          exact hbuf (by rw [BitVec.toNat_ushiftRight, hsub]; exact shr8_lt _ _ h8 hb)
        · simp only [hlt, decide_false, sSubOk8 bits hn, Bool.true_and]
          simpa [hlt] using hdef
    · -- fewer than 8 bits left: done
      simp only [h8, decide_false]
      have hdiv : bits.toNat / 8 = 0 := by omega
      refine ⟨_, _, rfl, by rw [hdiv]; rfl, Frame.refl _ _, hp, by simp only; omega, fun hb => hb, by simp⟩


theorem WrInvP.mono {m m' : Nat} {s : carquet_bit_writer_t} {data : List UInt8} (h : WrInvP m s data) (hm : m ≤ m') :
    WrInvP m' s data :=
  ⟨h.dat, h.pos, h.cap, h.nonneg, by have := h.bits; omega, h.buf⟩

/-- `flush_buffer` entered with at most 71 pending bits: the model's `flushBuffer`; fewer than 8 bits stay -/
theorem flush_buffer_spec (s : carquet_bit_writer_t) (data : List UInt8) (h : WrInvP 71 s data) :
    ∃ s' d', Gen.CFun.flush_buffer s data = (s', d') ∧ wrAbs s' d' = BitIO.flushBuffer (wrAbs s data) ∧
      Frame s data s' d' ∧ WrInvP 7 s' d' ∧ Gen.CFun.flush_buffer_defined s data = true := by
  have hb := h.bitsNat
  obtain ⟨s', d', e, habs, hfr, hpos, hbits, hbuf, hdef⟩ :=
    flush_loop_spec 9 data s.capacity s.byte_pos s.bit_pos s.buffer s.buffer_bits h.pos h.cap h.nonneg (by omega)
  have hs : (⟨0, s.capacity, s.byte_pos, s.bit_pos, s.buffer, s.buffer_bits⟩ : carquet_bit_writer_t) = s := by
    have hd := h.dat
    cases s; simp only at hd; subst hd; rfl
  rw [hs] at habs hfr
  have hd := h.dat
  refine ⟨s', d', by rw [Gen.CFun.flush_buffer, hd]; exact e, habs, hfr, ?_, by rw [Gen.CFun.flush_buffer_defined, hd]; exact hdef⟩
  have hlt : s'.buffer_bits.toNat < 8 := by omega
  have hi := toInt_of_small s'.buffer_bits (by omega)
  exact ⟨by rw [hfr.dat, hd], by rw [hfr.cap]; exact hpos, by rw [hfr.cap, hfr.len]; exact h.cap, by omega, by omega,
    hbuf h.buf⟩

theorem sle56_iff (bits : BitVec 32) (h : 0 ≤ bits.toInt) : BitVec.sle 56#32 bits = decide (56 ≤ bits.toNat) := by
  have := toInt_of_nonneg bits h
  rw [BitVec.sle_eq_decide]
  have e : (56#32).toInt = 56 := by decide
  rw [e]
  apply decide_eq_decide.mpr
  omega

theorem slt32_iff (bits : BitVec 32) (h : 0 ≤ bits.toInt) : BitVec.slt 32#32 bits = decide (32 < bits.toNat) := by
  have := toInt_of_nonneg bits h
  rw [BitVec.slt_eq_decide]
  have e : (32#32).toInt = 32 := by decide
  rw [e]
  apply decide_eq_decide.mpr
  omega

/-- `if (writer->buffer_bits >= 56) flush_buffer(writer);` -/
def flushIf56 (s : carquet_bit_writer_t) (data : List UInt8) : carquet_bit_writer_t × List UInt8 :=
  if BitVec.sle 56#32 s.buffer_bits then Gen.CFun.flush_buffer s data else (s, data)

def flushIf56_defined (s : carquet_bit_writer_t) (data : List UInt8) : Bool :=
  if BitVec.sle 56#32 s.buffer_bits then Gen.CFun.flush_buffer_defined s data else true

theorem flushIf56_spec (s : carquet_bit_writer_t) (data : List UInt8) (h : WrInvP 64 s data) :
    ∃ s' d', flushIf56 s data = (s', d') ∧ wrAbs s' d' = BitIO.flushIfFull (wrAbs s data) ∧
      Frame s data s' d' ∧ WrInvP 55 s' d' ∧ flushIf56_defined s data = true := by
  unfold flushIf56 flushIf56_defined BitIO.flushIfFull
  rw [sle56_iff _ h.nonneg]
  by_cases h56 : 56 ≤ s.buffer_bits.toNat
  · obtain ⟨s', d', e, habs, hfr, hinv, hdef⟩ := flush_buffer_spec s data (h.mono (by omega))
    have : (wrAbs s data).bufferBits ≥ 56 := h56
    exact ⟨s', d', by simp only [h56, decide_true, if_true, e], by rw [if_pos this, habs], hfr, hinv.mono (by omega),
      by simp only [h56, decide_true, if_true, hdef]⟩
  · have : ¬ (wrAbs s data).bufferBits ≥ 56 := h56
    refine ⟨s, data, by simp only [h56, decide_false]; rfl, by rw [if_neg this], Frame.refl _ _, ?_, by simp [h56]⟩
    exact ⟨h.dat, h.pos, h.cap, h.nonneg, by have := toInt_of_nonneg _ h.nonneg; omega, h.buf⟩

/-- `if (writer->buffer_bits > 32) flush_buffer(writer);` -/
def makeRoomC (s : carquet_bit_writer_t) (data : List UInt8) : carquet_bit_writer_t × List UInt8 :=
  if BitVec.slt 32#32 s.buffer_bits then Gen.CFun.flush_buffer s data else (s, data)

def makeRoomC_defined (s : carquet_bit_writer_t) (data : List UInt8) : Bool :=
  if BitVec.slt 32#32 s.buffer_bits then Gen.CFun.flush_buffer_defined s data else true

theorem makeRoomC_spec (s : carquet_bit_writer_t) (data : List UInt8) (h : WrInvP 55 s data) :
    ∃ s' d', makeRoomC s data = (s', d') ∧ wrAbs s' d' = BitIO.makeRoom (wrAbs s data) ∧
      Frame s data s' d' ∧ WrInvP 32 s' d' ∧ makeRoomC_defined s data = true := by
  unfold makeRoomC makeRoomC_defined BitIO.makeRoom
  rw [slt32_iff _ h.nonneg]
  by_cases h32 : 32 < s.buffer_bits.toNat
  · obtain ⟨s', d', e, habs, hfr, hinv, hdef⟩ := flush_buffer_spec s data (h.mono (by omega))
    have : (wrAbs s data).bufferBits > 32 := h32
    exact ⟨s', d', by simp only [h32, decide_true, if_true, e], by rw [if_pos this, habs], hfr, hinv.mono (by omega),
      by simp only [h32, decide_true, if_true, hdef]⟩
  · have : ¬ (wrAbs s data).bufferBits > 32 := h32
    refine ⟨s, data, by simp only [h32, decide_false]; rfl, by rw [if_neg this], Frame.refl _ _, ?_, by simp [h32]⟩
    exact ⟨h.dat, h.pos, h.cap, h.nonneg, by have := toInt_of_nonneg _ h.nonneg; omega, h.buf⟩


/-! ### `buffer |= x << buffer_bits; buffer_bits += k` -/

theorem or_shl_toNat (b e : BitVec 64) (k : Nat) : (b ||| e <<< k).toNat = (b.toNat ||| e.toNat <<< k) % 2 ^ 64 := by
  rw [BitVec.toNat_or, BitVec.toNat_shiftLeft, Nat.or_mod_two_pow, Nat.mod_eq_of_lt b.isLt]

theorem or_shl_lt (b e k m : Nat) (hb : b < 2 ^ k) (he : e < 2 ^ m) : (b ||| e <<< k) % 2 ^ 64 < 2 ^ (k + m) := by
  apply Nat.lt_of_le_of_lt (Nat.mod_le _ _)
  apply Nat.or_lt_two_pow
  · exact Nat.lt_of_lt_of_le hb (Nat.pow_le_pow_right (by decide) (by omega))
  · rw [Nat.shiftLeft_eq, Nat.add_comm k m, Nat.pow_add]
    exact Nat.mul_lt_mul_of_pos_right he (Nat.two_pow_pos k)

theorem add_small_toNat (a b : BitVec 32) (h : a.toNat + b.toNat < 2 ^ 31) : (a + b).toNat = a.toNat + b.toNat := by
  bv_omega

theorem sAddOk_small' (a b : BitVec 32) (ha : 0 ≤ a.toInt) (hb : 0 ≤ b.toInt) (h : a.toNat + b.toNat < 2 ^ 31) :
    sAddOk a b = true := by
  have := toInt_of_nonneg a ha
  have := toInt_of_nonneg b hb
  simp only [sAddOk, BitVec.saddOverflow]
  simp
  omega

theorem shCountOk_small (w : Nat) (n : BitVec 32) (h : 0 ≤ n.toInt) (hw : n.toNat < w) : shCountOk true w n = true := by
  have := toNat_lt_of_nonneg n h
  simp only [shCountOk, BitVec.msb_eq_decide]
  simp
  omega

/-- the state after `buffer |= x << buffer_bits; buffer_bits += k` -/
def pushC (s : carquet_bit_writer_t) (x : BitVec 64) (k : BitVec 32) : carquet_bit_writer_t :=
  { s with buffer := s.buffer ||| x <<< s.buffer_bits.toNat, buffer_bits := s.buffer_bits + k }

theorem push_inv (s : carquet_bit_writer_t) (data : List UInt8) (x : BitVec 64) (k : BitVec 32) (m : Nat)
    (h : WrInvP m s data) (hm : m ≤ 1000) (hk : 0 ≤ k.toInt) (hk' : k.toNat ≤ 1000) (hx : x.toNat < 2 ^ k.toNat) :
    WrInvP (m + k.toNat) (pushC s x k) data ∧
    wrAbs (pushC s x k) data =
      { wrAbs s data with buffer := ((wrAbs s data).buffer ||| (x.toNat <<< (wrAbs s data).bufferBits)) % 2 ^ 64,
                          bufferBits := (wrAbs s data).bufferBits + k.toNat } ∧
    Frame s data (pushC s x k) data ∧
    sAddOk s.buffer_bits k = true := by
  have hb := h.bitsNat
  have hadd : (s.buffer_bits + k).toNat = s.buffer_bits.toNat + k.toNat := add_small_toNat _ _ (by omega)
  refine ⟨⟨h.dat, h.pos, h.cap, ?_, ?_, ?_⟩, ?_, ⟨rfl, Nat.le_refl _, rfl, rfl, rfl, rfl, rfl⟩,
    sAddOk_small' _ _ h.nonneg hk (by omega)⟩
  · show 0 ≤ (s.buffer_bits + k).toInt
    rw [toInt_of_small _ (by rw [hadd]; omega)]; omega
  · show (s.buffer_bits + k).toInt ≤ _
    rw [toInt_of_small _ (by rw [hadd]; omega), hadd]; omega
  · simp only [pushC, hadd, or_shl_toNat]
    exact or_shl_lt _ _ _ _ h.buf hx
  · simp only [pushC, wrAbs, hadd, or_shl_toNat]

/-! ### `carquet_bit_writer_write_bit` -/

theorem bit_and_one (bit : BitVec 32) : (BitVec.signExtend 64 (bit &&& 1#32)).toNat = bit.toNat &&& 1 := by
  have hm : (bit &&& 1#32).msb = false := by simp [BitVec.msb_and]
  rw [BitVec.signExtend_eq_setWidth_of_msb_false hm, BitVec.toNat_setWidth, BitVec.toNat_and]
  have : bit.toNat &&& (1#32).toNat ≤ 1 := Nat.and_le_right
  exact Nat.mod_eq_of_lt (by omega)

theorem write_bit_eq (s : carquet_bit_writer_t) (data : List UInt8) (bit : BitVec 32) :
    Gen.CFun.carquet_bit_writer_write_bit s data bit =
      flushIf56 (pushC s (BitVec.signExtend 64 (bit &&& 1#32)) 1#32) data := rfl

theorem write_bit_defined_eq (s : carquet_bit_writer_t) (data : List UInt8) (bit : BitVec 32) :
    Gen.CFun.carquet_bit_writer_write_bit_defined s data bit =
      (shCountOk true 64 s.buffer_bits && (sAddOk s.buffer_bits 1#32 &&
        flushIf56_defined (pushC s (BitVec.signExtend 64 (bit &&& 1#32)) 1#32) data)) := rfl

theorem write_bit_spec (s : carquet_bit_writer_t) (data : List UInt8) (bit : BitVec 32) (h : WrInvP 55 s data) :
    ∃ s' d', Gen.CFun.carquet_bit_writer_write_bit s data bit = (s', d') ∧
      wrAbs s' d' = BitIO.writeBit (wrAbs s data) bit.toNat ∧ Frame s data s' d' ∧ WrInvP 55 s' d' ∧
      Gen.CFun.carquet_bit_writer_write_bit_defined s data bit = true := by
  have h1 : (1#32).toNat = 1 := rfl
  have hx : (BitVec.signExtend 64 (bit &&& 1#32)).toNat < 2 ^ (1#32).toNat := by
    rw [bit_and_one]; have : bit.toNat &&& 1 ≤ 1 := Nat.and_le_right; rw [h1]; omega
  obtain ⟨pinv, pabs, pfr, padd⟩ := push_inv s data (BitVec.signExtend 64 (bit &&& 1#32)) 1#32 55 h (by omega)
    (by decide) (by decide) hx
  obtain ⟨s', d', e, habs, hfr, hinv, hdef⟩ := flushIf56_spec _ data (pinv.mono (by decide))
  refine ⟨s', d', by rw [write_bit_eq, e], ?_, pfr.trans hfr, hinv, ?_⟩
  · rw [habs, pabs, bit_and_one]; rfl
  · rw [write_bit_defined_eq, hdef, padd, shCountOk_small 64 _ h.nonneg (by have := h.bitsNat; omega)]; rfl


/-! ### `carquet_bit_writer_write_bits` -/

/-- `if (num_bits > 32) num_bits = 32;` -/
def clamp32 (n : BitVec 32) : BitVec 32 := if BitVec.slt 32#32 n then 32#32 else n

/-- `num_bits == 32 ? ~0U : (1U << num_bits) - 1` -/
def maskC (k : BitVec 32) : BitVec 32 := if k == 32#32 then ~~~0#32 else (1#32 <<< k.toNat) - 1#32

def maskC_defined (k : BitVec 32) : Bool := if k == 32#32 then true else shCountOk true 32 k

theorem clamp32_spec (n : BitVec 32) (hn : 0 ≤ n.toInt) :
    0 ≤ (clamp32 n).toInt ∧ (clamp32 n).toNat = min n.toNat 32 := by
  unfold clamp32
  rw [slt32_iff n hn]
  by_cases h : 32 < n.toNat
  · simp only [h, decide_true, if_true]
    exact ⟨by decide, by simp only [BitVec.toNat_ofNat]; omega⟩
  · simp only [h, decide_false, Bool.false_eq_true, if_false]
    exact ⟨hn, by omega⟩

theorem maskC_spec (k : BitVec 32) (hk : 0 ≤ k.toInt) (h32 : k.toNat ≤ 32) :
    (maskC k).toNat = BitIO.mask32 k.toNat ∧ maskC_defined k = true := by
  unfold maskC maskC_defined BitIO.mask32
  by_cases h : k = 32#32
  · subst h; exact ⟨by decide, by decide⟩
  · have hne : k.toNat ≠ 32 := fun e => h (BitVec.eq_of_toNat_eq e)
    have hb : (k == 32#32) = false := by simp [h]
    rw [hb, if_neg hne]
    refine ⟨?_, by simp only [Bool.false_eq_true, if_false]; exact shCountOk_small 32 k hk (by omega)⟩
    simp only [Bool.false_eq_true, if_false]
    have h1 : (1 : Nat) <<< k.toNat = 2 ^ k.toNat := by rw [Nat.shiftLeft_eq, Nat.one_mul]
    have h2 : (2 : Nat) ^ k.toNat ≤ 2 ^ 31 := Nat.pow_le_pow_right (by decide) (by omega)
    have h3 := Nat.two_pow_pos k.toNat
    simp only [BitVec.toNat_sub, BitVec.toNat_shiftLeft, BitVec.toNat_ofNat, h1]
    omega

theorem mask32_lt (k : Nat) (h32 : k ≤ 32) : BitIO.mask32 k < 2 ^ k := by
  unfold BitIO.mask32
  split
  · subst k; decide
  · have h1 : (1 : Nat) <<< k = 2 ^ k := by rw [Nat.shiftLeft_eq, Nat.one_mul]
    have h3 := Nat.two_pow_pos k
    omega

/-- `(uint64_t)(value & mask)` -/
theorem masked_toNat (v k : BitVec 32) (hk : 0 ≤ k.toInt) (h32 : k.toNat ≤ 32) :
    (BitVec.setWidth 64 (v &&& maskC k)).toNat = (v.toNat % 2 ^ 32) &&& BitIO.mask32 k.toNat := by
  rw [BitVec.toNat_setWidth, BitVec.toNat_and, (maskC_spec k hk h32).1, Nat.mod_eq_of_lt v.isLt]
  exact Nat.mod_eq_of_lt (Nat.lt_of_le_of_lt Nat.and_le_left (by have := v.isLt; omega))

/-- `write_bits` after `if (num_bits == 0) return;` as the three steps of the C text -/
def writeBitsRef (s : carquet_bit_writer_t) (data : List UInt8) (v n : BitVec 32) : carquet_bit_writer_t × List UInt8 :=
  flushIf56 (pushC (makeRoomC s data).1 (BitVec.setWidth 64 (v &&& maskC (clamp32 n))) (clamp32 n)) (makeRoomC s data).2

def writeBitsRef_defined (s : carquet_bit_writer_t) (data : List UInt8) (v n : BitVec 32) : Bool :=
  makeRoomC_defined s data && (maskC_defined (clamp32 n) && (shCountOk true 64 (makeRoomC s data).1.buffer_bits &&
    (sAddOk (makeRoomC s data).1.buffer_bits (clamp32 n) &&
      flushIf56_defined (pushC (makeRoomC s data).1 (BitVec.setWidth 64 (v &&& maskC (clamp32 n))) (clamp32 n))
        (makeRoomC s data).2)))

theorem write_bits_eq (s : carquet_bit_writer_t) (data : List UInt8) (v n : BitVec 32) :
    Gen.CFun.carquet_bit_writer_write_bits s data v n = if n == 0#32 then (s, data) else writeBitsRef s data v n := by
  unfold Gen.CFun.carquet_bit_writer_write_bits writeBitsRef makeRoomC
  by_cases h0 : (n == 0#32) = true
  · simp only [h0, if_true]
  · by_cases h1 : BitVec.slt 32#32 s.buffer_bits = true
    · simp only [h0, h1, if_true]; rfl
    · simp only [h0, h1]; rfl

theorem write_bits_defined_eq (s : carquet_bit_writer_t) (data : List UInt8) (v n : BitVec 32) :
    Gen.CFun.carquet_bit_writer_write_bits_defined s data v n =
      if n == 0#32 then true else writeBitsRef_defined s data v n := by
  unfold Gen.CFun.carquet_bit_writer_write_bits_defined writeBitsRef_defined makeRoomC makeRoomC_defined
  by_cases h0 : (n == 0#32) = true
  · simp only [h0, if_true]
  · by_cases h1 : BitVec.slt 32#32 s.buffer_bits = true
    · simp only [h0, h1, if_true]; rfl
    · simp only [h0, h1]; rfl

theorem write_bits_spec (s : carquet_bit_writer_t) (data : List UInt8) (v n : BitVec 32) (h : WrInvP 55 s data)
    (hn : 0 ≤ n.toInt) :
    ∃ s' d', Gen.CFun.carquet_bit_writer_write_bits s data v n = (s', d') ∧
      wrAbs s' d' = BitIO.writeBits (wrAbs s data) v.toNat n.toNat ∧ Frame s data s' d' ∧ WrInvP 55 s' d' ∧
      Gen.CFun.carquet_bit_writer_write_bits_defined s data v n = true := by
  rw [write_bits_eq, write_bits_defined_eq]
  unfold BitIO.writeBits
  by_cases h0 : n = 0#32
  · subst h0
    exact ⟨s, data, rfl, rfl, Frame.refl _ _, h, rfl⟩
  · have hne : n.toNat ≠ 0 := fun e => h0 (BitVec.eq_of_toNat_eq e)
    have hb : (n == 0#32) = false := by simp [h0]
    simp only [hb, Bool.false_eq_true, if_false, hne]
    obtain ⟨hc0, hc1⟩ := clamp32_spec n hn
    have hc32 : (clamp32 n).toNat ≤ 32 := by omega
    unfold writeBitsRef writeBitsRef_defined
    obtain ⟨s1, d1, e1, abs1, fr1, inv1, def1⟩ := makeRoomC_spec s data h
    rw [e1, def1]
    have hx : (BitVec.setWidth 64 (v &&& maskC (clamp32 n))).toNat < 2 ^ (clamp32 n).toNat := by
      rw [masked_toNat v _ hc0 hc32]
      exact Nat.lt_of_le_of_lt Nat.and_le_right (mask32_lt _ hc32)
    obtain ⟨pinv, pabs, pfr, padd⟩ := push_inv s1 d1 (BitVec.setWidth 64 (v &&& maskC (clamp32 n))) (clamp32 n) 32 inv1
      (by omega) hc0 (by omega) hx
    obtain ⟨s2, d2, e2, abs2, fr2, inv2, def2⟩ := flushIf56_spec _ d1 (pinv.mono (by omega))
    refine ⟨s2, d2, e2, ?_, fr1.trans (pfr.trans fr2), inv2, ?_⟩
    · rw [abs2, pabs, masked_toNat v _ hc0 hc32, abs1, hc1]
    · simp only [def2, padd, (maskC_spec _ hc0 hc32).2, Bool.and_true, Bool.true_and]
      exact shCountOk_small 64 _ inv1.nonneg (by have := inv1.bitsNat; omega)


/-! ### `carquet_bit_writer_write_bits64` -/

theorem slt64_iff (n : BitVec 32) (h : 0 ≤ n.toInt) : BitVec.slt 64#32 n = decide (64 < n.toNat) := by
  have := toInt_of_nonneg n h
  rw [BitVec.slt_eq_decide]
  have e : (64#32).toInt = 64 := by decide
  rw [e]
  apply decide_eq_decide.mpr
  omega

/-- `if (num_bits > 64) num_bits = 64;` -/
theorem clamp64_spec (n : BitVec 32) (hn : 0 ≤ n.toInt) :
    0 ≤ (if BitVec.slt 64#32 n then 64#32 else n).toInt ∧
    (if BitVec.slt 64#32 n then 64#32 else n).toNat = min n.toNat 64 := by
  rw [slt64_iff n hn]
  by_cases h : 64 < n.toNat
  · simp only [h, decide_true, if_true]
    exact ⟨by decide, by simp only [BitVec.toNat_ofNat]; omega⟩
  · simp only [h, decide_false, Bool.false_eq_true, if_false]
    exact ⟨hn, by omega⟩

theorem sle32_iff (k : BitVec 32) (h : 0 ≤ k.toInt) : BitVec.sle k 32#32 = decide (k.toNat ≤ 32) := by
  have := toInt_of_nonneg k h
  rw [BitVec.sle_eq_decide]
  have e : (32#32).toInt = 32 := by decide
  rw [e]
  apply decide_eq_decide.mpr
  omega

theorem hi32_toNat (value : BitVec 64) : (BitVec.setWidth 32 (value >>> 32)).toNat = (value.toNat % 2 ^ 64) >>> 32 := by
  rw [BitVec.toNat_setWidth, BitVec.toNat_ushiftRight, Nat.mod_eq_of_lt value.isLt]
  apply Nat.mod_eq_of_lt
  rw [Nat.shiftRight_eq_div_pow]
  have := value.isLt
  omega

theorem write_bits64_spec (s : carquet_bit_writer_t) (data : List UInt8) (value : BitVec 64) (n : BitVec 32)
    (h : WrInvP 55 s data) (hn : 0 ≤ n.toInt) :
    ∃ s' d', Gen.CFun.carquet_bit_writer_write_bits64 s data value n = (s', d') ∧
      wrAbs s' d' = BitIO.writeBits64 (wrAbs s data) value.toNat n.toNat ∧ Frame s data s' d' ∧ WrInvP 55 s' d' ∧
      Gen.CFun.carquet_bit_writer_write_bits64_defined s data value n = true := by
  unfold Gen.CFun.carquet_bit_writer_write_bits64 Gen.CFun.carquet_bit_writer_write_bits64_defined BitIO.writeBits64
  by_cases h0 : n = 0#32
  · subst h0
    exact ⟨s, data, rfl, rfl, Frame.refl _ _, h, rfl⟩
  · have hne : n.toNat ≠ 0 := fun e => h0 (BitVec.eq_of_toNat_eq e)
    have hb : (n == 0#32) = false := by simp [h0]
    obtain ⟨hc0, hc1⟩ := clamp64_spec n hn
    simp only [hb, Bool.false_eq_true, if_false, hne]
    rw [sle32_iff _ hc0, hc1]
    have hlo : (BitVec.setWidth 32 value).toNat = value.toNat % 2 ^ 32 := by simp [BitVec.toNat_setWidth]
    by_cases h32 : min n.toNat 64 ≤ 32
    · simp only [h32, decide_true, if_true]
      obtain ⟨s1, d1, e1, abs1, fr1, inv1, def1⟩ := write_bits_spec s data (BitVec.setWidth 32 value) _ h hc0
      exact ⟨s1, d1, by rw [e1], by rw [abs1, hlo, hc1], fr1, inv1, def1⟩
    · simp only [h32, decide_false, Bool.false_eq_true, if_false]
      obtain ⟨s1, d1, e1, abs1, fr1, inv1, def1⟩ := write_bits_spec s data (BitVec.setWidth 32 value) 32#32 h (by decide)
      have hsub : ((if BitVec.slt 64#32 n then 64#32 else n) - 32#32).toNat = min n.toNat 64 - 32 := by
        rw [← hc1]
        have : 32 ≤ (if BitVec.slt 64#32 n then 64#32 else n).toNat := by omega
        bv_omega
      have hsub0 : 0 ≤ ((if BitVec.slt 64#32 n then 64#32 else n) - 32#32).toInt := by
        rw [toInt_of_small _ (by rw [hsub]; omega)]; omega
      obtain ⟨s2, d2, e2, abs2, fr2, inv2, def2⟩ := write_bits_spec s1 d1 (BitVec.setWidth 32 (value >>> 32)) _ inv1 hsub0
      have hok : sSubOk (if BitVec.slt 64#32 n then 64#32 else n) 32#32 = true := by
        have e32 : (32#32).toInt = 32 := by decide
        have := toInt_of_nonneg _ hc0
        simp only [sSubOk, BitVec.ssubOverflow, e32]
        simp
        omega
      refine ⟨s2, d2, by rw [e1]; exact e2, ?_, fr1.trans fr2, inv2, by rw [def1, e1]; simp only [hok, def2, Bool.and_true]⟩
      rw [abs2, abs1, hlo, hi32_toNat, hsub]
      rfl

/-! ### `carquet_bit_writer_flush` -/

theorem slt0_iff (k : BitVec 32) (h : 0 ≤ k.toInt) : BitVec.slt 0#32 k = decide (0 < k.toNat) := by
  have := toInt_of_nonneg k h
  rw [BitVec.slt_eq_decide]
  have e : (0#32).toInt = 0 := by decide
  rw [e]
  apply decide_eq_decide.mpr
  omega

/-- `buffer_bits > 0 && byte_pos < capacity` -/
def tailCond (s : carquet_bit_writer_t) : Bool := BitVec.slt 0#32 s.buffer_bits && decide (s.byte_pos < s.capacity)

/-- the partial byte: `if (…) { data[byte_pos++] = (uint8_t)buffer; buffer = 0; buffer_bits = 0; }` -/
def flushTail (s : carquet_bit_writer_t) (data : List UInt8) : carquet_bit_writer_t × List UInt8 :=
  ({ s with byte_pos := if tailCond s then s.byte_pos + 1#64 else s.byte_pos,
            buffer := if tailCond s then 0#64 else s.buffer,
            buffer_bits := if tailCond s then 0#32 else s.buffer_bits },
   if tailCond s then wr8 data (s.data + s.byte_pos.toNat) (BitVec.setWidth 8 s.buffer) else data)

def flushTail_defined (s : carquet_bit_writer_t) (data : List UInt8) : Bool :=
  if tailCond s then inb data (s.data + s.byte_pos.toNat) 1 else true

theorem flush_eq (s : carquet_bit_writer_t) (data : List UInt8) :
    Gen.CFun.carquet_bit_writer_flush s data =
      flushTail (Gen.CFun.flush_buffer s data).1 (Gen.CFun.flush_buffer s data).2 := rfl

theorem flush_defined_eq (s : carquet_bit_writer_t) (data : List UInt8) :
    Gen.CFun.carquet_bit_writer_flush_defined s data =
      (Gen.CFun.flush_buffer_defined s data &&
        flushTail_defined (Gen.CFun.flush_buffer s data).1 (Gen.CFun.flush_buffer s data).2) := rfl

theorem flushTail_pos (s : carquet_bit_writer_t) (data : List UInt8) (h : tailCond s = true) :
    flushTail s data = ({ s with byte_pos := s.byte_pos + 1#64, buffer := 0#64, buffer_bits := 0#32 },
      wr8 data (s.data + s.byte_pos.toNat) (BitVec.setWidth 8 s.buffer)) := by
  simp only [flushTail, h, if_true]

theorem flushTail_neg (s : carquet_bit_writer_t) (data : List UInt8) (h : tailCond s = false) :
    flushTail s data = (s, data) := by
  simp only [flushTail, h, Bool.false_eq_true, if_false]

theorem flush_spec (s : carquet_bit_writer_t) (data : List UInt8) (h : WrInvP 55 s data) :
    ∃ s' d', Gen.CFun.carquet_bit_writer_flush s data = (s', d') ∧
      wrAbs s' d' = BitIO.flush (wrAbs s data) ∧ Frame s data s' d' ∧ WrInvP 55 s' d' ∧
      Gen.CFun.carquet_bit_writer_flush_defined s data = true := by
  obtain ⟨s1, d1, e1, abs1, fr1, inv1, def1⟩ := flush_buffer_spec s data (h.mono (by omega))
  rw [flush_eq, flush_defined_eq, e1, def1]
  unfold BitIO.flush flushTail_defined
  rw [← abs1]
  have hd := inv1.dat
  have hlen : (wrAbs s1 d1).out.length = s1.byte_pos.toNat := by
    simp only [wrAbs, List.length_take]; have := inv1.pos; have := inv1.cap; omega
  by_cases hc : 0 < s1.buffer_bits.toNat ∧ s1.byte_pos.toNat < s1.capacity.toNat
  · have hcb : tailCond s1 = true := by
      unfold tailCond
      rw [slt0_iff _ inv1.nonneg]; simp [BitVec.lt_def, hc.1, hc.2]
    have hcm : (wrAbs s1 d1).bufferBits > 0 ∧ (wrAbs s1 d1).out.length < (wrAbs s1 d1).cap := by
      rw [hlen]; exact hc
    have hbp1 : (s1.byte_pos + 1#64).toNat = s1.byte_pos.toNat + 1 := by have := hc.2; bv_omega
    have hin : s1.byte_pos.toNat < d1.length := by have := inv1.cap; omega
    rw [flushTail_pos _ _ hcb, if_pos hcm]
    refine ⟨_, _, rfl, ?_, fr1.trans ?_, ?_, ?_⟩
    · simp only [wrAbs, hd, Nat.zero_add, hbp1, wr8, take_set_succ d1 _ _ hin, ofBitVec_setWidth8]
      rfl
    · exact ⟨by simp [wr8], by simp only [hbp1]; omega,
        by simp only [hd, Nat.zero_add, wr8]; exact List.take_set_of_le (Nat.le_refl _),
        by simp only [hd, Nat.zero_add, hbp1, wr8]; exact drop_set_succ _ _ _, rfl, rfl, rfl⟩
    · refine ⟨hd, by simp only [hbp1]; omega, by simp only [wr8, List.length_set]; exact inv1.cap, ?_, ?_, ?_⟩
      · show (0 : Int) ≤ (0#32).toInt; decide
      · show (0#32).toInt ≤ 55; decide
      · show (0#64).toNat < 2 ^ (0#32).toNat; decide
    · simp only [hcb, if_true, inb, Bool.true_and, hd, Nat.zero_add]
      simp; omega
  · have hcb : tailCond s1 = false := by
      unfold tailCond
      rw [slt0_iff _ inv1.nonneg]
      simp only [BitVec.lt_def, Bool.and_eq_false_iff, decide_eq_false_iff_not]
      omega
    have hcm : ¬ ((wrAbs s1 d1).bufferBits > 0 ∧ (wrAbs s1 d1).out.length < (wrAbs s1 d1).cap) := by
      rw [hlen]; exact hc
    rw [flushTail_neg _ _ hcb, if_neg hcm]
    exact ⟨_, _, rfl, rfl, fr1, inv1.mono (by omega), by simp [hcb]⟩


/-! ### packaging for the property fragments -/

theorem wrInv_iff (s : carquet_bit_writer_t) (data : List UInt8) : wrInv s data = true ↔ WrInvP 55 s data :=
  wrInvUpTo_iff 55 s data

theorem wrFlushInv_iff (s : carquet_bit_writer_t) (data : List UInt8) : wrFlushInv s data = true ↔ WrInvP 71 s data :=
  wrInvUpTo_iff 71 s data

/-- from the existential form of the `…_spec` lemmas to the statement of the link theorems -/
theorem link_of_spec {r : carquet_bit_writer_t × List UInt8} {s : carquet_bit_writer_t} {data : List UInt8}
    {w : BitIO.Writer} {m : Nat} {b : Bool}
    (h : ∃ s1 d1, r = (s1, d1) ∧ wrAbs s1 d1 = w ∧ Frame s data s1 d1 ∧ WrInvP m s1 d1 ∧ b = true) (hm : m ≤ 55)
    (s' : carquet_bit_writer_t) (data' : List UInt8) (e : r = (s', data')) :
    wrAbs s' data' = w ∧ wrInv s' data' = true ∧ data'.length = data.length ∧
    data'.take s.byte_pos.toNat = data.take s.byte_pos.toNat ∧
    data'.drop s'.byte_pos.toNat = data.drop s'.byte_pos.toNat ∧
    s.byte_pos.toNat ≤ s'.byte_pos.toNat ∧ s'.capacity = s.capacity ∧ s'.data = s.data ∧ s'.bit_pos = s.bit_pos := by
  obtain ⟨s1, d1, e1, habs, fr, inv, _⟩ := h
  rw [e1] at e
  cases e
  exact ⟨habs, (wrInv_iff _ _).mpr (inv.mono hm), fr.len, fr.head, fr.tail, fr.mono, fr.cap, fr.dat, fr.bitpos⟩

theorem defined_of_spec {r : carquet_bit_writer_t × List UInt8} {s : carquet_bit_writer_t} {data : List UInt8}
    {w : BitIO.Writer} {m : Nat} {b : Bool}
    (h : ∃ s1 d1, r = (s1, d1) ∧ wrAbs s1 d1 = w ∧ Frame s data s1 d1 ∧ WrInvP m s1 d1 ∧ b = true) : b = true := by
  obtain ⟨_, _, _, _, _, _, hb⟩ := h
  exact hb

/-- `carquet_bit_writer_init` on an array of at least `cap` bytes -/
theorem init_spec (s0 : carquet_bit_writer_t) (data : List UInt8) (cap : Nat) (hl : data.length < 2 ^ 64)
    (hc : cap ≤ data.length) :
    wrAbs (Gen.CFun.carquet_bit_writer_init s0 data (BitVec.ofNat 64 cap)).1
        (Gen.CFun.carquet_bit_writer_init s0 data (BitVec.ofNat 64 cap)).2 = BitIO.Writer.init cap ∧
    WrInvP 0 (Gen.CFun.carquet_bit_writer_init s0 data (BitVec.ofNat 64 cap)).1
        (Gen.CFun.carquet_bit_writer_init s0 data (BitVec.ofNat 64 cap)).2 := by
  have hcap : (BitVec.ofNat 64 cap).toNat = cap := by
    rw [BitVec.toNat_ofNat]; exact Nat.mod_eq_of_lt (by omega)
  simp only [Gen.CFun.carquet_bit_writer_init]
  refine ⟨?_, rfl, ?_, ?_, ?_, ?_, ?_⟩
  · simp only [wrAbs, hcap, BitIO.Writer.init]
    rfl
  · show (0#64).toNat ≤ (BitVec.ofNat 64 cap).toNat
    simp
  · show (BitVec.ofNat 64 cap).toNat ≤ data.length
    rw [hcap]; exact hc
  · show (0 : Int) ≤ (0#32).toInt; decide
  · show (0#32).toInt ≤ ((0 : Nat) : Int); decide
  · show (0#64).toNat < 2 ^ (0#32).toNat; decide

end Carquet.Proofs.CFun3.BitWriter