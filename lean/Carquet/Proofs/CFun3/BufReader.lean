import Carquet.Impl.CFun3.BufReader
import Carquet.Impl.Thrift
import Carquet.Proofs.BufferReader
import Carquet.Proofs.CFun2.Bitpack
import Carquet.Proofs.CFun2.Mem
/-
Helper lemmas for Properties/C08/CFun3BufReader.lean and Properties/C13/CFun3BufReader.lean.
-/
namespace Carquet.Proofs.CFun3.BufReader
open Carquet Carquet.Impl Carquet.Impl.CSem Carquet.Impl.CFun3 Carquet.Impl.BufferReader

/-- the parts of the invariant, as propositions -/
theorem brInv_iff (s : Gen.CFun.carquet_buffer_reader_t) (data : List UInt8) :
    brInv s data = true ↔ s.data = 0 ∧ s.size.toNat = data.length ∧ s.pos.toNat ≤ s.size.toNat := by
  simp [brInv, BitVec.le_def, and_assoc]

/-- the C test `n <= size - pos` when `pos ≤ size`: no wrap-around -/
theorem has_c (pos size n : BitVec 64) (h : pos.toNat ≤ size.toNat) :
    Gen.CFun.carquet_buffer_reader_has pos size n = decide (pos.toNat + n.toNat ≤ size.toNat) := by
  unfold Gen.CFun.carquet_buffer_reader_has
  rw [decide_eq_decide]
  bv_omega

/-- the model's test on a cursor with `pos ≤ size < 2^64` -/
theorem has_m (r : Reader) (n : Nat) (hp : r.pos ≤ r.data.length) (hsz : r.data.length < 2 ^ 64) :
    BufferReader.has true r n = decide (r.pos + n ≤ r.data.length) := by
  have := Proofs.BufferReader.hasFixed_iff r n hp hsz
  simp only [BufferReader.has, if_true]
  by_cases h : r.pos + n ≤ r.data.length
  · simp [h, this.mpr h]
  · have : hasFixed r n = false := by
      cases hf : hasFixed r n
      · rfl
      · exact absurd (this.mp hf) h
    simp [h, this]

theorem add_toNat (pos n : BitVec 64) (size : Nat) (h : pos.toNat + n.toNat ≤ size) (hs : size < 2 ^ 64) :
    (pos + n).toNat = pos.toNat + n.toNat := by
  rw [BitVec.toNat_add]; exact Nat.mod_eq_of_lt (by omega)

theorem leVal_eq_leNat (l : List UInt8) : BufferReader.leVal l = Bitpack.leNat l := by
  induction l with
  | nil => rfl
  | cons b r ih => simp [BufferReader.leVal, Bitpack.leNat, ih]

/-- the model's fixed-width read on the abstraction of a C cursor in its invariant -/
theorem readFixed_abs (s : Gen.CFun.carquet_buffer_reader_t) (data : List UInt8) (k : Nat) (h : brInv s data = true) :
    readFixed true (brAbs s data) k =
      if s.pos.toNat + k ≤ data.length then
        ⟨.val .ok (leVal (bytesAt data s.pos.toNat k)), ⟨data, s.pos.toNat + k⟩, [⟨s.pos.toNat, k⟩]⟩
      else ⟨.val .truncated 0, brAbs s data, []⟩ := by
  obtain ⟨_, hs, hp⟩ := (brInv_iff s data).mp h
  have hsz : data.length < 2 ^ 64 := by rw [← hs]; exact s.size.isLt
  have hm := has_m (brAbs s data) k (by simp only [brAbs]; omega) hsz
  simp only [brAbs] at hm
  unfold readFixed
  by_cases hle : s.pos.toNat + k ≤ data.length
  · have ha := Proofs.BufferReader.addSz_of_le hle hsz
    simp [brAbs, hm, hle, ha]
  · simp [brAbs, hm, hle]

/-- the common shape of the typed reads: `if (!has(reader, k)) return TRUNCATED; *value = load(data + pos); pos += k;
return OK`, against `readFixed k` -/
theorem typed_link {w : Nat} (s : Gen.CFun.carquet_buffer_reader_t) (data : List UInt8) (v : BitVec w) (k : Nat)
    (kb : BitVec 64) (hk : kb.toNat = k) (load : BitVec w)
    (hload : s.pos.toNat + k ≤ data.length → load.toNat = leVal (bytesAt data s.pos.toNat k))
    (h : brInv s data = true) (res : BitVec 32 × Gen.CFun.carquet_buffer_reader_t × BitVec w)
    (hres : res = if (!(Gen.CFun.carquet_buffer_reader_has s.pos s.size kb)) then (15#32, s, v)
      else (0#32, { s with pos := s.pos + kb }, load)) :
    brAbs res.2.1 data = (readFixed true (brAbs s data) k).next ∧
    brInv res.2.1 data = true ∧
    valObs res.1 res.2.2.toNat = (readFixed true (brAbs s data) k).obs ∧
    (res.1 = 0#32 ∨ res = (15#32, s, v)) := by
  obtain ⟨hd, hs, hp⟩ := (brInv_iff s data).mp h
  have hsz : data.length < 2 ^ 64 := by rw [← hs]; exact s.size.isLt
  have hhas : Gen.CFun.carquet_buffer_reader_has s.pos s.size kb = decide (s.pos.toNat + k ≤ data.length) := by
    rw [has_c _ _ _ hp, hk, hs]
  rw [readFixed_abs s data k h]
  by_cases hle : s.pos.toNat + k ≤ data.length
  · have ha := add_toNat s.pos kb data.length (by omega) hsz
    have hr : res = (0#32, { s with pos := s.pos + kb }, load) := by rw [hres, hhas]; simp [hle]
    subst hr
    rw [if_pos hle]
    refine ⟨?_, ?_, ?_, Or.inl rfl⟩
    · simp [brAbs, ha, hk]
    · rw [brInv_iff]; simp only [ha]; omega
    · simp [valObs, statusOf, hload hle]
  · have hr : res = (15#32, s, v) := by rw [hres, hhas]; simp [hle]
    subst hr
    rw [if_neg hle]
    exact ⟨rfl, h, by simp [valObs, statusOf], Or.inr rfl⟩

/-- `_defined` of a typed read: the load is only reached when `k` bytes are left -/
theorem typed_defined (s : Gen.CFun.carquet_buffer_reader_t) (data : List UInt8) (k : Nat) (kb : BitVec 64)
    (hk : kb.toNat = k) (ok : Bool) (hok : s.pos.toNat + k ≤ data.length → ok = true) (h : brInv s data = true) :
    (Gen.CFun.carquet_buffer_reader_has_defined s.pos s.size kb &&
      (if (!(Gen.CFun.carquet_buffer_reader_has s.pos s.size kb)) then true else ok)) = true := by
  obtain ⟨_, hs, hp⟩ := (brInv_iff s data).mp h
  rw [has_c _ _ _ hp, hk, hs]
  by_cases hle : s.pos.toNat + k ≤ data.length
  · simp [hle, hok hle, Gen.CFun.carquet_buffer_reader_has_defined]
  · simp [hle, Gen.CFun.carquet_buffer_reader_has_defined]

/-! ### the loads -/

theorem load8 (data : List UInt8) (p : Nat) (h : p + 1 ≤ data.length) :
    (rd8 data p).toNat = leVal (bytesAt data p 1) := by
  rw [bytesAt, Proofs.CFun2.drop_eq_cons data p (by omega)]
  simp only [List.take_succ_cons, List.take_zero, leVal, rd8]
  simp

theorem load16 (data : List UInt8) (p : Nat) :
    (Gen.CFun.carquet_read_u16_le (data.drop p)).toNat = leVal (bytesAt data p 2) := by
  rw [Proofs.CFun2.read_u16_le_toNat, leVal_eq_leNat, bytesAt]

theorem load32 (data : List UInt8) (p : Nat) :
    (Gen.CFun.carquet_read_u32_le (data.drop p)).toNat = leVal (bytesAt data p 4) := by
  rw [Proofs.CFun2.read_u32_le_toNat, leVal_eq_leNat, bytesAt]

theorem load64 (data : List UInt8) (p : Nat) (h : p + 8 ≤ data.length) :
    (Gen.CFun.carquet_read_u64_le (data.drop p)).toNat = leVal (bytesAt data p 8) := by
  rw [Proofs.CFun2.read_u64_le_toNat _ (by rw [List.length_drop]; omega), leVal_eq_leNat, bytesAt]

/-! ### `skip` and `read` -/

theorem step_skip_abs (s : Gen.CFun.carquet_buffer_reader_t) (data : List UInt8) (n : Nat) (h : brInv s data = true) :
    step true (brAbs s data) (.skip n) =
      if s.pos.toNat + n ≤ data.length then ⟨.st .ok, ⟨data, s.pos.toNat + n⟩, []⟩
      else ⟨.st .truncated, brAbs s data, []⟩ := by
  obtain ⟨_, hs, hp⟩ := (brInv_iff s data).mp h
  have hsz : data.length < 2 ^ 64 := by rw [← hs]; exact s.size.isLt
  have hm := has_m (brAbs s data) n (by simp only [brAbs]; omega) hsz
  simp only [brAbs] at hm
  unfold step
  by_cases hle : s.pos.toNat + n ≤ data.length
  · have ha := Proofs.BufferReader.addSz_of_le hle hsz
    simp [brAbs, hm, hle, ha]
  · simp [brAbs, hm, hle]

theorem step_read_abs (s : Gen.CFun.carquet_buffer_reader_t) (data : List UInt8) (n : Nat) (h : brInv s data = true) :
    step true (brAbs s data) (.read n) =
      if s.pos.toNat + n ≤ data.length then
        ⟨.bytes .ok (bytesAt data s.pos.toNat n), ⟨data, s.pos.toNat + n⟩, [⟨s.pos.toNat, n⟩]⟩
      else ⟨.bytes .truncated [], brAbs s data, []⟩ := by
  obtain ⟨_, hs, hp⟩ := (brInv_iff s data).mp h
  have hsz : data.length < 2 ^ 64 := by rw [← hs]; exact s.size.isLt
  have hm := has_m (brAbs s data) n (by simp only [brAbs]; omega) hsz
  simp only [brAbs] at hm
  unfold step
  by_cases hle : s.pos.toNat + n ≤ data.length
  · have ha := Proofs.BufferReader.addSz_of_le hle hsz
    simp [brAbs, hm, hle, ha]
  · simp [brAbs, hm, hle]

/-- `carquet_buffer_reader_skip` in closed form -/
theorem skip_eq (s : Gen.CFun.carquet_buffer_reader_t) (data : List UInt8) (n : BitVec 64) (h : brInv s data = true) :
    Gen.CFun.carquet_buffer_reader_skip s n =
      if s.pos.toNat + n.toNat ≤ data.length then (0#32, { s with pos := s.pos + n }) else (15#32, s) := by
  obtain ⟨_, hs, hp⟩ := (brInv_iff s data).mp h
  unfold Gen.CFun.carquet_buffer_reader_skip
  rw [has_c _ _ _ hp, hs]
  by_cases hle : s.pos.toNat + n.toNat ≤ data.length <;> simp [hle]

/-- `carquet_buffer_reader_read` in closed form -/
theorem read_eq (s : Gen.CFun.carquet_buffer_reader_t) (data dest : List UInt8) (n : BitVec 64)
    (h : brInv s data = true) :
    Gen.CFun.carquet_buffer_reader_read s data dest n =
      if s.pos.toNat + n.toNat ≤ data.length then
        (0#32, { s with pos := s.pos + n }, bytesAt data s.pos.toNat n.toNat ++ dest.drop n.toNat)
      else (15#32, s, dest) := by
  obtain ⟨hd, hs, hp⟩ := (brInv_iff s data).mp h
  unfold Gen.CFun.carquet_buffer_reader_read
  rw [has_c _ _ _ hp, hs]
  by_cases hle : s.pos.toNat + n.toNat ≤ data.length <;> simp [hle, copyInto, bytesAt, hd]

theorem bytesAt_length (data : List UInt8) (p n : Nat) (h : p + n ≤ data.length) : (bytesAt data p n).length = n := by
  simp only [bytesAt, List.length_take, List.length_drop]; omega

theorem advance_inv (s : Gen.CFun.carquet_buffer_reader_t) (data : List UInt8) (n : BitVec 64) (h : brInv s data = true)
    (hle : s.pos.toNat + n.toNat ≤ data.length) :
    brInv { s with pos := s.pos + n } data = true ∧ (s.pos + n).toNat = s.pos.toNat + n.toNat := by
  obtain ⟨hd, hs, hp⟩ := (brInv_iff s data).mp h
  have hsz : data.length < 2 ^ 64 := by rw [← hs]; exact s.size.isLt
  have ha := add_toNat s.pos n data.length hle hsz
  refine ⟨?_, ha⟩
  rw [brInv_iff]; simp only [ha]; omega

end Carquet.Proofs.CFun3.BufReader