import Carquet.Impl.CFun3.ThriftDec
import Carquet.Proofs.CFun.Thrift
import Carquet.Proofs.CFun2.Ints
/-
Helper lemmas for Properties/C13/CFun3Thrift.lean, part A: the invariant as propositions, `set_error`,
`read_byte_raw`, the loop of `thrift_read_varint`.
-/
namespace Carquet.Proofs.CFun3.ThriftDec
open Carquet Carquet.Impl Carquet.Impl.CSem Carquet.Impl.CFun3 Carquet.Proofs.CFun2

/-! ### the invariant -/

structure DecInvP (s : Gen.CFun.thrift_decoder_t) (data : List UInt8) : Prop where
  off : s.reader.data = 0
  size : s.reader.size.toNat = data.length
  pos : s.reader.pos.toNat ≤ data.length
  nl : s.nesting_level.toNat ≤ 32
  nli : s.nesting_level.toInt = (s.nesting_level.toNat : Int)
  lf : s.last_field_id.length = 32
  st : errOfCode s.status.toNat ≠ none

theorem decInv_iff (s : Gen.CFun.thrift_decoder_t) (data : List UInt8) : decInv s data = true ↔ DecInvP s data := by
  constructor
  · intro h
    simp only [decInv, Bool.and_eq_true, beq_iff_eq, decide_eq_true_eq, Option.isSome_iff_ne_none] at h
    obtain ⟨⟨⟨⟨⟨⟨h1, h2⟩, h3⟩, h4⟩, h5⟩, h6⟩, h7⟩ := h
    have hn : s.nesting_level.toInt = (s.nesting_level.toNat : Int) := by
      rw [BitVec.toInt_eq_toNat_cond] at h4 ⊢
      split <;> omega
    exact ⟨h1, h2, by omega, by omega, hn, h6, h7⟩
  · intro ⟨h1, h2, h3, h4, h5, h6, h7⟩
    simp only [decInv, Bool.and_eq_true, beq_iff_eq, decide_eq_true_eq, Option.isSome_iff_ne_none]
    refine ⟨⟨⟨⟨⟨⟨h1, h2⟩, by omega⟩, by omega⟩, by omega⟩, h6⟩, h7⟩

/-! ### status codes -/

theorem errOfCode_ok (n : Nat) : errOfCode n = some none ↔ n = 0 := by
  unfold errOfCode
  constructor
  · intro h
    repeat' split at h
    all_goals first | assumption | simp at h
  · intro h; simp [h]

theorem errOfCode_code (e : Thrift.Err) (h : errIsC e = true) :
    errOfCode (BitVec.ofNat 32 e.code).toNat = some (some e) ∧ e.code ≠ 0 := by
  cases e <;> first | (revert h; decide) | exact ⟨by decide, by decide⟩

/-! ### `set_error` -/

theorem set_error_frame (s : Gen.CFun.thrift_decoder_t) (c : BitVec 32) :
    (Gen.CFun.set_error s c).reader = s.reader ∧ (Gen.CFun.set_error s c).last_field_id = s.last_field_id ∧
    (Gen.CFun.set_error s c).nesting_level = s.nesting_level ∧ (Gen.CFun.set_error s c).bool_pending = s.bool_pending ∧
    (Gen.CFun.set_error s c).bool_value = s.bool_value := by
  simp [Gen.CFun.set_error]

theorem set_error_status (s : Gen.CFun.thrift_decoder_t) (c : BitVec 32) :
    (Gen.CFun.set_error s c).status = if s.status = 0#32 then c else s.status := by
  simp [Gen.CFun.set_error]

theorem abs_set_error (ov : Bool) (bd : Nat) (s : Gen.CFun.thrift_decoder_t) (data : List UInt8) (e : Thrift.Err)
    (he : errIsC e = true) (h : DecInvP s data) :
    decAbs ov bd (Gen.CFun.set_error s (BitVec.ofNat 32 e.code)) data = (decAbs ov bd s data).setError e := by
  obtain ⟨f1, f2, f3, f4, f5⟩ := set_error_frame s (BitVec.ofNat 32 e.code)
  have f6 := set_error_status s (BitVec.ofNat 32 e.code)
  have hc := (errOfCode_code e he).1
  unfold decAbs Thrift.Dec.setError
  rw [f1, f2, f3, f4, f5, f6]
  by_cases h0 : s.status = 0#32
  · have h00 : errOfCode (0#32 : BitVec 32).toNat = some none := by decide
    rw [if_pos h0, hc, h0, h00]; rfl
  · have hne : errOfCode s.status.toNat ≠ some none := by
      intro hh; rw [errOfCode_ok] at hh; apply h0; apply BitVec.eq_of_toNat_eq; simpa using hh
    have hst := h.st
    rw [if_neg h0]
    cases hv : errOfCode s.status.toNat with
    | none => exact absurd hv hst
    | some o =>
      cases o with
      | none => exact absurd hv hne
      | some x => simp

theorem inv_set_error (s : Gen.CFun.thrift_decoder_t) (data : List UInt8) (e : Thrift.Err)
    (he : errIsC e = true) (h : DecInvP s data) : DecInvP (Gen.CFun.set_error s (BitVec.ofNat 32 e.code)) data := by
  obtain ⟨f1, f2, f3, f4, f5⟩ := set_error_frame s (BitVec.ofNat 32 e.code)
  have f6 := set_error_status s (BitVec.ofNat 32 e.code)
  have hc := (errOfCode_code e he).1
  refine ⟨by rw [f1]; exact h.off, by rw [f1]; exact h.size, by rw [f1]; exact h.pos, by rw [f3]; exact h.nl,
    by rw [f3]; exact h.nli, by rw [f2]; exact h.lf, ?_⟩
  rw [f6]; split
  · rw [hc]; simp
  · exact h.st

theorem errIsC_truncated : errIsC .truncated = true := by decide
theorem errIsC_decode : errIsC .decode = true := by decide
theorem code_truncated : (33#32 : BitVec 32) = BitVec.ofNat 32 Thrift.Err.truncated.code := by decide
theorem code_decode : (30#32 : BitVec 32) = BitVec.ofNat 32 Thrift.Err.decode.code := by decide

/-! ### `has_bytes`, `read_byte_raw` -/

theorem has_bytes_one (s : Gen.CFun.thrift_decoder_t) (data : List UInt8) (h : DecInvP s data) :
    Gen.CFun.has_bytes s.reader.pos s.reader.size 1#64 = decide (s.reader.pos.toNat < data.length) := by
  have h1 := h.size; have h2 := h.pos
  unfold Gen.CFun.has_bytes Gen.CFun.carquet_buffer_reader_has
  by_cases hlt : s.reader.pos.toNat < data.length
  · have : 1#64 ≤ s.reader.size - s.reader.pos := by bv_omega
    simp [hlt, this]
  · have : ¬ (1#64 ≤ s.reader.size - s.reader.pos) := by bv_omega
    simp [hlt, this]

/-- the state after one byte has been consumed -/
def adv1 (s : Gen.CFun.thrift_decoder_t) : Gen.CFun.thrift_decoder_t :=
  { s with reader := { s.reader with pos := s.reader.pos + 1#64 } }

/-- `read_byte_raw` in closed form -/
theorem read_byte_raw_eq (s : Gen.CFun.thrift_decoder_t) (data : List UInt8) (h : DecInvP s data) :
    Gen.CFun.read_byte_raw s data =
      if s.reader.pos.toNat < data.length then (rd8 data s.reader.pos.toNat, adv1 s)
      else (0#8, Gen.CFun.set_error s 33#32) := by
  have hb := has_bytes_one s data h
  have hb' : Gen.CFun.carquet_buffer_reader_has s.reader.pos s.reader.size 1#64 =
      decide (s.reader.pos.toNat < data.length) := hb
  have hoff := h.off
  unfold Gen.CFun.read_byte_raw
  by_cases hlt : s.reader.pos.toNat < data.length
  · simp [hb, hb', hlt, Gen.CFun.carquet_buffer_reader_read_byte, hoff, adv1]
  · simp [hb, hlt]

theorem read_byte_raw_defined (s : Gen.CFun.thrift_decoder_t) (data : List UInt8) (h : DecInvP s data) :
    Gen.CFun.read_byte_raw_defined s data = true := by
  have hb := has_bytes_one s data h
  have hb' : Gen.CFun.carquet_buffer_reader_has s.reader.pos s.reader.size 1#64 =
      decide (s.reader.pos.toNat < data.length) := hb
  have hoff := h.off
  unfold Gen.CFun.read_byte_raw_defined
  by_cases hlt : s.reader.pos.toNat < data.length
  · simp [hb, hb', hlt, Gen.CFun.carquet_buffer_reader_read_byte_defined, Gen.CFun.has_bytes_defined,
      Gen.CFun.carquet_buffer_reader_has_defined, hoff, inb]
    omega
  · simp [hb, hlt, Gen.CFun.has_bytes_defined, Gen.CFun.carquet_buffer_reader_has_defined, Gen.CFun.set_error_defined]

theorem adv1_pos (s : Gen.CFun.thrift_decoder_t) (data : List UInt8) (h : DecInvP s data)
    (hlt : s.reader.pos.toNat < data.length) : (adv1 s).reader.pos.toNat = s.reader.pos.toNat + 1 := by
  have h1 := h.size
  have : data.length < 2 ^ 64 := by rw [← h1]; exact s.reader.size.isLt
  simp only [adv1, BitVec.toNat_add]
  simp; omega

theorem inv_adv1 (s : Gen.CFun.thrift_decoder_t) (data : List UInt8) (h : DecInvP s data)
    (hlt : s.reader.pos.toNat < data.length) : DecInvP (adv1 s) data := by
  have hp := adv1_pos s data h hlt
  exact ⟨h.off, h.size, by rw [hp]; omega, h.nl, h.nli, h.lf, h.st⟩

theorem abs_adv1 (ov : Bool) (bd : Nat) (s : Gen.CFun.thrift_decoder_t) (data : List UInt8) (h : DecInvP s data)
    (hlt : s.reader.pos.toNat < data.length) :
    decAbs ov bd (adv1 s) data =
      { decAbs ov bd s data with rest := data.drop (s.reader.pos.toNat + 1), pos := s.reader.pos.toNat + 1 } := by
  have hp := adv1_pos s data h hlt
  unfold decAbs
  rw [hp]
  rfl

theorem abs_rest (ov : Bool) (bd : Nat) (s : Gen.CFun.thrift_decoder_t) (data : List UInt8)
    (hlt : s.reader.pos.toNat < data.length) :
    (decAbs ov bd s data).rest = data[s.reader.pos.toNat] :: data.drop (s.reader.pos.toNat + 1) := by
  simp only [decAbs]; exact List.drop_eq_getElem_cons hlt

theorem abs_rest_nil (ov : Bool) (bd : Nat) (s : Gen.CFun.thrift_decoder_t) (data : List UInt8)
    (hlt : ¬ s.reader.pos.toNat < data.length) : (decAbs ov bd s data).rest = [] := by
  simp only [decAbs]; exact List.drop_eq_nil_of_le (by omega)

theorem rd8_toNat (data : List UInt8) (i : Nat) (hlt : i < data.length) : (rd8 data i).toNat = data[i].toNat := by
  simp [rd8, List.getD_eq_getElem?_getD, List.getElem?_eq_getElem hlt]

/-- `read_byte_raw` against the model -/
theorem read_byte_raw_abs (ov : Bool) (bd : Nat) (s : Gen.CFun.thrift_decoder_t) (data : List UInt8) (h : DecInvP s data) :
    (Gen.CFun.read_byte_raw s data).1.toNat = (Thrift.readByteRaw (decAbs ov bd s data)).1.toNat ∧
    decAbs ov bd (Gen.CFun.read_byte_raw s data).2 data = (Thrift.readByteRaw (decAbs ov bd s data)).2 ∧
    DecInvP (Gen.CFun.read_byte_raw s data).2 data := by
  rw [read_byte_raw_eq s data h]
  by_cases hlt : s.reader.pos.toNat < data.length
  · rw [if_pos hlt]
    have hr := abs_rest ov bd s data hlt
    have e : Thrift.readByteRaw (decAbs ov bd s data) = (data[s.reader.pos.toNat],
        { decAbs ov bd s data with rest := data.drop (s.reader.pos.toNat + 1), pos := s.reader.pos.toNat + 1 }) := by
      unfold Thrift.readByteRaw; rw [hr]; rfl
    rw [e]
    exact ⟨rd8_toNat data _ hlt, abs_adv1 ov bd s data h hlt, inv_adv1 s data h hlt⟩
  · rw [if_neg hlt]
    have hr := abs_rest_nil ov bd s data hlt
    have e : Thrift.readByteRaw (decAbs ov bd s data) = (0, (decAbs ov bd s data).setError .truncated) := by
      unfold Thrift.readByteRaw; rw [hr]
    rw [e, code_truncated]
    exact ⟨rfl, abs_set_error ov bd s data _ errIsC_truncated h, inv_set_error s data _ errIsC_truncated h⟩

/-- what `read_byte_raw` leaves alone -/
theorem read_byte_raw_frame (s : Gen.CFun.thrift_decoder_t) (data : List UInt8) (h : DecInvP s data) :
    (Gen.CFun.read_byte_raw s data).2.reader.size = s.reader.size ∧
    (Gen.CFun.read_byte_raw s data).2.reader.data = s.reader.data ∧
    (Gen.CFun.read_byte_raw s data).2.last_field_id = s.last_field_id ∧
    (Gen.CFun.read_byte_raw s data).2.nesting_level = s.nesting_level ∧
    (Gen.CFun.read_byte_raw s data).2.bool_pending = s.bool_pending ∧
    (Gen.CFun.read_byte_raw s data).2.bool_value = s.bool_value := by
  rw [read_byte_raw_eq s data h]
  split
  · simp [adv1]
  · obtain ⟨f1, f2, f3, f4, f5⟩ := set_error_frame s 33#32
    simp [f1, f2, f3, f4, f5]

/-! ### the loop of `thrift_read_varint` -/

theorem or_shl_nat (acc x sh : Nat) (hacc : acc < 2 ^ sh) (hsh : sh < 64) :
    acc ||| ((x <<< sh) % 2 ^ 64) = (acc + x * 2 ^ sh) % 2 ^ 64 := by
  have hp : (2 : Nat) ^ 64 = 2 ^ (64 - sh) * 2 ^ sh := by rw [← Nat.pow_add]; congr 1; omega
  have hm : (x * 2 ^ sh) % 2 ^ 64 = (x % 2 ^ (64 - sh)) * 2 ^ sh := by rw [hp, Nat.mul_mod_mul_right]
  have hy : x % 2 ^ (64 - sh) < 2 ^ (64 - sh) := Nat.mod_lt _ (Nat.two_pow_pos _)
  have hb : (x % 2 ^ (64 - sh) + 1) * 2 ^ sh ≤ 2 ^ 64 := by rw [hp]; exact Nat.mul_le_mul_right _ hy
  rw [Nat.succ_mul] at hb
  rw [Nat.shiftLeft_eq, Nat.add_mod, hm, Nat.mod_eq_of_lt (by omega : acc < 2 ^ 64)]
  generalize x % 2 ^ (64 - sh) = y at *
  rw [Nat.mod_eq_of_lt (by omega), Nat.or_comm, ← Nat.shiftLeft_eq, ← Nat.shiftLeft_add_eq_or_of_lt hacc]
  omega

theorem or_shl_toNat (result : BitVec 64) (acc x sh : Nat) (hacc : acc < 2 ^ sh) (hsh : sh < 64) (hx : x < 128)
    (hr : result.toNat = acc % 2 ^ 64) :
    (result ||| (BitVec.ofNat 64 x <<< sh)).toNat = (acc + x * 2 ^ sh) % 2 ^ 64 := by
  have h1 : acc < 2 ^ 64 := Nat.lt_of_lt_of_le hacc (Nat.pow_le_pow_right (by decide) (by omega))
  rw [Nat.mod_eq_of_lt h1] at hr
  rw [BitVec.toNat_or, BitVec.toNat_shiftLeft, BitVec.toNat_ofNat, hr, Nat.mod_eq_of_lt (by omega : x < 2 ^ 64)]
  exact or_shl_nat acc x sh hacc hsh

theorem dec_eta (s : Gen.CFun.thrift_decoder_t) :
    ({ reader := { data := s.reader.data, size := s.reader.size, pos := s.reader.pos },
       last_field_id := s.last_field_id, nesting_level := s.nesting_level, bool_pending := s.bool_pending,
       bool_value := s.bool_value, status := s.status } : Gen.CFun.thrift_decoder_t) = s := rfl

theorem byte_cont (r : BitVec 8) : ((BitVec.setWidth 32 r &&& 128#32) == 0#32) = decide (r.toNat < 128) := by
  revert r; decide +kernel

theorem byte_lo7 (r : BitVec 8) :
    BitVec.signExtend 64 (BitVec.setWidth 32 r &&& 127#32) = BitVec.ofNat 64 (r.toNat % 128) := by
  revert r; decide +kernel

/-- `result |= (uint64_t)(byte & 0x7F) << shift` -/
def accC (result : BitVec 64) (r : BitVec 8) (shift : BitVec 32) : BitVec 64 :=
  result ||| (BitVec.signExtend 64 ((BitVec.setWidth 32 r) &&& 127#32) <<< shift.toNat)

theorem accC_eq (result : BitVec 64) (r : BitVec 8) (shift : BitVec 32) :
    accC result r shift = result ||| (BitVec.ofNat 64 (r.toNat % 128) <<< shift.toNat) := by
  unfold accC; rw [byte_lo7]

theorem loop1_succ (fuel : Nat) (s : Gen.CFun.thrift_decoder_t) (data : List UInt8) (result : BitVec 64)
    (shift : BitVec 32) (h : DecInvP s data) :
    Gen.CFun.thrift_read_varint_loop1 (fuel + 1) data s.reader.data s.reader.size s.reader.pos s.last_field_id
        s.nesting_level s.bool_pending s.bool_value s.status result shift =
      if BitVec.slt shift 64#32 then
        if s.reader.pos.toNat < data.length then
          if (rd8 data s.reader.pos.toNat).toNat < 128 then
            (result ||| (BitVec.ofNat 64 ((rd8 data s.reader.pos.toNat).toNat % 128) <<< shift.toNat), adv1 s)
          else
            Gen.CFun.thrift_read_varint_loop1 fuel data (adv1 s).reader.data (adv1 s).reader.size (adv1 s).reader.pos
              (adv1 s).last_field_id (adv1 s).nesting_level (adv1 s).bool_pending (adv1 s).bool_value (adv1 s).status
              (result ||| (BitVec.ofNat 64 ((rd8 data s.reader.pos.toNat).toNat % 128) <<< shift.toNat)) (shift + 7#32)
        else (0#64, Gen.CFun.set_error s 33#32)
      else (0#64, Gen.CFun.set_error s 30#32) := by
  rw [Gen.CFun.thrift_read_varint_loop1]
  rw [dec_eta s]
  rw [has_bytes_one s data h, read_byte_raw_eq s data h]
  by_cases hs : BitVec.slt shift 64#32 = true
  · by_cases hlt : s.reader.pos.toNat < data.length
    · rw [← accC_eq]
      simp only [hs, hlt, if_true, decide_true, Bool.not_true, Bool.false_eq_true, if_false, byte_cont,
        decide_eq_true_eq]
      rfl
    · simp [hs, hlt]
  · simp [hs]

/-- what the readers leave alone -/
structure Frame (s' s : Gen.CFun.thrift_decoder_t) : Prop where
  size : s'.reader.size = s.reader.size
  data : s'.reader.data = s.reader.data
  lf : s'.last_field_id = s.last_field_id
  nl : s'.nesting_level = s.nesting_level
  bp : s'.bool_pending = s.bool_pending
  bv : s'.bool_value = s.bool_value

theorem Frame.refl (s : Gen.CFun.thrift_decoder_t) : Frame s s := ⟨rfl, rfl, rfl, rfl, rfl, rfl⟩
theorem Frame.trans {a b c : Gen.CFun.thrift_decoder_t} (h1 : Frame a b) (h2 : Frame b c) : Frame a c :=
  ⟨h1.size.trans h2.size, h1.data.trans h2.data, h1.lf.trans h2.lf, h1.nl.trans h2.nl, h1.bp.trans h2.bp,
    h1.bv.trans h2.bv⟩
theorem frame_adv1 (s : Gen.CFun.thrift_decoder_t) : Frame (adv1 s) s := ⟨rfl, rfl, rfl, rfl, rfl, rfl⟩
theorem frame_set_error (s : Gen.CFun.thrift_decoder_t) (c : BitVec 32) : Frame (Gen.CFun.set_error s c) s := by
  obtain ⟨f1, f2, f3, f4, f5⟩ := set_error_frame s c
  exact ⟨by rw [f1], by rw [f1], f2, f3, f4, f5⟩
theorem frame_read_byte_raw (s : Gen.CFun.thrift_decoder_t) (data : List UInt8) (h : DecInvP s data) :
    Frame (Gen.CFun.read_byte_raw s data).2 s := by
  obtain ⟨f1, f2, f3, f4, f5, f6⟩ := read_byte_raw_frame s data h
  exact ⟨f1, f2, f3, f4, f5, f6⟩

theorem shift_add7 (k : Nat) : BitVec.ofNat 32 (7 * k) + 7#32 = BitVec.ofNat 32 (7 * (k + 1)) := by
  apply BitVec.eq_of_toNat_eq; simp [BitVec.toNat_add, BitVec.toNat_ofNat]; omega

theorem acc_step (acc b k : Nat) (hacc : acc < 2 ^ (7 * k)) : acc + b % 128 * 2 ^ (7 * k) < 2 ^ (7 * (k + 1)) := by
  have e : (2 : Nat) ^ (7 * (k + 1)) = 128 * 2 ^ (7 * k) := by
    rw [show 7 * (k + 1) = 7 + 7 * k by omega, Nat.pow_add]
  have hb : b % 128 * 2 ^ (7 * k) ≤ 127 * 2 ^ (7 * k) := Nat.mul_le_mul_right _ (by omega)
  rw [e]; omega

/-- the generated loop of `thrift_read_varint` and the model's `readVarintLoop` run in lockstep: `k` bytes consumed so far
(`shift = 7k`, `result = acc mod 2^64`, `acc < 2^(7k)`), `n = 10 - k` iterations left, any fuel ≥ `n + 1` -/
theorem varint_loop_abs (ov : Bool) (bd : Nat) (data : List UInt8) :
    ∀ (n k fuel : Nat) (s : Gen.CFun.thrift_decoder_t) (result : BitVec 64) (acc : Nat),
      k + n = 10 → n + 1 ≤ fuel → DecInvP s data → acc < 2 ^ (7 * k) → result.toNat = acc % 2 ^ 64 →
      (Gen.CFun.thrift_read_varint_loop1 fuel data s.reader.data s.reader.size s.reader.pos s.last_field_id
          s.nesting_level s.bool_pending s.bool_value s.status result (BitVec.ofNat 32 (7 * k))).1.toNat =
        (Thrift.readVarintLoop n (7 * k) acc (decAbs ov bd s data)).1 ∧
      decAbs ov bd (Gen.CFun.thrift_read_varint_loop1 fuel data s.reader.data s.reader.size s.reader.pos s.last_field_id
          s.nesting_level s.bool_pending s.bool_value s.status result (BitVec.ofNat 32 (7 * k))).2 data =
        (Thrift.readVarintLoop n (7 * k) acc (decAbs ov bd s data)).2 ∧
      DecInvP (Gen.CFun.thrift_read_varint_loop1 fuel data s.reader.data s.reader.size s.reader.pos s.last_field_id
          s.nesting_level s.bool_pending s.bool_value s.status result (BitVec.ofNat 32 (7 * k))).2 data ∧
      Frame (Gen.CFun.thrift_read_varint_loop1 fuel data s.reader.data s.reader.size s.reader.pos s.last_field_id
          s.nesting_level s.bool_pending s.bool_value s.status result (BitVec.ofNat 32 (7 * k))).2 s := by
  intro n
  induction n with
  | zero =>
    intro k fuel s result acc hk hf h hacc hres
    obtain ⟨f, rfl⟩ : ∃ f, fuel = f + 1 := ⟨fuel - 1, by omega⟩
    have hk10 : k = 10 := by omega
    subst hk10
    rw [loop1_succ f s data result _ h]
    have hs : BitVec.slt (BitVec.ofNat 32 (7 * 10)) 64#32 = false := by decide
    rw [hs, code_decode]
    simp only [Bool.false_eq_true, if_false, Thrift.readVarintLoop]
    exact ⟨rfl, abs_set_error ov bd s data _ errIsC_decode h, inv_set_error s data _ errIsC_decode h,
      frame_set_error s _⟩
  | succ n ih =>
    intro k fuel s result acc hk hf h hacc hres
    obtain ⟨f, rfl⟩ : ∃ f, fuel = f + 1 := ⟨fuel - 1, by omega⟩
    rw [loop1_succ f s data result _ h]
    have hs : BitVec.slt (BitVec.ofNat 32 (7 * k)) 64#32 = true := by
      have := slt_ofNat (7 * k) 64 (by omega) (by omega)
      rw [this]; simp; omega
    have hsh : (BitVec.ofNat 32 (7 * k)).toNat = 7 * k := ofNat_toNat_small _ (by omega)
    rw [hs, hsh]
    simp only [if_true]
    by_cases hlt : s.reader.pos.toNat < data.length
    · have hr := abs_rest ov bd s data hlt
      have hb := rd8_toNat data _ hlt
      rw [if_pos hlt, hb]
      unfold Thrift.readVarintLoop
      rw [hr]
      simp only []
      by_cases h128 : data[s.reader.pos.toNat].toNat < 128
      · rw [if_pos h128, if_pos h128]
        refine ⟨?_, abs_adv1 ov bd s data h hlt, inv_adv1 s data h hlt, frame_adv1 s⟩
        rw [or_shl_toNat result acc _ (7 * k) hacc (by omega) (Nat.mod_lt _ (by decide)) hres,
          Nat.mod_eq_of_lt h128]
      · rw [if_neg h128, if_neg h128, shift_add7]
        have hres' := or_shl_toNat result acc (data[s.reader.pos.toNat].toNat % 128) (7 * k) hacc (by omega)
          (Nat.mod_lt _ (by decide)) hres
        have hacc' := acc_step acc data[s.reader.pos.toNat].toNat k hacc
        obtain ⟨i1, i2, i3, i4⟩ := ih (k + 1) f (adv1 s) _ _ (by omega) (by omega) (inv_adv1 s data h hlt) hacc' hres'
        rw [abs_adv1 ov bd s data h hlt] at i1 i2
        exact ⟨i1, i2, i3, i4.trans (frame_adv1 s)⟩
    · have hr := abs_rest_nil ov bd s data hlt
      rw [if_neg hlt, code_truncated]
      unfold Thrift.readVarintLoop
      rw [hr]
      exact ⟨rfl, abs_set_error ov bd s data _ errIsC_truncated h, inv_set_error s data _ errIsC_truncated h,
        frame_set_error s _⟩

theorem loop1_defined_succ (fuel : Nat) (s : Gen.CFun.thrift_decoder_t) (data : List UInt8) (result : BitVec 64)
    (shift : BitVec 32) (h : DecInvP s data) :
    Gen.CFun.thrift_read_varint_loop1_defined (fuel + 1) data s.reader.data s.reader.size s.reader.pos s.last_field_id
        s.nesting_level s.bool_pending s.bool_value s.status result shift =
      if BitVec.slt shift 64#32 then
        if s.reader.pos.toNat < data.length then
          shCountOk true 64 shift &&
          (if (rd8 data s.reader.pos.toNat).toNat < 128 then true
          else
            sAddOk shift 7#32 &&
            Gen.CFun.thrift_read_varint_loop1_defined fuel data (adv1 s).reader.data (adv1 s).reader.size
              (adv1 s).reader.pos (adv1 s).last_field_id (adv1 s).nesting_level (adv1 s).bool_pending
              (adv1 s).bool_value (adv1 s).status
              (result ||| (BitVec.ofNat 64 ((rd8 data s.reader.pos.toNat).toNat % 128) <<< shift.toNat)) (shift + 7#32))
        else true
      else true := by
  rw [Gen.CFun.thrift_read_varint_loop1_defined]
  rw [dec_eta s]
  rw [has_bytes_one s data h, read_byte_raw_eq s data h, read_byte_raw_defined s data h]
  by_cases hs : BitVec.slt shift 64#32 = true
  · by_cases hlt : s.reader.pos.toNat < data.length
    · rw [← accC_eq]
      simp only [hs, hlt, if_true, decide_true, Bool.not_true, Bool.false_eq_true, if_false, byte_cont,
        decide_eq_true_eq, Bool.true_and, Gen.CFun.has_bytes_defined, Gen.CFun.carquet_buffer_reader_has_defined]
      rfl
    · simp [hs, hlt, Gen.CFun.has_bytes_defined, Gen.CFun.carquet_buffer_reader_has_defined,
        Gen.CFun.set_error_defined]
  · simp [hs, Gen.CFun.set_error_defined]

theorem shift_ok (k : Nat) (hk : k ≤ 9) :
    shCountOk true 64 (BitVec.ofNat 32 (7 * k)) = true ∧ sAddOk (BitVec.ofNat 32 (7 * k)) 7#32 = true := by
  have h1 : (BitVec.ofNat 32 (7 * k)).toNat = 7 * k := ofNat_toNat_small _ (by omega)
  have h2 : (BitVec.ofNat 32 (7 * k)).msb = false := msb_ofNat_small _ (by omega)
  have h3 : (BitVec.ofNat 32 (7 * k)).toInt = ((7 * k : Nat) : Int) := ofNat_toInt_small _ (by omega)
  constructor
  · simp [shCountOk, h1, h2]; omega
  · simp only [sAddOk, BitVec.saddOverflow, h3]
    simp
    omega

/-- no undefined behaviour in the loop of `thrift_read_varint`, whatever the bytes: the shift count stays below 64,
`shift += 7` does not overflow, the fuel (one test more than the ten iterations) suffices -/
theorem varint_loop_defined (data : List UInt8) :
    ∀ (n k fuel : Nat) (s : Gen.CFun.thrift_decoder_t) (result : BitVec 64),
      k + n = 10 → n + 1 ≤ fuel → DecInvP s data →
      Gen.CFun.thrift_read_varint_loop1_defined fuel data s.reader.data s.reader.size s.reader.pos s.last_field_id
          s.nesting_level s.bool_pending s.bool_value s.status result (BitVec.ofNat 32 (7 * k)) = true := by
  intro n
  induction n with
  | zero =>
    intro k fuel s result hk hf h
    obtain ⟨f, rfl⟩ : ∃ f, fuel = f + 1 := ⟨fuel - 1, by omega⟩
    have hk10 : k = 10 := by omega
    subst hk10
    rw [loop1_defined_succ f s data result _ h]
    have hs : BitVec.slt (BitVec.ofNat 32 (7 * 10)) 64#32 = false := by decide
    rw [hs]; rfl
  | succ n ih =>
    intro k fuel s result hk hf h
    obtain ⟨f, rfl⟩ : ∃ f, fuel = f + 1 := ⟨fuel - 1, by omega⟩
    rw [loop1_defined_succ f s data result _ h]
    obtain ⟨o1, o2⟩ := shift_ok k (by omega)
    rw [o1, o2, shift_add7]
    by_cases hlt : s.reader.pos.toNat < data.length
    · have := ih (k + 1) f (adv1 s)
        (result ||| (BitVec.ofNat 64 ((rd8 data s.reader.pos.toNat).toNat % 128) <<< (BitVec.ofNat 32 (7 * k)).toNat))
        (by omega) (by omega) (inv_adv1 s data h hlt)
      rw [this]
      simp
    · simp [hlt]

end Carquet.Proofs.CFun3.ThriftDec