import Carquet.Proofs.CFun2.Bitpack2
import Carquet.Proofs.CFun2.Ints
import Carquet.Proofs.BitpackImpl
/-
Stage-3 link: the general loop nest of `carquet_bitunpack8_32` (src/core/bitpack.c, widths 9..32) as translated in
Gen/CFun.lean (`carquet_bitunpack8_32_loop1/_loop2`) against `Impl.Bitpack.genStep / genInner / genOuter`.

The C variables are all far below `INT_MAX`, so the BitVec state of the inner loop is `BitVec.ofNat` of a `Bitpack.GenSt`
satisfying `Inv` (bit_pos + bits_needed ≤ 256, bits_in_buffer + bits_needed ≤ 32, byte_pos = bit_pos / 8):
  * `loop2_step`     one iteration of the translated `while (bits_needed > 0)` is `genStep` on that representation;
  * `loop2_eq`       the translated inner loop and `genInner` unroll in lockstep (any fuel);
  * `loop2_defined`  no UB in it when `bit_pos + bits_needed ≤ 8 * input.length` and the fuel exceeds `bits_needed`;
  * `loop1_eq / loop1_defined`  induction over `for (i = 0; i < 8; i++)` against `genOuter` (bit_pos = w·i), where
                     `BitpackImpl.genInner_eq` tells where the inner loop ends whatever its fuel (33 in C, `w` in the model);
  * `bitunpack8_32_full / _full_defined`  all widths 0..32 (0..8: `bitunpack8_32_small` and the straight-line
                     `_defined` facts of the specialised unpackers proved here).
The proofs unfold the generated definitions and normalise them with lemmas about the C operators on small values
(`srem8`, `bfb_eq`, `ext_eq`, `or_shl64`, `sAddOk_ofNat` …); nothing depends on the generated text beyond the order of
the operators inside one loop body.
-/
namespace Carquet.Proofs.CFun3.Bitunpack
open Carquet Carquet.Impl Carquet.Impl.CSem Carquet.Proofs.CFun2

/-! ### `int` facts on small non-negative values -/

theorem srem8 (n : Nat) (h : n < 2 ^ 31) : BitVec.srem (BitVec.ofNat 32 n) 8#32 = BitVec.ofNat 32 (n % 8) := by
  have hm : (BitVec.ofNat 32 n).msb = false := msb_ofNat_small n h
  have h8 : (8#32).msb = false := by decide
  apply BitVec.eq_of_toNat_eq
  simp [BitVec.srem, hm, h8, BitVec.toNat_ofNat]
  omega

theorem sub8 (n : Nat) (h : n < 8) : 8#32 - BitVec.ofNat 32 n = BitVec.ofNat 32 (8 - n) := by
  apply BitVec.eq_of_toNat_eq
  simp [BitVec.toNat_sub, BitVec.toNat_ofNat]
  omega

theorem ofNat_add (a b : Nat) : BitVec.ofNat 32 a + BitVec.ofNat 32 b = BitVec.ofNat 32 (a + b) := by
  apply BitVec.eq_of_toNat_eq
  simp [BitVec.toNat_add, BitVec.toNat_ofNat]

theorem ofNat_sub (a b : Nat) (h : b ≤ a) (_ha : a < 2 ^ 32) :
    BitVec.ofNat 32 a - BitVec.ofNat 32 b = BitVec.ofNat 32 (a - b) := by
  apply BitVec.eq_of_toNat_eq
  simp [BitVec.toNat_sub, BitVec.toNat_ofNat]
  omega

/-- `bits_from_byte` -/
theorem bfb_eq (s : Bitpack.GenSt) (hp : s.bitPos < 2 ^ 31) (hn : s.bitsNeeded < 2 ^ 31) :
    (if BitVec.slt (BitVec.ofNat 32 s.bitsNeeded) (8#32 - BitVec.srem (BitVec.ofNat 32 s.bitPos) 8#32) then
      BitVec.ofNat 32 s.bitsNeeded else 8#32 - BitVec.srem (BitVec.ofNat 32 s.bitPos) 8#32) =
    BitVec.ofNat 32 (Bitpack.bitsFromByte s) := by
  have h8 : s.bitPos % 8 < 8 := Nat.mod_lt _ (by decide)
  rw [srem8 _ hp, sub8 _ h8, slt_ofNat _ _ hn (by omega)]
  unfold Bitpack.bitsFromByte
  by_cases h : s.bitsNeeded < 8 - s.bitPos % 8
  · simp [h]; congr 1; omega
  · simp [h]; congr 1; omega


theorem toInt_toNat_small (n : Nat) (h : n < 2 ^ 31) : (BitVec.ofNat 32 n).toInt.toNat = n := by
  rw [ofNat_toInt_small n h]; simp

/-- `(1U << k) - 1` for `k ≤ 8` -/
theorem lowmask_toNat (k : Nat) (hk : k ≤ 8) : ((1#32 <<< k) - 1#32).toNat = (1 <<< k) - 1 := by
  have h1 : (1 : Nat) <<< k = 2 ^ k := by rw [Nat.shiftLeft_eq, Nat.one_mul]
  have h2 : (2 : Nat) ^ k ≤ 2 ^ 8 := Nat.pow_le_pow_right (by decide) hk
  have h3 := Nat.two_pow_pos k
  simp only [BitVec.toNat_sub, BitVec.toNat_shiftLeft, BitVec.toNat_ofNat, h1]
  omega

/-- `extracted` -/
theorem ext_eq (inp : List UInt8) (byp sh k : Nat) (hb : byp < 2 ^ 31) (hs : sh < 8) (hk : k ≤ 8) :
    BitVec.setWidth 64 ((BitVec.sshiftRight (BitVec.setWidth 32 (rd8 inp (BitVec.ofNat 32 byp).toInt.toNat))
        (BitVec.ofNat 32 sh).toNat) &&& ((1#32 <<< (BitVec.ofNat 32 k).toNat) - 1#32)) =
      BitVec.ofNat 64 ((Bitpack.byteAt inp byp >>> sh) &&& ((1 <<< k) - 1)) := by
  have hbyte := byte_lt' (inp.getD byp 0)
  rw [toInt_toNat_small byp hb, ofNat_toNat_small sh (by omega), ofNat_toNat_small k (by omega),
    sshr_setWidth _ (by omega : 8 < 32)]
  apply BitVec.eq_of_toNat_eq
  rw [BitVec.toNat_setWidth, BitVec.toNat_and, lowmask_toNat k hk, BitVec.toNat_ushiftRight, BitVec.toNat_setWidth,
    BitVec.toNat_ofNat, rd8_eq, UInt8.toNat_toBitVec]
  unfold Bitpack.byteAt
  rw [Nat.mod_eq_of_lt (by omega : (inp.getD byp 0).toNat < 2 ^ 32)]


theorem beq_zero_ofNat (n : Nat) (h : n < 2 ^ 32) : (BitVec.ofNat 32 n == 0#32) = decide (n = 0) := by
  rw [Bool.eq_iff_iff]
  simp only [beq_iff_eq, decide_eq_true_eq]
  constructor
  · intro e
    have := congrArg BitVec.toNat e
    simp only [BitVec.toNat_ofNat] at this
    omega
  · intro e; subst e; rfl

/-- `bits |= extracted << bits_in_buffer` on 64 bits -/
theorem or_shl64 (b e k : Nat) (hk : k < 2 ^ 32) :
    BitVec.ofNat 64 b ||| BitVec.ofNat 64 e <<< (BitVec.ofNat 32 k).toNat = BitVec.ofNat 64 (b ||| e <<< k) := by
  apply BitVec.eq_of_toNat_eq
  rw [BitVec.toNat_ofNat, Nat.mod_eq_of_lt hk]
  simp only [BitVec.toNat_or, BitVec.toNat_shiftLeft, BitVec.toNat_ofNat, Nat.or_mod_two_pow]
  congr 1
  simp only [Nat.shiftLeft_eq]
  rw [Nat.mod_mul_mod]

/-- the invariant of `while (bits_needed > 0)`: everything stays far below `INT_MAX`, `byte_pos` follows `bit_pos` -/
structure Inv (s : Bitpack.GenSt) : Prop where
  pos : s.bitPos + s.bitsNeeded ≤ 256
  buf : s.bitsInBuf + s.bitsNeeded ≤ 32
  byte : s.bytePos = s.bitPos / 8

theorem bfb_pos (s : Bitpack.GenSt) (h : 0 < s.bitsNeeded) : 0 < Bitpack.bitsFromByte s := by
  unfold Bitpack.bitsFromByte; omega
theorem bfb_le (s : Bitpack.GenSt) : Bitpack.bitsFromByte s ≤ s.bitsNeeded := by
  unfold Bitpack.bitsFromByte; omega
theorem bfb_le8 (s : Bitpack.GenSt) : Bitpack.bitsFromByte s ≤ 8 - s.bitPos % 8 := by
  unfold Bitpack.bitsFromByte; omega

theorem Inv.step (inp : List UInt8) {s : Bitpack.GenSt} (h : Inv s) (hn : 0 < s.bitsNeeded) :
    Inv (Bitpack.genStep inp s) := by
  have h0 := bfb_pos s hn
  have h1 := bfb_le s
  have h2 := bfb_le8 s
  obtain ⟨hp, hb, hy⟩ := h
  refine ⟨?_, ?_, ?_⟩
  · simp only [Bitpack.genStep]; omega
  · simp only [Bitpack.genStep]; omega
  · simp only [Bitpack.genStep]
    split <;> omega

/-- one iteration of the translated inner loop is `genStep` -/
theorem loop2_step (f : Nat) (input : List UInt8) (bw : BitVec 32) (values : List (BitVec 32)) (mask i : BitVec 32)
    (s : Bitpack.GenSt) (h : Inv s) (hn : 0 < s.bitsNeeded) :
    Gen.CFun.carquet_bitunpack8_32_loop2 (f + 1) input bw values mask (BitVec.ofNat 32 s.bitPos)
      (BitVec.ofNat 32 s.bytePos) i (BitVec.ofNat 64 s.bits) (BitVec.ofNat 32 s.bitsNeeded)
      (BitVec.ofNat 32 s.bitsInBuf) =
    Gen.CFun.carquet_bitunpack8_32_loop2 f input bw values mask (BitVec.ofNat 32 (Bitpack.genStep input s).bitPos)
      (BitVec.ofNat 32 (Bitpack.genStep input s).bytePos) i (BitVec.ofNat 64 (Bitpack.genStep input s).bits)
      (BitVec.ofNat 32 (Bitpack.genStep input s).bitsNeeded) (BitVec.ofNat 32 (Bitpack.genStep input s).bitsInBuf) := by
  obtain ⟨hp, hb, hy⟩ := h
  have h1 := bfb_le s
  have h2 := bfb_le8 s
  have hc : BitVec.slt 0#32 (BitVec.ofNat 32 s.bitsNeeded) = true := by
    rw [slt_ofNat 0 s.bitsNeeded (by omega) (by omega)]; simpa using hn
  rw [Gen.CFun.carquet_bitunpack8_32_loop2, if_pos hc]
  simp only [Gen.CFun.carquet_bitunpack8_32_v1, Gen.CFun.carquet_bitunpack8_32_v2, Gen.CFun.carquet_bitunpack8_32_v3,
    Gen.CFun.carquet_bitunpack8_32_v4, Gen.CFun.carquet_bitunpack8_32_v5, Gen.CFun.carquet_bitunpack8_32_v6,
    Gen.CFun.carquet_bitunpack8_32_v7]
  have hbfb := bfb_eq s (by omega) (by omega)
  have h8 : s.bitPos % 8 < 8 := Nat.mod_lt _ (by decide)
  simp only [hbfb, ofNat_add]
  rw [srem8 s.bitPos (by omega), ofNat_sub _ _ h1 (by omega),
    srem8 (s.bitPos + Bitpack.bitsFromByte s) (by omega), ext_eq input _ _ _ (by omega) h8 (by omega),
    or_shl64 _ _ _ (by omega), beq_zero_ofNat _ (by omega)]
  simp only [Bitpack.genStep, Bitpack.extracted, decide_eq_true_eq]
  congr 1
  split <;> rfl


/-- the translated inner loop and `genInner` unroll in lockstep -/
theorem loop2_eq (input : List UInt8) (bw : BitVec 32) (values : List (BitVec 32)) (mask i : BitVec 32) :
    ∀ (f : Nat) (s : Bitpack.GenSt), Inv s →
    Gen.CFun.carquet_bitunpack8_32_loop2 f input bw values mask (BitVec.ofNat 32 s.bitPos)
      (BitVec.ofNat 32 s.bytePos) i (BitVec.ofNat 64 s.bits) (BitVec.ofNat 32 s.bitsNeeded)
      (BitVec.ofNat 32 s.bitsInBuf) =
    (BitVec.ofNat 32 (Bitpack.genInner input f s).bitPos, BitVec.ofNat 32 (Bitpack.genInner input f s).bytePos,
      BitVec.ofNat 64 (Bitpack.genInner input f s).bits, BitVec.ofNat 32 (Bitpack.genInner input f s).bitsNeeded,
      BitVec.ofNat 32 (Bitpack.genInner input f s).bitsInBuf) := by
  intro f
  induction f with
  | zero => intro s _; simp [Gen.CFun.carquet_bitunpack8_32_loop2, Bitpack.genInner]
  | succ f ih =>
    intro s h
    by_cases hn : s.bitsNeeded = 0
    · have hc : BitVec.slt 0#32 (BitVec.ofNat 32 s.bitsNeeded) = false := by rw [hn]; rfl
      rw [Gen.CFun.carquet_bitunpack8_32_loop2, hc]
      simp [Bitpack.genInner, hn]
    · rw [loop2_step f input bw values mask i s h (by omega), ih _ (h.step input (by omega))]
      simp [Bitpack.genInner, hn]

theorem sAddOk_ofNat (a b : Nat) (h : a + b < 2 ^ 31) : sAddOk (BitVec.ofNat 32 a) (BitVec.ofNat 32 b) = true := by
  simp only [sAddOk, BitVec.saddOverflow, ofNat_toInt_small a (by omega), ofNat_toInt_small b (by omega)]
  simp
  omega

theorem sSubOk_ofNat (a b : Nat) (ha : a < 2 ^ 31) (hb : b < 2 ^ 31) :
    sSubOk (BitVec.ofNat 32 a) (BitVec.ofNat 32 b) = true := by
  simp only [sSubOk, BitVec.ssubOverflow, ofNat_toInt_small a ha, ofNat_toInt_small b hb]
  simp
  omega

theorem shCountOk_ofNat (sgn : Bool) (w n : Nat) (h : n < w) (hn : n < 2 ^ 31) :
    shCountOk sgn w (BitVec.ofNat 32 n) = true := by
  simp [shCountOk, msb_ofNat_small n hn, ofNat_toNat_small n hn, h]


/-- no undefined behaviour in the inner loop: the byte read lies inside `input`, every `int` stays small, the fuel is not
exhausted (each iteration takes at least one bit) -/
theorem loop2_defined (input : List UInt8) (bw : BitVec 32) (values : List (BitVec 32)) (mask i : BitVec 32) :
    ∀ (f : Nat) (s : Bitpack.GenSt), Inv s → s.bitsNeeded < f → s.bitPos + s.bitsNeeded ≤ 8 * input.length →
    Gen.CFun.carquet_bitunpack8_32_loop2_defined f input bw values mask (BitVec.ofNat 32 s.bitPos)
      (BitVec.ofNat 32 s.bytePos) i (BitVec.ofNat 64 s.bits) (BitVec.ofNat 32 s.bitsNeeded)
      (BitVec.ofNat 32 s.bitsInBuf) = true := by
  intro f
  induction f with
  | zero => intro s _ h; omega
  | succ f ih =>
    intro s h hf hlen
    by_cases hn : s.bitsNeeded = 0
    · have hc : BitVec.slt 0#32 (BitVec.ofNat 32 s.bitsNeeded) = false := by rw [hn]; rfl
      rw [Gen.CFun.carquet_bitunpack8_32_loop2_defined, hc]
      rfl
    · have hc : BitVec.slt 0#32 (BitVec.ofNat 32 s.bitsNeeded) = true := by
        rw [slt_ofNat 0 s.bitsNeeded (by omega) (by have := h.buf; omega)]; simpa using Nat.pos_of_ne_zero hn
      have hrec := ih _ (h.step input (by omega))
        (by have := bfb_pos s (by omega); simp only [Bitpack.genStep]; omega)
        (by have := bfb_le s; simp only [Bitpack.genStep]; omega)
      obtain ⟨hp, hb, hy⟩ := h
      have h0 := bfb_pos s (by omega)
      have h1 := bfb_le s
      have h2 := bfb_le8 s
      have h8 : s.bitPos % 8 < 8 := Nat.mod_lt _ (by decide)
      have hbfb := bfb_eq s (by omega) (by omega)
      rw [Gen.CFun.carquet_bitunpack8_32_loop2_defined, if_pos hc]
      simp only [Gen.CFun.carquet_bitunpack8_32_v1, Gen.CFun.carquet_bitunpack8_32_v2, Gen.CFun.carquet_bitunpack8_32_v3,
        Gen.CFun.carquet_bitunpack8_32_v4, Gen.CFun.carquet_bitunpack8_32_v5, Gen.CFun.carquet_bitunpack8_32_v6,
        Gen.CFun.carquet_bitunpack8_32_v7]
      simp only [hbfb, ofNat_add]
      rw [srem8 s.bitPos (by omega), ofNat_sub _ _ h1 (by omega),
        srem8 (s.bitPos + Bitpack.bitsFromByte s) (by omega), ext_eq input _ _ _ (by omega) h8 (by omega),
        or_shl64 _ _ _ (by omega), beq_zero_ofNat _ (by omega), toInt_toNat_small _ (by omega)]
      have e1 : (if decide ((s.bitPos + Bitpack.bitsFromByte s) % 8 = 0) = true then BitVec.ofNat 32 (s.bytePos + 1)
          else BitVec.ofNat 32 s.bytePos) =
          BitVec.ofNat 32 (if (s.bitPos + Bitpack.bitsFromByte s) % 8 = 0 then s.bytePos + 1 else s.bytePos) := by
        simp only [decide_eq_true_eq]; split <;> rfl
      rw [e1]
      simp only [Bitpack.genStep, Bitpack.extracted] at hrec
      have hin : inb input s.bytePos 1 = true := by rw [inb_iff]; omega
      simp only [hrec, hin, sSubOk_ofNat 8 (s.bitPos % 8) (by omega) (by omega),
        msb_ofNat_small s.bytePos (by omega), shCountOk_ofNat true 32 (s.bitPos % 8) (by omega) (by omega),
        shCountOk_ofNat true 32 (Bitpack.bitsFromByte s) (by omega) (by omega),
        shCountOk_ofNat true 64 s.bitsInBuf (by omega) (by omega),
        sAddOk_ofNat s.bitPos (Bitpack.bitsFromByte s) (by omega),
        sAddOk_ofNat s.bitsInBuf (Bitpack.bitsFromByte s) (by omega),
        sSubOk_ofNat s.bitsNeeded (Bitpack.bitsFromByte s) (by omega) (by omega),
        sAddOk_ofNat s.bytePos 1 (by omega), Bool.and_true, Bool.not_false, ite_self]


/-! ### the outer loop -/

theorem take_succ_set {α : Type} (l : List α) (i : Nat) (a : α) (h : i < l.length) :
    (l.set i a).take (i + 1) = l.take i ++ [a] := by
  induction l generalizing i with
  | nil => simp at h
  | cons x xs ih =>
    cases i with
    | zero => simp
    | succ j => simp at h; simp [ih j h]

/-- `values[i] = (uint32_t)(bits & mask)` -/
theorem stored_toNat (b : Nat) (m : BitVec 32) :
    (BitVec.setWidth 32 (BitVec.ofNat 64 b &&& BitVec.setWidth 64 m)).toNat = b &&& m.toNat := by
  have hm : m.toNat < 2 ^ 32 := m.isLt
  simp only [BitVec.toNat_setWidth, BitVec.toNat_and, BitVec.toNat_ofNat]
  apply Nat.eq_of_testBit_eq
  intro j
  simp only [Nat.testBit_mod_two_pow, Nat.testBit_and]
  by_cases hj : j < 32
  · simp [hj, (by omega : j < 64)]
  · have : m.toNat.testBit j = false :=
      Nat.testBit_lt_two_pow (Nat.lt_of_lt_of_le hm (Nat.pow_le_pow_right (by decide) (by omega)))
    simp [this]

/-- `uint32_t mask = (uint32_t)((1ULL << bit_width) - 1)` -/
theorem mask_toNat (w : Nat) (hw : w ≤ 32) :
    (BitVec.setWidth 32 ((1#64 <<< (BitVec.ofNat 32 w).toNat) - 1#64)).toNat = Bitpack.mask w := by
  have h1 : (1 : Nat) <<< w = 2 ^ w := by rw [Nat.shiftLeft_eq, Nat.one_mul]
  have h2 : (2 : Nat) ^ w ≤ 2 ^ 32 := Nat.pow_le_pow_right (by decide) hw
  have h3 := Nat.two_pow_pos w
  rw [Carquet.Proofs.BitpackImpl.mask_eq hw, ofNat_toNat_small w (by omega)]
  simp only [BitVec.toNat_setWidth, BitVec.toNat_sub, BitVec.toNat_shiftLeft, BitVec.toNat_ofNat, h1]
  omega


/-- the state at the start of the inner loop for value `i` -/
def start (w i : Nat) : Bitpack.GenSt := ⟨0, w, 0, w * i, w * i / 8⟩

theorem start_inv (w i : Nat) (hw : w ≤ 32) (hi : i < 8) : Inv (start w i) := by
  have h1 : w * (i + 1) ≤ 32 * 8 := Nat.mul_le_mul hw (by omega)
  rw [Nat.mul_succ] at h1
  exact ⟨by simp only [start]; omega, by simp only [start]; omega, rfl⟩

/-- where the inner loop for value `i` ends (any fuel ≥ `w`) -/
theorem start_run (input : List UInt8) (w i f : Nat) (hf : w ≤ f) :
    (Bitpack.genInner input f (start w i)).bits = (Bitpack.genInner input w (start w i)).bits ∧
    (Bitpack.genInner input f (start w i)).bitPos = w * (i + 1) ∧
    (Bitpack.genInner input f (start w i)).bytePos = w * (i + 1) / 8 := by
  obtain ⟨a1, a2, a3⟩ := Carquet.Proofs.BitpackImpl.genInner_eq input f (start w i) (w * i) hf rfl rfl
    (by simp [start, Nat.mod_one])
  obtain ⟨b1, _, _⟩ := Carquet.Proofs.BitpackImpl.genInner_eq input w (start w i) (w * i) (Nat.le_refl _) rfl rfl
    (by simp [start, Nat.mod_one])
  refine ⟨by rw [a1, b1], ?_, ?_⟩
  · rw [a2, Nat.mul_succ]; rfl
  · rw [a3, Nat.mul_succ]; rfl

/-- the translated inner loop for value `i`, run from the state the outer loop is in -/
theorem loop2_run (input : List UInt8) (bw : BitVec 32) (values : List (BitVec 32)) (mask iv : BitVec 32)
    (w i : Nat) (hw : w ≤ 32) (hi : i < 8) :
    ∃ bn bib, Gen.CFun.carquet_bitunpack8_32_loop2 33 input bw values mask (BitVec.ofNat 32 (w * i))
      (BitVec.ofNat 32 (w * i / 8)) iv 0#64 (BitVec.ofNat 32 w) 0#32 =
      (BitVec.ofNat 32 (w * (i + 1)), BitVec.ofNat 32 (w * (i + 1) / 8),
        BitVec.ofNat 64 (Bitpack.genInner input w (start w i)).bits, bn, bib) := by
  have h := loop2_eq input bw values mask iv 33 (start w i) (start_inv w i hw hi)
  obtain ⟨r1, r2, r3⟩ := start_run input w i 33 (by omega)
  rw [r1, r2, r3] at h
  exact ⟨_, _, h⟩

theorem genOuter_succ (input : List UInt8) (w n i : Nat) :
    Bitpack.genOuter w input (n + 1) (w * i) (w * i / 8) =
      ((Bitpack.genInner input w (start w i)).bits &&& Bitpack.mask w) ::
        Bitpack.genOuter w input n (w * (i + 1)) (w * (i + 1) / 8) := by
  obtain ⟨_, r2, r3⟩ := start_run input w i w (Nat.le_refl _)
  simp only [start] at r2 r3
  simp only [Bitpack.genOuter, start, r2, r3]


/-- the translated outer loop from value `i` on (`n` values left): the values before `i` and after 8 are untouched -/
theorem loop1_eq (input : List UInt8) (w : Nat) (hw : w ≤ 32) (mask : BitVec 32)
    (hm : mask.toNat = Bitpack.mask w) :
    ∀ (n fuel i : Nat) (values : List (BitVec 32)), i + n = 8 → n < fuel → 8 ≤ values.length →
    (Gen.CFun.carquet_bitunpack8_32_loop1 fuel input (BitVec.ofNat 32 w) values mask (BitVec.ofNat 32 (w * i))
      (BitVec.ofNat 32 (w * i / 8)) (BitVec.ofNat 32 i)).map BitVec.toNat =
    (values.take i).map BitVec.toNat ++ Bitpack.genOuter w input n (w * i) (w * i / 8) ++
      (values.drop 8).map BitVec.toNat := by
  intro n
  induction n with
  | zero =>
    intro fuel i values hi hf hv
    obtain ⟨f, rfl⟩ : ∃ f, fuel = f + 1 := ⟨fuel - 1, by omega⟩
    have hi8 : i = 8 := by omega
    subst hi8
    have hc : BitVec.slt (BitVec.ofNat 32 8) 8#32 = false := by decide
    rw [Gen.CFun.carquet_bitunpack8_32_loop1, hc]
    simp [Bitpack.genOuter]
  | succ n ih =>
    intro fuel i values hi hf hv
    obtain ⟨f, rfl⟩ : ∃ f, fuel = f + 1 := ⟨fuel - 1, by omega⟩
    have hc : BitVec.slt (BitVec.ofNat 32 i) 8#32 = true := by
      rw [slt_ofNat i 8 (by omega) (by omega)]; simp; omega
    obtain ⟨bn, bib, hrun⟩ := loop2_run input (BitVec.ofNat 32 w) values mask (BitVec.ofNat 32 i) w i hw (by omega)
    rw [Gen.CFun.carquet_bitunpack8_32_loop1, if_pos hc, hrun]
    simp only [toInt_toNat_small i (by omega), ofNat_add_one]
    rw [ih f (i + 1) _ (by omega) (by omega) (by simpa [wr] using hv), genOuter_succ]
    simp only [wr, take_succ_set values i _ (by omega), List.drop_set_of_lt (by omega : i < 8), List.map_append,
      List.map_cons, List.map_nil, stored_toNat, hm, List.append_assoc, List.cons_append, List.nil_append]


theorem loop2_run_defined (input : List UInt8) (bw : BitVec 32) (values : List (BitVec 32)) (mask iv : BitVec 32)
    (w i : Nat) (hw : w ≤ 32) (hi : i < 8) (hlen : w ≤ input.length) :
    Gen.CFun.carquet_bitunpack8_32_loop2_defined 33 input bw values mask (BitVec.ofNat 32 (w * i))
      (BitVec.ofNat 32 (w * i / 8)) iv 0#64 (BitVec.ofNat 32 w) 0#32 = true := by
  have h1 : w * (i + 1) ≤ w * 8 := Nat.mul_le_mul_left w (by omega)
  rw [Nat.mul_succ] at h1
  exact loop2_defined input bw values mask iv 33 (start w i) (start_inv w i hw hi) (by simp only [start]; omega)
    (by simp only [start]; omega)

/-- no undefined behaviour in the outer loop: `values[i]` with `i < 8 ≤` its length, fuel 9 for 8 iterations -/
theorem loop1_defined (input : List UInt8) (w : Nat) (hw : w ≤ 32) (hlen : w ≤ input.length) (mask : BitVec 32) :
    ∀ (n fuel i : Nat) (values : List (BitVec 32)), i + n = 8 → n < fuel → 8 ≤ values.length →
    Gen.CFun.carquet_bitunpack8_32_loop1_defined fuel input (BitVec.ofNat 32 w) values mask (BitVec.ofNat 32 (w * i))
      (BitVec.ofNat 32 (w * i / 8)) (BitVec.ofNat 32 i) = true := by
  intro n
  induction n with
  | zero =>
    intro fuel i values hi hf hv
    obtain ⟨f, rfl⟩ : ∃ f, fuel = f + 1 := ⟨fuel - 1, by omega⟩
    have hi8 : i = 8 := by omega
    subst hi8
    have hc : BitVec.slt (BitVec.ofNat 32 8) 8#32 = false := by decide
    rw [Gen.CFun.carquet_bitunpack8_32_loop1_defined, hc]
    rfl
  | succ n ih =>
    intro fuel i values hi hf hv
    obtain ⟨f, rfl⟩ : ∃ f, fuel = f + 1 := ⟨fuel - 1, by omega⟩
    have hc : BitVec.slt (BitVec.ofNat 32 i) 8#32 = true := by
      rw [slt_ofNat i 8 (by omega) (by omega)]; simp; omega
    obtain ⟨bn, bib, hrun⟩ := loop2_run input (BitVec.ofNat 32 w) values mask (BitVec.ofNat 32 i) w i hw (by omega)
    rw [Gen.CFun.carquet_bitunpack8_32_loop1_defined, if_pos hc, hrun,
      loop2_run_defined input _ values mask _ w i hw (by omega) hlen]
    simp only [toInt_toNat_small i (by omega), ofNat_add_one]
    rw [ih f (i + 1) _ (by omega) (by omega) (by simpa [wr] using hv), msb_ofNat_small i (by omega),
      sAddOk_small i (by omega)]
    have hin : inb values i 1 = true := by rw [inb_iff]; omega
    simp [hin]


/-! ### the specialised unpackers are straight-line code: only the bounds of `input` and `values` matter -/

theorem bitunpack8_1bit_defined (input : List UInt8) (values : List (BitVec 32)) (hi : 1 ≤ input.length)
    (hv : 8 ≤ values.length) : Gen.CFun.carquet_bitunpack8_1bit_defined input values = true := by
  simp [Gen.CFun.carquet_bitunpack8_1bit_defined, inb, wr]
  omega

theorem sShlOk_byte8 (x : BitVec 8) : sShlOk (BitVec.setWidth 32 (BitVec.setWidth 16 x)) 8 = true := by
  have := x.isLt
  simp [sShlOk, BitVec.msb_eq_decide, Nat.shiftLeft_eq]
  omega

theorem read_le16_defined (p : List UInt8) (h : 2 ≤ p.length) : Gen.CFun.read_le16_defined p = true := by
  rw [Gen.CFun.read_le16_defined, sShlOk_byte8]
  simp [inb]
  omega

theorem bitunpack8_2bit_defined (input : List UInt8) (values : List (BitVec 32)) (hi : 2 ≤ input.length)
    (hv : 8 ≤ values.length) : Gen.CFun.carquet_bitunpack8_2bit_defined input values = true := by
  simp [Gen.CFun.carquet_bitunpack8_2bit_defined, read_le16_defined input hi, inb, wr]
  omega

theorem bitunpack8_4bit_defined (input : List UInt8) (values : List (BitVec 32)) (hi : 4 ≤ input.length)
    (hv : 8 ≤ values.length) : Gen.CFun.carquet_bitunpack8_4bit_defined input values = true := by
  simp [Gen.CFun.carquet_bitunpack8_4bit_defined, Gen.CFun.read_le32_defined, inb, wr]
  omega

theorem bitunpack8_5bit_defined (input : List UInt8) (values : List (BitVec 32)) (hi : 5 ≤ input.length)
    (hv : 8 ≤ values.length) : Gen.CFun.carquet_bitunpack8_5bit_defined input values = true := by
  simp [Gen.CFun.carquet_bitunpack8_5bit_defined, Gen.CFun.read_le40_defined, inb, wr]
  omega

theorem bitunpack8_6bit_defined (input : List UInt8) (values : List (BitVec 32)) (hi : 6 ≤ input.length)
    (hv : 8 ≤ values.length) : Gen.CFun.carquet_bitunpack8_6bit_defined input values = true := by
  simp [Gen.CFun.carquet_bitunpack8_6bit_defined, Gen.CFun.read_le48_defined, inb, wr]
  omega

theorem bitunpack8_7bit_defined (input : List UInt8) (values : List (BitVec 32)) (hi : 7 ≤ input.length)
    (hv : 8 ≤ values.length) : Gen.CFun.carquet_bitunpack8_7bit_defined input values = true := by
  simp [Gen.CFun.carquet_bitunpack8_7bit_defined, Gen.CFun.read_le56_defined, inb, wr]
  omega

theorem bitunpack8_8bit_defined (input : List UInt8) (values : List (BitVec 32)) (hi : 8 ≤ input.length)
    (hv : 8 ≤ values.length) : Gen.CFun.carquet_bitunpack8_8bit_defined input values = true := by
  simp [Gen.CFun.carquet_bitunpack8_8bit_defined, inb, wr]
  omega


/-! ### `carquet_bitunpack8_32` -/

theorem beq_ofNat_ne (w k : Nat) (hw : w < 2 ^ 32) (hk : k < 2 ^ 32) (h : w ≠ k) :
    (BitVec.ofNat 32 w == BitVec.ofNat 32 k) = false := by
  rw [beq_eq_false_iff_ne]
  intro e
  have := congrArg BitVec.toNat e
  simp only [BitVec.toNat_ofNat] at this
  omega

/-- the general loop nest (widths 9..32) computes `unpack8Generic` -/
theorem bitunpack8_32_generic (input : List UInt8) (values : List (BitVec 32)) (w : Nat) (h9 : 9 ≤ w) (hw : w ≤ 32)
    (hv : 8 ≤ values.length) :
    (Gen.CFun.carquet_bitunpack8_32 input (BitVec.ofNat 32 w) values).map BitVec.toNat =
      Bitpack.unpack8Generic w input ++ (values.drop 8).map BitVec.toNat := by
  have hl := loop1_eq input w hw _ (mask_toNat w hw) 8 9 0 values (by omega) (by omega) hv
  simp only [Nat.mul_zero, Nat.zero_div, List.take_zero, List.map_nil, List.nil_append] at hl
  simp only [Gen.CFun.carquet_bitunpack8_32,
    beq_ofNat_ne w 0 (by omega) (by omega) (by omega), beq_ofNat_ne w 1 (by omega) (by omega) (by omega),
    beq_ofNat_ne w 2 (by omega) (by omega) (by omega), beq_ofNat_ne w 3 (by omega) (by omega) (by omega),
    beq_ofNat_ne w 4 (by omega) (by omega) (by omega), beq_ofNat_ne w 5 (by omega) (by omega) (by omega),
    beq_ofNat_ne w 6 (by omega) (by omega) (by omega), beq_ofNat_ne w 7 (by omega) (by omega) (by omega),
    beq_ofNat_ne w 8 (by omega) (by omega) (by omega), Bool.false_eq_true, if_false]
  exact hl

theorem bitunpack8_32_generic_defined (input : List UInt8) (values : List (BitVec 32)) (w : Nat) (h9 : 9 ≤ w)
    (hw : w ≤ 32) (hi : w ≤ input.length) (hv : 8 ≤ values.length) :
    Gen.CFun.carquet_bitunpack8_32_defined input (BitVec.ofNat 32 w) values = true := by
  have hl := loop1_defined input w hw hi (BitVec.setWidth 32 ((1#64 <<< (BitVec.ofNat 32 w).toNat) - 1#64))
    8 9 0 values (by omega) (by omega) hv
  simp only [Nat.mul_zero, Nat.zero_div] at hl
  simp only [Gen.CFun.carquet_bitunpack8_32_defined,
    beq_ofNat_ne w 0 (by omega) (by omega) (by omega), beq_ofNat_ne w 1 (by omega) (by omega) (by omega),
    beq_ofNat_ne w 2 (by omega) (by omega) (by omega), beq_ofNat_ne w 3 (by omega) (by omega) (by omega),
    beq_ofNat_ne w 4 (by omega) (by omega) (by omega), beq_ofNat_ne w 5 (by omega) (by omega) (by omega),
    beq_ofNat_ne w 6 (by omega) (by omega) (by omega), beq_ofNat_ne w 7 (by omega) (by omega) (by omega),
    beq_ofNat_ne w 8 (by omega) (by omega) (by omega), Bool.false_eq_true, if_false,
    shCountOk_ofNat true 64 w (by omega) (by omega), Bool.true_and]
  exact hl

/-- **`carquet_bitunpack8_32(input, bit_width, values)`**, every width 0..32: the eight values of `Bitpack.unpack8`, the rest
of `values` untouched -/
theorem bitunpack8_32_full (input : List UInt8) (values : List (BitVec 32)) (w : Nat) (hw : w ≤ 32)
    (hi : w ≤ input.length) (hv : 8 ≤ values.length) :
    (Gen.CFun.carquet_bitunpack8_32 input (BitVec.ofNat 32 w) values).map BitVec.toNat =
      Bitpack.unpack8 w input ++ (values.drop 8).map BitVec.toNat := by
  by_cases h8 : w ≤ 8
  · exact bitunpack8_32_small input values w h8 hi hv
  · rw [bitunpack8_32_generic input values w (by omega) hw hv]
    have e : Bitpack.unpack8 w input = Bitpack.unpack8Generic w input := by
      rw [Bitpack.unpack8, if_neg (by omega), if_neg (by omega), if_neg (by omega), if_neg (by omega),
        if_neg (by omega), if_neg (by omega), if_neg (by omega), if_neg (by omega), if_neg (by omega)]
    rw [e]

/-- … and it reaches no undefined behaviour: reads inside `input[0 .. w)`, writes inside `values[0 .. 8)`, no `int`
overflow, no out-of-range shift, loop fuels (33 inner, 9 outer) not exhausted -/
theorem bitunpack8_32_full_defined (input : List UInt8) (values : List (BitVec 32)) (w : Nat) (hw : w ≤ 32)
    (hi : w ≤ input.length) (hv : 8 ≤ values.length) :
    Gen.CFun.carquet_bitunpack8_32_defined input (BitVec.ofNat 32 w) values = true := by
  by_cases h8 : w ≤ 8
  · have hc : w = 0 ∨ w = 1 ∨ w = 2 ∨ w = 3 ∨ w = 4 ∨ w = 5 ∨ w = 6 ∨ w = 7 ∨ w = 8 := by omega
    rcases hc with rfl | rfl | rfl | rfl | rfl | rfl | rfl | rfl | rfl
    · simpa [Gen.CFun.carquet_bitunpack8_32_defined, inb] using hv
    · simp [Gen.CFun.carquet_bitunpack8_32_defined, bitunpack8_1bit_defined input values hi hv]
    · simp [Gen.CFun.carquet_bitunpack8_32_defined, bitunpack8_2bit_defined input values hi hv]
    · simp [Gen.CFun.carquet_bitunpack8_32_defined, bitunpack8_3bit_defined input values hi hv]
    · simp [Gen.CFun.carquet_bitunpack8_32_defined, bitunpack8_4bit_defined input values hi hv]
    · simp [Gen.CFun.carquet_bitunpack8_32_defined, bitunpack8_5bit_defined input values hi hv]
    · simp [Gen.CFun.carquet_bitunpack8_32_defined, bitunpack8_6bit_defined input values hi hv]
    · simp [Gen.CFun.carquet_bitunpack8_32_defined, bitunpack8_7bit_defined input values hi hv]
    · simp [Gen.CFun.carquet_bitunpack8_32_defined, bitunpack8_8bit_defined input values hi hv]
  · exact bitunpack8_32_generic_defined input values w (by omega) hw hi hv

end Carquet.Proofs.CFun3.Bitunpack