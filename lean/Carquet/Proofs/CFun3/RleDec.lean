import Carquet.Impl.CFun3.RleDec
import Carquet.Proofs.CFun3.Bitunpack
/-
Stage-3 link, proof side: the non-recursive pieces of the RLE / bit-packing hybrid decoder of src/encoding/rle.c
(`carquet_rle_decoder_init`, `carquet_rle_decoder_has_next`, `fill_bitpack_buffer`) as translated from the current C
source (Gen/CFun.lean), against `Impl.Rle.Dec.init / hasNext / fill` through the abstraction `rleAbs` and under the
invariant `rleInv` (Impl/CFun3/RleDec.lean).  The group unpacker `carquet_bitunpack8_32` is used through
`Bitunpack.bitunpack8_32_full(_defined)` only.
-/
namespace Carquet.Proofs.CFun3.RleDec
open Carquet Carquet.Impl Carquet.Impl.CSem Carquet.Impl.CFun3

theorem mask32_fin : ∀ n : Fin 33,
    (if BitVec.sle 32#32 (BitVec.ofNat 32 n.val) then ~~~0#32 else (1#32 <<< (BitVec.ofNat 32 n.val).toNat) - 1#32).toNat =
      Rle.valueMask n.val := by decide

theorem mask32 (bw : BitVec 32) (h : bw.toNat ≤ 32) :
    (if BitVec.sle 32#32 bw then ~~~0#32 else (1#32 <<< bw.toNat) - 1#32).toNat = Rle.valueMask bw.toNat := by
  have := mask32_fin ⟨bw.toNat, by omega⟩
  simpa using this

/-- `bit_width < 0 || bit_width > 32` on the bit pattern read unsigned -/
theorem bad_width (b : BitVec 32) : (BitVec.slt b 0#32 || BitVec.slt 32#32 b) = decide (32 < b.toNat) := by
  simp only [BitVec.slt, BitVec.toInt_eq_toNat_cond]
  have := b.isLt
  by_cases hb : 2 * b.toNat < 2 ^ 32
  · by_cases hc : 32 < b.toNat
    · simp [hb, hc]; omega
    · simp [hb, hc]; omega
  · have hc : 32 < b.toNat := by omega
    simp [hb, hc]; omega

/-- `carquet_rle_decoder_init` on any incoming struct and ANY `int bit_width` (a negative width, read unsigned, is
above 32: both sides end in status INVALID_RLE) -/
theorem init_eq (s : Gen.CFun.carquet_rle_decoder_t) (data : List UInt8) (bw : BitVec 32)
    (h : data.length + 32 < 2 ^ 64) :
    rleAbs false 0 (Gen.CFun.carquet_rle_decoder_init s data (BitVec.ofNat 64 data.length) bw) data =
      Rle.Dec.init bw.toNat data ∧
    rleInv (Gen.CFun.carquet_rle_decoder_init s data (BitVec.ofNat 64 data.length) bw) data = true ∧
    Gen.CFun.carquet_rle_decoder_init_defined s data (BitVec.ofNat 64 data.length) bw = true := by
  have hl : data.length % 2 ^ 64 = data.length := Nat.mod_eq_of_lt (by omega)
  by_cases hc : 32 < bw.toNat
  · have hmw : ¬ bw.toNat ≤ Rle.maxWidth := by unfold Rle.maxWidth; omega
    simp [Gen.CFun.carquet_rle_decoder_init, Gen.CFun.carquet_rle_decoder_init_defined, bad_width, hc, rleAbs, rleInv,
      Rle.Dec.init, hmw, hl]
    omega
  · have hm := mask32 bw (by omega)
    have hmw : bw.toNat ≤ Rle.maxWidth := by unfold Rle.maxWidth; omega
    refine ⟨?_, ?_, ?_⟩
    · simp [Gen.CFun.carquet_rle_decoder_init, bad_width, hc, rleAbs, Rle.Dec.init, hmw]
    · simp [Gen.CFun.carquet_rle_decoder_init, bad_width, hc, rleInv, hl]
      exact ⟨by omega, by omega, by simpa using hm⟩
    · simp [Gen.CFun.carquet_rle_decoder_init_defined, bad_width, hc]
      by_cases h32 : bw.toNat = 32
      · left; rw [(BitVec.eq_of_toNat_eq (by simpa using h32) : bw = 32#32)]; decide
      · right; simp [shCountOk, BitVec.msb_eq_decide]; omega

/-- the invariant as propositions -/
theorem inv_facts {s : Gen.CFun.carquet_rle_decoder_t} {data : List UInt8} (h : rleInv s data = true) :
    s.data = 0 ∧ s.size.toNat = data.length ∧ s.size.toNat + 32 < 2 ^ 64 ∧ s.pos.toNat ≤ s.size.toNat ∧
    s.run_remaining.toNat < 2 ^ 63 ∧ s.bitpack_buffer.length = 8 ∧ s.bitpack_pos.toNat ≤ s.bitpack_count.toNat ∧
    s.bitpack_count.toNat ≤ 8 ∧ (s.status = 0#32 ∨ s.status = 43#32) ∧
    (s.status = 0#32 → s.bit_width.toNat ≤ 32 ∧ s.value_mask.toNat = Rle.valueMask s.bit_width.toNat) := by
  simp only [rleInv, Bool.and_eq_true, Bool.or_eq_true, beq_iff_eq, decide_eq_true_eq, bne_iff_ne, ne_eq] at h
  obtain ⟨⟨⟨⟨⟨⟨⟨⟨⟨h1, h2⟩, h3⟩, h4⟩, h5⟩, h6⟩, h7⟩, h8⟩, h9⟩, h10⟩ := h
  refine ⟨h1, h2, h3, h4, h5, h6, h7, h8, h9, fun h0 => ?_⟩
  rcases h10 with h10 | h10
  · exact absurd h0 h10
  · exact h10

/-- `0 < run_remaining` (signed) for a non-negative `int64_t` -/
theorem slt_zero64 (b : BitVec 64) (h : b.toNat < 2 ^ 63) : BitVec.slt 0#64 b = decide (0 < b.toNat) := by
  simp only [BitVec.slt, BitVec.toInt_eq_toNat_cond]
  simp; omega

/-- `run_remaining <= 0` (signed) for a non-negative `int64_t` -/
theorem sle_zero64 (b : BitVec 64) (h : b.toNat < 2 ^ 63) : BitVec.sle b 0#64 = decide (b.toNat = 0) := by
  simp only [BitVec.sle, BitVec.toInt_eq_toNat_cond]
  simp; omega

theorem has_next_eq (ir : Bool) (rv : Nat) (s : Gen.CFun.carquet_rle_decoder_t) (data : List UInt8)
    (h : rleInv s data = true) :
    Gen.CFun.carquet_rle_decoder_has_next s = Rle.hasNext (rleAbs ir rv s data) := by
  obtain ⟨_, h2, _, h4, h5, _, _, _, _, _⟩ := inv_facts h
  by_cases h0 : s.status = 0#32
  · simp [Gen.CFun.carquet_rle_decoder_has_next, Rle.hasNext, rleAbs, h0, slt_zero64 _ h5, BitVec.lt_def]
    rw [h2]; congr 2; apply propext; omega
  · simp [Gen.CFun.carquet_rle_decoder_has_next, Rle.hasNext, rleAbs, h0]

/-- `(size_t)dec->bit_width` for a width 0..32 -/
theorem signExtend_small (b : BitVec 32) (h : b.toNat ≤ 32) : (BitVec.signExtend 64 b).toNat = b.toNat := by
  have hm : b.msb = false := by rw [BitVec.msb_eq_decide]; simp; omega
  rw [BitVec.toNat_signExtend]
  simp [hm]; omega

/-- `dec->pos + bytes_needed` does not wrap -/
theorem pos_add (s : Gen.CFun.carquet_rle_decoder_t) (hw : s.bit_width.toNat ≤ 32)
    (h : s.pos.toNat + 32 < 2 ^ 64) :
    (s.pos + BitVec.signExtend 64 s.bit_width).toNat = s.pos.toNat + s.bit_width.toNat := by
  rw [BitVec.toNat_add, signExtend_small _ hw]; omega

/-- the invariant from its propositions -/
theorem inv_of_facts {s : Gen.CFun.carquet_rle_decoder_t} {data : List UInt8}
    (h1 : s.data = 0) (h2 : s.size.toNat = data.length) (h3 : s.size.toNat + 32 < 2 ^ 64)
    (h4 : s.pos.toNat ≤ s.size.toNat) (h5 : s.run_remaining.toNat < 2 ^ 63) (h6 : s.bitpack_buffer.length = 8)
    (h7 : s.bitpack_pos.toNat ≤ s.bitpack_count.toNat) (h8 : s.bitpack_count.toNat ≤ 8)
    (h9 : s.status = 0#32 ∨ s.status = 43#32)
    (h10 : s.status = 0#32 → s.bit_width.toNat ≤ 32 ∧ s.value_mask.toNat = Rle.valueMask s.bit_width.toNat) :
    rleInv s data = true := by
  simp only [rleInv, Bool.and_eq_true, Bool.or_eq_true, beq_iff_eq, decide_eq_true_eq, bne_iff_ne, ne_eq]
  refine ⟨⟨⟨⟨⟨⟨⟨⟨⟨h1, h2⟩, h3⟩, h4⟩, h5⟩, h6⟩, h7⟩, h8⟩, h9⟩, ?_⟩
  by_cases h0 : s.status = 0#32
  · exact Or.inr (h10 h0)
  · exact Or.inl h0

/-- the state after a group was unpacked -/
def fillOk (s : Gen.CFun.carquet_rle_decoder_t) (data : List UInt8) : Gen.CFun.carquet_rle_decoder_t :=
  { s with pos := s.pos + BitVec.signExtend 64 s.bit_width,
           bitpack_buffer :=
             Gen.CFun.carquet_bitunpack8_32 (List.drop (s.data + s.pos.toNat) data) s.bit_width s.bitpack_buffer,
           bitpack_pos := 0#32, bitpack_count := 8#32 }

/-- the three exits of `fill_bitpack_buffer` -/
theorem fill_no_run (s : Gen.CFun.carquet_rle_decoder_t) (data : List UInt8)
    (h5 : s.run_remaining.toNat < 2 ^ 63) (hr : s.run_remaining.toNat = 0) :
    Gen.CFun.fill_bitpack_buffer s data = (false, s) ∧ Gen.CFun.fill_bitpack_buffer_defined s data = true := by
  simp [Gen.CFun.fill_bitpack_buffer, Gen.CFun.fill_bitpack_buffer_defined, sle_zero64 _ h5, hr]

theorem fill_short (s : Gen.CFun.carquet_rle_decoder_t) (data : List UInt8)
    (h5 : s.run_remaining.toNat < 2 ^ 63) (hr : ¬ s.run_remaining.toNat = 0)
    (hlt : s.size < s.pos + BitVec.signExtend 64 s.bit_width) :
    Gen.CFun.fill_bitpack_buffer s data = (false, { s with status := 43#32 }) ∧
    Gen.CFun.fill_bitpack_buffer_defined s data = true := by
  simp [Gen.CFun.fill_bitpack_buffer, Gen.CFun.fill_bitpack_buffer_defined, sle_zero64 _ h5, hr, hlt]

theorem fill_group (s : Gen.CFun.carquet_rle_decoder_t) (data : List UInt8)
    (h5 : s.run_remaining.toNat < 2 ^ 63) (hr : ¬ s.run_remaining.toNat = 0)
    (hlt : ¬ s.size < s.pos + BitVec.signExtend 64 s.bit_width) :
    Gen.CFun.fill_bitpack_buffer s data =
      (true, (fillOk s data)) ∧
    Gen.CFun.fill_bitpack_buffer_defined s data =
      Gen.CFun.carquet_bitunpack8_32_defined (List.drop (s.data + s.pos.toNat) data) s.bit_width s.bitpack_buffer := by
  simp [Gen.CFun.fill_bitpack_buffer, Gen.CFun.fill_bitpack_buffer_defined, sle_zero64 _ h5, hr, hlt, fillOk]

theorem fill_eq (ir : Bool) (rv : Nat) (s : Gen.CFun.carquet_rle_decoder_t) (data : List UInt8)
    (h : rleInv s data = true) (h0 : s.status = 0#32) :
    (Gen.CFun.fill_bitpack_buffer s data).1 = (Rle.fill (rleAbs ir rv s data)).1 ∧
    rleAbs ir rv (Gen.CFun.fill_bitpack_buffer s data).2 data = (Rle.fill (rleAbs ir rv s data)).2 ∧
    rleInv (Gen.CFun.fill_bitpack_buffer s data).2 data = true ∧
    (Gen.CFun.fill_bitpack_buffer s data).2.data = s.data ∧
    (Gen.CFun.fill_bitpack_buffer s data).2.size = s.size ∧
    (Gen.CFun.fill_bitpack_buffer s data).2.bit_width = s.bit_width ∧
    (Gen.CFun.fill_bitpack_buffer s data).2.value_mask = s.value_mask ∧
    (Gen.CFun.fill_bitpack_buffer s data).2.run_remaining = s.run_remaining ∧
    Gen.CFun.fill_bitpack_buffer_defined s data = true := by
  obtain ⟨h1, h2, h3, h4, h5, h6, h7, h8, h9, h10⟩ := inv_facts h
  obtain ⟨hw, hm⟩ := h10 h0
  have hpa := pos_add s hw (by omega)
  have hrest : (rleAbs ir rv s data).rest.length = data.length - s.pos.toNat := by simp [rleAbs]
  by_cases hr : s.run_remaining.toNat = 0
  · obtain ⟨e, ed⟩ := fill_no_run s data h5 hr
    have em : Rle.fill (rleAbs ir rv s data) = (false, rleAbs ir rv s data) := by
      rw [Rle.fill, if_pos (by simpa [rleAbs] using hr)]
    rw [e, em]
    exact ⟨rfl, rfl, h, rfl, rfl, rfl, rfl, rfl, ed⟩
  · by_cases hs : data.length - s.pos.toNat < s.bit_width.toNat
    · have hlt : s.size < s.pos + BitVec.signExtend 64 s.bit_width := by rw [BitVec.lt_def, hpa]; omega
      obtain ⟨e, ed⟩ := fill_short s data h5 hr hlt
      have em : Rle.fill (rleAbs ir rv s data) = (false, { rleAbs ir rv s data with status := .invalidRle }) := by
        rw [Rle.fill, if_neg (by simpa [rleAbs] using hr), if_pos (by rw [hrest]; simpa [rleAbs] using hs)]
      rw [e, em]
      refine ⟨rfl, by simp [rleAbs], ?_, rfl, rfl, rfl, rfl, rfl, ed⟩
      exact inv_of_facts (s := { s with status := 43#32 }) h1 h2 h3 h4 h5 h6 h7 h8 (Or.inr rfl)
        (fun hc => absurd hc (by simp))
    · have hlt : ¬ s.size < s.pos + BitVec.signExtend 64 s.bit_width := by rw [BitVec.lt_def, hpa]; omega
      obtain ⟨e, ed⟩ := fill_group s data h5 hr hlt
      have em : Rle.fill (rleAbs ir rv s data) =
          (true, { rleAbs ir rv s data with bp := Bitpack.unpack8 (rleAbs ir rv s data).width (rleAbs ir rv s data).rest,
                                            rest := (rleAbs ir rv s data).rest.drop (rleAbs ir rv s data).width }) := by
        rw [Rle.fill, if_neg (by simpa [rleAbs] using hr), if_neg (by rw [hrest]; simpa [rleAbs] using hs)]
      have hbw : s.bit_width = BitVec.ofNat 32 s.bit_width.toNat := by simp
      have hin : s.bit_width.toNat ≤ (List.drop (s.data + s.pos.toNat) data).length := by
        rw [h1, List.length_drop]; omega
      have hv := Bitunpack.bitunpack8_32_full (List.drop (s.data + s.pos.toNat) data) s.bitpack_buffer
        s.bit_width.toNat hw hin (by omega)
      have hd := Bitunpack.bitunpack8_32_full_defined (List.drop (s.data + s.pos.toNat) data) s.bitpack_buffer
        s.bit_width.toNat hw hin (by omega)
      rw [← hbw] at hv hd
      have hd8 : List.drop 8 s.bitpack_buffer = [] := List.drop_eq_nil_of_le (by omega)
      rw [hd8, List.map_nil, List.append_nil, h1, Nat.zero_add] at hv
      have hlen : (Gen.CFun.carquet_bitunpack8_32 (List.drop (s.data + s.pos.toNat) data) s.bit_width
          s.bitpack_buffer).length = 8 := by
        have := congrArg List.length hv
        rw [List.length_map, BitpackImpl.unpack8_length hw] at this
        rw [h1, Nat.zero_add]; exact this
      rw [e, em, ed]
      refine ⟨rfl, ?_, ?_, rfl, rfl, rfl, rfl, rfl, hd⟩
      · show rleAbs ir rv (fillOk s data) data = _
        simp only [rleAbs, fillOk, hpa, h1, Nat.zero_add]
        rw [h1, Nat.zero_add] at hlen
        have hbp : List.map (fun x : BitVec 32 => x.toNat) (List.take ((8#32).toNat - (0#32).toNat) (List.drop (0#32).toNat
            (Gen.CFun.carquet_bitunpack8_32 (List.drop s.pos.toNat data) s.bit_width s.bitpack_buffer))) =
            Bitpack.unpack8 s.bit_width.toNat (List.drop s.pos.toNat data) := by
          rw [← hv, show (0#32).toNat = 0 from rfl, show (8#32).toNat = 8 from rfl, List.drop_zero,
            List.take_of_length_le (by omega)]
        rw [hbp, List.drop_drop]
      · exact inv_of_facts (s := (fillOk s data)) h1 h2 h3
          (by show (s.pos + BitVec.signExtend 64 s.bit_width).toNat ≤ s.size.toNat; rw [hpa]; omega)
          h5 hlen (by simp [fillOk]) (by simp [fillOk]) (Or.inl h0) h10

end Carquet.Proofs.CFun3.RleDec
