import Carquet.Impl.ThriftCost
import Carquet.Proofs.ThriftSafe
/-
`thrift_skip` takes a number of steps LINEAR in the bytes it consumes, on arbitrary input
(repaired code): `skipSteps ≤ 36 · (consumed + 1)`.

Accounting: a call that consumes bytes or ends in an error pays for itself 36-fold; the only calls
that do neither are bool fields (their header byte was paid by the loop).  (Before fix F62 the
three `carquet_buffer_reader_skip` cases — BYTE, DOUBLE, UUID on a buffer with fewer than 1 / 8 /
16 bytes left — were a second kind; with `skip_fixed` a stream that ends inside such a value is
THRIFT_TRUNCATED, an error like any other.)
-/
namespace Carquet.Proofs.ThriftSafe
open Carquet.Impl.Thrift

/-- 1 when the decoder carries an error -/
def err (d : Dec) : Nat := match d.status with | none => 0 | some _ => 1

theorem err_ok {d : Dec} (h : d.status = none) : err d = 0 := by unfold err; rw [h]
theorem err_bad {d : Dec} (h : d.status ≠ none) : err d = 1 := by
  unfold err; cases hs : d.status with
  | none => exact absurd hs h
  | some _ => rfl
theorem err_le (d : Dec) : err d ≤ 1 := by unfold err; cases d.status <;> simp

/-! ### progress: a primitive that ends OK has consumed at least one byte -/

theorem readByteRaw_ok (d : Dec) (h : (readByteRaw d).2.status = none) :
    (readByteRaw d).2.rest.length + 1 = d.rest.length := by
  unfold readByteRaw at h ⊢
  split
  · rename_i hr; simp only [hr] at h; exact absurd h (setError_status_ne d _)
  · rename_i b r hr; rw [hr, List.length_cons]

theorem readVarintLoop_ok : ∀ (n shift acc : Nat) (d : Dec), (readVarintLoop n shift acc d).2.status = none →
    (readVarintLoop n shift acc d).2.rest.length + 1 ≤ d.rest.length
  | 0, _, _, d, h => by unfold readVarintLoop at h; exact absurd h (setError_status_ne d _)
  | n + 1, shift, acc, d, h => by
    unfold readVarintLoop at h ⊢
    split
    · rename_i hr; simp only [hr] at h; exact absurd h (setError_status_ne d _)
    · rename_i b r hr
      simp only [hr] at h
      split
      · rw [hr, List.length_cons]; exact Nat.le_refl _
      · rename_i hb
        simp only [hb, if_false] at h
        have := (readVarintLoop_adv n (shift + 7) (acc + (b.toNat % 128) * 2 ^ shift) { d with rest := r, pos := d.pos + 1 }).len
        simp only [] at this
        rw [hr, List.length_cons]
        omega

theorem readVarint_ok (d : Dec) (h : (readVarint d).2.status = none) : (readVarint d).2.rest.length + 1 ≤ d.rest.length :=
  readVarintLoop_ok 10 0 0 d h

theorem readBinary_ok (d : Dec) (h : (readBinary d).2.2.status = none) : (readBinary d).2.2.rest.length + 1 ≤ d.rest.length := by
  have h1 := readBinaryK_adv (readVarint d).1 (readVarint d).2
  have h2 := readVarint_ok d (h1.ok h)
  have := h1.len
  show (readBinaryK (readVarint d).1 (readVarint d).2).2.2.rest.length + 1 ≤ d.rest.length
  omega

theorem readListBegin_ok (d : Dec) (h : (readListBegin d).dec.status = none) :
    (readListBegin d).dec.rest.length + 1 ≤ d.rest.length := by
  unfold readListBegin at h ⊢
  split
  · rename_i hc
    simp only [hc, if_true] at h
    have h1 := (readVarint_adv (readByteRaw d).2).trans (listCountChecks_adv ((readByteRaw d).1.toNat % 16)
      (toI32 (readVarint (readByteRaw d).2).1) (readVarint (readByteRaw d).2).2)
    have := readByteRaw_ok d (h1.ok h)
    have := h1.len
    omega
  · rename_i hc
    simp only [hc, if_false] at h
    have h1 := listCountChecks_adv ((readByteRaw d).1.toNat % 16) ((readByteRaw d).1.toNat / 16 : Nat) (readByteRaw d).2
    have := readByteRaw_ok d (h1.ok h)
    have := h1.len
    omega

theorem readMapBegin_ok (d : Dec) (h : (readMapBegin d).dec.status = none) :
    (readMapBegin d).dec.rest.length + 1 ≤ d.rest.length := by
  have h1 := readMapBeginK_adv (toI32 (readVarint d).1) (readVarint d).2
  have h2 := readVarint_ok d (h1.ok h)
  have := h1.len
  show (readMapBeginK (toI32 (readVarint d).1) (readVarint d).2).dec.rest.length + 1 ≤ d.rest.length
  omega

/-- the `read_field_begin` that ends a loop without error has read the STOP byte -/
theorem readFieldBegin_stop_ok (d : Dec) (hm : (readFieldBegin d).more = false)
    (h : (readFieldBegin d).dec.status = none) : (readFieldBegin d).dec.rest.length + 1 = d.rest.length := by
  unfold readFieldBegin at hm h ⊢
  split
  · rename_i hs; simp only [hs] at h; cases h
  · rename_i hs
    split
    · rename_i hr; simp only [hs, hr] at h; exact absurd h (setError_status_ne d _)
    · rename_i b r hr
      split
      · rw [hr, List.length_cons]
      · rename_i hb
        simp only [hs, hr, hb, if_false] at hm
        unfold readFieldBeginK at hm
        split at hm <;> cases hm

theorem readFieldBegin_of_err (d : Dec) (x : Err) (h : d.status = some x) :
    (readFieldBegin d).more = false ∧ (readFieldBegin d).dec = d := by
  unfold readFieldBegin; simp only [h]; exact ⟨trivial, trivial⟩

theorem repeatOk_of_err (g : Dec → Dec) (n : Nat) (d : Dec) (h : d.status ≠ none) : repeatOk g n d = d := by
  cases n with
  | zero => rfl
  | succ k =>
    unfold repeatOk
    cases hs : d.status with
    | none => exact absurd hs h
    | some x => rfl

theorem repeatSteps_of_err (g : Dec → Dec) (c : Dec → Nat) (n : Nat) (d : Dec) (h : d.status ≠ none) :
    repeatSteps g c n d = 0 := by
  cases n with
  | zero => rfl
  | succ k =>
    unfold repeatSteps
    cases hs : d.status with
    | none => exact absurd hs h
    | some x => rfl

/-! ### element loops -/

/-- every iteration pays for itself -/
theorem repeat_prog (g : Dec → Dec) (c : Dec → Nat) (Q : Nat → Prop)
    (hg : ∀ x, Good x → x.status = none → Q x.lastId.length →
      Adv x (g x) ∧ c x + 36 * (g x).rest.length ≤ 36 * (x.rest.length + err (g x))) :
    ∀ (n : Nat) (d : Dec), Good d → d.status = none → Q d.lastId.length →
      repeatSteps g c n d + 36 * (repeatOk g n d).rest.length ≤ 36 * (d.rest.length + err (repeatOk g n d))
  | 0, d, _, _, _ => by simp only [repeatSteps, repeatOk]; omega
  | n + 1, d, hgd, hs, hq => by
    obtain ⟨ha, hc⟩ := hg d hgd hs hq
    unfold repeatSteps repeatOk
    simp only [hs]
    cases hs' : (g d).status with
    | some x =>
      have hne : (g d).status ≠ none := by rw [hs']; simp
      rw [repeatOk_of_err g n _ hne, repeatSteps_of_err g c n _ hne]
      omega
    | none =>
      have ih := repeat_prog g c Q hg n (g d) (ha.good hgd) hs' (by rw [ha.depth hs']; exact hq)
      rw [err_ok hs'] at hc
      omega

/-! ### the claim about one `thrift_skip` invocation -/

def boolTy (ty : Nat) : Prop := ty = 1 ∨ ty = 2

/-- `thrift_skip(dec, ty)` from an OK state `d` to `d'` in `steps` steps -/
structure Claim (ty : Nat) (d d' : Dec) (steps : Nat) : Prop where
  bool : boolTy ty → steps = 1 ∧ d'.rest.length = d.rest.length ∧ d'.status = none
  prog : ¬boolTy ty → steps + 1 + 36 * d'.rest.length ≤ 36 * (d.rest.length + err d')

/-- `skip_element(dec, ty)` from an OK state: it consumes or fails, and pays for itself -/
structure EClaim (ty : Nat) (x x' : Dec) (steps : Nat) : Prop where
  prog : steps + 1 + 36 * x'.rest.length ≤ 36 * (x.rest.length + err x')

theorem Claim.of_prog {ty : Nat} {d d' : Dec} {steps : Nat} (hb : ¬boolTy ty)
    (h : steps + 1 + 36 * d'.rest.length ≤ 36 * (d.rest.length + err d')) : Claim ty d d' steps :=
  ⟨fun h' => absurd h' hb, fun _ => h⟩

/-- a read that consumes at least one byte unless it fails -/
theorem prog_of_read (d d' : Dec) (ha : Adv d d') (hok : d'.status = none → d'.rest.length + 1 ≤ d.rest.length) :
    1 + 1 + 36 * d'.rest.length ≤ 36 * (d.rest.length + err d') := by
  have := ha.len
  cases hs : d'.status with
  | none => have := hok hs; rw [err_ok hs]; omega
  | some x => rw [err_bad (by rw [hs]; simp)]; omega

/-- `skip_fixed` (fix F62) that ends OK has consumed its `n ≥ 1` bytes -/
theorem skipFixed_ok (d : Dec) (n : Nat) (h1 : 1 ≤ n) (h : (Dec.skipFixed Cfg.fixed d n).status = none) :
    (Dec.skipFixed Cfg.fixed d n).rest.length + 1 ≤ d.rest.length := by
  unfold Dec.skipFixed at h ⊢
  simp only [Cfg.fixed, if_true] at h ⊢
  split
  · rename_i hh
    unfold Dec.has at hh
    rw [lengthGe_iff] at hh
    simp only [Dec.advance, List.length_drop]
    omega
  · rename_i hh
    simp only [hh] at h
    exact absurd h (setError_status_ne d _)

/-- … and one that does not find its `n` bytes reports THRIFT_TRUNCATED -/
theorem skipFixed_short (d : Dec) (n : Nat) (hs : d.status = none) (h : d.rest.length < n) :
    (Dec.skipFixed Cfg.fixed d n).status = some .truncated := by
  unfold Dec.skipFixed
  have : d.has n = false := by
    cases hh : d.has n with
    | false => rfl
    | true => unfold Dec.has at hh; rw [lengthGe_iff] at hh; omega
  simp only [Cfg.fixed, if_true, this, Bool.false_eq_true, if_false]
  unfold Dec.setError
  rw [hs]

theorem skipElement_of_err (sk : Nat → Dec → Dec) (ty : Nat) (d : Dec) (h : d.status ≠ none) :
    skipElement Cfg.fixed sk ty d = d := by
  unfold skipElement
  cases hs : d.status with
  | none => exact absurd hs h
  | some x => simp [Cfg.fixed]

theorem skipElementSteps_of_err (skS : Nat → Dec → Nat) (ty : Nat) (d : Dec) (h : d.status ≠ none) :
    skipElementSteps Cfg.fixed skS ty d = 1 := by
  unfold skipElementSteps
  cases hs : d.status with
  | none => exact absurd hs h
  | some x => simp [Cfg.fixed]

theorem elem_claim (sk : Nat → Dec → Dec) (skS : Nat → Dec → Nat) (ty : Nat) (x : Dec) (hs : x.status = none)
    (hsk : ¬boolTy ty → Claim ty x (sk ty x) (skS ty x)) :
    EClaim ty x (skipElement Cfg.fixed sk ty x) (skipElementSteps Cfg.fixed skS ty x) := by
  unfold skipElement skipElementSteps
  simp only [Cfg.fixed, if_true, hs]
  by_cases hb : ty = 1 ∨ ty = 2
  · simp only [hb, if_true]
    refine ⟨?_⟩
    have := prog_of_read x (readByteRaw x).2 (readByteRaw_adv x) (fun h => by have := readByteRaw_ok x h; omega)
    omega
  · simp only [hb, if_false]
    exact ⟨(hsk hb).prog hb⟩

/-- one map entry: `skip_element(key); skip_element(value)` -/
theorem pair_claim (sk : Nat → Dec → Dec) (skS : Nat → Dec → Nat) (kt vt : Nat) (x : Dec)
    (hak : Adv x (skipElement Cfg.fixed sk kt x))
    (hk : EClaim kt x (skipElement Cfg.fixed sk kt x) (skipElementSteps Cfg.fixed skS kt x))
    (hav : Adv (skipElement Cfg.fixed sk kt x) (skipElement Cfg.fixed sk vt (skipElement Cfg.fixed sk kt x)))
    (hv : (skipElement Cfg.fixed sk kt x).status = none →
      EClaim vt (skipElement Cfg.fixed sk kt x) (skipElement Cfg.fixed sk vt (skipElement Cfg.fixed sk kt x))
        (skipElementSteps Cfg.fixed skS vt (skipElement Cfg.fixed sk kt x))) :
    skipElementSteps Cfg.fixed skS kt x + skipElementSteps Cfg.fixed skS vt (skipElement Cfg.fixed sk kt x) +
        36 * (skipElement Cfg.fixed sk vt (skipElement Cfg.fixed sk kt x)).rest.length ≤
      36 * (x.rest.length + err (skipElement Cfg.fixed sk vt (skipElement Cfg.fixed sk kt x))) := by
  have hl1 := hak.len
  have hl2 := hav.len
  generalize hx1 : skipElement Cfg.fixed sk kt x = x1 at *
  have h1 := hk.prog
  cases hs1 : x1.status with
  | some e =>
    have hne : x1.status ≠ none := by rw [hs1]; simp
    rw [skipElement_of_err sk vt x1 hne, skipElementSteps_of_err skS vt x1 hne]
    omega
  | none =>
    have h2 := (hv hs1).prog
    rw [err_ok hs1] at h1
    omega

/-! ### the STRUCT case: `while (read_field_begin) thrift_skip` -/

abbrev skBody (sk : Nat → Dec → Dec) : Nat → Int → Dec → Unit → Unit × Dec := fun ty _ d s => (s, sk ty d)
abbrev skBodyS (skS : Nat → Dec → Nat) : Nat → Int → Dec → Unit → Nat := fun ty _ d _ => skS ty d

theorem fieldLoop_of_err {σ : Type} (stop : σ → Bool) (body : Nat → Int → Dec → σ → σ × Dec) (f : Nat) (d : Dec) (s : σ)
    (x : Err) (h : d.status = some x) : fieldLoop stop body (f + 1) d s = (s, d) := by
  unfold fieldLoop
  obtain ⟨h1, h2⟩ := readFieldBegin_of_err d x h
  simp only [h1, h2]

theorem fieldLoopSteps_of_err {σ : Type} (stop : σ → Bool) (body : Nat → Int → Dec → σ → σ × Dec)
    (c : Nat → Int → Dec → σ → Nat) (f : Nat) (d : Dec) (s : σ) (x : Err) (h : d.status = some x) :
    fieldLoopSteps stop body c (f + 1) d s = 1 := by
  unfold fieldLoopSteps
  obtain ⟨h1, _⟩ := readFieldBegin_of_err d x h
  simp only [h1]

theorem structLoop_steps (sk : Nat → Dec → Dec) (skS : Nat → Dec → Nat) (Q : Nat → Prop)
    (hsk : ∀ ty x, Good x → x.status = none → Q x.lastId.length → Adv x (sk ty x) ∧ Claim ty x (sk ty x) (skS ty x))
    (hskE : ∀ ty x, x.status ≠ none → sk ty x = x ∧ skS ty x = 1) :
    ∀ (fuel : Nat) (d : Dec), Good d → d.status = none → Q d.lastId.length → d.rest.length < fuel →
      fieldLoopSteps (fun _ => false) (skBody sk) (skBodyS skS) fuel d () + 2 +
        36 * (fieldLoop (fun _ => false) (skBody sk) fuel d ()).2.rest.length ≤
      36 * (d.rest.length + err (fieldLoop (fun _ => false) (skBody sk) fuel d ()).2)
  | 0, d, _, _, _, hf => by omega
  | f + 1, d, hg, hs, hq, hf => by
    have h1 := readFieldBegin_adv d
    have hl1 := h1.len
    unfold fieldLoopSteps fieldLoop
    cases hm : (readFieldBegin d).more with
    | false =>
      simp only []
      cases hs1 : (readFieldBegin d).dec.status with
      | none => have := readFieldBegin_stop_ok d hm hs1; rw [err_ok hs1]; omega
      | some x => rw [err_bad (by rw [hs1]; simp)]; omega
    | true =>
      have hp := readFieldBegin_progress d hm
      simp only [Bool.false_eq_true, if_false, skBody, skBodyS]
      generalize hy : (readFieldBegin d).dec = y at *
      generalize hty : (readFieldBegin d).ty = ty at *
      obtain ⟨f', rfl⟩ : ∃ f', f = f' + 1 := ⟨f - 1, by omega⟩
      cases hsy : y.status with
      | some x =>
        obtain ⟨e1, e2⟩ := hskE ty y (by rw [hsy]; simp)
        rw [e1, e2, fieldLoop_of_err _ _ f' y () x hsy, fieldLoopSteps_of_err _ _ _ f' y () x hsy]
        rw [err_bad (by rw [hsy]; simp)]
        show 1 + 1 + 1 + 2 + 36 * y.rest.length ≤ 36 * (d.rest.length + 1)
        omega
      | none =>
        have hgy := h1.good hg
        obtain ⟨ha, hc⟩ := hsk ty y hgy hsy (by rw [h1.depth hsy]; exact hq)
        have hl2 := ha.len
        generalize hy' : sk ty y = y' at *
        cases hsy' : y'.status with
        | some x =>
          rw [fieldLoop_of_err _ _ f' y' () x hsy', fieldLoopSteps_of_err _ _ _ f' y' () x hsy']
          have hne : y'.status ≠ none := by rw [hsy']; simp
          rw [err_bad hne]
          have hnb : ¬boolTy ty := fun h => hne (hc.bool h).2.2
          have := hc.prog hnb
          rw [err_bad hne] at this
          show 1 + skS ty y + 1 + 2 + 36 * y'.rest.length ≤ 36 * (d.rest.length + 1)
          omega
        | none =>
          have ih := structLoop_steps sk skS Q hsk hskE (f' + 1) y' (ha.good hgy) hsy'
            (by rw [ha.depth hsy', h1.depth hsy]; exact hq) (by omega)
          simp only [skBody, skBodyS] at ih
          generalize fieldLoopSteps (fun _ => false) (fun ty _ d s => (s, sk ty d)) (fun ty _ d _ => skS ty d) (f' + 1) y' () = FL at *
          generalize (fieldLoop (fun _ => false) (fun ty _ d s => (s, sk ty d)) (f' + 1) y' ()).2 = fin at *
          have he := err_le fin
          by_cases hb : boolTy ty
          · obtain ⟨b1, b2, _⟩ := hc.bool hb
            omega
          · have := hc.prog hb
            rw [err_ok hsy'] at this
            omega


/-! ### containers -/

theorem listBody_claim (sk : Nat → Dec → Dec) (skS : Nat → Dec → Nat) (L : Nat)
    (hrec : ∀ ty x, Good x → x.status = none → x.lastId.length = L → Adv x (sk ty x) ∧ Claim ty x (sk ty x) (skS ty x))
    (d1 : Dec) (hg1 : Good d1) (hl1 : d1.status = none → d1.lastId.length = L) :
    skipListBodySteps Cfg.fixed sk skS d1 + 2 + 36 * (skipListBody Cfg.fixed sk d1).rest.length ≤
      36 * (d1.rest.length + err (skipListBody Cfg.fixed sk d1)) := by
  unfold skipListBodySteps skipListBody
  have h1 := readListBegin_adv d1
  have hl := h1.len
  have hcnt := (readListBegin_count d1).2
  generalize (readListBegin d1).elemTy = et at *
  generalize (readListBegin d1).count.toNat = n at *
  generalize hy : (readListBegin d1).dec = y at *
  cases hsy : y.status with
  | some x =>
    have hne : y.status ≠ none := by rw [hsy]; simp
    rw [repeatOk_of_err _ n y hne, repeatSteps_of_err _ _ n y hne, err_bad hne]
    omega
  | none =>
    have hprog : y.rest.length + 1 ≤ d1.rest.length := by rw [← hy]; exact readListBegin_ok d1 (by rw [hy]; exact hsy)
    have hgy := h1.good hg1
    have hly : y.lastId.length = L := by rw [h1.depth hsy]; exact hl1 (h1.ok hsy)
    have hadv : ∀ x, Good x → x.status = none → x.lastId.length = L → Adv x (skipElement Cfg.fixed sk et x) :=
      fun x hx hsx hlx => skipElement_adv sk et x (fun _ => (hrec et x hx hsx hlx).1)
    have hec : ∀ x, Good x → x.status = none → x.lastId.length = L →
        EClaim et x (skipElement Cfg.fixed sk et x) (skipElementSteps Cfg.fixed skS et x) :=
      fun x hx hsx hlx => elem_claim sk skS et x hsx (fun _ => (hrec et x hx hsx hlx).2)
    have hfin := (repeatOk_adv (skipElement Cfg.fixed sk et) (· = L) hadv n y hgy (fun _ => hly)).len
    have := repeat_prog (skipElement Cfg.fixed sk et) (skipElementSteps Cfg.fixed skS et) (· = L)
      (fun x hx hsx hlx => ⟨hadv x hx hsx hlx, by have := (hec x hx hsx hlx).prog; omega⟩) n y hgy hsy hly
    have he := err_le (repeatOk (skipElement Cfg.fixed sk et) n y)
    omega

theorem mapBody_claim (sk : Nat → Dec → Dec) (skS : Nat → Dec → Nat) (L : Nat)
    (hrec : ∀ ty x, Good x → x.status = none → x.lastId.length = L → Adv x (sk ty x) ∧ Claim ty x (sk ty x) (skS ty x))
    (d1 : Dec) (hg1 : Good d1) (hl1 : d1.status = none → d1.lastId.length = L) :
    skipMapBodySteps Cfg.fixed sk skS d1 + 2 + 36 * (skipMapBody Cfg.fixed sk d1).rest.length ≤
      36 * (d1.rest.length + err (skipMapBody Cfg.fixed sk d1)) := by
  unfold skipMapBodySteps skipMapBody
  have h1 := readMapBegin_adv d1
  have hl := h1.len
  have hcnt := (readMapBegin_count d1).2
  generalize (readMapBegin d1).keyTy = kt at *
  generalize (readMapBegin d1).valTy = vt at *
  generalize (readMapBegin d1).count.toNat = n at *
  generalize hy : (readMapBegin d1).dec = y at *
  cases hsy : y.status with
  | some x =>
    have hne : y.status ≠ none := by rw [hsy]; simp
    rw [repeatOk_of_err _ n y hne, repeatSteps_of_err _ _ n y hne, err_bad hne]
    omega
  | none =>
    have hprog : y.rest.length + 1 ≤ d1.rest.length := by rw [← hy]; exact readMapBegin_ok d1 (by rw [hy]; exact hsy)
    have hgy := h1.good hg1
    have hly : y.lastId.length = L := by rw [h1.depth hsy]; exact hl1 (h1.ok hsy)
    have hadvk : ∀ x, Good x → x.status = none → x.lastId.length = L → Adv x (skipElement Cfg.fixed sk kt x) :=
      fun x hx hsx hlx => skipElement_adv sk kt x (fun _ => (hrec kt x hx hsx hlx).1)
    have hadvv : ∀ x, Good x → (x.status = none → x.lastId.length = L) → Adv x (skipElement Cfg.fixed sk vt x) :=
      fun x hx hlx => skipElement_adv sk vt x (fun h => (hrec vt x hx h (hlx h)).1)
    have hpair : ∀ x, Good x → x.status = none → x.lastId.length = L →
        Adv x (skipElement Cfg.fixed sk vt (skipElement Cfg.fixed sk kt x)) ∧ _ :=
      fun x hx hsx hlx =>
        have hk := hadvk x hx hsx hlx
        have hv := hadvv _ (hk.good hx) (fun h => by rw [hk.depth h]; exact hlx)
        ⟨hk.trans hv, pair_claim sk skS kt vt x hk (elem_claim sk skS kt x hsx (fun _ => (hrec kt x hx hsx hlx).2)) hv
          (fun h => elem_claim sk skS vt _ h (fun _ => (hrec vt _ (hk.good hx) h (by rw [hk.depth h]; exact hlx)).2))⟩
    have hfin := (repeatOk_adv (fun x => skipElement Cfg.fixed sk vt (skipElement Cfg.fixed sk kt x)) (· = L)
      (fun x hx hsx hlx => (hpair x hx hsx hlx).1) n y hgy (fun _ => hly)).len
    have := repeat_prog (fun x => skipElement Cfg.fixed sk vt (skipElement Cfg.fixed sk kt x))
      (fun x => skipElementSteps Cfg.fixed skS kt x + skipElementSteps Cfg.fixed skS vt (skipElement Cfg.fixed sk kt x))
      (· = L)
      (fun x hx hsx hlx => ⟨(hpair x hx hsx hlx).1, (hpair x hx hsx hlx).2⟩) n y hgy hsy hly
    have he := err_le (repeatOk (fun x => skipElement Cfg.fixed sk vt (skipElement Cfg.fixed sk kt x)) n y)
    omega

theorem container_claim (ty : Nat) (hb : ¬boolTy ty) (d : Dec) (body : Dec → Dec) (bodyS : Dec → Nat)
    (hbody : d.lastId.length < maxNesting →
      bodyS { d with lastId := 0 :: d.lastId } + 2 + 36 * (body { d with lastId := 0 :: d.lastId }).rest.length ≤
        36 * (d.rest.length + err (body { d with lastId := 0 :: d.lastId }))) :
    Claim ty d (skipContainer Cfg.fixed body d) (1 + skipContainerSteps Cfg.fixed bodyS d) := by
  refine Claim.of_prog hb ?_
  unfold skipContainer skipContainerSteps enterContainer
  simp only [Cfg.fixed, if_true]
  split
  · simp only [Bool.false_eq_true, if_false]
    rw [err_bad (setError_status_ne d _), setError_rest]
    omega
  · rename_i hlt
    simp only [if_true]
    have := hbody (by omega)
    have he : err (leaveContainer (body { d with lastId := 0 :: d.lastId })) = err (body { d with lastId := 0 :: d.lastId }) := rfl
    have hr : (leaveContainer (body { d with lastId := 0 :: d.lastId })).rest = (body { d with lastId := 0 :: d.lastId }).rest := rfl
    rw [he, hr]
    omega


/-! ### `thrift_skip`: linear in the bytes consumed -/

theorem skip_ok' (cfg : Cfg) (stk ty : Nat) (d : Dec) (hs : d.status = none) :
    skip cfg (stk + 1) ty d = skipCase cfg (skip cfg stk) ty d := by
  rw [skip]; simp only [hs]

theorem skipSteps_ok (cfg : Cfg) (stk ty : Nat) (d : Dec) (hs : d.status = none) :
    skipSteps cfg (stk + 1) ty d = 1 + skipCaseSteps cfg (skip cfg stk) (skipSteps cfg stk) ty d := by
  rw [skipSteps]; simp only [hs]

theorem skipSteps_of_err (cfg : Cfg) (stk ty : Nat) (d : Dec) (h : d.status ≠ none) : skipSteps cfg stk ty d = 1 := by
  cases stk with
  | zero => rfl
  | succ k =>
    rw [skipSteps]
    cases hs : d.status with
    | none => exact absurd hs h
    | some x => rfl

theorem skipCaseSteps_scalar (cfg : Cfg) (sk : Nat → Dec → Dec) (skS : Nat → Dec → Nat) (ty : Nat) (d : Dec)
    (h : ty < 9 ∨ 12 < ty) : skipCaseSteps cfg sk skS ty d = 0 := by
  unfold skipCaseSteps
  rw [if_neg (by omega), if_neg (by omega), if_neg (by omega)]

theorem skipCase_big (cfg : Cfg) (sk : Nat → Dec → Dec) (ty : Nat) (d : Dec) (h : 14 ≤ ty) :
    skipCase cfg sk ty d = d.setError .invalidType := by
  unfold skipCase
  rw [if_neg (by omega), if_neg (by omega), if_neg (by omega), if_neg (by omega), if_neg (by omega),
    if_neg (by omega), if_neg (by omega), if_neg (by omega), if_neg (by omega), if_neg (by omega)]

/-- **`thrift_skip` on arbitrary bytes takes at most 36 steps per byte consumed (plus 36 for a
final error)** — for every wire type, every decoder state and every sufficient stack grant. -/
theorem skip_claim : ∀ (stk ty : Nat) (d : Dec), Good d → d.status = none → StackOK stk d →
    Claim ty d (skip Cfg.fixed stk ty d) (skipSteps Cfg.fixed stk ty d)
  | 0, _, _, _, _, hst => by have := hst.1; omega
  | stk + 1, ty, d, hg, hs, hst => by
    rw [skip_ok' _ _ _ _ hs, skipSteps_ok _ _ _ _ hs]
    have hrec : ∀ ty' x, Good x → x.status = none → x.lastId.length = d.lastId.length + 1 →
        d.lastId.length < maxNesting →
        Adv x (skip Cfg.fixed stk ty' x) ∧ Claim ty' x (skip Cfg.fixed stk ty' x) (skipSteps Cfg.fixed stk ty' x) := by
      intro ty' x hx hsx hlx hlt
      have hso : StackOK stk x := by
        unfold StackOK maxNesting at *
        omega
      exact ⟨skip_adv stk ty' x hx (fun _ => hso), skip_claim stk ty' x hx hsx hso⟩
    have hty : ty = 0 ∨ ty = 1 ∨ ty = 2 ∨ ty = 3 ∨ ty = 4 ∨ ty = 5 ∨ ty = 6 ∨ ty = 7 ∨ ty = 8 ∨ ty = 9 ∨ ty = 10 ∨
        ty = 11 ∨ ty = 12 ∨ ty = 13 ∨ 14 ≤ ty := by omega
    have hscalar : ∀ d', (ty < 9 ∨ 12 < ty) → ¬boolTy ty → Adv d d' →
        (d'.status = none → d'.rest.length + 1 ≤ d.rest.length) →
        Claim ty d d' (1 + skipCaseSteps Cfg.fixed (skip Cfg.fixed stk) (skipSteps Cfg.fixed stk) ty d) := by
      intro d' h1 hb ha hok
      rw [skipCaseSteps_scalar _ _ _ _ _ h1]
      exact Claim.of_prog hb (by have := prog_of_read d d' ha hok; omega)
    have hbool : boolTy ty → Claim ty d { d with boolPending := false }
        (1 + skipCaseSteps Cfg.fixed (skip Cfg.fixed stk) (skipSteps Cfg.fixed stk) ty d) := by
      intro hb
      have hlt : ty < 9 ∨ 12 < ty := by unfold boolTy at hb; omega
      rw [skipCaseSteps_scalar _ _ _ _ _ hlt]
      exact ⟨fun _ => ⟨rfl, rfl, hs⟩, fun h => absurd hb h⟩
    have herr : ∀ e, e ≠ Err.fuel → e ≠ Err.stack → (ty < 9 ∨ 12 < ty) → ¬boolTy ty →
        Claim ty d (d.setError e) (1 + skipCaseSteps Cfg.fixed (skip Cfg.fixed stk) (skipSteps Cfg.fixed stk) ty d) :=
      fun e h1 h2 hlt hb => hscalar _ hlt hb (setError_adv d e h1 h2) (fun h => absurd h (setError_status_ne d e))
    have hlist : (ty = 9 ∨ ty = 10) →
        Claim ty d (skipContainer Cfg.fixed (skipListBody Cfg.fixed (skip Cfg.fixed stk)) d)
          (1 + skipContainerSteps Cfg.fixed (skipListBodySteps Cfg.fixed (skip Cfg.fixed stk) (skipSteps Cfg.fixed stk)) d) := by
      intro h
      refine container_claim ty (by unfold boolTy; omega) d _ _ (fun hlt => ?_)
      exact listBody_claim _ _ (d.lastId.length + 1) (fun ty' x hx hsx hlx => hrec ty' x hx hsx hlx hlt)
        { d with lastId := 0 :: d.lastId } ⟨hg.bud, hg.nofuel, hg.nostack⟩ (fun _ => by simp)
    have hmap : ty = 11 →
        Claim ty d (skipContainer Cfg.fixed (skipMapBody Cfg.fixed (skip Cfg.fixed stk)) d)
          (1 + skipContainerSteps Cfg.fixed (skipMapBodySteps Cfg.fixed (skip Cfg.fixed stk) (skipSteps Cfg.fixed stk)) d) := by
      intro h
      refine container_claim ty (by unfold boolTy; omega) d _ _ (fun hlt => ?_)
      exact mapBody_claim _ _ (d.lastId.length + 1) (fun ty' x hx hsx hlx => hrec ty' x hx hsx hlx hlt)
        { d with lastId := 0 :: d.lastId } ⟨hg.bud, hg.nofuel, hg.nostack⟩ (fun _ => by simp)
    have hstruct : ty = 12 →
        Claim ty d (structEnd (skipFields (skip Cfg.fixed stk) d.budget (structBegin d)))
          (1 + fieldLoopSteps (σ := Unit) (fun _ => false) (skBody (skip Cfg.fixed stk)) (skBodyS (skipSteps Cfg.fixed stk))
            d.budget (structBegin d) ()) := by
      intro h
      refine Claim.of_prog (by unfold boolTy; omega) ?_
      have hrs : (structEnd (skipFields (skip Cfg.fixed stk) d.budget (structBegin d))).rest =
          (fieldLoop (fun _ => false) (skBody (skip Cfg.fixed stk)) d.budget (structBegin d) ()).2.rest := rfl
      have hre : err (structEnd (skipFields (skip Cfg.fixed stk) d.budget (structBegin d))) =
          err (fieldLoop (fun _ => false) (skBody (skip Cfg.fixed stk)) d.budget (structBegin d) ()).2 := rfl
      rw [hrs, hre]
      obtain ⟨b, hb⟩ : ∃ b, d.budget = b + 1 := ⟨d.budget - 1, by have := hg.bud; omega⟩
      unfold structBegin
      split
      · -- nesting limit reached
        have hne := setError_status_ne d Err.decode
        cases hse : (d.setError Err.decode).status with
        | none => exact absurd hse hne
        | some x =>
          rw [hb, fieldLoop_of_err _ _ b _ () x hse, fieldLoopSteps_of_err _ _ _ b _ () x hse, err_bad hne, setError_rest]
          omega
      · rename_i hlt
        have := structLoop_steps (skip Cfg.fixed stk) (skipSteps Cfg.fixed stk) (· = d.lastId.length + 1)
          (fun ty' x hx hsx hlx => hrec ty' x hx hsx hlx (by omega))
          (fun ty' x hx => by
            cases hsx : x.status with
            | none => exact absurd hsx hx
            | some e => exact ⟨skip_of_err _ _ _ _ e hsx, skipSteps_of_err _ _ _ _ hx⟩)
          d.budget { d with lastId := 0 :: d.lastId } ⟨hg.bud, hg.nofuel, hg.nostack⟩ hs (by simp) hg.bud
        simp only [] at this
        omega
    rcases hty with h | h | h | h | h | h | h | h | h | h | h | h | h | h | h
    · subst h
      have : skipCase Cfg.fixed (skip Cfg.fixed stk) 0 d = d.setError .decode := by simp [skipCase]
      rw [this]
      exact herr _ (by decide) (by decide) (by omega) (by unfold boolTy; omega)
    · subst h
      have : skipCase Cfg.fixed (skip Cfg.fixed stk) 1 d = { d with boolPending := false } := by simp [skipCase]
      rw [this]; exact hbool (Or.inl rfl)
    · subst h
      have : skipCase Cfg.fixed (skip Cfg.fixed stk) 2 d = { d with boolPending := false } := by simp [skipCase]
      rw [this]; exact hbool (Or.inr rfl)
    · subst h
      have : skipCase Cfg.fixed (skip Cfg.fixed stk) 3 d = Dec.skipFixed Cfg.fixed d 1 := by simp [skipCase]
      rw [this]
      exact hscalar _ (by omega) (by unfold boolTy; omega) (skipFixed_adv _ d 1) (skipFixed_ok d 1 (by omega))
    · subst h
      have : skipCase Cfg.fixed (skip Cfg.fixed stk) 4 d = (readVarint d).2 := by simp [skipCase]
      rw [this]
      exact hscalar _ (by omega) (by unfold boolTy; omega) (readVarint_adv d) (readVarint_ok d)
    · subst h
      have : skipCase Cfg.fixed (skip Cfg.fixed stk) 5 d = (readVarint d).2 := by simp [skipCase]
      rw [this]
      exact hscalar _ (by omega) (by unfold boolTy; omega) (readVarint_adv d) (readVarint_ok d)
    · subst h
      have : skipCase Cfg.fixed (skip Cfg.fixed stk) 6 d = (readVarint d).2 := by simp [skipCase]
      rw [this]
      exact hscalar _ (by omega) (by unfold boolTy; omega) (readVarint_adv d) (readVarint_ok d)
    · subst h
      have : skipCase Cfg.fixed (skip Cfg.fixed stk) 7 d = Dec.skipFixed Cfg.fixed d 8 := by simp [skipCase]
      rw [this]
      exact hscalar _ (by omega) (by unfold boolTy; omega) (skipFixed_adv _ d 8) (skipFixed_ok d 8 (by omega))
    · subst h
      have : skipCase Cfg.fixed (skip Cfg.fixed stk) 8 d = (readBinary d).2.2 := by simp [skipCase]
      rw [this]
      exact hscalar _ (by omega) (by unfold boolTy; omega) (readBinary_adv d) (readBinary_ok d)
    · subst h
      have e1 : skipCase Cfg.fixed (skip Cfg.fixed stk) 9 d =
          skipContainer Cfg.fixed (skipListBody Cfg.fixed (skip Cfg.fixed stk)) d := by simp [skipCase]
      have e2 : skipCaseSteps Cfg.fixed (skip Cfg.fixed stk) (skipSteps Cfg.fixed stk) 9 d =
          skipContainerSteps Cfg.fixed (skipListBodySteps Cfg.fixed (skip Cfg.fixed stk) (skipSteps Cfg.fixed stk)) d := by
        simp [skipCaseSteps]
      rw [e1, e2]; exact hlist (Or.inl rfl)
    · subst h
      have e1 : skipCase Cfg.fixed (skip Cfg.fixed stk) 10 d =
          skipContainer Cfg.fixed (skipListBody Cfg.fixed (skip Cfg.fixed stk)) d := by simp [skipCase]
      have e2 : skipCaseSteps Cfg.fixed (skip Cfg.fixed stk) (skipSteps Cfg.fixed stk) 10 d =
          skipContainerSteps Cfg.fixed (skipListBodySteps Cfg.fixed (skip Cfg.fixed stk) (skipSteps Cfg.fixed stk)) d := by
        simp [skipCaseSteps]
      rw [e1, e2]; exact hlist (Or.inr rfl)
    · subst h
      have e1 : skipCase Cfg.fixed (skip Cfg.fixed stk) 11 d =
          skipContainer Cfg.fixed (skipMapBody Cfg.fixed (skip Cfg.fixed stk)) d := by simp [skipCase]
      have e2 : skipCaseSteps Cfg.fixed (skip Cfg.fixed stk) (skipSteps Cfg.fixed stk) 11 d =
          skipContainerSteps Cfg.fixed (skipMapBodySteps Cfg.fixed (skip Cfg.fixed stk) (skipSteps Cfg.fixed stk)) d := by
        simp [skipCaseSteps]
      rw [e1, e2]; exact hmap rfl
    · subst h
      have e1 : skipCase Cfg.fixed (skip Cfg.fixed stk) 12 d =
          structEnd (skipFields (skip Cfg.fixed stk) d.budget (structBegin d)) := by simp [skipCase]
      have e2 : skipCaseSteps Cfg.fixed (skip Cfg.fixed stk) (skipSteps Cfg.fixed stk) 12 d =
          fieldLoopSteps (σ := Unit) (fun _ => false) (skBody (skip Cfg.fixed stk)) (skBodyS (skipSteps Cfg.fixed stk))
            d.budget (structBegin d) () := by simp [skipCaseSteps]
      rw [e1, e2]; exact hstruct rfl
    · subst h
      have : skipCase Cfg.fixed (skip Cfg.fixed stk) 13 d = Dec.skipFixed Cfg.fixed d 16 := by simp [skipCase]
      rw [this]
      exact hscalar _ (by omega) (by unfold boolTy; omega) (skipFixed_adv _ d 16) (skipFixed_ok d 16 (by omega))
    · rw [skipCase_big _ _ _ _ h]
      exact herr _ (by decide) (by decide) (by omega) (by unfold boolTy; omega)

/-- the bound in one line: from an OK state, `steps ≤ 36 · (bytes consumed) + 36` -/
theorem skipSteps_le (stk ty : Nat) (d : Dec) (hg : Good d) (hs : d.status = none) (hst : StackOK stk d) :
    skipSteps Cfg.fixed stk ty d + 36 * (skip Cfg.fixed stk ty d).rest.length ≤ 36 * d.rest.length + 36 := by
  have hc := skip_claim stk ty d hg hs hst
  have hl := (skip_adv stk ty d hg (fun _ => hst)).len
  have he := err_le (skip Cfg.fixed stk ty d)
  by_cases hb : boolTy ty
  · obtain ⟨h1, h2, _⟩ := hc.bool hb; omega
  · have := hc.prog hb; omega


/-- width of the fixed-width wire types `thrift_skip` skips with `skip_fixed` -/
def fixedWidth (ty : Nat) : Nat := if ty = 3 then 1 else if ty = 7 then 8 else if ty = 13 then 16 else 0

/-- fix F62 as seen from the parsers: `thrift_skip` of a BYTE / DOUBLE / UUID that the stream ends
inside reports THRIFT_TRUNCATED (before the fix it reported nothing and consumed nothing) -/
theorem skipField_short (ty : Nat) (d : Dec) (hs : d.status = none) (h : d.rest.length < fixedWidth ty) :
    (skipField Cfg.fixed ty d).status = some .truncated := by
  unfold skipField stackBudget
  rw [skip_ok' _ _ _ _ hs]
  unfold fixedWidth at h
  by_cases h3 : ty = 3
  · subst h3
    have : skipCase Cfg.fixed (skip Cfg.fixed 4095) 3 d = Dec.skipFixed Cfg.fixed d 1 := by simp [skipCase]
    rw [this]; exact skipFixed_short d 1 hs (by simpa using h)
  · by_cases h7 : ty = 7
    · subst h7
      have : skipCase Cfg.fixed (skip Cfg.fixed 4095) 7 d = Dec.skipFixed Cfg.fixed d 8 := by simp [skipCase]
      rw [this]; exact skipFixed_short d 8 hs (by simpa using h)
    · by_cases h13 : ty = 13
      · subst h13
        have : skipCase Cfg.fixed (skip Cfg.fixed 4095) 13 d = Dec.skipFixed Cfg.fixed d 16 := by simp [skipCase]
        rw [this]; exact skipFixed_short d 16 hs (by simpa using h)
      · simp [h3, h7, h13] at h

/-- every skip of a value that has bytes (any wire type but the two bool codes) consumes at least
one byte or ends in an error -/
theorem skipField_progress (ty : Nat) (d : Dec) (hg : Good d) (hs : d.status = none) (hb : ¬(ty = 1 ∨ ty = 2))
    (hok : (skipField Cfg.fixed ty d).status = none) : (skipField Cfg.fixed ty d).rest.length + 1 ≤ d.rest.length := by
  have hc := (skip_claim stackBudget ty d hg hs (stackBudget_ok d)).prog hb
  unfold skipField at hok ⊢
  rw [err_ok hok] at hc
  omega

end Carquet.Proofs.ThriftSafe
