import Carquet.Impl.BatchReader
/-
C02, null bitmap: bit `i` of the bitmap a batch hands out is set exactly when the definition level
of row `i` is below the maximum — for the unrolled full-byte loop, the tail loop and the calloc'ed
all-zero bitmaps.
-/
namespace Carquet.Proofs.Cursor
open Carquet.Impl.BatchReader

theorem testBit_mask : ∀ t, t < 8 → ∀ j, j < 8 → testBit (mask t) j = decide (j = t) := by decide

theorem testBit_pack8 : ∀ b0 b1 b2 b3 b4 b5 b6 b7 : Bool, ∀ t, t < 8 →
    [b0, b1, b2, b3, b4, b5, b6, b7][t]? = some (testBit (pack8 b0 b1 b2 b3 b4 b5 b6 b7) t) := by decide

theorem testBit_or (a b : UInt8) (t : Nat) : testBit (a ||| b) t = (testBit a t || testBit b t) := by
  simp [testBit]

theorem testBit_zero (t : Nat) : testBit 0 t = false := by simp [testBit]

theorem bitmapBit_zeroBitmap (rows i : Nat) : bitmapBit (zeroBitmap rows) i = false := by
  unfold bitmapBit zeroBitmap
  by_cases h : i / 8 < (rows + 7) / 8
  · simp [h, testBit_zero]
  · simp [h]

/-- bit `t` of the unrolled loop body's byte is the test on `def_levels[base + t]` -/
theorem testBit_fullByte (maxDef : Nat) (defs : List (Option Nat)) (base t : Nat) (ht : t < 8) :
    testBit (fullByte maxDef defs base) t = nullAt maxDef defs (base + t) := by
  have h := testBit_pack8 (nullAt maxDef defs (base + 0)) (nullAt maxDef defs (base + 1))
    (nullAt maxDef defs (base + 2)) (nullAt maxDef defs (base + 3)) (nullAt maxDef defs (base + 4))
    (nullAt maxDef defs (base + 5)) (nullAt maxDef defs (base + 6)) (nullAt maxDef defs (base + 7)) t ht
  unfold fullByte
  have : t = 0 ∨ t = 1 ∨ t = 2 ∨ t = 3 ∨ t = 4 ∨ t = 5 ∨ t = 6 ∨ t = 7 := by omega
  rcases this with rfl | rfl | rfl | rfl | rfl | rfl | rfl | rfl <;> simp at h <;> exact h.symm

theorem length_fullLoop (maxDef : Nat) (defs : List (Option Nat)) (n b : Nat) (bm : List UInt8) :
    (fullLoop maxDef defs n b bm).length = bm.length := by
  induction n generalizing b bm with
  | zero => rfl
  | succ n ih => simp [fullLoop, ih]

/-- the full-byte loop writes bytes `b … b+n-1` and nothing else -/
theorem getElem?_fullLoop (maxDef : Nat) (defs : List (Option Nat)) (n b : Nat) (bm : List UInt8) (idx : Nat)
    (hidx : idx < bm.length) :
    (fullLoop maxDef defs n b bm)[idx]? =
      if b ≤ idx ∧ idx < b + n then some (fullByte maxDef defs (idx * 8)) else bm[idx]? := by
  induction n generalizing b bm with
  | zero =>
    simp [fullLoop]
    intro h1 h2; omega
  | succ n ih =>
    rw [fullLoop, ih (b + 1) _ (by simpa using hidx)]
    by_cases h1 : b + 1 ≤ idx ∧ idx < b + 1 + n
    · have : b ≤ idx ∧ idx < b + (n + 1) := by omega
      simp [h1, this]
    · simp only [h1, if_false]
      by_cases h2 : b = idx
      · subst h2
        have : b ≤ b ∧ b < b + (n + 1) := by omega
        simp [this, hidx]
      · have : ¬ (b ≤ idx ∧ idx < b + (n + 1)) := by omega
        simp [this, h2]

theorem length_tailLoop (maxDef : Nat) (defs : List (Option Nat)) (n j : Nat) (bm : List UInt8) :
    (tailLoop maxDef defs n j bm).length = bm.length := by
  induction n generalizing j bm with
  | zero => rfl
  | succ n ih =>
    rw [tailLoop, ih]
    split <;> simp

theorem bitmapBit_modify (bm : List UInt8) (j i : Nat) (hi : i / 8 < bm.length) :
    bitmapBit (bm.modify (j / 8) (· ||| mask (j % 8))) i = (bitmapBit bm i || decide (i = j)) := by
  unfold bitmapBit
  rw [List.getElem?_modify]
  have hsome : bm[i / 8]? = some bm[i / 8] := List.getElem?_eq_getElem hi
  rw [hsome]
  by_cases hb : j / 8 = i / 8
  · simp only [hb, if_true, Option.map_eq_map, Option.map_some, testBit_or]
    rw [testBit_mask (j % 8) (Nat.mod_lt _ (by decide)) (i % 8) (Nat.mod_lt _ (by decide))]
    congr 1
    have : (i % 8 = j % 8) ↔ (i = j) := by omega
    simp [this]
  · simp only [hb, if_false, Option.map_eq_map, Option.map_some]
    have : ¬ i = j := fun h => hb (by rw [h])
    simp [this]

/-- the tail loop ORs in the bits of rows `j … j+n-1` that are null and nothing else -/
theorem bitmapBit_tailLoop (maxDef : Nat) (defs : List (Option Nat)) (n j : Nat) (bm : List UInt8) (i : Nat)
    (hi : i / 8 < bm.length) :
    bitmapBit (tailLoop maxDef defs n j bm) i =
      (bitmapBit bm i || (decide (j ≤ i ∧ i < j + n) && nullAt maxDef defs i)) := by
  induction n generalizing j bm with
  | zero =>
    simp [tailLoop]
    intro h1 h2; omega
  | succ n ih =>
    rw [tailLoop]
    by_cases hn : nullAt maxDef defs j = true
    · simp only [hn, if_true]
      rw [ih (j + 1) _ (by simpa using hi), bitmapBit_modify bm j i hi]
      by_cases hij : i = j
      · subst hij
        have : (i ≤ i ∧ i < i + (n + 1)) := by omega
        simp [hn, this]
      · have h1 : (j + 1 ≤ i ∧ i < j + 1 + n) ↔ (j ≤ i ∧ i < j + (n + 1)) := by omega
        simp [hij, h1]
    · have hn' : nullAt maxDef defs j = false := by simpa using hn
      simp only [hn', Bool.false_eq_true, if_false]
      rw [ih (j + 1) _ hi]
      by_cases hij : i = j
      · subst hij
        have h1 : ¬ (i + 1 ≤ i ∧ i < i + 1 + n) := by omega
        simp [hn', h1]
      · have h1 : (j + 1 ≤ i ∧ i < j + 1 + n) ↔ (j ≤ i ∧ i < j + (n + 1)) := by omega
        simp [h1]

theorem nullAt_zero (defs : List (Option Nat)) (i : Nat) : nullAt 0 defs i = false := by
  unfold nullAt
  split <;> simp

/-- **Polarity of the standard path's bitmap** (both loops, and the plain calloc when the column has
no definition levels): bit `i` is set iff `def_levels[i] < max_def`. -/
theorem buildBitmap_bit (maxDef : Nat) (defs : List (Option Nat)) (vr rtr : Nat) (h : vr ≤ rtr) (i : Nat)
    (hi : i < vr) :
    bitmapBit (buildBitmap maxDef defs vr rtr) i = nullAt maxDef defs i := by
  unfold buildBitmap
  by_cases hm : maxDef > 0
  · simp only [hm, if_true]
    have hsz : (zeroBitmap rtr).length = (rtr + 7) / 8 := by simp [zeroBitmap]
    have hi8 : i / 8 < (rtr + 7) / 8 := by omega
    rw [bitmapBit_tailLoop _ _ _ _ _ _ (by rw [length_fullLoop, hsz]; exact hi8)]
    have hfull : bitmapBit (fullLoop maxDef defs (vr / 8) 0 (zeroBitmap rtr)) i =
        (decide (i / 8 < vr / 8) && nullAt maxDef defs i) := by
      unfold bitmapBit
      rw [getElem?_fullLoop _ _ _ _ _ _ (by rw [hsz]; exact hi8)]
      by_cases hlt : i / 8 < vr / 8
      · have : 0 ≤ i / 8 ∧ i / 8 < 0 + vr / 8 := by omega
        simp only [this, and_self, if_true, hlt, decide_true, Bool.true_and]
        rw [testBit_fullByte _ _ _ _ (Nat.mod_lt _ (by decide))]
        congr 1
        omega
      · have : ¬ (0 ≤ i / 8 ∧ i / 8 < 0 + vr / 8) := by omega
        simp only [this, if_false, hlt, decide_false, Bool.false_and]
        have := bitmapBit_zeroBitmap rtr i
        unfold bitmapBit at this
        exact this
    rw [hfull]
    by_cases hlt : i / 8 < vr / 8
    · have : ¬ (vr / 8 * 8 ≤ i ∧ i < vr / 8 * 8 + (vr - vr / 8 * 8)) := by omega
      simp [hlt, this]
    · have : (vr / 8 * 8 ≤ i ∧ i < vr / 8 * 8 + (vr - vr / 8 * 8)) := by omega
      simp [hlt, this]
  · simp only [hm, if_false]
    have : maxDef = 0 := by omega
    rw [this, nullAt_zero, bitmapBit_zeroBitmap]

end Carquet.Proofs.Cursor
