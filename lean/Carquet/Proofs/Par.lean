import Carquet.Impl.Par
/-
Helper lemmas for C07 (parallel reading): basic facts about `exec`, the projection
characterisation of merges, and the non-interference lemma all positive C07 theorems rest on.
-/
namespace Carquet.Proofs.Par
open Carquet.Impl.Par

/-! ### steps -/

theorem stepPrim_file (a : Prim) (sh : Shared) (p : Priv) : (stepPrim a sh p).1.file = sh.file := by
  cases a <;> rfl

theorem runSP_file (ps : List Prim) (sh : Shared) (p : Priv) : (runSP ps sh p).1.file = sh.file := by
  induction ps generalizing sh p with
  | nil => rfl
  | cons a as ih => simp [runSP, ih, stepPrim_file]

/-- the position-only twin used by the driver agrees with the model -/
theorem stepPrim_filePos (f : Nat) (a : Prim) (sh : Shared) (p : Priv) :
    (stepPrim a sh p).1.filePos f = stepPos sh.file.length f a (sh.filePos f) := by
  cases a with
  | seek g o =>
    by_cases h : g = f
    · subst h; simp [stepPrim, stepPos, setPos]
    · have h' : ¬ f = g := fun e => h e.symm
      simp [stepPrim, stepPos, setPos, h, h']
  | read g n =>
    by_cases h : g = f
    · subst h; simp [stepPrim, stepPos, setPos]
    · have h' : ¬ f = g := fun e => h e.symm
      simp [stepPrim, stepPos, setPos, h, h']
  | load o n => simp [stepPrim, stepPos]
  | initCell i v => simp [stepPrim, stepPos]
  | setFlag => simp [stepPrim, stepPos]
  | useTable => simp [stepPrim, stepPos]

theorem runSP_append (as bs : List Prim) (sh : Shared) (p : Priv) :
    runSP (as ++ bs) sh p = runSP bs (runSP as sh p).1 (runSP as sh p).2 := by
  induction as generalizing sh p with
  | nil => rfl
  | cons a as ih => simp [runSP, ih]

theorem setPriv_self (pr : Worker → Priv) (w : Worker) (v : Priv) : setPriv pr w v w = v := by
  simp [setPriv]

theorem setPriv_other (pr : Worker → Priv) (w w' : Worker) (v : Priv) (h : w' ≠ w) :
    setPriv pr w v w' = pr w' := by
  simp [setPriv, h]

theorem setPriv_setPriv (pr : Worker → Priv) (w : Worker) (u v : Priv) :
    setPriv (setPriv pr w u) w v = setPriv pr w v := by
  funext w'; by_cases h : w' = w <;> simp [setPriv, h]

@[simp] theorem run_sh (st : State) (w : Worker) (ps : List Prim) :
    (st.run w ps).sh = (runSP ps st.sh (st.pr w)).1 := rfl

@[simp] theorem run_pr_self (st : State) (w : Worker) (ps : List Prim) :
    (st.run w ps).pr w = (runSP ps st.sh (st.pr w)).2 := by
  simp [State.run, setPriv]

theorem run_pr_other (st : State) (w w' : Worker) (ps : List Prim) (h : w' ≠ w) :
    (st.run w ps).pr w' = st.pr w' := by
  simp [State.run, setPriv, h]

theorem run_nil (st : State) (w : Worker) : st.run w [] = st := by
  cases st with
  | mk sh pr =>
    simp only [State.run, runSP]
    congr 1
    funext w'; by_cases h : w' = w <;> simp [setPriv, h]

theorem run_cons (st : State) (w : Worker) (p : Prim) (ps : List Prim) :
    st.run w (p :: ps) = (st.run w [p]).run w ps := by
  simp only [State.run, runSP, setPriv_self, setPriv_setPriv]

theorem execPrims_append (s t : List (Worker × Prim)) (st : State) :
    execPrims (s ++ t) st = execPrims t (execPrims s st) := by
  induction s generalizing st with
  | nil => rfl
  | cons e s ih => cases e with | mk w p => simp [execPrims, ih]

theorem execPrims_map (w : Worker) (ps : List Prim) (st : State) :
    execPrims (ps.map (fun p => (w, p))) st = st.run w ps := by
  induction ps generalizing st with
  | nil => simp [execPrims, run_nil]
  | cons p ps ih => simp only [List.map_cons, execPrims, ih]; rw [← run_cons]

@[simp] theorem exec_nil (st : State) : exec [] st = st := rfl

theorem exec_cons (w : Worker) (a : Action) (s : List (Worker × Action)) (st : State) :
    exec ((w, a) :: s) st = exec s (st.run w a.prims) := by
  simp only [exec, flat, execPrims_append, execPrims_map]

theorem exec_append (s t : List (Worker × Action)) (st : State) :
    exec (s ++ t) st = exec t (exec s st) := by
  induction s generalizing st with
  | nil => rfl
  | cons e s ih => cases e with | mk w a => simp only [List.cons_append, exec_cons, ih]

/-! ### projections and merges -/

@[simp] theorem proj_nil {α : Type} (w : Worker) : proj w ([] : List (Worker × α)) = [] := rfl

theorem proj_cons_self {α : Type} (w : Worker) (a : α) (s : List (Worker × α)) :
    proj w ((w, a) :: s) = a :: proj w s := by
  simp [proj]

theorem proj_cons_other {α : Type} (w w' : Worker) (a : α) (s : List (Worker × α)) (h : w' ≠ w) :
    proj w ((w', a) :: s) = proj w s := by
  simp [proj, h]

theorem proj_append {α : Type} (w : Worker) (s t : List (Worker × α)) :
    proj w (s ++ t) = proj w s ++ proj w t := by
  simp [proj]

theorem proj_solo_self {α : Type} (w : Worker) (l : List α) : proj w (solo w l) = l := by
  induction l with
  | nil => rfl
  | cons a l ih => simp only [solo, List.map_cons] at *; rw [proj_cons_self, ih]

theorem proj_solo_other {α : Type} (w w' : Worker) (l : List α) (h : w' ≠ w) :
    proj w (solo w' l) = [] := by
  induction l with
  | nil => rfl
  | cons a l ih => simp only [solo, List.map_cons] at *; rw [proj_cons_other _ _ _ _ h, ih]

/-- a merge projects onto every worker's own list, and mentions no other worker -/
theorem isMerge_proj_eq {α : Type} {ls : List (List α)} {s : List (Worker × α)} (h : IsMerge ls s) :
    ∀ w, proj w s = ls.getD w [] := by
  induction h with
  | done hall =>
    intro w
    simp only [proj_nil, List.getD_eq_getElem?_getD]
    cases hw : (_ : List (List α))[w]? with
    | none => rfl
    | some l => simp [hall l (List.mem_of_getElem? hw)]
  | @step ls w a rest s hw _ ih =>
    intro w'
    have hlt : w < ls.length := by
      rcases Nat.lt_or_ge w ls.length with h | h
      · exact h
      · simp [List.getElem?_eq_none h] at hw
    by_cases h : w' = w
    · subst h
      rw [proj_cons_self, ih]
      simp only [List.getD_eq_getElem?_getD, List.getElem?_set_self hlt, hw, Option.getD_some]
    · rw [proj_cons_other _ _ _ _ (fun e => h e.symm), ih]
      simp only [List.getD_eq_getElem?_getD]
      rw [List.getElem?_set_ne (fun e => h e.symm)]

theorem isMerge_lt_length {α : Type} {ls : List (List α)} {s : List (Worker × α)} (h : IsMerge ls s) :
    ∀ e ∈ s, e.1 < ls.length := by
  induction h with
  | done _ => intro e he; cases he
  | @step ls w a rest s hw _ ih =>
    intro e he
    have hlt : w < ls.length := by
      rcases Nat.lt_or_ge w ls.length with h | h
      · exact h
      · simp [List.getElem?_eq_none h] at hw
    rcases List.mem_cons.1 he with rfl | he
    · exact hlt
    · simpa using ih e he

/-- conversely, every schedule over the workers of `ls` whose projections are the workers' lists
is a merge: `IsMerge` is exactly "all order-preserving interleavings", nothing narrower. -/
theorem isMerge_of_proj {α : Type} (s : List (Worker × α)) :
    ∀ (ls : List (List α)), (∀ e ∈ s, e.1 < ls.length) → (∀ w, w < ls.length → proj w s = ls.getD w []) →
      IsMerge ls s := by
  induction s with
  | nil =>
    intro ls _ hp
    refine IsMerge.done ?_
    intro l hl
    obtain ⟨i, hi, rfl⟩ := List.getElem_of_mem hl
    have := hp i hi
    simp [List.getD_eq_getElem?_getD, hi] at this
    exact this
  | cons e s ih =>
    intro ls hb hp
    cases e with
    | mk w a =>
      have hw : w < ls.length := hb (w, a) (List.mem_cons_self ..)
      have h1 := hp w hw
      rw [proj_cons_self] at h1
      have hget : ls[w]? = some (a :: proj w s) := by
        simp [List.getD_eq_getElem?_getD, hw] at h1
        simp [hw, h1]
      refine IsMerge.step hget (ih _ ?_ ?_)
      · intro e he; simpa using hb e (List.mem_cons_of_mem _ he)
      · intro w' hw'
        simp only [List.length_set] at hw'
        by_cases h : w' = w
        · subst h; simp [List.getD_eq_getElem?_getD, hw]
        · have := hp w' hw'
          rw [proj_cons_other _ _ _ _ (fun e => h e.symm)] at this
          rw [this]
          simp only [List.getD_eq_getElem?_getD]
          rw [List.getElem?_set_ne (fun e => h e.symm)]

theorem isMerge_iff {α : Type} [BEq α] [LawfulBEq α] (ls : List (List α)) (s : List (Worker × α)) :
    isMerge ls s = true ↔ IsMerge ls s := by
  constructor
  · intro h
    simp only [isMerge, Bool.and_eq_true, List.all_eq_true, decide_eq_true_eq, List.mem_range,
      beq_iff_eq] at h
    exact isMerge_of_proj s ls h.1 h.2
  · intro h
    simp only [isMerge, Bool.and_eq_true, List.all_eq_true, decide_eq_true_eq, List.mem_range,
      beq_iff_eq]
    exact ⟨isMerge_lt_length h, fun w _ => isMerge_proj_eq h w⟩

/-! ### the sequential schedule is a merge -/

theorem proj_seqFrom_lt {α : Type} (ls : List (List α)) (k w : Worker) (h : w < k) :
    proj w (seqFrom k ls) = [] := by
  induction ls generalizing k with
  | nil => rfl
  | cons l ls ih =>
    simp only [seqFrom, proj_append]
    have : proj w (solo k l) = [] := proj_solo_other w k l (by omega)
    simp only [solo] at this
    rw [this, ih (k + 1) (by omega)]; rfl

theorem proj_seqFrom {α : Type} (ls : List (List α)) (k i : Nat) :
    proj (k + i) (seqFrom k ls) = ls.getD i [] := by
  induction ls generalizing k i with
  | nil => simp [seqFrom]
  | cons l ls ih =>
    simp only [seqFrom, proj_append]
    cases i with
    | zero =>
      have h1 : proj k (solo k l) = l := proj_solo_self k l
      simp only [solo] at h1
      simp [h1, proj_seqFrom_lt ls (k + 1) k (by omega)]
    | succ i =>
      have h1 : proj (k + (i + 1)) (solo k l) = [] := proj_solo_other _ k l (by omega)
      simp only [solo] at h1
      have h2 := ih (k + 1) i
      have e : k + 1 + i = k + (i + 1) := by omega
      rw [e] at h2
      simp [h1, h2]

theorem mem_seqFrom_lt {α : Type} (ls : List (List α)) (k : Nat) :
    ∀ e ∈ seqFrom k ls, k ≤ e.1 ∧ e.1 < k + ls.length := by
  induction ls generalizing k with
  | nil => intro e he; cases he
  | cons l ls ih =>
    intro e he
    simp only [seqFrom, List.mem_append, List.mem_map] at he
    rcases he with ⟨a, _, rfl⟩ | he
    · simp
    · have := ih (k + 1) e he
      simp only [List.length_cons]; omega

theorem isMerge_sequential {α : Type} (ls : List (List α)) : IsMerge ls (sequential ls) := by
  apply isMerge_of_proj
  · intro e he
    have := mem_seqFrom_lt ls 0 e he
    omega
  · intro w _
    have := proj_seqFrom ls 0 w
    simpa [sequential] using this

/-! ### non-interference

`view w` is the part of the shared store worker `w` depends on.  If every scheduled action
(A) acts on its own worker's private store and view as a function of that view only, and
(B) leaves every other worker's view alone,
then after ANY schedule the private store (and view) of `w` is what `w` gets when it runs its own
actions alone from the same initial state. -/

section NonInterference
variable {V : Type} (view : Worker → Shared → V)

def OwnDet (w : Worker) (a : Action) : Prop :=
  ∀ sh sh' p, view w sh = view w sh' →
    (runSP a.prims sh p).2 = (runSP a.prims sh' p).2 ∧
    view w (runSP a.prims sh p).1 = view w (runSP a.prims sh' p).1

def OthersKept (w : Worker) (a : Action) : Prop :=
  ∀ w', w' ≠ w → ∀ sh p, view w' (runSP a.prims sh p).1 = view w' sh

theorem solo_congr (w : Worker) (l : List Action) (hA : ∀ a ∈ l, OwnDet view w a)
    (st st' : State) (hp : st.pr w = st'.pr w) (hv : view w st.sh = view w st'.sh) :
    (exec (solo w l) st).pr w = (exec (solo w l) st').pr w ∧
    view w (exec (solo w l) st).sh = view w (exec (solo w l) st').sh := by
  induction l generalizing st st' with
  | nil => exact ⟨hp, hv⟩
  | cons a l ih =>
    simp only [solo, List.map_cons, exec_cons]
    have ha := hA a (List.mem_cons_self ..)
    have h := ha st.sh st'.sh (st.pr w) hv
    apply ih (fun b hb => hA b (List.mem_cons_of_mem _ hb))
    · simp only [run_pr_self]; rw [← hp]; exact h.1
    · simp only [run_sh]; rw [← hp]; exact h.2

theorem noninterference (s : List (Worker × Action))
    (hA : ∀ e ∈ s, OwnDet view e.1 e.2) (hB : ∀ e ∈ s, OthersKept view e.1 e.2)
    (st : State) (w : Worker) :
    (exec s st).pr w = (exec (solo w (proj w s)) st).pr w ∧
    view w (exec s st).sh = view w (exec (solo w (proj w s)) st).sh := by
  induction s generalizing st with
  | nil => exact ⟨rfl, rfl⟩
  | cons e s ih =>
    cases e with
    | mk w0 a =>
      have ihs := ih (fun e he => hA e (List.mem_cons_of_mem _ he))
                     (fun e he => hB e (List.mem_cons_of_mem _ he))
      by_cases h : w0 = w
      · subst h
        rw [proj_cons_self]
        simp only [solo, List.map_cons, exec_cons]
        exact ihs _
      · rw [proj_cons_other _ _ _ _ h, exec_cons]
        have h1 := ihs (st.run w0 a.prims)
        have hAw : ∀ b ∈ proj w s, OwnDet view w b := by
          intro b hb
          simp only [proj, List.mem_map, List.mem_filter, beq_iff_eq] at hb
          obtain ⟨e, ⟨he, hw⟩, rfl⟩ := hb
          have := hA e (List.mem_cons_of_mem _ he)
          rw [hw] at this; exact this
        have h2 := solo_congr view w (proj w s) hAw (st.run w0 a.prims) st
          (run_pr_other st w0 w a.prims (fun e => h e.symm))
          (by simpa using hB (w0, a) (List.mem_cons_self ..) w (fun e => h e.symm) st.sh (st.pr w0))
        exact ⟨h1.1.trans h2.1, h1.2.trans h2.2⟩

end NonInterference

/-- two merges of the same lists give every worker the same private store, provided the
non-interference conditions hold for the actions in the lists -/
theorem merges_agree {V : Type} (view : Worker → Shared → V) (ls : List (List Action))
    (hA : ∀ w, ∀ a ∈ ls.getD w [], OwnDet view w a) (hB : ∀ w, ∀ a ∈ ls.getD w [], OthersKept view w a)
    (s : List (Worker × Action)) (hm : IsMerge ls s) (st : State) (w : Worker) :
    (exec s st).pr w = (exec (solo w (ls.getD w [])) st).pr w := by
  have hmem : ∀ e ∈ s, e.2 ∈ ls.getD e.1 [] := by
    intro e he
    rw [← isMerge_proj_eq hm e.1]
    simp only [proj, List.mem_map, List.mem_filter, beq_iff_eq]
    exact ⟨e, ⟨he, rfl⟩, rfl⟩
  have := (noninterference view s (fun e he => hA e.1 e.2 (hmem e he))
    (fun e he => hB e.1 e.2 (hmem e he)) st w).1
  rw [isMerge_proj_eq hm w] at this
  exact this

end Carquet.Proofs.Par
