import Carquet.Proofs.ThriftRoundtripStructs
/-
FileMetaData and PageHeader: the top-level tables applied to the structure's Thrift value give
`norm`, the value is acceptable and well formed; hence the two round-trip theorems.
-/
namespace Carquet.Proofs.Thrift
open Carquet.Spec.Thrift Carquet.Spec.ParquetThrift
open Carquet.Impl.Thrift
open Carquet.Impl.ThriftParquet

/-! ### FileMetaData -/

def fmFields (m : FileMetaData) : Fields :=
  f1 1 (.i32 m.version) ++ f1 2 (.list .struct (m.schema.map schemaElementTV)) ++ f1 3 (.i64 m.numRows) ++
    f1 4 (.list .struct (m.rowGroups.map rowGroupTV)) ++ fKeyValues m.keyValueMetadata ++ fOpt 6 .binary m.createdBy

theorem fileMetaDataTV_eq (m : FileMetaData) : fileMetaDataTV m = .struct (fmFields m) := rfl

abbrev FMState := Top (FileMetaData × Required)

theorem fm_of (R : Nat) (m : FileMetaData) (h : m.wf = true) :
    ofFileMetaFields R (fmFields m) = (m.norm, ⟨true, true, true, true⟩) := by
  simp only [FileMetaData.wf, Bool.and_eq_true, List.all_eq_true] at h
  obtain ⟨⟨⟨⟨⟨⟨⟨⟨_, hs⟩, _⟩, _⟩, hg⟩, _⟩, hk⟩, _⟩, hc⟩ := h
  have e1 : ∀ (s : FMState) x, stepT (tblFileMeta R) s 1 (.i32 x)
      = { s with val := ({ s.val.1 with version := x }, { s.val.2 with version := true }) } := fun _ _ => rfl
  have e2 : ∀ (s : FMState), stepT (tblFileMeta R) s 2 (.list .struct (m.schema.map schemaElementTV))
      = { s with val := ({ s.val.1 with schema := m.schema.map SchemaElement.norm }, { s.val.2 with schema := true }) } := by
    intro s
    show ({ s with val := ({ s.val.1 with schema := (m.schema.map schemaElementTV).map (fun v => ofFields (tblSchema R) {} (asFields v)) },
            { s.val.2 with schema := true }) } : FMState) = _
    rw [map_tv_of schemaElementTV _ SchemaElement.norm m.schema (fun x hx => by
      rw [schemaElementTV_eq]; exact schema_of R x (hs x hx))]
  have e3 : ∀ (s : FMState) x, stepT (tblFileMeta R) s 3 (.i64 x)
      = { s with val := ({ s.val.1 with numRows := x }, { s.val.2 with numRows := true }) } := fun _ _ => rfl
  have e4 : ∀ (s : FMState), stepT (tblFileMeta R) s 4 (.list .struct (m.rowGroups.map rowGroupTV))
      = { s with val := ({ s.val.1 with rowGroups := m.rowGroups.map RowGroup.norm }, { s.val.2 with rowGroups := true }) } := by
    intro s
    show ({ s with val := ({ s.val.1 with rowGroups := (m.rowGroups.map rowGroupTV).map (fun v => ofFields (tblRowGroup R) {} (asFields v)) },
            { s.val.2 with rowGroups := true }) } : FMState) = _
    rw [map_tv_of rowGroupTV _ RowGroup.norm m.rowGroups (fun x hx => by
      rw [rowGroupTV_eq]; exact rg_of R x (hg x hx))]
  have e5 : ∀ (s : FMState), s.val.1.keyValueMetadata = [] →
      ofFields (tblFileMeta R) s (fKeyValues m.keyValueMetadata)
        = { s with val := ({ s.val.1 with keyValueMetadata := m.keyValueMetadata.map KeyValue.norm }, s.val.2) } := by
    intro s hs0
    unfold fKeyValues
    cases hkv : m.keyValueMetadata with
    | nil =>
      simp only [List.isEmpty_nil, if_true, List.map_nil]
      obtain ⟨⟨v1, v2⟩, ab⟩ := s
      simp only at hs0
      show (⟨(v1, v2), ab⟩ : FMState) = ⟨({ v1 with keyValueMetadata := [] }, v2), ab⟩
      rw [← hs0]
    | cons a r =>
      simp only [List.isEmpty_cons, Bool.false_eq_true, if_false, piece_f1]
      show ({ s with val := ({ s.val.1 with
              keyValueMetadata := List.map (fun v => ofFields tblKV {} (asFields v)) (List.map keyValueTV (a :: r)) }, s.val.2) } : FMState) = _
      rw [map_tv_of keyValueTV _ KeyValue.norm (a :: r) (fun x hx => by
        rw [keyValueTV_eq]; exact kv_of x (hk x (by rw [hkv]; exact hx)))]
  unfold ofFileMetaFields
  simp only [fmFields, ofFields_append, piece_f1]
  rw [e1, e2, e3, e4]
  try dsimp only
  rw [e5 _ rfl]
  try dsimp only
  rw [piece_opt _ _ 6 .binary m.createdBy (fun s o => { s with val := ({ s.val.1 with createdBy := o }, s.val.2) })
    (fun x hx => by
      show (⟨({ version := m.version, schema := m.schema.map SchemaElement.norm, numRows := m.numRows,
                rowGroups := m.rowGroups.map RowGroup.norm, keyValueMetadata := m.keyValueMetadata.map KeyValue.norm,
                createdBy := some (cstr x) }, ⟨true, true, true, true⟩), none⟩ : FMState) = _
      rw [cstr_of_okOpt m.createdBy hc x hx]) rfl]
  rfl

theorem okT_topList {α β : Type} (tbl : Table (Top α)) (R : Nat) (id : Int) (max : Int) (shapeE : TVal → Prop) (conv : TVal → β)
    (set : α → List β → α) (et : TType) (xs : List TVal)
    (hl : lookupT tbl id = some (semTopList max shapeE conv set)) (hmax : (xs.length : Int) ≤ max) (hx : ∀ x ∈ xs, shapeE x) :
    okT tbl R id (.list et xs) := by
  unfold okT; rw [hl]; exact ⟨et, xs, rfl, hmax, hx⟩

theorem fm_ok (R : Nat) (hR : 1 ≤ R) (m : FileMetaData) (h : m.wf = true) : okFields (tblFileMeta R) (R + 4) (fmFields m) := by
  simp only [FileMetaData.wf, Bool.and_eq_true, List.all_eq_true, decide_eq_true_eq] at h
  obtain ⟨⟨⟨⟨⟨⟨⟨⟨_, hs⟩, hsl⟩, _⟩, hg⟩, hgl⟩, hk⟩, hkl⟩, _⟩ := h
  simp only [fmFields, okFields_append]
  refine ⟨⟨⟨⟨⟨?_, ?_⟩, ?_⟩, ?_⟩, ?_⟩, ?_⟩
  · exact okFields_f1 _ _ _ _ ⟨_, rfl⟩
  · refine okFields_f1 _ _ _ _ (okT_topList _ _ 2 _ _ _ _ _ _ rfl (by simpa using hsl) ?_)
    intro x hx
    obtain ⟨c, hc', rfl⟩ := List.mem_map.mp hx
    exact ⟨_, schemaElementTV_eq c, schema_ok R hR c⟩
  · exact okFields_f1 _ _ _ _ ⟨_, rfl⟩
  · refine okFields_f1 _ _ _ _ (okT_topList _ _ 4 _ _ _ _ _ _ rfl (by simpa using hgl) ?_)
    intro x hx
    obtain ⟨c, hc', rfl⟩ := List.mem_map.mp hx
    exact ⟨_, rowGroupTV_eq c, rg_ok R c (hg c hc')⟩
  · unfold fKeyValues; split
    · exact okFields_nil _ _
    · refine okFields_f1 _ _ _ _ (okT_topList _ _ 5 _ _ _ _ _ _ rfl (by simpa using hkl) ?_)
      intro x hx
      obtain ⟨c, hc', rfl⟩ := List.mem_map.mp hx
      exact ⟨_, keyValueTV_eq c, kv_ok R c⟩
  · exact okFields_fOpt _ _ _ _ _ (fun x _ => ⟨x, rfl⟩)

theorem fm_wf (m : FileMetaData) (h : m.wf = true) : (fileMetaDataTV m).wf = true := by
  simp only [FileMetaData.wf, Bool.and_eq_true, List.all_eq_true, decide_eq_true_eq] at h
  obtain ⟨⟨⟨⟨⟨⟨⟨⟨h1, hs⟩, hsl⟩, h3⟩, hg⟩, hgl⟩, hk⟩, hkl⟩, h6⟩ := h
  rw [fileMetaDataTV_eq]
  simp only [TVal.wf, fmFields, wfFields_append, Bool.and_eq_true]
  refine ⟨⟨⟨⟨⟨?_, ?_⟩, ?_⟩, ?_⟩, ?_⟩, ?_⟩
  · exact wfFields_f1 1 _ (by omega) (by omega) (wf_i32 h1)
  · exact wfFields_f1 2 _ (by omega) (by omega)
      (wf_list .struct schemaElementTV _ (small_lt _ _ hsl (by simp [maxSchemaElements])) (fun c hc' => ⟨rfl, schema_wf c (hs c hc')⟩))
  · exact wfFields_f1 3 _ (by omega) (by omega) (wf_i64 h3)
  · exact wfFields_f1 4 _ (by omega) (by omega)
      (wf_list .struct rowGroupTV _ (small_lt _ _ hgl (by simp [maxRowGroups])) (fun c hc' => ⟨rfl, rg_wf c (hg c hc')⟩))
  · unfold fKeyValues; split
    · rfl
    · exact wfFields_f1 5 _ (by omega) (by omega)
        (wf_list .struct keyValueTV _ (small_lt _ _ hkl (by simp [maxKeyValuePairs])) (fun c hc' => ⟨rfl, kv_wf c (hk c hc')⟩))
  · exact wfFields_fOpt 6 _ _ (by omega) (by omega) (fun x hx => wf_bin (isBin_of_isStr (okOpt_some h6 hx)))

theorem lensOk_of_wf (m : FileMetaData) (h : m.wf = true) : lensOkFM m := by
  simp only [FileMetaData.wf, Bool.and_eq_true, List.all_eq_true, decide_eq_true_eq] at h
  obtain ⟨⟨⟨⟨⟨⟨⟨⟨_, _⟩, hsl⟩, _⟩, hg⟩, hgl⟩, _⟩, hkl⟩, _⟩ := h
  refine ⟨small_lt _ _ hsl (by simp [maxSchemaElements]), small_lt _ _ hgl (by simp [maxRowGroups]),
    small_lt _ _ hkl (by simp [maxKeyValuePairs]), ?_⟩
  intro g hgm
  have hgw := hg g hgm
  simp only [RowGroup.wf, Bool.and_eq_true, List.all_eq_true, decide_eq_true_eq] at hgw
  obtain ⟨⟨⟨⟨⟨⟨hc, hl⟩, _⟩, _⟩, _⟩, _⟩, _⟩ := hgw
  refine ⟨small_lt _ _ hl (by simp [maxColumnsPerRg]), ?_⟩
  intro c hcm x hx
  have hcw := hc c hcm
  simp only [ColumnChunk.wf, Bool.and_eq_true] at hcw
  have hmw := okOpt_some hcw.1.1.1.1.2 hx
  simp only [ColumnMetaData.wf, Bool.and_eq_true, decide_eq_true_eq] at hmw
  exact ⟨small_lt _ _ hmw.1.1.1.1.1.1.1.1.1.1.1.1.2 (by simp [maxEncodings]),
         small_lt _ _ hmw.1.1.1.1.1.1.1.1.1.1.2 (by simp [maxPathElements])⟩

/-- **FileMetaData round trip** on the model of the repaired code -/
theorem roundtrip_filemetadata (m : FileMetaData) (h : m.wf = true) :
    parseFileMetaDataX Cfg.fixed (writeFileMetaData m) = ⟨none, m.norm, (writeFileMetaData m).length, false⟩ ∧
    writeFileMetaDataStatus m = none := by
  obtain ⟨hw, hst⟩ := writeFileMetaData_eq m (lensOk_of_wf m h)
  refine ⟨?_, hst⟩
  have henc : Enc (.val (.struct (fmFields m))) (encode (fileMetaDataTV m)) := by
    have := encodes_encode (fileMetaDataTV m) (fm_wf m h)
    rwa [fileMetaDataTV_eq] at this
  have hp := parseFileMetaData_reads 27 (by simp [maxNesting]) (fmFields m) _ henc (fm_ok 27 (by omega) m h)
    (by rw [fm_of 27 m h]; rfl) []
  rw [List.append_nil] at hp
  rw [hw, hp, fm_of 27 m h]

/-! ### PageHeader -/

def dpFields (h : DataPageHeader) : Fields :=
  f1 1 (.i32 h.numValues) ++ f1 2 (.i32 h.encoding) ++ f1 3 (.i32 h.definitionLevelEncoding) ++
    f1 4 (.i32 h.repetitionLevelEncoding) ++ fOpt 5 statisticsTV h.statistics
def v2Fields (h : DataPageHeaderV2) : Fields :=
  f1 1 (.i32 h.numValues) ++ f1 2 (.i32 h.numNulls) ++ f1 3 (.i32 h.numRows) ++ f1 4 (.i32 h.encoding) ++
    f1 5 (.i32 h.definitionLevelsByteLength) ++ f1 6 (.i32 h.repetitionLevelsByteLength) ++ f1 7 (.bool h.isCompressed)
def dictFields (h : DictionaryPageHeader) : Fields :=
  f1 1 (.i32 h.numValues) ++ f1 2 (.i32 h.encoding) ++ f1 3 (.bool h.isSorted)

theorem dataPageHeaderTV_eq (h : DataPageHeader) : dataPageHeaderTV h = .struct (dpFields h) := rfl
theorem dataPageHeaderV2TV_eq (h : DataPageHeaderV2) : dataPageHeaderV2TV h = .struct (v2Fields h) := rfl
theorem dictionaryPageHeaderTV_eq (h : DictionaryPageHeader) : dictionaryPageHeaderTV h = .struct (dictFields h) := rfl

theorem dp_of (R : Nat) (h : DataPageHeader) : ofFields (tblDataPage R) {} (dpFields h) = h.norm := by
  have e1 : ∀ (s : DataPageHeader) x, stepT (tblDataPage R) s 1 (.i32 x) = { s with numValues := x } := fun _ _ => rfl
  have e2 : ∀ (s : DataPageHeader) x, stepT (tblDataPage R) s 2 (.i32 x) = { s with encoding := x } := fun _ _ => rfl
  have e3 : ∀ (s : DataPageHeader) x, stepT (tblDataPage R) s 3 (.i32 x) = { s with definitionLevelEncoding := x } := fun _ _ => rfl
  have e4 : ∀ (s : DataPageHeader) x, stepT (tblDataPage R) s 4 (.i32 x) = { s with repetitionLevelEncoding := x } := fun _ _ => rfl
  have e5 : ∀ (s : DataPageHeader) (x : Statistics), stepT (tblDataPage R) s 5 (statisticsTV x) = { s with statistics := some x.norm } := by
    intro s x
    show ({ s with statistics := some (ofFields tblStats {} (asFields (statisticsTV x))) } : DataPageHeader) = _
    rw [statisticsTV_eq]; simp only [asFields, stats_of]
  simp only [dpFields, ofFields_append, piece_f1]
  rw [e1, e2, e3, e4]
  try dsimp only
  rw [piece_opt _ _ 5 statisticsTV h.statistics (fun s o => { s with statistics := o.map Statistics.norm }) (fun x _ => e5 _ x) rfl]
  rfl

theorem v2_of (R : Nat) (h init : DataPageHeaderV2) (hi : init.statistics = none) :
    ofFields (tblDataPageV2 R) init (v2Fields h) = h.norm := by
  obtain ⟨a, b, c, d, e, f, g, st⟩ := init
  simp only at hi
  subst hi
  rfl

theorem dict_of (h init : DictionaryPageHeader) : ofFields tblDictPage init (dictFields h) = h := rfl

theorem dp_ok (R : Nat) (h : DataPageHeader) : okFields (tblDataPage R) (R + 1) (dpFields h) := by
  simp only [dpFields, okFields_append]
  refine ⟨⟨⟨⟨?_, ?_⟩, ?_⟩, ?_⟩, ?_⟩
  · exact okFields_f1 _ _ _ _ ⟨_, rfl⟩
  · exact okFields_f1 _ _ _ _ ⟨_, rfl⟩
  · exact okFields_f1 _ _ _ _ ⟨_, rfl⟩
  · exact okFields_f1 _ _ _ _ ⟨_, rfl⟩
  · exact okFields_fOpt _ _ _ _ _ (fun x _ => okT_struct _ _ 5 _ _ _ _ rfl (stats_ok R x))

theorem v2_ok (R : Nat) (h : DataPageHeaderV2) : okFields (tblDataPageV2 R) (R + 1) (v2Fields h) := by
  simp only [v2Fields, okFields_append]
  refine ⟨⟨⟨⟨⟨⟨?_, ?_⟩, ?_⟩, ?_⟩, ?_⟩, ?_⟩, ?_⟩ <;> exact okFields_f1 _ _ _ _ ⟨_, rfl⟩

theorem dict_ok (R : Nat) (h : DictionaryPageHeader) : okFields tblDictPage R (dictFields h) := by
  simp only [dictFields, okFields_append]
  refine ⟨⟨?_, ?_⟩, ?_⟩ <;> exact okFields_f1 _ _ _ _ ⟨_, rfl⟩

def phFields (h : PageHeader) : Fields :=
  f1 1 (.i32 h.type) ++ f1 2 (.i32 h.uncompressedPageSize) ++ f1 3 (.i32 h.compressedPageSize) ++
    fOpt 4 .i32 h.crc ++ fPageMember h

theorem pageHeaderTV_eq (h : PageHeader) : pageHeaderTV h = .struct (phFields h) := rfl

abbrev PHState := Top (PageHeader × Seen)

/-- which union member the writer emits -/
def seenOf (h : PageHeader) : Seen :=
  if h.type = pageData then { data := true }
  else if h.type = pageDataV2 then { v2 := true }
  else if h.type = pageDictionary then { dict := true }
  else {}

theorem ph_of (R : Nat) (h : PageHeader) :
    (ofFields (tblPageHeader R) ⟨({}, {}), none⟩ (phFields h)).val = (h.norm, seenOf h) := by
  have e1 : ∀ (s : PHState) x, stepT (tblPageHeader R) s 1 (.i32 x) = { s with val := ({ s.val.1 with type := x }, s.val.2) } := fun _ _ => rfl
  have e2 : ∀ (s : PHState) x, stepT (tblPageHeader R) s 2 (.i32 x) = { s with val := ({ s.val.1 with uncompressedPageSize := x }, s.val.2) } := fun _ _ => rfl
  have e3 : ∀ (s : PHState) x, stepT (tblPageHeader R) s 3 (.i32 x) = { s with val := ({ s.val.1 with compressedPageSize := x }, s.val.2) } := fun _ _ => rfl
  have e5 : ∀ (s : PHState) (x : DataPageHeader), s.val.1.dataPageHeader = {} →
      stepT (tblPageHeader R) s 5 (dataPageHeaderTV x)
        = { s with val := ({ s.val.1 with dataPageHeader := x.norm }, { s.val.2 with data := true }) } := by
    intro s x hs
    show ({ s with val := ({ s.val.1 with dataPageHeader := ofFields (tblDataPage R) s.val.1.dataPageHeader (asFields (dataPageHeaderTV x)) },
            { s.val.2 with data := true }) } : PHState) = _
    rw [hs, dataPageHeaderTV_eq]; simp only [asFields, dp_of]
  have e7 : ∀ (s : PHState) (x : DictionaryPageHeader),
      stepT (tblPageHeader R) s 7 (dictionaryPageHeaderTV x)
        = { s with val := ({ s.val.1 with dictionaryPageHeader := x }, { s.val.2 with dict := true }) } := by
    intro s x
    show ({ s with val := ({ s.val.1 with dictionaryPageHeader := ofFields tblDictPage s.val.1.dictionaryPageHeader (asFields (dictionaryPageHeaderTV x)) },
            { s.val.2 with dict := true }) } : PHState) = _
    rw [dictionaryPageHeaderTV_eq]; simp only [asFields, dict_of]
  have e8 : ∀ (s : PHState) (x : DataPageHeaderV2), s.val.1.dataPageHeaderV2.statistics = none →
      stepT (tblPageHeader R) s 8 (dataPageHeaderV2TV x)
        = { s with val := ({ s.val.1 with dataPageHeaderV2 := x.norm }, { s.val.2 with v2 := true }) } := by
    intro s x hs
    show ({ s with val := ({ s.val.1 with
              dataPageHeaderV2 := (ofFields (tblDataPageV2 R) { s.val.1.dataPageHeaderV2 with isCompressed := true } (asFields (dataPageHeaderV2TV x))) },
            { s.val.2 with v2 := true }) } : PHState) = _
    rw [dataPageHeaderV2TV_eq]
    show ({ s with val := ({ s.val.1 with
              dataPageHeaderV2 := (ofFields (tblDataPageV2 R) { s.val.1.dataPageHeaderV2 with isCompressed := true } (v2Fields x)) },
            { s.val.2 with v2 := true }) } : PHState) = _
    rw [v2_of R x { s.val.1.dataPageHeaderV2 with isCompressed := true } hs]
  simp only [phFields, ofFields_append, piece_f1]
  rw [e1, e2, e3]
  try dsimp only
  rw [piece_opt _ _ 4 .i32 h.crc (fun s o => { s with val := ({ s.val.1 with crc := o }, s.val.2) }) (fun _ _ => rfl) rfl]
  try dsimp only
  have n30 : ¬ (pageDataV2 = pageData) := by decide
  have n20 : ¬ (pageDictionary = pageData) := by decide
  have n23 : ¬ (pageDictionary = pageDataV2) := by decide
  have n02 : ¬ (pageData = pageDictionary) := by decide
  have n03 : ¬ (pageData = pageDataV2) := by decide
  have n32 : ¬ (pageDataV2 = pageDictionary) := by decide
  unfold fPageMember seenOf PageHeader.norm
  by_cases h0 : h.type = pageData
  · simp only [h0, if_true, piece_f1]
    rw [e5 _ _ rfl]
    simp only [n02, n03, if_false]
  by_cases h3 : h.type = pageDataV2
  · simp only [h3, n30, if_true, if_false, piece_f1]
    rw [e8 _ _ rfl]
    simp only [n32, if_false]
  by_cases h2 : h.type = pageDictionary
  · simp only [h2, n20, n23, if_true, if_false, piece_f1]
    rw [e7]
  · simp only [h0, h3, h2, if_false]
    rfl

theorem ph_ok (R : Nat) (h : PageHeader) : okFields (tblPageHeader R) (R + 2) (phFields h) := by
  simp only [phFields, okFields_append]
  refine ⟨⟨⟨⟨?_, ?_⟩, ?_⟩, ?_⟩, ?_⟩
  · exact okFields_f1 _ _ _ _ ⟨_, rfl⟩
  · exact okFields_f1 _ _ _ _ ⟨_, rfl⟩
  · exact okFields_f1 _ _ _ _ ⟨_, rfl⟩
  · exact okFields_fOpt _ _ _ _ _ (fun x _ => ⟨x, rfl⟩)
  · unfold fPageMember
    split
    · exact okFields_f1 _ _ _ _ ⟨_, dataPageHeaderTV_eq _, dp_ok R _⟩
    split
    · exact okFields_f1 _ _ _ _ ⟨_, dataPageHeaderV2TV_eq _, v2_ok R _⟩
    split
    · exact okFields_f1 _ _ _ _ ⟨_, dictionaryPageHeaderTV_eq _, dict_ok R _⟩
    · exact okFields_nil _ _

theorem dp_wf (h : DataPageHeader) (hw : h.wf = true) : (dataPageHeaderTV h).wf = true := by
  simp only [DataPageHeader.wf, Bool.and_eq_true] at hw
  obtain ⟨⟨⟨⟨h1, h2⟩, h3⟩, h4⟩, h5⟩ := hw
  rw [dataPageHeaderTV_eq]
  simp only [TVal.wf, dpFields, wfFields_append, Bool.and_eq_true]
  exact ⟨⟨⟨⟨wfFields_f1 1 _ (by omega) (by omega) (wf_i32 h1), wfFields_f1 2 _ (by omega) (by omega) (wf_i32 h2)⟩,
    wfFields_f1 3 _ (by omega) (by omega) (wf_i32 h3)⟩, wfFields_f1 4 _ (by omega) (by omega) (wf_i32 h4)⟩,
    wfFields_fOpt 5 _ _ (by omega) (by omega) (fun x hx => stats_wf x (okOpt_some h5 hx))⟩

theorem v2_wf (h : DataPageHeaderV2) (hw : h.wf = true) : (dataPageHeaderV2TV h).wf = true := by
  simp only [DataPageHeaderV2.wf, Bool.and_eq_true] at hw
  obtain ⟨⟨⟨⟨⟨h1, h2⟩, h3⟩, h4⟩, h5⟩, h6⟩ := hw
  rw [dataPageHeaderV2TV_eq]
  simp only [TVal.wf, v2Fields, wfFields_append, Bool.and_eq_true]
  exact ⟨⟨⟨⟨⟨⟨wfFields_f1 1 _ (by omega) (by omega) (wf_i32 h1), wfFields_f1 2 _ (by omega) (by omega) (wf_i32 h2)⟩,
    wfFields_f1 3 _ (by omega) (by omega) (wf_i32 h3)⟩, wfFields_f1 4 _ (by omega) (by omega) (wf_i32 h4)⟩,
    wfFields_f1 5 _ (by omega) (by omega) (wf_i32 h5)⟩, wfFields_f1 6 _ (by omega) (by omega) (wf_i32 h6)⟩,
    wfFields_f1 7 _ (by omega) (by omega) rfl⟩

theorem dict_wf (h : DictionaryPageHeader) (hw : h.wf = true) : (dictionaryPageHeaderTV h).wf = true := by
  simp only [DictionaryPageHeader.wf, Bool.and_eq_true] at hw
  rw [dictionaryPageHeaderTV_eq]
  simp only [TVal.wf, dictFields, wfFields_append, Bool.and_eq_true]
  exact ⟨⟨wfFields_f1 1 _ (by omega) (by omega) (wf_i32 hw.1), wfFields_f1 2 _ (by omega) (by omega) (wf_i32 hw.2)⟩,
    wfFields_f1 3 _ (by omega) (by omega) rfl⟩

theorem ph_wf (h : PageHeader) (hw : h.wf = true) : (pageHeaderTV h).wf = true := by
  simp only [PageHeader.wf, Bool.and_eq_true] at hw
  obtain ⟨⟨⟨⟨h1, h2⟩, h3⟩, h4⟩, hm⟩ := hw
  rw [pageHeaderTV_eq]
  simp only [TVal.wf, phFields, wfFields_append, Bool.and_eq_true]
  refine ⟨⟨⟨⟨wfFields_f1 1 _ (by omega) (by omega) (wf_i32 h1), wfFields_f1 2 _ (by omega) (by omega) (wf_i32 h2)⟩,
    wfFields_f1 3 _ (by omega) (by omega) (wf_i32 h3)⟩,
    wfFields_fOpt 4 _ _ (by omega) (by omega) (fun x hx => wf_i32 (okOpt_some h4 hx))⟩, ?_⟩
  unfold fPageMember
  by_cases h0 : h.type = pageData
  · simp only [h0, if_true] at hm ⊢; exact wfFields_f1 5 _ (by omega) (by omega) (dp_wf _ hm)
  by_cases h3' : h.type = pageDataV2
  · simp only [h0, h3', if_true, if_false] at hm ⊢; exact wfFields_f1 8 _ (by omega) (by omega) (v2_wf _ hm)
  by_cases h2' : h.type = pageDictionary
  · simp only [h0, h3', h2', if_true, if_false] at hm ⊢; exact wfFields_f1 7 _ (by omega) (by omega) (dict_wf _ hm)
  · simp only [h0, h3', h2', if_false]; rfl

theorem unionConsistent_norm (h : PageHeader) : unionConsistent h.norm (seenOf h) = true := by
  unfold unionConsistent seenOf PageHeader.norm
  by_cases h0 : h.type = pageData
  · simp [h0]
  by_cases h3 : h.type = pageDataV2
  · simp [h3, pageData, pageDataV2, pageDictionary]
  by_cases h2 : h.type = pageDictionary
  · simp [h2, pageData, pageDataV2, pageDictionary]
  · simp [h0, h3, h2]

/-- **PageHeader round trip** on the model of the repaired code -/
theorem roundtrip_pageheader (h : PageHeader) (hw : h.wf = true) (r : List UInt8) :
    parsePageHeaderX Cfg.fixed (writePageHeader h ++ r) = ⟨none, h.norm, (writePageHeader h).length, false⟩ ∧
    writePageHeaderStatus h = none := by
  obtain ⟨hwr, hst⟩ := writePageHeader_eq h
  refine ⟨?_, hst⟩
  have henc : Enc (.val (.struct (phFields h))) (encode (pageHeaderTV h)) := by
    have := encodes_encode (pageHeaderTV h) (ph_wf h hw)
    rwa [pageHeaderTV_eq] at this
  obtain ⟨res, hres, h1, h2, h3, h4⟩ := parsePageHeaderTop_reads 27 (by simp [maxNesting]) (phFields h) _ henc (ph_ok 27 h) r
  rw [hwr]
  unfold parsePageHeaderX
  rw [hres]
  obtain ⟨st, v, n, ov⟩ := res
  simp only at h1 h2 h3 h4
  subst h1 h3 h4
  rw [h2, ph_of 27 h]
  simp [unionConsistent_norm]

end Carquet.Proofs.Thrift
