import Carquet.Impl.SimdMore
import Carquet.Spec.Kernels
import Carquet.Proofs.SimdBlocked
import Carquet.Proofs.SimdKernels
/-
C15 helper lemmas: the memset / memcpy helpers (cascades of 4xW, W, …, 16-byte and single-byte
loops) write `n` copies of the value / the source bytes, for every `n`.
-/
namespace Carquet.Proofs.SimdMem
open Carquet Carquet.Impl.Simd Carquet.Proofs.SimdBlocked Carquet.Proofs.SimdKernels

theorem memTail_append (v : UInt8) (a r : List UInt8) : memTail v (a ++ r) = memTail v a ++ memTail v r := by
  simp [memTail]

theorem memTail_replicate (v : UInt8) (b : List UInt8) : memTail v b = List.replicate b.length v :=
  map_const_replicate v b

theorem store1 (W : Nat) (v : UInt8) (b : List UInt8) (h : b.length = W) : set1 W v = memTail v b := by
  rw [memTail_replicate, h]; rfl

theorem store4 (W : Nat) (v : UInt8) (b : List UInt8) (h : b.length = 4 * W) :
    set1 W v ++ set1 W v ++ set1 W v ++ set1 W v = memTail v b := by
  rw [memTail_replicate, h]
  simp only [set1, List.replicate_append_replicate]
  congr 1; omega

/-- one level of the cascade: a `W`-byte store loop in front of a tail that already is the scalar loop -/
theorem level (W : Nat) (hW : 0 < W) (v : UInt8) (blk tail : List UInt8 → List UInt8)
    (hblk : ∀ b, b.length = W → blk b = memTail v b) (htail : ∀ t, tail t = memTail v t) (xs : List UInt8) :
    blockedMap W blk tail xs = memTail v xs :=
  blockedMap_eq W hW blk tail (memTail v) hblk (fun t _ => htail t) (fun a r _ => memTail_append v a r) xs

theorem sse_memset (old : List UInt8) (v : UInt8) : sseMemset old v = Spec.Kernels.memset old.length v := by
  unfold sseMemset Spec.Kernels.memset
  rw [level 64 (by decide) v _ _ (fun b h => store4 16 v b h)
    (fun t => level 16 (by decide) v _ _ (fun b h => store1 16 v b h) (fun _ => rfl) t), memTail_replicate]

theorem avx2_memset (old : List UInt8) (v : UInt8) : avx2Memset old v = Spec.Kernels.memset old.length v := by
  unfold avx2Memset Spec.Kernels.memset
  rw [level 128 (by decide) v _ _ (fun b h => store4 32 v b h)
    (fun t => level 32 (by decide) v _ _ (fun b h => store1 32 v b h)
      (fun t => level 16 (by decide) v _ _ (fun b h => store1 16 v b h) (fun _ => rfl) t) t), memTail_replicate]

theorem avx512_memset (old : List UInt8) (v : UInt8) : avx512Memset old v = Spec.Kernels.memset old.length v := by
  unfold avx512Memset Spec.Kernels.memset
  rw [level 256 (by decide) v _ _ (fun b h => store4 64 v b h)
    (fun t => level 64 (by decide) v _ _ (fun b h => store1 64 v b h)
      (fun t => level 32 (by decide) v _ _ (fun b h => store1 32 v b h)
        (fun t => level 16 (by decide) v _ _ (fun b h => store1 16 v b h) (fun _ => rfl) t) t) t),
    memTail_replicate]

/-! ### memcpy -/

theorem take_all {α : Type} (W : Nat) (b : List α) (h : b.length = W) : b.take W = b :=
  List.take_of_length_le (by omega)

theorem copy4_eq (W : Nat) (b : List UInt8) (h : b.length = 4 * W) : copy4 W b = b := by
  unfold copy4
  have h3 : (b.drop (3 * W)).take W = b.drop (3 * W) := List.take_of_length_le (by rw [List.length_drop]; omega)
  rw [h3]
  have e1 : b.drop (3 * W) = (b.drop (2 * W)).drop W := by rw [List.drop_drop]; congr 1; omega
  rw [e1, List.append_assoc, List.take_append_drop]
  have e2 : b.drop (2 * W) = (b.drop W).drop W := by rw [List.drop_drop]; congr 1; omega
  rw [e2, List.append_assoc, List.take_append_drop, List.take_append_drop]

theorem clevel (W : Nat) (hW : 0 < W) (blk tail : List UInt8 → List UInt8)
    (hblk : ∀ b, b.length = W → blk b = b) (htail : ∀ t, tail t = t) (xs : List UInt8) :
    blockedMap W blk tail xs = xs :=
  blockedMap_eq W hW blk tail id hblk (fun t _ => htail t) (fun _ _ _ => rfl) xs

theorem sse_memcpy (src : List UInt8) : sseMemcpy src = Spec.Kernels.memcpy src := by
  unfold sseMemcpy Spec.Kernels.memcpy
  exact clevel 64 (by decide) _ _ (copy4_eq 16) (clevel 16 (by decide) _ _ (take_all 16) (fun _ => rfl)) src

theorem avx2_memcpy (src : List UInt8) : avx2Memcpy src = Spec.Kernels.memcpy src := by
  unfold avx2Memcpy Spec.Kernels.memcpy
  exact clevel 128 (by decide) _ _ (copy4_eq 32)
    (clevel 32 (by decide) _ _ (take_all 32) (clevel 16 (by decide) _ _ (take_all 16) (fun _ => rfl))) src

theorem avx512_memcpy (src : List UInt8) : avx512Memcpy src = Spec.Kernels.memcpy src := by
  unfold avx512Memcpy Spec.Kernels.memcpy
  exact clevel 256 (by decide) _ _ (copy4_eq 64)
    (clevel 64 (by decide) _ _ (take_all 64)
      (clevel 32 (by decide) _ _ (take_all 32) (clevel 16 (by decide) _ _ (take_all 16) (fun _ => rfl)))) src

end Carquet.Proofs.SimdMem
