import Carquet.Proofs.ReaderChunkRoundtrip
import Carquet.Proofs.SpecWriterFile
/-
C01, file level — stage "pages": every page record of a completed run of the writer model is a page
the reader half of the round trip accepts (`RecOk`, Proofs/ReaderChunkRoundtrip.lean).

What the writer theorems give about a page record (`PageFacts`, Proofs/SpecWriterChunk.lean: the
record is the finalisation of a page-builder content that satisfies the page-builder invariant
`PageGood`, the stored body is `compress_data` of the body, the three `int32_t` sizes are small)
implies, for a flat REQUIRED / OPTIONAL / REPEATED column (`ColOk`):

* `PageShape` — the shape hypothesis of the reader's page-body theorem;
* `HdrFits` — the header fields fit the Thrift integer types;
* the header is at most 256 bytes long, i.e. it lies inside the FIRST window `read_page_header_fread`
  tries (after F53 the window is doubled when the header does not parse; the writer's own headers
  never need that: statistics exist for INT32 / INT64 / FLOAT / DOUBLE pages only, so min / max are at
  most 8 bytes each and the header is at most 142 bytes).
-/
namespace Carquet.Proofs.Roundtrip
open Carquet.Impl Carquet.Impl.Writer Carquet.Impl.FileReal
open Carquet.Spec Carquet.Spec.Thrift
open Carquet.Proofs.SpecWriter Carquet.Proofs.WriterTable Carquet.Proofs.WriterPages
open Carquet.Proofs.ReaderPageRoundtrip Carquet.Proofs.ReaderChunkRoundtrip Carquet.Proofs.ReaderHeaderReads

/-! ### the header is short -/

theorem ulebAux_length_le : ∀ (f n : Nat), (ulebAux f n).length ≤ f + 1
  | 0, n => by simp [ulebAux]
  | f + 1, n => by
    unfold ulebAux
    split
    · simp
    · have := ulebAux_length_le f (n / 128)
      simp only [List.length_cons]
      omega

theorem uleb_length_le (n : Nat) : (uleb n).length ≤ 10 := ulebAux_length_le 9 n

/-- the hand-written page header is at most 142 bytes long when its statistics bounds are at most 8
bytes each -/
theorem pageHeader_length_le (unc comp crc numValues : Nat) (stats : Option PageStats)
    (hs : ∀ s, stats = some s → s.max ≠ [] ∧ s.min ≠ [] ∧ s.max.length ≤ 8 ∧ s.min.length ≤ 8) :
    (pageHeader unc comp crc numValues stats).length ≤ 142 := by
  have hne : ∀ s, stats = some s → s.max ≠ [] ∧ s.min ≠ [] := fun s h => ⟨(hs s h).1, (hs s h).2.1⟩
  rw [Carquet.Proofs.FileRealHeader.pageHeader_eq_write unc comp crc numValues stats hne,
    (Carquet.Proofs.Thrift.writePageHeader_eq (Carquet.Proofs.FileRealHeader.headerOf unc comp crc numValues stats)).1,
    pageHeaderTV_written unc comp crc numValues stats hne]
  have u1 := uleb_length_le (zigzag 0)
  have u2 := uleb_length_le (zigzag (unc : Int))
  have u3 := uleb_length_le (zigzag (comp : Int))
  have u4 := uleb_length_le (zigzag (asI32 crc))
  have u5 := uleb_length_le (zigzag (numValues : Int))
  have u6 := uleb_length_le (zigzag 3)
  cases stats with
  | none =>
    simp [encode, encodeVal, encodeFields, phFieldsW, fieldHdr, shortFieldHdr, fieldCode]
    omega
  | some s =>
    obtain ⟨_, _, m1, m2⟩ := hs s rfl
    have u7 := uleb_length_le (zigzag (s.nullCount : Int))
    have u8 := uleb_length_le s.max.length
    have u9 := uleb_length_le s.min.length
    simp [encode, encodeVal, encodeFields, phFieldsW, fieldHdr, shortFieldHdr, fieldCode]
    omega

/-! ### statistics bounds are values of the page -/

theorem valOk_stat_length_le (c : Col) (hs : hasStats c.ptype = true) (v : Val) (hv : ValOk c v) : v.length ≤ 8 := by
  unfold ValOk at hv
  cases hp : c.ptype <;> simp [hp, hasStats] at hs <;> simp only [hp, valOkT] at hv <;> omega

theorem stats_short {o : FileReal.Oracle} {codec : Nat} {c : Col} {r : PageRec} (hf : PageFacts o codec c r) :
    ∀ s, r.stats = some s → s.max.length ≤ 8 ∧ s.min.length ≤ 8 := by
  intro s hs
  rw [pageFacts_stats hf] at hs
  unfold pageStatsOf at hs
  rw [hf.good.minMax] at hs
  by_cases hst : hasStats c.ptype = true
  · simp only [hst, if_true] at hs
    cases hfold : r.src.values.foldl (FileReal.statsStep c.ptype) none with
    | none => simp [hfold] at hs
    | some q =>
      obtain ⟨mn, mx⟩ := q
      simp only [hfold, Option.some.injEq] at hs
      subst hs
      obtain ⟨hmn, hmx, _⟩ := statsFold_bounds c.ptype hst r.src.values mn mx hfold
      exact ⟨valOk_stat_length_le c hst mx (hf.good.valsOk mx hmx), valOk_stat_length_le c hst mn (hf.good.valsOk mn hmn)⟩
  · simp [hst] at hs

/-! ### the page-builder content has the shape the reader's page theorem asks for -/

theorem maxDef_le_1 (c : Col) : c.maxDef ≤ 1 := by unfold Col.maxDef; split <;> omega

theorem valsOk_of_valOk (c : Col) (hc : ColOk c) (vals : List Val) (h : ∀ v ∈ vals, ValOk c v) : ValsOk c vals := by
  unfold ValsOk
  unfold ValOk at h
  cases hp : c.ptype <;> simp only [hp, valOkT] at h ⊢
  · exact h
  · exact h
  · exact h
  · exact h
  · exact h
  · exact h
  · exact h
  · exact ⟨hc.flbaLen hp, h⟩

theorem rle_encode_nil : (Rle.encode 1 []).length < 2 ^ 32 := by decide

theorem maxRep_le_1 (c : Col) : c.maxRep ≤ 1 := by unfold Col.maxRep; split <;> omega

theorem pageShape_of_facts {o : FileReal.Oracle} {codec : Nat} {c : Col} {r : PageRec} (hc : ColOk c)
    (hf : PageFacts o codec c r) : PageShape c r.src := by
  have hg := hf.good
  have hrows : 0 < r.src.numValues := by rw [← pageFacts_rows hf]; exact hf.ok.2
  have hbody := hf.small.body
  rw [pageFacts_body hf] at hbody
  refine ⟨fun hd => ⟨hg.defsLen hd, hrows⟩, hg.defsNil, ?_, ?_,
    valsOk_of_valOk c hc _ hg.valsOk, ?_, ?_, fun hr => ⟨hg.repsLen hr, hrows⟩, hg.repsNil, ?_, ?_⟩
  · intro d hd
    exact Nat.le_trans (hg.defsLe d hd) (maxDef_le_1 c)
  · rw [hg.valsLen]
    by_cases hd : c.maxDef > 0
    · have h1 : c.maxDef = 1 := by have := maxDef_le_1 c; omega
      simp only [hd, if_true, h1, List.countP_eq_length_filter]
    · simp only [hd, if_false]
  · by_cases h0 : 0 < r.src.defs.length
    · have hd : c.maxDef > 0 := by
        by_cases hd : c.maxDef > 0
        · exact hd
        · have := hg.defsNil (by omega); rw [this] at h0; simp at h0
      have h1 : c.maxDef = 1 := by have := maxDef_le_1 c; omega
      have := levels_length_lt hf h0
      rw [h1] at this
      exact this
    · have : r.src.defs = [] := List.eq_nil_of_length_eq_zero (by omega)
      rw [this]; exact rle_encode_nil
  · have hv : (pageValuesBytes c r.src.values).length ≤ (pageBody (deps o) c r.src).length := by
      simp only [pageBody, pageValuesBytes, List.length_append, gt_iff_lt, deps]
      omega
    have hb := hf.small.body
    rw [pageFacts_body hf] at hb
    omega
  · intro d hd
    exact Nat.le_trans (hg.repsLe d hd) (maxRep_le_1 c)
  · by_cases h0 : 0 < r.src.reps.length
    · have hr : c.maxRep > 0 := by
        by_cases hr : c.maxRep > 0
        · exact hr
        · have := hg.repsNil (by omega); rw [this] at h0; simp at h0
      have h1 : c.maxRep = 1 := by have := maxRep_le_1 c; omega
      have := repLevels_length_lt hf h0
      rw [h1] at this
      exact this
    · have : r.src.reps = [] := List.eq_nil_of_length_eq_zero (by omega)
      rw [this]; exact rle_encode_nil

/-! ### `RecOk` -/

/-- **pages**: a page record of a completed run, of a flat REQUIRED / OPTIONAL / REPEATED column, is a page the
reader half of the round trip reads back (`RecOk`) -/
theorem recOk_of_facts {codec : Nat} {c : Col} {r : PageRec} (hcodec : codec = 0 ∨ codec = 1 ∨ codec = 5 ∨ codec = 7)
    (hc : ColOk c) (hf : PageFacts [] codec c r) : RecOk c codec r := by
  have hsz := headerSizes_of_facts hf
  have hshort := stats_short hf
  have hfits : HdrFits r.body.length r.comp.length (FileReal.crc32 r.comp) r.rows r.stats := by
    refine ⟨by have := hsz.unc; omega, by have := hsz.comp; omega, Carquet.Proofs.ReaderChunkRoundtrip.crc32_lt _,
      by have := hsz.numValues; omega, ?_⟩
    intro s hs
    obtain ⟨a, b, c', d, e⟩ := hsz.stats s hs
    exact ⟨d, e, by omega, by omega, by omega⟩
  refine recOk_of_writer c codec r hcodec hf.ok hf.isRec (pageShape_of_facts hc hf) hfits ?_
  have := pageHeader_length_le r.body.length r.comp.length (FileReal.crc32 r.comp) r.rows r.stats
    (fun s hs => ⟨(hsz.stats s hs).2.2.2.1, (hsz.stats s hs).2.2.2.2, (hshort s hs).1, (hshort s hs).2⟩)
  unfold hdrBytes
  omega

/-! ### the general form: any codec tag, the stored body by contract -/

/-- What the reader needs of the writer's `compress_data` for codec tag `codec` (with the oracle `o`
standing for zlib / libzstd on the writer's side) and of the libraries `L` on the reader's side:
whatever was stored for a body shorter than 2 GiB, the loaders' decompression step with the header's
`uncompressed_page_size` turns back into the body. -/
def StoredOk (L : Reader.Libs) (o : FileReal.Oracle) (codec : Nat) : Prop :=
  ∀ body comp, FileReal.compress o codec body = some comp → body.length < 2147483648 →
    Reader.pageData L (codec : Int) comp body.length = .ok body

/-- UNCOMPRESSED, SNAPPY, LZ4, LZ4_RAW: by the component theorems (C09), whatever the oracle and the libraries -/
theorem storedOk_exact (L : Reader.Libs) (o : FileReal.Oracle) (codec : Nat)
    (hcodec : codec = 0 ∨ codec = 1 ∨ codec = 5 ∨ codec = 7) : StoredOk L o codec := by
  intro body comp hcomp hlen
  have : FileReal.compress [] codec body = some comp := by
    rcases hcodec with h | h | h | h <;> subst h <;> exact hcomp
  exact stored_body_roundtrip L codec body comp hcodec (by omega) this

/-- the oracle holds outputs of the library's own compressor at a level in the contract's range -/
def OracleFrom (lib : CodecWrappers.Lib) (lo hi : Int) (o : FileReal.Oracle) : Prop :=
  ∀ p ∈ o, ∃ (lvl : Int) (cap : Nat), lo ≤ lvl ∧ lvl ≤ hi ∧ lib.compress lvl p.1 cap = some p.2

theorem oracle_find {o : FileReal.Oracle} {body comp : List UInt8}
    (h : (o.find? (·.1 == body)).map (·.2) = some comp) : (body, comp) ∈ o := by
  cases hf : o.find? (·.1 == body) with
  | none => rw [hf] at h; cases h
  | some p =>
    rw [hf] at h
    simp only [Option.map_some, Option.some.injEq] at h
    have hm := List.mem_of_find?_eq_some hf
    have hp := List.find?_some hf
    simp only [beq_iff_eq] at hp
    obtain ⟨a, b⟩ := p
    simp only at h hp
    subst h; subst hp
    exact hm

/-- GZIP by the library contract (zlib: `decompress (compress x) = x`) -/
theorem storedOk_gzip (L : Reader.Libs) (o : FileReal.Oracle) (lo hi : Int)
    (hc : CodecWrappers.Lib.Contract L.gzip lo hi) (ho : OracleFrom L.gzip lo hi o) : StoredOk L o 2 := by
  intro body comp hcomp _
  have hmem : (body, comp) ∈ o := oracle_find (by simpa [FileReal.compress] using hcomp)
  obtain ⟨lvl, cap, h1, h2, h3⟩ := ho _ hmem
  have := hc.roundtrip lvl body comp cap body.length h1 h2 h3 (Nat.le_refl _)
  simp [Reader.pageData, Reader.decompressPage, CodecWrappers.gzipDecompress, CodecWrappers.gzipDecompressG, this, Reader.mapWrap]

/-- ZSTD by the library contract -/
theorem storedOk_zstd (L : Reader.Libs) (o : FileReal.Oracle) (lo hi : Int)
    (hc : CodecWrappers.Lib.Contract L.zstd lo hi) (ho : OracleFrom L.zstd lo hi o) : StoredOk L o 6 := by
  intro body comp hcomp _
  have hmem : (body, comp) ∈ o := oracle_find (by simpa [FileReal.compress] using hcomp)
  obtain ⟨lvl, cap, h1, h2, h3⟩ := ho _ hmem
  have := hc.roundtrip lvl body comp cap body.length h1 h2 h3 (Nat.le_refl _)
  simp [Reader.pageData, Reader.decompressPage, CodecWrappers.zstdDecompress, CodecWrappers.zstdDecompressG, this, Reader.mapWrap]

theorem pageBody_oracle (o : FileReal.Oracle) (c : Col) (p : Page) : pageBody (deps o) c p = pageBody (deps []) c p := rfl

theorem pagesBytes_oracle (o : FileReal.Oracle) (ps : List PageRec) : pagesBytes (deps o) ps = pagesBytes (deps []) ps := rfl

/-- the codec-independent part, for any oracle -/
theorem recShape_of_facts {o : FileReal.Oracle} {codec : Nat} {c : Col} {r : PageRec} (hc : ColOk c)
    (hf : PageFacts o codec c r) : RecShape c r := by
  have hsz := headerSizes_of_facts hf
  have hshort := stats_short hf
  refine ⟨by rw [pageFacts_body hf]; rfl, pageFacts_rows hf, pageShape_of_facts hc hf, ?_, ?_, hf.ok.2⟩
  · refine ⟨by have := hsz.unc; omega, by have := hsz.comp; omega, Carquet.Proofs.ReaderChunkRoundtrip.crc32_lt _,
      by have := hsz.numValues; omega, ?_⟩
    intro s hs
    obtain ⟨a, b, c', d, e⟩ := hsz.stats s hs
    exact ⟨d, e, by omega, by omega, by omega⟩
  · have := pageHeader_length_le r.body.length r.comp.length (FileReal.crc32 r.comp) r.rows r.stats
      (fun s hs => ⟨(hsz.stats s hs).2.2.2.1, (hsz.stats s hs).2.2.2.2, (hshort s hs).1, (hshort s hs).2⟩)
    unfold hdrBytes
    omega

/-- **pages, general form**: a page record of a completed run written with ANY codec tag is a page
the reader half reads back, provided the stored bodies decompress (`StoredOk`) -/
theorem recOkL_of_facts {L : Reader.Libs} {o : FileReal.Oracle} {codec : Nat} {c : Col} {r : PageRec} (hst : StoredOk L o codec)
    (hc : ColOk c) (hf : PageFacts o codec c r) : RecOkL L c codec r :=
  { toRecShape := recShape_of_facts hc hf, stored := hst r.body r.comp hf.ok.1 hf.small.body }

end Carquet.Proofs.Roundtrip
