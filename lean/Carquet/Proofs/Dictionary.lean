import Carquet.Spec.Dictionary
import Carquet.Impl.Dictionary
/-
Helper lemmas for the dictionary builder: the hash table is an implementation of "position of the
value in the list of distinct values so far", whatever the hash function and the (positive)
number of buckets; the list of distinct values is `Spec.Dictionary.firstOccurrences`.
-/
namespace Carquet.Proofs.Dictionary
open Carquet.Impl.Dictionary
open Carquet.Spec.Dictionary (firstOccurrences indexIn)

/-! ### first occurrences -/

section
variable {α : Type} [DecidableEq α]

theorem indexIn_append (v : α) (l₁ l₂ : List α) :
    indexIn v (l₁ ++ l₂) = if v ∈ l₁ then indexIn v l₁ else indexIn v l₂ + l₁.length := by
  induction l₁ with
  | nil => simp
  | cons a l ih =>
    simp only [List.cons_append, indexIn, ih, List.mem_cons, List.length_cons]
    by_cases ha : a = v
    · simp [ha]
    · have : ¬ v = a := fun e => ha e.symm
      simp only [ha, this, if_false, false_or]
      split <;> omega

theorem indexIn_lt_length {v : α} : ∀ {l : List α}, v ∈ l → indexIn v l < l.length
  | [], h => by simp at h
  | a :: l, h => by
    simp only [indexIn, List.length_cons]
    by_cases ha : a = v
    · simp [ha]
    · have hv : v ∈ l := by
        rcases List.mem_cons.mp h with e | e
        · exact absurd e.symm ha
        · exact e
      have := indexIn_lt_length hv
      simp only [ha, if_false]; omega

theorem getElem?_indexIn {v : α} : ∀ {l : List α}, v ∈ l → l[indexIn v l]? = some v
  | [], h => by simp at h
  | a :: l, h => by
    simp only [indexIn]
    by_cases ha : a = v
    · simp [ha]
    · have hv : v ∈ l := by
        rcases List.mem_cons.mp h with e | e
        · exact absurd e.symm ha
        · exact e
      simp only [ha, if_false, List.getElem?_cons_succ]
      exact getElem?_indexIn hv

theorem mem_firstOccurrences {x : α} : ∀ {vs : List α}, x ∈ firstOccurrences vs ↔ x ∈ vs
  | [] => by simp [firstOccurrences]
  | v :: vs => by
    have ih := mem_firstOccurrences (x := x) (vs := vs)
    simp only [firstOccurrences, List.mem_cons, List.mem_filter, ih, decide_eq_true_eq]
    by_cases h : x = v <;> simp [h]

theorem nodup_firstOccurrences : ∀ vs : List α, (firstOccurrences vs).Nodup
  | [] => by simp [firstOccurrences]
  | v :: vs => by
    rw [firstOccurrences, List.nodup_cons]
    refine ⟨?_, List.Pairwise.filter _ (nodup_firstOccurrences vs)⟩
    simp [List.mem_filter]

theorem firstOccurrences_snoc (v : α) : ∀ p : List α,
    firstOccurrences (p ++ [v]) = if v ∈ p then firstOccurrences p else firstOccurrences p ++ [v]
  | [] => by simp [firstOccurrences]
  | a :: p => by
    rw [List.cons_append, firstOccurrences, firstOccurrences_snoc v p]
    by_cases hp : v ∈ p
    · rw [if_pos hp, if_pos (by simp [hp])]; rfl
    · rw [if_neg hp, List.filter_append]
      by_cases ha : v = a
      · subst ha
        rw [if_pos (by simp)]
        simp [firstOccurrences]
      · rw [if_neg (by simp [hp, ha])]
        simp [firstOccurrences, ha]

/-! ### the reference builder: a left fold over the values -/

/-- State: distinct values so far (in order), assigned indices (newest first). -/
def refStep (st : List α × List Nat) (v : α) : List α × List Nat :=
  if v ∈ st.1 then (st.1, indexIn v st.1 :: st.2) else (st.1 ++ [v], st.1.length :: st.2)

def refBuild (vs : List α) : List α × List Nat := vs.foldl refStep ([], [])

/-- What the state is after the values `p`. -/
def RefInv (p : List α) (st : List α × List Nat) : Prop :=
  st.1 = firstOccurrences p ∧ st.2 = p.reverse.map (fun v => indexIn v st.1)

theorem refInv_step {p : List α} {st : List α × List Nat} (h : RefInv p st) (v : α) :
    RefInv (p ++ [v]) (refStep st v) := by
  obtain ⟨h1, h2⟩ := h
  have hmem : ∀ w, w ∈ st.1 ↔ w ∈ p := by intro w; rw [h1]; exact mem_firstOccurrences
  unfold refStep
  by_cases hv : v ∈ st.1
  · rw [if_pos hv]
    refine ⟨?_, ?_⟩
    · simp only; rw [firstOccurrences_snoc, if_pos ((hmem v).mp hv), h1]
    · simp only [List.reverse_append, List.reverse_cons, List.reverse_nil, List.nil_append,
        List.cons_append, List.map_cons]
      rw [← h2]
  · rw [if_neg hv]
    refine ⟨?_, ?_⟩
    · simp only; rw [firstOccurrences_snoc, if_neg (fun hp => hv ((hmem v).mpr hp)), h1]
    · simp only [List.reverse_append, List.reverse_cons, List.reverse_nil, List.nil_append,
        List.cons_append, List.map_cons]
      congr 1
      · rw [indexIn_append, if_neg hv]; simp [indexIn]
      · rw [h2]
        apply List.map_congr_left
        intro w hw
        have hw' : w ∈ st.1 := (hmem w).mpr (List.mem_reverse.mp hw)
        rw [indexIn_append, if_pos hw']

theorem refInv_foldl (vs : List α) : ∀ (p : List α) (st : List α × List Nat), RefInv p st →
    RefInv (p ++ vs) (vs.foldl refStep st) := by
  induction vs with
  | nil => intro p st h; simpa using h
  | cons v vs ih =>
    intro p st h
    have := ih (p ++ [v]) (refStep st v) (refInv_step h v)
    simpa [List.append_assoc] using this

theorem refBuild_spec (vs : List α) :
    (refBuild vs).1 = firstOccurrences vs ∧
    (refBuild vs).2.reverse = vs.map (fun v => indexIn v (firstOccurrences vs)) := by
  have h := refInv_foldl vs [] ([], []) ⟨rfl, rfl⟩
  simp only [List.nil_append] at h
  obtain ⟨h1, h2⟩ := h
  refine ⟨h1, ?_⟩
  unfold refBuild
  rw [h2, ← List.map_reverse, List.reverse_reverse, h1]

theorem refStep_length_le (st : List α × List Nat) (v : α) :
    (refStep st v).1.length ≤ st.1.length + 1 := by
  unfold refStep; split <;> simp

end

/-! ### the hash table implements the reference builder -/

theorem getD_modify (xs : Array (List Entry)) (k j : Nat) (f : List Entry → List Entry) :
    (xs.modify k f).getD j [] = if k = j ∧ k < xs.size then f (xs.getD j []) else xs.getD j [] := by
  rw [Array.getD_eq_getD_getElem?, Array.getD_eq_getD_getElem?, Array.getElem?_modify]
  by_cases hk : k = j
  · subst hk
    by_cases hs : k < xs.size
    · simp [hs]
    · simp [hs]
  · simp [hk]

/-- Link between the C builder state and the reference state. -/
structure Inv (hash : List UInt8 → Nat) (nb : Nat) (b : Builder) (st : List (List UInt8) × List Nat) : Prop where
  entries : b.entriesRev.reverse = st.1
  indices : b.indicesRev = st.2
  count : b.count = st.1.length
  size : b.buckets.size = nb
  chains : ∀ v, findEntry v (b.buckets.getD (hash v % nb) []) =
    if v ∈ st.1 then some { data := v, index := indexIn v st.1 } else none

theorem inv_init (hash : List UInt8 → Nat) (nb : Nat) (isVar : Bool) :
    Inv hash nb (init nb isVar) ([], []) where
  entries := rfl
  indices := rfl
  count := rfl
  size := by simp [init]
  chains := by
    intro v
    simp only [init, Array.getD_eq_getD_getElem?, Array.getElem?_replicate]
    split <;> simp [findEntry]

theorem inv_add {hash : List UInt8 → Nat} {nb : Nat} (hnb : 0 < nb) {b : Builder}
    {st : List (List UInt8) × List Nat} (h : Inv hash nb b st) (hlt : st.1.length < 2 ^ 32)
    (v : List UInt8) : Inv hash nb (add hash b v) (refStep st v) := by
  have hfind := h.chains v
  unfold add refStep
  rw [h.size, hfind]
  by_cases hv : v ∈ st.1
  · simp only [if_pos hv]
    exact { entries := h.entries, indices := by simp [h.indices], count := h.count, size := h.size,
            chains := h.chains }
  · simp only [if_neg hv]
    have hcnt : b.count % 2 ^ 32 = st.1.length := by rw [h.count]; exact Nat.mod_eq_of_lt hlt
    refine { entries := ?_, indices := ?_, count := ?_, size := ?_, chains := ?_ }
    · simp [h.entries]
    · simp [h.indices, hcnt]
    · simp [h.count]
    · simp [Array.size_modify, h.size]
    · intro w
      have hk : hash v % nb < b.buckets.size := by rw [h.size]; exact Nat.mod_lt _ hnb
      simp only [getD_modify]
      by_cases hj : hash v % nb = hash w % nb
      · rw [if_pos ⟨hj, hk⟩, findEntry]
        by_cases hvw : v = w
        · subst hvw
          simp only [if_true, List.mem_append, List.mem_singleton, or_true]
          rw [hcnt, indexIn_append, if_neg hv]
          simp [indexIn]
        · simp only [hvw, if_false]
          rw [h.chains w]
          have hmem : (w ∈ st.1 ++ [v]) ↔ w ∈ st.1 := by
            simp only [List.mem_append, List.mem_singleton]
            exact ⟨fun e => e.elim id (fun e => absurd e.symm hvw), Or.inl⟩
          by_cases hw : w ∈ st.1
          · rw [if_pos hw, if_pos (hmem.mpr hw), indexIn_append, if_pos hw]
          · rw [if_neg hw, if_neg (fun e => hw (hmem.mp e))]
      · have hvw : v ≠ w := fun e => hj (by rw [e])
        rw [if_neg (fun e => hj e.1), h.chains w]
        have hmem : (w ∈ st.1 ++ [v]) ↔ w ∈ st.1 := by
          simp only [List.mem_append, List.mem_singleton]
          exact ⟨fun e => e.elim id (fun e => absurd e.symm hvw), Or.inl⟩
        by_cases hw : w ∈ st.1
        · rw [if_pos hw, if_pos (hmem.mpr hw), indexIn_append, if_pos hw]
        · rw [if_neg hw, if_neg (fun e => hw (hmem.mp e))]

theorem inv_foldl {hash : List UInt8 → Nat} {nb : Nat} (hnb : 0 < nb) (vs : List (List UInt8)) :
    ∀ (b : Builder) (st : List (List UInt8) × List Nat), Inv hash nb b st →
      st.1.length + vs.length ≤ 2 ^ 32 →
      Inv hash nb (vs.foldl (add hash) b) (vs.foldl refStep st) := by
  induction vs with
  | nil => intro b st h _; exact h
  | cons v vs ih =>
    intro b st h hl
    simp only [List.length_cons] at hl
    simp only [List.foldl_cons]
    apply ih _ _ (inv_add hnb h (by omega) v)
    have := refStep_length_le st v
    omega

theorem isVar_add (hash : List UInt8 → Nat) (b : Builder) (v : List UInt8) :
    (add hash b v).isVar = b.isVar := by
  unfold add; split <;> rfl

theorem isVar_foldl (hash : List UInt8 → Nat) (vs : List (List UInt8)) :
    ∀ b : Builder, (vs.foldl (add hash) b).isVar = b.isVar := by
  induction vs with
  | nil => intro b; rfl
  | cons v vs ih => intro b; rw [List.foldl_cons, ih, isVar_add]

/-- The buckets are irrelevant: for every hash function and every positive table size, the
builder's dictionary is the list of distinct values in order of first occurrence and the index
assigned to a value is its position in that list. -/
theorem build_spec (hash : List UInt8 → Nat) {nb : Nat} (hnb : 0 < nb) (isVar : Bool)
    (vals : List (List UInt8)) (hlen : vals.length ≤ 2 ^ 32) :
    (build hash nb isVar vals).entries = firstOccurrences vals ∧
    (build hash nb isVar vals).indices = vals.map (fun v => indexIn v (firstOccurrences vals)) ∧
    (build hash nb isVar vals).count = (firstOccurrences vals).length ∧
    (build hash nb isVar vals).isVar = isVar := by
  have h := inv_foldl hnb vals (init nb isVar) ([], []) (inv_init hash nb isVar) (by simpa using hlen)
  have hr := refBuild_spec vals
  unfold refBuild at hr
  refine ⟨?_, ?_, ?_, ?_⟩
  · unfold Builder.entries build; rw [h.entries, hr.1]
  · unfold Builder.indices build; rw [h.indices, hr.2]
  · unfold build; rw [h.count, hr.1]
  · unfold build; rw [isVar_foldl]; rfl

/-! ### bit width -/

theorem widthLoop_shift : ∀ (fuel c w : Nat), widthLoop fuel c w = w + widthLoop fuel c 0
  | 0, _, _ => rfl
  | fuel + 1, c, w => by
    simp only [widthLoop]
    by_cases hc : c > 0
    · rw [if_pos hc, if_pos hc, widthLoop_shift fuel (c / 2) (w + 1), widthLoop_shift fuel (c / 2) (0 + 1)]
      omega
    · rw [if_neg hc, if_neg hc]; rfl

theorem widthLoop_le_fuel : ∀ (fuel c : Nat), widthLoop fuel c 0 ≤ fuel
  | 0, _ => Nat.le_refl _
  | fuel + 1, c => by
    simp only [widthLoop]
    split
    · rw [widthLoop_shift]; have := widthLoop_le_fuel fuel (c / 2); omega
    · omega

theorem widthLoop_lt : ∀ (fuel c : Nat), c < 2 ^ fuel → c < 2 ^ widthLoop fuel c 0
  | 0, c, h => by simpa [widthLoop] using h
  | fuel + 1, c, h => by
    simp only [widthLoop]
    by_cases hc : c > 0
    · rw [if_pos hc, widthLoop_shift]
      have ih := widthLoop_lt fuel (c / 2) (by rw [Nat.pow_succ] at h; omega)
      rw [Nat.add_comm, Nat.pow_succ]
      omega
    · rw [if_neg hc]; have : c = 0 := by omega
      subst this; simp

theorem widthLoop_min : ∀ (fuel c : Nat), c < 2 ^ fuel → 0 < c → 2 ^ (widthLoop fuel c 0 - 1) ≤ c
  | 0, c, h, hc => by simp at h; omega
  | fuel + 1, c, h, hc => by
    simp only [widthLoop]
    rw [if_pos hc, widthLoop_shift]
    by_cases h2 : 0 < c / 2
    · have ih := widthLoop_min fuel (c / 2) (by rw [Nat.pow_succ] at h; omega) h2
      have hpos : 0 < widthLoop fuel (c / 2) 0 := by
        cases fuel with
        | zero => simp at h; omega
        | succ f => simp only [widthLoop, if_pos h2]; rw [widthLoop_shift]; omega
      have e : 0 + 1 + widthLoop fuel (c / 2) 0 - 1 = (widthLoop fuel (c / 2) 0 - 1) + 1 := by omega
      rw [e, Nat.pow_succ]
      omega
    · have hz : c / 2 = 0 := by omega
      rw [hz]
      have : widthLoop fuel 0 0 = 0 := by cases fuel <;> simp [widthLoop]
      rw [this]
      have e : (2 : Nat) ^ (0 + 1 + 0 - 1) = 1 := rfl
      omega

/-- The width written in front of the index stream: at least 1, at most 32, wide enough for
every index below `n`, and equal to the number of bits of `n - 1` (Spec) except that 0 becomes 1. -/
theorem bitWidth_spec (n : Nat) (h1 : 1 ≤ n) (h2 : n < 2 ^ 32) :
    1 ≤ bitWidthForCount n ∧ bitWidthForCount n ≤ 32 ∧ n ≤ 2 ^ bitWidthForCount n ∧
    bitWidthForCount n = max 1 (Spec.Dictionary.bitsFor n) := by
  have hmod : n % 2 ^ 32 = n := Nat.mod_eq_of_lt h2
  have hfuel := widthLoop_le_fuel 32 (n - 1)
  have hlt := widthLoop_lt 32 (n - 1) (by omega)
  unfold bitWidthForCount
  rw [hmod, if_neg (by omega)]
  by_cases hw : widthLoop 32 (n - 1) 0 > 0
  · rw [if_pos hw]
    refine ⟨hw, hfuel, by omega, ?_⟩
    have hc : 0 < n - 1 := by
      apply Nat.pos_of_ne_zero
      intro e; rw [e] at hw; simp [widthLoop] at hw
    have hmin := widthLoop_min 32 (n - 1) (by omega) hc
    have hne : n - 1 ≠ 0 := by omega
    have l1 : (n - 1).log2 < widthLoop 32 (n - 1) 0 := (Nat.log2_lt hne).mpr hlt
    have l2 : widthLoop 32 (n - 1) 0 - 1 ≤ (n - 1).log2 := (Nat.le_log2 hne).mpr hmin
    unfold Spec.Dictionary.bitsFor
    rw [if_neg (by omega)]
    omega
  · rw [if_neg hw]
    have hz : widthLoop 32 (n - 1) 0 = 0 := by omega
    rw [hz] at hlt
    have hn : n = 1 := by simp at hlt; omega
    subst hn
    refine ⟨Nat.le_refl _, by omega, by simp, ?_⟩
    simp [Spec.Dictionary.bitsFor]

/-! ### looking values up in the dictionary page -/

theorem flatten_length_of_all {sz : Nat} : ∀ (es : List (List UInt8)), (∀ e ∈ es, e.length = sz) →
    es.flatten.length = es.length * sz
  | [], _ => by simp
  | e :: es, h => by
    rw [List.flatten_cons, List.length_append, h e (by simp),
      flatten_length_of_all es (fun x hx => h x (by simp [hx])), List.length_cons, Nat.succ_mul]
    omega

theorem readAt_flatten {sz : Nat} : ∀ (es : List (List UInt8)), (∀ e ∈ es, e.length = sz) →
    ∀ (i : Nat) (v : List UInt8), es[i]? = some v → readAt es.flatten (i * sz) sz = some v
  | [], _, i, v, hv => by simp at hv
  | e :: es, h, 0, v, hv => by
    have he : e.length = sz := h e (by simp)
    simp only [List.getElem?_cons_zero, Option.some.injEq] at hv
    subst hv
    unfold readAt
    rw [if_pos (by rw [List.flatten_cons, List.length_append, he]; omega)]
    simp only [Nat.zero_mul, List.drop_zero, List.flatten_cons]
    rw [List.take_left' he]
  | e :: es, h, i + 1, v, hv => by
    have he : e.length = sz := h e (by simp)
    simp only [List.getElem?_cons_succ] at hv
    have ih := readAt_flatten es (fun x hx => h x (by simp [hx])) i v hv
    unfold readAt at ih ⊢
    have hidx : (i + 1) * sz = e.length + i * sz := by rw [Nat.succ_mul, he]; omega
    by_cases hc : i * sz + sz ≤ es.flatten.length
    · rw [if_pos hc] at ih
      rw [if_pos (by rw [List.flatten_cons, List.length_append, hidx]; omega), List.flatten_cons, hidx,
        List.drop_append, List.drop_eq_nil_of_le (Nat.le_add_right _ _), Nat.add_sub_cancel_left,
        List.nil_append]
      exact ih
    · rw [if_neg hc] at ih; cases ih

theorem lookupLoop_decode {sz : Nat} (es : List (List UInt8)) (hsz : ∀ e ∈ es, e.length = sz) :
    ∀ (idxs : List Nat) (vals : List (List UInt8)), Spec.Dictionary.decode es idxs = some vals →
      lookupLoop sz es.flatten (es.length : Int) idxs = .ok vals
  | [], vals, h => by
    simp only [Spec.Dictionary.decode, Option.some.injEq] at h
    subst h; rfl
  | i :: is, vals, h => by
    simp only [Spec.Dictionary.decode] at h
    cases hi : es[i]? with
    | none => rw [hi] at h; simp at h
    | some v =>
      cases hr : Spec.Dictionary.decode es is with
      | none => rw [hi, hr] at h; simp at h
      | some vs =>
        rw [hi, hr] at h
        simp only [Option.some.injEq] at h
        subst h
        have hlt : i < es.length := by
          apply Classical.byContradiction
          intro hn
          rw [List.getElem?_eq_none (by omega)] at hi
          cases hi
        rw [lookupLoop, if_neg (by omega), readAt_flatten es hsz i v hi, lookupLoop_decode es hsz is vs hr]

theorem decode_indexIn {α : Type} [DecidableEq α] (d : List α) : ∀ vs : List α, (∀ v ∈ vs, v ∈ d) →
    Spec.Dictionary.decode d (vs.map (fun v => indexIn v d)) = some vs
  | [], _ => rfl
  | v :: vs, h => by
    simp only [List.map_cons, Spec.Dictionary.decode]
    rw [getElem?_indexIn (h v (by simp)), decode_indexIn d vs (fun w hw => h w (by simp [hw]))]

/-! ### the repaired look-up loop stays inside the dictionary -/

theorem lookupLoop_no_oob (sz : Nat) (dict : List UInt8) (dictCount : Int)
    (hd : dictCount.toNat * sz ≤ dict.length) : ∀ (idxs : List Nat) (off : Nat),
    lookupLoop sz dict dictCount idxs ≠ .oob off
  | [], off => by simp [lookupLoop]
  | i :: is, off => by
    rw [lookupLoop]
    by_cases hc : (i : Int) ≥ dictCount
    · rw [if_pos hc]; simp
    · rw [if_neg hc]
      have hi : i + 1 ≤ dictCount.toNat := by omega
      have : i * sz + sz ≤ dict.length := by
        calc i * sz + sz = (i + 1) * sz := by rw [Nat.succ_mul]
          _ ≤ dictCount.toNat * sz := Nat.mul_le_mul_right sz hi
          _ ≤ dict.length := hd
      simp only [readAt, if_pos this]
      have ih := lookupLoop_no_oob sz dict dictCount hd is off
      cases hr : lookupLoop sz dict dictCount is with
      | ok vs => simp
      | error => simp
      | oob o => rw [hr] at ih; simp only [ne_eq, Res.oob.injEq] at ih ⊢; exact ih

/-! ### encode then decode, for any index codec that round-trips -/

theorem firstOccurrences_length_le {α : Type} [DecidableEq α] : ∀ vs : List α,
    (firstOccurrences vs).length ≤ vs.length
  | [] => Nat.le_refl _
  | v :: vs => by
    have := firstOccurrences_length_le vs
    have hf := List.length_filter_le (fun x => decide (x ≠ v)) (firstOccurrences vs)
    simp only [firstOccurrences, List.length_cons]
    omega

theorem firstOccurrences_map {α β : Type} [DecidableEq α] [DecidableEq β] (f : α → β)
    (hf : ∀ a b, f a = f b → a = b) : ∀ vs : List α,
    firstOccurrences (vs.map f) = (firstOccurrences vs).map f
  | [] => rfl
  | v :: vs => by
    simp only [List.map_cons, firstOccurrences, firstOccurrences_map f hf vs, List.filter_map]
    congr 2
    apply List.filter_congr
    intro x _
    simp only [Function.comp, ne_eq, decide_not, Bool.not_eq_eq_eq_not, Bool.not_not, decide_eq_decide]
    exact ⟨fun e => hf _ _ e, fun e => by rw [e]⟩

theorem dictBytes_fixed (b : Builder) (h : b.isVar = false) : b.dictBytes = b.entries.flatten := by
  unfold Builder.dictBytes record
  rw [h, List.flatMap_def]
  congr 1
  simp

/-- Feeding `vals` (all of `sz` bytes) to the builder and handing dictionary page, bit width byte
and encoded indices to the repaired decoder returns `vals`. -/
theorem decodeFixed_build (sz : Nat) (hash : List UInt8 → Nat) {nb : Nat} (hnb : 0 < nb)
    (idxEnc : Nat → List Nat → List UInt8) (idxDec : Nat → List UInt8 → Nat → Option (List Nat))
    (hcodec : ∀ w idxs, 1 ≤ w → w ≤ 32 → (∀ i ∈ idxs, i < 2 ^ w) →
      idxDec w (idxEnc w idxs) idxs.length = some idxs)
    (vals : List (List UInt8)) (hsz : ∀ v ∈ vals, v.length = sz) (hlen : vals.length < 2 ^ 31) :
    decodeFixed sz idxDec (finish idxEnc (build hash nb false vals)).dictPage
      ((build hash nb false vals).entries.length : Int)
      (finish idxEnc (build hash nb false vals)).indexStream (vals.length : Int) = .ok vals := by
  obtain ⟨he, hi, hc, hv⟩ := build_spec hash hnb false vals (by omega)
  by_cases hnil : vals = []
  · subst hnil; simp [decodeFixed, decodeWith]
  · have hpos : 0 < vals.length := List.length_pos_iff.mpr hnil
    have hesz : ∀ e ∈ (build hash nb false vals).entries, e.length = sz := by
      intro e hm; rw [he] at hm; exact hsz e (mem_firstOccurrences.mp hm)
    have hepos : 0 < (build hash nb false vals).entries.length := by
      rw [he]
      obtain ⟨v, hv⟩ := List.exists_mem_of_ne_nil vals hnil
      exact List.length_pos_of_mem (mem_firstOccurrences.mpr hv)
    have hele : (build hash nb false vals).entries.length ≤ vals.length := by
      rw [he]; exact firstOccurrences_length_le vals
    have hcnt : (build hash nb false vals).count = (build hash nb false vals).entries.length := by
      rw [hc, he]
    obtain ⟨hw1, hw32, hwn, _⟩ := bitWidth_spec (build hash nb false vals).count (by omega) (by omega)
    have hdec : Spec.Dictionary.decode (build hash nb false vals).entries
        (build hash nb false vals).indices = some vals := by
      rw [hi, he]
      exact decode_indexIn _ vals (fun v hv => mem_firstOccurrences.mpr hv)
    have hidx : ∀ i ∈ (build hash nb false vals).indices,
        i < 2 ^ bitWidthForCount (build hash nb false vals).count := by
      intro i hm
      rw [hi] at hm
      simp only [List.mem_map] at hm
      obtain ⟨v, hv, rfl⟩ := hm
      have := indexIn_lt_length (mem_firstOccurrences.mpr hv)
      rw [← hc] at this
      omega
    have hilen : (build hash nb false vals).indices.length = vals.length := by rw [hi]; simp
    have hcod := hcodec _ _ hw1 hw32 hidx
    rw [hilen] at hcod
    have hbw : (UInt8.ofNat (bitWidthForCount (build hash nb false vals).count)).toNat
        = bitWidthForCount (build hash nb false vals).count := by
      rw [UInt8.toNat_ofNat']; omega
    simp only [decodeFixed, decodeWith, finish, dictBytes_fixed _ hv, Int.toNat_natCast, hbw, hcod]
    rw [if_neg (by omega), if_neg (by omega),
      if_neg (by rw [flatten_length_of_all _ hesz]; omega), if_neg (by omega)]
    exact lookupLoop_decode _ hesz _ _ hdec

end Carquet.Proofs.Dictionary
