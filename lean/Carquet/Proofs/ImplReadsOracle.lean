import Carquet.Proofs.ImplReadsWhole
import Carquet.Impl.ReaderClaimClasses
/-
The oracle table (GZIP / ZSTD page bodies) of a file whose plans need no library is empty — so the
library contract `LibsDecode` holds of ANY libraries for it.
-/
namespace Carquet.Proofs.ImplReads
open Carquet.Spec Carquet.Spec.File Carquet.Spec.Thrift
open Carquet.Impl.Reader.Claim
open Carquet.Proofs.SpecFile (PageAdm DictAdm ChunkAdm writeDataPage_adm writeDictPage_adm writeChunk_adm layoutAdm_iff)

theorem oracleEntry_noLib (plan : CompPlan) (comp body : Bytes) (h : noLibPlan plan = true) : oracleEntry plan comp body = [] := by
  cases plan <;> simp_all [noLibPlan, oracleEntry]

theorem isNoComp_noLib {plan : CompPlan} (h : isNoComp plan = true) : noLibPlan plan = true := by
  cases plan <;> simp_all [noLibPlan, isNoComp]

theorem writeDataPages_oracle_nil (leaf : LeafInfo) (dict : Option (List Bytes)) :
    ∀ (pls : List PageLayout) (es : List Entry) (w : Written), (∀ pl ∈ pls, PageAdm pl ∧ noLibPlan pl.comp = true) →
      writeDataPages leaf dict pls es = some w → w.oracle = []
  | [], es, w, _, hw => by
    simp only [writeDataPages] at hw
    split at hw
    · cases hw; rfl
    · cases hw
  | pl :: r, es, w, hpl, hw => by
    simp only [writeDataPages] at hw
    split at hw
    · cases hw
    · cases h1 : writeDataPage leaf dict pl (es.take pl.count) with
      | none => simp [h1] at hw
      | some a =>
        cases h2 : writeDataPages leaf dict r (es.drop pl.count) with
        | none => simp [h1, h2] at hw
        | some b =>
          simp only [h1, h2, Option.some.injEq] at hw
          subst hw
          have ih := writeDataPages_oracle_nil leaf dict r (es.drop pl.count) b (fun p hp => hpl p (by simp [hp])) h2
          obtain ⟨repB, defB, valB, comp, _, _, _, _, _, horacle, _⟩ := writeDataPage_adm (hpl pl (by simp)).1 h1
          simp only [horacle, ih, oracleEntry_noLib _ _ _ (hpl pl (by simp)).2, List.append_nil]

theorem writeChunk_oracle_nil {leaf : LeafInfo} {cl : ChunkLayout} {es : Chunk} {pos : Nat} {c : ChunkOut}
    (hp : ChunkAdm cl) (hn : chunkNoLib cl = true) (hw : writeChunk leaf cl es pos = some c) : c.oracle = [] := by
  obtain ⟨dp, pages, hdp, hpages, _, _, _, _, _, horacle, _⟩ := writeChunk_adm hp hw
  unfold chunkNoLib at hn
  simp only [Bool.and_eq_true, List.all_eq_true] at hn
  have hpv := writeDataPages_oracle_nil leaf _ cl.pages es pages (fun pl hpl => ⟨hp.pages pl hpl, hn.1 pl hpl⟩) hpages
  rw [horacle, hpv, List.append_nil]
  cases hdict : cl.dict with
  | none =>
    rw [hdict] at hdp
    simp only [Option.some.injEq] at hdp
    subst hdp
    rfl
  | some d =>
    rw [hdict] at hdp hn
    obtain ⟨comp, _, _, hor, _⟩ := writeDictPage_adm (hp.dict d hdict) hdp
    rw [hor]
    exact oracleEntry_noLib _ _ _ hn.2

theorem writeChunks_oracle_nil : ∀ (leaves : List LeafInfo) (cls : List ChunkLayout) (ess : List Chunk) (pos : Nat)
    (g : GroupOut), (∀ cl ∈ cls, ChunkAdm cl ∧ chunkNoLib cl = true) → writeChunks leaves cls ess pos = some g → g.oracle = []
  | [], [], [], pos, g, _, hw => by
    simp only [writeChunks, Option.some.injEq] at hw
    subst hw
    rfl
  | leaf :: ls, cl :: cls, es :: ess, pos, g, hpl, hw => by
    simp only [writeChunks] at hw
    cases hc : writeChunk leaf cl es pos with
    | none => simp [hc] at hw
    | some c =>
      cases hr : writeChunks ls cls ess c.endPos with
      | none => simp [hc, hr] at hw
      | some g' =>
        simp only [hc, hr, Option.some.injEq] at hw
        subst hw
        have h1 := writeChunk_oracle_nil (hpl cl (by simp)).1 (hpl cl (by simp)).2 hc
        have h2 := writeChunks_oracle_nil ls cls ess c.endPos g' (fun x hx => hpl x (by simp [hx])) hr
        simp only [h1, h2, List.append_nil]
  | [], _ :: _, _, _, _, _, hw => by simp [writeChunks] at hw
  | [], [], _ :: _, _, _, _, hw => by simp [writeChunks] at hw
  | _ :: _, [], _, _, _, _, hw => by simp [writeChunks] at hw
  | _ :: _, _ :: _, [], _, _, _, hw => by simp [writeChunks] at hw

theorem writeGroups_oracle_nil (leaves : List LeafInfo) (extra : File.Fields) :
    ∀ (lay : List (List ChunkLayout)) (groups : List RowGroup) (pos : Nat) (G : GroupOut),
      (∀ g ∈ lay, ∀ cl ∈ g, ChunkAdm cl ∧ chunkNoLib cl = true) → writeGroups leaves extra lay groups pos = some G →
      G.oracle = []
  | [], [], pos, G, _, hw => by
    simp only [writeGroups, Option.some.injEq] at hw
    subst hw
    rfl
  | cls :: r, g :: gs, pos, G, hpl, hw => by
    simp only [writeGroups] at hw
    split at hw
    · cases hw
    · cases hwc : writeChunks leaves cls g.chunks pos with
      | none => simp [hwc] at hw
      | some o =>
        cases hr : writeGroups leaves extra r gs o.endPos with
        | none => simp [hwc, hr] at hw
        | some rest =>
          simp only [hwc, hr, Option.some.injEq] at hw
          subst hw
          have h1 := writeChunks_oracle_nil leaves cls g.chunks pos o (hpl cls (by simp)) hwc
          have h2 := writeGroups_oracle_nil leaves extra r gs o.endPos rest (fun x hx => hpl x (by simp [hx])) hr
          simp only [h1, h2, List.append_nil]
  | [], _ :: _, _, _, _, hw => by simp [writeGroups] at hw
  | _ :: _, [], _, _, _, hw => by simp [writeGroups] at hw

/-- **no library needed**: the oracle table of a file whose plans are UNCOMPRESSED / SNAPPY / LZ4 is empty -/
theorem writeFull_oracle_nil (t : File.Table) (l : Layout) (file : Bytes) (oracle : Oracle)
    (hadm : layoutAdm l = true) (hn : layoutNoLib l = true) (hw : writeFull t l = some (file, oracle)) : oracle = [] := by
  have hl := layoutAdm_iff hadm
  unfold layoutNoLib at hn
  simp only [List.all_eq_true] at hn
  unfold writeFull at hw
  cases hcols : columnsOf t.schema with
  | error e => simp [hcols] at hw
  | ok leaves =>
    simp only [hcols] at hw
    cases hg : writeGroups leaves l.rowGroupExtra l.rowGroups t.rowGroups 4 with
    | none => simp [hg] at hw
    | some G =>
      simp only [hg, Option.some.injEq, Prod.mk.injEq] at hw
      rw [← hw.2]
      exact writeGroups_oracle_nil leaves _ _ _ 4 G (fun g hg' cl hcl => ⟨hl.chunks g hg' cl hcl, hn g hg' cl hcl⟩) hg

theorem libsDecode_nil (L : Carquet.Impl.Reader.Libs) : LibsDecode L [] :=
  ⟨(fun e he => by cases he), (fun e he => by cases he)⟩

theorem layoutUncompressed_noLib {l : Layout} (h : layoutUncompressed l = true) : layoutNoLib l = true := by
  unfold layoutUncompressed at h
  unfold layoutNoLib
  simp only [List.all_eq_true] at h ⊢
  intro g hg cl hcl
  have := h g hg cl hcl
  unfold chunkUncompressed at this
  unfold chunkNoLib
  simp only [Bool.and_eq_true, List.all_eq_true] at this ⊢
  refine ⟨fun p hp => isNoComp_noLib (this.1 p hp), ?_⟩
  cases hd : cl.dict with
  | none => rfl
  | some d =>
    have h2 := this.2
    rw [hd] at h2
    exact isNoComp_noLib h2

/-! ### the fread claim implies the mapped one -/

theorem zipWith3_all_mono {α β γ : Type} (f g : α → β → γ → Bool) (h : ∀ a b c, f a b c = true → g a b c = true) :
    ∀ (as : List α) (bs : List β) (cs : List γ), (zipWith3 f as bs cs).all id = true → (zipWith3 g as bs cs).all id = true
  | [], _, _, _ => by simp [zipWith3]
  | _ :: _, [], _, _ => by simp [zipWith3]
  | _ :: _, _ :: _, [], _ => by simp [zipWith3]
  | a :: as, b :: bs, c :: cs, hall => by
    simp only [zipWith3, List.all_cons, Bool.and_eq_true, id] at hall ⊢
    exact ⟨h a b c hall.1, zipWith3_all_mono f g h as bs cs hall.2⟩

theorem zipWith_all_mono {α β : Type} (f g : α → β → Bool) (h : ∀ a b, f a b = true → g a b = true) :
    ∀ (as : List α) (bs : List β), (List.zipWith f as bs).all id = true → (List.zipWith g as bs).all id = true
  | [], _, _ => by simp
  | _ :: _, [], _ => by simp
  | a :: as, b :: bs, hall => by
    simp only [List.zipWith_cons_cons, List.all_cons, Bool.and_eq_true, id] at hall ⊢
    exact ⟨h a b hall.1, zipWith_all_mono f g h as bs hall.2⟩

theorem chunkClaimed_mono {leaf : LeafInfo} {cl : ChunkLayout} {es : Chunk} (h : chunkClaimed true leaf cl es = true) :
    chunkClaimed false leaf cl es = true := by
  unfold chunkClaimed at h ⊢
  simp only [Bool.and_eq_true, Bool.not_true, Bool.false_or, Bool.not_false, Bool.true_or, and_true] at h ⊢
  exact h.1

/-- a file inside the claimed set for the fread path is inside it for the mapped paths -/
theorem fileClaimed_mono {t : File.Table} {l : Layout} (h : fileClaimed true t l = true) : fileClaimed false t l = true := by
  unfold fileClaimed at h ⊢
  cases hc : columnsOf t.schema with
  | error e => rw [hc] at h; exact h
  | ok leaves =>
    rw [hc] at h
    simp only [Bool.and_eq_true] at h ⊢
    refine ⟨h.1, ?_⟩
    exact zipWith_all_mono _ _ (fun cls g hz => zipWith3_all_mono _ _ (fun a b c => chunkClaimed_mono) _ _ _ hz) _ _ h.2

theorem fileClaimed_any_mode {t : File.Table} {l : Layout} (h : fileClaimed true t l = true) (m : Carquet.Impl.Reader.Mode) :
    fileClaimed (decide (m = .fread)) t l = true := by
  cases m
  · exact h
  · exact fileClaimed_mono h
  · exact fileClaimed_mono h

/-! ### the library contract as a check on a concrete oracle table -/

def libsDecodeCheck (L : Carquet.Impl.Reader.Libs) (o : Oracle) : Bool :=
  o.all (fun e => (!isGzip e.1 || L.gzip.decompress e.1 e.2.length == some e.2) &&
    (!isZstd e.1 || L.zstd.decompress e.1 e.2.length == some e.2))

theorem libsDecode_of_check {L : Carquet.Impl.Reader.Libs} {o : Oracle} (h : libsDecodeCheck L o = true) : LibsDecode L o := by
  unfold libsDecodeCheck at h
  simp only [List.all_eq_true, Bool.and_eq_true, Bool.or_eq_true, Bool.not_eq_true', beq_iff_eq] at h
  refine ⟨?_, ?_⟩
  · intro e he hg
    rcases (h e he).1 with h1 | h1
    · rw [hg] at h1; cases h1
    · exact h1
  · intro e he hz
    rcases (h e he).2 with h1 | h1
    · rw [hz] at h1; cases h1
    · exact h1

end Carquet.Proofs.ImplReads
