import Carquet.Proofs.SpecWriterFile
/-
The size conditions of the whole-file stage (`RunSmall`: `footerOk`, footer below 4 GiB, every
page's body / stored body / row count below 2^31) follow from conditions on the schema and on the
WRITTEN FILE ITSELF: the file is shorter than 2 GiB, it has at most 32768 row groups, and every
column chunk's `num_values` and `total_uncompressed_size` (as written in the footer) are below 2^31.
-/
namespace Carquet.Proofs.SpecWriter
open Carquet.Impl Carquet.Impl.Writer Carquet.Impl.FileReal Carquet.Impl.ThriftParquet
open Carquet.Proofs.WriterTable Carquet.Proofs.WriterPages Carquet.Proofs.WriterLayout
open Carquet.Proofs.FileRealFooter

/-- the schema within the limits of the C structures and of the Thrift parser: fewer than 10000
columns, names that are C strings (NUL-free, shorter than 2^31), `type_length` an `int32_t` -/
structure SchemaSmall (cols : List Col) : Prop where
  count : cols.length < 10000
  names : ∀ c ∈ cols, isStr (FileReal.strBytes c.name) = true
  typeLens : ∀ c ∈ cols, c.typeLen < 2147483648
  /-- the parameters of a logical type are what `carquet_logical_type_t` can hold: `int32_t` scale and
  precision, `int8_t` bit_width -/
  logicals : ∀ c ∈ cols, ThriftParquet.okOpt ThriftParquet.LogicalType.wf c.logical = true

/-- the written file is small: shorter than 2 GiB, at most 32768 row groups (`ordinal` is an
`int16_t`), every column chunk with fewer than 2^31 values and 2^31 uncompressed bytes (the numbers
the footer itself states) -/
structure OutputSmall (file : List UInt8) (md : FooterData) : Prop where
  fileLen : file.length < 2147483648
  groups : md.rowGroups.length ≤ 32768
  chunks : ∀ g ∈ md.rowGroups, ∀ ch ∈ g.chunks, ch.numValues < 2147483648 ∧ ch.totalUncompressed < 2147483648

/-! ### list plumbing -/

theorem le_sum_of_mem : ∀ (l : List Nat) (x : Nat), x ∈ l → x ≤ l.sum
  | [], _, h => by simp at h
  | a :: r, x, h => by
    rcases List.mem_cons.mp h with rfl | h'
    · simp
    · have := le_sum_of_mem r x h'; simp only [List.sum_cons]; omega

theorem sum_le_of_forall_lt : ∀ (l : List Nat) (B : Nat), (∀ x ∈ l, x < B) → l.sum ≤ l.length * B
  | [], _, _ => by simp
  | a :: r, B, h => by
    have := sum_le_of_forall_lt r B (fun x hx => h x (by simp [hx]))
    have ha := h a (by simp)
    simp only [List.sum_cons, List.length_cons, Nat.add_mul]
    omega

theorem length_le_flatten_of_mem {α : Type} : ∀ (L : List (List α)) (l : List α), l ∈ L → l.length ≤ L.flatten.length
  | [], _, h => by simp at h
  | a :: r, l, h => by
    rcases List.mem_cons.mp h with rfl | h'
    · simp
    · have := length_le_flatten_of_mem r l h'; simp only [List.flatten_cons, List.length_append]; omega

theorem exists_index_of_mem {α : Type} : ∀ (l : List α) (x : α), x ∈ l → ∃ i, i < l.length ∧ l[i]? = some x
  | [], _, h => by simp at h
  | a :: r, x, h => by
    rcases List.mem_cons.mp h with rfl | h'
    · exact ⟨0, by simp, by simp⟩
    · obtain ⟨i, hi, hx⟩ := exists_index_of_mem r x h'
      exact ⟨i + 1, by simp; omega, by simpa using hx⟩

/-! ### per chunk -/

theorem chunksFor_mem (codec : Nat) : ∀ (cols : List Col) (ms : List ChunkMeta), ChunksFor codec cols ms →
    ms.length = cols.length ∧ ∀ m ∈ ms, ∃ c ∈ cols, m.ptype = c.ptype ∧ m.path = c.name ∧ m.codec = codec
  | [], [], _ => ⟨rfl, fun m hm => by simp at hm⟩
  | c :: cs, m :: ms, h => by
    obtain ⟨i1, i2⟩ := chunksFor_mem codec cs ms h.2
    refine ⟨by simp [i1], ?_⟩
    intro x hx
    rcases List.mem_cons.mp hx with rfl | hx'
    · exact ⟨c, by simp, h.1⟩
    · obtain ⟨c', hc', hh⟩ := i2 x hx'
      exact ⟨c', by simp [hc'], hh⟩
  | [], _ :: _, h => by simp [ChunksFor] at h
  | _ :: _, [], h => by simp [ChunksFor] at h

theorem sumRows_eq_rows_of (D : Deps) (codec : Nat) (c : Col) : ∀ (ps : List PageRec), PagesOf D codec c ps →
    sumRows ps = (pagesData ps).rows
  | [], _ => rfl
  | r :: ps, h => by
    have ih := sumRows_eq_rows_of D codec c ps (fun x hx => h x (by simp [hx]))
    have hr : r.rows = r.src.numValues := by
      have := congrArg PageRec.rows (h r (by simp)); simpa [pageRecOf] using this
    simp only [sumRows, pagesData, List.map_cons, List.sum_cons] at ih ⊢
    rw [ih, hr]

/-- the pages of a chunk are small when the chunk's own totals are -/
theorem pageSmall_of_chunk (D : Deps) (codec : Nat) (m : ChunkMeta) (ps : List PageRec) (h : ChunkPages D codec m ps)
    (h1 : m.numValues < 2147483648) (h2 : m.totalUncompressed < 2147483648) (h3 : m.totalCompressed < 2147483648) :
    ∀ r ∈ ps, PageSmall r := by
  intro r hr
  obtain ⟨a1, a2, a3, _, _⟩ := h
  refine ⟨?_, ?_, ?_⟩
  · have := le_sum_of_mem (ps.map (PageRec.usize D)) (r.usize D) (List.mem_map.mpr ⟨r, hr, rfl⟩)
    have hb : r.body.length ≤ r.usize D := by unfold PageRec.usize; omega
    simp only [sumUsize] at a3; omega
  · have := length_le_flatten_of_mem (ps.map (PageRec.bytes D)) (r.bytes D) (List.mem_map.mpr ⟨r, hr, rfl⟩)
    simp only [pagesBytes] at a2
    have hb : r.comp.length ≤ (r.bytes D).length := by simp [PageRec.bytes]
    omega
  · have := le_sum_of_mem (ps.map (·.rows)) r.rows (List.mem_map.mpr ⟨r, hr, rfl⟩)
    simp only [sumRows] at a1; omega

/-! ### layout: everything lies inside the data region -/

theorem chunksAt_bounds : ∀ (ms : List ChunkMeta) (start : Nat), ChunksAt ms start →
    ∀ m ∈ ms, start ≤ m.fileOffset ∧ m.fileOffset + m.totalCompressed ≤ start + chunksSize ms
  | [], _, _ => fun m hm => by simp at hm
  | a :: r, start, h => by
    intro m hm
    have ih := chunksAt_bounds r (start + a.totalCompressed) h.2
    rcases List.mem_cons.mp hm with rfl | hm'
    · simp only [chunksSize, List.map_cons, List.sum_cons]
      have := h.1; omega
    · have := ih m hm'
      simp only [chunksSize, List.map_cons, List.sum_cons] at this ⊢
      omega

theorem groupsAt_bounds : ∀ (gs : List RgMeta) (start : Nat), GroupsAt gs start →
    ∀ g ∈ gs, start ≤ g.fileOffset ∧ g.fileOffset + g.totalCompressed ≤ start + groupsSize gs ∧
      g.totalByteSize = chunksUncompressed g.chunks ∧
      ∀ m ∈ g.chunks, start ≤ m.fileOffset ∧ m.fileOffset + m.totalCompressed ≤ start + groupsSize gs
  | [], _, _ => fun g hg => by simp at hg
  | a :: r, start, h => by
    intro g hg
    obtain ⟨h1, h2, h3, h4, h5⟩ := h
    have ih := groupsAt_bounds r (start + a.totalCompressed) h5
    rcases List.mem_cons.mp hg with rfl | hg'
    · simp only [groupsSize, List.map_cons, List.sum_cons]
      refine ⟨by omega, by omega, h4, ?_⟩
      intro m hm
      have := chunksAt_bounds g.chunks start h2 m hm
      omega
    · obtain ⟨b1, b2, b3, b4⟩ := ih g hg'
      simp only [groupsSize, List.map_cons, List.sum_cons] at b2 b4 ⊢
      refine ⟨by omega, by omega, b3, ?_⟩
      intro m hm
      have := b4 m hm
      omega

theorem chunksSize_groupBytes (D : Deps) (codec : Nat) : ∀ (ms : List ChunkMeta) (pss : List (List PageRec)),
    AllChunks D codec ms pss → chunksSize ms = (groupBytes D pss).length
  | [], [], _ => by simp [chunksSize, groupBytes]
  | m :: ms, ps :: pss, h => by
    have ih := chunksSize_groupBytes D codec ms pss h.2
    have := h.1.2.1
    simp only [chunksSize, List.map_cons, List.sum_cons, groupBytes, List.flatten_cons, List.length_append] at ih ⊢
    omega
  | [], _ :: _, h => by simp [AllChunks] at h
  | _ :: _, [], h => by simp [AllChunks] at h

theorem groupsSize_dataBytes (D : Deps) (codec : Nat) : ∀ (gms : List RgMeta) (gs : List (List (List PageRec))) (start : Nat),
    AllGroups D codec gms gs → GroupsAt gms start → groupsSize gms = (dataBytes D gs).length
  | [], [], _, _, _ => by simp [groupsSize, dataBytes]
  | gm :: gms, g :: gs, start, h, hat => by
    obtain ⟨_, _, a3, _, a5⟩ := hat
    have ih := groupsSize_dataBytes D codec gms gs _ h.2 a5
    have := chunksSize_groupBytes D codec gm.chunks g h.1
    simp only [groupsSize, List.map_cons, List.sum_cons, dataBytes, List.flatten_cons, List.length_append] at ih ⊢
    omega
  | [], _ :: _, _, h, _ => by simp [AllGroups] at h
  | _ :: _, [], _, h, _ => by simp [AllGroups] at h

/-! ### zipped lists -/

theorem allChunks_zip (D : Deps) (codec : Nat) : ∀ (ms : List ChunkMeta) (pss : List (List PageRec)),
    AllChunks D codec ms pss → ∀ ps ∈ pss, ∃ m ∈ ms, ChunkPages D codec m ps
  | [], [], _ => fun ps hps => by simp at hps
  | m :: ms, p :: pss, h => by
    intro ps hps
    rcases List.mem_cons.mp hps with rfl | hps'
    · exact ⟨m, by simp, h.1⟩
    · obtain ⟨m', hm', hh⟩ := allChunks_zip D codec ms pss h.2 ps hps'
      exact ⟨m', by simp [hm'], hh⟩
  | [], _ :: _, h => by simp [AllChunks] at h
  | _ :: _, [], h => by simp [AllChunks] at h

theorem allGroups_zip (D : Deps) (codec : Nat) (cols : List Col) : ∀ (gms : List RgMeta) (gs : List (List (List PageRec))),
    AllGroups D codec gms gs → RowsZip cols gms gs →
    (∀ gm ∈ gms, ∃ g ∈ gs, AllChunks D codec gm.chunks g ∧ gm.numRows = firstRecs cols (g.map pagesData)) ∧
    (∀ g ∈ gs, ∃ gm ∈ gms, AllChunks D codec gm.chunks g)
  | [], [], _, _ => ⟨fun gm h => by simp at h, fun g h => by simp at h⟩
  | gm :: gms, g :: gs, h, hz => by
    obtain ⟨i1, i2⟩ := allGroups_zip D codec cols gms gs h.2 hz.2
    refine ⟨?_, ?_⟩
    · intro x hx
      rcases List.mem_cons.mp hx with rfl | hx'
      · exact ⟨g, by simp, h.1, hz.1⟩
      · obtain ⟨g', hg', hh⟩ := i1 x hx'
        exact ⟨g', by simp [hg'], hh⟩
    · intro x hx
      rcases List.mem_cons.mp hx with rfl | hx'
      · exact ⟨gm, by simp, h.1⟩
      · obtain ⟨gm', hg', hh⟩ := i2 x hx'
        exact ⟨gm', by simp [hg'], hh⟩
  | [], _ :: _, h, _ => by simp [AllGroups] at h
  | _ :: _, [], h, _ => by simp [AllGroups] at h

/-- `num_rows` of a row group is the `num_values` of its first chunk (0 without columns) -/
theorem firstRows_eq (D : Deps) (codec : Nat) (cols : List Col) (ms : List ChunkMeta) (p : List (List PageRec))
    (hall : AllChunks D codec ms p) (hof : GroupOf D codec cols p) :
    firstRows p = (ms.map (·.numValues)).headD 0 := by
  cases p with
  | nil =>
    cases ms with
    | nil => rfl
    | cons m ms => simp [AllChunks] at hall
  | cons ps pss =>
    cases ms with
    | nil => simp [AllChunks] at hall
    | cons m ms =>
      cases cols with
      | nil => simp [GroupOf] at hof
      | cons c cs =>
        have := sumRows_eq_rows_of D codec c ps hof.1
        simp [firstRows, ← this, hall.1.1]

/-- the rows of a column's pages are at most its level entries -/
theorem recs_le_rows (c : Col) : ∀ (ps : List PageRec), (∀ r ∈ ps, PageGood c r.src) →
    (pagesData ps).recs c.maxRep ≤ (pagesData ps).rows := by
  intro ps h
  unfold ColData.recs
  by_cases h0 : c.maxRep = 0
  · simp [h0]
  · simp only [h0, if_false]
    refine Nat.le_trans (List.length_filter_le _ _) ?_
    induction ps with
    | nil => simp [pagesData]
    | cons r ps ih =>
      have hl := (h r (by simp)).repsLen (by omega)
      have := ih (fun x hx => h x (by simp [hx]))
      simp only [pagesData, List.map_cons, List.flatten_cons, List.length_append, List.sum_cons] at this ⊢
      omega

/-- `num_rows` of a row group is at most the `num_values` of its first chunk (0 without columns) -/
theorem firstRecs_le (o : FileReal.Oracle) (codec : Nat) (cols : List Col) (ms : List ChunkMeta) (p : List (List PageRec))
    (hall : AllChunks (deps o) codec ms p) (hof : GroupOf (deps o) codec cols p) (hg : GroupP (goodPred o) cols p) :
    firstRecs cols (p.map pagesData) ≤ (ms.map (·.numValues)).headD 0 := by
  rw [← firstRows_eq (deps o) codec cols ms p hall hof]
  cases p with
  | nil => simp [firstRecs, firstRows]
  | cons ps pss =>
    cases cols with
    | nil => simp [GroupOf] at hof
    | cons c cs =>
      simp only [firstRecs, firstRows, List.map_cons, List.zipWith_cons_cons, List.headD_cons]
      exact recs_le_rows c ps hg.1

/-! ### the size conditions of the whole-file stage -/

theorem isStr_carquet : isStr (FileReal.strBytes "Carquet") = true := by decide +kernel

/-- **`RunSmall` from conditions on the schema and on the written file itself** -/
theorem runSmall_of_output (o : FileReal.Oracle) (codec : Nat)
    (hcodec : codec = 0 ∨ codec = 1 ∨ codec = 5 ∨ codec = 7) (cols : List Col) (ops : List Op)
    (file : List UInt8) (md : FooterData) (gs : List (List (List PageRec)))
    (hf : RunFacts (deps o) (goodPred o) cols codec "Carquet" ops file md gs)
    (hs : SchemaSmall cols) (ho : OutputSmall file md) : RunSmall md gs := by
  have hflen : file.length = 4 + (dataBytes (deps o) gs).length + (FileReal.footer md).length + 4 + 4 := by
    have hfo : (deps o).footer md = FileReal.footer md := rfl
    rw [hf.file_eq, hfo]
    simp only [List.length_append, magic, le32, List.length_cons, List.length_nil]
  have hgsize := groupsSize_dataBytes (deps o) codec md.rowGroups gs 4 hf.allGroups hf.groupsAt
  have hbounds := groupsAt_bounds md.rowGroups 4 hf.groupsAt
  obtain ⟨z1, z2⟩ := allGroups_zip (deps o) codec cols md.rowGroups gs hf.allGroups hf.rowsZip
  have hfl := ho.fileLen
  -- every chunk's compressed size is below the file length
  have hcomp : ∀ gm ∈ md.rowGroups, ∀ m ∈ gm.chunks, m.fileOffset < 2147483648 ∧ m.totalCompressed < 2147483648 := by
    intro gm hgm m hm
    have := (hbounds gm hgm).2.2.2 m hm
    omega
  refine ⟨?_, by omega, ?_⟩
  · -- footerOk
    simp only [footerOk, Bool.and_eq_true, decide_eq_true_eq, List.all_eq_true]
    refine ⟨⟨⟨⟨⟨?_, ?_⟩, ?_⟩, ?_⟩, ?_⟩, ?_⟩
    · rw [hf.cols_eq]; exact hs.count
    · intro c hc
      rw [hf.cols_eq] at hc
      exact ⟨⟨hs.names c hc, hs.typeLens c hc⟩, hs.logicals c hc⟩
    · rw [hf.createdBy_eq]; exact isStr_carquet
    · -- num_rows of the file
      rw [hf.numRows_eq]
      have hlt : ∀ x ∈ md.rowGroups.map (·.numRows), x < 2147483648 := by
        intro x hx
        obtain ⟨gm, hgm, rfl⟩ := List.mem_map.mp hx
        obtain ⟨g, hg, hall, hnr⟩ := z1 gm hgm
        rw [hnr]
        refine Nat.lt_of_le_of_lt (firstRecs_le o codec cols gm.chunks g hall (hf.groupOf g hg) (hf.groupP g hg)) ?_
        cases hc : gm.chunks with
        | nil => simp
        | cons m ms =>
          simp only [List.map_cons, List.headD_cons]
          exact (ho.chunks gm hgm m (by rw [hc]; simp)).1
      have := sum_le_of_forall_lt _ _ hlt
      have hg := ho.groups
      simp only [List.length_map] at this
      have : md.rowGroups.length * 2147483648 ≤ 32768 * 2147483648 := Nat.mul_le_mul_right _ hg
      omega
    · -- every row group
      intro gm hgm
      obtain ⟨g, hg, hall, hnr⟩ := z1 gm hgm
      obtain ⟨b1, b2, b3, b4⟩ := hbounds gm hgm
      obtain ⟨hlen, hcf⟩ := chunksFor_mem codec cols gm.chunks (hf.chunksFor gm hgm)
      simp only [groupOk, Bool.and_eq_true, decide_eq_true_eq, List.all_eq_true]
      refine ⟨⟨⟨⟨⟨⟨?_, ?_⟩, ?_⟩, ?_⟩, ?_⟩, ?_⟩, ?_⟩
      · intro m hm
        obtain ⟨c, hc, _, hpath, hcod⟩ := hcf m hm
        obtain ⟨c1, c2⟩ := hcomp gm hgm m hm
        obtain ⟨c3, c4⟩ := ho.chunks gm hgm m hm
        simp only [chunkOk, Bool.and_eq_true, decide_eq_true_eq]
        refine ⟨⟨⟨⟨⟨by omega, by omega⟩, by omega⟩, by omega⟩, ?_⟩, ?_⟩
        · rw [hcod]; rcases hcodec with h | h | h | h <;> omega
        · rw [hpath]; exact hs.names c hc
      · rw [hlen]; have := hs.count; omega
      · -- total_byte_size = Σ total_uncompressed_size of fewer than 10000 chunks, each below 2^31
        have hlt : ∀ x ∈ gm.chunks.map (·.totalUncompressed), x < 2147483648 := by
          intro x hx
          obtain ⟨m, hm, rfl⟩ := List.mem_map.mp hx
          exact (ho.chunks gm hgm m hm).2
        have hsum := sum_le_of_forall_lt _ _ hlt
        simp only [List.length_map] at hsum
        have hcnt := hs.count
        have : gm.chunks.length * 2147483648 ≤ 10000 * 2147483648 :=
          Nat.mul_le_mul_right _ (by rw [hlen]; omega)
        rw [b3]; unfold chunksUncompressed; omega
      · rw [hnr]
        have hle := firstRecs_le o codec cols gm.chunks g hall (hf.groupOf g hg) (hf.groupP g hg)
        cases hc : gm.chunks with
        | nil => simp [hc] at hle; omega
        | cons m ms =>
          simp only [hc, List.map_cons, List.headD_cons] at hle
          have := (ho.chunks gm hgm m (by rw [hc]; simp)).1
          omega
      · omega
      · omega
      · obtain ⟨i, hi, hx⟩ := exists_index_of_mem md.rowGroups gm hgm
        rw [hf.ordinals i gm hx]
        have := ho.groups
        omega
    · have := ho.groups; omega
  · -- the pages
    intro g hg ps hps r hr
    obtain ⟨gm, hgm, hall⟩ := z2 g hg
    obtain ⟨m, hm, hcp⟩ := allChunks_zip (deps o) codec gm.chunks g hall ps hps
    obtain ⟨c3, c4⟩ := ho.chunks gm hgm m hm
    exact pageSmall_of_chunk (deps o) codec m ps hcp c3 c4 (hcomp gm hgm m hm).2 r hr

end Carquet.Proofs.SpecWriter
