import Carquet.Spec.BitPack
import Carquet.Proofs.BitpackImpl
/-
The bit-string definitions of Spec/BitPack.lean in integer form, their round trip, and the
equality of carquet's byte loops (Impl/Bitpack.lean) with them.
-/
namespace Carquet.Proofs.BitPackSpec
open Carquet.Spec.BitPack Carquet.Proofs.NatBits Carquet.Proofs.BitpackImpl
open Carquet.Impl.Bitpack (leNat leBytes)

theorem bitsOf_length (w v : Nat) : (bitsOf w v).length = w := by
  induction w generalizing v with
  | zero => rfl
  | succ w ih => simp [bitsOf, ih]

theorem natOfBits_bitsOf (w v : Nat) : natOfBits (bitsOf w v) = v % 2 ^ w := by
  induction w generalizing v with
  | zero => simp [bitsOf, natOfBits, Nat.mod_one]
  | succ w ih =>
    simp only [bitsOf, natOfBits, ih]
    rw [show w + 1 = 1 + w by omega, mod_pow_add]
    have h : (if (v % 2 == 1) = true then 1 else 0) = v % 2 := by
      have := Nat.mod_two_eq_zero_or_one v
      rcases this with h | h <;> simp [h]
    rw [h]

theorem natOfBits_append (a b : List Bool) :
    natOfBits (a ++ b) = natOfBits a + 2 ^ a.length * natOfBits b := by
  induction a with
  | nil => simp [natOfBits]
  | cons x a ih =>
    simp only [List.cons_append, natOfBits, ih, List.length_cons]
    rw [Nat.pow_succ, Nat.mul_add]
    have : 2 * (2 ^ a.length * natOfBits b) = 2 ^ a.length * 2 * natOfBits b := by
      rw [Nat.mul_comm (2 ^ a.length) 2, Nat.mul_assoc]
    omega

theorem natOfBits_lt (bs : List Bool) : natOfBits bs < 2 ^ bs.length := by
  induction bs with
  | nil => simp [natOfBits]
  | cons b bs ih =>
    simp only [natOfBits, List.length_cons, Nat.pow_succ]
    split <;> omega

theorem natOfBits_take (bs : List Bool) (k : Nat) : natOfBits (bs.take k) = natOfBits bs % 2 ^ k := by
  induction k generalizing bs with
  | zero => simp [natOfBits, Nat.mod_one]
  | succ k ih =>
    cases bs with
    | nil => simp [natOfBits]
    | cons b bs =>
      simp only [List.take_succ_cons, natOfBits, ih]
      rw [show k + 1 = 1 + k by omega, mod_pow_add]
      have h1 : ((if b = true then 1 else 0) + 2 * natOfBits bs) % 2 ^ 1 = (if b = true then 1 else 0) := by
        split <;> omega
      have h2 : ((if b = true then 1 else 0) + 2 * natOfBits bs) / 2 ^ 1 = natOfBits bs := by
        split <;> omega
      rw [h1, h2]

theorem natOfBits_drop (bs : List Bool) (k : Nat) : natOfBits (bs.drop k) = natOfBits bs >>> k := by
  induction k generalizing bs with
  | zero => simp
  | succ k ih =>
    cases bs with
    | nil => simp [natOfBits]
    | cons b bs =>
      simp only [List.drop_succ_cons, ih, natOfBits]
      rw [show k + 1 = 1 + k by omega, ← shr_shr]
      congr 1
      rw [shr_eq]
      split <;> omega

theorem valueBits_length (w : Nat) (vals : List Nat) : (valueBits w vals).length = vals.length * w := by
  induction vals with
  | nil => simp [valueBits]
  | cons v vs ih =>
    simp only [valueBits, List.flatMap_cons, List.length_append, bitsOf_length, List.length_cons] at ih ⊢
    rw [ih, Nat.add_mul]; omega

theorem natOfBits_valueBits (w : Nat) (vals : List Nat) : natOfBits (valueBits w vals) = concat w vals := by
  induction vals with
  | nil => simp [valueBits, natOfBits, concat]
  | cons v vs ih =>
    simp only [valueBits, List.flatMap_cons] at ih ⊢
    rw [natOfBits_append, natOfBits_bitsOf, bitsOf_length, ih, concat]

theorem bytesOfBitsN_eq (n : Nat) (bits : List Bool) :
    bytesOfBitsN n bits = leBytes n (natOfBits bits) := by
  induction n generalizing bits with
  | zero => rfl
  | succ n ih =>
    simp only [bytesOfBitsN, leBytes, ih, natOfBits_take, natOfBits_drop]
    rw [shr_eq]

/-- `Spec.BitPack.pack` in integer form -/
theorem pack_eq (w : Nat) (vals : List Nat) :
    pack w vals = leBytes ((vals.length * w + 7) / 8) (concat w vals) := by
  unfold pack bytesOfBits
  rw [bytesOfBitsN_eq, valueBits_length, natOfBits_valueBits]

theorem bitsOfBytes_length (bs : List UInt8) : (bitsOfBytes bs).length = 8 * bs.length := by
  induction bs with
  | nil => rfl
  | cons b bs ih =>
    simp only [bitsOfBytes, List.flatMap_cons, List.length_append, bitsOf_length, List.length_cons] at ih ⊢
    omega

theorem natOfBits_bitsOfBytes (bs : List UInt8) : natOfBits (bitsOfBytes bs) = leNat bs := by
  induction bs with
  | nil => rfl
  | cons b bs ih =>
    simp only [bitsOfBytes, List.flatMap_cons] at ih ⊢
    rw [natOfBits_append, natOfBits_bitsOf, bitsOf_length, ih, leNat]
    have := b.toNat_lt
    have h8 : (2:Nat) ^ 8 = 256 := by decide
    rw [h8, Nat.mod_eq_of_lt this]

theorem takeValues_eq (w n : Nat) (bits : List Bool) (h : n * w ≤ bits.length) :
    takeValues w n bits = some ((List.range n).map (nth w (natOfBits bits))) := by
  induction n generalizing bits with
  | zero => simp [takeValues]
  | succ n ih =>
    have hw : w ≤ bits.length := by
      rw [Nat.add_mul] at h; omega
    have hrest : n * w ≤ (bits.drop w).length := by
      rw [List.length_drop, Nat.add_mul] at *; omega
    simp only [takeValues, Nat.not_lt.mpr hw, if_false, ih (bits.drop w) hrest]
    rw [List.range_succ_eq_map, List.map_cons, List.map_map]
    congr 2
    · simp [natOfBits_take, nth]
    · apply List.map_congr_left
      intro i _
      simp only [Function.comp, nth, natOfBits_drop, shr_shr]
      rw [show w + w * i = w * (i + 1) by rw [Nat.mul_add]; omega]

/-- `Spec.BitPack.unpack` in integer form -/
theorem unpack_eq (w n : Nat) (bytes : List UInt8) (h : n * w ≤ 8 * bytes.length) :
    unpack w bytes n = some ((List.range n).map (nth w (leNat bytes))) := by
  unfold unpack
  rw [takeValues_eq w n _ (by rw [bitsOfBytes_length]; exact h), natOfBits_bitsOfBytes]

theorem unpack_none (w n : Nat) (bytes : List UInt8) (h : 8 * bytes.length < n * w) :
    unpack w bytes n = none := by
  unfold unpack
  have hb := bitsOfBytes_length bytes
  generalize bitsOfBytes bytes = bits at hb
  rw [← hb] at h
  clear hb
  induction n generalizing bits with
  | zero => simp at h
  | succ n ih =>
    simp only [takeValues]
    split
    · rfl
    · rename_i hlt
      rw [ih (bits.drop w)]
      rw [List.length_drop, Nat.add_mul] at *; omega

/-- Spec round trip: values below `2^w` survive `pack` then `unpack`. -/
theorem unpack_pack (w : Nat) (vals : List Nat) (hv : ∀ v ∈ vals, v < 2 ^ w) :
    unpack w (pack w vals) vals.length = some vals := by
  rw [unpack_eq, pack_eq, leNat_leBytes]
  · congr 1
    apply List.ext_getElem
    · simp
    · intro i h1 h2
      simp only [List.getElem_map, List.getElem_range]
      have hi : i < vals.length := by simpa using h1
      rw [nth_mod, nth_concat w vals i hi, Nat.mod_eq_of_lt (hv _ (List.getElem_mem hi))]
      have : w * i + w ≤ w * vals.length := by
        rw [show w * i + w = w * (i + 1) by rw [Nat.mul_add]; omega]
        exact Nat.mul_le_mul_left w hi
      rw [Nat.mul_comm vals.length w]
      omega
  · rw [pack_eq, leBytes_length]; omega

/-! ### carquet's loops equal the Spec -/

/-- `carquet_bitpack8_32` writes the Spec packing of its eight values. -/
theorem impl_pack8_eq_spec {w : Nat} (hw : w ≤ 32) (vals : List Nat) (hlen : vals.length = 8) :
    Carquet.Impl.Bitpack.pack8 w vals = pack w vals := by
  rw [pack8_eq hw vals hlen, pack_eq, hlen]
  congr 1; omega

/-- `carquet_bitunpack8_32` reads the Spec unpacking of the first `w` bytes. -/
theorem impl_unpack8_eq_spec {w : Nat} (hw : w ≤ 32) (inp : List UInt8) (hlen : w ≤ inp.length) :
    some (Carquet.Impl.Bitpack.unpack8 w inp) = unpack w (inp.take w) 8 := by
  rw [unpack8_eq hw, unpack_eq]
  rw [List.length_take, Nat.min_eq_left hlen]; omega

end Carquet.Proofs.BitPackSpec
