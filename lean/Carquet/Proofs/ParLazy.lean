import Carquet.Proofs.Par
/-
C07, lazy initialisation: the invariant "every written cell is acceptable, a set flag means the
table is complete" holds in every state reachable by ANY schedule in which every worker follows the
initialiser discipline, and every snapshot a reader logs satisfies it too.
-/
namespace Carquet.Proofs.Par
open Carquet.Impl.Par

theorem runSP_singleton (p : Prim) (sh : Shared) (pr : Priv) :
    runSP [p] sh pr = stepPrim p sh pr := by
  simp [runSP]

theorem proj_flat (w : Worker) (s : List (Worker × Action)) :
    proj w (flat s) = (proj w s).flatMap Action.prims := by
  induction s with
  | nil => rfl
  | cons e s ih =>
    cases e with
    | mk w0 a =>
      by_cases h : w0 = w
      · subst h
        have : proj w0 (solo w0 a.prims) = a.prims := proj_solo_self w0 a.prims
        simp only [solo] at this
        simp [flat, proj_append, proj_cons_self, ih, this]
      · have : proj w (solo w0 a.prims) = [] := proj_solo_other w w0 a.prims h
        simp only [solo] at this
        simp [flat, proj_append, proj_cons_other _ _ _ _ h, ih, this]

theorem initDiscipline_prefix {n : Nat} {good : Nat → Nat → Prop} {l1 l2 : List Prim}
    (h : InitDiscipline n good (l1 ++ l2)) : InitDiscipline n good l1 := by
  refine ⟨fun i v hm => h.1 i v (List.mem_append_left _ hm), ?_⟩
  intro pre post e i hi
  exact h.2 pre (post ++ l2) (by simp [e]) i hi

/-- invariant carried along a primitive-level history `h` -/
structure LazyInv (n : Nat) (good : Nat → Nat → Prop) (h : List (Worker × Prim)) (st : State) : Prop where
  table : TableOK n good st.sh.flag st.sh.table
  own : ∀ w i v, Prim.initCell i v ∈ proj w h → ∃ v', st.sh.table[i]? = some (some v')
  obs : ∀ w, ∀ o ∈ st.pr w, ObsOK n good o

theorem lazyInv_step {n : Nat} {good : Nat → Nat → Prop} {h : List (Worker × Prim)} {st : State}
    (inv : LazyInv n good h st) (w0 : Worker) (p : Prim)
    (hd : InitDiscipline n good (proj w0 h ++ [p])) :
    LazyInv n good (h ++ [(w0, p)]) (st.run w0 [p]) := by
  have hproj : ∀ w, proj w (h ++ [(w0, p)]) = if w0 = w then proj w h ++ [p] else proj w h := by
    intro w
    by_cases e : w0 = w
    · subst e; simp [proj_append, proj_cons_self]
    · simp [proj_append, proj_cons_other _ _ _ _ e, e]
  have hobs_keep : ∀ (q : Priv), (∀ o ∈ q, ObsOK n good o) → ∀ w, ∀ o ∈ setPriv st.pr w0 q w, ObsOK n good o := by
    intro q hq w o ho
    by_cases e : w = w0
    · subst e; rw [setPriv_self] at ho; exact hq o ho
    · rw [setPriv_other _ _ _ _ e] at ho; exact inv.obs w o ho
  obtain ⟨hlen, hgood, hfull⟩ := inv.table
  cases p with
  | seek f o =>
    refine ⟨?_, ?_, ?_⟩
    · simpa [State.run, runSP_singleton, stepPrim] using inv.table
    · intro w i v hm
      rw [hproj] at hm
      have : Prim.initCell i v ∈ proj w h := by
        by_cases e : w0 = w <;> simp [e] at hm <;> exact hm
      simpa [State.run, runSP_singleton, stepPrim] using inv.own w i v this
    · simp only [State.run, runSP_singleton, stepPrim]
      exact hobs_keep _ (inv.obs w0)
  | read f k =>
    refine ⟨?_, ?_, ?_⟩
    · simpa [State.run, runSP_singleton, stepPrim] using inv.table
    · intro w i v hm
      rw [hproj] at hm
      have : Prim.initCell i v ∈ proj w h := by
        by_cases e : w0 = w <;> simp [e] at hm <;> exact hm
      simpa [State.run, runSP_singleton, stepPrim] using inv.own w i v this
    · simp only [State.run, runSP_singleton, stepPrim]
      apply hobs_keep
      intro o ho
      rcases List.mem_append.1 ho with ho | ho
      · exact inv.obs w0 o ho
      · simp at ho; subst ho; trivial
  | load o k =>
    refine ⟨?_, ?_, ?_⟩
    · simpa [State.run, runSP_singleton, stepPrim] using inv.table
    · intro w i v hm
      rw [hproj] at hm
      have : Prim.initCell i v ∈ proj w h := by
        by_cases e : w0 = w <;> simp [e] at hm <;> exact hm
      simpa [State.run, runSP_singleton, stepPrim] using inv.own w i v this
    · simp only [State.run, runSP_singleton, stepPrim]
      apply hobs_keep
      intro o ho
      rcases List.mem_append.1 ho with ho | ho
      · exact inv.obs w0 o ho
      · simp at ho; subst ho; trivial
  | useTable =>
    refine ⟨?_, ?_, ?_⟩
    · simpa [State.run, runSP_singleton, stepPrim] using inv.table
    · intro w i v hm
      rw [hproj] at hm
      have : Prim.initCell i v ∈ proj w h := by
        by_cases e : w0 = w <;> simp [e] at hm <;> exact hm
      simpa [State.run, runSP_singleton, stepPrim] using inv.own w i v this
    · simp only [State.run, runSP_singleton, stepPrim]
      apply hobs_keep
      intro o ho
      rcases List.mem_append.1 ho with ho | ho
      · exact inv.obs w0 o ho
      · simp at ho; subst ho; exact inv.table
  | setFlag =>
    have hall : ∀ i, i < n → ∃ v, st.sh.table[i]? = some (some v) := by
      intro i hi
      obtain ⟨v, hv⟩ := hd.2 (proj w0 h) [] rfl i hi
      exact inv.own w0 i v hv
    refine ⟨?_, ?_, ?_⟩
    · simp only [State.run, runSP_singleton, stepPrim]
      exact ⟨hlen, hgood, fun _ => hall⟩
    · intro w i v hm
      rw [hproj] at hm
      have : Prim.initCell i v ∈ proj w h := by
        by_cases e : w0 = w <;> simp [e] at hm <;> exact hm
      simpa [State.run, runSP_singleton, stepPrim] using inv.own w i v this
    · simp only [State.run, runSP_singleton, stepPrim]
      exact hobs_keep _ (inv.obs w0)
  | initCell i v =>
    have hiv := hd.1 i v (by simp)
    have hset : ∀ j, (st.sh.table.set i (some v))[j]? = if i = j then some (some v) else st.sh.table[j]? := by
      intro j
      by_cases e : i = j
      · subst e; simp [List.getElem?_set_self (hlen ▸ hiv.1)]
      · simp [List.getElem?_set_ne e, e]
    refine ⟨?_, ?_, ?_⟩
    · simp only [State.run, runSP_singleton, stepPrim]
      refine ⟨by simpa using hlen, ?_, ?_⟩
      · intro j v' hj
        rw [hset] at hj
        by_cases e : i = j
        · subst e; simp at hj; subst hj; exact hiv.2
        · simp [e] at hj; exact hgood j v' hj
      · intro hf j hj
        rw [hset]
        by_cases e : i = j
        · exact ⟨v, by simp [e]⟩
        · simpa [e] using hfull hf j hj
    · intro w j v' hm
      rw [hproj] at hm
      simp only [State.run, runSP_singleton, stepPrim]
      rw [hset]
      by_cases e : i = j
      · exact ⟨v, by simp [e]⟩
      · have : Prim.initCell j v' ∈ proj w h := by
          by_cases e' : w0 = w
          · simp [e'] at hm
            rcases hm with hm | hm
            · exact hm
            · exact absurd hm.1.symm e
          · simpa [e'] using hm
        simpa [e] using inv.own w j v' this
    · simp only [State.run, runSP_singleton, stepPrim]
      exact hobs_keep _ (inv.obs w0)

theorem lazyInv_exec {n : Nat} {good : Nat → Nat → Prop} (s : List (Worker × Prim)) :
    ∀ (h : List (Worker × Prim)) (st : State), LazyInv n good h st →
      (∀ w, InitDiscipline n good (proj w (h ++ s))) →
      LazyInv n good (h ++ s) (execPrims s st) := by
  induction s with
  | nil => intro h st inv _; simpa [execPrims] using inv
  | cons e s ih =>
    intro h st inv hd
    cases e with
    | mk w0 p =>
      have e1 : h ++ (w0, p) :: s = (h ++ [(w0, p)]) ++ s := by simp
      rw [e1]
      simp only [execPrims]
      apply ih
      · apply lazyInv_step inv
        have := hd w0
        rw [e1, proj_append, proj_append, proj_cons_self] at this
        simp only [proj_nil] at this
        exact initDiscipline_prefix this
      · intro w; rw [← e1]; exact hd w

theorem lazyInv_init (file : List UInt8) (n : Nat) (good : Nat → Nat → Prop) :
    LazyInv n good [] (initState file n) := by
  refine ⟨⟨by simp [initState, emptyTable], ?_, ?_⟩, ?_, ?_⟩
  · intro i v hi
    simp [initState, emptyTable, List.getElem?_replicate] at hi
  · intro hf; simp [initState] at hf
  · intro w i v hm; simp at hm
  · intro w o ho; simp [initState] at ho

/-! ### the initialisers of the C code follow the discipline -/

theorem mem_cellsFrom (i0 : Nat) (vs : List Nat) (i v : Nat) (h : (i, v) ∈ cellsFrom i0 vs) :
    i0 ≤ i ∧ vs[i - i0]? = some v := by
  induction vs generalizing i0 with
  | nil => simp [cellsFrom] at h
  | cons x xs ih =>
    simp only [cellsFrom, List.mem_cons, Prod.mk.injEq] at h
    rcases h with ⟨rfl, rfl⟩ | h
    · simp
    · have := ih (i0 + 1) h
      have e : i - i0 = (i - (i0 + 1)) + 1 := by omega
      refine ⟨by omega, ?_⟩
      rw [e]; simpa using this.2

theorem cellsFrom_covers (i0 : Nat) (vs : List Nat) (j : Nat) (hj : j < vs.length) :
    ∃ v, (i0 + j, v) ∈ cellsFrom i0 vs := by
  induction vs generalizing i0 j with
  | nil => simp at hj
  | cons x xs ih =>
    cases j with
    | zero => exact ⟨x, by simp [cellsFrom]⟩
    | succ j =>
      obtain ⟨v, hv⟩ := ih (i0 + 1) j (by simpa using hj)
      refine ⟨v, ?_⟩
      simp only [cellsFrom, List.mem_cons, Prod.mk.injEq]
      right
      have e : i0 + (j + 1) = i0 + 1 + j := by omega
      rw [e]; exact hv

theorem initialiser_prims (writes : List (Nat × Nat)) :
    (initialiser writes).flatMap Action.prims =
      writes.map (fun iv => Prim.initCell iv.1 iv.2) ++ [Prim.setFlag] := by
  have hfm : ∀ (l : List (Nat × Nat)),
      l.flatMap (fun a => [Prim.initCell a.1 a.2]) = l.map (fun iv => Prim.initCell iv.1 iv.2) := by
    intro l; induction l with
    | nil => rfl
    | cons a l ih => simp [ih]
  simp [initialiser, List.flatMap_append, List.flatMap_map, Action.prims, hfm]

theorem initialiser_discipline (writes : List (Nat × Nat)) (n : Nat) (good : Nat → Nat → Prop)
    (hgood : ∀ iv ∈ writes, iv.1 < n ∧ good iv.1 iv.2)
    (hcover : ∀ i, i < n → ∃ v, (i, v) ∈ writes) (k : Nat) :
    InitDiscipline n good (((initialiser writes).take k).flatMap Action.prims) := by
  have hrest : (initialiser writes).flatMap Action.prims =
      ((initialiser writes).take k).flatMap Action.prims ++
      ((initialiser writes).drop k).flatMap Action.prims := by
    rw [← List.flatMap_append, List.take_append_drop]
  have hD : InitDiscipline n good ((initialiser writes).flatMap Action.prims) := by
    rw [initialiser_prims]
    refine ⟨?_, ?_⟩
    · intro i v hm
      simp only [List.mem_append, List.mem_map, List.mem_singleton, reduceCtorEq, or_false] at hm
      obtain ⟨iv, hiv, e⟩ := hm
      simp only [Prim.initCell.injEq] at e
      obtain ⟨rfl, rfl⟩ := e
      exact hgood iv hiv
    · intro pre post e i hi
      have hnot : Prim.setFlag ∉ writes.map (fun iv => Prim.initCell iv.1 iv.2) := by simp
      obtain ⟨v, hv⟩ := hcover i hi
      have hmem : Prim.initCell i v ∈ writes.map (fun iv => Prim.initCell iv.1 iv.2) :=
        List.mem_map.2 ⟨(i, v), hv, rfl⟩
      rcases List.append_eq_append_iff.1 e with ⟨a', h1, h2⟩ | ⟨c', h1, h2⟩
      · cases a' with
        | nil => exact ⟨v, by rw [h1]; simpa using hmem⟩
        | cons x xs =>
          simp only [List.cons_append, List.cons.injEq] at h2
          have := h2.2
          simp at this
      · cases c' with
        | nil => exact ⟨v, by simp only [List.append_nil] at h1; rw [← h1]; exact hmem⟩
        | cons x xs =>
          simp only [List.cons_append, List.cons.injEq] at h2
          have hx : x = Prim.setFlag := h2.1.symm
          exact absurd (by rw [h1]; simp [hx]) hnot
  rw [hrest] at hD
  exact initDiscipline_prefix hD

end Carquet.Proofs.Par
