import Carquet.Impl.Simd
import Carquet.Proofs.SimdBlocked
import Carquet.Proofs.SimdPrefix
import Carquet.Proofs.SimdBss
import Carquet.Proofs.SimdBools
import Carquet.Proofs.SimdLevels
/-
C15 helper lemmas: block lemma + blocked-loop theorem => kernel model = `Spec.Kernels`, per kernel.
-/
namespace Carquet.Proofs.SimdKernels
open Carquet Carquet.Impl.Simd
open Carquet.Proofs.SimdBlocked Carquet.Proofs.SimdPrefix Carquet.Proofs.SimdBss Carquet.Proofs.SimdBools
open Carquet.Proofs.SimdLevels

/-! ### prefix sums -/

theorem prefix_of_block {w : Nat} (W : Nat) (blk : BitVec w → List (BitVec w) → List (BitVec w) × BitVec w)
    (hblk : ∀ c b, b.length = W → blk c b = scalarScan psStep c b) (init : BitVec w) (vals : List (BitVec w)) :
    (blockedScan W blk psStep init vals).1 = Spec.Kernels.prefixSum init vals := by
  rw [blockedScan_eq W blk psStep hblk, prefixSum_eq_scan]

theorem sse_prefix_i32 (init : BitVec 32) (vals : List (BitVec 32)) :
    ssePrefixSumI32 init vals = Spec.Kernels.prefixSum init vals := prefix_of_block 4 _ sse_i32_block init vals
theorem sse_prefix_i64 (init : BitVec 64) (vals : List (BitVec 64)) :
    ssePrefixSumI64 init vals = Spec.Kernels.prefixSum init vals := prefix_of_block 2 _ sse_i64_block init vals
theorem avx2_prefix_i32 (init : BitVec 32) (vals : List (BitVec 32)) :
    avx2PrefixSumI32 init vals = Spec.Kernels.prefixSum init vals := prefix_of_block 8 _ avx2_i32_block init vals
theorem avx2_prefix_i64 (init : BitVec 64) (vals : List (BitVec 64)) :
    avx2PrefixSumI64 init vals = Spec.Kernels.prefixSum init vals := prefix_of_block 4 _ avx2_i64_block init vals
theorem avx512_prefix_i32 (init : BitVec 32) (vals : List (BitVec 32)) :
    avx512PrefixSumI32 init vals = Spec.Kernels.prefixSum init vals := prefix_of_block 16 _ avx512_i32_block init vals
theorem avx512_prefix_i64 (init : BitVec 64) (vals : List (BitVec 64)) :
    avx512PrefixSumI64 init vals = Spec.Kernels.prefixSum init vals := prefix_of_block 8 _ avx512_i64_block init vals

/-! ### byte-stream split -/

theorem streams_spec (vals : List (BitVec 32)) :
    streamsOf (bssEncScalar vals) = Spec.Kernels.bssEncode (k := 4) vals := by
  have r4 : List.range 4 = [0, 1, 2, 3] := by decide
  unfold streamsOf bssEncScalar Spec.Kernels.bssEncode
  rw [r4]
  simp [List.flatMap_cons, List.map_map, Function.comp_def]

theorem bss_enc (W : Nat) (hW : 0 < W) (blk : List (BitVec 32) → List T4)
    (hblk : ∀ b, b.length = W → blk b = bssEncScalar b) (vals : List (BitVec 32)) :
    streamsOf (blockedMap W blk bssEncScalar vals) = Spec.Kernels.bssEncode (k := 4) vals := by
  rw [blockedMap_eq W hW blk bssEncScalar bssEncScalar hblk (fun _ _ => rfl)
    (fun a r _ => by simp [bssEncScalar]), streams_spec]

theorem sse_bss_enc (vals : List (BitVec 32)) : sseBssEncodeFloat vals = Spec.Kernels.bssEncode (k := 4) vals :=
  bss_enc 4 (by decide) _ sse_enc_block vals
theorem avx2_bss_enc (vals : List (BitVec 32)) : avx2BssEncodeFloat vals = Spec.Kernels.bssEncode (k := 4) vals :=
  bss_enc 8 (by decide) _ avx2_enc_block vals
theorem avx512_bss_enc (vals : List (BitVec 32)) : avx512BssEncodeFloat vals = Spec.Kernels.bssEncode (k := 4) vals :=
  bss_enc 16 (by decide) _ avx512_enc_block vals

theorem zipStreams_length (n : Nat) (data : List UInt8) (h : data.length = 4 * n) :
    (zipStreams n data).length = n := by
  simp [zipStreams, zip4, List.length_zipWith, List.length_zip, List.length_take, List.length_drop]
  omega

theorem bssDecScalar_zip (n : Nat) (data : List UInt8) (h : data.length = 4 * n) :
    some (bssDecScalar (zipStreams n data)) = Spec.Kernels.bssDecode 4 n data := by
  unfold Spec.Kernels.bssDecode
  rw [if_pos h]
  congr 1
  apply List.ext_getElem
  · simp [bssDecScalar, zipStreams_length n data h]
  · intro i h1 h2
    have hi : i < n := by simpa [bssDecScalar, zipStreams_length n data h] using h1
    have r4 : List.range 4 = [0, 1, 2, 3] := by decide
    simp only [bssDecScalar, List.getElem_map, List.getElem_range, r4, List.map_cons, List.map_nil]
    have g0 : data.getD (0 * n + i) 0 = data[i]'(by omega) := by
      rw [List.getD_eq_getElem?_getD, List.getElem?_eq_getElem (by omega)]; simp
    have g1 : data.getD (1 * n + i) 0 = data[n + i]'(by omega) := by
      rw [List.getD_eq_getElem?_getD, List.getElem?_eq_getElem (by omega)]; simp
    have g2 : data.getD (2 * n + i) 0 = data[2 * n + i]'(by omega) := by
      rw [List.getD_eq_getElem?_getD, List.getElem?_eq_getElem (by omega)]; simp
    have g3 : data.getD (3 * n + i) 0 = data[3 * n + i]'(by omega) := by
      rw [List.getD_eq_getElem?_getD, List.getElem?_eq_getElem (by omega)]; simp
    rw [g0, g1, g2, g3]
    simp [zipStreams, zip4, le32, List.getElem_zipWith, List.getElem_zip, List.getElem_take, List.getElem_drop]

theorem bss_dec (W : Nat) (hW : 0 < W) (blk : List T4 → List (BitVec 32))
    (hblk : ∀ b, b.length = W → blk b = bssDecScalar b) (n : Nat) (data : List UInt8) (h : data.length = 4 * n) :
    some (blockedMap W blk bssDecScalar (zipStreams n data)) = Spec.Kernels.bssDecode 4 n data := by
  rw [blockedMap_eq W hW blk bssDecScalar bssDecScalar hblk (fun _ _ => rfl)
    (fun a r _ => by simp [bssDecScalar]), bssDecScalar_zip n data h]

/-! ### pack -/

def Dom01 (x : UInt8) : Prop := x = 0 ∨ x = 1

theorem sse_pack (xs : List UInt8) (hd : ∀ x ∈ xs, x = 0 ∨ x = 1) : ssePackBools xs = Spec.Kernels.packBools xs :=
  blockedMap_eq_dom Dom01 8 (by decide) ssePackBlk packScalar packScalar
    (fun b hb hP => sse_pack_block b hb hP) (fun _ _ _ => rfl)
    (fun a r ha => packScalar_append a r 1 (by omega)) xs hd

theorem avx2_pack (xs : List UInt8) (hd : ∀ x ∈ xs, x = 0 ∨ x = 1) : avx2PackBools xs = Spec.Kernels.packBools xs :=
  blockedMap_eq_dom Dom01 8 (by decide) avx2PackBlk packScalar packScalar
    (fun b hb hP => avx2_pack_block b hb hP) (fun _ _ _ => rfl)
    (fun a r ha => packScalar_append a r 1 (by omega)) xs hd

theorem avx512_pack (xs : List UInt8) : avx512PackBools xs = Spec.Kernels.packBools xs :=
  blockedMap_eq 64 (by decide) avx512PackBlk avx512PackTail packScalar avx512_pack_block avx512_pack_tail
    (fun a r ha => packScalar_append a r 8 (by omega)) xs

/-! ### levels -/

theorem sse_count (levels : List (BitVec 16)) (mx : BitVec 16) :
    sseCountNonNulls levels mx = Spec.Kernels.countNonNulls levels mx := by
  unfold sseCountNonNulls Spec.Kernels.countNonNulls
  rw [blockedFold_eq 8 (by decide) _ _ (cnnStep mx) (fun c b _ => sse_count_block mx c b) (fun _ _ _ => rfl),
    cnn_fold]
  omega

theorem sse_null_bitmap (levels : List (BitVec 16)) (mx : BitVec 16) :
    sseBuildNullBitmap levels mx = Spec.Kernels.buildNullBitmap levels mx :=
  blockedMap_eq 8 (by decide) _ _ (nullBitmapScalar mx) (sse_null_bitmap_block mx) (fun _ _ => rfl)
    (nullBitmapScalar_append mx) levels

theorem scalar_null_bitmap (levels : List (BitVec 16)) (mx : BitVec 16) :
    scalarBuildNullBitmap levels mx = Spec.Kernels.buildNullBitmap levels mx :=
  blockedMap_eq 8 (by decide) _ _ (nullBitmapScalar mx) (fun _ _ => rfl) (fun _ _ => rfl)
    (nullBitmapScalar_append mx) levels

theorem map_const_replicate {α β : Type} (v : β) (l : List α) : (l.map fun _ => v) = List.replicate l.length v := by
  induction l with
  | nil => rfl
  | cons x xs ih => simp [List.replicate_succ, ih]

theorem sse_fill (old : List (BitVec 16)) (v : BitVec 16) :
    sseFillDefLevels old v = Spec.Kernels.fillDefLevels old.length v := by
  unfold sseFillDefLevels Spec.Kernels.fillDefLevels
  rw [blockedMap_eq 8 (by decide) _ _ (fun t => t.map fun _ => v) (fun b _ => sse_fill_block v b) (fun _ _ => rfl)
    (fun a r _ => by simp), map_const_replicate]

/-! ### run length -/

theorem find_run (W : Nat) (blk : BitVec 32 → List (BitVec 32) → Option Nat)
    (hblk : ∀ first b, b.length = W →
      blk first b = if firstIdx (· != first) b < W then some (firstIdx (· != first) b) else none)
    (vals : List (BitVec 32)) : findRunLength W blk vals = Spec.Kernels.findRunLength vals := by
  cases vals with
  | nil => rfl
  | cons x xs =>
    show blockedSearch W (blk x) (· != x) (x :: xs) = Spec.Kernels.firstIdx (· != x) (x :: xs)
    rw [blockedSearch_eq W (blk x) (· != x) (hblk x), firstIdx_spec]

end Carquet.Proofs.SimdKernels
