import Carquet.Impl.Simd
import Carquet.Proofs.SimdBlocked
/-
C15 helper lemmas: the SSE / AVX2 / AVX-512 prefix-sum block steps equal the scalar loop on every
block (all inputs, all carries), hence the kernels equal the scalar definition for every count.
-/
namespace Carquet.Proofs.SimdPrefix
open Carquet Carquet.Impl.Simd Carquet.Proofs.SimdBlocked

theorem list_len2 {α : Type} (b : List α) (h : b.length = 2) : ∃ a0 a1, b = [a0, a1] := by
  match b, h with
  | [a0, a1], _ => exact ⟨a0, a1, rfl⟩

theorem list_len4 {α : Type} (b : List α) (h : b.length = 4) : ∃ a0 a1 a2 a3, b = [a0, a1, a2, a3] := by
  match b, h with
  | [a0, a1, a2, a3], _ => exact ⟨a0, a1, a2, a3, rfl⟩

theorem list_len8 {α : Type} (b : List α) (h : b.length = 8) :
    ∃ a0 a1 a2 a3 a4 a5 a6 a7, b = [a0, a1, a2, a3, a4, a5, a6, a7] := by
  match b, h with
  | [a0, a1, a2, a3, a4, a5, a6, a7], _ => exact ⟨a0, a1, a2, a3, a4, a5, a6, a7, rfl⟩

theorem list_len16 {α : Type} (b : List α) (h : b.length = 16) :
    ∃ a0 a1 a2 a3 a4 a5 a6 a7 a8 a9 a10 a11 a12 a13 a14 a15,
      b = [a0, a1, a2, a3, a4, a5, a6, a7, a8, a9, a10, a11, a12, a13, a14, a15] := by
  match b, h with
  | [a0, a1, a2, a3, a4, a5, a6, a7, a8, a9, a10, a11, a12, a13, a14, a15], _ =>
    exact ⟨a0, a1, a2, a3, a4, a5, a6, a7, a8, a9, a10, a11, a12, a13, a14, a15, rfl⟩

/-- the Spec's prefix sum is the scalar loop -/
theorem prefixSum_eq_scan {w : Nat} (xs : List (BitVec w)) :
    ∀ init, Spec.Kernels.prefixSum init xs = (scalarScan psStep init xs).1 := by
  induction xs with
  | nil => intro; rfl
  | cons x xs ih => intro init; simp [Spec.Kernels.prefixSum, scalarScan, psStep, ih]

theorem sse_i32_block (c : BitVec 32) (b : List (BitVec 32)) (h : b.length = 4) :
    ssePrefixSumI32Blk c b = scalarScan psStep c b := by
  obtain ⟨a0, a1, a2, a3, rfl⟩ := list_len4 b h
  simp [ssePrefixSumI32Blk, addLanes, slliSi128, set1, lane, scalarScan, psStep, List.replicate]
  (repeat' apply And.intro) <;> ac_rfl

theorem sse_i64_block (c : BitVec 64) (b : List (BitVec 64)) (h : b.length = 2) :
    ssePrefixSumI64Blk c b = scalarScan psStep c b := by
  obtain ⟨a0, a1, rfl⟩ := list_len2 b h
  simp [ssePrefixSumI64Blk, addLanes, slliSi128, set1, lane, scalarScan, psStep, List.replicate]
  (repeat' apply And.intro) <;> ac_rfl

theorem avx2_i32_block (c : BitVec 32) (b : List (BitVec 32)) (h : b.length = 8) :
    avx2PrefixSumI32Blk c b = scalarScan psStep c b := by
  obtain ⟨a0, a1, a2, a3, a4, a5, a6, a7, rfl⟩ := list_len8 b h
  simp [avx2PrefixSumI32Blk, addLanes, slliSi256, slliSi128, set1, lane, extractLo, extractHi, insertHi,
    scalarScan, psStep, List.replicate]
  (repeat' apply And.intro) <;> ac_rfl

theorem avx2_i64_block (c : BitVec 64) (b : List (BitVec 64)) (h : b.length = 4) :
    avx2PrefixSumI64Blk c b = scalarScan psStep c b := by
  obtain ⟨a0, a1, a2, a3, rfl⟩ := list_len4 b h
  simp [avx2PrefixSumI64Blk, addLanes, slliSi256, slliSi128, srliSi128, set1, lane, extractLo, extractHi, insertHi,
    scalarScan, psStep, List.replicate]
  (repeat' apply And.intro) <;> ac_rfl

theorem avx512_i64_block (c : BitVec 64) (b : List (BitVec 64)) (h : b.length = 8) :
    avx512PrefixSumI64Blk c b = scalarScan psStep c b := by
  obtain ⟨a0, a1, a2, a3, a4, a5, a6, a7, rfl⟩ := list_len8 b h
  simp [avx512PrefixSumI64Blk, addLanes, maskzAlignr, maskBits, set1, lane, scalarScan, psStep, List.replicate]
  (repeat' apply And.intro) <;> ac_rfl

theorem avx512_i32_block (c : BitVec 32) (b : List (BitVec 32)) (h : b.length = 16) :
    avx512PrefixSumI32Blk c b = scalarScan psStep c b := by
  obtain ⟨a0, a1, a2, a3, a4, a5, a6, a7, a8, a9, a10, a11, a12, a13, a14, a15, rfl⟩ := list_len16 b h
  simp [avx512PrefixSumI32Blk, addLanes, maskzAlignr, maskBits, set1, lane, scalarScan, psStep, List.replicate]
  (repeat' apply And.intro) <;> ac_rfl

end Carquet.Proofs.SimdPrefix
