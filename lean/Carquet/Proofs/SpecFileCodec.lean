import Carquet.Proofs.SpecFileAdm
import Carquet.Proofs.SnappySpec
import Carquet.Proofs.Lz4Spec
/-
Compressed page bodies: what `compressWith` stores under a plan, `decompress` gives back —
SNAPPY and LZ4 / LZ4_RAW through the Spec decoders (the reference encoders only emit streams of
the grammar, and the decoders accept the grammar), GZIP / ZSTD through the oracle table (the pair
the writer emits is what the reader looks up).
-/
namespace Carquet.Proofs.SpecFile
open Carquet.Spec Carquet.Spec.File

theorem decompress_compressWith (o : Oracle) (plan : CompPlan) (body comp : Bytes)
    (hc : compressWith plan body = some comp) (hp : planOk plan = true)
    (ho : ∀ e ∈ oracleEntry plan comp body, oracleLookup o e.1 = some e.2) :
    decompress o plan.codec comp body.length = .ok body := by
  cases plan with
  | none =>
    simp only [compressWith, Option.some.injEq] at hc
    subst hc
    simp [decompress, CompPlan.codec]
  | snappy ops =>
    simp only [compressWith] at hc
    split at hc
    · rename_i hrun
      obtain ⟨out, hrun', hstream⟩ := Carquet.Proofs.Snappy.encode_stream hc
      rw [hrun] at hrun'
      cases hrun'
      have := Carquet.Proofs.Snappy.decode_of_stream hstream
      simp [decompress, CompPlan.codec, this]
    · cases hc
  | lz4 tag seqs last =>
    simp only [compressWith] at hc
    split at hc
    · rename_i hexec
      simp only [Option.some.injEq] at hc
      subst hc
      have hb := Carquet.Proofs.Lz4Spec.encode_block hexec
      have hd := Carquet.Proofs.Lz4Spec.decode_complete hb (cap := body.length) (Nat.le_refl _)
      simp only [planOk, Bool.or_eq_true, beq_iff_eq] at hp
      rcases hp with rfl | rfl <;> simp [decompress, CompPlan.codec, hd]
    · cases hc
  | gzip k name =>
    have := ho (comp, body) (by simp [oracleEntry])
    simp only at this
    simp [decompress, CompPlan.codec, this]
  | zstd f zp =>
    have := ho (comp, body) (by simp [oracleEntry])
    simp only at this
    simp [decompress, CompPlan.codec, this]

end Carquet.Proofs.SpecFile
