import Carquet.Proofs.ThriftSafe
/-
Safety of the parsers of parquet_types.c on ARBITRARY bytes: every parser is `Adv`
(Proofs.ThriftSafe) from any `Good` decoder state, so the two top-level parsers neither exhaust a
loop budget (`Err.fuel`) nor the stack grant of `thrift_skip` (`Err.stack`), never pass the end of
the buffer, and accept no list count larger than the number of bytes left.
-/
namespace Carquet.Proofs.ThriftSafe
open Carquet.Impl.Thrift
open Carquet.Impl.ThriftParquet

/-- a loop body that is safe from every good state, at every nesting level -/
def BodyAdv {σ : Type} (body : Nat → Int → Dec → σ → σ × Dec) : Prop :=
  ∀ ty fid d s, Good d → Adv d (body ty fid d s).2

theorem BodyAdv.safe {σ : Type} {body : Nat → Int → Dec → σ → σ × Dec} (h : BodyAdv body) (N : Nat) :
    BodySafe (fun _ => True) N (fun _ => True) body :=
  fun ty fid d s hg _ _ _ => ⟨h ty fid d s hg, trivial⟩

theorem parseStruct_snd {σ : Type} (body : Nat → Int → Dec → σ → σ × Dec) (init : σ) (d : Dec) :
    (parseStruct body init d).2 = structEnd (fieldLoop (fun _ => false) body d.budget (structBegin d) init).2 := rfl

/-- every nested struct parser built from a safe body is safe -/
theorem parseStruct_adv {σ : Type} (body : Nat → Int → Dec → σ → σ × Dec) (hb : BodyAdv body) (init : σ) (d : Dec)
    (hg : Good d) : Adv d (parseStruct body init d).2 := by
  rw [parseStruct_snd]
  exact (structLoop_adv (fun _ => false) body _ d.rest.length _ (hb.safe _) d init hg (Nat.le_refl _)
    (fun _ _ => trivial) trivial).1

theorem readMany_adv {α : Type} (elem : Dec → α × Dec) (he : ∀ d, Good d → Adv d (elem d).2) :
    ∀ (n : Nat) (d : Dec), Good d → Adv d (readMany elem n d).2 ∧ (readMany elem n d).1.length = n
  | 0, d, _ => ⟨Adv.refl d, rfl⟩
  | n + 1, d, hg => by
    have h1 := he d hg
    have h2 := readMany_adv elem he n (elem d).2 (h1.good hg)
    unfold readMany
    exact ⟨h1.trans h2.1, by simp [h2.2]⟩

/-- `thrift_read_list_begin; VALIDATE_COUNT; calloc(count); for …`: safe, and an accepted list has
at most `max` elements and at most as many elements as there were bytes left — the bound on the
allocation made for it -/
theorem parseListOf_adv {α : Type} (max : Int) (elem : Dec → α × Dec) (he : ∀ d, Good d → Adv d (elem d).2)
    (d : Dec) (hg : Good d) :
    Adv d (parseListOf max elem d).2 ∧
      ∀ xs, (parseListOf max elem d).1 = some xs → xs.length ≤ d.rest.length ∧ (xs.length : Int) ≤ max := by
  have h1 := readListBegin_adv d
  have hc := readListBegin_count d
  unfold parseListOf
  split
  · refine ⟨?_, fun xs h => by cases h⟩
    obtain ⟨pre, hr, hp⟩ := h1.rest
    exact Adv.step' d _ pre h1.bud hr hp (fun h => by cases h) (Or.inr ⟨.decode, rfl, by decide, by decide⟩)
  · rename_i hbad
    have h2 := readMany_adv elem he (readListBegin d).count.toNat (readListBegin d).dec (h1.good hg)
    refine ⟨h1.trans h2.1, ?_⟩
    intro xs hxs
    simp only [Option.some.injEq] at hxs
    subst hxs
    rw [h2.2]
    have := h1.len
    exact ⟨by omega, by omega⟩

theorem setList_adv {σ α : Type} (s : σ) (set : σ → List α → σ) (r : Option (List α) × Dec) :
    (setList s set r).2 = r.2 := rfl

/-! ### the struct parsers, one by one

(Proof hygiene: no `dsimp`/`show` that would make Lean compute `(readBinary d).2.2` — the goals are
taken apart syntactically with `snd_mk_adv`.) -/

theorem snd_mk_adv {α : Type} (a : α) (d d' : Dec) (h : Adv d d') : Adv d (a, d').2 := h
theorem adv_of_eq {α : Type} {d : Dec} {x : α × Dec} {a : α} {d1 : Dec} (heq : x = (a, d1)) (h : Adv d x.2) :
    Adv d d1 := by
  subst heq; exact h

theorem ite_adv {c : Prop} [Decidable c] {α : Type} (d : Dec) (x y : α × Dec) (hx : Adv d x.2) (hy : Adv d y.2) :
    Adv d (if c then x else y).2 := by
  split
  · exact hx
  · exact hy

theorem bindupThrift_adv (d : Dec) : Adv d (bindupThrift d).2 := by
  unfold bindupThrift
  exact snd_mk_adv _ _ _ (readBinary_adv d)
theorem strdupBytes_adv (d : Dec) : Adv d (strdupBytes d).2 := by
  unfold strdupBytes
  exact snd_mk_adv _ _ _ (readBinary_adv d)
theorem strdupThrift_adv (d : Dec) : Adv d (strdupThrift d).2 := by
  unfold strdupThrift
  exact snd_mk_adv _ _ _ (strdupBytes_adv d)

theorem noteOverlay_adv (b : Bool) (d : Dec) : Adv d (noteOverlay b d) := by
  unfold noteOverlay
  split
  · exact Adv.step d _ [] rfl (by simp) (by simp) rfl (Or.inl rfl)
  · exact Adv.refl d

section
local notation "cfg" => Cfg.fixed

macro "adv_leaf" : tactic =>
  `(tactic| first
    | with_reducible exact readI32_adv _ | with_reducible exact readI64_adv _ | with_reducible exact readI16_adv _ | with_reducible exact readI8_adv _
    | with_reducible exact readBool_adv _ | with_reducible exact bindupThrift_adv _ | with_reducible exact strdupThrift_adv _ | with_reducible exact strdupBytes_adv _
    | with_reducible exact skipField_adv _ _ ‹Good _›)

theorem statisticsBody_adv : BodyAdv (statisticsBody cfg) := by
  intro ty fid d s hg
  unfold statisticsBody
  repeat' (with_reducible apply ite_adv)
  all_goals first | with_reducible apply snd_mk_adv | (split; with_reducible apply snd_mk_adv)
  all_goals adv_leaf

theorem parseStatistics_adv (d : Dec) (hg : Good d) : Adv d (parseStatistics cfg d).2 :=
  parseStruct_adv _ statisticsBody_adv _ d hg

theorem decimalBody_adv : BodyAdv (decimalBody cfg) := by
  intro ty fid d s hg
  unfold decimalBody
  repeat' (with_reducible apply ite_adv)
  all_goals first | with_reducible apply snd_mk_adv | (split; with_reducible apply snd_mk_adv)
  all_goals adv_leaf

theorem timeUnitBody_adv : BodyAdv (timeUnitBody cfg) := by
  intro ty fid d s hg
  unfold timeUnitBody
  exact snd_mk_adv _ _ _ (skipField_adv _ _ hg)

theorem timeBody_adv : BodyAdv (timeBody cfg) := by
  intro ty fid d s hg
  unfold timeBody
  have h2 := parseStruct_adv _ timeUnitBody_adv s.2 d hg
  repeat' (with_reducible apply ite_adv)
  all_goals first | with_reducible apply snd_mk_adv | (split; with_reducible apply snd_mk_adv)
  all_goals first | adv_leaf | with_reducible exact h2

theorem integerBody_adv : BodyAdv (integerBody cfg) := by
  intro ty fid d s hg
  unfold integerBody
  repeat' (with_reducible apply ite_adv)
  all_goals first | with_reducible apply snd_mk_adv | (split; with_reducible apply snd_mk_adv)
  all_goals adv_leaf

theorem logicalBody_adv : BodyAdv (logicalBody cfg) := by
  intro ty fid d s hg
  unfold logicalBody plainMember
  have hd := parseStruct_adv _ decimalBody_adv (0, 0) d hg
  have ht := parseStruct_adv _ timeBody_adv (false, TimeUnit.millis) d hg
  have hi := parseStruct_adv _ integerBody_adv (0, false) d hg
  repeat' (with_reducible apply ite_adv)
  all_goals first | with_reducible apply snd_mk_adv | (split; with_reducible apply snd_mk_adv)
  all_goals first
    | adv_leaf | with_reducible exact hd | with_reducible exact ht
    | with_reducible exact hi

theorem parseLogicalType_adv (d : Dec) (hg : Good d) : Adv d (parseLogicalType cfg d).2 :=
  parseStruct_adv _ logicalBody_adv _ d hg

theorem schemaElementBody_adv : BodyAdv (schemaElementBody cfg) := by
  intro ty fid d s hg
  unfold schemaElementBody
  have hl := parseLogicalType_adv d hg
  repeat' (with_reducible apply ite_adv)
  all_goals first | with_reducible apply snd_mk_adv | (split; with_reducible apply snd_mk_adv)
  all_goals first | adv_leaf | exact hl.trans (noteOverlay_adv _ _)

theorem parseSchemaElement_adv (d : Dec) (hg : Good d) : Adv d (parseSchemaElement cfg d).2 :=
  parseStruct_adv _ schemaElementBody_adv _ d hg

theorem keyValueBody_adv : BodyAdv (keyValueBody cfg) := by
  intro ty fid d s hg
  unfold keyValueBody
  repeat' (with_reducible apply ite_adv)
  all_goals first | with_reducible apply snd_mk_adv | (split; with_reducible apply snd_mk_adv)
  all_goals adv_leaf

theorem parseKeyValue_adv (d : Dec) (hg : Good d) : Adv d (parseKeyValue cfg d).2 :=
  parseStruct_adv _ keyValueBody_adv _ d hg

theorem encodingStatsBody_adv : BodyAdv (encodingStatsBody cfg) := by
  intro ty fid d s hg
  unfold encodingStatsBody
  repeat' (with_reducible apply ite_adv)
  all_goals first | with_reducible apply snd_mk_adv | (split; with_reducible apply snd_mk_adv)
  all_goals adv_leaf

theorem parseEncodingStats_adv (d : Dec) (hg : Good d) : Adv d (parseEncodingStats cfg d).2 :=
  parseStruct_adv _ encodingStatsBody_adv _ d hg

theorem columnMetaDataBody_adv : BodyAdv (columnMetaDataBody cfg) := by
  intro ty fid d s hg
  unfold columnMetaDataBody setList
  have h2 := (parseListOf_adv maxEncodings readI32 (fun d _ => readI32_adv d) d hg).1
  have h3 := (parseListOf_adv maxPathElements strdupBytes (fun d _ => strdupBytes_adv d) d hg).1
  have h8 := (parseListOf_adv maxKeyValuePairs (parseKeyValue cfg) parseKeyValue_adv d hg).1
  have h13 := (parseListOf_adv maxEncodingStats (parseEncodingStats cfg) parseEncodingStats_adv d hg).1
  have h12 := parseStatistics_adv d hg
  repeat' (with_reducible apply ite_adv)
  all_goals first | with_reducible apply snd_mk_adv | (split; with_reducible apply snd_mk_adv)
  all_goals first
    | adv_leaf | with_reducible exact h2 | with_reducible exact h3 | with_reducible exact h8 | with_reducible exact h13 | with_reducible exact h12

theorem parseColumnMetaData_adv (d : Dec) (hg : Good d) : Adv d (parseColumnMetaData cfg d).2 :=
  parseStruct_adv _ columnMetaDataBody_adv _ d hg

theorem columnChunkBody_adv : BodyAdv (columnChunkBody cfg) := by
  intro ty fid d s hg
  unfold columnChunkBody
  have h3 := parseColumnMetaData_adv d hg
  repeat' (with_reducible apply ite_adv)
  all_goals first | with_reducible apply snd_mk_adv | (split; with_reducible apply snd_mk_adv)
  all_goals first | adv_leaf | with_reducible exact h3

theorem parseColumnChunk_adv (d : Dec) (hg : Good d) : Adv d (parseColumnChunk cfg d).2 :=
  parseStruct_adv _ columnChunkBody_adv _ d hg

theorem rowGroupBody_adv : BodyAdv (rowGroupBody cfg) := by
  intro ty fid d s hg
  unfold rowGroupBody setList
  have h1 := (parseListOf_adv maxColumnsPerRg (parseColumnChunk cfg) parseColumnChunk_adv d hg).1
  repeat' (with_reducible apply ite_adv)
  all_goals first | with_reducible apply snd_mk_adv | (split; with_reducible apply snd_mk_adv)
  all_goals first | adv_leaf | with_reducible exact h1

theorem parseRowGroup_adv (d : Dec) (hg : Good d) : Adv d (parseRowGroup cfg d).2 :=
  parseStruct_adv _ rowGroupBody_adv _ d hg

/-! ### the two top-level parsers -/

/-- the early-return status of a top-level parser is never one of the two model artefacts -/
def TopInv {α : Type} (s : Top α) : Prop := s.abort ≠ some .fuel ∧ s.abort ≠ some .stack

theorem pair_safe {α : Type} (a : Top α) (d d' : Dec) (h : Adv d d') (hi : TopInv a) :
    Adv d (a, d').2 ∧ TopInv (a, d').1 := ⟨h, hi⟩

theorem ite_safe {c : Prop} [Decidable c] {α : Type} (d : Dec) (x y : Top α × Dec)
    (hx : Adv d x.2 ∧ TopInv x.1) (hy : Adv d y.2 ∧ TopInv y.1) :
    Adv d (if c then x else y).2 ∧ TopInv (if c then x else y).1 := by
  split
  · exact hx
  · exact hy

theorem topInv_val {α : Type} (s : Top α) (hi : TopInv s) (v : α) : TopInv { s with val := v } := hi

theorem topListOf_adv {σ α : Type} (max : Int) (elem : Dec → α × Dec) (he : ∀ d, Good d → Adv d (elem d).2)
    (set : σ → List α → σ) (d : Dec) (s : Top σ) (hg : Good d) (hi : TopInv s) :
    Adv d (topListOf max elem set d s).2 ∧ TopInv (topListOf max elem set d s).1 := by
  have h1 := readListBegin_adv d
  unfold topListOf
  split
  · exact pair_safe _ _ _ h1 ⟨by simp, by simp⟩
  · have h2 := readMany_adv elem he (readListBegin d).count.toNat (readListBegin d).dec (h1.good hg)
    split
    rename_i xs d1 heq
    exact pair_safe _ _ _ (h1.trans (adv_of_eq heq h2.1)) hi

theorem topErr_inv {α : Type} (s : Top α) (d : Dec) (e : Err) (hg : Good d) (h : d.status = some e) :
    TopInv { s with abort := some e } := by
  refine ⟨?_, ?_⟩
  · intro hh; simp only [Option.some.injEq] at hh; subst hh; exact hg.nofuel h
  · intro hh; simp only [Option.some.injEq] at hh; subst hh; exact hg.nostack h

theorem fileMetaDataBody_safe (N : Nat) : BodySafe (fun _ => True) N TopInv (fileMetaDataBody cfg) := by
  intro ty fid d s hg _ _ hi
  unfold fileMetaDataBody
  split
  · rename_i e he
    exact pair_safe _ _ _ (Adv.refl d) (topErr_inv s d e hg he)
  · have h2 := topListOf_adv maxSchemaElements (parseSchemaElement cfg) parseSchemaElement_adv
      (fun (v : FileMetaData × Required) xs => ({ v.1 with schema := xs }, { v.2 with schema := true })) d s hg hi
    have h4 := topListOf_adv maxRowGroups (parseRowGroup cfg) parseRowGroup_adv
      (fun (v : FileMetaData × Required) xs => ({ v.1 with rowGroups := xs }, { v.2 with rowGroups := true })) d s hg hi
    have h5 := topListOf_adv maxKeyValuePairs (parseKeyValue cfg) parseKeyValue_adv
      (fun (v : FileMetaData × Required) xs => ({ v.1 with keyValueMetadata := xs }, v.2)) d s hg hi
    repeat' (with_reducible apply ite_safe)
    all_goals first
      | with_reducible exact h2 | with_reducible exact h4 | with_reducible exact h5
      | exact pair_safe _ _ _ (readI32_adv _) (topInv_val s hi _)
      | exact pair_safe _ _ _ (readI64_adv _) (topInv_val s hi _)
      | exact pair_safe _ _ _ (strdupThrift_adv _) (topInv_val s hi _)
      | exact pair_safe _ _ _ (skipField_adv _ _ hg) hi

theorem pageStatsField_adv (ty : Nat) (d : Dec) (hg : Good d) : Adv d (pageStatsField cfg ty d).2 := by
  unfold pageStatsField
  have h := parseStatistics_adv d hg
  repeat' (with_reducible apply ite_adv)
  all_goals first | with_reducible apply snd_mk_adv | (split; with_reducible apply snd_mk_adv)
  all_goals first | with_reducible exact h | with_reducible exact skipField_adv _ _ hg

theorem dataPageHeaderBody_adv : BodyAdv (dataPageHeaderBody cfg) := by
  intro ty fid d s hg
  unfold dataPageHeaderBody
  have h5 := pageStatsField_adv ty d hg
  repeat' (with_reducible apply ite_adv)
  all_goals first | with_reducible apply snd_mk_adv | (split; with_reducible apply snd_mk_adv)
  all_goals first | adv_leaf | with_reducible exact h5

theorem dictionaryPageHeaderBody_adv : BodyAdv (dictionaryPageHeaderBody cfg) := by
  intro ty fid d s hg
  unfold dictionaryPageHeaderBody
  repeat' (with_reducible apply ite_adv)
  all_goals first | with_reducible apply snd_mk_adv | (split; with_reducible apply snd_mk_adv)
  all_goals adv_leaf

theorem dataPageHeaderV2Body_adv : BodyAdv (dataPageHeaderV2Body cfg) := by
  intro ty fid d s hg
  unfold dataPageHeaderV2Body
  have h8 := pageStatsField_adv ty d hg
  repeat' (with_reducible apply ite_adv)
  all_goals first | with_reducible apply snd_mk_adv | (split; with_reducible apply snd_mk_adv)
  all_goals first | adv_leaf | with_reducible exact h8

theorem pageHeaderBody_safe (N : Nat) : BodySafe (fun _ => True) N TopInv (pageHeaderBody cfg) := by
  intro ty fid d s hg _ _ hi
  unfold pageHeaderBody
  split
  · rename_i e he
    exact pair_safe _ _ _ (Adv.refl d) (topErr_inv s d e hg he)
  · have h5 := parseStruct_adv _ dataPageHeaderBody_adv s.val.1.dataPageHeader d hg
    have h7 := parseStruct_adv _ dictionaryPageHeaderBody_adv s.val.1.dictionaryPageHeader d hg
    have h8 := parseStruct_adv _ dataPageHeaderV2Body_adv { s.val.1.dataPageHeaderV2 with isCompressed := true } d hg
    repeat' (with_reducible apply ite_safe)
    all_goals first
      | exact pair_safe _ _ _ (readI32_adv _) (topInv_val s hi _)
      | exact pair_safe _ _ _ (skipField_adv _ _ hg) hi
      | (split; exact pair_safe _ _ _ (adv_of_eq (by assumption) h5) (topInv_val s hi _))
      | (split; exact pair_safe _ _ _ (adv_of_eq (by assumption) h7) (topInv_val s hi _))
      | (split; exact pair_safe _ _ _ (adv_of_eq (by assumption) h8) (topInv_val s hi _))

end

/-! ### accepted list counts (top level of the file metadata) -/

theorem readMany_length {α : Type} (elem : Dec → α × Dec) : ∀ (n : Nat) (d : Dec), (readMany elem n d).1.length = n
  | 0, _ => rfl
  | n + 1, d => by
    unfold readMany
    simp [readMany_length elem n (elem d).2]

/-- `thrift_read_list_begin; VALIDATE_COUNT_STATUS; calloc(count)` at the top level: the list that is
stored has at most `max` cells and at most as many cells as bytes were left -/
theorem topListOf_len {σ α : Type} (max : Int) (elem : Dec → α × Dec) (set : σ → List α → σ) (d : Dec) (s : Top σ) :
    (topListOf max elem set d s).1.val = s.val ∨
    ∃ xs : List α, (topListOf max elem set d s).1.val = set s.val xs ∧ xs.length ≤ d.rest.length ∧ (xs.length : Int) ≤ max := by
  have h1 := (readListBegin_adv d).len
  have hc := readListBegin_count d
  unfold topListOf
  split
  · exact Or.inl rfl
  · rename_i hbad
    refine Or.inr ⟨(readMany elem (readListBegin d).count.toNat (readListBegin d).dec).1, rfl, ?_, ?_⟩
    · rw [readMany_length]; omega
    · rw [readMany_length]; omega

/-- the three top-level lists of the file metadata never have more cells than the input has bytes -/
def FmdInv (N : Nat) (s : Top (FileMetaData × Required)) : Prop :=
  TopInv s ∧ s.val.1.schema.length ≤ N ∧ s.val.1.rowGroups.length ≤ N ∧ s.val.1.keyValueMetadata.length ≤ N

theorem fileMetaDataBody_lens (N : Nat) : BodySafe (fun _ => True) N (FmdInv N) (fileMetaDataBody Cfg.fixed) := by
  intro ty fid d s hg hn hq hi
  refine ⟨(fileMetaDataBody_safe N ty fid d s hg hn hq hi.1).1, (fileMetaDataBody_safe N ty fid d s hg hn hq hi.1).2, ?_⟩
  obtain ⟨_, i1, i2, i3⟩ := hi
  unfold fileMetaDataBody
  split
  · exact ⟨i1, i2, i3⟩
  · have l2 := topListOf_len maxSchemaElements (parseSchemaElement Cfg.fixed)
      (fun (v : FileMetaData × Required) xs => ({ v.1 with schema := xs }, { v.2 with schema := true })) d s
    have l4 := topListOf_len maxRowGroups (parseRowGroup Cfg.fixed)
      (fun (v : FileMetaData × Required) xs => ({ v.1 with rowGroups := xs }, { v.2 with rowGroups := true })) d s
    have l5 := topListOf_len maxKeyValuePairs (parseKeyValue Cfg.fixed)
      (fun (v : FileMetaData × Required) xs => ({ v.1 with keyValueMetadata := xs }, v.2)) d s
    split
    · exact ⟨i1, i2, i3⟩
    split
    · rcases l2 with h | ⟨xs, h, hl, _⟩
      · rw [h]; exact ⟨i1, i2, i3⟩
      · rw [h]; exact ⟨by show xs.length ≤ N; omega, i2, i3⟩
    split
    · exact ⟨i1, i2, i3⟩
    split
    · rcases l4 with h | ⟨xs, h, hl, _⟩
      · rw [h]; exact ⟨i1, i2, i3⟩
      · rw [h]; exact ⟨i1, by show xs.length ≤ N; omega, i3⟩
    split
    · rcases l5 with h | ⟨xs, h, hl, _⟩
      · rw [h]; exact ⟨i1, i2, i3⟩
      · rw [h]; exact ⟨i1, i2, by show xs.length ≤ N; omega⟩
    split
    · exact ⟨i1, i2, i3⟩
    · exact ⟨i1, i2, i3⟩

theorem init_good (bs : Bytes) : Good (Dec.init bs) :=
  ⟨by simp [Dec.init], by simp [Dec.init], by simp [Dec.init]⟩

theorem structBegin_init (bs : Bytes) : structBegin (Dec.init bs) = { Dec.init bs with lastId := [0] } := by
  simp [structBegin, Dec.init, maxNesting]

/-- what the safety of the loop body gives for a top-level parser: the decoder state at the end
of the field loop is `Adv` from the initial one (one struct level deeper) -/
theorem topLoop_safe {α : Type} {bs : Bytes} (body : Nat → Int → Dec → Top α → Top α × Dec) (Inv : Top α → Prop)
    (hbody : BodySafe (fun _ => True) bs.length Inv body) (init : α) (hi : Inv ⟨init, none⟩) :
    Adv { Dec.init bs with lastId := [0] }
      (fieldLoop (fun s => s.abort.isSome) body (bs.length + 1) (structBegin (Dec.init bs)) ⟨init, none⟩).2 ∧
    Inv (fieldLoop (fun s => s.abort.isSome) body (bs.length + 1) (structBegin (Dec.init bs)) ⟨init, none⟩).1 := by
  rw [structBegin_init]
  have hg : Good { Dec.init bs with lastId := [0] } := ⟨by simp [Dec.init], by simp [Dec.init], by simp [Dec.init]⟩
  exact fieldLoop_adv _ body _ bs.length Inv hbody (bs.length + 1) _ _ hg (by simp [Dec.init])
    (by simp [Dec.init]) (fun _ => trivial) hi

theorem topParse_safe {α : Type} (body : Nat → Int → Dec → Top α → Top α × Dec) (Inv : Top α → Prop)
    (hinv : ∀ s, Inv s → TopInv s) (bs : Bytes)
    (hbody : BodySafe (fun _ => True) bs.length Inv body) (init : α) (hi : Inv ⟨init, none⟩) :
    (topParse body init bs).status ≠ some .fuel ∧ (topParse body init bs).status ≠ some .stack ∧
    (topParse body init bs).consumed ≤ bs.length ∧
    ∃ s, Inv s ∧ (topParse body init bs).val = s.val := by
  obtain ⟨ha, hi'⟩ := topLoop_safe (bs := bs) body Inv hbody init hi
  have hg : Good { Dec.init bs with lastId := [0] } := ⟨by simp [Dec.init], by simp [Dec.init], by simp [Dec.init]⟩
  have hg2 := ha.good hg
  have hpos := ha.pos_len
  unfold topParse topFinish
  generalize fieldLoop (fun s => s.abort.isSome) body (bs.length + 1) (structBegin (Dec.init bs)) ⟨init, none⟩ = r at *
  have hp : r.2.pos ≤ bs.length := by
    simp [Dec.init] at hpos; omega
  have ht := hinv _ hi'
  split
  · rename_i e he
    refine ⟨?_, ?_, hp, r.1, hi', rfl⟩
    · intro h; simp only [Option.some.injEq] at h; subst h; exact ht.1 he
    · intro h; simp only [Option.some.injEq] at h; subst h; exact ht.2 he
  · exact ⟨hg2.nofuel, hg2.nostack, hp, r.1, hi', rfl⟩

/-- **`parquet_parse_file_metadata` on arbitrary bytes**: no loop budget exhausted, no stack grant
exhausted, position inside the buffer, and none of the three top-level lists has more cells than
the input has bytes -/
theorem parseFileMetaDataX_safe (bs : Bytes) :
    (parseFileMetaDataX Cfg.fixed bs).status ≠ some .fuel ∧ (parseFileMetaDataX Cfg.fixed bs).status ≠ some .stack ∧
    (parseFileMetaDataX Cfg.fixed bs).consumed ≤ bs.length ∧
    (parseFileMetaDataX Cfg.fixed bs).val.schema.length ≤ bs.length ∧
    (parseFileMetaDataX Cfg.fixed bs).val.rowGroups.length ≤ bs.length ∧
    (parseFileMetaDataX Cfg.fixed bs).val.keyValueMetadata.length ≤ bs.length := by
  obtain ⟨h1, h2, h3, s, hs, hv⟩ := topParse_safe (fileMetaDataBody Cfg.fixed) (FmdInv bs.length) (fun _ h => h.1) bs
    (fileMetaDataBody_lens bs.length) (({}, {}) : FileMetaData × Required)
    ⟨⟨by simp, by simp⟩, Nat.zero_le _, Nat.zero_le _, Nat.zero_le _⟩
  unfold parseFileMetaDataX
  generalize topParse (fileMetaDataBody Cfg.fixed) (({}, {}) : FileMetaData × Required) bs = r at *
  obtain ⟨st, v, n, ov⟩ := r
  simp only at h1 h2 h3 hv ⊢
  obtain ⟨_, l1, l2, l3⟩ := hs
  rw [← hv] at l1 l2 l3
  refine ⟨?_, ?_, h3, l1, l2, l3⟩
  · unfold requiredCheck
    cases st with
    | some e => exact h1
    | none => simp only []; split <;> simp
  · unfold requiredCheck
    cases st with
    | some e => exact h2
    | none => simp only []; split <;> simp

/-- **`parquet_parse_page_header` on arbitrary bytes** -/
theorem parsePageHeaderX_safe (bs : Bytes) :
    (parsePageHeaderX Cfg.fixed bs).status ≠ some .fuel ∧ (parsePageHeaderX Cfg.fixed bs).status ≠ some .stack ∧
    (parsePageHeaderX Cfg.fixed bs).consumed ≤ bs.length := by
  obtain ⟨h1, h2, h3, _⟩ := topParse_safe (pageHeaderBody Cfg.fixed) TopInv (fun _ h => h) bs
    (pageHeaderBody_safe bs.length) (({}, {}) : PageHeader × Seen) ⟨by simp, by simp⟩
  unfold parsePageHeaderX
  generalize topParse (pageHeaderBody Cfg.fixed) (({}, {}) : PageHeader × Seen) bs = r at *
  obtain ⟨st, v, n, ov⟩ := r
  exact ⟨h1, h2, h3⟩

end Carquet.Proofs.ThriftSafe
