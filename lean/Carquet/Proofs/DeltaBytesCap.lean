import Carquet.Proofs.DeltaBytes
import Carquet.Proofs.DeltaImplCap
/-
Success of the byte-array delta encoders (DELTA_LENGTH_BYTE_ARRAY, DELTA_BYTE_ARRAY): the scratch
capacity the current source computes (`Gen.deltaLengthScratch`, `Gen.deltaStringsScratch`,
re-extracted on every run) is enough for every input, so the encoders fail on no list of byte
arrays the API can express; the capacity before F61 (`10·n + 100`) was not.
Also: the encoders' length streams as functions of the lengths alone (`encodeLens`), which is what
the correspondence evaluates on values too long to print.
-/
namespace Carquet.Impl.Delta

/-- `carquet_delta_encode_int32` succeeds with 40 bytes and `27 + 1038` per started block -/
theorem encodeInt32_succeeds (vs : List (BitVec 32)) (cap : Nat) (hne : vs ≠ [])
    (hlen : vs.length ≤ 2147483647) (h40 : 40 ≤ cap)
    (hcap : 27 + 1038 * ((vs.length + 126) / 128) ≤ cap) : ∃ bs, encodeInt32 vs cap = .ok bs := by
  cases vs with
  | nil => exact absurd rfl hne
  | cons v rest =>
    simp only [List.length_cons] at hlen hcap
    have hb := length_encodeOut_le (v.signExtend 64) (rest.map (BitVec.signExtend 64))
      (by simpa using hlen)
    simp only [List.length_map] at hb
    have e : rest.length + 1 + 126 = rest.length + 127 := by omega
    rw [e] at hcap
    refine ⟨encodeOut (v.signExtend 64) (rest.map (BitVec.signExtend 64)), ?_⟩
    simp only [encodeInt32, List.map_cons]
    exact encodeV_succeeds _ _ cap h40 (by omega)

end Carquet.Impl.Delta

namespace Carquet.Impl.DeltaLength
open Carquet.Impl.Delta

/-- the scratch capacity in the current source holds the worst case of `n` values -/
theorem lengthsCapacity_suffices (n : Nat) :
    40 ≤ lengthsCapacity n ∧ 27 + 1038 * ((n + 126) / 128) ≤ lengthsCapacity n := by
  unfold lengthsCapacity Gen.deltaLengthScratch
  omega

/-- `carquet_delta_length_encode` fails on no non-empty list of byte arrays -/
theorem encode_succeeds (vs : List (List UInt8)) (hne : vs ≠ []) (hlen : vs.length ≤ 2147483647) :
    ∃ bs, encode vs = .ok bs := by
  obtain ⟨h40, hcap⟩ := lengthsCapacity_suffices vs.length
  obtain ⟨lb, hl⟩ := encodeInt32_succeeds (vs.map (fun v => BitVec.ofNat 32 v.length)) (lengthsCapacity vs.length)
    (by simpa using hne) (by simpa using hlen) h40 (by simpa using hcap)
  exact ⟨lb ++ vs.flatten, by simp only [encode, if_neg hne, hl]⟩

/-- the length stream depends on the lengths only -/
theorem encode_eq_encodeLens (vs : List (List UInt8)) :
    encode vs = (encodeLens (vs.map List.length)).map (fun lb => lb ++ vs.flatten) := by
  unfold encode encodeLens encodeLensWith
  by_cases h : vs = []
  · subst h; rfl
  · rw [if_neg h, if_neg (by simpa using h)]
    simp only [Bool.false_eq_true, if_false, List.map_map, List.length_map]
    have e : (BitVec.ofNat 32 ∘ List.length : List UInt8 → BitVec 32) = fun v => BitVec.ofNat 32 v.length := rfl
    rw [e]
    cases encodeInt32 (vs.map (fun v => BitVec.ofNat 32 v.length)) (lengthsCapacity vs.length) <;> rfl

theorem encodePreFix_eq_encodeLens (vs : List (List UInt8)) :
    encodePreFix vs = (encodeLensWith true (vs.map List.length)).map (fun lb => lb ++ vs.flatten) := by
  unfold encodePreFix encodeLensWith
  by_cases h : vs = []
  · subst h; rfl
  · rw [if_neg h, if_neg (by simpa using h)]
    simp only [if_true, List.map_map, List.length_map]
    have e : (BitVec.ofNat 32 ∘ List.length : List UInt8 → BitVec 32) = fun v => BitVec.ofNat 32 v.length := rfl
    rw [e]
    cases encodeInt32 (vs.map (fun v => BitVec.ofNat 32 v.length)) (lengthsCapacityPreFix vs.length) <;> rfl

/-- F61 on the model of the old code: three byte arrays of lengths 0, 2^27, 0 — whatever their
bytes — are refused with `CARQUET_ERROR_ENCODE` (one 29-bit miniblock: 5 + 14 + 116 > 130). -/
theorem encodePreFix_fails (a b c : List UInt8) (ha : a.length = 0) (hb : b.length = 134217728)
    (hc : c.length = 0) : encodePreFix [a, b, c] = .error .encode := by
  rw [encodePreFix_eq_encodeLens]
  simp only [List.map_cons, List.map_nil, ha, hb, hc]
  have : encodeLensWith true [0, 134217728, 0] = .error .encode := by decide +kernel
  rw [this]; rfl

end Carquet.Impl.DeltaLength

namespace Carquet.Impl.DeltaStrings
open Carquet.Impl.Delta Carquet.Impl.DeltaLength

theorem deltaCapacity_suffices (n : Nat) :
    40 ≤ deltaCapacity n ∧ 27 + 1038 * ((n + 126) / 128) ≤ deltaCapacity n := by
  unfold deltaCapacity Gen.deltaStringsScratch
  omega

/-- `carquet_delta_strings_encode` fails on no non-empty list of byte arrays -/
theorem encode_succeeds (vs : List (List UInt8)) (hne : vs ≠ []) (hlen : vs.length ≤ 2147483647) :
    ∃ bs, encode vs = .ok bs := by
  obtain ⟨h40, hcap⟩ := deltaCapacity_suffices vs.length
  have hpos : 0 < vs.length := List.length_pos_iff.mpr hne
  obtain ⟨pre, h1⟩ := encodeInt32_succeeds ((prefixLengths none vs).map (BitVec.ofNat 32)) (deltaCapacity vs.length)
    (by intro h; have := congrArg List.length h; simp [length_prefixLengths] at this; first | omega | exact hne this)
    (by simpa [length_prefixLengths] using hlen) h40 (by simpa [length_prefixLengths] using hcap)
  obtain ⟨suf, h2⟩ := encodeInt32_succeeds
    (List.zipWith (fun p (v : List UInt8) => BitVec.ofNat 32 (v.length - p)) (prefixLengths none vs) vs)
    (deltaCapacity vs.length)
    (by intro h; have := congrArg List.length h; simp [length_prefixLengths] at this; first | omega | exact hne this)
    (by simpa [length_prefixLengths] using hlen) h40 (by simpa [length_prefixLengths] using hcap)
  exact ⟨pre ++ suf ++ (List.zipWith (fun p (v : List UInt8) => v.drop p) (prefixLengths none vs) vs).flatten,
    by simp only [encode, if_neg hne, h1, h2]⟩

theorem commonPrefixLength_nil_right (a : List UInt8) : commonPrefixLength a [] = 0 := by
  cases a <;> rfl

/-- the two length streams depend on the prefix and suffix lengths only -/
theorem encode_eq_encodeLens (vs : List (List UInt8)) :
    encode vs = (encodeLens (prefixLengths none vs) (suffixLens (prefixLengths none vs) vs)).map
      (fun lb => lb ++ (suffixes (prefixLengths none vs) vs).flatten) := by
  unfold encode encodeLens encodeLensWith
  have e : List.zipWith (fun p (v : List UInt8) => BitVec.ofNat 32 (v.length - p)) (prefixLengths none vs) vs =
      (suffixLens (prefixLengths none vs) vs).map (BitVec.ofNat 32) := by
    simp [suffixLens, List.map_zipWith]
  by_cases h : vs = []
  · subst h; rfl
  · have hp : prefixLengths none vs ≠ [] := by
      intro hh; have := congrArg List.length hh
      simp only [length_prefixLengths, List.length_nil] at this
      exact h (List.length_eq_zero_iff.mp this)
    rw [if_neg h, if_neg hp, e]
    simp only [Bool.false_eq_true, if_false, length_prefixLengths]
    cases encodeInt32 ((prefixLengths none vs).map (BitVec.ofNat 32)) (deltaCapacity vs.length) with
    | error s => rfl
    | ok p =>
      simp only
      cases encodeInt32 ((suffixLens (prefixLengths none vs) vs).map (BitVec.ofNat 32)) (deltaCapacity vs.length) with
      | error s => rfl
      | ok q => rfl

/-- F61 on the model of the old code, DELTA_BYTE_ARRAY: a 2^27-byte value followed by two empty ones -/
theorem encodePreFix_fails (b : List UInt8) (hb : b.length = 134217728) :
    encodePreFix [b, [], []] = .error .encode := by
  unfold encodePreFix
  simp only [prefixLengths, commonPrefixLength_nil_right, commonPrefixLength, List.zipWith_cons_cons,
    List.zipWith_nil_right, hb, List.length_cons, List.length_nil, List.map_cons, List.map_nil]
  have h1 : encodeInt32 [BitVec.ofNat 32 0, BitVec.ofNat 32 0, BitVec.ofNat 32 0] (deltaCapacityPreFix (0 + 1 + 1 + 1)) =
      .ok [0x80, 0x01, 0x04, 0x03, 0x00, 0x00, 0x00, 0x00, 0x00, 0x00] := by decide +kernel
  have h2 : encodeInt32 [BitVec.ofNat 32 (134217728 - 0), BitVec.ofNat 32 (0 - 0), BitVec.ofNat 32 (0 - 0)]
      (deltaCapacityPreFix (0 + 1 + 1 + 1)) = .error .encode := by decide +kernel
  simp [h1, h2]

end Carquet.Impl.DeltaStrings
