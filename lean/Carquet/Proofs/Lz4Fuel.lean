import Carquet.Spec.Lz4
import Carquet.Impl.Lz4
import Carquet.Proofs.Lz4Spec
import Carquet.Proofs.Lz4Decomp
import Carquet.Proofs.Lz4Comp
/-
Fuel bounds: every fuel-driven loop of the LZ4 models is started with enough fuel — giving it
more does not change its result, i.e. the `0`-fuel branch is never what decides.
(`Impl.Lz4.chain`: inside `Lz4Decomp.chain_sim`; `chainBytes`: `Lz4Comp.chainBytes_eq`.)
-/
namespace Carquet.Proofs.Lz4Fuel
open Carquet
open Carquet.Impl.Lz4
open Carquet.Proofs.Lz4Comp

theorem countTail_succ (src : Bytes) (limit f p m acc : Nat) :
    countTail src limit (f + 1) p m acc =
      if p < limit ∧ byteAt src p = byteAt src m then countTail src limit f (p + 1) (m + 1) (acc + 1) else acc := rfl

theorem firstDiff_succ (src : Bytes) (f p m acc : Nat) :
    firstDiff src (f + 1) p m acc =
      if byteAt src p = byteAt src m then firstDiff src f (p + 1) (m + 1) (acc + 1) else acc := rfl

theorem countFast_succ (src : Bytes) (limit f p m acc : Nat) :
    countFast src limit (f + 1) p m acc =
      if p + 7 < limit then
        if eq8 src p m then countFast src limit f (p + 8) (m + 8) (acc + 8)
        else firstDiff src 8 p m acc
      else countTail src limit (limit - p) p m acc := rfl

theorem findLoop_succ (src : Bytes) (n f ip anchor : Nat) (tbl : Array UInt16) (acc : List Seq) :
    findLoop src n (f + 1) ip anchor tbl acc =
      if ip + 4 < n then
        match probe src n ip tbl with
        | some (off, mlen) =>
          findLoop src n f (ip + mlen) (ip + mlen)
            (afterMatch src n (ip + mlen) (insert tbl (hashAt src ip) ip)) (⟨anchor, ip, off, mlen⟩ :: acc)
        | none => findLoop src n f (ip + 1) anchor (insert tbl (hashAt src ip) ip) acc
      else (acc, anchor) := rfl

theorem countTail_fuel (src : Bytes) (limit : Nat) : ∀ (fuel p m acc : Nat), limit - p ≤ fuel →
    countTail src limit (fuel + 1) p m acc = countTail src limit fuel p m acc := by
  intro fuel
  induction fuel with
  | zero =>
    intro p m acc h
    rw [countTail_succ]
    rw [if_neg (by intro hc; omega)]
    rfl
  | succ fuel ih =>
    intro p m acc h
    rw [countTail_succ src limit (fuel + 1) p m acc, countTail_succ src limit fuel p m acc]
    split
    · exact ih _ _ _ (by omega)
    · rfl

/-- some byte among the next `k` differs -/
def Differ (src : Bytes) (p m k : Nat) : Prop := ∃ i, i < k ∧ byteAt src (p + i) ≠ byteAt src (m + i)

theorem firstDiff_fuel (src : Bytes) : ∀ (fuel p m acc : Nat), Differ src p m fuel →
    firstDiff src (fuel + 1) p m acc = firstDiff src fuel p m acc := by
  intro fuel
  induction fuel with
  | zero => intro p m acc ⟨i, hi, _⟩; omega
  | succ fuel ih =>
    intro p m acc ⟨i, hi, hne⟩
    rw [firstDiff_succ src (fuel + 1) p m acc, firstDiff_succ src fuel p m acc]
    split
    · rename_i heq
      apply ih
      have hi0 : i ≠ 0 := by intro h; subst h; exact hne heq
      refine ⟨i - 1, by omega, ?_⟩
      rw [show p + 1 + (i - 1) = p + i by omega, show m + 1 + (i - 1) = m + i by omega]
      exact hne
    · rfl

theorem differ_of_not_eq8 {src : Bytes} {p m : Nat} (h : ¬ eq8 src p m = true) : Differ src p m 8 := by
  apply Classical.byContradiction
  intro hn
  apply h
  have hall : ∀ i, i < 8 → byteAt src (p + i) = byteAt src (m + i) := by
    intro i hi
    apply Classical.byContradiction
    intro hne
    exact hn ⟨i, hi, hne⟩
  simp only [eq8, Bool.and_eq_true, beq_iff_eq]
  have h0 := hall 0 (by omega)
  exact ⟨⟨⟨⟨⟨⟨⟨h0, hall 1 (by omega)⟩, hall 2 (by omega)⟩, hall 3 (by omega)⟩, hall 4 (by omega)⟩,
    hall 5 (by omega)⟩, hall 6 (by omega)⟩, hall 7 (by omega)⟩

/-- the fast path of `lz4_count`: the fuel `limit − p + 1` of `count` is enough, and the inner
`while (*p == *match)` is entered only when a difference lies within the 8 bytes its fuel covers -/
theorem countFast_fuel (src : Bytes) (limit : Nat) : ∀ (fuel p m acc : Nat), limit - p < fuel →
    countFast src limit (fuel + 1) p m acc = countFast src limit fuel p m acc := by
  intro fuel
  induction fuel with
  | zero => intro p m acc h; omega
  | succ fuel ih =>
    intro p m acc h
    rw [countFast_succ src limit (fuel + 1) p m acc, countFast_succ src limit fuel p m acc]
    split
    · split
      · exact ih _ _ _ (by omega)
      · rfl
    · rfl

theorem countFast_firstDiff_fuel (src : Bytes) (p m acc : Nat) (h : ¬ eq8 src p m = true) :
    firstDiff src (8 + 1) p m acc = firstDiff src 8 p m acc :=
  firstDiff_fuel src 8 p m acc (differ_of_not_eq8 h)

/-- the match finder: `fuel = n` is enough from `ip = 0` -/
theorem findLoop_fuel (src : Bytes) (n : Nat) : ∀ (fuel ip anchor : Nat) (tbl : Array UInt16) (acc : List Seq),
    n - ip ≤ fuel →
    findLoop src n (fuel + 1) ip anchor tbl acc = findLoop src n fuel ip anchor tbl acc := by
  intro fuel
  induction fuel with
  | zero =>
    intro ip anchor tbl acc h
    rw [findLoop_succ, if_neg (by omega)]
    rfl
  | succ fuel ih =>
    intro ip anchor tbl acc h
    rw [findLoop_succ src n (fuel + 1) ip anchor tbl acc, findLoop_succ src n fuel ip anchor tbl acc]
    split
    · split
      · rename_i off mlen hp
        have := (probe_ok tbl hp).mlen_ge
        exact ih _ _ _ _ (by omega)
      · exact ih _ _ _ _ (by omega)
    · rfl

/-- the decoders: with more than `|bs|` fuel the accepted result does not depend on the fuel -/
theorem spec_loop_fuel (bs : List UInt8) (out : Array UInt8) (cap : Nat) (o : Array UInt8) (f1 f2 : Nat)
    (h1 : bs.length < f2) (hout : out.size ≤ cap)
    (h : Spec.Lz4.loop f1 bs out cap = .ok o) : Spec.Lz4.loop f2 bs out cap = .ok o := by
  have hs := Lz4Spec.loop_sound f1 bs out cap o h
  obtain ⟨ol⟩ := out
  have hle := (Lz4Decomp.loop_sim bs cap f1 0 ol (Nat.zero_le _) (by simpa using hout)).2
  simp only [List.drop_zero] at hle
  have := Lz4Spec.loop_complete hs f2 cap h1 (by simpa using hle o h)
  simpa using this

theorem findLoop_fuel_add (src : Bytes) (n : Nat) (tbl : Array UInt16) (acc : List Seq) : ∀ k : Nat,
    findLoop src n (n + k) 0 0 tbl acc = findLoop src n n 0 0 tbl acc := by
  intro k
  induction k with
  | zero => rfl
  | succ k ih => rw [← Nat.add_assoc, findLoop_fuel src n (n + k) 0 0 tbl acc (by omega), ih]

theorem count_fuel_add (src : Bytes) (p m limit : Nat) : ∀ k : Nat,
    countFast src limit (limit - p + 1 + k) p m 0 = count src p m limit := by
  intro k
  induction k with
  | zero => rfl
  | succ k ih => rw [← Nat.add_assoc, countFast_fuel src limit _ p m 0 (by omega), ih]

theorem decode_fuel_add (bs : List UInt8) (cap : Nat) (o : Array UInt8) (k : Nat) :
    Spec.Lz4.loop (bs.length + 1 + k) bs #[] cap = .ok o ↔ Spec.Lz4.loop (bs.length + 1) bs #[] cap = .ok o :=
  ⟨spec_loop_fuel bs #[] cap o _ _ (by omega) (by simp), spec_loop_fuel bs #[] cap o _ _ (by omega) (by simp)⟩

end Carquet.Proofs.Lz4Fuel
