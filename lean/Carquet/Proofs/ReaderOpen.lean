import Carquet.Proofs.ReaderModes
/-
What an accepted open means (helper lemmas for C18_prefix_rejected and C04_bad_indices_rejected).
-/
namespace Carquet.Proofs.ReaderOpen
open Carquet.Impl Carquet.Impl.Reader

/-- envelope + footer, as the model's three open paths require it when the file starts with the
magic: both magics, a footer length that fits, and a footer that `parquet_parse_file_metadata`
accepts — which (after 28d9213) includes the presence of version, schema, num_rows, row_groups —
and whose schema `build_schema` accepts -/
def Complete (p : Reader.Bytes) : Prop :=
  12 ≤ p.length ∧ p.take 4 = magic ∧ slice p (p.length - 4) 4 = magic ∧ footerLen p ≤ p.length - 8 ∧
  ∃ o, parseFooter (footerBytes p) = .ok o

theorem openFread_ok (p : Reader.Bytes) (o : Opened) (h : (openFread p).1 = .ok o) :
    12 ≤ p.length ∧ slice p (p.length - 4) 4 = magic ∧ footerLen p ≤ p.length - 8 ∧ parseFooter (footerBytes p) = .ok o := by
  unfold openFread at h
  split at h
  · cases h
  · split at h
    · cases h
    · split at h
      · cases h
      · rename_i h12 hm hf
        exact ⟨by omega, by simpa using hm, by omega, h⟩

theorem openMapped_ok (p : Reader.Bytes) (o : Opened) (h : (openMapped p).1 = .ok o) :
    12 ≤ p.length ∧ p.take 4 = magic ∧ slice p (p.length - 4) 4 = magic ∧ footerLen p ≤ p.length - 8 ∧
    parseFooter (footerBytes p) = .ok o := by
  unfold openMapped at h
  split at h
  · cases h
  · split at h
    · cases h
    · split at h
      · cases h
      · split at h
        · cases h
        · rename_i h12 h0 hm hf
          exact ⟨by omega, by simpa using h0, by simpa using hm, by omega, h⟩

/-- an accepted open, in any mode: the trailing magic, a fitting length, an accepted footer -/
theorem openFile_ok (mode : Mode) (p : Reader.Bytes) (o : Opened) (h : openFile mode p = .ok o) :
    12 ≤ p.length ∧ slice p (p.length - 4) 4 = magic ∧ footerLen p ≤ p.length - 8 ∧ parseFooter (footerBytes p) = .ok o := by
  cases mode with
  | fread => exact openFread_ok p o h
  | mmap =>
    have h' : (if p.length = 0 then openFread p else openMapped p).1 = .ok o := h
    split at h'
    · exact openFread_ok p o h'
    · have := openMapped_ok p o h'; exact ⟨this.1, this.2.2.1, this.2.2.2.1, this.2.2.2.2⟩
  | buffer =>
    have h' : (if p.length = 0 then (Except.error Err.invalidArgument, []) else openMapped p).1 = .ok o := h
    split at h'
    · cases h'
    · have := openMapped_ok p o h'; exact ⟨this.1, this.2.2.1, this.2.2.2.1, this.2.2.2.2⟩

/-- no "PAR1" strictly inside the file: at no prefix length `12 ≤ k < |f|` does the prefix end in the magic -/
def noInnerMagic (f : Reader.Bytes) : Bool :=
  (List.range f.length).all (fun k => decide (k < 12) || decide (slice f (k - 4) 4 ≠ magic))

theorem slice_take (f : Reader.Bytes) (k off len : Nat) (h : off + len ≤ k) : slice (f.take k) off len = slice f off len := by
  unfold slice
  rw [List.drop_take, List.take_take]
  congr 1; omega

theorem prefix_rejected_of_noInnerMagic (f : Reader.Bytes) (hn : noInnerMagic f = true) (k : Nat) (hk : k < f.length)
    (mode : Mode) : ∃ e, openFile mode (f.take k) = .error e := by
  cases hres : openFile mode (f.take k) with
  | error e => exact ⟨e, rfl⟩
  | ok o =>
    exfalso
    have h := openFile_ok mode _ o hres
    have hlen : (f.take k).length = k := by simp; omega
    rw [hlen] at h
    have hm : slice f (k - 4) 4 = magic := by
      rw [← slice_take f k (k - 4) 4 (by omega)]; exact h.2.1
    unfold noInnerMagic at hn
    rw [List.all_eq_true] at hn
    have := hn k (List.mem_range.mpr hk)
    simp only [Bool.or_eq_true, decide_eq_true_eq] at this
    rcases this with h1 | h1
    · omega
    · exact h1 hm

/-- a proper prefix of a file that starts with the magic is refused, or is `Complete` -/
theorem prefix_rejected_or_complete (f : Reader.Bytes) (hstart : f.take 4 = magic) (k : Nat) (mode : Mode) :
    (∃ e, openFile mode (f.take k) = .error e) ∨ Complete (f.take k) := by
  cases hres : openFile mode (f.take k) with
  | error e => exact Or.inl ⟨e, rfl⟩
  | ok o =>
    right
    have h := openFile_ok mode _ o hres
    refine ⟨h.1, ?_, h.2.1, h.2.2.1, o, h.2.2.2⟩
    have hk : 4 ≤ k := by
      have : (f.take k).length ≤ k := by simp; omega
      omega
    rw [List.take_take, Nat.min_eq_left hk]
    exact hstart

/-! ### get_column -/

theorem getColumn_ok (o : Opened) (rg col : Int) (c : Col) (h : getColumn o rg col = .ok c) :
    0 ≤ rg ∧ rg < o.md.rowGroups.length ∧ 0 ≤ col ∧ col < o.leaves.length ∧
    (∀ g, o.md.rowGroups[rg.toNat]? = some g → col < g.columns.length) ∧
    Carquet.Proofs.ReaderPlain.ColValid c := by
  unfold getColumn at h
  split at h
  · cases h
  · rename_i hrg
    split at h
    · cases h
    · rename_i hcol
      split at h
      · rename_i g lf hg hlf
        split at h
        · cases h
        · rename_i hcg
          split at h
          · cases h
          · split at h
            · cases h
            · split at h
              · cases h
              · rename_i m hm el hel
                split at h
                · cases h
                · rename_i hmis
                  simp only [Except.ok.injEq] at h
                  refine ⟨by omega, by omega, by omega, by omega, ?_, ?_⟩
                  · intro g' hg'
                    rw [hg] at hg'
                    simp only [Option.some.injEq] at hg'
                    subst hg'; omega
                  · intro h7
                    rw [← h] at h7 ⊢
                    simp only at h7 ⊢
                    simp only [chunkMismatch, Bool.or_eq_true, Bool.and_eq_true, decide_eq_true_eq, not_or, not_and] at hmis
                    obtain ⟨⟨⟨h1, h2⟩, h3⟩, h4⟩ := hmis
                    have : el.type = some 7 := by
                      rw [← h7]
                      exact (Decidable.of_not_not h2).symm
                    have := h3 this
                    omega
      · cases h

end Carquet.Proofs.ReaderOpen
