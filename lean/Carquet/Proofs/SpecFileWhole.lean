import Carquet.Proofs.SpecFileFooter
/-
Whole-file layer for the PLAIN class of layouts: every chunk without dictionary, pages stored
uncompressed with PLAIN values, no statistics, no unknown fields — free: page split, run plans of
both level streams, Thrift header form of the footer and of every page, CRC per page, gaps
between chunks, number of row groups, nesting, physical types, version, created_by.
-/
namespace Carquet.Proofs.SpecFile
open Carquet.Spec Carquet.Spec.File Carquet.Spec.Thrift

structure PlainChunk (cl : ChunkLayout) : Prop where
  codec : cl.codec = 0
  codecTag : cl.codecTag = none
  dict : cl.dict = none
  pages : ∀ pl ∈ cl.pages, PlainLayout pl
  chunkStats : cl.chunkStats = false
  metaExtra : cl.metaExtra = []
  chunkExtra : cl.chunkExtra = []

structure PlainFile (l : Layout) : Prop where
  chunks : ∀ g ∈ l.rowGroups, ∀ cl ∈ g, PlainChunk cl
  footerExtra : l.footerExtra = []
  schemaExtra : l.schemaExtra = []
  rowGroupExtra : l.rowGroupExtra = []

def chunkMeta (leaf : LeafInfo) (cl : ChunkLayout) (es : Chunk) (pos : Nat) (pages : Written) : ColumnMeta :=
  ⟨ptypeCode leaf.ptype, usedEncodings cl, leaf.path.map strBytes, 0, es.length, pages.usize, pages.bytes.length,
   pos + cl.gapBefore.length, none⟩

theorem writeChunk_plain {leaf : LeafInfo} {cl : ChunkLayout} {es : Chunk} {pos : Nat} {c : ChunkOut}
    (hp : PlainChunk cl) (hw : writeChunk leaf cl es pos = some c) :
    ∃ pages, writeDataPages leaf none cl.pages es = some pages ∧ wellFormedChunk leaf es = true ∧
      c.bytes = cl.gapBefore ++ pages.bytes ∧
      c.cmeta = .struct (ccFields (pos + cl.gapBefore.length) (chunkMeta leaf cl es pos pages)) ∧
      c.endPos = pos + cl.gapBefore.length + pages.bytes.length ∧ c.usize = pages.usize := by
  unfold writeChunk at hw
  rw [hp.dict] at hw
  simp only [Option.map_none] at hw
  split at hw
  · cases hw
  · rename_i hcond
    cases hpg : writeDataPages leaf none cl.pages es with
    | none => simp [hpg] at hw
    | some pages =>
      simp only [hpg, Option.some.injEq] at hw
      subst hw
      refine ⟨pages, rfl, ?_, ?_, ?_, ?_, ?_⟩
      · simp only [Bool.or_eq_true, Bool.not_eq_eq_eq_not, Bool.not_true, not_or, Bool.not_eq_false] at hcond
        exact hcond.1.1
      · simp
      · simp only [hp.codecTag, hp.codec, hp.chunkStats, hp.metaExtra, hp.chunkExtra, Option.getD_none, List.length_nil,
          Bool.false_eq_true, if_false]
        rw [columnChunkTV_eq]
        simp [chunkMeta]
      · simp
      · simp

theorem legal_usedEncodings (cl : ChunkLayout) (hp : PlainChunk cl) : (usedEncodings cl).all legalEncoding = true := by
  unfold usedEncodings
  rw [hp.dict]
  rw [List.all_eq_true]
  intro x hx
  have hx' := List.mem_eraseDups.mp hx
  simp only [List.nil_append, List.mem_append, List.mem_map] at hx'
  rcases hx' with ⟨p, hp', rfl⟩ | ⟨p, hp', rfl⟩
  · rw [(hp.pages p hp').values]; rfl
  · rw [(hp.pages p hp').kind]; rfl

theorem plain_usedEncodings (cl : ChunkLayout) (hp : PlainChunk cl) (hne : cl.pages ≠ []) :
    (usedEncodings cl).contains 0 = true := by
  unfold usedEncodings
  rw [hp.dict]
  cases hpg : cl.pages with
  | nil => exact absurd hpg hne
  | cons p r =>
    have hv := (hp.pages p (by rw [hpg]; simp)).values
    rw [List.contains_eq_any_beq, List.any_eq_true]
    refine ⟨0, ?_, by simp⟩
    apply List.mem_eraseDups.mpr
    simp [hv, valueEncTag]

theorem drop_take_middle {α : Type} (a b c : List α) : ((a ++ b ++ c).drop a.length).take b.length = b := by
  rw [List.append_assoc, List.drop_left, List.take_left]

/-- chunks of one row group -/
theorem readChunks_written (cfg : Config) (hcfg : cfg.strictTiling = false) :
    ∀ (leaves : List LeafInfo) (cls : List ChunkLayout) (ess : List Chunk) (pos : Nat) (g : GroupOut),
      (∀ cl ∈ cls, PlainChunk cl) → writeChunks leaves cls ess pos = some g → 4 ≤ pos →
      (∀ es ∈ ess, es.length < 2 ^ 31) →
      ∃ ms : List (Nat × ColumnMeta), g.metas = ms.map (fun p => TVal.struct (ccFields p.1 p.2)) ∧
        g.endPos = pos + g.bytes.length ∧
        g.usize = (ms.map (·.2.totalUncompressed)).sum ∧
        ∀ (pre post : Bytes) (footerStart p : Nat), pre.length = pos → pos + g.bytes.length ≤ footerStart →
          (pre ++ g.bytes ++ post).length < 2 ^ 31 →
          ∃ q, readChunks cfg (pre ++ g.bytes ++ post) footerStart leaves (ms.map (·.2)) p = .ok (ess, q)
  | [], [], [], pos, g, _, hw, _, _ => by
    simp only [writeChunks, Option.some.injEq] at hw
    subst hw
    exact ⟨[], rfl, by simp, rfl, fun pre post fs p _ _ _ => ⟨p, rfl⟩⟩
  | leaf :: ls, cl :: cls, es :: ess, pos, g, hpl, hw, hpos, hsmall => by
    simp only [writeChunks] at hw
    cases hc : writeChunk leaf cl es pos with
    | none => simp [hc] at hw
    | some c =>
      cases hr : writeChunks ls cls ess c.endPos with
      | none => simp [hc, hr] at hw
      | some g' =>
        simp only [hc, hr, Option.some.injEq] at hw
        subst hw
        obtain ⟨pages, hpages, hwf, hbytes, hmeta, hend, hcus⟩ := writeChunk_plain (hpl cl (by simp)) hc
        obtain ⟨ms', hms', hend', hus', hread'⟩ := readChunks_written cfg hcfg ls cls ess c.endPos g'
          (fun x hx => hpl x (by simp [hx])) hr (by omega) (fun x hx => hsmall x (by simp [hx]))
        refine ⟨(pos + cl.gapBefore.length, chunkMeta leaf cl es pos pages) :: ms', ?_, ?_, ?_, ?_⟩
        · simp [hmeta, hms']
        · simp only [List.length_append, hend', hend, hbytes]; omega
        · simp [hcus, hus', chunkMeta]
        · intro pre post fs p hpre hfs hlen
          simp only [hbytes, List.length_append] at hfs hlen
          -- the recursive call sees the same file with a longer prefix
          obtain ⟨q, hq⟩ := hread' (pre ++ (cl.gapBefore ++ pages.bytes)) post fs (pos + cl.gapBefore.length + pages.bytes.length)
            (by simp [hpre, hend]; omega) (by rw [hend]; omega) (by simp only [List.length_append] at hlen ⊢; omega)
          have hfile : pre ++ (cl.gapBefore ++ pages.bytes ++ g'.bytes) ++ post =
              (pre ++ cl.gapBefore) ++ pages.bytes ++ (g'.bytes ++ post) := by simp [List.append_assoc]
          have hfile2 : pre ++ (cl.gapBefore ++ pages.bytes ++ g'.bytes) ++ post =
              pre ++ (cl.gapBefore ++ pages.bytes) ++ g'.bytes ++ post := by simp [List.append_assoc]
          have hslice : ((pre ++ (cl.gapBefore ++ pages.bytes ++ g'.bytes) ++ post).drop (pos + cl.gapBefore.length)).take
              pages.bytes.length = pages.bytes := by
            rw [hfile]
            have : pos + cl.gapBefore.length = (pre ++ cl.gapBefore).length := by simp [hpre]
            rw [this]; exact drop_take_middle _ _ _
          have hchunk := readChunk_written cfg leaf cl.pages es pages (chunkMeta leaf cl es pos pages)
            (pos + cl.gapBefore.length) (hpl cl (by simp)).pages hpages hwf (by omega) (hsmall es (by simp))
            rfl (legal_usedEncodings cl (hpl cl (by simp))) (plain_usedEncodings cl (hpl cl (by simp))) rfl rfl
          have husize : chunkUsize (pages.bytes.length + 1) pages.bytes = some pages.usize := by
            have hwfe : ∀ e ∈ es, wellFormedEntry leaf e = true := by
              unfold wellFormedChunk at hwf
              simp only [Bool.and_eq_true, List.all_eq_true] at hwf
              exact hwf.1
            have hcount := plainPages_count_le leaf none cl.pages es pages (hpl cl (by simp)).pages hpages
            exact chunkUsize_written cfg leaf none cl.pages es pages _ (hpl cl (by simp)).pages hpages hwfe (by omega)
              (hsmall es (by simp)) (by omega)
          refine ⟨q, ?_⟩
          simp only [List.map_cons, hbytes]
          unfold readChunks
          simp only [chunkMeta, chunkStart, hcfg, Bool.false_and, Bool.false_eq_true, if_false, bind, Except.bind,
            pure, Except.pure]
          have h4 : ¬ (pos + cl.gapBefore.length < 4 ∨ pos + cl.gapBefore.length + pages.bytes.length > fs) := by omega
          simp only [ne_eq, not_true_eq_false, if_false, h4, hslice, husize]
          simp only [chunkMeta] at hchunk
          rw [hchunk]
          rw [hfile2]
          simp only [hq]
  | [], _ :: _, _, _, _, _, hw, _, _ => by simp [writeChunks] at hw
  | [], [], _ :: _, _, _, _, hw, _, _ => by simp [writeChunks] at hw
  | _ :: _, [], _, _, _, _, hw, _, _ => by simp [writeChunks] at hw
  | _ :: _, _ :: _, [], _, _, _, hw, _, _ => by simp [writeChunks] at hw

theorem rowGroupTV_eq (ms : List (Nat × ColumnMeta)) (tb nr : Nat) :
    rowGroupTV (ms.map (fun p => TVal.struct (ccFields p.1 p.2))) tb nr [] = .struct (rgFields ms tb nr) := by
  simp [rowGroupTV, rgFields, withExtras_nil]

/-- the row groups of a file -/
theorem readRowGroups_written (cfg : Config) (hcfg : cfg.strictTiling = false) (leaves : List LeafInfo) :
    ∀ (lay : List (List ChunkLayout)) (groups : List RowGroup) (pos : Nat) (G : GroupOut),
      (∀ g ∈ lay, ∀ cl ∈ g, PlainChunk cl) → writeGroups leaves [] lay groups pos = some G → 4 ≤ pos →
      (∀ g ∈ groups, ∀ es ∈ g.chunks, es.length < 2 ^ 31) →
      ∃ ds : List RgDesc, G.metas = ds.map (fun d => TVal.struct d.fields) ∧ G.endPos = pos + G.bytes.length ∧
        ds.map (·.numRows) = groups.map (groupRows leaves) ∧
        ∀ (pre post : Bytes) (footerStart p : Nat), pre.length = pos → pos + G.bytes.length ≤ footerStart →
          (pre ++ G.bytes ++ post).length < 2 ^ 31 →
          ∃ q, readRowGroups cfg (pre ++ G.bytes ++ post) footerStart leaves (ds.map RgDesc.meta') p = .ok (groups, q)
  | [], [], pos, G, _, hw, _, _ => by
    simp only [writeGroups, Option.some.injEq] at hw
    subst hw
    exact ⟨[], rfl, by simp, rfl, fun pre post fs p _ _ _ => ⟨p, rfl⟩⟩
  | cls :: r, g :: gs, pos, G, hpl, hw, hpos, hsmall => by
    simp only [writeGroups] at hw
    split at hw
    · cases hw
    · rename_i hrows
      cases ho : writeChunks leaves cls g.chunks pos with
      | none => simp [ho] at hw
      | some o =>
        cases hr : writeGroups leaves [] r gs o.endPos with
        | none => simp [ho, hr] at hw
        | some rest =>
          simp only [ho, hr, Option.some.injEq] at hw
          subst hw
          obtain ⟨ms, hms, hend, hous, hread⟩ := readChunks_written cfg hcfg leaves cls g.chunks pos o (hpl cls (by simp)) ho hpos
            (hsmall g (by simp))
          obtain ⟨ds', hds', hend', hnr', hread'⟩ := readRowGroups_written cfg hcfg leaves r gs o.endPos rest
            (fun x hx => hpl x (by simp [hx])) hr (by omega) (fun x hx => hsmall x (by simp [hx]))
          refine ⟨⟨ms, o.usize, groupRows leaves g⟩ :: ds', ?_, ?_, ?_, ?_⟩
          · simp only [List.map_cons, hds', hms, rowGroupTV_eq, RgDesc.fields]
          · simp only [List.length_append, hend', hend]; omega
          · simp [hnr']
          · intro pre post fs p hpre hfs hlen
            simp only [List.length_append] at hfs hlen
            obtain ⟨q1, hq1⟩ := hread pre (rest.bytes ++ post) fs p hpre (by omega)
              (by simp only [List.length_append]; omega)
            obtain ⟨q2, hq2⟩ := hread' (pre ++ o.bytes) post fs q1 (by simp [hpre, hend]) (by rw [hend]; omega)
              (by simp only [List.length_append]; omega)
            refine ⟨q2, ?_⟩
            have hf1 : pre ++ (o.bytes ++ rest.bytes) ++ post = pre ++ o.bytes ++ (rest.bytes ++ post) := by
              simp [List.append_assoc]
            have hf2 : pre ++ (o.bytes ++ rest.bytes) ++ post = pre ++ o.bytes ++ rest.bytes ++ post := by
              simp [List.append_assoc]
            simp only [Bool.not_eq_true] at hrows
            have hrows' : (List.zipWith (fun (l : LeafInfo) c => rowsOf l.maxRep c == groupRows leaves g) leaves g.chunks).all id = true := by
              simpa using hrows
            unfold readRowGroups
            simp only [List.map_cons, RgDesc.meta', bind, Except.bind, pure, Except.pure]
            rw [hf1, hq1]
            have hbs : ((ms.map (·.2)).map (·.totalUncompressed)).sum = o.usize := by
              rw [hous, List.map_map]; rfl
            simp only [hrows', Bool.not_true, Bool.false_eq_true, if_false, hbs, ne_eq, not_true_eq_false]
            rw [← hf1, hf2]
            rw [hq2]
  | [], _ :: _, _, _, _, hw, _, _ => by simp [writeGroups] at hw
  | _ :: _, [], _, _, _, hw, _, _ => by simp [writeGroups] at hw

/-- the footer value `writeFull` encodes (mirrors its definition) -/
def footerValue (t : Table) (l : Layout) : Option TVal :=
  match columnsOf t.schema with
  | .error _ => none
  | .ok leaves =>
    match writeGroups leaves l.rowGroupExtra l.rowGroups t.rowGroups 4 with
    | none => none
    | some g =>
      some (fileMetaTV l.version ((Schema.flatten t.schema).map (fun e => schemaElementTV e l.schemaExtra))
        ((t.rowGroups.map (groupRows leaves)).sum) g.metas l.createdBy l.footerExtra)

/-- **whole file, PLAIN class**: what the reference writer writes, the independent reader reads back. -/
theorem read_write_plain (t : Table) (l : Layout) (file : Bytes) (oracle : Oracle)
    (hpf : PlainFile l) (hw : writeFull t l = some (file, oracle))
    (hne : Schema.groupsNonEmpty t.schema = true)
    (hwf : ∀ v, footerValue t l = some v → v.wf = true)
    (hlen : file.length < 2 ^ 31)
    (hsmall : ∀ g ∈ t.rowGroups, ∀ es ∈ g.chunks, es.length < 2 ^ 31) :
    File.read file = .ok t := by
  obtain ⟨schema, groups⟩ := t
  unfold writeFull at hw
  unfold footerValue at hwf
  simp only at hw hwf hne hsmall
  cases hcols : columnsOf schema with
  | error e => simp [hcols] at hw
  | ok leaves =>
    simp only [hcols] at hw hwf
    rw [hpf.rowGroupExtra] at hw hwf
    cases hg : writeGroups leaves [] l.rowGroups groups 4 with
    | none => simp [hg] at hw
    | some G =>
      simp only [hg, Option.some.injEq, Prod.mk.injEq] at hw hwf
      obtain ⟨hfile, _⟩ := hw
      -- the root is a group
      cases schema with
      | leaf i => simp [columnsOf] at hcols
      | group i cs =>
        obtain ⟨ds, hds, hend, hnr, hread⟩ := readRowGroups_written ⟨false, []⟩ rfl leaves l.rowGroups groups 4 G
          hpf.chunks hg (by omega) hsmall
        -- the footer
        have hfooterTV : fileMetaTV l.version ((Schema.flatten (.group i cs)).map (fun e => schemaElementTV e l.schemaExtra))
            ((groups.map (groupRows leaves)).sum) G.metas l.createdBy l.footerExtra =
            .struct (fmFields l.version (Schema.flatten (.group i cs)) ((groups.map (groupRows leaves)).sum) ds l.createdBy) := by
          rw [hpf.schemaExtra, hpf.footerExtra, hds]
          simp [fileMetaTV, fmFields, withExtras_nil, schemaElementTV_eq]
        have hwf' := hwf _ rfl
        rw [hfooterTV] at hwf' hfile
        have hdec := decodeStruct_encodeValF l.form _ hwf'
        generalize hft : encodeValF l.form (.struct (fmFields l.version (Schema.flatten (.group i cs))
          ((groups.map (groupRows leaves)).sum) ds l.createdBy)) = ft at hfile hdec
        -- shape of the file
        have hparts : file = fileOfParts G.bytes ft := by
          rw [← hfile]; simp [fileOfParts, List.append_assoc]
        have hflen := fileOfParts_length G.bytes ft
        rw [← hparts] at hflen
        have hsplit := splitFile_fileOfParts G.bytes ft (by omega)
        rw [← hparts] at hsplit
        have hfile' : magic ++ G.bytes ++ (ft ++ File.leBytes 4 ft.length ++ magic) = file := by
          rw [hparts]; simp [fileOfParts, List.append_assoc]
        obtain ⟨q, hq⟩ := hread magic (ft ++ File.leBytes 4 ft.length ++ magic) (4 + G.bytes.length) 4 rfl (by omega)
          (by rw [hfile']; exact hlen)
        rw [hfile'] at hq
        have hsum : ((ds.map RgDesc.meta').map (·.numRows)).sum = (groups.map (groupRows leaves)).sum := by
          have : (ds.map RgDesc.meta').map (·.numRows) = ds.map (·.numRows) := by
            simp [List.map_map, RgDesc.meta', Function.comp_def]
          rw [this, hnr]
        unfold File.read readWith
        simp only [hsplit, bind, Except.bind, pure, Except.pure, parseFooter, hdec, fileMetaOf_fmFields,
          schemaOf_flatten i cs hne, hcols, hq, hsum]
        simp

end Carquet.Proofs.SpecFile
