import Carquet.Proofs.ImplReadsThrift
import Carquet.Proofs.SpecFileChunkFull
import Carquet.Proofs.ReaderHeaderReads
/-
C06, implementation half — stage "page headers": `parquet_parse_page_header`, as the page loaders
read its result (`parsePageHeaderC`: type, sizes, crc and the two union words), on the header of a
data page / dictionary page of the reference writer — in ANY header form (`ThriftForm`: short / long
field headers, short / long list headers, either bool spelling), with statistics and with unknown
fields in the page header, the member struct and the statistics (C13: `parsePageHeaderCX_reads`), and
with any bytes behind the header.
-/
namespace Carquet.Proofs.ImplReads
open Carquet.Spec Carquet.Spec.File Carquet.Spec.Thrift
open Carquet.Impl
open Carquet.Impl.ThriftParquetReq (PageHdr parsePageHeaderC)
open Carquet.Proofs.SpecFile (PageAdm DictAdm dataPageHdrTV dictPageHdrTV)

section helpers
open Carquet.Spec.ParquetThrift
open Carquet.Proofs.Thrift
open Carquet.Proofs.ReaderHeaderReads
open Carquet.Impl.ThriftParquet (DataPageHeader DictionaryPageHeader Statistics)
open Carquet.Impl.ThriftParquetReq (sentinel upd)

/-! ### the parser tables list only ids of the parquet.thrift tables -/

/-- an id the table knows is one of the table's keys -/
theorem lookupT_isSome_mem {σ : Type} (tbl : Table σ) (id : Int) (h : (lookupT tbl id).isSome = true) :
    id ∈ tbl.map (·.1) := by
  induction tbl with
  | nil => simp [lookupT] at h
  | cons e r ih =>
    obtain ⟨k, g⟩ := e
    simp only [lookupT] at h
    by_cases hk : id = k
    · simp [hk]
    · simp only [hk, if_false] at h
      simp only [List.map_cons, List.mem_cons]
      exact Or.inr (ih h)

theorem tblPageHdrC_sub (R : Nat) (id : Int) (h : (lookupT (tblPageHdrC R) id).isSome = true) :
    (pageHeader.find id).isSome = true := by
  have := lookupT_isSome_mem _ _ h
  simp only [tblPageHdrC, List.map_cons, List.map_nil, List.mem_cons, List.not_mem_nil, or_false] at this
  rcases this with rfl | rfl | rfl | rfl | rfl | rfl | rfl <;> rfl

theorem tblDataPage_sub (R : Nat) (id : Int) (h : (lookupT (tblDataPage R) id).isSome = true) :
    (dataPageHeader.find id).isSome = true := by
  have := lookupT_isSome_mem _ _ h
  simp only [tblDataPage, List.map_cons, List.map_nil, List.mem_cons, List.not_mem_nil, or_false] at this
  rcases this with rfl | rfl | rfl | rfl | rfl <;> rfl

theorem tblDictPage_sub (id : Int) (h : (lookupT tblDictPage id).isSome = true) :
    (dictionaryPageHeader.find id).isSome = true := by
  have := lookupT_isSome_mem _ _ h
  simp only [tblDictPage, List.map_cons, List.map_nil, List.mem_cons, List.not_mem_nil, or_false] at this
  rcases this with rfl | rfl | rfl <;> rfl

theorem tblStats_sub (id : Int) (h : (lookupT tblStats id).isSome = true) :
    (statistics.find id).isSome = true := by
  have := lookupT_isSome_mem _ _ h
  simp only [tblStats, List.map_cons, List.map_nil, List.mem_cons, List.not_mem_nil, or_false] at this
  rcases this with rfl | rfl | rfl | rfl | rfl | rfl | rfl | rfl <;> rfl

/-! ### field lists -/

theorem okFields_cons {σ : Type} (tbl : Table σ) (R : Nat) (id : Int) (v : TVal) (r : File.Fields)
    (h1 : okT tbl R id v) (h2 : okFields tbl R r) : okFields tbl R ((id, v) :: r) := by
  intro f hf
  rcases List.mem_cons.mp hf with h | h
  · subst h; exact h1
  · exact h2 f h

theorem okFields_optField {σ α : Type} (tbl : Table σ) (R : Nat) (id : Int) (mk : α → TVal) (o : Option α)
    (h : ∀ x, o = some x → okT tbl R id (mk x)) : okFields tbl R (optField id mk o) := by
  cases o with
  | none => exact okFields_nil tbl R
  | some x => exact okFields_cons tbl R id _ [] (h x rfl) (okFields_nil tbl R)

theorem ofFields_cons {σ : Type} (tbl : Table σ) (s : σ) (id : Int) (v : TVal) (r : File.Fields) :
    ofFields tbl s ((id, v) :: r) = ofFields tbl (stepT tbl s id v) r := rfl

theorem ofFields_nil {σ : Type} (tbl : Table σ) (s : σ) : ofFields tbl s [] = s := rfl

/-! ### Statistics -/

theorem statsTV_ok (s : StatsMeta) (extra : File.Fields) (hx : extrasOk statistics extra = true)
    (hd : extrasDepth 27 extra = true) :
    ∃ fs, statsTV s extra = .struct fs ∧ okFields tblStats 27 fs := by
  refine ⟨_, rfl, ?_⟩
  apply okFields_withExtras _ _ _ _ ?_ (lookupT_none_of_extrasOk _ _ _ tblStats_sub hx) hd
  simp only [okFields_append]
  refine ⟨⟨⟨⟨?_, ?_⟩, ?_⟩, ?_⟩, ?_⟩
  · exact okFields_optField _ _ _ _ _ (fun x _ => ⟨x, rfl⟩)
  · exact okFields_optField _ _ _ _ _ (fun x _ => ⟨x, rfl⟩)
  · exact okFields_optField _ _ _ _ _ (fun x _ => ⟨x, rfl⟩)
  · exact okFields_optField _ _ _ _ _ (fun x _ => ⟨x, rfl⟩)
  · exact okFields_optField _ _ _ _ _ (fun x _ => ⟨x, rfl⟩)

/-! ### the data page header member -/

theorem dataHdrTV_ok (h : DataHdr) (sx mx : File.Fields) (hsx : extrasOk statistics sx = true)
    (hsd : extrasDepth 27 sx = true) (hmx : extrasOk dataPageHeader mx = true) (hmd : extrasDepth 28 mx = true) :
    ∃ fs, dataHdrTV h sx mx = .struct fs ∧ okFields (tblDataPage 27) 28 fs ∧
      ∀ init : DataPageHeader,
        (ofFields (tblDataPage 27) init fs).numValues = (h.numValues : Int) ∧
        (ofFields (tblDataPage 27) init fs).encoding = h.encoding := by
  have hnone := lookupT_none_of_extrasOk (tblDataPage 27) _ _ (tblDataPage_sub 27) hmx
  refine ⟨_, rfl, ?_, ?_⟩
  · apply okFields_withExtras _ _ _ _ ?_ hnone hmd
    simp only [okFields_append]
    refine ⟨?_, ?_⟩
    · refine okFields_cons _ _ _ _ _ ?_ (okFields_cons _ _ _ _ _ ?_ (okFields_cons _ _ _ _ _ ?_
        (okFields_cons _ _ _ _ _ ?_ (okFields_nil _ _)))) <;> exact ⟨_, rfl⟩
    · exact okFields_optField _ _ _ _ _ (fun x _ => statsTV_ok x sx hsx hsd)
  · intro init
    rw [ofFields_withExtras _ _ _ _ hnone, ofFields_append]
    have e1 : ∀ (s : DataPageHeader) v, stepT (tblDataPage 27) s 1 (.i32 v) = { s with numValues := v } := fun _ _ => rfl
    have e2 : ∀ (s : DataPageHeader) v, stepT (tblDataPage 27) s 2 (.i32 v) = { s with encoding := v } := fun _ _ => rfl
    have e3 : ∀ (s : DataPageHeader) v, stepT (tblDataPage 27) s 3 (.i32 v) = { s with definitionLevelEncoding := v } := fun _ _ => rfl
    have e4 : ∀ (s : DataPageHeader) v, stepT (tblDataPage 27) s 4 (.i32 v) = { s with repetitionLevelEncoding := v } := fun _ _ => rfl
    have e5 : ∀ (s : DataPageHeader) (v : TVal), (stepT (tblDataPage 27) s 5 v).numValues = s.numValues ∧
        (stepT (tblDataPage 27) s 5 v).encoding = s.encoding := fun _ _ => ⟨rfl, rfl⟩
    simp only [ofFields_cons, ofFields_nil]
    rw [e1, e2, e3, e4]
    cases h.stats with
    | none => exact ⟨rfl, rfl⟩
    | some st => exact e5 _ _

/-! ### the dictionary page header member -/

theorem dictHdrTV_ok (h : DictHdr) (sorted : Option Bool) (mx : File.Fields)
    (hmx : extrasOk dictionaryPageHeader mx = true) (hmd : extrasDepth 27 mx = true) :
    ∃ fs, dictHdrTV h sorted mx = .struct fs ∧ okFields tblDictPage 27 fs ∧
      ∀ init : DictionaryPageHeader,
        (ofFields tblDictPage init fs).numValues = (h.numValues : Int) ∧
        (ofFields tblDictPage init fs).encoding = h.encoding := by
  have hnone := lookupT_none_of_extrasOk tblDictPage _ _ tblDictPage_sub hmx
  refine ⟨_, rfl, ?_, ?_⟩
  · apply okFields_withExtras _ _ _ _ ?_ hnone hmd
    simp only [okFields_append]
    refine ⟨?_, ?_⟩
    · refine okFields_cons _ _ _ _ _ ?_ (okFields_cons _ _ _ _ _ ?_ (okFields_nil _ _)) <;> exact ⟨_, rfl⟩
    · exact okFields_optField _ _ _ _ _ (fun x _ => ⟨x, rfl⟩)
  · intro init
    rw [ofFields_withExtras _ _ _ _ hnone, ofFields_append]
    have e1 : ∀ (s : DictionaryPageHeader) v, stepT tblDictPage s 1 (.i32 v) = { s with numValues := v } := fun _ _ => rfl
    have e2 : ∀ (s : DictionaryPageHeader) v, stepT tblDictPage s 2 (.i32 v) = { s with encoding := v } := fun _ _ => rfl
    have e3 : ∀ (s : DictionaryPageHeader) (v : TVal), (stepT tblDictPage s 3 v).numValues = s.numValues ∧
        (stepT tblDictPage s 3 v).encoding = s.encoding := fun _ _ => ⟨rfl, rfl⟩
    simp only [ofFields_cons, ofFields_nil]
    rw [e1, e2]
    cases sorted with
    | none => exact ⟨rfl, rfl⟩
    | some b => exact e3 _ _

/-! ### the page header -/

/-- the page header struct is acceptable to the parser when its member is -/
theorem pageHdrTV_ok (type : Int) (u c : Nat) (crc : Option Int) (mid : Int) (m : TVal) (hx : File.Fields)
    (hm : okT (tblPageHdrC 27) 29 mid m) (hhx : extrasOk pageHeader hx = true) (hhd : extrasDepth 29 hx = true) :
    ∃ fs, pageHdrTV type u c crc mid m hx = .struct fs ∧ okFields (tblPageHdrC 27) 29 fs ∧
      (ofFields (tblPageHdrC 27) ⟨initHdr, none⟩ fs).val =
        (stepT (tblPageHdrC 27) (⟨⟨type, u, c, crc, 0, 0⟩, none⟩ : HState) mid m).val := by
  have hnone := lookupT_none_of_extrasOk (tblPageHdrC 27) _ _ (tblPageHdrC_sub 27) hhx
  refine ⟨_, rfl, ?_, ?_⟩
  · apply okFields_withExtras _ _ _ _ ?_ hnone hhd
    simp only [okFields_append]
    refine ⟨⟨?_, ?_⟩, ?_⟩
    · refine okFields_cons _ _ _ _ _ ?_ (okFields_cons _ _ _ _ _ ?_ (okFields_cons _ _ _ _ _ ?_
        (okFields_nil _ _))) <;> exact ⟨_, rfl⟩
    · exact okFields_optField _ _ _ _ _ (fun x _ => ⟨x, rfl⟩)
    · exact okFields_cons _ _ _ _ _ hm (okFields_nil _ _)
  · rw [ofFields_withExtras _ _ _ _ hnone, ofFields_append, ofFields_append]
    have s1 : stepT (tblPageHdrC 27) (⟨initHdr, none⟩ : HState) 1 (.i32 type) = ⟨⟨type, 0, 0, none, 0, 0⟩, none⟩ := rfl
    have s2 : stepT (tblPageHdrC 27) (⟨⟨type, 0, 0, none, 0, 0⟩, none⟩ : HState) 2 (.i32 (u : Int)) =
        ⟨⟨type, u, 0, none, 0, 0⟩, none⟩ := rfl
    have s3 : stepT (tblPageHdrC 27) (⟨⟨type, u, 0, none, 0, 0⟩, none⟩ : HState) 3 (.i32 (c : Int)) =
        ⟨⟨type, u, c, none, 0, 0⟩, none⟩ := rfl
    have s4 : ofFields (tblPageHdrC 27) (⟨⟨type, u, c, none, 0, 0⟩, none⟩ : HState) (optField 4 TVal.i32 crc) =
        ⟨⟨type, u, c, crc, 0, 0⟩, none⟩ := by
      cases crc <;> rfl
    simp only [ofFields_cons, ofFields_nil]
    rw [s1, s2, s3, s4]

theorem upd_of_inI32 (old v : Int) (h : inI32 v) : upd old v = v := by
  unfold upd sentinel
  unfold inI32 at h
  rw [if_neg (by omega)]

/-! ### what well-formedness of the header value says about the value count -/

theorem pageHdrTV_wf_member (ty : Int) (u c : Nat) (crc : Option Int) (mid : Int) (member : TVal) (extra : File.Fields)
    (h : (pageHdrTV ty u c crc mid member extra).wf = true) : member.wf = true := by
  simp only [pageHdrTV, TVal.wf] at h
  rw [SpecFile.wfFields_withExtras, SpecFile.wfFields_append, SpecFile.wfFields_append] at h
  simp only [wfFields, Bool.and_eq_true] at h
  exact h.1.2.1.2

theorem dataHdrTV_wf_num (h : DataHdr) (se me : File.Fields) (hwf : (dataHdrTV h se me).wf = true) :
    inI32 (h.numValues : Int) := by
  simp only [dataHdrTV, TVal.wf] at hwf
  rw [SpecFile.wfFields_withExtras, SpecFile.wfFields_append] at hwf
  simp only [wfFields, TVal.wf, Bool.and_eq_true, decide_eq_true_eq] at hwf
  exact hwf.1.1.1.2

end helpers

open Carquet.Proofs.Thrift Carquet.Proofs.ReaderHeaderReads in
open Carquet.Impl.ThriftParquet (DataPageHeader DictionaryPageHeader) in
open Carquet.Impl.ThriftParquetReq (sentinel upd) in
theorem parse_dataPageHdr (leaf : LeafInfo) (pl : PageLayout) (es : List Entry) (ulen : Nat) (comp : Bytes)
    (hp : PageAdm pl) (hdepth : pageExtrasDepthOk pl = true)
    (hwf : (dataPageHdrTV leaf pl es ulen comp).wf = true) (rest : Bytes) :
    parsePageHeaderC (encodeValF pl.form (dataPageHdrTV leaf pl es ulen comp) ++ rest) =
      .ok ((⟨0, (ulen : Int), (comp.length : Int), (if pl.crc then some (crcField comp) else none), (es.length : Int),
             valueEncTag pl.values⟩ : ThriftParquetReq.PageHdr),
           (encodeValF pl.form (dataPageHdrTV leaf pl es ulen comp)).length) := by
  obtain ⟨h29, h28, h27⟩ : extrasDepth 29 pl.hdrExtra = true ∧ extrasDepth 28 pl.memberExtra = true ∧
      extrasDepth 27 pl.statsExtra = true := by
    unfold pageExtrasDepthOk at hdepth
    simp only [Bool.and_eq_true] at hdepth
    exact ⟨hdepth.1.1, hdepth.1.2, hdepth.2⟩
  unfold dataPageHdrTV at hwf ⊢
  generalize statsFor leaf pl.stats (es.map (·.dl)) (es.filterMap (·.val)) = st at hwf ⊢
  generalize hcrc : (if pl.crc then some (crcField comp) else none : Option Int) = crc at hwf ⊢
  have hn : inI32 (es.length : Int) :=
    dataHdrTV_wf_num ⟨es.length, valueEncTag pl.values, 3, 3, st⟩ _ _ (pageHdrTV_wf_member _ _ _ _ _ _ _ hwf)
  have he : inI32 (valueEncTag pl.values) := Carquet.Proofs.SpecFile.valueEncTag_inI32 hp.values
  obtain ⟨mfs, hm1, hm2, hm3⟩ := dataHdrTV_ok ⟨es.length, valueEncTag pl.values, 3, 3, st⟩ pl.statsExtra pl.memberExtra
    hp.statsExtra h27 hp.memberExtra h28
  rw [hm1] at hwf ⊢
  obtain ⟨fs, hf1, hf2, hf3⟩ := pageHdrTV_ok 0 ulen comp.length crc 5 (.struct mfs) pl.hdrExtra ⟨mfs, rfl, hm2⟩
    hp.hdrExtra h29
  rw [hf1] at hwf ⊢
  have henc := Carquet.Proofs.SpecFile.enc_encodeValF pl.form _ hwf
  obtain ⟨res, hres, h1, h2, h3⟩ := parsePageHeaderCX_reads 27 (by simp [Carquet.Impl.Thrift.maxNesting]) fs _ henc hf2 rest
  have s5 : (stepT (tblPageHdrC 27) (⟨⟨0, ulen, comp.length, crc, 0, 0⟩, none⟩ : HState) 5 (.struct mfs)).val =
      ⟨0, ulen, comp.length, crc,
        upd 0 (ofFields (tblDataPage 27) ({ numValues := sentinel, encoding := sentinel } : DataPageHeader) mfs).numValues,
        upd 0 (ofFields (tblDataPage 27) ({ numValues := sentinel, encoding := sentinel } : DataPageHeader) mfs).encoding⟩ := rfl
  rw [hf3, s5, (hm3 _).1, (hm3 _).2, upd_of_inI32 _ _ hn, upd_of_inI32 _ _ he] at h2
  unfold parsePageHeaderC
  rw [hres]
  obtain ⟨st', v, n, ov⟩ := res
  simp only at h1 h2 h3
  subst h1 h2 h3
  rfl

open Carquet.Proofs.Thrift Carquet.Proofs.ReaderHeaderReads in
open Carquet.Impl.ThriftParquet (DataPageHeader DictionaryPageHeader) in
open Carquet.Impl.ThriftParquetReq (sentinel upd) in
theorem parse_dictPageHdr (leaf : LeafInfo) (dl : DictLayout) (comp : Bytes)
    (hd : DictAdm dl) (hdepth : dictExtrasDepthOk dl = true)
    (hwf : (dictPageHdrTV leaf dl comp).wf = true) (rest : Bytes) :
    parsePageHeaderC (encodeValF dl.form (dictPageHdrTV leaf dl comp) ++ rest) =
      .ok ((⟨2, ((plainEncode leaf dl.values).length : Int), (comp.length : Int),
             (if dl.crc then some (crcField comp) else none), (dl.values.length : Int), (dl.encoding : Int)⟩ : ThriftParquetReq.PageHdr),
           (encodeValF dl.form (dictPageHdrTV leaf dl comp)).length) := by
  obtain ⟨h29, h27⟩ : extrasDepth 29 dl.hdrExtra = true ∧ extrasDepth 27 dl.memberExtra = true := by
    unfold dictExtrasDepthOk at hdepth
    simp only [Bool.and_eq_true] at hdepth
    exact hdepth
  unfold dictPageHdrTV at hwf ⊢
  generalize hcrc : (if dl.crc then some (crcField comp) else none : Option Int) = crc at hwf ⊢
  have hn : inI32 (dl.values.length : Int) := by
    have := hd.count
    unfold inI32; omega
  have he : inI32 (dl.encoding : Int) := by
    unfold inI32; rcases hd.encoding with h | h <;> rw [h] <;> decide
  obtain ⟨mfs, hm1, hm2, hm3⟩ := dictHdrTV_ok ⟨dl.values.length, dl.encoding⟩ dl.sorted dl.memberExtra hd.memberExtra h27
  rw [hm1] at hwf ⊢
  obtain ⟨fs, hf1, hf2, hf3⟩ := pageHdrTV_ok 2 (plainEncode leaf dl.values).length comp.length crc 7 (.struct mfs) dl.hdrExtra
    ⟨mfs, rfl, hm2⟩ hd.hdrExtra h29
  rw [hf1] at hwf ⊢
  have henc := Carquet.Proofs.SpecFile.enc_encodeValF dl.form _ hwf
  obtain ⟨res, hres, h1, h2, h3⟩ := parsePageHeaderCX_reads 27 (by simp [Carquet.Impl.Thrift.maxNesting]) fs _ henc hf2 rest
  have s7 : (stepT (tblPageHdrC 27) (⟨⟨2, (plainEncode leaf dl.values).length, comp.length, crc, 0, 0⟩, none⟩ : HState) 7
        (.struct mfs)).val =
      ⟨2, (plainEncode leaf dl.values).length, comp.length, crc,
        upd 0 (ofFields tblDictPage ({ numValues := sentinel, encoding := sentinel } : DictionaryPageHeader) mfs).numValues,
        upd 0 (ofFields tblDictPage ({ numValues := sentinel, encoding := sentinel } : DictionaryPageHeader) mfs).encoding⟩ := rfl
  rw [hf3, s7, (hm3 _).1, (hm3 _).2, upd_of_inI32 _ _ hn, upd_of_inI32 _ _ he] at h2
  unfold parsePageHeaderC
  rw [hres]
  obtain ⟨st', v, n, ov⟩ := res
  simp only at h1 h2 h3
  subst h1 h2 h3
  rfl

end Carquet.Proofs.ImplReads
